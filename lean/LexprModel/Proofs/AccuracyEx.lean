/-
  Accuracy of decimal literals (property C05), part 4: the regenerated `POW10` table satisfies the
  premise of the analysis, and concrete literals: the model's result is the one the real code
  returns (bits obtained from `lexpr::from_str(..).as_f64().to_bits()`, default features), it
  satisfies the proved bound, and the bound cannot be replaced by half an ulp.
-/
import LexprModel.Proofs.AccuracyTrunc
import LexprModel.TablesCheck
namespace Lexpr
namespace Accuracy
open Parse F64 Numbers Decimals

/-- the premise `hp` of `C05_accuracy_fast` for the regenerated table
    (`TablesCheck.pow10_rounded`) -/
theorem tab_rounded : ∀ k, k ≤ 308 → pow10Tab k = rn (10 ^ k) 1 := by
  intro k hk
  have h := TablesCheck.pow10_rounded.2
  rw [List.all_eq_true] at h
  have := h k (List.mem_range.mpr (by omega))
  simpa [pow10Tab] using this

/-- the loop of `f64_from_parts` on the real table -/
def fastReal (sig : Nat) (e : Int) : Option Nat :=
  fastParts pow10Tab (e.natAbs / 308 + 2) (F64.ofNat sig) e

/-- the accuracy theorem for the real table -/
theorem C05_accuracy_fast_real {sig : Nat} {e : Int} {f : Nat} (hs0 : sig ≠ 0) (hs64 : sig < 2 ^ 64)
    (h : fastReal sig e = some f) :
    f < infBits ∧
    dec sig e * (1 - c50) - a1074 ≤ val f ∧ val f ≤ dec sig e * (1 + c50) + a1074 :=
  C05_accuracy_fast tab_rounded hs0 hs64 h

/-! ### model result = real result (left), and the instance of the theorem (right) -/

/-- `1e-23`: real bits `0x3B282DB34012B252`, one ulp above the correctly rounded value -/
theorem ex_1em23 : fastReal 1 (-23) = some 0x3B282DB34012B252 := by decide +kernel
example := C05_accuracy_fast_real (by decide) (by decide) ex_1em23

/-- `123456789012345678e-300` (18 digits: `significand as f64` already rounds) -/
theorem ex_18digits : fastReal 123456789012345678 (-300) = some 0x05325BB52CFEE668 := by
  decide +kernel
example := C05_accuracy_fast_real (by decide) (by decide) ex_18digits

/-- `5e-324`: the smallest subnormal -/
theorem ex_5em324 : fastReal 5 (-324) = some 0x0000000000000001 := by decide +kernel
example := C05_accuracy_fast_real (by decide) (by decide) ex_5em324

/-- `1e-320` -/
theorem ex_1em320 : fastReal 1 (-320) = some 0x00000000000007E8 := by decide +kernel
example := C05_accuracy_fast_real (by decide) (by decide) ex_1em320

/-- `18446744073709551615e-340` (largest significand, two divisions, subnormal result),
    `12345678901234567e-330`, `99e-325`, `1e-308` (first quotient already subnormal) -/
theorem ex_more :
    fastReal 18446744073709551615 (-340) = some 0x0000000000000175 ∧
    fastReal 12345678901234567 (-330) = some 0x0000000094F08F0C ∧
    fastReal 99 (-325) = some 0x0000000000000002 ∧
    fastReal 1 (-308) = some 0x000730D67819E8D2 ∧
    fastReal 1797693134862315 293 = some 0x7FEFFFFFFFFFFFFB := by decide +kernel
example := C05_accuracy_fast_real (by decide) (by decide) ex_more.1

/-- three rounds of the loop: `18446744073709551615e-635` is `+0.0` (as on the real code) -/
theorem ex_zero : fastReal 18446744073709551615 (-635) = some 0 ∧ fastReal 7 (-617) = some 0 := by
  decide +kernel
example := C05_accuracy_fast_real (by decide) (by decide) ex_zero.1

/-! ### the inequalities evaluated directly (independent of the proof) -/

set_option exponentiation.threshold 2048 in
example :
    dec 1 (-23) * (1 - c50) - a1074 ≤ val 0x3B282DB34012B252 ∧
    val 0x3B282DB34012B252 ≤ dec 1 (-23) * (1 + c50) + a1074 ∧
    dec 5 (-324) * (1 - c50) - a1074 ≤ val 1 ∧ val 1 ≤ dec 5 (-324) * (1 + c50) + a1074 ∧
    dec 1 (-320) * (1 - c50) - a1074 ≤ val 0x7E8 ∧ val 0x7E8 ≤ dec 1 (-320) * (1 + c50) + a1074 ∧
    dec 123456789012345678 (-300) * (1 - c50) - a1074 ≤ val 0x05325BB52CFEE668 ∧
    val 0x05325BB52CFEE668 ≤ dec 123456789012345678 (-300) * (1 + c50) + a1074 := by
  decide +kernel

set_option exponentiation.threshold 2048 in
/-- The bound cannot be replaced by half an ulp (`2^-53` relative): `35e-165` is read (by the
    model and by the real code) as `0x1E001FC57A9C7823`, which is more than `1.5 * 2^-53` above,
    and `5213750638614607227e-311` as `0x0340A638A63FFAEA`, more than `2.5 * 2^-53` below the
    exact value.  `1e-23` is one ulp off the correctly rounded double, yet within `2^-53`.
    And no purely relative bound holds in the subnormal range: `5e-324` reads as
    `2^-1074 = 4.94e-324`, relative error above `2^-7`. -/
example :
    fastReal 35 (-165) = some 0x1E001FC57A9C7823 ∧
    dec 35 (-165) * (1 + u * (3 / 2)) < val 0x1E001FC57A9C7823 ∧
    fastReal 5213750638614607227 (-311) = some 0x0340A638A63FFAEA ∧
    val 0x0340A638A63FFAEA < dec 5213750638614607227 (-311) * (1 - u * (5 / 2)) ∧
    rnDec 1 (-23) = 0x3B282DB34012B251 ∧ val 0x3B282DB34012B252 ≤ dec 1 (-23) * (1 + u) ∧
    val 1 < dec 5 (-324) * (1 - 1 / 128) := by
  decide +kernel

/-! ### non-vacuity of the `rn` lemmas -/

set_option exponentiation.threshold 2048 in
example := rn_relerr (n := 1) (d := 10) (by decide) (by decide +kernel) (by decide +kernel)
set_option exponentiation.threshold 2048 in
example := rn_abserr (n := 1) (d := 10 ^ 320) (by decide) (by decide +kernel)
example := C05_accuracy_nofast (sig := 1) (e := -23) (by decide) (by decide +kernel)

/-! ### a literal through the scanner -/

/-- `1.25e-23` -/
def exLit2 : DecLit := ⟨asc "1", some (asc "25"), some ⟨101, asc "-", asc "23"⟩⟩

example : exLit2.text = asc "1.25e-23" ∧ exLit2.sig = 125 ∧ exLit2.exp10 = -25 ∧
    litValue exLit2 = dec 125 (-25) := by
  refine ⟨by decide, by decide, by decide, ?_⟩
  rw [← litValue_eq]; rfl

example (pos : Bool) :=
  C05_accuracy_literal exCfgFast 11 pos exLit2 (asc ")") (exSt (exLit2.text ++ asc ")"))
    (exLit2.wf_of_check (by decide)) rfl (by decide) (fun _ => rfl) (by decide) (by decide)
    (by decide) (fun _ => tab_rounded)
example (pos : Bool) :=
  C05_accuracy_literal exCfgSlow 11 pos exLit2 (asc ")") (exSt (exLit2.text ++ asc ")"))
    (exLit2.wf_of_check (by decide)) rfl (by decide) (fun _ => rfl) (by decide) (by decide)
    (by decide) (fun h => by cases h)

/-! ### over-long literals -/

/-- thirty integer digits and a fraction; `18446744073709551616.5` (2^64 + 0.5): the integer part
    overflows at its last digit, which is dropped, and the fraction digit `5` is then shifted
    into its place — the kept pair is `18446744073709551615 * 10^0` -/
example :
    DecLit.scanT ⟨asc "123456789012345678901234567890", some (asc "5"), none⟩ =
      (12345678901234567890, 10) ∧
    DecLit.scanT ⟨asc "18446744073709551616", some (asc "5"), none⟩ = (18446744073709551615, 0) := by
  decide +kernel

/-- the kept pairs give the bits the real code returns for these literals (and for
    `0.00000000000000000000123456789012345678901234567890e5`, kept as `12345678901234567890e-35`) -/
theorem ex_long :
    fastReal 12345678901234567890 10 = some 0x45F8EE90FF6C373E ∧
    fastReal 18446744073709551615 0 = some 0x43F0000000000000 ∧
    fastReal 12345678901234567890 (-35) = some 0x3CA1CAC067AFFEBC := by decide +kernel

example (pos : Bool) :=
  C05_accuracy_any_literal exCfgFast 40 pos
    ⟨asc "123456789012345678901234567890", some (asc "5"), none⟩ (asc ")")
    (exSt (asc "123456789012345678901234567890.5)")) (by decide) (by decide)
    (fun g hg => by cases hg; exact ⟨by decide, by decide⟩) (fun e he => by cases he)
    (Or.inl rfl) rfl (by decide) (fun h => by cases h) (fun _ => rfl) (by decide) (by decide)
    (fun _ => tab_rounded)

#print axioms tab_rounded
#print axioms C05_accuracy_fast_real

end Accuracy
end Lexpr
