/-
  Error analysis of the `fast-float-parsing` body of `f64_from_parts` (property C05, accuracy
  clause), part 2: the chain of roundings in `fastParts`.
-/
import LexprModel.Proofs.AccuracyRn
namespace Lexpr
namespace Accuracy
open Parse F64 Numbers Decimals

/-! ## 1. Propagation of bounds through one operation (pure rational arithmetic) -/

/-- `1 - 2^-53` -/
def rho : Rat := 1 - u
/-- `1 / (1 - 2^-53)` -/
def sigma : Rat := 1 / (1 - u)

theorem rho_pos : 0 < rho := by decide +kernel
theorem sigma_pos : 0 < sigma := by decide +kernel
theorem rho_sigma : rho * sigma = 1 := by decide +kernel
theorem rho_le_one : rho ≤ 1 := by decide +kernel
theorem rho_rho_le_one : rho * rho ≤ 1 := by decide +kernel
theorem one_add_u_le_sigma : 1 + u ≤ sigma := by decide +kernel
theorem one_add_u_rho : (1 + u) * rho ≤ 1 := by decide +kernel
theorem one_add_u_pos : 0 < 1 + u := by decide +kernel
theorem rho_eq : 1 - u = rho := rfl

theorem mul_le_mul_nn {a b c d : Rat} (h1 : a ≤ b) (h2 : c ≤ d) (ha : 0 ≤ a) (hc : 0 ≤ c) :
    a * c ≤ b * d := by
  have hb : 0 ≤ b := Rat.le_trans ha h1
  exact Rat.le_trans (Rat.mul_le_mul_of_nonneg_left h2 ha) (Rat.mul_le_mul_of_nonneg_right h1 (Rat.le_trans hc h2))

/-- division by a rounded constant followed by one rounding -/
theorem step_div {x' T a' P y g L U : Rat}
    (hT : 0 < T) (ha' : 0 ≤ a') (hy0 : 0 ≤ y)
    (hflo : x' * T * L - a' * T ≤ y * P) (hfhi : y * P ≤ x' * T * U + a' * T)
    (hPlo : T * rho ≤ P) (hPhi : P ≤ T * (1 + u))
    (hglo : y * rho - eta ≤ g) (hghi : g ≤ y * (1 + u) + eta) :
    x' * (L * rho * rho) - (a' + eta) ≤ g ∧
    g ≤ x' * (U * sigma * sigma) + (a' * sigma * sigma + eta) := by
  have hr := Rat.le_of_lt rho_pos
  have hs := Rat.le_of_lt sigma_pos
  constructor
  · have t1 : y * P ≤ y * (T * (1 + u)) := Rat.mul_le_mul_of_nonneg_left hPhi hy0
    have t2 : (x' * L - a') * T ≤ (y * (1 + u)) * T := by grind
    have t3 : x' * L - a' ≤ y * (1 + u) := Rat.le_of_mul_le_mul_right t2 hT
    have t4 := Rat.mul_le_mul_of_nonneg_right t3 hr
    have t5 : y * ((1 + u) * rho) ≤ y * 1 := Rat.mul_le_mul_of_nonneg_left one_add_u_rho hy0
    have t6 : (x' * L - a') * rho ≤ y := by grind
    have t7 := Rat.mul_le_mul_of_nonneg_right t6 hr
    have t8 : a' * (rho * rho) ≤ a' * 1 := Rat.mul_le_mul_of_nonneg_left rho_rho_le_one ha'
    grind
  · have s1 : y * (T * rho) ≤ y * P := Rat.mul_le_mul_of_nonneg_left hPlo hy0
    have s2 : (y * rho) * T ≤ (x' * U + a') * T := by grind
    have s3 : y * rho ≤ x' * U + a' := Rat.le_of_mul_le_mul_right s2 hT
    have s4 := Rat.mul_le_mul_of_nonneg_right s3 hs
    have e1 : y * rho * sigma = y := by rw [Rat.mul_assoc, rho_sigma, Rat.mul_one]
    rw [e1] at s4
    have s5 : y * (1 + u) ≤ y * sigma := Rat.mul_le_mul_of_nonneg_left one_add_u_le_sigma hy0
    have s6 := Rat.mul_le_mul_of_nonneg_right s4 hs
    grind

/-- multiplication by a rounded constant followed by one rounding -/
theorem step_mul {x T f P g L U : Rat}
    (hT : 0 < T) (hx : 0 ≤ x) (hL : 0 ≤ L)
    (hflo : x * L ≤ f) (hfhi : f ≤ x * U)
    (hPlo : T * rho ≤ P) (hPhi : P ≤ T * (1 + u))
    (hglo : f * P * rho - eta ≤ g) (hghi : g ≤ f * P * (1 + u) + eta) :
    (x * T) * (L * rho * rho) - eta ≤ g ∧ g ≤ (x * T) * (U * sigma * sigma) + eta := by
  have hr := Rat.le_of_lt rho_pos
  have hs := Rat.le_of_lt sigma_pos
  have hxL : 0 ≤ x * L := Rat.mul_nonneg hx hL
  have hf0 : 0 ≤ f := Rat.le_trans hxL hflo
  have hTr : 0 ≤ T * rho := Rat.mul_nonneg (Rat.le_of_lt hT) hr
  have hP0 : 0 ≤ P := Rat.le_trans hTr hPlo
  constructor
  · have t1 : (x * L) * (T * rho) ≤ f * P := mul_le_mul_nn hflo hPlo hxL hTr
    have t2 := Rat.mul_le_mul_of_nonneg_right t1 hr
    grind
  · have s0 : T * (1 + u) ≤ T * sigma :=
      Rat.mul_le_mul_of_nonneg_left one_add_u_le_sigma (Rat.le_of_lt hT)
    have s1 : f * P ≤ (x * U) * (T * sigma) :=
      mul_le_mul_nn hfhi (Rat.le_trans hPhi s0) hf0 hP0
    have hfP : 0 ≤ f * P := Rat.mul_nonneg hf0 hP0
    have s2 : f * P * (1 + u) ≤ (x * U) * (T * sigma) * sigma :=
      mul_le_mul_nn s1 one_add_u_le_sigma hfP (Rat.le_of_lt one_add_u_pos)
    grind

/-! ## 2. The inputs of the chain: `significand as f64` and the `POW10` entries -/

theorem div_one_cast (x : Rat) : x / ((1 : Nat) : Rat) = x := by
  have : ((1 : Nat) : Rat) = 1 := rfl
  rw [this, Rat.div_def]
  have : (1 : Rat)⁻¹ = 1 := by decide +kernel
  rw [this, Rat.mul_one]

set_option exponentiation.threshold 2048 in
theorem two_m1022_le_one : (2 : Rat) ^ (-1022 : Int) ≤ 1 := by
  have := two_zpow_mono (show (-1022 : Int) ≤ 0 by decide)
  simpa using this

theorem natCast_one_le {n : Nat} (h : 0 < n) : (1 : Rat) ≤ (n : Rat) := by
  have := Rat.natCast_le_natCast.mpr (show 1 ≤ n from h)
  simpa using this

/-- `n as f64` for `n ≥ 1` (always in the normal range) -/
theorem ofNat_err {n : Nat} (hn : 0 < n) (hfin : F64.ofNat n < infBits) :
    (n : Rat) * rho ≤ val (F64.ofNat n) ∧ val (F64.ofNat n) ≤ (n : Rat) * (1 + u) := by
  unfold F64.ofNat at *
  have h := rn_relerr (n := n) (d := 1) (by decide)
    (by rw [div_one_cast]; exact Rat.le_trans two_m1022_le_one (natCast_one_le hn)) hfin
  rw [div_one_cast] at h
  exact h

/-- a positive integer converts to a double `≥ 1.0` -/
theorem rn_ge_one {n : Nat} (hn : 0 < n) : oneBits ≤ rn n 1 := by
  have he := log2_bracket hn
  rw [rn_eq hn (by decide) he]
  simp only []
  have hge : ¬ ((Nat.log2 n : Int) < -1022) := by omega
  rw [if_neg hge]
  have hm := rne_ge (Nat.mul_pos (by decide : 0 < 1) (Nat.two_pow_pos _)) (mant_ge he)
  generalize rne (n * 2 ^ (-((Nat.log2 n : Int) - 52)).toNat)
    (1 * 2 ^ ((Nat.log2 n : Int) - 52).toNat) = m at *
  split
  · decide
  · have h1 : 1022 ≤ ((Nat.log2 n : Int) + 1022).toNat := by omega
    have := Nat.mul_le_mul_right two52 h1
    simp only [oneBits, two52] at *; omega

set_option exponentiation.threshold 2048 in
theorem ten308_le_maxFin : 10 ^ 308 ≤ maxFin * 1 := by decide +kernel

theorem one_le_ten_pow (k : Nat) : (1 : Rat) ≤ (10 : Rat) ^ k := by
  induction k with
  | zero => simp
  | succ k ih => rw [Rat.pow_succ]; grind

theorem ten_pow_cast (k : Nat) : ((10 ^ k : Nat) : Rat) = (10 : Rat) ^ k := by
  rw [Rat.natCast_pow]; rfl

/-- what the analysis needs of a `POW10` entry that is the correctly rounded power of ten -/
theorem tab_facts {pow10 : Nat → Nat} (hp : ∀ k, k ≤ 308 → pow10 k = rn (10 ^ k) 1) {k : Nat}
    (hk : k ≤ 308) :
    pow10 k < infBits ∧ oneBits ≤ pow10 k ∧
    (10 : Rat) ^ k * rho ≤ val (pow10 k) ∧ val (pow10 k) ≤ (10 : Rat) ^ k * (1 + u) ∧
    0 < val (pow10 k) := by
  rw [hp k hk]
  have hfin : rn (10 ^ k) 1 < infBits :=
    rn_finite (by decide)
      (Nat.le_trans (Nat.pow_le_pow_right (by decide) hk) ten308_le_maxFin)
  have h1 := one_le_ten_pow k
  have h := rn_relerr (n := 10 ^ k) (d := 1) (by decide)
    (by rw [div_one_cast, ten_pow_cast]; exact Rat.le_trans two_m1022_le_one h1) hfin
  rw [div_one_cast, ten_pow_cast, rho_eq] at h
  refine ⟨hfin, rn_ge_one (Nat.pow_pos (by decide)), h.1, h.2, ?_⟩
  have h0 : (0 : Rat) < (10 : Rat) ^ k := by grind
  have := Rat.mul_pos h0 rho_pos
  grind

/-! ## 3. `fastParts` on `+0.0` -/

theorem decode_zero : decode 0 = (0, -1074) := by decide

theorem mulPos_zero (b : Nat) : mulPos 0 b = 0 := by
  rw [mulPos_def, rnScaled_eq, decode_zero]
  simp [rn_zero_left]

theorem divPos_zero_left (b : Nat) : divPos 0 b = 0 := by
  rw [divPos_eq, decode_zero]
  simp [rn_zero_left]

theorem fast_zero (pow10 : Nat → Nat) : ∀ (fuel : Nat) (e : Int), fastParts pow10 fuel 0 e = some 0 := by
  intro fuel e
  cases fuel with
  | zero => rfl
  | succ n =>
    rw [fastParts]
    have hz : isZero 0 = true := by decide
    have hi : isInf 0 = false := by decide
    simp only [mulPos_zero, divPos_zero_left, hz, hi, if_true]
    split
    · split <;> rfl
    · rfl

theorem fast_small (pow10 : Nat → Nat) (fuel f : Nat) {e : Int} (h : e.natAbs ≤ 308) :
    fastParts pow10 (fuel + 1) f e =
      if e ≥ 0 then
        (if isInf (mulPos f (pow10 e.natAbs)) then none else some (mulPos f (pow10 e.natAbs)))
      else some (divPos f (pow10 e.natAbs)) := by
  rw [fastParts, if_pos h]

theorem fast_big (pow10 : Nat → Nat) (fuel f : Nat) {e : Int} (h : ¬ e.natAbs ≤ 308) :
    fastParts pow10 (fuel + 1) f e =
      if isZero f then some f else if e ≥ 0 then none
      else fastParts pow10 fuel (divPos f (pow10 308)) (e + 308) := by
  rw [fastParts, if_neg h]

/-! ## 4. Constants -/

/-- the relative bound `2^-50` -/
def c50 : Rat := 1 / 2 ^ 50
/-- the additive bound `2^-1074` (the smallest subnormal) -/
def a1074 : Rat := (2 : Rat) ^ (-1074 : Int)

theorem two_eta : eta + eta = a1074 := by decide +kernel
theorem c50_pos : 0 < c50 := by decide +kernel
theorem c50_le_one : c50 ≤ 1 := by decide +kernel
/-- the relative bound actually obtained: `6 * 2^-53` (five roundings, second-order terms) -/
def cTight : Rat := 6 * u
theorem cTight_le : cTight ≤ c50 := by decide +kernel
theorem cTight_pos : 0 < cTight := by decide +kernel
theorem cTight_le_one : cTight ≤ 1 := by decide +kernel
theorem L3 : 1 - cTight ≤ rho * rho * rho := by decide +kernel
theorem L5 : 1 - cTight ≤ rho * rho * rho * rho * rho := by decide +kernel
theorem U3 : (1 + u) * sigma * sigma ≤ 1 + cTight := by decide +kernel
theorem U5 : (1 + u) * sigma * sigma * sigma * sigma ≤ 1 + cTight := by decide +kernel
theorem sigma_sq_le : 8 * (sigma * sigma) ≤ 10 := by decide +kernel
/-- the additive bound actually obtained: `(1 + 1/8) * 2^-1075` -/
def aTight : Rat := eta * (9 / 8)
theorem aTight_le : aTight ≤ a1074 := by decide +kernel
theorem eta_le_aTight : eta ≤ aTight := by decide +kernel
theorem aTight_eq : aTight = eta + eta / 8 := by decide +kernel

/-- the exact value `sig * 10^e` of the pair handed to `f64_from_parts` -/
def dec (sig : Nat) (e : Int) : Rat := (sig : Rat) * (10 : Rat) ^ e

theorem ten_ne : (10 : Rat) ≠ 0 := by decide

theorem ten_zpow_pos (e : Int) : (0 : Rat) < (10 : Rat) ^ e := Rat.zpow_pos (by decide)

theorem dec_nonneg (sig : Nat) (e : Int) : 0 ≤ dec sig e := by
  unfold dec
  have h1 : (0 : Rat) ≤ (sig : Rat) := by
    have := Rat.natCast_le_natCast.mpr (Nat.zero_le sig); simpa using this
  exact Rat.mul_nonneg h1 (Rat.le_of_lt (ten_zpow_pos e))

/-- `sig * 10^e * 10^k = sig * 10^(e+k)` -/
theorem dec_mul_pow (sig : Nat) (e : Int) (k : Nat) :
    dec sig e * (10 : Rat) ^ k = dec sig (e + (k : Int)) := by
  unfold dec
  rw [Rat.zpow_add ten_ne, Rat.zpow_natCast, Rat.mul_assoc]

theorem dec_zero (sig : Nat) : dec sig 0 = (sig : Rat) := by
  unfold dec; rw [Rat.zpow_zero, Rat.mul_one]

theorem finish {x v L U A B b c : Rat} (hx : 0 ≤ x) (hL : 1 - c ≤ L) (hU : U ≤ 1 + c)
    (hA : A ≤ b) (hB : B ≤ b) (h1 : x * L - A ≤ v) (h2 : v ≤ x * U + B) :
    x * (1 - c) - b ≤ v ∧ v ≤ x * (1 + c) + b := by
  have := Rat.mul_le_mul_of_nonneg_left hL hx
  have := Rat.mul_le_mul_of_nonneg_left hU hx
  grind

theorem quot_nonneg {y P f : Rat} (hP : 0 < P) (hf : 0 ≤ f) (h : y * P = f) : 0 ≤ y := by
  apply Rat.not_lt.mp
  intro hneg
  have := Rat.mul_lt_mul_of_pos_right hneg hP
  grind

theorem div_mul_self' {f P : Rat} (hP : 0 < P) : f / P * P = f :=
  Rat.div_mul_cancel (by grind)

theorem ten_pow_ge_ten {k : Nat} (hk : 1 ≤ k) : (10 : Rat) ≤ (10 : Rat) ^ k := by
  obtain ⟨j, rfl⟩ : ∃ j, k = j + 1 := ⟨k - 1, by omega⟩
  rw [Rat.pow_succ]
  have := one_le_ten_pow j
  grind

/-! ## 5. The three shapes of the chain -/

section chain
variable {pow10 : Nat → Nat} (hp : ∀ k, k ≤ 308 → pow10 k = rn (10 ^ k) 1)
include hp

/-- `0 ≤ e ≤ 308`: `(sig as f64) * POW10[e]`, three roundings -/
theorem chain_mul {sig : Nat} {e : Int} (hs : 0 < sig) (hfin0 : F64.ofNat sig < infBits)
    (he0 : 0 ≤ e) (h308 : e.natAbs ≤ 308)
    (hfin : mulPos (F64.ofNat sig) (pow10 e.natAbs) < infBits) :
    dec sig e * (rho * rho * rho) - eta ≤ val (mulPos (F64.ofNat sig) (pow10 e.natAbs)) ∧
    val (mulPos (F64.ofNat sig) (pow10 e.natAbs)) ≤ dec sig e * ((1 + u) * sigma * sigma) + eta := by
  obtain ⟨f0lo, f0hi⟩ := ofNat_err hs hfin0
  obtain ⟨_, _, plo, phi, ppos⟩ := tab_facts hp h308
  obtain ⟨glo, ghi⟩ := mulPos_err hfin
  rw [rho_eq] at glo
  have hx : (0 : Rat) ≤ (sig : Rat) := Rat.le_trans (by decide) (natCast_one_le hs)
  have hT : (0 : Rat) < (10 : Rat) ^ e.natAbs := by have := one_le_ten_pow e.natAbs; grind
  have hd : dec sig e = (sig : Rat) * (10 : Rat) ^ e.natAbs := by
    have := dec_mul_pow sig 0 e.natAbs
    rw [dec_zero] at this
    rw [this]; congr 1; omega
  rw [hd]
  exact step_mul hT hx (Rat.le_of_lt rho_pos) f0lo f0hi plo phi glo ghi

/-- one division by a table entry: from bounds on `f` to bounds on `divPos f POW10[k]` -/
theorem chain_div {f k : Nat} {x' a' L U : Rat} (hk : k ≤ 308) (hf : f < infBits)
    (ha' : 0 ≤ a')
    (hflo : x' * (10 : Rat) ^ k * L - a' * (10 : Rat) ^ k ≤ val f)
    (hfhi : val f ≤ x' * (10 : Rat) ^ k * U + a' * (10 : Rat) ^ k) :
    divPos f (pow10 k) < infBits ∧
    x' * (L * rho * rho) - (a' + eta) ≤ val (divPos f (pow10 k)) ∧
    val (divPos f (pow10 k)) ≤ x' * (U * sigma * sigma) + (a' * sigma * sigma + eta) := by
  obtain ⟨pfin, pone, plo, phi, ppos⟩ := tab_facts hp hk
  have hfin := divPos_finite hf pone pfin
  obtain ⟨glo, ghi⟩ := divPos_err ppos hfin
  rw [rho_eq] at glo
  have hT : (0 : Rat) < (10 : Rat) ^ k := by have := one_le_ten_pow k; grind
  have hyP := div_mul_self' (f := val f) ppos
  have hy0 := quot_nonneg ppos (val_nonneg f) hyP
  refine ⟨hfin, ?_⟩
  exact step_div hT ha' hy0 (by rw [hyP]; exact hflo) (by rw [hyP]; exact hfhi) plo phi glo ghi

end chain

/-! ## 6. Far below the subnormal range: the result is `+0.0` -/

theorem le_div_const {y C D : Rat} (hC : 0 < C) (h : y * C ≤ D) : y ≤ D / C := by
  have e : D / C * C = D := div_mul_self' hC
  rw [← e] at h
  exact Rat.le_of_mul_le_mul_right h hC

theorem ten_zpow_mono {a b : Int} (h : a ≤ b) : (10 : Rat) ^ a ≤ (10 : Rat) ^ b := by
  obtain ⟨k, rfl⟩ : ∃ k : Nat, b = a + (k : Int) := ⟨(b - a).toNat, by omega⟩
  rw [Rat.zpow_add ten_ne, Rat.zpow_natCast]
  have h1 := one_le_ten_pow k
  have h2 := ten_zpow_pos a
  have := Rat.mul_le_mul_of_nonneg_left h1 (Rat.le_of_lt h2)
  simpa using this

set_option exponentiation.threshold 2048 in
theorem two1023_le_ten308_rho : (2 : Rat) ^ 1023 ≤ (10 : Rat) ^ 308 * rho := by decide +kernel

set_option exponentiation.threshold 2048 in
theorem tiny1 : (2 : Rat) ^ 65 / (2 : Rat) ^ 1023 * (1 + u) + eta ≤ 1 / (2 : Rat) ^ 900 := by
  decide +kernel

set_option exponentiation.threshold 2048 in
theorem tiny2 : 1 / (2 : Rat) ^ 900 / (2 : Rat) ^ 1023 < eta := by decide +kernel

set_option exponentiation.threshold 2048 in
theorem tiny3 : (2 : Rat) ^ 64 * (10 : Rat) ^ (-617 : Int) ≤ eta := by decide +kernel

theorem two64_one_add_u : (2 : Rat) ^ 64 * (1 + u) ≤ (2 : Rat) ^ 65 := by decide +kernel

section under
variable {pow10 : Nat → Nat} (hp : ∀ k, k ≤ 308 → pow10 k = rn (10 ^ k) 1)
include hp

set_option exponentiation.threshold 2048 in
/-- two divisions by `1e308` of a converted `u64` give `+0.0` -/
theorem two_divs_zero {sig : Nat} (hs : 0 < sig) (hs64 : sig < 2 ^ 64)
    (hfin0 : F64.ofNat sig < infBits) :
    divPos (divPos (F64.ofNat sig) (pow10 308)) (pow10 308) = 0 := by
  obtain ⟨_, f0hi⟩ := ofNat_err hs hfin0
  obtain ⟨pfin, pone, plo, _, ppos⟩ := tab_facts hp (Nat.le_refl 308)
  have hP : (2 : Rat) ^ 1023 ≤ val (pow10 308) := Rat.le_trans two1023_le_ten308_rho plo
  have hC : (0 : Rat) < (2 : Rat) ^ 1023 := by decide +kernel
  -- val f0 ≤ 2^65
  have hsig : (sig : Rat) ≤ (2 : Rat) ^ 64 := by
    have := Rat.natCast_le_natCast.mpr (Nat.le_of_lt hs64)
    rw [Rat.natCast_pow] at this
    exact this
  have h0 : val (F64.ofNat sig) ≤ (2 : Rat) ^ 65 := by
    have := Rat.mul_le_mul_of_nonneg_right hsig (Rat.le_of_lt one_add_u_pos)
    exact Rat.le_trans f0hi (Rat.le_trans this two64_one_add_u)
  -- first quotient
  have hfin1 := divPos_finite hfin0 pone pfin
  obtain ⟨_, g1hi⟩ := divPos_err (a := F64.ofNat sig) ppos hfin1
  have hy1 := div_mul_self' (f := val (F64.ofNat sig)) ppos
  have hy1nn := quot_nonneg ppos (val_nonneg _) hy1
  generalize val (F64.ofNat sig) / val (pow10 308) = y1 at *
  have b1 : y1 ≤ (2 : Rat) ^ 65 / (2 : Rat) ^ 1023 := by
    apply le_div_const hC
    have := Rat.mul_le_mul_of_nonneg_left hP hy1nn
    grind
  have b2 : val (divPos (F64.ofNat sig) (pow10 308)) ≤ 1 / (2 : Rat) ^ 900 := by
    have := Rat.mul_le_mul_of_nonneg_right b1 (Rat.le_of_lt one_add_u_pos)
    have := tiny1
    grind
  -- second quotient
  apply divPos_zero ppos
  have hy2 := div_mul_self' (f := val (divPos (F64.ofNat sig) (pow10 308))) ppos
  have hy2nn := quot_nonneg ppos (val_nonneg _) hy2
  generalize val (divPos (F64.ofNat sig) (pow10 308)) / val (pow10 308) = y2 at *
  have b3 : y2 ≤ 1 / (2 : Rat) ^ 900 / (2 : Rat) ^ 1023 := by
    apply le_div_const hC
    have := Rat.mul_le_mul_of_nonneg_left hP hy2nn
    grind
  have := tiny2
  grind

end under

/-- a finite double whose magnitude bits are zero is the pattern `0` -/
theorem eq_zero_of_isZero {f : Nat} (hf : f < infBits) (hz : isZero f = true) : f = 0 := by
  unfold isZero at hz
  simp only [infBits, signBit] at *
  have h1 : f % 9223372036854775808 = f := by omega
  rw [h1] at hz
  simpa using hz

/-- below `10^-616` a `u64` significand denotes less than `2^-1074` -/
theorem dec_tiny {sig : Nat} {e : Int} (hs64 : sig < 2 ^ 64) (he : e ≤ -617) :
    dec sig e ≤ eta := by
  unfold dec
  have hsig : (sig : Rat) ≤ (2 : Rat) ^ 64 := by
    have := Rat.natCast_le_natCast.mpr (Nat.le_of_lt hs64)
    rw [Rat.natCast_pow] at this
    exact this
  have h0 : (0 : Rat) ≤ (sig : Rat) := by
    have := Rat.natCast_le_natCast.mpr (Nat.zero_le sig); simpa using this
  have h1 := ten_zpow_mono he
  have := mul_le_mul_nn hsig h1 h0 (Rat.le_of_lt (ten_zpow_pos e))
  exact Rat.le_trans this tiny3

/-! ## 7. The accuracy of the fast path -/

/-- **C05_accuracy_fast_tight.**  The analysis with the constants it actually yields: relative
    `6 * 2^-53` (at most five roundings: `significand as f64`, two table entries, two operations)
    and additive `(1 + 1/8) * 2^-1075`: one half of the smallest subnormal for the last rounding,
    plus at most one eighth of that for an earlier quotient in the subnormal range (it is divided
    by at least ten afterwards).  See `C05_accuracy_fast` for the statement asked for. -/
theorem C05_accuracy_fast_tight {pow10 : Nat → Nat} (hp : ∀ k, k ≤ 308 → pow10 k = rn (10 ^ k) 1)
    {sig : Nat} {e : Int} {f : Nat} (hs0 : sig ≠ 0) (hs64 : sig < 2 ^ 64)
    (h : fastParts pow10 (e.natAbs / 308 + 2) (F64.ofNat sig) e = some f) :
    f < infBits ∧
    dec sig e * (1 - cTight) - aTight ≤ val f ∧ val f ≤ dec sig e * (1 + cTight) + aTight := by
  have hs : 0 < sig := Nat.pos_of_ne_zero hs0
  have hfin0 : F64.ofNat sig < infBits := ofNat_finite (by unfold u64Max; omega)
  have hz0 : isZero (F64.ofNat sig) = false := isZero_ofNat hs
  have hx := dec_nonneg sig e
  have heta : eta ≤ aTight := eta_le_aTight
  by_cases h308 : e.natAbs ≤ 308
  · rw [show e.natAbs / 308 + 2 = (e.natAbs / 308 + 1) + 1 from rfl, fast_small _ _ _ h308] at h
    by_cases he0 : e ≥ 0
    · rw [if_pos he0] at h
      split at h
      · cases h
      · next hinf =>
        injection h with h; subst h
        have hfin := lt_inf_of_not_isInf (mulPos_le_inf _ _) (by simpa using hinf)
        obtain ⟨g1, g2⟩ := chain_mul hp hs hfin0 he0 h308 hfin
        exact ⟨hfin, finish hx L3 U3 heta heta g1 g2⟩
    · rw [if_neg he0] at h
      injection h with h; subst h
      have hxT : dec sig e * (10 : Rat) ^ e.natAbs = (sig : Rat) := by
        rw [dec_mul_pow, ← dec_zero sig]; congr 1; omega
      obtain ⟨f0lo, f0hi⟩ := ofNat_err hs hfin0
      obtain ⟨hfin, g1, g2⟩ := chain_div hp (x' := dec sig e) (a' := 0) (L := rho) (U := 1 + u)
        h308 hfin0 Rat.le_refl
        (by rw [hxT, Rat.zero_mul]; grind) (by rw [hxT, Rat.zero_mul]; grind)
      refine ⟨hfin, finish hx L3 U3 (A := 0 + eta) (B := 0 * sigma * sigma + eta)
        (by grind) (by grind) g1 g2⟩
  · rw [show e.natAbs / 308 + 2 = (e.natAbs / 308 + 1) + 1 from rfl, fast_big _ _ _ h308, hz0] at h
    simp only [Bool.false_eq_true, if_false] at h
    by_cases he0 : e ≥ 0
    · rw [if_pos he0] at h; cases h
    · rw [if_neg he0] at h
      -- first division by 1e308
      have hx1T : dec sig (-308) * (10 : Rat) ^ 308 = (sig : Rat) := by
        rw [dec_mul_pow, ← dec_zero sig]; congr 1
      obtain ⟨f0lo, f0hi⟩ := ofNat_err hs hfin0
      obtain ⟨hfin1, f1lo, f1hi⟩ := chain_div hp (x' := dec sig (-308)) (a' := 0) (L := rho)
        (U := 1 + u) (Nat.le_refl 308) hfin0 Rat.le_refl
        (by rw [hx1T, Rat.zero_mul]; grind) (by rw [hx1T, Rat.zero_mul]; grind)
      generalize hf1 : divPos (F64.ofNat sig) (pow10 308) = f1 at *
      by_cases h616 : (e + 308).natAbs ≤ 308
      · rw [fast_small _ _ _ h616, if_neg (show ¬ (e + 308 ≥ 0) by omega)] at h
        injection h with h; subst h
        have hk1 : 1 ≤ (e + 308).natAbs := by omega
        have hT10 := ten_pow_ge_ten hk1
        have hT0 : (0 : Rat) < (10 : Rat) ^ (e + 308).natAbs := by grind
        have hxT : dec sig e * (10 : Rat) ^ (e + 308).natAbs = dec sig (-308) := by
          rw [dec_mul_pow]; congr 1; omega
        have haT := div_mul_self' (f := eta) hT0
        have ha0 := quot_nonneg hT0 (Rat.le_of_lt eta_pos) haT
        generalize eta / (10 : Rat) ^ (e + 308).natAbs = a' at *
        obtain ⟨hfin, g1, g2⟩ := chain_div hp (x' := dec sig e) (a' := a') (L := rho * rho * rho)
          (U := (1 + u) * sigma * sigma) h616 hfin1 ha0
          (by rw [hxT, haT]; grind) (by rw [hxT, haT]; grind)
        have hA : a' * 8 ≤ eta := by
          have := Rat.mul_le_mul_of_nonneg_left (Rat.le_trans (by decide) hT10 : (8 : Rat) ≤ _) ha0
          grind
        have hB : a' * (8 * (sigma * sigma)) ≤ eta := by
          have := Rat.mul_le_mul_of_nonneg_left (Rat.le_trans sigma_sq_le hT10) ha0
          grind
        have h2e := aTight_eq
        refine ⟨hfin, finish hx (L := rho * rho * rho * rho * rho)
          (U := (1 + u) * sigma * sigma * sigma * sigma) L5 U5 (A := a' + eta)
          (B := a' * sigma * sigma + eta) (by grind) (by grind) g1 g2⟩
      · -- e < -616: the result is +0.0 and the exact value is below 2^-1075
        have hf0 : f = 0 := by
          rw [fast_big _ _ _ h616] at h
          split at h
          · next hz =>
            injection h with h; subst h
            exact eq_zero_of_isZero hfin1 hz
          · rw [if_neg (show ¬ (e + 308 ≥ 0) by omega)] at h
            have hz := two_divs_zero hp hs hs64 hfin0
            rw [hf1] at hz
            rw [hz, fast_zero] at h
            injection h with h; exact h.symm
        subst hf0
        have ht := dec_tiny (sig := sig) hs64 (show e ≤ -617 by omega)
        have hc1 := cTight_pos
        have hc2 := cTight_le_one
        have := Rat.mul_le_mul_of_nonneg_left hc2 hx
        have := Rat.mul_le_mul_of_nonneg_left (Rat.le_of_lt hc1) hx
        rw [val_zero]
        refine ⟨by decide, ?_, ?_⟩ <;> grind

/-- **C05_accuracy_fast.**  Build with `fast-float-parsing`, every `POW10[k]` the correctly rounded
    `10^k` (true of the regenerated table: `TablesCheck.pow10_rounded`).  For a non-zero `u64`
    significand and any exponent: if the loop of `f64_from_parts` returns the double `f`, then `f`
    is finite and

      `|f - sig * 10^e| ≤ 2^-50 * (sig * 10^e) + 2^-1074`.

    (Two-sided form; `val f` is the rational value of the bits `f`, `dec sig e = sig * 10^e`,
    `c50 = 2^-50`, `a1074 = 2^-1074`.) -/
theorem C05_accuracy_fast {pow10 : Nat → Nat} (hp : ∀ k, k ≤ 308 → pow10 k = rn (10 ^ k) 1)
    {sig : Nat} {e : Int} {f : Nat} (hs0 : sig ≠ 0) (hs64 : sig < 2 ^ 64)
    (h : fastParts pow10 (e.natAbs / 308 + 2) (F64.ofNat sig) e = some f) :
    f < infBits ∧
    dec sig e * (1 - c50) - a1074 ≤ val f ∧ val f ≤ dec sig e * (1 + c50) + a1074 := by
  obtain ⟨h1, h2, h3⟩ := C05_accuracy_fast_tight hp hs0 hs64 h
  have := aTight_le
  have := Rat.mul_le_mul_of_nonneg_left cTight_le (dec_nonneg sig e)
  exact ⟨h1, by grind, by grind⟩

/-- a zero significand gives `+0.0` for every exponent -/
theorem fast_sig_zero (pow10 : Nat → Nat) (fuel : Nat) (e : Int) :
    fastParts pow10 fuel (F64.ofNat 0) e = some 0 := by
  have : F64.ofNat 0 = 0 := by decide
  rw [this, fast_zero]

#print axioms C05_accuracy_fast_tight
#print axioms C05_accuracy_fast

end Accuracy
end Lexpr
