/-
  C08 — "a token is read as a number only if the whole token is a numeric literal": whenever
  `parse_token` returns a number, for ANY input, option set and reader state, the reader has
  stopped at the end of input or in front of a delimiter (`C08_number_delimited`): the number
  parser's `expect_number_end`, or — on the leading-digit path — the end of the symbol that was
  checked as a whole.  So `1+`, `+5x`, `#x1Fz` are never a number followed by something else
  (they are errors, or — `1+` under leading-digit symbols — symbols).
  Same goal-directed style as `Opens` in `FrameScan.lean`.
-/
import LexprModel.Proofs.FrameTok
namespace Lexpr
namespace Parse
namespace C08

/-- the reader is at the end of input or in front of a delimiter -/
def EndsDelim (s : St) : Prop :=
  s.rd.rest = [] ∨ ∃ b bs, s.rd.rest = b :: bs ∧ isDelimiter b = true

structure NumEnd (m : P Token) : Prop where
  ok : ∀ s n s', m s = .ok (.number n) s' → EndsDelim s'

theorem NumEnd.pure_other {t : Token} (h : ∀ n, t ≠ .number n) : NumEnd (pure t) := by
  constructor
  intro s n s' hr
  simp only [pure_apply, Res.ok.injEq] at hr
  exact absurd hr.1 (h n)
theorem NumEnd.bind {α : Type} {m : P α} {f : α → P Token} (hf : ∀ a, NumEnd (f a)) :
    NumEnd (m >>= f) := by
  constructor
  intro s n s' hr
  obtain ⟨a, s1, _, h2⟩ := bind_ok' hr
  exact (hf a).ok s1 n s' h2
theorem NumEnd.num {m : P Number} (hm : ∀ s n s', m s = .ok n s' → EndsDelim s') :
    NumEnd (m >>= fun n => pure (.number n)) := by
  constructor
  intro s n s' hr
  obtain ⟨a, s1, h1, h2⟩ := bind_ok' hr
  simp only [pure_apply, Res.ok.injEq] at h2
  rw [← h2.2]
  exact hm s a s1 h1
theorem NumEnd.afterEnds {α : Type} {m : P α} {f : α → P Token}
    (hm : ∀ s a s', m s = .ok a s' → EndsDelim s')
    (hf : ∀ a s t s', f a s = .ok t s' → s' = s) : NumEnd (m >>= f) := by
  constructor
  intro s n s' hr
  obtain ⟨a, s1, h1, h2⟩ := bind_ok' hr
  rw [hf a s1 _ s' h2]
  exact hm s a s1 h1
theorem NumEnd.ite {c : Prop} [Decidable c] {f g : P Token} (hf : NumEnd f) (hg : NumEnd g) :
    NumEnd (if c then f else g) := by
  split <;> assumption
theorem NumEnd.peekErr (c : Code) : NumEnd (peekErr c) := ⟨fun _ _ _ h => by cases h⟩
theorem NumEnd.panicAt (p : Site) : NumEnd (panicAt p) := ⟨fun _ _ _ h => by cases h⟩
theorem NumEnd.rawErr (e : Err) : NumEnd (fun s' => Res.err e s') := ⟨fun _ _ _ h => by cases h⟩
theorem numEnd_symbolToken (o : Options) (name : List UInt8) :
    NumEnd (Pure.pure (Parse.symbolToken o name)) := by
  apply NumEnd.pure_other
  intro n
  rcases symbolToken_cases o name with h | h <;> rw [h] <;> intro e <;> cases e

/-! ### where the three number-producing paths stop -/

theorem parseNumToken_ends (cfg : Cfg) (fuel : Nat) (pos : Bool) :
    ∀ s n s', parseNumToken cfg fuel pos s = .ok n s' → EndsDelim s' :=
  fun _ _ _ h => (parseNumToken_ok h).2

theorem parseRadixToken_ends (cfg : Cfg) (fuel radix : Nat) :
    ∀ s n s', parseRadixToken cfg fuel radix s = .ok n s' → EndsDelim s' := by
  intro s n s' h
  unfold parseRadixToken at h
  obtain ⟨m, s1, _, h2⟩ := bind_ok' h
  exact (expectNumberEnd_ok h2).2.2

theorem symLen_drop_ends (m : Mode) : ∀ l : List UInt8,
    l.drop (symLen m l) = [] ∨ ∃ b bs, l.drop (symLen m l) = b :: bs ∧ symTermSlice b = true := by
  intro l
  induction l with
  | nil => left; rfl
  | cons x xs ih =>
    by_cases hx : symTermSlice x = true
    · right
      exact ⟨x, xs, by simp [symLen, symTerm_slice, hx], hx⟩
    · have hx' : symTermSlice x = false := by simpa using hx
      simpa [symLen, symTerm_slice, hx'] using ih

theorem term_delimiter : ∀ b : UInt8, symTermSlice b = true → isDelimiter b = true := by
  apply byte_forall; decide +kernel

theorem parseSymbolBytes_ends (sc : List UInt8) :
    ∀ s name s', parseSymbolBytes sc s = .ok name s' → EndsDelim s' := by
  intro s name s' h
  unfold parseSymbolBytes at h
  simp only [bind_apply, getRest_eq, getMode_eq, consumeN_eq] at h
  cases hp : peek (s.adv (symLen s.rd.mode s.rd.rest)) with
  | ok o s1 =>
    rw [hp] at h
    obtain ⟨_, hr, _⟩ := peek_ok hp
    have hs' : s' = s1 := by
      simp only at h
      split at h
      · simp [errAt] at h
      · split at h
        · simp only [pure_apply, Res.ok.injEq] at h; exact h.2.symm
        · split at h
          · simp only [pure_apply, Res.ok.injEq] at h; exact h.2.symm
          · split at h <;> simp [errAt] at h
    subst hs'
    unfold EndsDelim
    rw [hr, adv_rest]
    rcases symLen_drop_ends s.rd.mode s.rd.rest with h0 | ⟨b, bs, h1, h2⟩
    · exact .inl h0
    · exact .inr ⟨b, bs, h1, term_delimiter b h2⟩
  | err e s1 => rw [hp] at h; cases h
  | panic p => rw [hp] at h; cases h
  | fuel => rw [hp] at h; cases h

theorem wholeArm_pure (cfg : Cfg) (sym : List UInt8) (s : St) (t : Token) (s' : St)
    (h : (match wholeNumber cfg sym with
          | some n => (pure (.number n) : P Token)
          | none => pure (symbolToken cfg.opts sym)) s = .ok t s') : s' = s := by
  cases hw : wholeNumber cfg sym <;> rw [hw] at h <;> (injection h with _ h2; exact h2.symm)

theorem numEnd_parseSignToken (cfg : Cfg) (fuel : Nat) (sign : UInt8) (pos : Bool) :
    NumEnd (parseSignToken cfg fuel sign pos) := by
  simp only [Parse.parseSignToken, Parse.parseSignDotSymbol]
  repeat' (first
    | exact numEnd_symbolToken _ _ | exact NumEnd.peekErr _
    | exact NumEnd.num (parseNumToken_ends _ _ _)
    | apply NumEnd.bind | apply NumEnd.ite | intro _)

theorem numEnd_parseToken (cfg : Cfg) (fuel : Nat) (pk : UInt8) : NumEnd (parseToken cfg fuel pk) := by
  simp only [Parse.parseToken]
  repeat' (first
    | exact numEnd_symbolToken _ _ | exact NumEnd.peekErr _ | exact NumEnd.panicAt _
    | exact NumEnd.rawErr _ | exact numEnd_parseSignToken _ _ _ _
    | exact NumEnd.num (parseNumToken_ends _ _ _)
    | exact NumEnd.num (parseRadixToken_ends _ _ _)
    | exact NumEnd.afterEnds (parseSymbolBytes_ends _) (wholeArm_pure _)
    | exact NumEnd.pure_other (by intro n h; cases h)
    | apply NumEnd.bind | apply NumEnd.ite | intro _ | split)

end C08

open C08

/-- **C08_number_delimited** — "a token is read as a number only if the whole token is a numeric
    literal": whenever `parse_token` returns a number (whatever the input, the options and the
    reader state), the reader is at the end of input or in front of a delimiter (ASCII
    whitespace or one of `|()[]";`). -/
theorem C08_number_delimited (cfg : Cfg) (fuel : Nat) (pk : UInt8) (s s' : St) (n : Number)
    (h : parseToken cfg fuel pk s = .ok (.number n) s') :
    s'.rd.rest = [] ∨ ∃ b bs, s'.rd.rest = b :: bs ∧ isDelimiter b = true :=
  (numEnd_parseToken cfg fuel pk).ok s n s' h

/-- the hypothesis is satisfiable: `-5 x` -/
example : ∃ n s', parseToken (cfgOf Options.default) 5 45 (initSt .slice (asc "-5 x")) =
    .ok (.number n) s' := ⟨_, _, rfl⟩

end Parse
end Lexpr

#print axioms Lexpr.Parse.C08_number_delimited
