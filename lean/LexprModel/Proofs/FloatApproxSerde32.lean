/-
  FloatApproxSerde32 — C04, second sentence ("to the accuracy of C05"), for ALL types of the
  universe: `FloatApproxSerde.C04_text_approx` without `NoF32`.

  * `Data.approxEqAt t d d'`: typed refinement of `Data.approxEq` — `d'` equals `d : t` except that
    `f64` leaves may differ within `floatApprox`; `f32` leaves are IDENTICAL.
    `approxEqAt_approxEq`: for well-typed `d` it implies `Data.approxEq d d'`.
  * `de_approx` / `C04_de_approx`: a value `approxEq` to `ser t d` deserializes to a `d'` with
    `Data.approxEqAt t d d'`.  At an `f32` leaf the deserializer narrows the double it is given
    (`roundToF32`); `F32Stable.roundToF32_stable` shows the narrowing returns the original `f32`.
    Struct, map, enum cases reuse the generic lemmas of `SerdeRT` (`struct_rt`, …).
  * `C04_text_approx_all`, `C04_text_identity_approx_all`: Rust data → `to_string` → `from_str`
    (`from_slice`, `from_reader`) → Rust data, default options, every build.
  * `C04_text_f32`: `from_str::<f32>(&to_string(&x)) = Ok(x)` exactly.
  * `f32_max_witness`: in the default build the text of `f32::MAX` is read back as the double one
    ulp above `f32::MAX`; it still narrows to `f32::MAX`.
-/
import LexprModel.Proofs.FloatApproxSerde
import LexprModel.Proofs.F32Stable
namespace Lexpr
namespace Serde
open Parse FullRT Decimals FloatApprox

/-! ## 1. The typed relation -/

/-- element-wise relation of two lists of equal length -/
def RelList {α β : Type} (R : α → β → Prop) : List α → List β → Prop
  | [], ys => ys = []
  | x :: xs, ys => ∃ y ys', ys = y :: ys' ∧ R x y ∧ RelList R xs ys'

mutual
/-- **Data.approxEqAt.**  `d'` equals `d : t` except that `f64` leaves may differ within
    `floatApprox`; `f32` leaves (and every other leaf) are identical. -/
def Data.approxEqAt : Ty → Data → Data → Prop
  | .f64, .float a, e => ∃ b, e = .float b ∧ floatApprox a b
  | .option t, .some d, e => ∃ d', e = .some d' ∧ Data.approxEqAt t d d'
  | .seq t, .seq ds, e => ∃ ds', e = .seq ds' ∧ RelList (Data.approxEqAt t) ds ds'
  | .set t, .seq ds, e => ∃ ds', e = .seq ds' ∧ RelList (Data.approxEqAt t) ds ds'
  | .tuple ts, .seq ds, e => ∃ ds', e = .seq ds' ∧ Data.approxEqAtTuple ts ds ds'
  | .tupleStruct ts, .seq ds, e => ∃ ds', e = .seq ds' ∧ Data.approxEqAtTuple ts ds ds'
  | .newtypeStruct t, d, e => Data.approxEqAt t d e
  | .map k v, .map kvs, e => ∃ kvs', e = .map kvs' ∧
      RelList (fun p p' => Data.approxEqAt k p.1 p'.1 ∧ Data.approxEqAt v p.2 p'.2) kvs kvs'
  | .struct fs, .seq ds, e => ∃ ds', e = .seq ds' ∧ Data.approxEqAtFields fs ds ds'
  | .enum vs, .variant i p, e => ∃ p', e = .variant i p' ∧ Data.approxEqAtVariant vs i p p'
  | _, d, e => e = d
def Data.approxEqAtTuple : TyList → List Data → List Data → Prop
  | .cons t ts, d :: ds, es =>
    ∃ e es', es = e :: es' ∧ Data.approxEqAt t d e ∧ Data.approxEqAtTuple ts ds es'
  | _, ds, es => es = ds
def Data.approxEqAtFields : FieldList → List Data → List Data → Prop
  | .cons _ t fs, d :: ds, es =>
    ∃ e es', es = e :: es' ∧ Data.approxEqAt t d e ∧ Data.approxEqAtFields fs ds es'
  | _, ds, es => es = ds
def Data.approxEqAtVariant : VariantList → Nat → Data → Data → Prop
  | .nil, _, p, p' => p' = p
  | .cons _ var _, 0, p, p' =>
    match var, p with
    | .newtype t, p => Data.approxEqAt t p p'
    | .tuple ts, .seq ds => ∃ ds', p' = .seq ds' ∧ Data.approxEqAtTuple ts ds ds'
    | .struct fs, .seq ds => ∃ ds', p' = .seq ds' ∧ Data.approxEqAtFields fs ds ds'
    | _, p => p' = p
  | .cons _ _ vs, i + 1, p, p' => Data.approxEqAtVariant vs i p p'
end

/-! ## 2. Generic steps for the collecting visitors -/

theorem mapM_approx {f : Data → Option Value} {g : Value → DeRes Data} {R : Data → Data → Prop} :
    ∀ (ds : List Data) (xs ws : List Value), ds.mapM f = some xs → Value.approxEqList xs ws →
      (∀ d ∈ ds, ∀ x w, f d = some x → Value.approxEq x w → ∃ d', g w = .ok d' ∧ R d d') →
      ∃ ds', ws.mapM g = .ok ds' ∧ RelList R ds ds'
  | [], xs, ws, h, hw, _ => by
    simp at h; subst h
    simp only [Value.approxEqList] at hw; subst hw
    exact ⟨[], by simp, by simp only [RelList]⟩
  | d :: ds, xs, ws, h, hw, hf => by
    simp only [List.mapM_cons, Option.bind_eq_bind, Option.bind_eq_some_iff, Option.pure_def,
      Option.some.injEq] at h
    obtain ⟨x, hx, xs', hxs', rfl⟩ := h
    simp only [Value.approxEqList] at hw
    obtain ⟨y, ws', rfl, hxy, hws'⟩ := hw
    obtain ⟨d', hd', hR⟩ := hf d (by simp) x y hx hxy
    obtain ⟨ds', hds', hRs⟩ := mapM_approx ds xs' ws' hxs' hws' (fun e he => hf e (by simp [he]))
    refine ⟨d' :: ds', by simp [List.mapM_cons, hd', hds'], ?_⟩
    simp only [RelList]; exact ⟨d', ds', rfl, hR, hRs⟩

theorem seq_approx {f : Data → Option Value} {g : Value → DeRes Data} {R : Data → Data → Prop}
    (ds : List Data) (xs : List Value) (w : Value) (hxs : ds.mapM f = some xs)
    (hw : Value.approxEq (Value.list xs) w)
    (hf : ∀ d ∈ ds, ∀ x w, f d = some x → Value.approxEq x w → ∃ d', g w = .ok d' ∧ R d d') :
    ∃ ds', deSeqLike g w = .ok (.seq ds') ∧ RelList R ds ds' := by
  obtain ⟨ws, rfl, hws⟩ := approxEq_list xs w hw
  obtain ⟨ds', hds', hR⟩ := mapM_approx ds xs ws hxs hws hf
  exact ⟨ds', by rw [deSeqLike_list]; simp [deSeqLike, hds'], hR⟩

theorem entries_approx {fk fv : Data → Option Value} {gk gv : Value → DeRes Data}
    {Rk Rv : Data → Data → Prop} {F : Data × Data → Option Value}
    (hF : ∀ p, F p = (fk p.1).bind fun x => (fv p.2).bind fun y => some (Value.cons x y)) :
    ∀ (kvs : List (Data × Data)) (xs ws : List Value),
      kvs.mapM F = some xs → Value.approxEqList xs ws →
      (∀ p ∈ kvs, ∀ x w, fk p.1 = some x → Value.approxEq x w → ∃ d', gk w = .ok d' ∧ Rk p.1 d') →
      (∀ p ∈ kvs, ∀ x w, fv p.2 = some x → Value.approxEq x w → ∃ d', gv w = .ok d' ∧ Rv p.2 d') →
      ∃ kvs', RelList (fun p p' => Rk p.1 p'.1 ∧ Rv p.2 p'.2) kvs kvs' ∧
        (ws = [] → kvs' = []) ∧
        ∀ x xs', ws = x :: xs' → deEntries gk gv x (Value.list xs') = .ok kvs'
  | [], xs, ws, h, hw, _, _ => by
    simp at h; subst h
    simp only [Value.approxEqList] at hw; subst hw
    exact ⟨[], by simp only [RelList], fun _ => rfl, by simp⟩
  | (a, b) :: kvs, xs, ws, h, hw, hk, hv => by
    simp only [List.mapM_cons, Option.bind_eq_bind, Option.bind_eq_some_iff, Option.pure_def,
      Option.some.injEq, hF] at h
    obtain ⟨c, ⟨x, hx, y, hy, rfl⟩, xs', hxs', rfl⟩ := h
    simp only [Value.approxEqList] at hw
    obtain ⟨z, ws', rfl, hcz, hws'⟩ := hw
    simp only [Value.approxEq] at hcz
    obtain ⟨x', y', rfl, hxx, hyy⟩ := hcz
    obtain ⟨a', ha', hRa⟩ := hk (a, b) (by simp) x x' hx hxx
    obtain ⟨b', hb', hRb⟩ := hv (a, b) (by simp) y y' hy hyy
    obtain ⟨kvs', hRs, hnil, hde⟩ := entries_approx hF kvs xs' ws' hxs' hws'
      (fun p hp => hk p (by simp [hp])) (fun p hp => hv p (by simp [hp]))
    refine ⟨(a', b') :: kvs', ?_, by simp, ?_⟩
    · simp only [RelList]; exact ⟨(a', b'), kvs', rfl, ⟨hRa, hRb⟩, hRs⟩
    · intro x0 xs0 heq
      cases heq
      cases ws' with
      | nil => simp [deEntries, ha', hb', hnil rfl]
      | cons z zs => simp [deEntries, ha', hb', hde z zs rfl]

theorem deVariant_succ {n : List UInt8} {var : Variant} {vs : VariantList} {i : Nat} {p' : Data}
    {name : List UInt8} {pl : Option Value}
    (hnd : (VariantList.cons n var vs).names.Nodup) (hmem : name ∈ vs.names)
    (hd : ∀ k, deVariant vs k name pl = .ok (.variant (k + i) p')) :
    ∀ k, deVariant (.cons n var vs) k name pl = .ok (.variant (k + (i + 1)) p') := by
  simp only [VariantList.names, List.nodup_cons] at hnd
  intro k
  have hne : n ≠ name := fun heq => hnd.1 (heq ▸ hmem)
  have := hd (k + 1)
  cases var <;>
    simp [deVariant_unit, deVariant_newtype, deVariant_tuple, deVariant_struct, hne, this] <;> omega

/-! ## 3. Deserializing a value `approxEq` to a serialization -/

mutual
/-- `F` holds of every float leaf and implies it is a 64-bit pattern (needed at `f32` leaves, see
    the example after `roundToF32_stable`) -/
theorem de_approx (F : Nat → Prop) (hF : ∀ b, F b → b < 2 ^ 64) :
    ∀ (t : Ty) (d : Data) (v w : Value), WellFormed t → HasTy t d → LeavesOK F t d →
    ser t d = some v → Value.approxEq v w →
    ∃ d', de t w = .ok d' ∧ Data.approxEqAt t d d'
  | .int iw, d, v, w, wf, h, hl, hs, hw => by
    cases d <;> simp only [HasTy] at h
    rename_i n
    simp only [ser, Option.some.injEq] at hs; subst hs
    have := approxEq_serInt iw n w hw; subst this
    exact ⟨.int n, de_serInt _ _ h.1 h.2, by simp only [Data.approxEqAt]⟩
  | .f32, d, v, w, wf, h, hl, hs, hw => by
    cases d <;> simp only [HasTy] at h
    rename_i b
    simp only [LeavesOK] at hl
    simp only [ser, Option.some.injEq] at hs; subst hs
    simp only [Value.approxEq] at hw
    obtain ⟨b', rfl, hb⟩ := hw
    have hround : roundToF32 b' = b := by
      rcases hb with rfl | hb
      · exact h
      · exact roundToF32_stable b b' (hF b hl) h hb
    exact ⟨.float b, by simp [de, deNumber, hround], by simp only [Data.approxEqAt]⟩
  | .f64, d, v, w, wf, h, hl, hs, hw => by
    cases d <;> simp only [HasTy] at h
    rename_i b
    simp only [ser, Option.some.injEq] at hs; subst hs
    simp only [Value.approxEq] at hw
    obtain ⟨b', rfl, hb⟩ := hw
    exact ⟨.float b', by simp [de, deNumber], by simp only [Data.approxEqAt]; exact ⟨b', rfl, hb⟩⟩
  | .bool, d, v, w, wf, h, hl, hs, hw => by
    cases d <;> simp only [HasTy] at h
    simp only [ser, Option.some.injEq] at hs; subst hs
    simp only [Value.approxEq] at hw; subst hw
    exact ⟨_, by rw [de], by simp only [Data.approxEqAt]⟩
  | .char, d, v, w, wf, h, hl, hs, hw => by
    cases d <;> simp only [HasTy] at h
    simp only [ser, Option.some.injEq] at hs; subst hs
    simp only [Value.approxEq] at hw; subst hw
    exact ⟨_, by rw [de], by simp only [Data.approxEqAt]⟩
  | .str, d, v, w, wf, h, hl, hs, hw => by
    cases d <;> simp only [HasTy] at h
    simp only [ser, Option.some.injEq] at hs; subst hs
    simp only [Value.approxEq] at hw; subst hw
    exact ⟨_, by rw [de], by simp only [Data.approxEqAt]⟩
  | .bytes, d, v, w, wf, h, hl, hs, hw => by
    cases d <;> simp only [HasTy] at h
    simp only [ser, Option.some.injEq] at hs; subst hs
    simp only [Value.approxEq] at hw; subst hw
    exact ⟨_, by rw [de], by simp only [Data.approxEqAt]⟩
  | .unit, d, v, w, wf, h, hl, hs, hw => by
    cases d <;> simp only [HasTy] at h
    simp only [ser, Option.some.injEq] at hs; subst hs
    simp only [Value.approxEq] at hw; subst hw
    exact ⟨_, by rw [de], by simp only [Data.approxEqAt]⟩
  | .unitStruct, d, v, w, wf, h, hl, hs, hw => by
    cases d <;> simp only [HasTy] at h
    simp only [ser, Option.some.injEq] at hs; subst hs
    simp only [Value.approxEq] at hw; subst hw
    exact ⟨_, by rw [de], by simp only [Data.approxEqAt]⟩
  | .option t, d, v, w, wf, h, hl, hs, hw => by
    cases d <;> simp only [HasTy] at h
    · simp only [ser, Option.some.injEq] at hs; subst hs
      simp only [Value.approxEq] at hw; subst hw
      exact ⟨.none, by simp [de], by simp only [Data.approxEqAt]⟩
    · rename_i d0
      simp only [WellFormed] at wf
      simp only [LeavesOK] at hl
      simp only [ser, Option.map_eq_some_iff] at hs
      obtain ⟨x, hx, rfl⟩ := hs
      simp only [Value.approxEq] at hw
      obtain ⟨x', n', rfl, hxx, rfl⟩ := hw
      obtain ⟨d', hd', hR⟩ := de_approx F hF t d0 x x' wf h hl hx hxx
      exact ⟨.some d', by simp [de, hd'], by simp only [Data.approxEqAt]; exact ⟨d', rfl, hR⟩⟩
  | .seq t, d, v, w, wf, h, hl, hs, hw => by
    cases d <;> simp only [HasTy] at h
    rename_i ds
    simp only [WellFormed] at wf
    simp only [LeavesOK] at hl
    simp only [ser, Option.map_eq_some_iff] at hs
    obtain ⟨xs, hxs, rfl⟩ := hs
    obtain ⟨ds', hds', hR⟩ := seq_approx (g := de t) (R := Data.approxEqAt t) ds xs w hxs hw
      fun d hd x x' hx hxx => de_approx F hF t d x x' wf (h d hd) (hl d hd) hx hxx
    exact ⟨.seq ds', by rw [de]; exact hds', by simp only [Data.approxEqAt]; exact ⟨ds', rfl, hR⟩⟩
  | .set t, d, v, w, wf, h, hl, hs, hw => by
    cases d <;> simp only [HasTy] at h
    rename_i ds
    simp only [WellFormed] at wf
    simp only [LeavesOK] at hl
    simp only [ser, Option.map_eq_some_iff] at hs
    obtain ⟨xs, hxs, rfl⟩ := hs
    obtain ⟨ds', hds', hR⟩ := seq_approx (g := de t) (R := Data.approxEqAt t) ds xs w hxs hw
      fun d hd x x' hx hxx => de_approx F hF t d x x' wf (h d hd) (hl d hd) hx hxx
    exact ⟨.seq ds', by rw [de]; exact hds', by simp only [Data.approxEqAt]; exact ⟨ds', rfl, hR⟩⟩
  | .tuple ts, d, v, w, wf, h, hl, hs, hw => by
    cases d <;> simp only [HasTy] at h
    rename_i ds
    simp only [WellFormed] at wf
    simp only [LeavesOK] at hl
    simp only [ser, Option.map_eq_some_iff] at hs
    obtain ⟨xs, hxs, rfl⟩ := hs
    simp only [Value.approxEq] at hw
    obtain ⟨ws, rfl, hws⟩ := hw
    obtain ⟨ds', hds', hR⟩ := de_approx_tuple F hF ts ds xs ws wf h hl hxs hws
    exact ⟨.seq ds', by simp [de, deTupleLike, hds'],
      by simp only [Data.approxEqAt]; exact ⟨ds', rfl, hR⟩⟩
  | .tupleStruct ts, d, v, w, wf, h, hl, hs, hw => by
    cases d <;> simp only [HasTy] at h
    rename_i ds
    simp only [WellFormed] at wf
    simp only [LeavesOK] at hl
    simp only [ser, Option.map_eq_some_iff] at hs
    obtain ⟨xs, hxs, rfl⟩ := hs
    simp only [Value.approxEq] at hw
    obtain ⟨ws, rfl, hws⟩ := hw
    obtain ⟨ds', hds', hR⟩ := de_approx_tuple F hF ts ds xs ws wf h hl hxs hws
    exact ⟨.seq ds', by simp [de, deTupleLike, hds'],
      by simp only [Data.approxEqAt]; exact ⟨ds', rfl, hR⟩⟩
  | .newtypeStruct t, d, v, w, wf, h, hl, hs, hw => by
    simp only [WellFormed] at wf
    simp only [HasTy] at h
    simp only [LeavesOK] at hl
    simp only [ser] at hs
    obtain ⟨d', hd', hR⟩ := de_approx F hF t d v w wf h hl hs hw
    exact ⟨d', by simpa [de] using hd', by simp only [Data.approxEqAt]; exact hR⟩
  | .map k v0, d, v, w, wf, h, hl, hs, hw => by
    cases d <;> simp only [HasTy] at h
    rename_i kvs
    simp only [WellFormed] at wf
    simp only [LeavesOK] at hl
    simp only [ser, Option.map_eq_some_iff] at hs
    obtain ⟨xs, hxs, rfl⟩ := hs
    obtain ⟨ws, rfl, hws⟩ := approxEq_list xs w hw
    obtain ⟨kvs', hR, hnil, hde⟩ := entries_approx (fk := ser k) (fv := ser v0)
      (gk := de k) (gv := de v0) (Rk := Data.approxEqAt k) (Rv := Data.approxEqAt v0)
      (fun p => by cases p; rfl) kvs xs ws hxs hws
      (fun p hp x x' hx hxx => de_approx F hF k p.1 x x' wf.1 (h p hp).1 (hl p hp).1 hx hxx)
      (fun p hp x x' hx hxx => de_approx F hF v0 p.2 x x' wf.2 (h p hp).2 (hl p hp).2 hx hxx)
    refine ⟨.map kvs', ?_, by simp only [Data.approxEqAt]; exact ⟨kvs', rfl, hR⟩⟩
    cases ws with
    | nil => rw [hnil rfl]; simp [de]
    | cons x xs' => simp [de, hde x xs' rfl]
  | .struct fs, d, v, w, wf, h, hl, hs, hw => by
    cases d <;> simp only [HasTy] at h
    rename_i ds
    simp only [WellFormed] at wf
    simp only [LeavesOK] at hl
    simp only [ser, Option.map_eq_some_iff] at hs
    obtain ⟨xs, hxs, rfl⟩ := hs
    obtain ⟨ws, rfl, hws⟩ := approxEq_list xs w hw
    obtain ⟨es, rfl, hn, hR, hf⟩ := de_approx_fields F hF fs ds xs ws wf.2 wf.1 h hl hxs hws
    refine ⟨.seq (es.map (·.2.2)), ?_, by simp only [Data.approxEqAt]; exact ⟨_, rfl, hR⟩⟩
    rw [de, struct_rt es (by rw [optFlags_names, hn]) (by rw [hn]; exact wf.1) hf]
  | .enum vs, d, v, w, wf, h, hl, hs, hw => by
    cases d <;> simp only [HasTy] at h
    rename_i i p
    simp only [WellFormed] at wf
    simp only [LeavesOK] at hl
    simp only [ser] at hs
    obtain ⟨name, pl, p', rfl, _, hd, hR⟩ := de_approx_variant F hF vs i p v w wf.2 wf.1 h hl hs hw
    exact ⟨.variant i p', by rw [de_enum_variantValue, hd 0]; simp,
      by simp only [Data.approxEqAt]; exact ⟨p', rfl, hR⟩⟩
theorem de_approx_tuple (F : Nat → Prop) (hF : ∀ b, F b → b < 2 ^ 64) :
    ∀ (ts : TyList) (ds : List Data) (xs ws : List Value), WFTys ts →
    HasTyTuple ts ds → LeavesOKTuple F ts ds → serTuple ts ds = some xs →
    Value.approxEqList xs ws →
    ∃ ds', deTupleVec ts ws = .ok ds' ∧ Data.approxEqAtTuple ts ds ds'
  | .nil, ds, xs, ws, wf, h, hl, hs, hw => by
    cases ds <;> simp only [HasTyTuple] at h
    simp only [serTuple, Option.some.injEq] at hs; subst hs
    simp only [Value.approxEqList] at hw; subst hw
    exact ⟨[], by simp [deTupleVec], by simp only [Data.approxEqAtTuple]⟩
  | .cons t ts, ds, xs, ws, wf, h, hl, hs, hw => by
    cases ds <;> simp only [HasTyTuple] at h
    rename_i d ds
    simp only [WFTys] at wf
    simp only [LeavesOKTuple] at hl
    simp only [serTuple, Option.bind_eq_bind, Option.bind_eq_some_iff, Option.pure_def,
      Option.some.injEq] at hs
    obtain ⟨x, hx, xs', hxs', rfl⟩ := hs
    simp only [Value.approxEqList] at hw
    obtain ⟨y, ws', rfl, hxy, hws'⟩ := hw
    obtain ⟨d', hd', hR⟩ := de_approx F hF t d x y wf.1 h.1 hl.1 hx hxy
    obtain ⟨ds', hds', hRs⟩ := de_approx_tuple F hF ts ds xs' ws' wf.2 h.2 hl.2 hxs' hws'
    exact ⟨d' :: ds', by simp [deTupleVec, hd', hds'],
      by simp only [Data.approxEqAtTuple]; exact ⟨d', ds', rfl, hR, hRs⟩⟩
theorem de_approx_fields (F : Nat → Prop) (hF : ∀ b, F b → b < 2 ^ 64) :
    ∀ (fs : FieldList) (ds : List Data) (xs ws : List Value),
    WFFields fs → fs.names.Nodup → HasTyFields fs ds → LeavesOKFields F fs ds →
    serFields fs ds = some xs → Value.approxEqList xs ws →
    ∃ es : List Entry, ws = es.map Entry.val ∧ es.map (·.1) = fs.names ∧
      Data.approxEqAtFields fs ds (es.map (·.2.2)) ∧
      ∀ e ∈ es, deField fs e.1 e.2.1 = some (.ok e.2.2)
  | .nil, ds, xs, ws, wf, hnd, h, hl, hs, hw => by
    cases ds <;> simp only [HasTyFields] at h
    simp only [serFields, Option.some.injEq] at hs; subst hs
    simp only [Value.approxEqList] at hw; subst hw
    exact ⟨[], by simp, by simp [FieldList.names], by simp [Data.approxEqAtFields], by simp⟩
  | .cons n t fs, ds, xs, ws, wf, hnd, h, hl, hs, hw => by
    cases ds <;> simp only [HasTyFields] at h
    rename_i d ds
    simp only [WFFields] at wf
    simp only [LeavesOKFields] at hl
    simp only [FieldList.names, List.nodup_cons] at hnd
    simp only [serFields, Option.bind_eq_bind, Option.bind_eq_some_iff, Option.pure_def,
      Option.some.injEq] at hs
    obtain ⟨x, hx, xs', hxs', rfl⟩ := hs
    simp only [Value.approxEqList] at hw
    obtain ⟨y, ws', rfl, hxy, hws'⟩ := hw
    simp only [Value.approxEq] at hxy
    obtain ⟨sy, x', rfl, rfl, hxx⟩ := hxy
    obtain ⟨d', hd', hR⟩ := de_approx F hF t d x x' wf.1 h.1 hl.1 hx hxx
    obtain ⟨es, rfl, hn, hRs, hf⟩ := de_approx_fields F hF fs ds xs' ws' wf.2 hnd.2 h.2 hl.2 hxs' hws'
    refine ⟨(n, x', d') :: es, by simp [Entry.val], by simp [FieldList.names, hn], ?_, ?_⟩
    · simp only [List.map_cons, Data.approxEqAtFields]; exact ⟨d', _, rfl, hR, hRs⟩
    · intro e he
      rcases List.mem_cons.mp he with rfl | he
      · simp [deField, hd']
      · have hne : n ≠ e.1 := by
          intro heq
          apply hnd.1
          rw [← hn, heq]
          exact List.mem_map_of_mem he
        simp [deField, hne, hf e he]
theorem de_approx_variant (F : Nat → Prop) (hF : ∀ b, F b → b < 2 ^ 64) :
    ∀ (vs : VariantList) (i : Nat) (p : Data) (v w : Value),
    WFVariants vs → vs.names.Nodup → HasTyVariant vs i p → LeavesOKVariant F vs i p →
    serVariant vs i p = some v → Value.approxEq v w →
    ∃ name pl p', w = variantValue name pl ∧ name ∈ vs.names ∧
      (∀ k, deVariant vs k name pl = .ok (.variant (k + i) p')) ∧
      Data.approxEqAtVariant vs i p p'
  | .nil, _, _, _, _, _, _, h, _, _, _ => by simp only [HasTyVariant] at h
  | .cons n .unit vs, 0, p, v, w, wf, hnd, h, hl, hs, hw => by
    cases p <;> simp only [HasTyVariant] at h
    simp only [serVariant, Option.some.injEq] at hs; subst hs
    simp only [Value.approxEq] at hw; subst hw
    exact ⟨n, none, .unit, by simp [variantValue], by simp [VariantList.names],
      fun k => by simp [deVariant_unit], by simp only [Data.approxEqAtVariant]⟩
  | .cons n (.newtype t) vs, 0, p, v, w, wf, hnd, h, hl, hs, hw => by
    simp only [WFVariants] at wf
    simp only [HasTyVariant] at h
    simp only [LeavesOKVariant] at hl
    simp only [serVariant, Option.map_eq_some_iff] at hs
    obtain ⟨x, hx, rfl⟩ := hs
    simp only [Value.approxEq] at hw
    obtain ⟨sy, x', rfl, rfl, hxx⟩ := hw
    obtain ⟨p', hp', hR⟩ := de_approx F hF t p x x' wf.1 h hl hx hxx
    exact ⟨n, some x', p', by simp [variantValue], by simp [VariantList.names],
      fun k => by simp [deVariant_newtype, hp'], by simp only [Data.approxEqAtVariant]; exact hR⟩
  | .cons n (.tuple ts) vs, 0, p, v, w, wf, hnd, h, hl, hs, hw => by
    simp only [WFVariants] at wf
    cases p <;> simp only [HasTyVariant] at h
    rename_i ds
    simp only [LeavesOKVariant] at hl
    simp only [serVariant, Option.map_eq_some_iff] at hs
    obtain ⟨xs, hxs, rfl⟩ := hs
    simp only [Value.approxEq] at hw
    obtain ⟨sy, l', rfl, rfl, hl'⟩ := hw
    obtain ⟨ws, rfl, hws⟩ := approxEq_list xs l' hl'
    obtain ⟨ds', hds', hR⟩ := de_approx_tuple F hF ts ds xs ws wf.1 h hl hxs hws
    exact ⟨n, some (Value.list ws), .seq ds', by simp [variantValue], by simp [VariantList.names],
      fun k => by simp [deVariant_tuple, deTupleLike_vec_ok hds'],
      by simp only [Data.approxEqAtVariant]; exact ⟨ds', rfl, hR⟩⟩
  | .cons n (.struct fs) vs, 0, p, v, w, wf, hnd, h, hl, hs, hw => by
    simp only [WFVariants] at wf
    cases p <;> simp only [HasTyVariant] at h
    rename_i ds
    simp only [LeavesOKVariant] at hl
    simp only [serVariant, Option.map_eq_some_iff] at hs
    obtain ⟨xs, hxs, rfl⟩ := hs
    simp only [Value.approxEq] at hw
    obtain ⟨sy, l', rfl, rfl, hl'⟩ := hw
    obtain ⟨ws, rfl, hws⟩ := approxEq_list xs l' hl'
    obtain ⟨es, rfl, hn, hR, hf⟩ := de_approx_fields F hF fs ds xs ws wf.1.2 wf.1.1 h hl hxs hws
    refine ⟨n, some (Value.list (es.map Entry.val)), .seq (es.map (·.2.2)), by simp [variantValue],
      by simp [VariantList.names], fun k => ?_,
      by simp only [Data.approxEqAtVariant]; exact ⟨_, rfl, hR⟩⟩
    rw [deVariant_struct]
    simp [struct_rt es (by rw [optFlags_names, hn]) (by rw [hn]; exact wf.1.1) hf]
  | .cons n .unit vs, i + 1, p, v, w, wf, hnd, h, hl, hs, hw => by
    simp only [WFVariants] at wf
    simp only [HasTyVariant] at h
    simp only [LeavesOKVariant] at hl
    simp only [serVariant] at hs
    have hnd' := hnd
    simp only [VariantList.names, List.nodup_cons] at hnd'
    obtain ⟨name, pl, p', rfl, hmem, hd, hR⟩ := de_approx_variant F hF vs i p v w wf.2 hnd'.2 h hl hs hw
    exact ⟨name, pl, p', rfl, by simp [VariantList.names, hmem], deVariant_succ hnd hmem hd,
      by simp only [Data.approxEqAtVariant]; exact hR⟩
  | .cons n (.newtype t) vs, i + 1, p, v, w, wf, hnd, h, hl, hs, hw => by
    simp only [WFVariants] at wf
    simp only [HasTyVariant] at h
    simp only [LeavesOKVariant] at hl
    simp only [serVariant] at hs
    have hnd' := hnd
    simp only [VariantList.names, List.nodup_cons] at hnd'
    obtain ⟨name, pl, p', rfl, hmem, hd, hR⟩ := de_approx_variant F hF vs i p v w wf.2 hnd'.2 h hl hs hw
    exact ⟨name, pl, p', rfl, by simp [VariantList.names, hmem], deVariant_succ hnd hmem hd,
      by simp only [Data.approxEqAtVariant]; exact hR⟩
  | .cons n (.tuple ts) vs, i + 1, p, v, w, wf, hnd, h, hl, hs, hw => by
    simp only [WFVariants] at wf
    simp only [HasTyVariant] at h
    simp only [LeavesOKVariant] at hl
    simp only [serVariant] at hs
    have hnd' := hnd
    simp only [VariantList.names, List.nodup_cons] at hnd'
    obtain ⟨name, pl, p', rfl, hmem, hd, hR⟩ := de_approx_variant F hF vs i p v w wf.2 hnd'.2 h hl hs hw
    exact ⟨name, pl, p', rfl, by simp [VariantList.names, hmem], deVariant_succ hnd hmem hd,
      by simp only [Data.approxEqAtVariant]; exact hR⟩
  | .cons n (.struct fs) vs, i + 1, p, v, w, wf, hnd, h, hl, hs, hw => by
    simp only [WFVariants] at wf
    simp only [HasTyVariant] at h
    simp only [LeavesOKVariant] at hl
    simp only [serVariant] at hs
    have hnd' := hnd
    simp only [VariantList.names, List.nodup_cons] at hnd'
    obtain ⟨name, pl, p', rfl, hmem, hd, hR⟩ := de_approx_variant F hF vs i p v w wf.2 hnd'.2 h hl hs hw
    exact ⟨name, pl, p', rfl, by simp [VariantList.names, hmem], deVariant_succ hnd hmem hd,
      by simp only [Data.approxEqAtVariant]; exact hR⟩
end

/-! ## 4. The typed relation refines `Data.approxEq` -/

theorem relList_approxEq {R : Data → Data → Prop} : ∀ (ds ds' : List Data), RelList R ds ds' →
    (∀ d ∈ ds, ∀ d', R d d' → Data.approxEq d d') → Data.approxEqList ds ds'
  | [], ds', h, _ => by
    simp only [RelList] at h; subst h; simp only [Data.approxEqList]
  | d :: ds, ds', h, hf => by
    simp only [RelList] at h
    obtain ⟨e, es, rfl, hR, hRs⟩ := h
    simp only [Data.approxEqList]
    exact ⟨e, es, rfl, hf d (by simp) e hR,
      relList_approxEq ds es hRs (fun x hx => hf x (by simp [hx]))⟩

theorem relList_approxEqPairs {Rk Rv : Data → Data → Prop} :
    ∀ (kvs kvs' : List (Data × Data)),
      RelList (fun p p' => Rk p.1 p'.1 ∧ Rv p.2 p'.2) kvs kvs' →
      (∀ p ∈ kvs, ∀ d', Rk p.1 d' → Data.approxEq p.1 d') →
      (∀ p ∈ kvs, ∀ d', Rv p.2 d' → Data.approxEq p.2 d') → Data.approxEqPairs kvs kvs'
  | [], kvs', h, _, _ => by
    simp only [RelList] at h; subst h; simp only [Data.approxEqPairs]
  | (a, b) :: kvs, kvs', h, hk, hv => by
    simp only [RelList] at h
    obtain ⟨⟨a', b'⟩, es, rfl, ⟨hRa, hRb⟩, hRs⟩ := h
    simp only [Data.approxEqPairs]
    exact ⟨a', b', es, rfl, hk (a, b) (by simp) a' hRa, hv (a, b) (by simp) b' hRb,
      relList_approxEqPairs kvs es hRs (fun p hp => hk p (by simp [hp]))
        (fun p hp => hv p (by simp [hp]))⟩

mutual
/-- for a well-typed datum the typed relation implies the untyped one of `FloatApproxSerde` -/
theorem approxEqAt_approxEq : ∀ (t : Ty) (d d' : Data), HasTy t d → Data.approxEqAt t d d' →
    Data.approxEq d d'
  | .int _, d, d', h, hr => by
    cases d <;> simp only [HasTy] at h
    simp only [Data.approxEqAt] at hr; subst hr; exact Data.approxEq_refl _
  | .f32, d, d', h, hr => by
    cases d <;> simp only [HasTy] at h
    simp only [Data.approxEqAt] at hr; subst hr; exact Data.approxEq_refl _
  | .f64, d, d', h, hr => by
    cases d <;> simp only [HasTy] at h
    simp only [Data.approxEqAt] at hr
    simp only [Data.approxEq]; exact hr
  | .bool, d, d', h, hr => by
    cases d <;> simp only [HasTy] at h
    simp only [Data.approxEqAt] at hr; subst hr; exact Data.approxEq_refl _
  | .char, d, d', h, hr => by
    cases d <;> simp only [HasTy] at h
    simp only [Data.approxEqAt] at hr; subst hr; exact Data.approxEq_refl _
  | .str, d, d', h, hr => by
    cases d <;> simp only [HasTy] at h
    simp only [Data.approxEqAt] at hr; subst hr; exact Data.approxEq_refl _
  | .bytes, d, d', h, hr => by
    cases d <;> simp only [HasTy] at h
    simp only [Data.approxEqAt] at hr; subst hr; exact Data.approxEq_refl _
  | .unit, d, d', h, hr => by
    cases d <;> simp only [HasTy] at h
    simp only [Data.approxEqAt] at hr; subst hr; exact Data.approxEq_refl _
  | .unitStruct, d, d', h, hr => by
    cases d <;> simp only [HasTy] at h
    simp only [Data.approxEqAt] at hr; subst hr; exact Data.approxEq_refl _
  | .option t, d, d', h, hr => by
    cases d <;> simp only [HasTy] at h
    · simp only [Data.approxEqAt] at hr; subst hr; exact Data.approxEq_refl _
    · rename_i d0
      simp only [Data.approxEqAt] at hr
      obtain ⟨e, rfl, hR⟩ := hr
      simp only [Data.approxEq]
      exact ⟨e, rfl, approxEqAt_approxEq t d0 e h hR⟩
  | .seq t, d, d', h, hr => by
    cases d <;> simp only [HasTy] at h
    rename_i ds
    simp only [Data.approxEqAt] at hr
    obtain ⟨ds', rfl, hR⟩ := hr
    simp only [Data.approxEq]
    exact ⟨ds', rfl, relList_approxEq ds ds' hR
      (fun x hx x' hxx => approxEqAt_approxEq t x x' (h x hx) hxx)⟩
  | .set t, d, d', h, hr => by
    cases d <;> simp only [HasTy] at h
    rename_i ds
    simp only [Data.approxEqAt] at hr
    obtain ⟨ds', rfl, hR⟩ := hr
    simp only [Data.approxEq]
    exact ⟨ds', rfl, relList_approxEq ds ds' hR
      (fun x hx x' hxx => approxEqAt_approxEq t x x' (h x hx) hxx)⟩
  | .tuple ts, d, d', h, hr => by
    cases d <;> simp only [HasTy] at h
    rename_i ds
    simp only [Data.approxEqAt] at hr
    obtain ⟨ds', rfl, hR⟩ := hr
    simp only [Data.approxEq]
    exact ⟨ds', rfl, approxEqAtTuple_approxEq ts ds ds' h hR⟩
  | .tupleStruct ts, d, d', h, hr => by
    cases d <;> simp only [HasTy] at h
    rename_i ds
    simp only [Data.approxEqAt] at hr
    obtain ⟨ds', rfl, hR⟩ := hr
    simp only [Data.approxEq]
    exact ⟨ds', rfl, approxEqAtTuple_approxEq ts ds ds' h hR⟩
  | .newtypeStruct t, d, d', h, hr => by
    simp only [HasTy] at h
    simp only [Data.approxEqAt] at hr
    exact approxEqAt_approxEq t d d' h hr
  | .map k v, d, d', h, hr => by
    cases d <;> simp only [HasTy] at h
    rename_i kvs
    simp only [Data.approxEqAt] at hr
    obtain ⟨kvs', rfl, hR⟩ := hr
    simp only [Data.approxEq]
    exact ⟨kvs', rfl, relList_approxEqPairs kvs kvs' hR
      (fun p hp x' hxx => approxEqAt_approxEq k p.1 x' (h p hp).1 hxx)
      (fun p hp x' hxx => approxEqAt_approxEq v p.2 x' (h p hp).2 hxx)⟩
  | .struct fs, d, d', h, hr => by
    cases d <;> simp only [HasTy] at h
    rename_i ds
    simp only [Data.approxEqAt] at hr
    obtain ⟨ds', rfl, hR⟩ := hr
    simp only [Data.approxEq]
    exact ⟨ds', rfl, approxEqAtFields_approxEq fs ds ds' h hR⟩
  | .enum vs, d, d', h, hr => by
    cases d <;> simp only [HasTy] at h
    rename_i i p
    simp only [Data.approxEqAt] at hr
    obtain ⟨p', rfl, hR⟩ := hr
    simp only [Data.approxEq]
    exact ⟨p', rfl, approxEqAtVariant_approxEq vs i p p' h hR⟩
theorem approxEqAtTuple_approxEq : ∀ (ts : TyList) (ds ds' : List Data), HasTyTuple ts ds →
    Data.approxEqAtTuple ts ds ds' → Data.approxEqList ds ds'
  | .nil, ds, ds', h, hr => by
    cases ds <;> simp only [HasTyTuple] at h
    simp only [Data.approxEqAtTuple] at hr; subst hr; simp only [Data.approxEqList]
  | .cons t ts, ds, ds', h, hr => by
    cases ds <;> simp only [HasTyTuple] at h
    rename_i d ds
    simp only [Data.approxEqAtTuple] at hr
    obtain ⟨e, es, rfl, hR, hRs⟩ := hr
    simp only [Data.approxEqList]
    exact ⟨e, es, rfl, approxEqAt_approxEq t d e h.1 hR, approxEqAtTuple_approxEq ts ds es h.2 hRs⟩
theorem approxEqAtFields_approxEq : ∀ (fs : FieldList) (ds ds' : List Data), HasTyFields fs ds →
    Data.approxEqAtFields fs ds ds' → Data.approxEqList ds ds'
  | .nil, ds, ds', h, hr => by
    cases ds <;> simp only [HasTyFields] at h
    simp only [Data.approxEqAtFields] at hr; subst hr; simp only [Data.approxEqList]
  | .cons _ t fs, ds, ds', h, hr => by
    cases ds <;> simp only [HasTyFields] at h
    rename_i d ds
    simp only [Data.approxEqAtFields] at hr
    obtain ⟨e, es, rfl, hR, hRs⟩ := hr
    simp only [Data.approxEqList]
    exact ⟨e, es, rfl, approxEqAt_approxEq t d e h.1 hR,
      approxEqAtFields_approxEq fs ds es h.2 hRs⟩
theorem approxEqAtVariant_approxEq : ∀ (vs : VariantList) (i : Nat) (p p' : Data),
    HasTyVariant vs i p → Data.approxEqAtVariant vs i p p' → Data.approxEq p p'
  | .nil, _, _, _, h, _ => by simp only [HasTyVariant] at h
  | .cons _ .unit vs, 0, p, p', h, hr => by
    cases p <;> simp only [HasTyVariant] at h
    simp only [Data.approxEqAtVariant] at hr; subst hr; exact Data.approxEq_refl _
  | .cons _ (.newtype t) vs, 0, p, p', h, hr => by
    simp only [HasTyVariant] at h
    simp only [Data.approxEqAtVariant] at hr
    exact approxEqAt_approxEq t p p' h hr
  | .cons _ (.tuple ts) vs, 0, p, p', h, hr => by
    cases p <;> simp only [HasTyVariant] at h
    rename_i ds
    simp only [Data.approxEqAtVariant] at hr
    obtain ⟨ds', rfl, hR⟩ := hr
    simp only [Data.approxEq]
    exact ⟨ds', rfl, approxEqAtTuple_approxEq ts ds ds' h hR⟩
  | .cons _ (.struct fs) vs, 0, p, p', h, hr => by
    cases p <;> simp only [HasTyVariant] at h
    rename_i ds
    simp only [Data.approxEqAtVariant] at hr
    obtain ⟨ds', rfl, hR⟩ := hr
    simp only [Data.approxEq]
    exact ⟨ds', rfl, approxEqAtFields_approxEq fs ds ds' h hR⟩
  | .cons _ .unit vs, i + 1, p, p', h, hr => by
    simp only [HasTyVariant] at h
    simp only [Data.approxEqAtVariant] at hr
    exact approxEqAtVariant_approxEq vs i p p' h hr
  | .cons _ (.newtype _) vs, i + 1, p, p', h, hr => by
    simp only [HasTyVariant] at h
    simp only [Data.approxEqAtVariant] at hr
    exact approxEqAtVariant_approxEq vs i p p' h hr
  | .cons _ (.tuple _) vs, i + 1, p, p', h, hr => by
    simp only [HasTyVariant] at h
    simp only [Data.approxEqAtVariant] at hr
    exact approxEqAtVariant_approxEq vs i p p' h hr
  | .cons _ (.struct _) vs, i + 1, p, p', h, hr => by
    simp only [HasTyVariant] at h
    simp only [Data.approxEqAtVariant] at hr
    exact approxEqAtVariant_approxEq vs i p p' h hr
end

/-! ## 5. The text path, all types -/

/-- **C04_de_approx.**  For a well-formed type (`f32` allowed) and a datum of it whose `f32` leaves
    are 64-bit patterns: every value `approxEq` to its serialization deserializes, and the result
    equals the datum except for `f64` leaves within `floatApprox`. -/
theorem C04_de_approx (t : Ty) (d : Data) (v w : Value) (wf : WellFormed t) (h : HasTy t d)
    (hl : LeavesOK (fun b => b < 2 ^ 64) t d) (hs : ser t d = some v) (hw : Value.approxEq v w) :
    ∃ d', de t w = .ok d' ∧ Data.approxEqAt t d d' :=
  de_approx (fun b => b < 2 ^ 64) (fun _ hb => hb) t d v w wf h hl hs hw

/-- **C04_text_approx_all.**  `C04_text_approx` without `NoF32`: for EVERY well-formed type of the
    universe with plain-identifier names and a datum of it (strings well-formed, characters scalar,
    `f32` and `f64` leaves finite with `RyuSpecOnly`, `depthOf t d ≤ 127`), from all three sources,
    the default parser reads the default printer's text of `ser t d` back as a value `w`, `w`
    deserializes to a datum `d'`, and `d'` equals `d` except that `f64` leaves may differ within
    `floatClose`: `Data.approxEqAt t d d'` — `f32` leaves come back exactly
    (`roundToF32_stable`) — and hence also `Data.approxEq d d'`. -/
theorem C04_text_approx_all (cfg : Cfg) (ho : cfg.opts = Options.default) (ryu : Nat → List UInt8)
    (t : Ty) (d : Data) (wf : WellFormed t) (hN : PlainNames t) (h : HasTy t d)
    (hl : LeavesOK (RyuSpecOnly cfg ryu) t d) (hn : depthOf t d ≤ 127) (m : Mode) :
    ∃ v w s' d', ser t d = some v ∧
      fromTrait cfg (initSt m (Print.text Print.Options.default ryu v)) = .ok w s' ∧
      s'.rd.rest = [] ∧ s'.depth = 128 ∧ Value.approxEq v w ∧
      de t w = .ok d' ∧ Data.approxEqAt t d d' ∧ Data.approxEq d d' := by
  obtain ⟨v, hs, _⟩ := C04_value t d wf h
  obtain ⟨a, b⟩ := C04_ser_leaves PlainName (RyuSpecOnly cfg ryu) t d v hN h hl hs
  have hsup : AllSupportedApprox cfg ryu v :=
    AllLeaves.mono (fun x _ hx => leafFullA_of_serLeaf cfg ryu x hx) v a
  obtain ⟨w, s', hw, e, r, dp⟩ := C01_roundtrip_approx cfg ho ryu v hsup (by omega) m
  obtain ⟨d', hde, hR⟩ :=
    de_approx (RyuSpecOnly cfg ryu) (fun _ hb => hb.1) t d v w wf h hl hs hw
  exact ⟨v, w, s', d', hs, e, r, dp, hw, hde, hR, approxEqAt_approxEq t d d' h hR⟩

/-- **C04_text_identity_approx_all**: `from_str(to_string(d)) = Ok(d')` with
    `Data.approxEqAt t d d'` (and the same for the other sources), for every type. -/
theorem C04_text_identity_approx_all (cfg : Cfg) (ho : cfg.opts = Options.default)
    (ryu : Nat → List UInt8) (t : Ty) (d : Data) (wf : WellFormed t) (hN : PlainNames t)
    (h : HasTy t d) (hl : LeavesOK (RyuSpecOnly cfg ryu) t d)
    (hn : depthOf t d ≤ 127) (m : Mode) :
    ∃ bytes d', toText ryu t d = some bytes ∧ fromText cfg m t bytes = some (.ok d') ∧
      Data.approxEqAt t d d' ∧ Data.approxEq d d' := by
  obtain ⟨v, w, s', d', hs, e, -, -, -, hd, hR, hR'⟩ :=
    C04_text_approx_all cfg ho ryu t d wf hN h hl hn m
  refine ⟨Print.text Print.Options.default ryu v, d', by simp [toText, hs], ?_, hR, hR'⟩
  simp only [fromText, e, hd]

/-- **C04_text_f32.**  `from_str::<f32>(&to_string(&x))  = Ok(x)` for every finite `f32` (a
    64-bit pattern fixed by `roundToF32`) whose text meets `RyuSpecOnly` — exactly, in every
    build, although the double read back may differ from the double printed. -/
theorem C04_text_f32 (cfg : Cfg) (ho : cfg.opts = Options.default) (ryu : Nat → List UInt8)
    (b : Nat) (h : roundToF32 b = b) (hr : RyuSpecOnly cfg ryu b) (m : Mode) :
    ∃ bytes, toText ryu .f32 (.float b) = some bytes ∧
      fromText cfg m .f32 bytes = some (.ok (.float b)) := by
  obtain ⟨bytes, d', h1, h2, h3, -⟩ := C04_text_identity_approx_all cfg ho ryu .f32 (.float b)
    (by simp only [WellFormed]) (by simp only [PlainNames, NamesOK])
    (by simp only [HasTy]; exact h) (by simp only [LeavesOK]; exact hr)
    (by simp [depthOf]) m
  simp only [Data.approxEqAt] at h3
  subst h3
  exact ⟨bytes, h1, h2⟩

/-! ## 6. Instance -/

/-- a stand-in for ryu on `0.1f32` widened (`0.10000000149011612`, 17 digits) and on `1e-23` -/
def ryuAx32 (b : Nat) : List UInt8 :=
  if b = 0x3FB99999A0000000 then asc "0.10000000149011612"
  else if b = 0x3B282DB34012B251 then asc "1e-23"
  else if b = 0x47EFFFFFE0000000 then asc "3.4028234663852886e38"
  else []

theorem ryuAx32_01 : RyuSpecOnly exCfgFast ryuAx32 0x3FB99999A0000000 :=
  ⟨by decide, by decide, ⟨false, 10000000149011612, -17, .small⟩,
    ⟨by decide, by decide, by decide, by decide +kernel⟩, fun h => ⟨exTab h, by decide +kernel⟩⟩

set_option exponentiation.threshold 2048 in
theorem ryuAx32_1em23 : RyuSpecOnly exCfgFast ryuAx32 0x3B282DB34012B251 :=
  ⟨by decide, by decide, ⟨false, 1, -23, .sci1⟩,
    ⟨by decide, by decide, by decide, fast_1em23.2⟩, fun h => ⟨exTab h, by decide +kernel⟩⟩

/-- `struct Q { a: f32, b: f64 }` -/
def apTy32 : Ty := .struct (.cons (asc "a") .f32 (.cons (asc "b") .f64 .nil))

/-- `Q { a: 0.1f32, b: 1e-23 }` -/
def apData32 : Data := .seq [.float 0x3FB99999A0000000, .float 0x3B282DB34012B251]

theorem f32_01_fixed : roundToF32 0x3FB99999A0000000 = 0x3FB99999A0000000 := by decide +kernel

/-- non-vacuity of `C04_text_identity_approx_all`, default build: the `f32` field `0.1f32` comes
    back exactly, the `f64` field `1e-23` (read one ulp up in the default build) within
    `floatApprox` -/
example (m : Mode) :
    ∃ bytes b', toText ryuAx32 apTy32 apData32 = some bytes ∧
      fromText exCfgFast m apTy32 bytes =
        some (.ok (.seq [.float 0x3FB99999A0000000, .float b'])) ∧
      floatApprox 0x3B282DB34012B251 b' := by
  obtain ⟨bytes, d', h1, h2, h3, -⟩ :=
    C04_text_identity_approx_all exCfgFast rfl ryuAx32 apTy32 apData32
      (by simp only [apTy32, WellFormed, WFFields, FieldList.names, and_true]; decide)
      (by simp only [apTy32, PlainNames, NamesOK, NamesOKFields, and_true]; decide)
      (by simp only [apTy32, apData32, HasTy, HasTyFields, and_true]; exact f32_01_fixed)
      (by simp only [apTy32, apData32, LeavesOK, LeavesOKFields, and_true]
          exact ⟨ryuAx32_01, ryuAx32_1em23⟩)
      (by simp [apTy32, apData32, depthOf, depthFields]) m
  simp only [apTy32, apData32, Data.approxEqAt, Data.approxEqAtFields] at h3
  obtain ⟨ds', rfl, e1, es1, rfl, rfl, e2, es2, rfl, ⟨b', rfl, hb⟩, rfl⟩ := h3
  exact ⟨bytes, b', h1, h2, hb⟩

/-- `f32::MAX` widened is `0x47EFFFFFE0000000`; ryu prints it as `3.4028234663852886e38` -/
theorem ryuAx32_max : RyuSpecOnly exCfgFast ryuAx32 0x47EFFFFFE0000000 :=
  ⟨by decide, by decide, ⟨false, 34028234663852886, 22, .sci⟩,
    ⟨by decide, by decide, by decide, by decide +kernel⟩, fun h => ⟨exTab h, by decide +kernel⟩⟩

/-- **f32_max_witness.**  The stability lemma is needed, at the overflow edge: in the default
    build the text of `f32::MAX` is read back as the double ONE ULP ABOVE `f32::MAX`
    (`0x47EFFFFFE0000001`; the real `from_str::<f64>("3.4028234663852886e38")` returns the same
    bits), the correctly rounded double being `0x47EFFFFFE0000000`; narrowing still gives
    `f32::MAX`, not infinity. -/
theorem f32_max_witness :
    fastParts Numbers.pow10Tab ((22 : Int).natAbs / 308 + 2) (F64.ofNat 34028234663852886) 22 =
      some 0x47EFFFFFE0000001 ∧
    F64.rnDec 34028234663852886 22 = 0x47EFFFFFE0000000 ∧
    roundToF32 0x47EFFFFFE0000001 = 0x47EFFFFFE0000000 := by decide +kernel

/-- `f64_from_parts` of the default build on the digits of `f32::MAX` -/
theorem f32_max_parts (s : St) :
    f64FromParts exCfgFast true 34028234663852886 22 s = .ok 0x47EFFFFFE0000001 s := by
  unfold f64FromParts
  simp only [exCfgFast, if_true]
  rw [f32_max_witness.1]
  rfl

/-- non-vacuity of `C04_text_f32`: `f32::MAX`, default build, every source -/
example (m : Mode) : ∃ bytes, toText ryuAx32 .f32 (.float 0x47EFFFFFE0000000) = some bytes ∧
    fromText exCfgFast m .f32 bytes = some (.ok (.float 0x47EFFFFFE0000000)) :=
  C04_text_f32 exCfgFast rfl ryuAx32 _ (by decide +kernel) ryuAx32_max m

#print axioms de_approx
#print axioms approxEqAt_approxEq
#print axioms C04_text_approx_all
#print axioms C04_text_identity_approx_all
#print axioms C04_text_f32

end Serde
end Lexpr
