/-
  C06, read faults on the stream source — part 3: the public entry points, call histories, and
  the main theorems.

  Setting: the input is `pre ++ tail`.  The fault-free run reads `initSt .io (pre ++ tail)`; the
  faulty run reads a stream that delivers `pre` and whose next read fails, and keeps failing
  (`initSt .io pre true`; in the model `faulty := true` makes the end of `rest` a failing read
  instead of end of input).

  Main statements (all for every `cfg`, `pre`, `tail`, and more generally from any pair of states
  related by `FSim tail`):
    * `C06_fault_value / _datum / _expectValue / _expectDatum / _expectEnd / _fromTrait /
      _fromTraitDatum`: one call.  The faulty call reports `Err.io` (and the parser is dead: it
      reports `Err.io` for ever after), or it returns exactly what the fault-free call returns.
    * `C06_fault_history`, `C06_fault_iterate`: any sequence of calls.  Item for item the faulty
      history equals the fault-free one up to the first `Err.io`; from there on every item is `Err.io`.
    * `C06_never_swallowed`: an item of the faulty history is `Err.io` or is the item of the
      fault-free history at the same index — in particular a value, an `Ok(None)` (end of input) or
      an `Eof*` error of the faulty run is never produced by the fault.
    * `C06_fault_demanded`: bytes demanded.  The faulty run reports the read error only at a call
      where the fault-free run reads beyond the cut: if after every call of the fault-free run more
      than `|tail|` bytes are unread (`withinCut`), the faulty history *is* the fault-free history.
-/
import LexprModel.Proofs.FaultParse2
namespace Lexpr
namespace Parse

/-! ## one call -/

/-- Outcome of a faulty call (right) against the fault-free call (left): `Err.io` with a dead
    parser, or the same outcome. -/
def FaultOutcome (tail : List UInt8) {α : Type} (r₁ r₂ : Res α) : Prop :=
  (∃ t', r₂ = .err .io t' ∧ FDead t' ∧ FBeyond tail r₁) ∨
  match r₁, r₂ with
  | .ok a s, .ok b t => a = b ∧ FSim tail s t
  | .err e s, .err e' t =>
    e = e' ∧ (FSim tail s t ∨ (FDead t ∧ s.rd.rest.length ≤ tail.length))
  | .panic p, .panic q => p = q
  | _, _ => False

theorem FBeyond.ok_iff {tail : List UInt8} {α : Type} {a : α} {s : St} :
    FBeyond tail (Res.ok a s) ↔ s.rd.rest.length ≤ tail.length :=
  ⟨fun h => h s (.inl ⟨a, rfl⟩), fun h s' he => by
    rcases he with ⟨_, h'⟩ | ⟨_, h'⟩ <;> cases h'; exact h⟩

theorem FBeyond.err_iff {tail : List UInt8} {α : Type} {e : Err} {s : St} :
    FBeyond tail (Res.err e s : Res α) ↔ s.rd.rest.length ≤ tail.length :=
  ⟨fun h => h s (.inr ⟨e, rfl⟩), fun h s' he => by
    rcases he with ⟨_, h'⟩ | ⟨_, h'⟩ <;> cases h'; exact h⟩

theorem FBeyond.panic_iff {tail : List UInt8} {α : Type} {p : Site} :
    FBeyond tail (Res.panic p : Res α) ↔ True :=
  ⟨fun _ => trivial, fun _ s' he => by rcases he with ⟨_, h'⟩ | ⟨_, h'⟩ <;> cases h'⟩

theorem FBeyond.fuel_iff {tail : List UInt8} {α : Type} :
    FBeyond tail (Res.fuel : Res α) ↔ True :=
  ⟨fun _ => trivial, fun _ s' he => by rcases he with ⟨_, h'⟩ | ⟨_, h'⟩ <;> cases h'⟩

theorem exists_dead_iff {e : Err} {s : St} {B : Prop} :
    (∃ t', (e = Err.io ∧ s = t') ∧ FDead t' ∧ B) ↔ e = .io ∧ FDead s ∧ B :=
  ⟨fun ⟨_, ⟨h1, h3⟩, h2⟩ => ⟨h1, h3 ▸ h2⟩, fun ⟨h1, h2⟩ => ⟨_, ⟨h1, rfl⟩, h2⟩⟩

theorem exists_dead_iff' {e : Err} {s : St} :
    (∃ t', (e = Err.io ∧ s = t') ∧ FDead t') ↔ e = .io ∧ FDead s :=
  ⟨fun ⟨_, ⟨h1, h3⟩, h2⟩ => ⟨h1, h3 ▸ h2⟩, fun ⟨h1, h2⟩ => ⟨_, ⟨h1, rfl⟩, h2⟩⟩

theorem GRes.outcome {tail : List UInt8} {α : Type} {r₁ r₂ : Res α} (h : GRes tail r₁ r₂)
    (hf : r₂ ≠ .fuel) : FaultOutcome tail r₁ r₂ := by
  rcases h with h | h | h
  · exact absurd h hf
  · exact .inl h
  · exact .inr h

/-- Reading `FaultOutcome`. -/
theorem FaultOutcome.reading {tail : List UInt8} {α : Type} {r₁ r₂ : Res α}
    (h : FaultOutcome tail r₁ r₂) :
    (∀ b t, r₂ = .ok b t → ∃ s, r₁ = .ok b s) ∧
    (∀ e t, r₂ = .err e t → e = .io ∨ ∃ s, r₁ = .err e s) ∧
    (∀ e t, r₂ = .err e t → e.category = .eof → ∃ s, r₁ = .err e s) ∧
    (∀ p, r₂ = .panic p → r₁ = .panic p) ∧ r₂ ≠ .fuel := by
  unfold FaultOutcome at h
  have hio : ¬ Err.io.category = Category.eof := by decide
  cases r₁ <;> cases r₂ <;> simp_all [exists_dead_iff]
  rcases h with ⟨rfl, _⟩ | ⟨rfl, _⟩ <;> simp_all

/-- a fresh fault-free reader on `pre ++ tail` and a reader that delivers `pre` and then fails -/
theorem FSim.init' (pre tail : List UInt8) :
    FSim tail (initSt .io (pre ++ tail)) (initSt .io pre true) :=
  ⟨rfl, rfl, rfl, rfl, rfl, rfl, rfl, rfl, rfl, fun h => nomatch h⟩

section calls
variable {tail : List UInt8} (cfg : Cfg) {s t : St} (h : FSim tail s t)
include h

/-- **C06 (faults), `next_value`** (`Parser::next_value`, the value iterators). -/
theorem C06_fault_value : FaultOutcome tail (nextValueTop cfg s) (nextValueTop cfg t) :=
  ((GRel.nextValueTop cfg).app s t h).outcome (Progress.C03_fuel cfg t).1

/-- **C06 (faults), `next_datum`**: values and spans. -/
theorem C06_fault_datum : FaultOutcome tail (nextDatumTop cfg s) (nextDatumTop cfg t) :=
  ((GRel.nextDatumTop cfg).app s t h).outcome (Progress.C03_fuel cfg t).2.1

/-- **C06 (faults), `expect_value`**. -/
theorem C06_fault_expectValue : FaultOutcome tail (expectValue cfg s) (expectValue cfg t) :=
  ((GRel.expectValue cfg).app s t h).outcome (Progress.C03_fuel cfg t).2.2.1

/-- **C06 (faults), `expect_datum`**. -/
theorem C06_fault_expectDatum : FaultOutcome tail (expectDatum cfg s) (expectDatum cfg t) :=
  ((GRel.expectDatum cfg).app s t h).outcome (Progress.C03_fuel cfg t).2.2.2.1

/-- **C06 (faults), `expect_end`**: a fault while looking for the end of the input is never
    reported as "end reached". -/
theorem C06_fault_expectEnd : FaultOutcome tail (expectEnd s) (expectEnd t) :=
  (GRel.expectEnd.app s t h).outcome (Progress.expectEnd_spec.no_fuel id)

/-- **C06 (faults), `from_trait`** (`from_reader`). -/
theorem C06_fault_fromTrait : FaultOutcome tail (fromTrait cfg s) (fromTrait cfg t) :=
  ((GRel.fromTrait cfg).app s t h).outcome (Progress.C03_fuel cfg t).2.2.2.2.2.1

/-- **C06 (faults), `datum::from_trait`**. -/
theorem C06_fault_fromTraitDatum :
    FaultOutcome tail (fromTraitDatum cfg s) (fromTraitDatum cfg t) :=
  ((GRel.fromTraitDatum cfg).app s t h).outcome (Progress.C03_fuel cfg t).2.2.2.2.2.2

end calls

/-- **C06 (faults), `from_reader` on bytes**: reading `pre ++ tail` from a stream that fails after
    `pre` reports the read error, or returns what the fault-free read returns. -/
theorem C06_fault_fromReader (cfg : Cfg) (pre tail : List UInt8) :
    FaultOutcome tail (fromTrait cfg (initSt .io (pre ++ tail))) (fromTrait cfg (initSt .io pre true)) :=
  C06_fault_fromTrait cfg (FSim.init' pre tail)

/-! ## call histories -/

section hist
variable {tail : List UInt8}

/-- from a dead parser every call reports the read error and leaves the parser dead -/
theorem stepOp_dead (cfg : Cfg) (op : Op) {t : St} (h : FDead t) :
    ∃ t', stepOp cfg op t = (.err .io, some t') ∧ FDead t' := by
  cases op
  case nextValue | valueIterNext | parserNext =>
    obtain ⟨t', h1, h2⟩ := nextValueTop_dead cfg h
    exact ⟨t', by simp only [stepOp, h1], h2⟩
  case nextDatum | datumIterNext =>
    obtain ⟨t', h1, h2⟩ := nextDatumTop_dead cfg h
    exact ⟨t', by simp only [stepOp, h1], h2⟩
  case expectValue =>
    obtain ⟨t', h1, h2⟩ := expectValue_dead cfg h
    exact ⟨t', by simp only [stepOp, h1], h2⟩
  case expectDatum =>
    obtain ⟨t', h1, h2⟩ := expectDatum_dead cfg h
    exact ⟨t', by simp only [stepOp, h1], h2⟩
  case expectEnd =>
    obtain ⟨t', h1, h2⟩ := expectEnd_dead h
    exact ⟨t', by simp only [stepOp, h1], h2⟩

/-- outcome of one call of a history: the faulty call (right) reports the read error and the
    parser is dead, or both return the same item and the parsers stay related (or the faulty one is
    dead after an error that both report) -/
def StepFault (tail : List UInt8) : Item × Option St → Item × Option St → Prop
  | (i, some s), (j, some t) =>
    (j = .err .io ∧ FDead t ∧ s.rd.rest.length ≤ tail.length) ∨
    (i = j ∧ (FSim tail s t ∨ (FDead t ∧ s.rd.rest.length ≤ tail.length)))
  | (_, none), (j, some t) => j = .err .io ∧ FDead t
  | (i, none), (j, none) => i = j
  | (_, some _), (_, none) => False

theorem stepOp_fault (cfg : Cfg) (op : Op) {s t : St} (h : FSim tail s t) :
    StepFault tail (stepOp cfg op s) (stepOp cfg op t) := by
  cases op <;> simp only [stepOp]
  case nextValue | valueIterNext | parserNext =>
    have hV := C06_fault_value cfg h
    generalize nextValueTop cfg s = r₁ at hV ⊢; generalize nextValueTop cfg t = r₂ at hV ⊢
    rcases r₁ with ⟨_ | _, _⟩ | _ | _ | _ <;> rcases r₂ with ⟨_ | _, _⟩ | _ | _ | _ <;>
      simp_all [FaultOutcome, StepFault, exists_dead_iff, exists_dead_iff', FBeyond.ok_iff, FBeyond.err_iff,
        FBeyond.panic_iff, FBeyond.fuel_iff]
  case nextDatum | datumIterNext =>
    have hD := C06_fault_datum cfg h
    generalize nextDatumTop cfg s = r₁ at hD ⊢; generalize nextDatumTop cfg t = r₂ at hD ⊢
    rcases r₁ with ⟨_ | _, _⟩ | _ | _ | _ <;> rcases r₂ with ⟨_ | _, _⟩ | _ | _ | _ <;>
      simp_all [FaultOutcome, StepFault, exists_dead_iff, exists_dead_iff', FBeyond.ok_iff, FBeyond.err_iff,
        FBeyond.panic_iff, FBeyond.fuel_iff]
  case expectValue =>
    have hEV := C06_fault_expectValue cfg h
    generalize expectValue cfg s = r₁ at hEV ⊢; generalize expectValue cfg t = r₂ at hEV ⊢
    cases r₁ <;> cases r₂ <;> simp_all [FaultOutcome, StepFault, exists_dead_iff, exists_dead_iff', FBeyond.ok_iff, FBeyond.err_iff,
        FBeyond.panic_iff, FBeyond.fuel_iff]
  case expectDatum =>
    have hED := C06_fault_expectDatum cfg h
    generalize expectDatum cfg s = r₁ at hED ⊢; generalize expectDatum cfg t = r₂ at hED ⊢
    cases r₁ <;> cases r₂ <;> simp_all [FaultOutcome, StepFault, exists_dead_iff, exists_dead_iff', FBeyond.ok_iff, FBeyond.err_iff,
        FBeyond.panic_iff, FBeyond.fuel_iff]
  case expectEnd =>
    have hEE := C06_fault_expectEnd h
    generalize expectEnd s = r₁ at hEE ⊢; generalize expectEnd t = r₂ at hEE ⊢
    cases r₁ <;> cases r₂ <;> simp_all [FaultOutcome, StepFault, exists_dead_iff, exists_dead_iff', FBeyond.ok_iff, FBeyond.err_iff,
        FBeyond.panic_iff, FBeyond.fuel_iff]

/-- The faulty history (right) against the fault-free history (left): equal item for item up to
    the first `Err.io` of the faulty history; from there on the faulty history consists of
    `Err.io` only. -/
inductive FaultHist : List Item → List Item → Prop
  | nil : FaultHist [] []
  | same (i : Item) {is js : List Item} : FaultHist is js → FaultHist (i :: is) (i :: js)
  | io {is js : List Item} : (∀ j ∈ js, j = .err .io) → FaultHist is (.err .io :: js)

theorem runHistory_dead (cfg : Cfg) : ∀ (ops : List Op) {t : St}, FDead t →
    ∀ j ∈ runHistory cfg ops t, j = .err .io
  | [], _, _ => by simp [runHistory]
  | op :: ops, t, h => by
    obtain ⟨t', h1, h2⟩ := stepOp_dead cfg op h
    simp only [runHistory, h1]
    intro j hj
    rcases List.mem_cons.mp hj with rfl | hj
    · rfl
    · exact runHistory_dead cfg ops h2 j hj

theorem runHistory_fault (cfg : Cfg) : ∀ (ops : List Op) {s t : St}, FSim tail s t ∨ FDead t →
    FaultHist (runHistory cfg ops s) (runHistory cfg ops t)
  | [], _, _, _ => .nil
  | op :: ops, s, t, h => by
    rcases h with h | h
    · have hs := stepOp_fault cfg op h
      unfold runHistory
      revert hs
      rcases stepOp cfg op s with ⟨i, _ | s'⟩ <;> rcases stepOp cfg op t with ⟨j, _ | t'⟩ <;>
        simp only [StepFault] <;> intro hs
      · subst hs; exact .same _ .nil
      · obtain ⟨rfl, hd⟩ := hs; exact .io (runHistory_dead cfg ops hd)
      · exact hs.elim
      · rcases hs with ⟨rfl, hd, _⟩ | ⟨rfl, hr⟩
        · exact .io (runHistory_dead cfg ops hd)
        · exact .same _ (runHistory_fault cfg ops (hr.imp id And.left))
    · obtain ⟨t', h1, h2⟩ := stepOp_dead cfg op h
      simp only [runHistory, h1]
      exact .io (runHistory_dead cfg ops h2)

theorem iterate_dead (cfg : Cfg) (op : Op) : ∀ (cap : Nat) {t : St}, FDead t →
    ∀ j ∈ iterate cfg op cap t, j = .err .io
  | 0, _, _ => by simp [iterate]
  | cap + 1, t, h => by
    obtain ⟨t', h1, h2⟩ := stepOp_dead cfg op h
    simp only [iterate, h1]
    intro j hj
    rcases List.mem_cons.mp hj with rfl | hj
    · rfl
    · exact iterate_dead cfg op cap h2 j hj

theorem iterate_fault (cfg : Cfg) (op : Op) : ∀ (cap : Nat) {s t : St}, FSim tail s t ∨ FDead t →
    FaultHist (iterate cfg op cap s) (iterate cfg op cap t)
  | 0, _, _, _ => .nil
  | cap + 1, s, t, h => by
    rcases h with h | h
    · have hs := stepOp_fault cfg op h
      unfold iterate
      revert hs
      rcases stepOp cfg op s with ⟨i, _ | s'⟩ <;> rcases stepOp cfg op t with ⟨j, _ | t'⟩ <;>
        simp only [StepFault] <;> intro hs
      · subst hs; cases i <;> exact .same _ .nil
      · obtain ⟨rfl, hd⟩ := hs; exact .io (iterate_dead cfg op cap hd)
      · exact hs.elim
      · rcases hs with ⟨rfl, hd, _⟩ | ⟨rfl, hr⟩
        · exact .io (iterate_dead cfg op cap hd)
        · cases i <;> first
            | exact .same _ .nil
            | exact .same _ (iterate_fault cfg op cap (hr.imp id And.left))
    · obtain ⟨t', h1, h2⟩ := stepOp_dead cfg op h
      simp only [iterate, h1]
      exact .io (iterate_dead cfg op cap h2)

/-! ### reading `FaultHist` -/

/-- item `k` of the faulty history is `Err.io` or item `k` of the fault-free history -/
theorem FaultHist.get {is js : List Item} (h : FaultHist is js) :
    ∀ (k : Nat) (j : Item), js[k]? = some j → j = .err .io ∨ is[k]? = some j := by
  induction h with
  | nil => intro k j hj; simp at hj
  | same i _ ih =>
    intro k j hj
    cases k with
    | zero => simp at hj; subst hj; exact .inr (by simp)
    | succ k => simp at hj; rcases ih k j hj with h | h <;> simp [h]
  | io hall =>
    intro k j hj
    cases k with
    | zero => simp at hj; exact .inl hj.symm
    | succ k => simp at hj; exact .inl (hall j (List.mem_of_getElem? hj))

/-- a common prefix, then read errors only -/
theorem FaultHist.prefix {is js : List Item} (h : FaultHist is js) :
    ∃ n, js.take n = is.take n ∧ ∀ j ∈ js.drop n, j = .err .io := by
  induction h with
  | nil => exact ⟨0, rfl, by simp⟩
  | same i _ ih =>
    obtain ⟨n, h1, h2⟩ := ih
    exact ⟨n + 1, by simp [h1], by simpa using h2⟩
  | io hall =>
    refine ⟨0, rfl, ?_⟩
    intro j hj
    rcases List.mem_cons.mp (by simpa using hj) with rfl | hj
    · rfl
    · exact hall j hj

/-- if the faulty history reports no read error it is the fault-free history -/
theorem FaultHist.eq_of_no_io {is js : List Item} (h : FaultHist is js)
    (hno : ∀ j ∈ js, j ≠ .err .io) : js = is := by
  induction h with
  | nil => rfl
  | same i _ ih => rw [ih (fun j hj => hno j (List.mem_cons_of_mem _ hj))]
  | io _ => exact absurd rfl (hno _ (List.mem_cons_self ..))

/-! ### bytes demanded -/

/-- After every call of the (fault-free) history more than `n` bytes are unread, and no call
    panics: with `n = |tail|`, the run never reads beyond the cut. -/
def withinCut (n : Nat) (cfg : Cfg) : List Op → St → Bool
  | [], _ => true
  | op :: ops, s =>
    match stepOp cfg op s with
    | (_, some s') => decide (n < s'.rd.rest.length) && withinCut n cfg ops s'
    | (_, none) => false

theorem runHistory_within (cfg : Cfg) : ∀ (ops : List Op) {s t : St}, FSim tail s t →
    withinCut tail.length cfg ops s = true → runHistory cfg ops t = runHistory cfg ops s
  | [], _, _, _, _ => rfl
  | op :: ops, s, t, h, hw => by
    have hs := stepOp_fault cfg op h
    unfold withinCut at hw
    unfold runHistory
    revert hs hw
    rcases stepOp cfg op s with ⟨i, _ | s'⟩ <;> rcases stepOp cfg op t with ⟨j, _ | t'⟩ <;>
      simp only [StepFault] <;> intro hs hw
    · cases hw
    · cases hw
    · exact hs.elim
    · simp only [Bool.and_eq_true, decide_eq_true_eq] at hw
      rcases hs with ⟨_, _, hl⟩ | ⟨rfl, hr | ⟨_, hl⟩⟩
      · omega
      · rw [runHistory_within cfg ops hr hw.2]
      · omega

/-- one call: if the fault-free call stops with more than `|tail|` unread bytes, the faulty call
    has the same outcome and the parsers stay related -/
theorem FaultOutcome.same_of_within {α : Type} {r₁ r₂ : Res α} (h : FaultOutcome tail r₁ r₂)
    (hw : ∃ s', r₁.endsIn s' ∧ tail.length < s'.rd.rest.length) :
    (∃ a s t, r₁ = .ok a s ∧ r₂ = .ok a t ∧ FSim tail s t) ∨
    (∃ e s t, r₁ = .err e s ∧ r₂ = .err e t ∧ FSim tail s t) := by
  obtain ⟨s', he, hl⟩ := hw
  rcases h with ⟨t', rfl, _, hb⟩ | hc
  · have := hb s' he; omega
  · revert hc he
    cases r₁ <;> cases r₂ <;> intro he hc <;> simp only at hc <;> try exact hc.elim
    · obtain ⟨rfl, hs⟩ := hc; exact .inl ⟨_, _, _, rfl, rfl, hs⟩
    · obtain ⟨rfl, hs⟩ := hc
      rcases he with ⟨_, h'⟩ | ⟨_, h'⟩ <;> cases h'
      rcases hs with hs | ⟨_, hl'⟩
      · exact .inr ⟨_, _, _, rfl, rfl, hs⟩
      · omega
    · rcases he with ⟨_, h'⟩ | ⟨_, h'⟩ <;> cases h'

end hist

/-! ## main theorems on bytes -/

/-- **C06_fault (histories)**: for input `pre ++ tail`, any sequence of calls on the stream that
    delivers `pre` and then fails returns, item for item, what the same calls return on the
    fault-free stream, up to the first item that is the read error; every later item is the read
    error again. -/
theorem C06_fault_history (cfg : Cfg) (ops : List Op) (pre tail : List UInt8) :
    FaultHist (runHistory cfg ops (initSt .io (pre ++ tail)))
      (runHistory cfg ops (initSt .io pre true)) :=
  runHistory_fault cfg ops (.inl (FSim.init' pre tail))

/-- **C06_fault (iteration)**: the same for `iterate` (one kind of call until end of input). -/
theorem C06_fault_iterate (cfg : Cfg) (op : Op) (cap : Nat) (pre tail : List UInt8) :
    FaultHist (iterate cfg op cap (initSt .io (pre ++ tail)))
      (iterate cfg op cap (initSt .io pre true)) :=
  iterate_fault cfg op cap (.inl (FSim.init' pre tail))

/-- **C06_fault (prefix form)**: there is an `n` such that the first `n` items of the two
    histories coincide and all later items of the faulty history are `Err.io`. -/
theorem C06_fault_prefix (cfg : Cfg) (ops : List Op) (pre tail : List UInt8) :
    ∃ n, (runHistory cfg ops (initSt .io pre true)).take n =
        (runHistory cfg ops (initSt .io (pre ++ tail))).take n ∧
      ∀ j ∈ (runHistory cfg ops (initSt .io pre true)).drop n, j = .err .io :=
  (C06_fault_history cfg ops pre tail).prefix

/-- **C06_never_swallowed**: every item `j` of the faulty history is the read error, or it is the
    item of the fault-free history at the same index.  Spelled out: a value / datum / `Ok(None)` /
    `Ok(())` returned by the faulty run is returned by the fault-free run at that call (a read
    failure is never swallowed into a successful parse of truncated data, and never treated as
    end of input); an error of the faulty run is `Err.io` or the fault-free run's error with the
    same code and position; an `Eof*` error of the faulty run is always the fault-free run's own
    error (EOF is never inferred from a fault). -/
theorem C06_never_swallowed (cfg : Cfg) (ops : List Op) (pre tail : List UInt8) (k : Nat) (j : Item)
    (hj : (runHistory cfg ops (initSt .io pre true))[k]? = some j) :
    (j = .err .io ∨ (runHistory cfg ops (initSt .io (pre ++ tail)))[k]? = some j) ∧
    (∀ v, j = .value v → (runHistory cfg ops (initSt .io (pre ++ tail)))[k]? = some (.value v)) ∧
    (∀ d, j = .datum d → (runHistory cfg ops (initSt .io (pre ++ tail)))[k]? = some (.datum d)) ∧
    (j = .none_ → (runHistory cfg ops (initSt .io (pre ++ tail)))[k]? = some .none_) ∧
    (j = .unit → (runHistory cfg ops (initSt .io (pre ++ tail)))[k]? = some .unit) ∧
    (∀ e, j = .err e → e.category = .eof →
      (runHistory cfg ops (initSt .io (pre ++ tail)))[k]? = some (.err e)) := by
  have h := (C06_fault_history cfg ops pre tail).get k j hj
  refine ⟨h, ?_, ?_, ?_, ?_, ?_⟩
  · rintro v rfl; rcases h with h | h; cases h; exact h
  · rintro d rfl; rcases h with h | h; cases h; exact h
  · rintro rfl; rcases h with h | h; cases h; exact h
  · rintro rfl; rcases h with h | h; cases h; exact h
  · rintro e rfl he; rcases h with h | h
    · cases h; cases he
    · exact h

/-- **C06_never_swallowed, one call**: `from_reader` on a stream that fails after `pre` returns
    `Ok(v)` only if the fault-free read of `pre ++ tail` returns `Ok(v)`, and reports an `Eof*`
    error only if the fault-free read reports that very error. -/
theorem C06_never_swallowed_fromReader (cfg : Cfg) (pre tail : List UInt8) :
    (∀ v t, fromTrait cfg (initSt .io pre true) = .ok v t →
      ∃ s, fromTrait cfg (initSt .io (pre ++ tail)) = .ok v s) ∧
    (∀ e t, fromTrait cfg (initSt .io pre true) = .err e t → e.category = .eof →
      ∃ s, fromTrait cfg (initSt .io (pre ++ tail)) = .err e s) ∧
    (∀ e t, fromTrait cfg (initSt .io pre true) = .err e t →
      e = .io ∨ ∃ s, fromTrait cfg (initSt .io (pre ++ tail)) = .err e s) :=
  have h := (C06_fault_fromReader cfg pre tail).reading
  ⟨h.1, h.2.2.1, h.2.1⟩

/-- **C06_fault (bytes demanded)**: if the fault-free run on `pre ++ tail` never reads beyond `pre`
    — after each of its calls more than `|tail|` bytes are unread, i.e. at least one byte of `pre`
    has not been consumed (the stream reader's lookahead slot holds at most that byte) — then the
    run on the stream that fails after `pre` returns exactly the same items.  Together with
    `C06_fault_history` (which says that otherwise the faulty history is the common prefix followed
    by `Err.io`): the fault is reported exactly where the bytes already delivered do not determine
    the outcome. -/
theorem C06_fault_demanded (cfg : Cfg) (ops : List Op) (pre tail : List UInt8)
    (hw : withinCut tail.length cfg ops (initSt .io (pre ++ tail)) = true) :
    runHistory cfg ops (initSt .io pre true) = runHistory cfg ops (initSt .io (pre ++ tail)) :=
  runHistory_within cfg ops (FSim.init' pre tail) hw

/-- conversely, a call at which the faulty run reports the read error is a call at which the
    fault-free run has read beyond the cut: the fault-free call panics or stops with at most
    `|tail|` unread bytes -/
theorem C06_fault_only_beyond {tail : List UInt8} (cfg : Cfg) {s t : St} (h : FSim tail s t) (t' : St)
    (hio : nextValueTop cfg t = .err .io t') :
    ∀ s', (nextValueTop cfg s).endsIn s' → s'.rd.rest.length ≤ tail.length := by
  rcases C06_fault_value cfg h with ⟨_, _, _, hb⟩ | hc
  · exact hb
  · rw [hio] at hc
    revert hc
    cases hr : nextValueTop cfg s <;> intro hc <;> simp only at hc
    have := (Progress.io_error_faulty cfg _ s _).1
      (by rw [Progress.nextValueTop_eq] at hr; rw [hc.1] at hr; exact hr)
    rw [h.faulty₁] at this; cases this

/-- if the faulty history reports no read error, it is the fault-free history -/
theorem C06_fault_no_io (cfg : Cfg) (ops : List Op) (pre tail : List UInt8)
    (hno : ∀ j ∈ runHistory cfg ops (initSt .io pre true), j ≠ .err .io) :
    runHistory cfg ops (initSt .io pre true) = runHistory cfg ops (initSt .io (pre ++ tail)) :=
  (C06_fault_history cfg ops pre tail).eq_of_no_io hno

/-! ## non-vacuity: concrete runs (evaluated by the kernel) -/

namespace FaultEx

def cfg : Cfg := { opts := Options.default, isAlphabetic := fun _ => false, pow10 := fun _ => 0 }

def isIo : Item → Bool
  | .err .io => true
  | _ => false
def isStr (bs : List UInt8) : Item → Bool
  | .value (.string s) => s == bs
  | _ => false
def isNum (n : Nat) : Item → Bool
  | .value (.number (.pos m)) => m == n
  | _ => false
def isSym (bs : List UInt8) : Item → Bool
  | .value (.symbol s) => s == bs
  | _ => false
def isNone : Item → Bool
  | .none_ => true
  | _ => false
def isSyntax (c : Code) : Item → Bool
  | .err (.syntax c' _ _) => c' == c
  | _ => false

/-- the run on the stream that delivers `pre` and then fails -/
def faulty (ops : List Op) (pre : String) : List Item := runHistory cfg ops (initSt .io (asc pre) true)
/-- the fault-free run on `pre ++ tail` -/
def free (ops : List Op) (pre tail : String) : List Item :=
  runHistory cfg ops (initSt .io (asc pre ++ asc tail))

/-- A fault inside a string literal: the faulty run reports `Err.io`; the fault-free run returns
    the string.  (No `EofString` is inferred.) -/
example : (faulty [.nextValue] "\"ab").map isIo = [true] ∧
    (free [.nextValue] "\"ab" "c\" 1").map (isStr (asc "abc")) = [true] := by decide +kernel

/-- A fault after a complete top-level atom whose delimiter was already delivered: the same value;
    the next call reports the fault, where the fault-free run returns the next value. -/
example : ((faulty [.nextValue, .nextValue] "12 ").zipWith (fun i f => f i) [isNum 12, isIo]) = [true, true] ∧
    ((free [.nextValue, .nextValue] "12 " "34").zipWith (fun i f => f i) [isNum 12, isNum 34]) = [true, true] := by
  decide +kernel

/-- Without the delimiter the delivered bytes do not determine the token: `Err.io`
    (the fault-free run reads `1234`). -/
example : (faulty [.nextValue] "12").map isIo = [true] ∧
    (free [.nextValue] "12" "34 ").map (isNum 1234) = [true] := by decide +kernel

/-- A fault at the very end of the input is not end of input: `Ok(None)` in the fault-free run,
    `Err.io` in the faulty run. -/
example : (faulty [.nextValue, .nextValue] "a ").zipWith (fun i f => f i) [isSym (asc "a"), isIo] = [true, true] ∧
    (free [.nextValue, .nextValue] "a " "").zipWith (fun i f => f i) [isSym (asc "a"), isNone] = [true, true] := by
  decide +kernel

/-- The error-capturing block of `next_value`: inside `(#q   )` the list body fails with
    `ExpectedSomeIdent`; `end_seq` then runs into the fault, and the code drops that read error in
    favour of the earlier syntax error (`(Err(err), _) => return Err(err)`): both runs report the
    same syntax error, the faulty parser is dead afterwards (`Err.io`), the fault-free one is at
    the end of its input. -/
example : (faulty [.nextValue, .nextValue] "(#q ").zipWith (fun i f => f i)
      [isSyntax .expectedSomeIdent, isIo] = [true, true] ∧
    (free [.nextValue, .nextValue] "(#q " "  )").zipWith (fun i f => f i)
      [isSyntax .expectedSomeIdent, isNone] = [true, true] := by
  decide +kernel

/-- instances of the theorems on these inputs -/
example : FaultHist (free [.nextValue, .nextValue] "12 " "34") (faulty [.nextValue, .nextValue] "12 ") :=
  C06_fault_history cfg _ (asc "12 ") (asc "34")
example : FaultOutcome (asc "c\"") (fromTrait cfg (initSt .io (asc "\"ab" ++ asc "c\"")))
    (fromTrait cfg (initSt .io (asc "\"ab") true)) :=
  C06_fault_fromReader cfg _ _
example : FaultHist (iterate cfg .nextDatum 9 (initSt .io (asc "(a . b) " ++ asc "#(1)")))
    (iterate cfg .nextDatum 9 (initSt .io (asc "(a . b) ") true)) :=
  C06_fault_iterate cfg _ _ _ _

/-- bytes demanded: reading `12` from `12 |34` looks at the space and no further, so the faulty run
    returns the same item (hypothesis of `C06_fault_demanded` checked by evaluation); a second call
    reads beyond the cut, and there the hypothesis fails. -/
example : withinCut (asc "34").length cfg [.nextValue] (initSt .io (asc "12 " ++ asc "34")) = true ∧
    withinCut (asc "34").length cfg [.nextValue, .nextValue] (initSt .io (asc "12 " ++ asc "34")) = false := by
  decide +kernel
example : faulty [.nextValue] "12 " = free [.nextValue] "12 " "34" :=
  C06_fault_demanded cfg _ (asc "12 ") (asc "34") (by decide +kernel)
/-- a list that is complete before the cut, followed by a delivered delimiter -/
example : faulty [.nextDatum, .nextValue] "(a . \"b\") #t " = free [.nextDatum, .nextValue] "(a . \"b\") #t " "#f" :=
  C06_fault_demanded cfg _ (asc "(a . \"b\") #t ") (asc "#f") (by decide +kernel)

end FaultEx

end Parse
end Lexpr

open Lexpr.Parse in
#print axioms GRelNE.parseToken
open Lexpr.Parse in
#print axioms GRel.value_all
open Lexpr.Parse in
#print axioms GRel.datum_all
open Lexpr.Parse in
#print axioms C06_fault_value
open Lexpr.Parse in
#print axioms C06_fault_datum
open Lexpr.Parse in
#print axioms C06_fault_expectValue
open Lexpr.Parse in
#print axioms C06_fault_expectDatum
open Lexpr.Parse in
#print axioms C06_fault_expectEnd
open Lexpr.Parse in
#print axioms C06_fault_fromTrait
open Lexpr.Parse in
#print axioms C06_fault_fromTraitDatum
open Lexpr.Parse in
#print axioms C06_fault_fromReader
open Lexpr.Parse in
#print axioms C06_fault_history
open Lexpr.Parse in
#print axioms C06_fault_iterate
open Lexpr.Parse in
#print axioms C06_fault_prefix
open Lexpr.Parse in
#print axioms C06_never_swallowed
open Lexpr.Parse in
#print axioms C06_never_swallowed_fromReader
open Lexpr.Parse in
#print axioms C06_fault_no_io
open Lexpr.Parse in
#print axioms C06_fault_demanded
open Lexpr.Parse in
#print axioms C06_fault_only_beyond
open Lexpr.Parse in
#print axioms FaultOutcome.same_of_within
