/-
  C09 (text half, second part) — the enlarged sub-language contains the old one: every `TextOK`
  tree of MacroText is a `TextOK2` tree (in every build) with the same text, the same nesting and
  the same documented tree, so `C09_agree_full` subsumes `C09_agree` (`C09_agree_full_extends`).
-/
import LexprModel.Proofs.MacroText2
namespace Lexpr
namespace Macro
open Print
open Parse.ListRT
open Decimals

mutual
/-- a documented tree without floats as an `Sx` tree -/
def embed : Doc → Sx
  | .list xs => .list (embedL xs)
  | .dotted xs t => .dotted (embedL xs) (embed t)
  | .vec xs => .vec (embedL xs)
  | .int n => .leaf (.int n)
  | .negInt n => .leaf (.negInt n)
  | .float s e => .leaf (.float s e)
  | .negFloat s e => .leaf (.negFloat s e)
  | .str src val => .leaf (.str src val)
  | .chr c => .leaf (.chr c)
  | .tru => .leaf .tru
  | .fls => .leaf .fls
  | .nil => .leaf .nil
  | .sym name => .leaf (.sym name)
  | .psym cs => .leaf (.psym cs)
  | .qsym src val => .leaf (.qsym src val)
  | .kw name => .leaf (.kw name)
  | .ckw name => .leaf (.ckw name)
  | .qkw src val => .leaf (.qkw src val)
  | .cqkw src val => .leaf (.cqkw src val)
  | .pkw cs => .leaf (.pkw cs)
  | .unq t => .leaf (.unq t)
def embedL : List Doc → List Sx
  | [] => []
  | x :: xs => embed x :: embedL xs
end

mutual
theorem erase_embed : ∀ d : Doc, erase (embed d) = d
  | .list xs => by simp only [embed, erase, eraseL_embedL xs]
  | .dotted xs t => by simp only [embed, erase, eraseL_embedL xs, erase_embed t]
  | .vec xs => by simp only [embed, erase, eraseL_embedL xs]
  | .int _ | .negInt _ | .float _ _ | .negFloat _ _ | .str _ _ | .chr _ | .tru | .fls | .nil
  | .sym _ | .psym _ | .qsym _ _ | .kw _ | .ckw _ | .qkw _ _ | .cqkw _ _ | .pkw _ | .unq _ => by
    simp only [embed, erase]
theorem eraseL_embedL : ∀ xs : List Doc, eraseL (embedL xs) = xs
  | [] => by simp only [embedL, eraseL]
  | x :: xs => by simp only [embedL, eraseL, erase_embed x, eraseL_embedL xs]
end

/-- the leaf conditions of `TextOK` imply those of `TextOK2`, and the leaf texts coincide -/
theorem atom_embed (d : Doc) (h : atomOk d = true) :
    atomOk2 d = true ∧ stextAtom2 d = stextAtom d := by
  cases d with
  | str src val =>
    simp only [atomOk, Bool.and_eq_true, beq_iff_eq] at h
    obtain ⟨⟨rfl, h2⟩, h3⟩ := h
    exact ⟨h3, by simp only [stextAtom2, strText, stextAtom, escapeStr_noEscape _ _ h2]⟩
  | negInt n =>
    simp only [atomOk, decide_eq_true_eq] at h
    exact ⟨by simp only [atomOk2, decide_eq_true_eq]; exact h.2, rfl⟩
  | int _ | float _ _ | negFloat _ _ | chr _ | tru | fls | nil | sym _ | psym _ | qsym _ _
  | kw _ | ckw _ | qkw _ _ | cqkw _ _ | pkw _ | unq _ | list _ | dotted _ _ | vec _ =>
    exact ⟨by simpa only [atomOk2] using h, rfl⟩

mutual
theorem textOk2_embed (cfg : Parse.Cfg) : ∀ d : Doc, textOk d = true → textOk2 cfg (embed d)
  | .list xs, h => by
    simp only [textOk] at h; simp only [embed, textOk2]; exact textOkL2_embed cfg xs h
  | .dotted [] t, h => by simp [textOk] at h
  | .dotted (x :: xs) t, h => by
    simp only [textOk, Bool.and_eq_true] at h
    simp only [embed, embedL, textOk2]
    exact ⟨textOk2_embed cfg x h.1.1, textOkL2_embed cfg xs h.1.2, textOkTail2_embed cfg t h.2⟩
  | .vec xs, h => by
    simp only [textOk] at h; simp only [embed, textOk2]; exact textOkL2_embed cfg xs h
  | .int _, h | .negInt _, h | .float _ _, h | .negFloat _ _, h | .str _ _, h | .chr _, h
  | .tru, h | .fls, h | .nil, h | .sym _, h | .psym _, h | .qsym _ _, h | .kw _, h | .ckw _, h
  | .qkw _ _, h | .cqkw _ _, h | .pkw _, h | .unq _, h => by
    simp only [textOk] at h; simp only [embed, textOk2]
    exact leafOK_of_atomOk2 cfg _ (atom_embed _ h).1
theorem textOkL2_embed (cfg : Parse.Cfg) : ∀ xs : List Doc, textOkL xs = true →
    textOkL2 cfg (embedL xs)
  | [], _ => by simp only [embedL, textOkL2]
  | x :: xs, h => by
    simp only [textOkL, Bool.and_eq_true] at h
    simp only [embedL, textOkL2]
    exact ⟨textOk2_embed cfg x h.1, textOkL2_embed cfg xs h.2⟩
theorem textOkTail2_embed (cfg : Parse.Cfg) : ∀ t : Doc, textOkTail t = true →
    textOkTail2 cfg (embed t)
  | .list ys, h => by
    simp only [textOkTail] at h; simp only [embed, textOkTail2]; exact textOkL2_embed cfg ys h
  | .dotted ys t, h => by
    simp only [textOkTail, Bool.and_eq_true] at h
    simp only [embed, textOkTail2]
    exact ⟨textOkL2_embed cfg ys h.1, textOkTail2_embed cfg t h.2⟩
  | .vec xs, h => by
    simp only [textOkTail] at h; simp only [embed, textOkTail2]; exact textOkL2_embed cfg xs h
  | .int _, h | .negInt _, h | .float _ _, h | .negFloat _ _, h | .str _ _, h | .chr _, h
  | .tru, h | .fls, h | .nil, h | .sym _, h | .psym _, h | .qsym _ _, h | .kw _, h | .ckw _, h
  | .qkw _ _, h | .cqkw _ _, h | .pkw _, h | .unq _, h => by
    simp only [textOkTail] at h; simp only [embed, textOkTail2]
    exact leafOK_of_atomOk2 cfg _ (atom_embed _ h).1
end

mutual
theorem stext2_embed : ∀ d : Doc, textOk d = true → stext2 (embed d) = stext d
  | .list [], _ => by simp only [embed, embedL, stext2, stext]
  | .list (x :: xs), h => by
    simp only [textOk, textOkL, Bool.and_eq_true] at h
    simp only [embed, embedL, stext2, stext, stext2_embed x h.1, stextRest2_embed xs h.2]
  | .dotted [] t, h => by simp [textOk] at h
  | .dotted (x :: xs) t, h => by
    simp only [textOk, Bool.and_eq_true] at h
    simp only [embed, embedL, stext2, stext, stext2_embed x h.1.1, stextRest2_embed xs h.1.2,
      stextTail2_embed t h.2, List.append_assoc]
  | .vec [], _ => by simp only [embed, embedL, stext2, stext]
  | .vec (x :: xs), h => by
    simp only [textOk, textOkL, Bool.and_eq_true] at h
    simp only [embed, embedL, stext2, stext, stext2_embed x h.1, stextRest2_embed xs h.2,
      List.append_assoc]
  | .int _, h | .negInt _, h | .float _ _, h | .negFloat _ _, h | .str _ _, h | .chr _, h
  | .tru, h | .fls, h | .nil, h | .sym _, h | .psym _, h | .qsym _ _, h | .kw _, h | .ckw _, h
  | .qkw _ _, h | .cqkw _ _, h | .pkw _, h | .unq _, h => by
    simp only [textOk] at h; simp only [embed, stext2, stext]; exact (atom_embed _ h).2
theorem stextRest2_embed : ∀ xs : List Doc, textOkL xs = true →
    stextRest2 (embedL xs) = stextRest xs
  | [], _ => by simp only [embedL, stextRest2, stextRest]
  | x :: xs, h => by
    simp only [textOkL, Bool.and_eq_true] at h
    simp only [embedL, stextRest2, stextRest, stext2_embed x h.1, stextRest2_embed xs h.2]
theorem stextTail2_embed : ∀ t : Doc, textOkTail t = true → stextTail2 (embed t) = stextTail t
  | .list ys, h => by
    simp only [textOkTail] at h
    simp only [embed, stextTail2, stextTail, stextRest2_embed ys h]
  | .dotted ys t, h => by
    simp only [textOkTail, Bool.and_eq_true] at h
    simp only [embed, stextTail2, stextTail, stextRest2_embed ys h.1, stextTail2_embed t h.2]
  | .vec [], _ => by simp only [embed, embedL, stextTail2, stextTail]
  | .vec (x :: xs), h => by
    simp only [textOkTail, textOkL, Bool.and_eq_true] at h
    simp only [embed, embedL, stextTail2, stextTail, stext2_embed x h.1, stextRest2_embed xs h.2,
      List.append_assoc]
  | .int _, h | .negInt _, h | .float _ _, h | .negFloat _ _, h | .str _ _, h | .chr _, h
  | .tru, h | .fls, h | .nil, h | .sym _, h | .psym _, h | .qsym _ _, h | .kw _, h | .ckw _, h
  | .qkw _ _, h | .cqkw _ _, h | .pkw _, h | .unq _, h => by
    simp only [textOkTail] at h
    simp only [embed, stextTail2, stextTail, (atom_embed _ h).2]
end

mutual
theorem dnest2_embed : ∀ d : Doc, dnest2 (embed d) = dnest d
  | .list xs => by simp only [embed, dnest2, dnest, dnestL2_embed xs]
  | .dotted [] t => by simp only [embed, embedL, dnest2, dnest, dnest2_embed t]
  | .dotted (x :: xs) t => by
    simp only [embed, embedL, dnest2, dnest, dnest2_embed x, dnestL2_embed xs, dnestTail2_embed t]
  | .vec xs => by simp only [embed, dnest2, dnest, dnestL2_embed xs]
  | .int _ | .negInt _ | .float _ _ | .negFloat _ _ | .str _ _ | .chr _ | .tru | .fls | .nil
  | .sym _ | .psym _ | .qsym _ _ | .kw _ | .ckw _ | .qkw _ _ | .cqkw _ _ | .pkw _ | .unq _ => by
    simp only [embed, dnest2, dnest]
theorem dnestL2_embed : ∀ xs : List Doc, dnestL2 (embedL xs) = dnestL xs
  | [] => by simp only [embedL, dnestL2, dnestL]
  | x :: xs => by simp only [embedL, dnestL2, dnestL, dnest2_embed x, dnestL2_embed xs]
theorem dnestTail2_embed : ∀ t : Doc, dnestTail2 (embed t) = dnestTail t
  | .list ys => by simp only [embed, dnestTail2, dnestTail, dnestL2_embed ys]
  | .dotted ys t => by
    simp only [embed, dnestTail2, dnestTail, dnestL2_embed ys, dnestTail2_embed t]
  | .vec xs => by simp only [embed, dnestTail2, dnestTail, dnestL2_embed xs]
  | .int _ | .negInt _ | .float _ _ | .negFloat _ _ | .str _ _ | .chr _ | .tru | .fls | .nil
  | .sym _ | .psym _ | .qsym _ _ | .kw _ | .ckw _ | .qkw _ _ | .cqkw _ _ | .pkw _ | .unq _ => by
    simp only [embed, dnestTail2, dnestTail]
end

/-- **C09_agree_full_extends.** Every tree of the old sub-language is a tree of the new one, in
    every build, with the same documented tree, text and nesting: `C09_agree_full` applied to
    `embed d` is `C09_agree` for `d`. -/
theorem C09_agree_full_extends (cfg : Parse.Cfg) (d : Doc) (h : TextOK d) :
    erase (embed d) = d ∧ TextOK2 cfg (embed d) ∧ stext2 (embed d) = stext d ∧
      dnest2 (embed d) = dnest d :=
  ⟨erase_embed d, textOk2_embed cfg d h, stext2_embed d h, dnest2_embed d⟩

/-- `C09_agree`, re-derived from `C09_agree_full` -/
example (env : Tok → Value) (cfg : Parse.Cfg) (ho : cfg.opts = Parse.Options.default)
    (d : Doc) (hwf : WF d) (hok : TextOK d) (hn : dnest d ≤ 127)
    (hfuel : need d ≤ 2 * (toks d).length + 1000) :
    expand env (toks d) = some (valueOf env d) ∧
      ∃ s', Parse.fromTrait cfg (Parse.initSt .slice (stext d)) = .ok (valueOf env d) s' ∧
        s'.rd.rest = [] ∧ s'.depth = 128 := by
  obtain ⟨h1, h2, h3, h4⟩ := C09_agree_full_extends cfg d hok
  have := C09_agree_full env cfg ho (embed d) (by rw [h1]; exact hwf) h2 (by rw [h4]; exact hn)
    (by rw [h1]; exact hfuel)
  rw [h1, h3] at this
  exact this

#print axioms C09_agree_full_extends

end Macro
end Lexpr
