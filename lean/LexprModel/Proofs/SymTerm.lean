/-
  The two symbol-terminator tables coincide; small facts shared by the source proofs.
-/
import LexprModel.Lex
namespace Lexpr
namespace Parse

/-- `SliceRead::parse_symbol_bytes` and `IoRead::parse_symbol_bytes` stop at the same bytes. -/
theorem symTermSlice_eq_io (b : UInt8) : symTermSlice b = symTermIo b := rfl

theorem symTerm_mode (m₁ m₂ : Mode) (b : UInt8) : symTerm m₁ b = symTerm m₂ b := by
  cases m₁ <;> cases m₂ <;> simp only [symTerm, symTermSlice_eq_io]

theorem symLen_mode (m₁ m₂ : Mode) (l : List UInt8) : symLen m₁ l = symLen m₂ l := by
  induction l with
  | nil => rfl
  | cons b bs ih => simp only [symLen, symTerm_mode m₁ m₂ b, ih]

theorem P.run_bind {α β : Type} (m : P α) (f : α → P β) (s : St) :
    (m >>= f) s = match m s with
      | .ok a s' => f a s'
      | .err e s' => .err e s'
      | .panic p => .panic p
      | .fuel => .fuel := rfl

theorem P.run_pure {α : Type} (a : α) (s : St) : (Pure.pure a : P α) s = .ok a s := rfl

theorem mode_slice_ne_str : (Mode.slice == Mode.str) = false := rfl
theorem mode_io_ne_str : (Mode.io == Mode.str) = false := rfl

end Parse
end Lexpr
