/-
  FloatApproxFin — every float the parser returns is a finite double (C05 "never infinity or NaN",
  lifted from `f64_from_parts` to numbers, tokens and values).

  `Numbers.C05_never_inf` is about `f64_from_parts`; here the inversion is carried through the
  number scanners (`parse_decimal`, `parse_exponent`, `parse_long_integer`, `parse_num_tail`, …:
  part 1), `parse_token` (part 2) and `next_value` / `parse_list` / `parse_vector` (part 3):
  `nextValue_floats_finite`: all float leaves of a value returned by `next_value` satisfy
  `FinF` (finite, `< 2^64`), for every source mode, provided the `POW10` table holds finite
  doubles `≥ 1.0` (`TabFin`; true of the real table).  Used to discharge the finiteness part of
  `RyuSpecOnly` in C13 (`FloatApproxImage2.lean`).
-/
import LexprModel.Proofs.FloatApprox
import LexprModel.Proofs.Image
namespace Lexpr
namespace FloatApprox
open Parse F64 Numbers Decimals

/-- a finite double given as 64 bits -/
def FinF (g : Nat) : Prop := isFinite g = true ∧ g < 2 ^ 64

/-- the `POW10` entries are finite doubles `≥ 1.0` (what `Numbers.C05_never_inf` asks for) -/
def TabFin (cfg : Cfg) : Prop :=
  cfg.fast = true → ∀ k, k ≤ 308 → oneBits ≤ cfg.pow10 k ∧ cfg.pow10 k < infBits

/-- a correctly rounded table is such a table -/
theorem tabFin_of_rounded (cfg : Cfg)
    (h : cfg.fast = true → ∀ k, k ≤ 308 → cfg.pow10 k = rn (10 ^ k) 1) : TabFin cfg := by
  intro hf k hk
  obtain ⟨a, b, _⟩ := Accuracy.tab_facts (h hf) hk
  exact ⟨b, a⟩

/-- float payloads are finite -/
def NumFin : Number → Prop
  | .flt g => FinF g
  | _ => True

theorem finF_signed (pos : Bool) {f : Nat} (hf : f < infBits) : FinF (signed pos f) :=
  ⟨(signed_finite pos hf).1, (signed_props pos hf).2.1⟩

/-! ## 1. Numbers -/

theorem f64FromParts_fin {cfg : Cfg} (ht : TabFin cfg) {pos : Bool} {sig : Nat} {e : Int}
    {s s' : St} {r : Nat} (hs : sig ≤ u64Max) (h : f64FromParts cfg pos sig e s = .ok r s') :
    FinF r := by
  unfold f64FromParts at h
  by_cases hfast : cfg.fast = true
  · rw [if_pos hfast] at h
    cases hfp : fastParts cfg.pow10 (e.natAbs / 308 + 2) (F64.ofNat sig) e with
    | some f =>
      rw [hfp] at h
      have hfin := fastParts_finite (ht hfast) _ _ _ _ (ofNat_finite hs) hfp
      simp only [pure_ok] at h
      injection h with h1 _
      subst h1
      exact finF_signed pos hfin
    | none => rw [hfp] at h; cases h
  · rw [if_neg hfast] at h
    cases hinf : isInf (rnDec sig e) with
    | true => rw [hinf] at h; simp only [if_true] at h; cases h
    | false =>
      rw [hinf] at h; simp only [Bool.false_eq_true, if_false] at h
      have hfin := lt_inf_of_not_isInf (rnDec_le_inf sig e) hinf
      rw [pure_ok] at h
      injection h with h1 _
      subst h1
      exact finF_signed pos hfin

theorem parseExponentOverflow_fin {pos : Bool} {sig : Nat} {posExp : Bool} {s s' : St} {r : Nat}
    (h : parseExponentOverflow pos sig posExp s = .ok r s') : FinF r := by
  unfold parseExponentOverflow at h
  rcases U8.ite_ok h with ⟨_, h⟩ | ⟨_, h⟩
  · simp [errAt] at h
  · obtain ⟨_, s1, _, h⟩ := U8.bind_ok h
    obtain ⟨rfl, _⟩ := U8.pure_ok h
    cases pos <;> exact ⟨by decide, by decide⟩

theorem exponentLoop_fin {cfg : Cfg} (ht : TabFin cfg) {pos : Bool} {sig : Nat} {startExp : Int}
    {posExp : Bool} (hs : sig ≤ u64Max) :
    ∀ (f exp : Nat) {s s' : St} {r : Nat},
      exponentLoop cfg pos sig startExp posExp f exp s = .ok r s' → FinF r := by
  intro f
  induction f with
  | zero => intro exp s s' r h; simp [exponentLoop, outOfFuel] at h
  | succ f ih =>
    intro exp s s' r h
    unfold exponentLoop at h
    obtain ⟨c, s1, _, h⟩ := U8.bind_ok h
    rcases U8.ite_ok h with ⟨_, h⟩ | ⟨_, h⟩
    · obtain ⟨_, s2, _, h⟩ := U8.bind_ok h
      dsimp only at h
      rcases U8.ite_ok h with ⟨_, h⟩ | ⟨_, h⟩
      · exact parseExponentOverflow_fin h
      · exact ih _ h
    · exact f64FromParts_fin ht hs h

theorem parseExponent_fin {cfg : Cfg} (ht : TabFin cfg) {fuel : Nat} {pos : Bool} {sig : Nat}
    {startExp : Int} (hs : sig ≤ u64Max) {s s' : St} {r : Nat}
    (h : parseExponent cfg fuel pos sig startExp s = .ok r s') : FinF r := by
  unfold parseExponent at h
  obtain ⟨_, s1, _, h⟩ := U8.bind_ok h
  obtain ⟨c, s2, _, h⟩ := U8.bind_ok h
  obtain ⟨posExp, s3, _, h⟩ := U8.bind_ok h
  obtain ⟨a, s4, _, h⟩ := U8.bind_ok h
  cases a with
  | none => simp [errAt] at h
  | some d =>
    dsimp only at h
    rcases U8.ite_ok h with ⟨_, h⟩ | ⟨_, h⟩
    · exact exponentLoop_fin ht hs _ _ h
    · simp [errAt] at h

theorem shiftIn_le : ∀ (z sig : Nat) (exp : Int) (d : Nat), d < 10 → sig ≤ u64Max →
    (shiftIn sig exp z d).1 ≤ u64Max := by
  intro z
  induction z with
  | zero =>
    intro sig exp d hd hs
    rw [shiftIn]
    cases hov : overflow sig 10 d u64Max with
    | true => simpa using hs
    | false =>
      simp only [Bool.false_eq_true, if_false]
      exact (Numbers.overflow_false_iff (by decide) hd).mp hov
  | succ z ih =>
    intro sig exp d hd hs
    rw [shiftIn]
    cases hov : overflow sig 10 0 u64Max with
    | true => simpa using hs
    | false =>
      simp only [Bool.false_eq_true, if_false]
      have := (Numbers.overflow_false_iff (b := 0) (by decide) (by decide)).mp hov
      exact ih _ _ _ hd (by omega)

theorem digit_sub_lt {c : UInt8} (h : isDigit c = true) : c.toNat - 48 < 10 :=
  (isDigit_val c h).1

theorem decimalLoop_le : ∀ (f sig : Nat) (exp : Int) (zeros : Nat) (any : Bool) {s s' : St}
    {r : Nat × Int × Bool}, decimalLoop f sig exp zeros any s = .ok r s' → sig ≤ u64Max →
    r.1 ≤ u64Max := by
  intro f
  induction f with
  | zero => intro sig exp zeros any s s' r h; simp [decimalLoop, outOfFuel] at h
  | succ f ih =>
    intro sig exp zeros any s s' r h hs
    unfold decimalLoop at h
    obtain ⟨c, s1, _, h⟩ := U8.bind_ok h
    rcases U8.ite_ok h with ⟨hdig, h⟩ | ⟨_, h⟩
    · obtain ⟨_, s2, _, h⟩ := U8.bind_ok h
      rcases U8.ite_ok h with ⟨_, h⟩ | ⟨_, h⟩
      · exact ih _ _ _ _ h hs
      · have hle := shiftIn_le zeros sig exp (c.toNat - 48) (digit_sub_lt hdig) hs
        rcases hsh : shiftIn sig exp zeros (c.toNat - 48) with ⟨sig', exp', fl⟩
        rw [hsh] at h hle
        cases fl with
        | true =>
          dsimp only at h
          obtain ⟨_, s3, _, h⟩ := U8.bind_ok h
          obtain ⟨rfl, _⟩ := U8.pure_ok h
          exact hle
        | false =>
          dsimp only at h
          exact ih _ _ _ _ h hle
    · obtain ⟨rfl, _⟩ := U8.pure_ok h
      exact hs

theorem parseDecimal_fin {cfg : Cfg} (ht : TabFin cfg) {fuel : Nat} {pos : Bool} {sig : Nat}
    {exp : Int} (hs : sig ≤ u64Max) {s s' : St} {r : Nat}
    (h : parseDecimal cfg fuel pos sig exp s = .ok r s') : FinF r := by
  unfold parseDecimal at h
  obtain ⟨_, s1, _, h⟩ := U8.bind_ok h
  obtain ⟨⟨sig', exp', any⟩, s2, hloop, h⟩ := U8.bind_ok h
  have hs' : sig' ≤ u64Max := decimalLoop_le _ _ _ _ _ hloop hs
  dsimp only at h
  rcases U8.ite_ok h with ⟨_, h⟩ | ⟨_, h⟩
  · obtain ⟨a, s3, _, h⟩ := U8.bind_ok h
    cases a <;> simp [peekErr] at h
  · obtain ⟨c, s3, _, h⟩ := U8.bind_ok h
    rcases U8.ite_ok h with ⟨_, h⟩ | ⟨_, h⟩
    · exact parseExponent_fin ht hs' h
    · exact f64FromParts_fin ht hs' h

theorem parseLongInteger_fin {cfg : Cfg} (ht : TabFin cfg) {radix : Nat} {pos : Bool} {sig : Nat}
    (hs : sig ≤ u64Max) :
    ∀ (f exp : Nat) {s s' : St} {r : Nat},
      parseLongInteger cfg radix pos sig f exp s = .ok r s' → FinF r := by
  intro f
  induction f with
  | zero => intro exp s s' r h; simp [parseLongInteger, outOfFuel] at h
  | succ f ih =>
    intro exp s s' r h
    unfold parseLongInteger at h
    obtain ⟨c, s1, _, h⟩ := U8.bind_ok h
    cases hd : digitVal radix c with
    | some d =>
      rw [hd] at h
      dsimp only at h
      rcases U8.ite_ok h with ⟨_, h⟩ | ⟨_, h⟩
      · simp [peekErr] at h
      · obtain ⟨_, s2, _, h⟩ := U8.bind_ok h
        rcases U8.ite_ok h with ⟨_, h⟩ | ⟨_, h⟩
        · simp [panicAt] at h
        · exact ih _ h
    | none =>
      rw [hd] at h
      dsimp only at h
      rcases U8.ite_ok h with ⟨_, h⟩ | ⟨_, h⟩
      · rcases U8.ite_ok h with ⟨_, h⟩ | ⟨_, h⟩
        · simp [peekErr] at h
        · exact parseDecimal_fin ht hs h
      rcases U8.ite_ok h with ⟨_, h⟩ | ⟨_, h⟩
      · rcases U8.ite_ok h with ⟨_, h⟩ | ⟨_, h⟩
        · simp [peekErr] at h
        · exact parseExponent_fin ht hs h
      rcases U8.ite_ok h with ⟨_, h⟩ | ⟨_, h⟩
      · rcases U8.ite_ok h with ⟨_, h⟩ | ⟨hninf, h⟩
        · simp [errAt] at h
        · obtain ⟨rfl, _⟩ := U8.pure_ok h
          refine finF_signed pos (lt_inf_of_not_isInf ?_ (Bool.eq_false_iff.mpr hninf))
          split
          · exact mulPos_le_inf _ _
          · exact Nat.le_refl _
      · exact f64FromParts_fin ht hs h

theorem parseNumTail_fin {cfg : Cfg} (ht : TabFin cfg) {fuel radix : Nat} {pos : Bool} {sig : Nat}
    {s s' : St} {n : Number} (h : parseNumTail cfg fuel radix pos sig s = .ok n s')
    (hs : sig ≤ u64Max) : NumFin n := by
  unfold parseNumTail at h
  obtain ⟨c, s1, _, h⟩ := U8.bind_ok h
  rcases U8.ite_ok h with ⟨_, h⟩ | ⟨_, h⟩
  · rcases U8.ite_ok h with ⟨_, h⟩ | ⟨_, h⟩
    · simp [peekErr] at h
    · obtain ⟨f, s2, hf, h⟩ := U8.bind_ok h
      obtain ⟨rfl, _⟩ := U8.pure_ok h
      exact parseDecimal_fin ht hs hf
  rcases U8.ite_ok h with ⟨_, h⟩ | ⟨_, h⟩
  · rcases U8.ite_ok h with ⟨_, h⟩ | ⟨_, h⟩
    · simp [peekErr] at h
    · obtain ⟨f, s2, hf, h⟩ := U8.bind_ok h
      obtain ⟨rfl, _⟩ := U8.pure_ok h
      exact parseExponent_fin ht hs hf
  rcases U8.ite_ok h with ⟨_, h⟩ | ⟨_, h⟩
  · obtain ⟨rfl, _⟩ := U8.pure_ok h
    trivial
  · dsimp only at h
    rcases U8.ite_ok h with ⟨_, h⟩ | ⟨_, h⟩
    · obtain ⟨rfl, _⟩ := U8.pure_ok h
      exact finF_signed false (ofNat_finite hs)
    · obtain ⟨rfl, _⟩ := U8.pure_ok h
      unfold Number.ofSigned
      split <;> trivial

theorem numLoop_fin {cfg : Cfg} (ht : TabFin cfg) {radix : Nat} {pos : Bool} (hr : 0 < radix) :
    ∀ (f res : Nat) {s s' : St} {n : Number}, numLoop cfg radix pos f res s = .ok n s' →
      res ≤ u64Max → NumFin n := by
  intro f
  induction f with
  | zero => intro res s s' n h; simp [numLoop, outOfFuel] at h
  | succ f ih =>
    intro res s s' n h hres
    unfold numLoop at h
    obtain ⟨c, s1, _, h⟩ := U8.bind_ok h
    cases hd : digitVal radix c with
    | none => rw [hd] at h; exact parseNumTail_fin ht h hres
    | some d =>
      rw [hd] at h
      dsimp only at h
      rcases U8.ite_ok h with ⟨_, h⟩ | ⟨hlt, h⟩
      · simp [peekErr] at h
      · obtain ⟨_, s2, _, h⟩ := U8.bind_ok h
        rcases U8.ite_ok h with ⟨_, h⟩ | ⟨hov, h⟩
        · obtain ⟨g, s3, hg, h⟩ := U8.bind_ok h
          obtain ⟨rfl, _⟩ := U8.pure_ok h
          exact parseLongInteger_fin ht hres _ _ hg
        · refine ih _ h ?_
          have hov' : overflow res radix d u64Max = false := by simpa using hov
          exact (Numbers.overflow_false_iff hr (by omega)).mp hov'

theorem parseNumLiteral_fin {cfg : Cfg} (ht : TabFin cfg) {fuel radix : Nat} {pos : Bool}
    (hr : 0 < radix) {s s' : St} {n : Number}
    (h : parseNumLiteral cfg fuel radix pos s = .ok n s') : NumFin n := by
  unfold parseNumLiteral at h
  obtain ⟨a, s1, _, h⟩ := U8.bind_ok h
  cases a with
  | none => simp [peekErr] at h
  | some c =>
    dsimp only at h
    cases hd : digitVal radix c with
    | none => rw [hd] at h; simp [peekErr] at h
    | some d =>
      rw [hd] at h
      dsimp only at h
      rcases U8.ite_ok h with ⟨_, h⟩ | ⟨hlt, h⟩
      · simp [peekErr] at h
      · refine numLoop_fin ht hr _ _ h ?_
        have := Image.digitVal_lt hd
        simp only [u64Max]; omega

theorem parseRadixLiteral_fin {cfg : Cfg} (ht : TabFin cfg) {fuel radix : Nat} (hr : 0 < radix)
    {s s' : St} {n : Number} (h : parseRadixLiteral cfg fuel radix s = .ok n s') : NumFin n := by
  unfold parseRadixLiteral at h
  obtain ⟨c, s1, _, h⟩ := U8.bind_ok h
  rcases U8.ite_ok h with ⟨_, h⟩ | ⟨_, h⟩
  · obtain ⟨_, s2, _, h⟩ := U8.bind_ok h
    exact parseNumLiteral_fin ht hr h
  rcases U8.ite_ok h with ⟨_, h⟩ | ⟨_, h⟩
  · obtain ⟨_, s2, _, h⟩ := U8.bind_ok h
    exact parseNumLiteral_fin ht hr h
  · exact parseNumLiteral_fin ht hr h

theorem parseNumToken_fin {cfg : Cfg} (ht : TabFin cfg) {fuel : Nat} {pos : Bool}
    {s s' : St} {n : Number} (h : parseNumToken cfg fuel pos s = .ok n s') : NumFin n := by
  unfold parseNumToken at h
  obtain ⟨m, s1, h1, h⟩ := U8.bind_ok h
  rw [(U8.expectNumberEnd_ok h).1]
  exact parseNumLiteral_fin ht (by decide) h1

theorem parseRadixToken_fin {cfg : Cfg} (ht : TabFin cfg) {fuel radix : Nat} (hr : 0 < radix)
    {s s' : St} {n : Number} (h : parseRadixToken cfg fuel radix s = .ok n s') : NumFin n := by
  unfold parseRadixToken at h
  obtain ⟨m, s1, h1, h⟩ := U8.bind_ok h
  rw [(U8.expectNumberEnd_ok h).1]
  exact parseRadixLiteral_fin ht hr h1

theorem wholeNumber_fin {cfg : Cfg} (ht : TabFin cfg) {sym : List UInt8} {n : Number}
    (h : wholeNumber cfg sym = some n) : NumFin n := by
  unfold wholeNumber at h
  dsimp only at h
  split at h
  · rename_i m s' hp
    split at h
    · simp only [Option.some.injEq] at h
      rw [← h]; exact parseNumLiteral_fin ht (by decide) hp
    · cases h
  · cases h

/-! ## 2. Tokens -/

/-- a float token is finite -/
def TokFin : Token → Prop
  | .number n => NumFin n
  | _ => True

theorem tokFin_symbolToken (o : Options) (name : List UInt8) : TokFin (symbolToken o name) := by
  unfold symbolToken; split <;> trivial

theorem tokFin_letterTok (o : Options) (name : List UInt8) : TokFin (letterTok o name) := by
  unfold letterTok
  split
  · trivial
  · split
    · cases o.nil <;> trivial
    · split <;> trivial

theorem parseSignToken_fin {cfg : Cfg} (ht : TabFin cfg) {fuel : Nat} {sign : UInt8} {pos : Bool}
    {s s' : St} {tok : Token} (h : parseSignToken cfg fuel sign pos s = .ok tok s') :
    TokFin tok := by
  unfold parseSignToken at h
  obtain ⟨_, s1, _, h⟩ := U8.bind_ok h
  obtain ⟨nxt, s2, _, h⟩ := U8.bind_ok h
  rcases U8.ite_ok h with ⟨_, h⟩ | ⟨_, h⟩
  · obtain ⟨name, s3, _, h⟩ := U8.bind_ok h
    obtain ⟨rfl, _⟩ := U8.pure_ok h
    exact tokFin_symbolToken _ _
  · rcases U8.ite_ok h with ⟨_, h⟩ | ⟨_, h⟩
    · unfold parseSignDotSymbol at h
      obtain ⟨_, s3, _, h⟩ := U8.bind_ok h
      obtain ⟨c, s4, _, h⟩ := U8.bind_ok h
      rcases U8.ite_ok h with ⟨_, h⟩ | ⟨_, h⟩
      · simp [peekErr] at h
      · obtain ⟨name, s5, _, h⟩ := U8.bind_ok h
        obtain ⟨rfl, _⟩ := U8.pure_ok h
        exact tokFin_symbolToken _ _
    · obtain ⟨n, s3, hnum, h⟩ := U8.bind_ok h
      obtain ⟨rfl, _⟩ := U8.pure_ok h
      exact parseNumToken_fin ht hnum

/-- **every float token `parse_token` returns is finite** (all source modes) -/
theorem parseToken_fin {cfg : Cfg} (ht : TabFin cfg) {fuel : Nat} {pk : UInt8} {s s' : St}
    {tok : Token} (h : parseToken cfg fuel pk s = .ok tok s') : TokFin tok := by
  unfold parseToken at h
  simp only [] at h
  -- '#'
  rcases U8.ite_ok h with ⟨_, h⟩ | ⟨_, h⟩
  · obtain ⟨_, s1, _, h⟩ := U8.bind_ok h
    obtain ⟨a, s2, _, h⟩ := U8.bind_ok h
    cases a with
    | none => simp [peekErr] at h
    | some c =>
      dsimp only at h
      rcases U8.ite_ok h with ⟨_, h⟩ | ⟨_, h⟩
      · obtain ⟨rfl, _⟩ := U8.pure_ok h; trivial
      rcases U8.ite_ok h with ⟨_, h⟩ | ⟨_, h⟩
      · obtain ⟨rfl, _⟩ := U8.pure_ok h; trivial
      rcases U8.ite_ok h with ⟨_, h⟩ | ⟨_, h⟩
      · obtain ⟨_, s3, _, h⟩ := U8.bind_ok h
        obtain ⟨rfl, _⟩ := U8.pure_ok h; trivial
      rcases U8.ite_ok h with ⟨_, h⟩ | ⟨_, h⟩
      · obtain ⟨rfl, _⟩ := U8.pure_ok h; trivial
      rcases U8.ite_ok h with ⟨_, h⟩ | ⟨_, h⟩
      · obtain ⟨name, s3, _, h⟩ := U8.bind_ok h
        obtain ⟨rfl, _⟩ := U8.pure_ok h; trivial
      rcases U8.ite_ok h with ⟨_, h⟩ | ⟨_, h⟩
      · obtain ⟨_, s3, _, h⟩ := U8.bind_ok h
        obtain ⟨rfl, _⟩ := U8.pure_ok h; trivial
      rcases U8.ite_ok h with ⟨_, h⟩ | ⟨_, h⟩
      · obtain ⟨_, s3, _, h⟩ := U8.bind_ok h
        obtain ⟨rfl, _⟩ := U8.pure_ok h; trivial
      rcases U8.ite_ok h with ⟨_, h⟩ | ⟨_, h⟩
      · obtain ⟨n, s3, hnum, h⟩ := U8.bind_ok h
        obtain ⟨rfl, _⟩ := U8.pure_ok h
        exact parseRadixToken_fin ht (by decide) hnum
      rcases U8.ite_ok h with ⟨_, h⟩ | ⟨_, h⟩
      · obtain ⟨n, s3, hnum, h⟩ := U8.bind_ok h
        obtain ⟨rfl, _⟩ := U8.pure_ok h
        exact parseRadixToken_fin ht (by decide) hnum
      rcases U8.ite_ok h with ⟨_, h⟩ | ⟨_, h⟩
      · obtain ⟨n, s3, hnum, h⟩ := U8.bind_ok h
        obtain ⟨rfl, _⟩ := U8.pure_ok h
        exact parseRadixToken_fin ht (by decide) hnum
      rcases U8.ite_ok h with ⟨_, h⟩ | ⟨_, h⟩
      · obtain ⟨n, s3, hnum, h⟩ := U8.bind_ok h
        obtain ⟨rfl, _⟩ := U8.pure_ok h
        exact parseRadixToken_fin ht (by decide) hnum
      rcases U8.ite_ok h with ⟨_, h⟩ | ⟨_, h⟩
      · obtain ⟨ch, s3, _, h⟩ := U8.bind_ok h
        obtain ⟨rfl, _⟩ := U8.pure_ok h; trivial
      rcases U8.ite_ok h with ⟨_, h⟩ | ⟨_, h⟩
      · obtain ⟨name, s3, _, h⟩ := U8.bind_ok h
        obtain ⟨rfl, _⟩ := U8.pure_ok h; trivial
      · simp [peekErr] at h
  -- '-'
  rcases U8.ite_ok h with ⟨_, h⟩ | ⟨_, h⟩
  · exact parseSignToken_fin ht h
  -- '+'
  rcases U8.ite_ok h with ⟨_, h⟩ | ⟨_, h⟩
  · exact parseSignToken_fin ht h
  -- digits
  rcases U8.ite_ok h with ⟨_, h⟩ | ⟨_, h⟩
  · rcases U8.ite_ok h with ⟨_, h⟩ | ⟨_, h⟩
    · obtain ⟨sym, s1, _, h⟩ := U8.bind_ok h
      cases hw : wholeNumber cfg sym with
      | some n =>
        rw [hw] at h
        obtain ⟨rfl, _⟩ := U8.pure_ok h
        exact wholeNumber_fin ht hw
      | none =>
        rw [hw] at h
        obtain ⟨rfl, _⟩ := U8.pure_ok h
        exact tokFin_symbolToken _ _
    · obtain ⟨n, s1, hnum, h⟩ := U8.bind_ok h
      obtain ⟨rfl, _⟩ := U8.pure_ok h
      exact parseNumToken_fin ht hnum
  -- '"'
  rcases U8.ite_ok h with ⟨_, h⟩ | ⟨_, h⟩
  · obtain ⟨_, s1, _, h⟩ := U8.bind_ok h
    cases hstr' : cfg.opts.string with
    | r6rs =>
      rw [hstr'] at h
      obtain ⟨out, s2, _, h⟩ := U8.bind_ok h
      obtain ⟨rfl, _⟩ := U8.pure_ok h
      trivial
    | elisp =>
      rw [hstr'] at h
      obtain ⟨r, s2, _, h⟩ := U8.bind_ok h
      cases r with
      | unibyte b => obtain ⟨rfl, _⟩ := U8.pure_ok h; trivial
      | multibyte out => obtain ⟨rfl, _⟩ := U8.pure_ok h; trivial
  -- '('
  rcases U8.ite_ok h with ⟨_, h⟩ | ⟨_, h⟩
  · obtain ⟨_, s1, _, h⟩ := U8.bind_ok h
    obtain ⟨rfl, _⟩ := U8.pure_ok h; trivial
  -- '['
  rcases U8.ite_ok h with ⟨_, h⟩ | ⟨_, h⟩
  · obtain ⟨_, s1, _, h⟩ := U8.bind_ok h
    cases hb : cfg.opts.brackets <;> rw [hb] at h <;>
      (obtain ⟨rfl, _⟩ := U8.pure_ok h; trivial)
  -- ':'
  rcases U8.ite_ok h with ⟨_, h⟩ | ⟨_, h⟩
  · rcases U8.ite_ok h with ⟨_, h⟩ | ⟨_, h⟩
    · obtain ⟨_, s1, _, h⟩ := U8.bind_ok h
      obtain ⟨name, s2, _, h⟩ := U8.bind_ok h
      obtain ⟨rfl, _⟩ := U8.pure_ok h
      trivial
    · obtain ⟨name, s2, _, h⟩ := U8.bind_ok h
      obtain ⟨rfl, _⟩ := U8.pure_ok h
      exact tokFin_symbolToken _ _
  -- letters
  rcases U8.ite_ok h with ⟨_, h⟩ | ⟨_, h⟩
  · obtain ⟨name, s1, _, h⟩ := U8.bind_ok h
    rw [Image.letter_chain_inv cfg.opts name h]
    exact tokFin_letterTok _ _
  -- '?'
  rcases U8.ite_ok h with ⟨_, h⟩ | ⟨_, h⟩
  · obtain ⟨_, s1, _, h⟩ := U8.bind_ok h
    obtain ⟨ch, s2, _, h⟩ := U8.bind_ok h
    obtain ⟨rfl, _⟩ := U8.pure_ok h
    trivial
  -- quote
  rcases U8.ite_ok h with ⟨_, h⟩ | ⟨_, h⟩
  · obtain ⟨_, s1, _, h⟩ := U8.bind_ok h
    obtain ⟨rfl, _⟩ := U8.pure_ok h; trivial
  rcases U8.ite_ok h with ⟨_, h⟩ | ⟨_, h⟩
  · obtain ⟨_, s1, _, h⟩ := U8.bind_ok h
    obtain ⟨rfl, _⟩ := U8.pure_ok h; trivial
  -- ','
  rcases U8.ite_ok h with ⟨_, h⟩ | ⟨_, h⟩
  · obtain ⟨_, s1, _, h⟩ := U8.bind_ok h
    obtain ⟨c, s2, _, h⟩ := U8.bind_ok h
    rcases U8.ite_ok h with ⟨_, h⟩ | ⟨_, h⟩
    · obtain ⟨_, s3, _, h⟩ := U8.bind_ok h
      obtain ⟨rfl, _⟩ := U8.pure_ok h; trivial
    · obtain ⟨rfl, _⟩ := U8.pure_ok h; trivial
  -- a non-ASCII symbol initial
  rcases U8.ite_ok h with ⟨_, h⟩ | ⟨_, h⟩
  · obtain ⟨_, s1, _, h⟩ := U8.bind_ok h
    obtain ⟨⟨c, bytes⟩, s2, _, h⟩ := U8.bind_ok h
    dsimp only at h
    rcases U8.ite_ok h with ⟨_, h⟩ | ⟨_, h⟩
    · simp [peekErr] at h
    · obtain ⟨name, s3, _, h⟩ := U8.bind_ok h
      obtain ⟨rfl, _⟩ := U8.pure_ok h
      exact tokFin_symbolToken _ _
  -- extended symbol characters
  rcases U8.ite_ok h with ⟨_, h⟩ | ⟨_, h⟩
  · obtain ⟨name, s2, _, h⟩ := U8.bind_ok h
    obtain ⟨rfl, _⟩ := U8.pure_ok h
    exact tokFin_symbolToken _ _
  -- anything else is an error
  · obtain ⟨_, s1, _, h⟩ := U8.bind_ok h
    obtain ⟨_, s2, _, h⟩ := U8.bind_ok h
    cases h

/-! ## 3. Values -/

/-- the float leaves of a value are finite -/
def LeafFin : Value → Prop
  | .number n => NumFin n
  | _ => True

theorem atom_fin {tok : Token} {v : Value} (ht : TokFin tok) (h : tok.atom = some v) :
    Image.AllAtoms LeafFin v := by
  cases tok <;> simp only [Token.atom, Option.some.injEq] at h <;> (try cases h) <;>
    first
      | exact ht
      | exact True.intro

theorem symbolValue_fin (o : Options) (name : List UInt8) :
    Image.AllAtoms LeafFin (symbolValue o name) := by
  unfold symbolValue
  rcases ListRT.symbolToken_cases' o name with hc | hc <;> rw [hc] <;> exact True.intro

/-- what is proved of the three mutually recursive readers for one amount of fuel -/
def FinInv (cfg : Cfg) (f : Nat) : Prop :=
  (∀ {s s' : St} {v : Option Value}, nextValue cfg f s = .ok v s' →
      ∀ x, v = some x → Image.AllAtoms LeafFin x) ∧
  (∀ {term : UInt8} {acc : List Value} {s s' : St} {v : Value},
      parseList cfg f term acc s = .ok v s' → Image.AllAtomsSeq LeafFin acc →
      Image.AllAtoms LeafFin v) ∧
  (∀ {term : UInt8} {acc : List Value} {s s' : St} {xs : List Value},
      parseVector cfg f term acc s = .ok xs s' → Image.AllAtomsSeq LeafFin acc →
      Image.AllAtomsSeq LeafFin xs)

theorem finInv (cfg : Cfg) (ht : TabFin cfg) : ∀ f, FinInv cfg f := by
  intro f
  induction f with
  | zero =>
    refine ⟨?_, ?_, ?_⟩
    · intro s s' v h; simp [nextValue, outOfFuel] at h
    · intro term acc s s' v h; simp [parseList, outOfFuel] at h
    · intro term acc s s' v h; simp [parseVector, outOfFuel] at h
  | succ f ih =>
    obtain ⟨ihV, ihL, ihX⟩ := ih
    refine ⟨?_, ?_, ?_⟩
    · -- next_value
      intro s s' v h
      unfold nextValue at h
      obtain ⟨a, s1, _, h⟩ := U8.bind_ok h
      cases a with
      | none =>
        obtain ⟨rfl, rfl⟩ := U8.pure_ok h
        exact fun x hx => by cases hx
      | some pk =>
        dsimp only at h
        obtain ⟨tf, s2, htf, h⟩ := U8.bind_ok h
        rw [U8.tokenFuel_ok htf] at h
        obtain ⟨tok, s3, htok, h⟩ := U8.bind_ok h
        have hfin := parseToken_fin ht htok
        cases tok with
        | byteVecOpen close =>
          dsimp only at h
          obtain ⟨bs, s4, _, h⟩ := U8.bind_ok h
          obtain ⟨rfl, rfl⟩ := U8.pure_ok h
          intro x hx; cases hx
          exact True.intro
        | vecOpen close =>
          dsimp only at h
          obtain ⟨_, s4, _, h⟩ := U8.bind_ok h
          obtain ⟨ret, s5, hat, h⟩ := U8.bind_ok h
          obtain ⟨_, s6, _, h⟩ := U8.bind_ok h
          obtain ⟨es, s7, hes, h⟩ := U8.bind_ok h
          rcases U8.attempt_ok hat with ⟨xs, rfl, hpv⟩ | ⟨e, rfl, _⟩
          · have hxs := ihX hpv (by simp only [Image.AllAtomsSeq])
            rcases U8.attempt_ok hes with ⟨u, rfl, _⟩ | ⟨e, rfl, _⟩
            · obtain ⟨rfl, rfl⟩ := U8.pure_ok h
              intro x hx; cases hx
              simp only [Image.AllAtoms]; exact hxs
            · exact (U8.liftExcept_error h).elim
          · cases es <;> exact (U8.liftExcept_error h).elim
        | listOpen close =>
          dsimp only at h
          obtain ⟨_, s4, _, h⟩ := U8.bind_ok h
          obtain ⟨ret, s5, hat, h⟩ := U8.bind_ok h
          obtain ⟨_, s6, _, h⟩ := U8.bind_ok h
          obtain ⟨es, s7, hes, h⟩ := U8.bind_ok h
          rcases U8.attempt_ok hat with ⟨v0, rfl, hpl⟩ | ⟨e, rfl, _⟩
          · have hv0 := ihL hpl (by simp only [Image.AllAtomsSeq])
            rcases U8.attempt_ok hes with ⟨u, rfl, _⟩ | ⟨e, rfl, _⟩
            · obtain ⟨rfl, rfl⟩ := U8.pure_ok h
              intro x hx; cases hx
              exact hv0
            · exact (U8.liftExcept_error h).elim
          · cases es <;> exact (U8.liftExcept_error h).elim
        | quotation q =>
          dsimp only at h
          obtain ⟨_, s4, _, h⟩ := U8.bind_ok h
          obtain ⟨ret, s5, hat, h⟩ := U8.bind_ok h
          obtain ⟨_, s6, _, h⟩ := U8.bind_ok h
          rcases U8.attempt_ok hat with ⟨ov, rfl, hnv⟩ | ⟨e, rfl, _⟩
          · have hov := ihV hnv
            cases ov with
            | none => simp [peekErr] at h
            | some d =>
              obtain ⟨rfl, rfl⟩ := U8.pure_ok h
              intro x hx; cases hx
              simp only [Value.list, Value.append, Image.AllAtoms, and_true]
              exact ⟨True.intro, hov d rfl⟩
          · exact (U8.liftExcept_error h).elim
        | _ =>
          simp only [Token.atom] at h
          obtain ⟨h1, h2⟩ := U8.pure_ok h
          subst h1; subst h2
          intro x hx; cases hx
          exact atom_fin hfin rfl
    · -- parse_list
      intro term acc s s' v h hacc
      unfold parseList at h
      obtain ⟨a, s1, _, h⟩ := U8.bind_ok h
      cases a with
      | none => simp [peekErr] at h
      | some c =>
        dsimp only at h
        rcases U8.ite_ok h with ⟨_, h⟩ | ⟨_, h⟩
        · rcases U8.ite_ok h with ⟨_, h⟩ | ⟨_, h⟩
          · simp [peekErr] at h
          · obtain ⟨rfl, rfl⟩ := U8.pure_ok h
            exact Image.allAtoms_list _ _ hacc
        rcases U8.ite_ok h with ⟨_, h⟩ | ⟨_, h⟩
        · obtain ⟨_, s2, _, h⟩ := U8.bind_ok h
          obtain ⟨nxt, s3, _, h⟩ := U8.bind_ok h
          rcases U8.ite_ok h with ⟨_, h⟩ | ⟨_, h⟩
          · rcases U8.ite_ok h with ⟨_, h⟩ | ⟨_, h⟩
            · obtain ⟨a, s4, _, h⟩ := U8.bind_ok h
              cases a <;> simp [peekErr] at h
            · obtain ⟨tail, s4, htl, h⟩ := U8.bind_ok h
              obtain ⟨ov, s4', hnv, htl⟩ := U8.bind_ok htl
              have hov := ihV hnv
              cases ov with
              | none => simp [peekErr] at htl
              | some v0 =>
                obtain ⟨rfl, rfl⟩ := U8.pure_ok htl
                obtain ⟨a, s5, _, h⟩ := U8.bind_ok h
                cases a with
                | none => simp [peekErr] at h
                | some c' =>
                  dsimp only at h
                  rcases U8.ite_ok h with ⟨_, h⟩ | ⟨_, h⟩
                  · obtain ⟨rfl, rfl⟩ := U8.pure_ok h
                    exact Image.allAtoms_append _ _ _ hacc (hov v0 rfl)
                  · simp [peekErr] at h
          · obtain ⟨name, s4, _, h⟩ := U8.bind_ok h
            exact ihL h (Image.allAtomsSeq_snoc _ _ _ hacc (symbolValue_fin _ _))
        · obtain ⟨ov, s2, hnv, h⟩ := U8.bind_ok h
          have hov := ihV hnv
          cases ov with
          | none => simp [peekErr] at h
          | some v0 =>
            dsimp only at h
            exact ihL h (Image.allAtomsSeq_snoc _ _ _ hacc (hov v0 rfl))
    · -- parse_vector
      intro term acc s s' xs h hacc
      unfold parseVector at h
      obtain ⟨a, s1, _, h⟩ := U8.bind_ok h
      cases a with
      | none => simp [peekErr] at h
      | some c =>
        dsimp only at h
        rcases U8.ite_ok h with ⟨_, h⟩ | ⟨_, h⟩
        · rcases U8.ite_ok h with ⟨_, h⟩ | ⟨_, h⟩
          · simp [peekErr] at h
          · obtain ⟨rfl, rfl⟩ := U8.pure_ok h
            exact hacc
        · obtain ⟨ov, s2, hnv, h⟩ := U8.bind_ok h
          have hov := ihV hnv
          cases ov with
          | none => simp [peekErr] at h
          | some v0 =>
            dsimp only at h
            exact ihX h (Image.allAtomsSeq_snoc _ _ _ hacc (hov v0 rfl))

/-- **nextValue_floats_finite.**  Every float leaf of a value returned by `next_value` is a
    finite double (`FinF`: `isFinite`, `< 2^64`) — every source mode, every state, every option
    set — when the `POW10` table holds finite doubles `≥ 1.0`. -/
theorem nextValue_floats_finite {cfg : Cfg} (ht : TabFin cfg) {fuel : Nat} {s s' : St} {v : Value}
    (h : nextValue cfg fuel s = .ok (some v) s') : Image.AllAtoms LeafFin v :=
  (finInv cfg ht fuel).1 h v rfl

/-- the same for the public entry points -/
theorem fromTrait_floats_finite {cfg : Cfg} (ht : TabFin cfg) {s s' : St} {v : Value}
    (h : fromTrait cfg s = .ok v s') : Image.AllAtoms LeafFin v := by
  obtain ⟨f, s1, hnv⟩ := Image.fromTrait_inv h
  exact nextValue_floats_finite ht hnv

/-- `1e400` would be infinite: it is rejected, and `1e-400` is `+0.0` -/
example : fastParts pow10Tab 3 (ofNat 1) 400 = none ∧
    fastParts pow10Tab 3 (ofNat 1) (-400) = some 0 := by decide +kernel

#print axioms parseToken_fin
#print axioms nextValue_floats_finite
#print axioms fromTrait_floats_finite

end FloatApprox
end Lexpr
