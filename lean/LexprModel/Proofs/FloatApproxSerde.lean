/-
  FloatApproxSerde — C04, second sentence, "to the accuracy of C05": Rust data → S-expression text
  → Rust data, with `f64` fields that are not exactly readable.

  * `Data.approxEq`: same shape, identical leaves, `f64` leaves related by `floatApprox`.
  * `ser_inv`: a value `approxEq` to `ser t d` is `ser t d'` for a well-typed `d'` with
    `Data.approxEq d d'` (types without `f32`: `NoF32`).
  * `C04_text_approx`: for a well-formed type without `f32`, plain-identifier names, a well-typed
    datum whose floats are finite with `RyuSpecOnly`, `depthOf t d ≤ 127`, all three sources:
    the text of `ser t d` is read back as a value `w`, `w` deserialises to a datum `d'`, and
    `Data.approxEq d d'`.
  * `f32` fields are excluded: the deserializer rounds the `f64` read back to `f32`
    (`roundToF32`), and that this rounding undoes a perturbation within `floatClose` is not proved
    here (it needs a stability lemma for `roundToF32`; `F32Idem.lean` has the idempotence only).
-/
import LexprModel.Proofs.FloatApproxRT
import LexprModel.Proofs.SerdeText
namespace Lexpr
namespace Serde
open Parse FullRT Decimals FloatApprox

/-! ## 1. The relation on data -/

mutual
/-- **Data.approxEq.**  Same shape and identical leaves, except that float leaves are related by
    `floatApprox` (equal, or both finite and within `2^-50` relative + `2^-1073` absolute). -/
def Data.approxEq : Data → Data → Prop
  | .float a, e => ∃ b, e = .float b ∧ floatApprox a b
  | .some d, e => ∃ d', e = .some d' ∧ Data.approxEq d d'
  | .seq ds, e => ∃ ds', e = .seq ds' ∧ Data.approxEqList ds ds'
  | .map kvs, e => ∃ kvs', e = .map kvs' ∧ Data.approxEqPairs kvs kvs'
  | .variant i p, e => ∃ p', e = .variant i p' ∧ Data.approxEq p p'
  | .int n, e => e = .int n
  | .bool b, e => e = .bool b
  | .char c, e => e = .char c
  | .str s, e => e = .str s
  | .bytes s, e => e = .bytes s
  | .unit, e => e = .unit
  | .none, e => e = .none
def Data.approxEqList : List Data → List Data → Prop
  | [], es => es = []
  | d :: ds, es => ∃ e es', es = e :: es' ∧ Data.approxEq d e ∧ Data.approxEqList ds es'
def Data.approxEqPairs : List (Data × Data) → List (Data × Data) → Prop
  | [], es => es = []
  | (k, v) :: kvs, es => ∃ k' v' es', es = (k', v') :: es' ∧ Data.approxEq k k' ∧
      Data.approxEq v v' ∧ Data.approxEqPairs kvs es'
end

mutual
theorem Data.approxEq_refl : ∀ d : Data, Data.approxEq d d
  | .float a => by simp only [Data.approxEq]; exact ⟨a, rfl, Or.inl rfl⟩
  | .some d => by simp only [Data.approxEq]; exact ⟨d, rfl, Data.approxEq_refl d⟩
  | .seq ds => by simp only [Data.approxEq]; exact ⟨ds, rfl, Data.approxEqList_refl ds⟩
  | .map kvs => by simp only [Data.approxEq]; exact ⟨kvs, rfl, Data.approxEqPairs_refl kvs⟩
  | .variant i p => by simp only [Data.approxEq]; exact ⟨p, rfl, Data.approxEq_refl p⟩
  | .int _ => by simp only [Data.approxEq]
  | .bool _ => by simp only [Data.approxEq]
  | .char _ => by simp only [Data.approxEq]
  | .str _ => by simp only [Data.approxEq]
  | .bytes _ => by simp only [Data.approxEq]
  | .unit => by simp only [Data.approxEq]
  | .none => by simp only [Data.approxEq]
theorem Data.approxEqList_refl : ∀ ds : List Data, Data.approxEqList ds ds
  | [] => by simp only [Data.approxEqList]
  | d :: ds => by
    simp only [Data.approxEqList]
    exact ⟨d, ds, rfl, Data.approxEq_refl d, Data.approxEqList_refl ds⟩
theorem Data.approxEqPairs_refl : ∀ kvs : List (Data × Data), Data.approxEqPairs kvs kvs
  | [] => by simp only [Data.approxEqPairs]
  | (k, v) :: kvs => by
    simp only [Data.approxEqPairs]
    exact ⟨k, v, kvs, rfl, Data.approxEq_refl k, Data.approxEq_refl v,
      Data.approxEqPairs_refl kvs⟩
end

/-! ## 2. Types without `f32` -/

mutual
/-- no `f32` anywhere in the type -/
def NoF32 : Ty → Prop
  | .f32 => False
  | .option t => NoF32 t
  | .seq t => NoF32 t
  | .set t => NoF32 t
  | .newtypeStruct t => NoF32 t
  | .map k v => NoF32 k ∧ NoF32 v
  | .tuple ts => NoF32Tys ts
  | .tupleStruct ts => NoF32Tys ts
  | .struct fs => NoF32Fields fs
  | .enum vs => NoF32Variants vs
  | _ => True
def NoF32Tys : TyList → Prop
  | .nil => True
  | .cons t ts => NoF32 t ∧ NoF32Tys ts
def NoF32Fields : FieldList → Prop
  | .nil => True
  | .cons _ t fs => NoF32 t ∧ NoF32Fields fs
def NoF32Variants : VariantList → Prop
  | .nil => True
  | .cons _ var vs =>
    (match var with
     | .unit => True
     | .newtype t => NoF32 t
     | .tuple ts => NoF32Tys ts
     | .struct fs => NoF32Fields fs) ∧ NoF32Variants vs
end

/-! ## 3. Values `approxEq` to a serialization are serializations -/

theorem approxEq_list : ∀ (xs : List Value) (w : Value), Value.approxEq (Value.list xs) w →
    ∃ ws, w = Value.list ws ∧ Value.approxEqList xs ws
  | [], w, h => by
    rw [list_nil] at h; simp only [Value.approxEq] at h
    exact ⟨[], by rw [h]; rfl, by simp only [Value.approxEqList]⟩
  | x :: xs, w, h => by
    rw [list_cons] at h; simp only [Value.approxEq] at h
    obtain ⟨a', d', rfl, ha, hd⟩ := h
    obtain ⟨ws, rfl, hws⟩ := approxEq_list xs d' hd
    exact ⟨a' :: ws, by rw [list_cons], by
      simp only [Value.approxEqList]; exact ⟨a', ws, rfl, ha, hws⟩⟩

theorem approxEq_serInt (w : IntTy) (n : Int) (x : Value)
    (h : Value.approxEq (serInt w n) x) : x = serInt w n := by
  have hshape : (∃ k, serInt w n = .number (.pos k)) ∨ (∃ i, serInt w n = .number (.neg i)) := by
    cases w <;> simp only [serInt, Number.ofSigned, Number.ofUnsigned] <;>
      first
        | exact Or.inl ⟨_, rfl⟩
        | (split
           · exact Or.inl ⟨_, rfl⟩
           · exact Or.inr ⟨_, rfl⟩)
  rcases hshape with ⟨k, hk⟩ | ⟨i, hi⟩
  · rw [hk] at h ⊢; simpa only [Value.approxEq] using h
  · rw [hi] at h ⊢; simpa only [Value.approxEq] using h

/-- the list step for `seq` / `set` -/
theorem mapM_inv {f : Data → Option Value} {P : Data → Prop} :
    ∀ (ds : List Data) (xs ws : List Value), ds.mapM f = some xs → Value.approxEqList xs ws →
      (∀ d ∈ ds, ∀ x x', f d = some x → Value.approxEq x x' →
        ∃ d', f d' = some x' ∧ P d' ∧ Data.approxEq d d') →
      ∃ ds', ds'.mapM f = some ws ∧ (∀ d' ∈ ds', P d') ∧ Data.approxEqList ds ds'
  | [], xs, ws, h, hw, _ => by
    simp at h; subst h
    simp only [Value.approxEqList] at hw; subst hw
    exact ⟨[], by simp, by simp, by simp only [Data.approxEqList]⟩
  | d :: ds, xs, ws, h, hw, hf => by
    simp only [List.mapM_cons, Option.bind_eq_bind, Option.bind_eq_some_iff, Option.pure_def,
      Option.some.injEq] at h
    obtain ⟨x, hx, xs', hxs', rfl⟩ := h
    simp only [Value.approxEqList] at hw
    obtain ⟨y, ws', rfl, hxy, hws'⟩ := hw
    obtain ⟨d', hd', hP, hR⟩ := hf d (by simp) x y hx hxy
    obtain ⟨ds', hds', hPs, hRs⟩ := mapM_inv ds xs' ws' hxs' hws'
      (fun e he => hf e (by simp [he]))
    refine ⟨d' :: ds', ?_, ?_, ?_⟩
    · simp only [List.mapM_cons, Option.bind_eq_bind, hd', Option.bind_some, hds', Option.pure_def]
    · intro e he
      rcases List.mem_cons.mp he with rfl | he
      · exact hP
      · exact hPs e he
    · simp only [Data.approxEqList]; exact ⟨d', ds', rfl, hR, hRs⟩

/-- the list step for `map` -/
theorem mapM_pairs_inv {fk fv : Data → Option Value} {Pk Pv : Data → Prop}
    {g : Data × Data → Option Value}
    (hg : ∀ p, g p = (fk p.1).bind fun x => (fv p.2).bind fun y => some (Value.cons x y)) :
    ∀ (kvs : List (Data × Data)) (xs ws : List Value),
      kvs.mapM g = some xs → Value.approxEqList xs ws →
      (∀ p ∈ kvs, ∀ x x', fk p.1 = some x → Value.approxEq x x' →
        ∃ d', fk d' = some x' ∧ Pk d' ∧ Data.approxEq p.1 d') →
      (∀ p ∈ kvs, ∀ x x', fv p.2 = some x → Value.approxEq x x' →
        ∃ d', fv d' = some x' ∧ Pv d' ∧ Data.approxEq p.2 d') →
      ∃ kvs', kvs'.mapM g = some ws ∧
        (∀ p ∈ kvs', Pk p.1 ∧ Pv p.2) ∧ Data.approxEqPairs kvs kvs'
  | [], xs, ws, h, hw, _, _ => by
    simp at h; subst h
    simp only [Value.approxEqList] at hw; subst hw
    exact ⟨[], by simp, by simp, by simp only [Data.approxEqPairs]⟩
  | (a, b) :: kvs, xs, ws, h, hw, hk, hv => by
    simp only [List.mapM_cons, Option.bind_eq_bind, Option.bind_eq_some_iff, Option.pure_def,
      Option.some.injEq, hg] at h
    obtain ⟨c, ⟨x, hx, y, hy, rfl⟩, xs', hxs', rfl⟩ := h
    simp only [Value.approxEqList] at hw
    obtain ⟨z, ws', rfl, hcz, hws'⟩ := hw
    simp only [Value.approxEq] at hcz
    obtain ⟨x', y', rfl, hxx, hyy⟩ := hcz
    obtain ⟨a', ha', hPa, hRa⟩ := hk (a, b) (by simp) x x' hx hxx
    obtain ⟨b', hb', hPb, hRb⟩ := hv (a, b) (by simp) y y' hy hyy
    obtain ⟨kvs', hkvs', hPs, hRs⟩ := mapM_pairs_inv hg kvs xs' ws' hxs' hws'
      (fun p hp => hk p (by simp [hp])) (fun p hp => hv p (by simp [hp]))
    refine ⟨(a', b') :: kvs', ?_, ?_, ?_⟩
    · rw [List.mapM_cons, hg, hkvs']
      simp only [ha', hb', Option.bind_some, Option.bind_eq_bind, Option.pure_def]
    · intro p hp
      rcases List.mem_cons.mp hp with rfl | hp
      · exact ⟨hPa, hPb⟩
      · exact hPs p hp
    · simp only [Data.approxEqPairs]; exact ⟨a', b', kvs', rfl, hRa, hRb, hRs⟩

mutual
theorem ser_inv : ∀ (t : Ty) (d : Data) (v w : Value), HasTy t d → NoF32 t →
    ser t d = some v → Value.approxEq v w →
    ∃ d', ser t d' = some w ∧ HasTy t d' ∧ Data.approxEq d d'
  | .int iw, d, v, w, h, _, hs, hw => by
    cases d <;> simp only [HasTy] at h
    rename_i n
    simp only [ser, Option.some.injEq] at hs; subst hs
    have := approxEq_serInt iw n w hw; subst this
    exact ⟨.int n, by simp only [ser], by simp only [HasTy]; exact h, Data.approxEq_refl _⟩
  | .f32, _, _, _, _, hn, _, _ => by simp only [NoF32] at hn
  | .f64, d, v, w, h, _, hs, hw => by
    cases d <;> simp only [HasTy] at h
    rename_i b
    simp only [ser, Option.some.injEq] at hs; subst hs
    simp only [Value.approxEq] at hw
    obtain ⟨b', rfl, hb⟩ := hw
    exact ⟨.float b', by simp only [ser], by simp only [HasTy],
      by simp only [Data.approxEq]; exact ⟨b', rfl, hb⟩⟩
  | .bool, d, v, w, h, _, hs, hw => by
    cases d <;> simp only [HasTy] at h
    simp only [ser, Option.some.injEq] at hs; subst hs
    simp only [Value.approxEq] at hw; subst hw
    exact ⟨_, by simp only [ser], by simp only [HasTy], Data.approxEq_refl _⟩
  | .char, d, v, w, h, _, hs, hw => by
    cases d <;> simp only [HasTy] at h
    simp only [ser, Option.some.injEq] at hs; subst hs
    simp only [Value.approxEq] at hw; subst hw
    exact ⟨_, by simp only [ser], by simp only [HasTy], Data.approxEq_refl _⟩
  | .str, d, v, w, h, _, hs, hw => by
    cases d <;> simp only [HasTy] at h
    simp only [ser, Option.some.injEq] at hs; subst hs
    simp only [Value.approxEq] at hw; subst hw
    exact ⟨_, by simp only [ser], by simp only [HasTy], Data.approxEq_refl _⟩
  | .bytes, d, v, w, h, _, hs, hw => by
    cases d <;> simp only [HasTy] at h
    simp only [ser, Option.some.injEq] at hs; subst hs
    simp only [Value.approxEq] at hw; subst hw
    exact ⟨_, by simp only [ser], by simp only [HasTy], Data.approxEq_refl _⟩
  | .unit, d, v, w, h, _, hs, hw => by
    cases d <;> simp only [HasTy] at h
    simp only [ser, Option.some.injEq] at hs; subst hs
    simp only [Value.approxEq] at hw; subst hw
    exact ⟨_, by simp only [ser], by simp only [HasTy], Data.approxEq_refl _⟩
  | .unitStruct, d, v, w, h, _, hs, hw => by
    cases d <;> simp only [HasTy] at h
    simp only [ser, Option.some.injEq] at hs; subst hs
    simp only [Value.approxEq] at hw; subst hw
    exact ⟨_, by simp only [ser], by simp only [HasTy], Data.approxEq_refl _⟩
  | .option t, d, v, w, h, hn, hs, hw => by
    cases d <;> simp only [HasTy] at h
    · simp only [ser, Option.some.injEq] at hs; subst hs
      simp only [Value.approxEq] at hw; subst hw
      exact ⟨.none, by simp only [ser], by simp only [HasTy], Data.approxEq_refl _⟩
    · rename_i d0
      simp only [NoF32] at hn
      simp only [ser, Option.map_eq_some_iff] at hs
      obtain ⟨x, hx, rfl⟩ := hs
      simp only [Value.approxEq] at hw
      obtain ⟨x', n', rfl, hxx, rfl⟩ := hw
      obtain ⟨d', hd', hty, hR⟩ := ser_inv t d0 x x' h hn hx hxx
      exact ⟨.some d', by simp only [ser, hd', Option.map_some], by simp only [HasTy]; exact hty,
        by simp only [Data.approxEq]; exact ⟨d', rfl, hR⟩⟩
  | .seq t, d, v, w, h, hn, hs, hw => by
    cases d <;> simp only [HasTy] at h
    rename_i ds
    simp only [NoF32] at hn
    simp only [ser, Option.map_eq_some_iff] at hs
    obtain ⟨xs, hxs, rfl⟩ := hs
    obtain ⟨ws, rfl, hws⟩ := approxEq_list xs w hw
    obtain ⟨ds', hds', hP, hR⟩ := mapM_inv (P := HasTy t) ds xs ws hxs hws
      fun d hd x x' hx hxx => ser_inv t d x x' (h d hd) hn hx hxx
    exact ⟨.seq ds', by simp only [ser, hds', Option.map_some], by simp only [HasTy]; exact hP,
      by simp only [Data.approxEq]; exact ⟨ds', rfl, hR⟩⟩
  | .set t, d, v, w, h, hn, hs, hw => by
    cases d <;> simp only [HasTy] at h
    rename_i ds
    simp only [NoF32] at hn
    simp only [ser, Option.map_eq_some_iff] at hs
    obtain ⟨xs, hxs, rfl⟩ := hs
    obtain ⟨ws, rfl, hws⟩ := approxEq_list xs w hw
    obtain ⟨ds', hds', hP, hR⟩ := mapM_inv (P := HasTy t) ds xs ws hxs hws
      fun d hd x x' hx hxx => ser_inv t d x x' (h d hd) hn hx hxx
    exact ⟨.seq ds', by simp only [ser, hds', Option.map_some], by simp only [HasTy]; exact hP,
      by simp only [Data.approxEq]; exact ⟨ds', rfl, hR⟩⟩
  | .tuple ts, d, v, w, h, hn, hs, hw => by
    cases d <;> simp only [HasTy] at h
    rename_i ds
    simp only [NoF32] at hn
    simp only [ser, Option.map_eq_some_iff] at hs
    obtain ⟨xs, hxs, rfl⟩ := hs
    simp only [Value.approxEq] at hw
    obtain ⟨ws, rfl, hws⟩ := hw
    obtain ⟨ds', hds', hP, hR⟩ := serTuple_inv ts ds xs ws h hn hxs hws
    exact ⟨.seq ds', by simp only [ser, hds', Option.map_some], by simp only [HasTy]; exact hP,
      by simp only [Data.approxEq]; exact ⟨ds', rfl, hR⟩⟩
  | .tupleStruct ts, d, v, w, h, hn, hs, hw => by
    cases d <;> simp only [HasTy] at h
    rename_i ds
    simp only [NoF32] at hn
    simp only [ser, Option.map_eq_some_iff] at hs
    obtain ⟨xs, hxs, rfl⟩ := hs
    simp only [Value.approxEq] at hw
    obtain ⟨ws, rfl, hws⟩ := hw
    obtain ⟨ds', hds', hP, hR⟩ := serTuple_inv ts ds xs ws h hn hxs hws
    exact ⟨.seq ds', by simp only [ser, hds', Option.map_some], by simp only [HasTy]; exact hP,
      by simp only [Data.approxEq]; exact ⟨ds', rfl, hR⟩⟩
  | .newtypeStruct t, d, v, w, h, hn, hs, hw => by
    simp only [HasTy] at h
    simp only [NoF32] at hn
    simp only [ser] at hs
    obtain ⟨d', hd', hty, hR⟩ := ser_inv t d v w h hn hs hw
    exact ⟨d', by simp only [ser]; exact hd', by simp only [HasTy]; exact hty, hR⟩
  | .map k v0, d, v, w, h, hn, hs, hw => by
    cases d <;> simp only [HasTy] at h
    rename_i kvs
    simp only [NoF32] at hn
    simp only [ser, Option.map_eq_some_iff] at hs
    obtain ⟨xs, hxs, rfl⟩ := hs
    obtain ⟨ws, rfl, hws⟩ := approxEq_list xs w hw
    obtain ⟨kvs', hkvs', hP, hR⟩ := mapM_pairs_inv (fk := ser k) (fv := ser v0)
      (Pk := HasTy k) (Pv := HasTy v0) (fun p => by cases p; rfl) kvs xs ws hxs hws
      (fun p hp x x' hx hxx => ser_inv k p.1 x x' (h p hp).1 hn.1 hx hxx)
      (fun p hp x x' hx hxx => ser_inv v0 p.2 x x' (h p hp).2 hn.2 hx hxx)
    exact ⟨.map kvs', by simp only [ser, hkvs', Option.map_some], by simp only [HasTy]; exact hP,
      by simp only [Data.approxEq]; exact ⟨kvs', rfl, hR⟩⟩
  | .struct fs, d, v, w, h, hn, hs, hw => by
    cases d <;> simp only [HasTy] at h
    rename_i ds
    simp only [NoF32] at hn
    simp only [ser, Option.map_eq_some_iff] at hs
    obtain ⟨xs, hxs, rfl⟩ := hs
    obtain ⟨ws, rfl, hws⟩ := approxEq_list xs w hw
    obtain ⟨ds', hds', hP, hR⟩ := serFields_inv fs ds xs ws h hn hxs hws
    exact ⟨.seq ds', by simp only [ser, hds', Option.map_some], by simp only [HasTy]; exact hP,
      by simp only [Data.approxEq]; exact ⟨ds', rfl, hR⟩⟩
  | .enum vs, d, v, w, h, hn, hs, hw => by
    cases d <;> simp only [HasTy] at h
    rename_i i p
    simp only [NoF32] at hn
    simp only [ser] at hs
    obtain ⟨p', hp', hP, hR⟩ := serVariant_inv vs i p v w h hn hs hw
    exact ⟨.variant i p', by simp only [ser]; exact hp', by simp only [HasTy]; exact hP,
      by simp only [Data.approxEq]; exact ⟨p', rfl, hR⟩⟩
theorem serTuple_inv : ∀ (ts : TyList) (ds : List Data) (xs ws : List Value), HasTyTuple ts ds →
    NoF32Tys ts → serTuple ts ds = some xs → Value.approxEqList xs ws →
    ∃ ds', serTuple ts ds' = some ws ∧ HasTyTuple ts ds' ∧ Data.approxEqList ds ds'
  | .nil, ds, xs, ws, h, _, hs, hw => by
    cases ds <;> simp only [HasTyTuple] at h
    simp only [serTuple, Option.some.injEq] at hs; subst hs
    simp only [Value.approxEqList] at hw; subst hw
    exact ⟨[], by simp only [serTuple], by simp only [HasTyTuple],
      by simp only [Data.approxEqList]⟩
  | .cons t ts, ds, xs, ws, h, hn, hs, hw => by
    cases ds <;> simp only [HasTyTuple] at h
    rename_i d ds
    simp only [NoF32Tys] at hn
    simp only [serTuple, Option.bind_eq_bind, Option.bind_eq_some_iff, Option.pure_def,
      Option.some.injEq] at hs
    obtain ⟨x, hx, xs', hxs', rfl⟩ := hs
    simp only [Value.approxEqList] at hw
    obtain ⟨y, ws', rfl, hxy, hws'⟩ := hw
    obtain ⟨d', hd', hty, hR⟩ := ser_inv t d x y h.1 hn.1 hx hxy
    obtain ⟨ds', hds', htys, hRs⟩ := serTuple_inv ts ds xs' ws' h.2 hn.2 hxs' hws'
    refine ⟨d' :: ds', ?_, by simp only [HasTyTuple]; exact ⟨hty, htys⟩,
      by simp only [Data.approxEqList]; exact ⟨d', ds', rfl, hR, hRs⟩⟩
    simp only [serTuple, Option.bind_eq_bind, hd', Option.bind_some, hds', Option.pure_def]
theorem serFields_inv : ∀ (fs : FieldList) (ds : List Data) (xs ws : List Value),
    HasTyFields fs ds → NoF32Fields fs → serFields fs ds = some xs → Value.approxEqList xs ws →
    ∃ ds', serFields fs ds' = some ws ∧ HasTyFields fs ds' ∧ Data.approxEqList ds ds'
  | .nil, ds, xs, ws, h, _, hs, hw => by
    cases ds <;> simp only [HasTyFields] at h
    simp only [serFields, Option.some.injEq] at hs; subst hs
    simp only [Value.approxEqList] at hw; subst hw
    exact ⟨[], by simp only [serFields], by simp only [HasTyFields],
      by simp only [Data.approxEqList]⟩
  | .cons n t fs, ds, xs, ws, h, hn, hs, hw => by
    cases ds <;> simp only [HasTyFields] at h
    rename_i d ds
    simp only [NoF32Fields] at hn
    simp only [serFields, Option.bind_eq_bind, Option.bind_eq_some_iff, Option.pure_def,
      Option.some.injEq] at hs
    obtain ⟨x, hx, xs', hxs', rfl⟩ := hs
    simp only [Value.approxEqList] at hw
    obtain ⟨y, ws', rfl, hxy, hws'⟩ := hw
    simp only [Value.approxEq] at hxy
    obtain ⟨sy, x', rfl, rfl, hxx⟩ := hxy
    obtain ⟨d', hd', hty, hR⟩ := ser_inv t d x x' h.1 hn.1 hx hxx
    obtain ⟨ds', hds', htys, hRs⟩ := serFields_inv fs ds xs' ws' h.2 hn.2 hxs' hws'
    refine ⟨d' :: ds', ?_, by simp only [HasTyFields]; exact ⟨hty, htys⟩,
      by simp only [Data.approxEqList]; exact ⟨d', ds', rfl, hR, hRs⟩⟩
    simp only [serFields, Option.bind_eq_bind, hd', Option.bind_some, hds', Option.pure_def]
theorem serVariant_inv : ∀ (vs : VariantList) (i : Nat) (p : Data) (v w : Value),
    HasTyVariant vs i p → NoF32Variants vs → serVariant vs i p = some v → Value.approxEq v w →
    ∃ p', serVariant vs i p' = some w ∧ HasTyVariant vs i p' ∧ Data.approxEq p p'
  | .nil, _, _, _, _, h, _, _, _ => by simp only [HasTyVariant] at h
  | .cons name .unit vs, 0, p, v, w, h, _, hs, hw => by
    cases p <;> simp only [HasTyVariant] at h
    simp only [serVariant, Option.some.injEq] at hs; subst hs
    simp only [Value.approxEq] at hw; subst hw
    exact ⟨.unit, by simp only [serVariant], by simp only [HasTyVariant],
      Data.approxEq_refl _⟩
  | .cons name (.newtype t) vs, 0, p, v, w, h, hn, hs, hw => by
    simp only [NoF32Variants] at hn
    simp only [HasTyVariant] at h
    simp only [serVariant, Option.map_eq_some_iff] at hs
    obtain ⟨x, hx, rfl⟩ := hs
    simp only [Value.approxEq] at hw
    obtain ⟨sy, x', rfl, rfl, hxx⟩ := hw
    obtain ⟨p', hp', hty, hR⟩ := ser_inv t p x x' h hn.1 hx hxx
    exact ⟨p', by simp only [serVariant, hp', Option.map_some],
      by simp only [HasTyVariant]; exact hty, hR⟩
  | .cons name (.tuple ts) vs, 0, p, v, w, h, hn, hs, hw => by
    simp only [NoF32Variants] at hn
    cases p <;> simp only [HasTyVariant] at h
    rename_i ds
    simp only [serVariant, Option.map_eq_some_iff] at hs
    obtain ⟨xs, hxs, rfl⟩ := hs
    simp only [Value.approxEq] at hw
    obtain ⟨sy, l', rfl, rfl, hl⟩ := hw
    obtain ⟨ws, rfl, hws⟩ := approxEq_list xs l' hl
    obtain ⟨ds', hds', hP, hR⟩ := serTuple_inv ts ds xs ws h hn.1 hxs hws
    exact ⟨.seq ds', by simp only [serVariant, hds', Option.map_some],
      by simp only [HasTyVariant]; exact hP,
      by simp only [Data.approxEq]; exact ⟨ds', rfl, hR⟩⟩
  | .cons name (.struct fs) vs, 0, p, v, w, h, hn, hs, hw => by
    simp only [NoF32Variants] at hn
    cases p <;> simp only [HasTyVariant] at h
    rename_i ds
    simp only [serVariant, Option.map_eq_some_iff] at hs
    obtain ⟨xs, hxs, rfl⟩ := hs
    simp only [Value.approxEq] at hw
    obtain ⟨sy, l', rfl, rfl, hl⟩ := hw
    obtain ⟨ws, rfl, hws⟩ := approxEq_list xs l' hl
    obtain ⟨ds', hds', hP, hR⟩ := serFields_inv fs ds xs ws h hn.1 hxs hws
    exact ⟨.seq ds', by simp only [serVariant, hds', Option.map_some],
      by simp only [HasTyVariant]; exact hP,
      by simp only [Data.approxEq]; exact ⟨ds', rfl, hR⟩⟩
  | .cons name .unit vs, i + 1, p, v, w, h, hn, hs, hw => by
    simp only [HasTyVariant] at h
    simp only [NoF32Variants] at hn
    simp only [serVariant] at hs
    obtain ⟨p', hp', hP, hR⟩ := serVariant_inv vs i p v w h hn.2 hs hw
    exact ⟨p', by simp only [serVariant]; exact hp', by simp only [HasTyVariant]; exact hP, hR⟩
  | .cons name (.newtype t) vs, i + 1, p, v, w, h, hn, hs, hw => by
    simp only [HasTyVariant] at h
    simp only [NoF32Variants] at hn
    simp only [serVariant] at hs
    obtain ⟨p', hp', hP, hR⟩ := serVariant_inv vs i p v w h hn.2 hs hw
    exact ⟨p', by simp only [serVariant]; exact hp', by simp only [HasTyVariant]; exact hP, hR⟩
  | .cons name (.tuple ts) vs, i + 1, p, v, w, h, hn, hs, hw => by
    simp only [HasTyVariant] at h
    simp only [NoF32Variants] at hn
    simp only [serVariant] at hs
    obtain ⟨p', hp', hP, hR⟩ := serVariant_inv vs i p v w h hn.2 hs hw
    exact ⟨p', by simp only [serVariant]; exact hp', by simp only [HasTyVariant]; exact hP, hR⟩
  | .cons name (.struct fs) vs, i + 1, p, v, w, h, hn, hs, hw => by
    simp only [HasTyVariant] at h
    simp only [NoF32Variants] at hn
    simp only [serVariant] at hs
    obtain ⟨p', hp', hP, hR⟩ := serVariant_inv vs i p v w h hn.2 hs hw
    exact ⟨p', by simp only [serVariant]; exact hp', by simp only [HasTyVariant]; exact hP, hR⟩
end

/-! ## 4. The text path -/

theorem leafFullA_of_serLeaf (cfg : Cfg) (ryu : Nat → List UInt8) (v : Value)
    (h : SerLeaf PlainName (RyuSpecOnly cfg ryu) v) : LeafFullA cfg ryu v := by
  cases v with
  | number n =>
    cases n with
    | flt b => exact h
    | pos n => exact h
    | neg i => exact h
  | bool b => trivial
  | char c => exact h
  | string x => exact h
  | symbol x => exact h
  | bytes x => trivial
  | nil => exact False.elim h
  | null => exact False.elim h
  | keyword x => exact False.elim h
  | cons a d => exact False.elim h
  | vector xs => exact False.elim h

/-- **C04_text_approx.**  Rust data → text → Rust data, floats to the accuracy of C05.  For a
    well-formed type without `f32`, with plain-identifier field and variant names, and a datum of
    that type whose strings are well-formed, characters scalar, `f64` fields finite with
    `RyuSpecOnly` (ryu meets `RyuSpec`; no exactness window), `depthOf t d ≤ 127`: the datum
    serializes to a value `v`; the default parser reads the text of the default printer back —
    from a `&str`, a byte slice or a fault-free reader, consuming all input — as a value `w`;
    `w` deserializes to a datum `d'`; and `d'` equals `d` except that `f64` fields may differ
    within `floatClose` (`Data.approxEq d d'`). -/
theorem C04_text_approx (cfg : Cfg) (ho : cfg.opts = Options.default) (ryu : Nat → List UInt8)
    (t : Ty) (d : Data) (wf : WellFormed t) (hN : PlainNames t) (hf : NoF32 t) (h : HasTy t d)
    (hl : LeavesOK (RyuSpecOnly cfg ryu) t d) (hn : depthOf t d ≤ 127) (m : Mode) :
    ∃ v w s' d', ser t d = some v ∧
      fromTrait cfg (initSt m (Print.text Print.Options.default ryu v)) = .ok w s' ∧
      s'.rd.rest = [] ∧ s'.depth = 128 ∧ Value.approxEq v w ∧
      de t w = .ok d' ∧ Data.approxEq d d' := by
  obtain ⟨v, hs, _⟩ := C04_value t d wf h
  obtain ⟨a, b⟩ := C04_ser_leaves PlainName (RyuSpecOnly cfg ryu) t d v hN h hl hs
  have hsup : AllSupportedApprox cfg ryu v :=
    AllLeaves.mono (fun x _ hx => leafFullA_of_serLeaf cfg ryu x hx) v a
  obtain ⟨w, s', hw, e, r, dp⟩ := C01_roundtrip_approx cfg ho ryu v hsup (by omega) m
  obtain ⟨d', hd', hty, hR⟩ := ser_inv t d v w h hf hs hw
  obtain ⟨w', hw', hde⟩ := C04_value t d' wf hty
  rw [hd'] at hw'
  injection hw' with hw'
  subst hw'
  exact ⟨v, w, s', d', hs, e, r, dp, hw, hde, hR⟩

/-- **C04_text_identity_approx**: `from_str(to_string(d)) = Ok(d')` with `Data.approxEq d d'`
    (and the same for the other sources). -/
theorem C04_text_identity_approx (cfg : Cfg) (ho : cfg.opts = Options.default)
    (ryu : Nat → List UInt8) (t : Ty) (d : Data) (wf : WellFormed t) (hN : PlainNames t)
    (hf : NoF32 t) (h : HasTy t d) (hl : LeavesOK (RyuSpecOnly cfg ryu) t d)
    (hn : depthOf t d ≤ 127) (m : Mode) :
    ∃ bytes d', toText ryu t d = some bytes ∧ fromText cfg m t bytes = some (.ok d') ∧
      Data.approxEq d d' := by
  obtain ⟨v, w, s', d', hs, e, -, -, -, hd, hR⟩ :=
    C04_text_approx cfg ho ryu t d wf hN hf h hl hn m
  refine ⟨Print.text Print.Options.default ryu v, d', by simp [toText, hs], ?_, hR⟩
  simp only [fromText, e, hd]

/-! ## 5. Instance -/

/-- `struct P { x: f64, tags: Vec<(i8, Option<f64>)>, e: E }`, `enum E { idle, at { y: f64 } }` -/
def apTy : Ty :=
  .struct (.cons (asc "x") .f64
    (.cons (asc "tags") (.seq (.tuple (.cons (.int .i8) (.cons (.option .f64) .nil))))
    (.cons (asc "e") (.enum (.cons (asc "idle") .unit
      (.cons (asc "at") (.struct (.cons (asc "y") .f64 .nil)) .nil))) .nil)))

/-- `P { x: 1e-23, tags: vec![(-1, Some(2.5)), (7, None)], e: E::at { y: f64::MAX } }` -/
def apData : Data :=
  .seq [.float 0x3B282DB34012B251,
        .seq [.seq [.int (-1), .some (.float 0x4004000000000000)], .seq [.int 7, .none]],
        .variant 1 (.seq [.float 0x7FEFFFFFFFFFFFFF])]

/-- non-vacuity of `C04_text_approx`: `1e-23` and `f64::MAX` lie outside the exactness window of
    the default build (`C04_text` does not apply to this datum) -/
example (m : Mode) :
    ∃ bytes d', toText ryuAx apTy apData = some bytes ∧
      fromText exCfgFast m apTy bytes = some (.ok d') ∧ Data.approxEq apData d' := by
  refine C04_text_identity_approx exCfgFast rfl ryuAx apTy apData ?_ ?_ ?_ ?_ ?_ ?_ m
  · simp only [apTy, WellFormed, WFFields, WFVariants, WFTys, FieldList.names, VariantList.names,
      and_true, true_and]
    decide
  · simp only [apTy, PlainNames, NamesOK, NamesOKFields, NamesOKVariants, NamesOKTys, and_true,
      true_and]
    decide
  · simp [apTy, NoF32, NoF32Fields, NoF32Tys, NoF32Variants]
  · simp [apTy, apData, HasTy, HasTyFields, HasTyTuple, HasTyVariant, IntTy.lo, IntTy.hi]
  · simp only [apTy, apData, LeavesOK, LeavesOKFields, LeavesOKVariant, LeavesOKTuple,
      List.mem_cons, List.not_mem_nil, or_false, forall_eq_or_imp, forall_eq, and_true, true_and]
    exact ⟨ryuAx_1em23, ryuAx_25, ryuAx_max⟩
  · simp [apTy, apData, depthOf, depthFields, depthVariant, depthTuple, maxNat]

#print axioms ser_inv
#print axioms C04_text_approx
#print axioms C04_text_identity_approx

end Serde
end Lexpr
