/-
  ImageFloat — C13, float leaves under every parser option set.

  `Decimals.atomRT_float` reads ryu's text back in the default dialect.  Here the parser options are
  arbitrary: with `leadingDigit` an unsigned literal is first scanned as a symbol and then
  recognised as a number by the sub-parser (`wholeNumber`); a literal after `-` takes the sign arm
  in every dialect.  `token_lit_pos_any` generalises `Decimals.token_lit_pos`, `float_token`
  generalises `Decimals.atomRT_float` (same proof, the default-dialect hypothesis dropped), and
  `atomOKP_float` packages it for the structural round trip.
-/
import LexprModel.Proofs.ImageAtoms
import LexprModel.Proofs.Decimals
namespace Lexpr
namespace Parse
namespace Image
open Utf8 Spec Decimals F64 Numbers

/-! ### the bytes of a decimal literal -/

theorem digit_plain : ∀ b : UInt8, isDigit b = true → symTermSlice b = false ∧ b < 0x80 := by
  apply forall_u8; decide +kernel

theorem allDigits_plain {ds : List UInt8} (h : AllDigits ds) :
    ∀ b ∈ ds, symTermSlice b = false ∧ b < 0x80 := fun b hb => digit_plain b (h b hb)

theorem DecLit.text_plain (L : DecLit) (hwf : L.WF) :
    ∀ b ∈ L.text, symTermSlice b = false ∧ b < 0x80 := by
  obtain ⟨ip, fp, ex⟩ := L
  obtain ⟨-, hip, hfp, hex, -⟩ := hwf
  intro b hb
  simp only [DecLit.text, List.mem_append] at hb
  rcases hb with hb | hb | hb
  · exact allDigits_plain hip b hb
  · cases fp with
    | none => simp [fracText] at hb
    | some f =>
      simp only [fracText, List.mem_cons] at hb
      rcases hb with rfl | hb
      · decide
      · exact allDigits_plain (hfp f rfl).2 b hb
  · cases ex with
    | none => simp [expText] at hb
    | some e =>
      obtain ⟨hmark, hsign, -, hdig⟩ := hex e rfl
      simp only [expText, ExpPart.text, List.mem_cons, List.mem_append] at hb
      rcases hb with rfl | hb | hb
      · rcases hmark with h | h <;> rw [h] <;> decide
      · rcases hsign with h | h | h <;> rw [h] at hb
        · simp at hb
        · simp only [List.mem_singleton] at hb; rw [hb]; decide
        · simp only [List.mem_singleton] at hb; rw [hb]; decide
      · exact allDigits_plain hdig b hb

/-! ### an unsigned literal as a token, any option set -/

theorem token_lit_pos_any (cfg : Cfg) (fuel : Nat) (L : DecLit) (rest : List UInt8)
    (s : St) (g : Nat) (pk : UInt8)
    (hwf : L.WF) (hrest : s.rd.rest = L.text ++ rest) (hpk : L.text.head? = some pk)
    (hF : Follow rest)
    (hf : rest = [] → s.rd.faulty = false) (hS : L.sig ≤ u64Max) (hsmall : L.Small)
    (hfuel : L.text.length + 1 ≤ fuel)
    (hparts : ∀ u, f64FromParts cfg true L.sig L.exp10 u = .ok g u) :
    parseToken cfg fuel pk s =
      .ok (.number (.flt g)) (adv s L.text.length (endPeek s rest)) := by
  obtain ⟨c, tl, htx, hc⟩ := L.text_head hwf
  have : pk = c := by rw [htx] at hpk; simpa using hpk.symm
  subst this
  cases hl : cfg.opts.leadingDigit
  · obtain ⟨h1, h2, h3, -, -, -⟩ := digit_disp pk hc
    have hdisp : parseToken cfg fuel pk =
        (do let n ← parseNumToken cfg fuel true; pure (.number n)) := by
      simp only [beq_eq_false_iff_ne, ne_eq] at h1 h2 h3
      unfold parseToken
      simp [h1, h2, h3, hc, hl]
    rw [hdisp]
    simp only [bind_apply, numToken_lit cfg fuel true L rest s g hwf hrest
      (delimStop_of_follow hF) hf hS hsmall hfuel hparts, pure_apply]
  · have hplain := DecLit.text_plain L hwf
    have hnt : NonTerm (pk :: tl) := fun b hb => (hplain b (by rw [htx]; exact hb)).1
    have hv : Utf8.valid (pk :: tl) = true :=
      U8.valid_ascii (fun b hb => (hplain b (by rw [htx]; exact hb)).2)
    have hw : wholeNumber cfg L.text = some (.flt g) := by
      unfold wholeNumber
      simp only
      rw [scan_lit cfg (L.text.length + 1) true L []
        { rd := { mode := .slice, rest := L.text } } hwf (by simp)
        (DelimStop.scanStop (by intro b hb; cases hb)) (fun _ => rfl) hS hsmall (by omega)]
      simp [hparts, Number.ofF64]
    have := digit_token cfg fuel pk tl rest s hl hc hnt hv (by rw [← htx]; exact hrest) hF hf
    rw [this, ← htx, hw, htx]
    rfl

/-! ### ryu's text as a token, any option set -/

/-- `Decimals.atomRT_float` without the default-dialect hypothesis. -/
theorem float_token (cfg : Cfg) (ryu : Nat → List UInt8) (fuel : Nat) (s : St)
    (rest : List UInt8) (b : Nat) (d : RyuDec) (pk : UInt8)
    (hb : b < 2 ^ 64) (hspec : RyuSpec ryu b d)
    (hbuild : (cfg.fast = true ∧ (∀ k, k ≤ 22 → Exact (cfg.pow10 k) (10 ^ k)) ∧
                d.S < 2 ^ 53 ∧ -22 ≤ d.E ∧ d.E ≤ 22) ∨
              (cfg.fast = false ∧ isInf b = false))
    (hrest : s.rd.rest = ryu b ++ rest)
    (hpk : (ryu b).head? = some pk)
    (hfuel : (ryu b).length + 1 ≤ fuel)
    (hF : Follow rest) (hf : rest = [] → s.rd.faulty = false) :
    parseToken cfg fuel pk s =
      .ok (.number (.flt b)) (adv s (ryu b).length (endPeek s rest)) := by
  obtain ⟨hwf, htext, hsign, hround⟩ := hspec
  have hfacts := d.litFacts hwf
  have hS17 := d.S_lt hwf
  have hSle : d.S ≤ u64Max := Nat.le_of_lt (Nat.lt_of_lt_of_le hS17 (by decide))
  have hrn : decRn d.S d.E = b % signBit := by rw [d.decRn_SE hwf, hround]
  have hEB : ExactBuild cfg d.lit.sig d.lit.exp10 := by
    rw [hfacts.sig, hfacts.exp]
    rcases hbuild with h | ⟨hfast, hinf⟩
    · exact Or.inl h
    · refine Or.inr ⟨hfast, hSle, ?_⟩
      rw [hrn]
      exact lt_inf_of_not_isInf (by rw [← hrn]; exact rn_le_inf _ _) (by rw [isInf_mod]; exact hinf)
  have hparts : ∀ u, f64FromParts cfg (!d.neg) d.lit.sig d.lit.exp10 u = .ok b u := by
    intro u
    rw [hEB.parts, hfacts.sig, hfacts.exp, hrn, hsign, signed_bits hb]
  rw [htext] at hrest hpk hfuel ⊢
  unfold RyuDec.text at hrest hpk hfuel ⊢
  cases hneg : d.neg with
  | false =>
    simp only [hneg, Bool.false_eq_true, if_false, List.nil_append, Bool.not_false]
      at hrest hpk hfuel hparts ⊢
    exact token_lit_pos_any cfg fuel d.lit rest s b pk hfacts.wf hrest hpk hF hf
      (by rw [hfacts.sig]; exact hSle) hfacts.small hfuel hparts
  | true =>
    simp only [hneg, if_true, List.cons_append, List.nil_append, Bool.not_true, List.length_cons,
      List.head?_cons, Option.some.injEq] at hrest hpk hfuel hparts ⊢
    subst hpk
    exact token_lit_neg cfg fuel d.lit rest s b hfacts.wf hrest (delimStop_of_follow hF) hf
      (by rw [hfacts.sig]; exact hSle) hfacts.small (by omega) hparts

/-! ### float leaves of the round trip -/

theorem atomTextP_flt (p : Print.Options) (ryu : Nat → List UInt8) (b : Nat) :
    atomTextP p ryu (.number (.flt b)) = ryu b := by
  simp [atomTextP, Print.atomEmits, Print.flatten, Print.Emit.bytes, Print.numberText]

/-- a float whose ryu text lies in the exact window of the build (`Decimals.FloatOK`) reads back
    bit for bit under every parser option set -/
theorem atomOKP_float (cfg : Cfg) (ryu : Nat → List UInt8) (b : Nat) (h : FloatOK cfg ryu b) :
    ListRT.AtomOKP (pof cfg.opts) cfg ryu (.number (.flt b)) := by
  obtain ⟨hb, d, hspec, hbuild⟩ := h
  have htext := atomTextP_flt (pof cfg.opts) ryu b
  have hfacts := d.litFacts hspec.wf
  obtain ⟨c, tl, hc, hdig⟩ := d.lit.text_head hfacts.wf
  -- the first byte of the text
  have hhd : ∃ pk tl', ryu b = pk :: tl' ∧ isTrivia pk = false ∧ pk ≠ 59 ∧
      symTermSlice pk = false ∧ pk ≠ 46 := by
    rw [hspec.text_eq]
    unfold RyuDec.text
    cases d.neg with
    | false =>
      simp only [Bool.false_eq_true, if_false, List.nil_append, hc]
      obtain ⟨-, -, -, t1, t2, t3⟩ := digit_disp c hdig
      exact ⟨c, tl, rfl, t1, t2, digit_nonterm c hdig, t3⟩
    | true =>
      simp only [if_true, List.cons_append, List.nil_append]
      exact ⟨45, _, rfl, by decide, by decide, by decide, by decide⟩
  obtain ⟨pk, tl', hpk, t1, t2, t3, t4⟩ := hhd
  refine atomOKP_of_next _ cfg ryu _ rfl rfl (by simp)
    (by rw [htext, hpk]; exact ListRT.head_of_nonterm pk tl' t3 t4) ?_
  rw [fold_pof, htext]
  refine run_of_lexes cfg _ _ ?_
  intro fuel s rest hF hf hrest hfu
  refine ⟨.number (.flt b), ⟨pk, endPeek s rest, by rw [hpk]; rfl, t1, t2, ?_⟩, rfl⟩
  exact float_token cfg ryu fuel s rest b d pk hb hspec hbuild hrest (by rw [hpk]; rfl) hfu hF hf

end Image
end Parse
end Lexpr
