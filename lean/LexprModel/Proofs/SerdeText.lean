/-
  SerdeText — C04, second sentence: Rust data → S-expression *text* → Rust data is the identity
  (default printer and parser options).

  `serde_lexpr::to_string` is `lexpr::to_string ∘ to_value` and `serde_lexpr::from_str` is
  `from_value ∘ lexpr::from_str` (serde-lexpr/src/{ser,de}.rs), so the text path is the composition
  of `ser` (SerdeRT.lean: `C04_value`), the print → parse round trip with every leaf kind
  (FullRT.lean: `C01_roundtrip_full_sources`) and `de`.  What is proved here:

  * `C04_ser_leaves` / `C04_ser_supported`: every value the serializer produces for a well-typed
    datum has only leaves the round trip supports, provided struct field names and enum variant
    names are plain identifiers, strings are well-formed, characters are scalar values and floats
    satisfy `Decimals.FloatOK`; and `nesting (ser d) ≤ depthOf t d`.
  * `C04_text`: `de t (parse (print (ser t d))) = ok d` for the three sources.
  * `C04_text_depth_needed`: the depth hypothesis cannot be dropped (`Option` nested 127 times
    around `()`: the value path succeeds, the text path hits the recursion limit).
  Floats outside the exactness window of the default build are excluded (`FloatOK`); `Decimals.lean`
  has no `readBack` notion to state the "to the accuracy of C05" clause for them.
-/
import LexprModel.Proofs.FullRT
import LexprModel.Proofs.SerdeRT
namespace Lexpr
namespace Serde
open Parse FullRT Decimals

/-! ## 1. Hypotheses on the type and on the datum -/

/-- A plain-identifier name: exactly `ListRT.SupportedAtom (.symbol n)`, the predicate of the C01
    theorem for symbols (R7RS identifier shape with an ASCII initial or peculiar identifier, valid
    UTF-8, a leading `.` not followed by NUL, `|` or `"`). -/
def PlainName (n : List UInt8) : Prop := PlainIdent n ∧ ListRT.dotHeadOk n = true

instance (n : List UInt8) : Decidable (PlainName n) := by unfold PlainName; infer_instance

theorem plainName_iff (n : List UInt8) : PlainName n ↔ ListRT.SupportedAtom (.symbol n) := Iff.rfl

mutual
/-- every struct field name and every enum variant name in `t` satisfies `N` -/
def NamesOK (N : List UInt8 → Prop) : Ty → Prop
  | .option t => NamesOK N t
  | .seq t => NamesOK N t
  | .set t => NamesOK N t
  | .newtypeStruct t => NamesOK N t
  | .map k v => NamesOK N k ∧ NamesOK N v
  | .tuple ts => NamesOKTys N ts
  | .tupleStruct ts => NamesOKTys N ts
  | .struct fs => NamesOKFields N fs
  | .enum vs => NamesOKVariants N vs
  | _ => True
def NamesOKTys (N : List UInt8 → Prop) : TyList → Prop
  | .nil => True
  | .cons t ts => NamesOK N t ∧ NamesOKTys N ts
def NamesOKFields (N : List UInt8 → Prop) : FieldList → Prop
  | .nil => True
  | .cons n t fs => N n ∧ NamesOK N t ∧ NamesOKFields N fs
def NamesOKVariants (N : List UInt8 → Prop) : VariantList → Prop
  | .nil => True
  | .cons n var vs =>
    N n ∧
    (match var with
     | .unit => True
     | .newtype t => NamesOK N t
     | .tuple ts => NamesOKTys N ts
     | .struct fs => NamesOKFields N fs) ∧ NamesOKVariants N vs
end

/-- struct field names and enum variant names are plain identifiers -/
def PlainNames (t : Ty) : Prop := NamesOK PlainName t

mutual
/-- the leaves of the datum `d : t`: every string is well-formed UTF-8, every character a scalar
    value, every float satisfies `F` -/
def LeavesOK (F : Nat → Prop) : Ty → Data → Prop
  | .f32, .float b => F b
  | .f64, .float b => F b
  | .char, .char c => isScalar c = true
  | .str, .str s => Utf8.valid s = true
  | .option t, .some d => LeavesOK F t d
  | .seq t, .seq ds => ∀ d ∈ ds, LeavesOK F t d
  | .set t, .seq ds => ∀ d ∈ ds, LeavesOK F t d
  | .tuple ts, .seq ds => LeavesOKTuple F ts ds
  | .tupleStruct ts, .seq ds => LeavesOKTuple F ts ds
  | .newtypeStruct t, d => LeavesOK F t d
  | .map k v, .map kvs => ∀ p ∈ kvs, LeavesOK F k p.1 ∧ LeavesOK F v p.2
  | .struct fs, .seq ds => LeavesOKFields F fs ds
  | .enum vs, .variant i p => LeavesOKVariant F vs i p
  | _, _ => True
def LeavesOKTuple (F : Nat → Prop) : TyList → List Data → Prop
  | .cons t ts, d :: ds => LeavesOK F t d ∧ LeavesOKTuple F ts ds
  | _, _ => True
def LeavesOKFields (F : Nat → Prop) : FieldList → List Data → Prop
  | .cons _ t fs, d :: ds => LeavesOK F t d ∧ LeavesOKFields F fs ds
  | _, _ => True
def LeavesOKVariant (F : Nat → Prop) : VariantList → Nat → Data → Prop
  | .nil, _, _ => True
  | .cons _ var _, 0, p =>
    match var, p with
    | .newtype t, p => LeavesOK F t p
    | .tuple ts, .seq ds => LeavesOKTuple F ts ds
    | .struct fs, .seq ds => LeavesOKFields F fs ds
    | _, _ => True
  | .cons _ _ vs, i + 1, p => LeavesOKVariant F vs i p
end

def maxNat : List Nat → Nat
  | [] => 0
  | x :: xs => max x (maxNat xs)

mutual
/-- An upper bound, computed from the datum, for the list / vector nesting of its serialization
    (`ListRT.nesting`, the number of recursion levels the parser needs): one level per option,
    sequence, tuple, unit; two per map and struct (the list and its entries); one more for a
    newtype / tuple variant and two more for a struct variant. -/
def depthOf : Ty → Data → Nat
  | .unit, _ => 1
  | .unitStruct, _ => 1
  | .option _, .none => 1
  | .option t, .some d => 1 + depthOf t d
  | .seq t, .seq ds => 1 + maxNat (ds.map (depthOf t))
  | .set t, .seq ds => 1 + maxNat (ds.map (depthOf t))
  | .tuple ts, .seq ds => 1 + depthTuple ts ds
  | .tupleStruct ts, .seq ds => 1 + depthTuple ts ds
  | .newtypeStruct t, d => depthOf t d
  | .map k v, .map kvs => 1 + maxNat (kvs.map fun p => 1 + max (depthOf k p.1) (depthOf v p.2))
  | .struct fs, .seq ds => 1 + depthFields fs ds
  | .enum vs, .variant i p => depthVariant vs i p
  | _, _ => 0
def depthTuple : TyList → List Data → Nat
  | .cons t ts, d :: ds => max (depthOf t d) (depthTuple ts ds)
  | _, _ => 0
/-- the entries `(name . value)` of a struct -/
def depthFields : FieldList → List Data → Nat
  | .cons _ t fs, d :: ds => max (1 + depthOf t d) (depthFields fs ds)
  | _, _ => 0
def depthVariant : VariantList → Nat → Data → Nat
  | .nil, _, _ => 0
  | .cons _ var _, 0, p =>
    match var, p with
    | .newtype t, p => 1 + depthOf t p
    | .tuple ts, .seq ds => 1 + depthTuple ts ds
    | .struct fs, .seq ds => 1 + depthFields fs ds
    | _, _ => 0
  | .cons _ _ vs, i + 1, p => depthVariant vs i p
end

/-! ## 2. What the serializer produces -/

/-- The leaves the serializer can produce, with the conditions under which they are round-trip
    leaves: booleans, integers in `u64` / negative `i64` normal form, floats satisfying `F`, scalar
    characters, well-formed strings, symbols (field and variant names) satisfying `N`, byte
    vectors.  (`#nil` and keywords are never produced; `()` is not a leaf.) -/
def SerLeaf (N : List UInt8 → Prop) (F : Nat → Prop) : Value → Prop
  | .bool _ => True
  | .number (.pos n) => n ≤ u64Max
  | .number (.neg i) => i64Min ≤ i ∧ i < 0
  | .number (.flt b) => F b
  | .char c => isScalar c = true
  | .string s => Utf8.valid s = true
  | .symbol n => N n
  | .bytes _ => True
  | _ => False

theorem nestingTail_le (v : Value) : ListRT.nestingTail v ≤ ListRT.nesting v := by
  cases v <;> simp [ListRT.nesting, ListRT.nestingTail]

theorem nestingTail_list : ∀ xs : List Value,
    ListRT.nestingTail (Value.list xs) = ListRT.nestingSeq xs
  | [] => by simp [Value.list, Value.append, ListRT.nestingTail, ListRT.nestingSeq]
  | x :: xs => by
    rw [list_cons]; simp only [ListRT.nestingTail, ListRT.nestingSeq]; rw [nestingTail_list xs]

theorem nesting_list : ∀ xs : List Value,
    ListRT.nesting (Value.list xs) = 1 + ListRT.nestingSeq xs
  | [] => by simp [Value.list, Value.append, ListRT.nesting, ListRT.nestingSeq]
  | x :: xs => by
    rw [list_cons]; simp only [ListRT.nesting, ListRT.nestingSeq]; rw [nestingTail_list xs]

theorem mapM_ok {α : Type} {f : α → Option Value} {P : Value → Prop} {g : α → Nat} :
    ∀ (ds : List α) (vs : List Value), ds.mapM f = some vs →
      (∀ d ∈ ds, ∀ v, f d = some v → P v ∧ ListRT.nesting v ≤ g d) →
      (∀ v ∈ vs, P v) ∧ ListRT.nestingSeq vs ≤ maxNat (ds.map g)
  | [], vs, h, _ => by
    simp at h; subst h; simp [ListRT.nestingSeq, maxNat]
  | d :: ds, vs, h, hf => by
    simp only [List.mapM_cons, Option.bind_eq_bind, Option.bind_eq_some_iff, Option.pure_def,
      Option.some.injEq] at h
    obtain ⟨v, hv, vs', hvs', rfl⟩ := h
    obtain ⟨h1, h2⟩ := hf d (by simp) v hv
    obtain ⟨h3, h4⟩ := mapM_ok ds vs' hvs' fun d' hd' => hf d' (by simp [hd'])
    refine ⟨?_, ?_⟩
    · intro w hw
      rcases List.mem_cons.mp hw with rfl | hw
      · exact h1
      · exact h3 w hw
    · simp only [ListRT.nestingSeq, List.map_cons, maxNat]; omega

theorem serInt_leaf (N : List UInt8 → Prop) (F : Nat → Prop) (w : IntTy) (n : Int)
    (h1 : w.lo ≤ n) (h2 : n ≤ w.hi) :
    AllLeaves (SerLeaf N F) (serInt w n) ∧ ListRT.nesting (serInt w n) = 0 := by
  obtain ⟨b1, b2, -⟩ := intTy_bounds w
  by_cases hn : 0 ≤ n
  · rw [serInt_nonneg w n hn]
    refine ⟨?_, by simp [ListRT.nesting]⟩
    simp only [AllLeaves, SerLeaf]
    have : (n.toNat : Int) = n := Int.toNat_of_nonneg hn
    have hb : (n.toNat : Int) ≤ (u64Max : Int) := by omega
    exact Int.ofNat_le.mp hb
  · have hn' : n < 0 := by omega
    rw [serInt_neg w n hn' h1]
    refine ⟨?_, by simp [ListRT.nesting]⟩
    simp only [AllLeaves, SerLeaf]
    exact ⟨by omega, hn'⟩

section
variable (N : List UInt8 → Prop) (F : Nat → Prop)

mutual
theorem ser_ok : ∀ (t : Ty) (d : Data) (v : Value), NamesOK N t → HasTy t d → LeavesOK F t d →
    ser t d = some v → AllLeaves (SerLeaf N F) v ∧ ListRT.nesting v ≤ depthOf t d
  | .int w, d, v, _, h, _, hs => by
    cases d <;> simp only [HasTy] at h
    simp only [ser, Option.some.injEq] at hs; subst hs
    obtain ⟨a, b⟩ := serInt_leaf N F w _ h.1 h.2
    exact ⟨a, by omega⟩
  | .f32, d, v, _, h, hl, hs => by
    cases d <;> simp only [HasTy] at h
    simp only [LeavesOK] at hl
    simp only [ser, Option.some.injEq] at hs; subst hs
    exact ⟨by simp only [AllLeaves, SerLeaf]; exact hl, by simp [ListRT.nesting]⟩
  | .f64, d, v, _, h, hl, hs => by
    cases d <;> simp only [HasTy] at h
    simp only [LeavesOK] at hl
    simp only [ser, Option.some.injEq] at hs; subst hs
    exact ⟨by simp only [AllLeaves, SerLeaf]; exact hl, by simp [ListRT.nesting]⟩
  | .bool, d, v, _, h, _, hs => by
    cases d <;> simp only [HasTy] at h
    simp only [ser, Option.some.injEq] at hs; subst hs
    exact ⟨by simp only [AllLeaves, SerLeaf], by simp [ListRT.nesting]⟩
  | .char, d, v, _, h, hl, hs => by
    cases d <;> simp only [HasTy] at h
    simp only [LeavesOK] at hl
    simp only [ser, Option.some.injEq] at hs; subst hs
    exact ⟨by simp only [AllLeaves, SerLeaf]; exact hl, by simp [ListRT.nesting]⟩
  | .str, d, v, _, h, hl, hs => by
    cases d <;> simp only [HasTy] at h
    simp only [LeavesOK] at hl
    simp only [ser, Option.some.injEq] at hs; subst hs
    exact ⟨by simp only [AllLeaves, SerLeaf]; exact hl, by simp [ListRT.nesting]⟩
  | .bytes, d, v, _, h, _, hs => by
    cases d <;> simp only [HasTy] at h
    simp only [ser, Option.some.injEq] at hs; subst hs
    exact ⟨by simp only [AllLeaves, SerLeaf], by simp [ListRT.nesting]⟩
  | .unit, d, v, _, h, _, hs => by
    cases d <;> simp only [HasTy] at h
    simp only [ser, Option.some.injEq] at hs; subst hs
    exact ⟨by simp only [AllLeaves], by simp [ListRT.nesting, depthOf]⟩
  | .unitStruct, d, v, _, h, _, hs => by
    cases d <;> simp only [HasTy] at h
    simp only [ser, Option.some.injEq] at hs; subst hs
    exact ⟨by simp only [AllLeaves], by simp [ListRT.nesting, depthOf]⟩
  | .option t, d, v, hN, h, hl, hs => by
    cases d <;> simp only [HasTy] at h
    · simp only [ser, Option.some.injEq] at hs; subst hs
      exact ⟨by simp only [AllLeaves], by simp [ListRT.nesting, depthOf]⟩
    · rename_i d
      simp only [NamesOK] at hN
      simp only [LeavesOK] at hl
      simp only [ser, Option.map_eq_some_iff] at hs
      obtain ⟨x, hx, rfl⟩ := hs
      obtain ⟨a, b⟩ := ser_ok t d x hN h hl hx
      refine ⟨by simp only [AllLeaves]; exact ⟨a, trivial⟩, ?_⟩
      simp only [ListRT.nesting, ListRT.nestingTail, depthOf]; omega
  | .seq t, d, v, hN, h, hl, hs => by
    cases d <;> simp only [HasTy] at h
    rename_i ds
    simp only [NamesOK] at hN
    simp only [LeavesOK] at hl
    simp only [ser, Option.map_eq_some_iff] at hs
    obtain ⟨xs, hxs, rfl⟩ := hs
    obtain ⟨a, b⟩ := mapM_ok (P := AllLeaves (SerLeaf N F)) (g := depthOf t) ds xs hxs
      fun d hd x hx => ser_ok t d x hN (h d hd) (hl d hd) hx
    refine ⟨(allLeaves_list xs).mpr a, ?_⟩
    rw [nesting_list]; simp only [depthOf]; omega
  | .set t, d, v, hN, h, hl, hs => by
    cases d <;> simp only [HasTy] at h
    rename_i ds
    simp only [NamesOK] at hN
    simp only [LeavesOK] at hl
    simp only [ser, Option.map_eq_some_iff] at hs
    obtain ⟨xs, hxs, rfl⟩ := hs
    obtain ⟨a, b⟩ := mapM_ok (P := AllLeaves (SerLeaf N F)) (g := depthOf t) ds xs hxs
      fun d hd x hx => ser_ok t d x hN (h d hd) (hl d hd) hx
    refine ⟨(allLeaves_list xs).mpr a, ?_⟩
    rw [nesting_list]; simp only [depthOf]; omega
  | .tuple ts, d, v, hN, h, hl, hs => by
    cases d <;> simp only [HasTy] at h
    rename_i ds
    simp only [NamesOK] at hN
    simp only [LeavesOK] at hl
    simp only [ser, Option.map_eq_some_iff] at hs
    obtain ⟨xs, hxs, rfl⟩ := hs
    obtain ⟨a, b⟩ := serTuple_ok ts ds xs hN h hl hxs
    refine ⟨by simp only [AllLeaves]; exact (allLeavesSeq_iff xs).mpr a, ?_⟩
    simp only [ListRT.nesting, depthOf]; omega
  | .tupleStruct ts, d, v, hN, h, hl, hs => by
    cases d <;> simp only [HasTy] at h
    rename_i ds
    simp only [NamesOK] at hN
    simp only [LeavesOK] at hl
    simp only [ser, Option.map_eq_some_iff] at hs
    obtain ⟨xs, hxs, rfl⟩ := hs
    obtain ⟨a, b⟩ := serTuple_ok ts ds xs hN h hl hxs
    refine ⟨by simp only [AllLeaves]; exact (allLeavesSeq_iff xs).mpr a, ?_⟩
    simp only [ListRT.nesting, depthOf]; omega
  | .newtypeStruct t, d, v, hN, h, hl, hs => by
    simp only [NamesOK] at hN
    simp only [HasTy] at h
    simp only [LeavesOK] at hl
    simp only [ser] at hs
    have := ser_ok t d v hN h hl hs
    simpa only [depthOf] using this
  | .map k w, d, v, hN, h, hl, hs => by
    cases d <;> simp only [HasTy] at h
    rename_i kvs
    simp only [NamesOK] at hN
    simp only [LeavesOK] at hl
    simp only [ser, Option.map_eq_some_iff] at hs
    obtain ⟨xs, hxs, rfl⟩ := hs
    obtain ⟨a, b⟩ := mapM_ok (P := AllLeaves (SerLeaf N F))
      (g := fun p => 1 + max (depthOf k p.1) (depthOf w p.2)) kvs xs hxs (by
        intro p hp x hx
        simp only [Option.bind_eq_bind, Option.bind_eq_some_iff, Option.pure_def,
          Option.some.injEq] at hx
        obtain ⟨x1, hx1, x2, hx2, rfl⟩ := hx
        obtain ⟨a1, b1⟩ := ser_ok k p.1 x1 hN.1 (h p hp).1 (hl p hp).1 hx1
        obtain ⟨a2, b2⟩ := ser_ok w p.2 x2 hN.2 (h p hp).2 (hl p hp).2 hx2
        refine ⟨by simp only [AllLeaves]; exact ⟨a1, a2⟩, ?_⟩
        have := nestingTail_le x2
        simp only [ListRT.nesting]; omega)
    refine ⟨(allLeaves_list xs).mpr a, ?_⟩
    rw [nesting_list]; simp only [depthOf]; omega
  | .struct fs, d, v, hN, h, hl, hs => by
    cases d <;> simp only [HasTy] at h
    rename_i ds
    simp only [NamesOK] at hN
    simp only [LeavesOK] at hl
    simp only [ser, Option.map_eq_some_iff] at hs
    obtain ⟨xs, hxs, rfl⟩ := hs
    obtain ⟨a, b⟩ := serFields_ok fs ds xs hN h hl hxs
    refine ⟨(allLeaves_list xs).mpr a, ?_⟩
    rw [nesting_list]; simp only [depthOf]; omega
  | .enum vs, d, v, hN, h, hl, hs => by
    cases d <;> simp only [HasTy] at h
    rename_i i p
    simp only [NamesOK] at hN
    simp only [LeavesOK] at hl
    simp only [ser] at hs
    have := serVariant_ok vs i p v hN h hl hs
    simpa only [depthOf] using this
theorem serTuple_ok : ∀ (ts : TyList) (ds : List Data) (xs : List Value), NamesOKTys N ts →
    HasTyTuple ts ds → LeavesOKTuple F ts ds → serTuple ts ds = some xs →
    (∀ x ∈ xs, AllLeaves (SerLeaf N F) x) ∧ ListRT.nestingSeq xs ≤ depthTuple ts ds
  | .nil, [], xs, _, _, _, hs => by
    simp only [serTuple, Option.some.injEq] at hs; subst hs
    simp [ListRT.nestingSeq]
  | .nil, _ :: _, _, _, h, _, _ => by simp [HasTyTuple] at h
  | .cons _ _, [], _, _, h, _, _ => by simp [HasTyTuple] at h
  | .cons t ts, d :: ds, xs, hN, h, hl, hs => by
    simp only [NamesOKTys] at hN
    simp only [HasTyTuple] at h
    simp only [LeavesOKTuple] at hl
    simp only [serTuple, Option.bind_eq_bind, Option.bind_eq_some_iff, Option.pure_def,
      Option.some.injEq] at hs
    obtain ⟨x, hx, xs', hxs', rfl⟩ := hs
    obtain ⟨a1, b1⟩ := ser_ok t d x hN.1 h.1 hl.1 hx
    obtain ⟨a2, b2⟩ := serTuple_ok ts ds xs' hN.2 h.2 hl.2 hxs'
    refine ⟨?_, ?_⟩
    · intro y hy
      rcases List.mem_cons.mp hy with rfl | hy
      · exact a1
      · exact a2 y hy
    · simp only [ListRT.nestingSeq, depthTuple]; omega
theorem serFields_ok : ∀ (fs : FieldList) (ds : List Data) (xs : List Value), NamesOKFields N fs →
    HasTyFields fs ds → LeavesOKFields F fs ds → serFields fs ds = some xs →
    (∀ x ∈ xs, AllLeaves (SerLeaf N F) x) ∧ ListRT.nestingSeq xs ≤ depthFields fs ds
  | .nil, [], xs, _, _, _, hs => by
    simp only [serFields, Option.some.injEq] at hs; subst hs
    simp [ListRT.nestingSeq]
  | .nil, _ :: _, _, _, h, _, _ => by simp [HasTyFields] at h
  | .cons _ _ _, [], _, _, h, _, _ => by simp [HasTyFields] at h
  | .cons n t fs, d :: ds, xs, hN, h, hl, hs => by
    simp only [NamesOKFields] at hN
    simp only [HasTyFields] at h
    simp only [LeavesOKFields] at hl
    simp only [serFields, Option.bind_eq_bind, Option.bind_eq_some_iff, Option.pure_def,
      Option.some.injEq] at hs
    obtain ⟨x, hx, xs', hxs', rfl⟩ := hs
    obtain ⟨a1, b1⟩ := ser_ok t d x hN.2.1 h.1 hl.1 hx
    obtain ⟨a2, b2⟩ := serFields_ok fs ds xs' hN.2.2 h.2 hl.2 hxs'
    refine ⟨?_, ?_⟩
    · intro y hy
      rcases List.mem_cons.mp hy with rfl | hy
      · simp only [AllLeaves, SerLeaf]; exact ⟨hN.1, a1⟩
      · exact a2 y hy
    · have := nestingTail_le x
      simp only [ListRT.nestingSeq, ListRT.nesting, depthFields]; omega
theorem serVariant_ok : ∀ (vs : VariantList) (i : Nat) (p : Data) (v : Value),
    NamesOKVariants N vs → HasTyVariant vs i p → LeavesOKVariant F vs i p →
    serVariant vs i p = some v →
    AllLeaves (SerLeaf N F) v ∧ ListRT.nesting v ≤ depthVariant vs i p
  | .nil, _, _, _, _, h, _, _ => by simp [HasTyVariant] at h
  | .cons n .unit vs, 0, p, v, hN, h, _, hs => by
    cases p <;> simp only [HasTyVariant] at h
    simp only [NamesOKVariants] at hN
    simp only [serVariant, Option.some.injEq] at hs; subst hs
    exact ⟨by simp only [AllLeaves, SerLeaf]; exact hN.1, by simp [ListRT.nesting]⟩
  | .cons n (.newtype t) vs, 0, p, v, hN, h, hl, hs => by
    simp only [NamesOKVariants] at hN
    simp only [HasTyVariant] at h
    simp only [LeavesOKVariant] at hl
    simp only [serVariant, Option.map_eq_some_iff] at hs
    obtain ⟨x, hx, rfl⟩ := hs
    obtain ⟨a, b⟩ := ser_ok t p x hN.2.1 h hl hx
    refine ⟨by simp only [AllLeaves, SerLeaf]; exact ⟨hN.1, a⟩, ?_⟩
    have := nestingTail_le x
    simp only [ListRT.nesting, depthVariant]; omega
  | .cons n (.tuple ts) vs, 0, p, v, hN, h, hl, hs => by
    simp only [NamesOKVariants] at hN
    cases p <;> simp only [HasTyVariant] at h
    rename_i ds
    simp only [LeavesOKVariant] at hl
    simp only [serVariant, Option.map_eq_some_iff] at hs
    obtain ⟨xs, hxs, rfl⟩ := hs
    obtain ⟨a, b⟩ := serTuple_ok ts ds xs hN.2.1 h hl hxs
    refine ⟨by simp only [AllLeaves, SerLeaf]; exact ⟨hN.1, (allLeaves_list xs).mpr a⟩, ?_⟩
    simp only [ListRT.nesting, nestingTail_list, depthVariant]; omega
  | .cons n (.struct fs) vs, 0, p, v, hN, h, hl, hs => by
    simp only [NamesOKVariants] at hN
    cases p <;> simp only [HasTyVariant] at h
    rename_i ds
    simp only [LeavesOKVariant] at hl
    simp only [serVariant, Option.map_eq_some_iff] at hs
    obtain ⟨xs, hxs, rfl⟩ := hs
    obtain ⟨a, b⟩ := serFields_ok fs ds xs hN.2.1 h hl hxs
    refine ⟨by simp only [AllLeaves, SerLeaf]; exact ⟨hN.1, (allLeaves_list xs).mpr a⟩, ?_⟩
    simp only [ListRT.nesting, nestingTail_list, depthVariant]; omega
  | .cons n .unit vs, i + 1, p, v, hN, h, hl, hs => by
    simp only [NamesOKVariants] at hN
    simp only [HasTyVariant] at h
    simp only [LeavesOKVariant] at hl
    simp only [serVariant] at hs
    have := serVariant_ok vs i p v hN.2.2 h hl hs
    simpa only [depthVariant] using this
  | .cons n (.newtype t) vs, i + 1, p, v, hN, h, hl, hs => by
    simp only [NamesOKVariants] at hN
    simp only [HasTyVariant] at h
    simp only [LeavesOKVariant] at hl
    simp only [serVariant] at hs
    have := serVariant_ok vs i p v hN.2.2 h hl hs
    simpa only [depthVariant] using this
  | .cons n (.tuple ts) vs, i + 1, p, v, hN, h, hl, hs => by
    simp only [NamesOKVariants] at hN
    simp only [HasTyVariant] at h
    simp only [LeavesOKVariant] at hl
    simp only [serVariant] at hs
    have := serVariant_ok vs i p v hN.2.2 h hl hs
    simpa only [depthVariant] using this
  | .cons n (.struct fs) vs, i + 1, p, v, hN, h, hl, hs => by
    simp only [NamesOKVariants] at hN
    simp only [HasTyVariant] at h
    simp only [LeavesOKVariant] at hl
    simp only [serVariant] at hs
    have := serVariant_ok vs i p v hN.2.2 h hl hs
    simpa only [depthVariant] using this
end

end

/-! ## 3. Serializer output is supported by the round trip -/

theorem leafFull_of_serLeaf (cfg : Cfg) (ryu : Nat → List UInt8) (v : Value)
    (h : SerLeaf PlainName (FloatOK cfg ryu) v) : LeafFull cfg ryu v := by
  cases v with
  | number n =>
    cases n with
    | flt b => exact h
    | pos n => exact h
    | neg i => exact h
  | bool b => trivial
  | char c => exact h
  | string x => exact h
  | symbol x => exact h
  | bytes x => trivial
  | nil => exact False.elim h
  | null => exact False.elim h
  | keyword x => exact False.elim h
  | cons a d => exact False.elim h
  | vector xs => exact False.elim h

/-- **C04_ser_leaves** (generic form): for a datum `d : t`, every leaf of the value `ser t d` is a
    boolean, an integer in `Number` normal form (`u64` or negative `i64`), a float of the datum, a
    character of the datum, a string of the datum, a byte buffer of the datum, or the symbol of a
    struct field / enum variant name of the type; options give `()` / `(x)`, unit gives `()`,
    sequences, sets, maps and structs give proper lists (of elements, resp. of `(key . value)` /
    `(name . value)` entries), tuples give vectors, variants give `name` or `(name . payload)`.
    So with `N` on the names, `F` on the floats, well-formed strings and scalar characters, all
    leaves satisfy `SerLeaf N F`; and the nesting is at most `depthOf t d`. -/
theorem C04_ser_leaves (N : List UInt8 → Prop) (F : Nat → Prop) (t : Ty) (d : Data) (v : Value)
    (hN : NamesOK N t) (h : HasTy t d) (hl : LeavesOK F t d) (hs : ser t d = some v) :
    AllLeaves (SerLeaf N F) v ∧ ListRT.nesting v ≤ depthOf t d :=
  ser_ok N F t d v hN h hl hs

/-- **C04_ser_supported**: if struct field names and enum variant names are plain identifiers
    (`PlainNames`, the predicate `SupportedAtom` of the C01 theorem), strings are well-formed UTF-8,
    characters scalar values and floats `FloatOK`, the serialized value satisfies the hypothesis
    `AllSupportedFull` of `C01_roundtrip_full`, and its nesting is bounded by `depthOf t d`. -/
theorem C04_ser_supported (cfg : Cfg) (ryu : Nat → List UInt8) (t : Ty) (d : Data) (v : Value)
    (hN : PlainNames t) (h : HasTy t d) (hl : LeavesOK (FloatOK cfg ryu) t d)
    (hs : ser t d = some v) :
    AllSupportedFull cfg ryu v ∧ ListRT.nesting v ≤ depthOf t d := by
  obtain ⟨a, b⟩ := ser_ok PlainName (FloatOK cfg ryu) t d v hN h hl hs
  exact ⟨AllLeaves.mono (fun w _ hw => leafFull_of_serLeaf cfg ryu w hw) v a, b⟩

/-! ## 4. The text path -/

/-- **C04_text.**  Rust data → text → Rust data.  For a well-formed type with plain-identifier
    field and variant names and a datum of that type whose strings are well-formed, characters
    scalar, floats `FloatOK` (ryu meets `RyuSpec`; default build: the exactness window; build
    without `fast-float-parsing`: every finite double) and `depthOf t d ≤ 127`: the datum
    serializes to a value `v`, the default parser reads the text of the default printer back as
    exactly `v` — from a `&str`, a byte slice or a (fault-free) reader, consuming all input — and
    `v` deserializes to `d`. -/
theorem C04_text (cfg : Cfg) (ho : cfg.opts = Options.default) (ryu : Nat → List UInt8)
    (t : Ty) (d : Data) (wf : WellFormed t) (hN : PlainNames t) (h : HasTy t d)
    (hl : LeavesOK (FloatOK cfg ryu) t d) (hn : depthOf t d ≤ 127) (m : Mode) :
    ∃ v s', ser t d = some v ∧
      fromTrait cfg (initSt m (Print.text Print.Options.default ryu v)) = .ok v s' ∧
      s'.rd.rest = [] ∧ s'.depth = 128 ∧ de t v = .ok d := by
  obtain ⟨v, hs, hd⟩ := C04_value t d wf h
  obtain ⟨a, b⟩ := C04_ser_supported cfg ryu t d v hN h hl hs
  obtain ⟨s', e, r, dp⟩ := C01_roundtrip_full_sources cfg ho ryu v a (by omega) m
  exact ⟨v, s', hs, e, r, dp, hd⟩

/-- `serde_lexpr::to_string` (= `to_vec`, `to_writer` on a sink that accepts everything):
    `lexpr::to_string ∘ to_value` -/
def toText (ryu : Nat → List UInt8) (t : Ty) (d : Data) : Option (List UInt8) :=
  (ser t d).map (Print.text Print.Options.default ryu)

/-- `serde_lexpr::from_str` / `from_slice` / `from_reader`: `from_value ∘ lexpr::from_*`;
    `none` when the text does not parse -/
def fromText (cfg : Cfg) (m : Mode) (t : Ty) (bytes : List UInt8) : Option (DeRes Data) :=
  match fromTrait cfg (initSt m bytes) with
  | .ok v _ => some (de t v)
  | _ => none

/-- **C04_text_identity**: `from_str(to_string(d)) = Ok(d)` (and the same for the other sources),
    under the hypotheses of `C04_text`. -/
theorem C04_text_identity (cfg : Cfg) (ho : cfg.opts = Options.default) (ryu : Nat → List UInt8)
    (t : Ty) (d : Data) (wf : WellFormed t) (hN : PlainNames t) (h : HasTy t d)
    (hl : LeavesOK (FloatOK cfg ryu) t d) (hn : depthOf t d ≤ 127) (m : Mode) :
    ∃ bytes, toText ryu t d = some bytes ∧ fromText cfg m t bytes = some (.ok d) := by
  obtain ⟨v, s', hs, e, -, -, hd⟩ := C04_text cfg ho ryu t d wf hN h hl hn m
  refine ⟨Print.text Print.Options.default ryu v, by simp [toText, hs], ?_⟩
  simp only [fromText, e, hd]

/-! ### names with a Unicode-alphabetic initial

Rust identifiers may start with a non-ASCII letter (`struct S { größe: u8 }`); such a name is not a
`SupportedAtom` but is plain for the default pair in the sense of `DialectRT.lean`
(`symbolPlainFor`, with `cfg.isAlphabetic` = `char::is_alphabetic`). -/

/-- a name that is plain for the parser options of `cfg` (`symbolPlainFor`), without a misleading
    leading dot -/
def PlainNameFor (cfg : Cfg) (n : List UInt8) : Prop :=
  symbolPlainFor cfg n = true ∧ ListRT.dotHeadOk n = true

instance (cfg : Cfg) (n : List UInt8) : Decidable (PlainNameFor cfg n) := by
  unfold PlainNameFor; infer_instance

theorem leafPlainForF_of_serLeaf (cfg : Cfg) (ryu : Nat → List UInt8) (v : Value)
    (h : SerLeaf (PlainNameFor cfg) (FloatOK cfg ryu) v) :
    LeafPlainForF Print.Options.default cfg ryu v := by
  cases v with
  | number n =>
    cases n with
    | flt b => exact h
    | pos n => exact ⟨h, rfl⟩
    | neg i => exact ⟨h, rfl⟩
  | bool b => exact ⟨trivial, rfl⟩
  | char c => exact ⟨h, rfl⟩
  | string x => exact ⟨h, rfl⟩
  | symbol x => exact ⟨h.1, h.2⟩
  | bytes x => exact ⟨trivial, rfl⟩
  | nil => exact False.elim h
  | null => exact False.elim h
  | keyword x => exact False.elim h
  | cons a d => exact False.elim h
  | vector xs => exact False.elim h

/-- **C04_text_unicode**: `C04_text` with names that are plain for the default parser options in
    the sense of `symbolPlainFor` (ASCII or Unicode-alphabetic initial). -/
theorem C04_text_unicode (cfg : Cfg) (ho : cfg.opts = Options.default) (ryu : Nat → List UInt8)
    (t : Ty) (d : Data) (wf : WellFormed t) (hN : NamesOK (PlainNameFor cfg) t) (h : HasTy t d)
    (hl : LeavesOK (FloatOK cfg ryu) t d) (hn : depthOf t d ≤ 127) (m : Mode) :
    ∃ v s', ser t d = some v ∧
      fromTrait cfg (initSt m (Print.text Print.Options.default ryu v)) = .ok v s' ∧
      s'.rd.rest = [] ∧ s'.depth = 128 ∧ de t v = .ok d := by
  obtain ⟨v, hs, hd⟩ := C04_value t d wf h
  obtain ⟨a, b⟩ := ser_ok (PlainNameFor cfg) (FloatOK cfg ryu) t d v hN h hl hs
  have a' : AllPlainForF Print.Options.default cfg ryu v :=
    AllLeaves.mono (fun w _ hw => leafPlainForF_of_serLeaf cfg ryu w hw) v a
  obtain ⟨s', e, r, dp⟩ := C01_roundtrip_plain cfg ho ryu v a' (by omega) m
  exact ⟨v, s', hs, e, r, dp, hd⟩

/-! ## 5. The depth hypothesis is needed -/

/-- `Option<Option<…<()>…>>`, `n` options -/
def optN : Nat → Ty
  | 0 => .unit
  | n + 1 => .option (optN n)
/-- `Some(Some(…(())…))` -/
def someN : Nat → Data
  | 0 => .unit
  | n + 1 => .some (someN n)

theorem optN_facts (n : Nat) :
    WellFormed (optN n) ∧ PlainNames (optN n) ∧ HasTy (optN n) (someN n) ∧
    (∀ F, LeavesOK F (optN n) (someN n)) ∧ depthOf (optN n) (someN n) = n + 1 ∧
    ser (optN n) (someN n) = some (ListRT.deep n) := by
  induction n with
  | zero =>
    simp [optN, someN, WellFormed, PlainNames, NamesOK, HasTy, LeavesOK, depthOf, ser, ListRT.deep]
  | succ n ih =>
    obtain ⟨h1, h2, h3, h4, h5, h6⟩ := ih
    refine ⟨by simpa [optN, WellFormed] using h1, by simpa [optN, PlainNames, NamesOK] using h2,
      by simpa [optN, someN, HasTy] using h3, fun F => by simpa [optN, someN, LeavesOK] using h4 F,
      by simp [optN, someN, depthOf, h5]; omega, by simp [optN, someN, ser, h6, ListRT.deep]⟩

/-- **C04_text_depth_needed.**  The hypothesis `depthOf t d ≤ 127` of `C04_text` cannot be dropped:
    for `t = Option^127<()>` and `d = Some^127(())` every other hypothesis holds and
    `depthOf t d = 128`; the value path succeeds (`de t (ser t d) = ok d`), the text is 128 nested
    pairs of parentheses, and `from_slice` rejects it with `RecursionLimitExceeded` (the documented
    limit of C03).  Each nested `Option`, sequence or struct costs one or two levels, so a
    recursive Rust type (a linked list of 64 nodes) reaches the limit. -/
theorem C04_text_depth_needed (cfg : Cfg) (ryu : Nat → List UInt8) :
    WellFormed (optN 127) ∧ PlainNames (optN 127) ∧ HasTy (optN 127) (someN 127) ∧
    LeavesOK (FloatOK cfg ryu) (optN 127) (someN 127) ∧ depthOf (optN 127) (someN 127) = 128 ∧
    (∃ v, ser (optN 127) (someN 127) = some v ∧ de (optN 127) v = .ok (someN 127) ∧
      ∃ l c s', fromTrait cfg (initSt .slice (Print.text Print.Options.default ryu v)) =
        .err (.syntax .recursionLimitExceeded l c) s') := by
  obtain ⟨h1, h2, h3, h4, h5, h6⟩ := optN_facts 127
  refine ⟨h1, h2, h3, h4 _, h5, ?_⟩
  obtain ⟨v, hs, hd⟩ := C04_value _ _ h1 h3
  rw [h6] at hs
  cases hs
  exact ⟨_, h6, hd, ListRT.deep_fails_top cfg ryu⟩

/-! ## 6. Instances -/

/-- `struct S { opt: Option<f64>, e: E, m: Map<String, u64>, raw: ByteBuf, u: () }`,
    `enum E { idle, items(Vec<(i8, String)>), at { x: f64 } }` -/
def txTy : Ty :=
  .struct (.cons (asc "opt") (.option .f64)
    (.cons (asc "e") (.enum (.cons (asc "idle") .unit
      (.cons (asc "items") (.newtype (.seq (.tuple (.cons (.int .i8) (.cons .str .nil)))))
      (.cons (asc "at") (.struct (.cons (asc "x") .f64 .nil)) .nil))))
    (.cons (asc "m") (.map .str (.int .u64))
    (.cons (asc "raw") .bytes
    (.cons (asc "u") .unit .nil)))))

/-- `S { opt: Some(1.5), e: E::items(vec![(-128, "a b"), (127, "é")]),
        m: {"k": u64::MAX}, raw: [0, 255], u: () }` -/
def txData : Data :=
  .seq [.some (.float 0x3FF8000000000000),
        .variant 1 (.seq [.seq [.int (-128), .str (asc "a b")], .seq [.int 127, .str [0xC3, 0xA9]]]),
        .map [(.str (asc "k"), .int 18446744073709551615)],
        .bytes [0, 255],
        .unit]

theorem txTy_wf : WellFormed txTy := by
  simp only [txTy, WellFormed, WFFields, WFVariants, WFTys, FieldList.names, VariantList.names,
    and_true, true_and]
  decide

theorem txTy_names : PlainNames txTy := by
  simp only [txTy, PlainNames, NamesOK, NamesOKFields, NamesOKVariants, NamesOKTys, and_true,
    true_and]
  decide

theorem txData_ty : HasTy txTy txData := by
  simp [txTy, txData, HasTy, HasTyFields, HasTyTuple, HasTyVariant, IntTy.lo, IntTy.hi]

theorem txData_leaves : LeavesOK (FloatOK exCfgFast ryuEx) txTy txData := by
  simp only [txTy, txData, LeavesOK, LeavesOKFields, LeavesOKVariant, LeavesOKTuple,
    List.mem_cons, List.not_mem_nil, or_false, forall_eq_or_imp, forall_eq, and_true, true_and]
  exact ⟨floatOK_ex_15, by decide, by decide⟩

theorem txData_depth : depthOf txTy txData = 5 := by
  simp [txTy, txData, depthOf, depthFields, depthVariant, depthTuple, maxNat]

/-- the struct goes through text and comes back, from all three sources (default build) -/
example (m : Mode) :
    ∃ bytes, toText ryuEx txTy txData = some bytes ∧
      fromText exCfgFast m txTy bytes = some (.ok txData) :=
  C04_text_identity exCfgFast rfl ryuEx txTy txData txTy_wf txTy_names txData_ty txData_leaves
    (by rw [txData_depth]; omega) m

/-- `E::at { x: -100.0 }` inside `Vec<Option<E>>`: a struct variant and an empty option -/
example (m : Mode) :
    let t : Ty := .seq (.option (.enum (.cons (asc "idle") .unit
      (.cons (asc "at") (.struct (.cons (asc "x") .f64 .nil)) .nil))))
    let d : Data := .seq [.some (.variant 1 (.seq [.float 0xC059000000000000])), .none,
      .some (.variant 0 .unit)]
    ∃ bytes, toText ryuEx t d = some bytes ∧ fromText exCfgFast m t bytes = some (.ok d) := by
  intro t d
  refine C04_text_identity exCfgFast rfl ryuEx t d ?_ ?_ ?_ ?_ ?_ m
  · simp only [t, WellFormed, WFFields, WFVariants, FieldList.names, VariantList.names, and_true,
      true_and]
    decide
  · simp only [t, PlainNames, NamesOK, NamesOKFields, NamesOKVariants, and_true, true_and]
    decide
  · simp [t, d, HasTy, HasTyFields, HasTyVariant]
  · simp only [t, d, LeavesOK, LeavesOKFields, LeavesOKVariant, List.mem_cons, List.not_mem_nil,
      or_false, forall_eq_or_imp, forall_eq, and_true]
    exact floatOK_ex_m100
  · simp [t, d, depthOf, depthFields, depthVariant, maxNat]


/-! ## 7. The hypothesis on names is needed (witnesses, confirmed on the real crate) -/

/-- `struct Spacey { #[serde(rename = "my field")] f: u8 }` -/
def spaceTy : Ty := .struct (.cons (asc "my field") (.int .u8) .nil)
/-- `struct Weier { ℘: u8 }` — U+2118 is `XID_Start` (a legal first character of a Rust identifier,
    no `rename` needed) but not `char::is_alphabetic` -/
def weierTy : Ty := .struct (.cons [0xE2, 0x84, 0x98] (.int .u8) .nil)
/-- `struct Digit { #[serde(rename = "1st")] f: u8 }` -/
def digitTy : Ty := .struct (.cons (asc "1st") (.int .u8) .nil)

/-- the parse succeeded with a one-element list whose element starts with the symbol `my` -/
def firstKeyIsMy : Res Value → Bool
  | .ok (.cons (.cons (.symbol n) _) .null) _ => n == asc "my"
  | _ => false

theorem space_parse :
    firstKeyIsMy (fromTrait exCfgFast (initSt .slice (asc "((my field . 1))"))) = true := by
  decide +kernel

theorem space_text :
    fromText exCfgFast .slice spaceTy (asc "((my field . 1))") = some .dataErr := by
  have h := space_parse
  unfold fromText
  cases hr : fromTrait exCfgFast (initSt .slice (asc "((my field . 1))")) with
  | ok v s =>
    rw [hr] at h
    unfold firstKeyIsMy at h
    split at h
    · rename_i n x s' heq
      cases heq
      have hn : n = asc "my" := by simpa using h
      subst hn
      have hne : (asc "my field" == asc "my") = false := by decide
      simp [spaceTy, de, deStructLike, deStructEntries, deField, lookupField, deStructFill,
        FieldList.optFlags, Ty.isOption, hne]
    · exact absurd h (by simp)
  | err e s => rw [hr] at h; simp [firstKeyIsMy] at h
  | panic p => rw [hr] at h; simp [firstKeyIsMy] at h
  | fuel => rw [hr] at h; simp [firstKeyIsMy] at h

/-- **C04_text_names_needed.**  `PlainNames` cannot be dropped from `C04_text`: the printer writes
    symbols verbatim, so a field name that is not a plain identifier does not come back.
    * `my field` (a `serde(rename)`): the text `((my field . 1))` parses, as a different value, and
      `from_str` fails with a data error (missing field);
    * `℘` (U+2118, accepted by rustc as an identifier): the text `((℘ . 1))` is rejected by the
      parser (`ExpectedSomeValue`: the initial is not `char::is_alphabetic`);
    * `1st`: the text `((1st . 1))` is rejected (`InvalidNumber`).
    In all three cases every other hypothesis of `C04_text` holds and the value path
    (`from_value(to_value(d))`, `C04_value`) succeeds. -/
theorem C04_text_names_needed :
    (WellFormed spaceTy ∧ HasTy spaceTy (.seq [.int 1]) ∧ depthOf spaceTy (.seq [.int 1]) ≤ 127 ∧
      ¬ PlainNames spaceTy ∧
      toText ryuEx spaceTy (.seq [.int 1]) = some (asc "((my field . 1))") ∧
      fromText exCfgFast .slice spaceTy (asc "((my field . 1))") = some .dataErr) ∧
    (WellFormed weierTy ∧ HasTy weierTy (.seq [.int 1]) ∧ depthOf weierTy (.seq [.int 1]) ≤ 127 ∧
      ¬ PlainNames weierTy ∧ ¬ NamesOK (PlainNameFor exCfgFast) weierTy ∧
      toText ryuEx weierTy (.seq [.int 1]) = some ([40, 40, 0xE2, 0x84, 0x98] ++ asc " . 1))") ∧
      (fromText exCfgFast .slice weierTy ([40, 40, 0xE2, 0x84, 0x98] ++ asc " . 1))")).isNone
        = true) ∧
    (WellFormed digitTy ∧ HasTy digitTy (.seq [.int 1]) ∧ depthOf digitTy (.seq [.int 1]) ≤ 127 ∧
      ¬ PlainNames digitTy ∧
      toText ryuEx digitTy (.seq [.int 1]) = some (asc "((1st . 1))") ∧
      (fromText exCfgFast .slice digitTy (asc "((1st . 1))")).isNone = true) := by
  refine ⟨⟨?_, ?_, ?_, ?_, ?_, space_text⟩, ⟨?_, ?_, ?_, ?_, ?_, ?_, ?_⟩, ⟨?_, ?_, ?_, ?_, ?_, ?_⟩⟩
  · simp [spaceTy, WellFormed, WFFields, FieldList.names]
  · simp [spaceTy, HasTy, HasTyFields, IntTy.lo, IntTy.hi]
  · simp [spaceTy, depthOf, depthFields]
  · simp only [spaceTy, PlainNames, NamesOK, NamesOKFields, and_true]; decide
  · decide +kernel
  · simp [weierTy, WellFormed, WFFields, FieldList.names]
  · simp [weierTy, HasTy, HasTyFields, IntTy.lo, IntTy.hi]
  · simp [weierTy, depthOf, depthFields]
  · simp only [weierTy, PlainNames, NamesOK, NamesOKFields, and_true]; decide
  · simp only [weierTy, NamesOK, NamesOKFields, and_true]; decide
  · decide +kernel
  · decide +kernel
  · simp [digitTy, WellFormed, WFFields, FieldList.names]
  · simp [digitTy, HasTy, HasTyFields, IntTy.lo, IntTy.hi]
  · simp [digitTy, depthOf, depthFields]
  · simp only [digitTy, PlainNames, NamesOK, NamesOKFields, and_true]; decide
  · decide +kernel
  · decide +kernel

/-- the text of the struct of section 6 -/
example : toText ryuEx txTy txData = some ([40] ++ asc "(opt 1.5) (e items #(-128 \"a b\") #(127 \"" ++
    [0xC3, 0xA9] ++ asc "\")) (m (\"k\" . 18446744073709551615)) (raw . #u8(0 255)) (u))") := by
  decide +kernel

/-- `struct Umlaut { größe: u8 }`: a Unicode-alphabetic initial is fine (`C04_text_unicode`);
    `exCfgLam` knows only U+03BB as alphabetic, so the example uses `λx` -/
example (m : Mode) :
    let t : Ty := .struct (.cons [0xCE, 0xBB, 120] (.option (.int .u8)) .nil)
    let d : Data := .seq [.some (.int 255)]
    ∃ v s', ser t d = some v ∧
      fromTrait exCfgLam (initSt m (Print.text Print.Options.default ryuEx v)) = .ok v s' ∧
      s'.rd.rest = [] ∧ s'.depth = 128 ∧ de t v = .ok d := by
  intro t d
  refine C04_text_unicode exCfgLam rfl ryuEx t d ?_ ?_ ?_ ?_ ?_ m
  · simp [t, WellFormed, WFFields, FieldList.names]
  · simp only [t, NamesOK, NamesOKFields, and_true]; decide
  · simp [t, d, HasTy, HasTyFields, IntTy.lo, IntTy.hi]
  · simp [t, d, LeavesOK, LeavesOKFields]
  · simp [t, d, depthOf, depthFields]

/-! ## 8. Floats outside the exactness window (default build)

`C04_text` asks for `FloatOK`.  In the build with `fast-float-parsing` a float whose shortest
decimal form lies outside the window (more than 15 digits or `|exponent| > 22`) may come back as a
neighbouring double — the property allows this ("to the accuracy of C05"), and `Decimals.lean` has
no `readBack` function with which the identity could be stated modulo that reading; so the theorem
is restricted to `FloatOK` and the following witness shows the restriction is not vacuous. -/

/-- the float a successful parse returned -/
def fltOf : Res Value → Option Nat
  | .ok (.number (.flt b)) _ => some b
  | _ => none

theorem em23_parse :
    fltOf (fromTrait exCfgFast (initSt .slice (asc "1e-23"))) = some 0x3B282DB34012B252 := by
  decide +kernel

/-- **C04_text_float_window_needed.**  `f64` datum `1e-23` (bits `0x3B282DB34012B251`), default
    build: any ryu meeting `RyuSpec` prints `1e-23`, and `from_str::<f64>("1e-23")` is the next
    double up (`…252`): the text path is not the identity on this datum (the value path is). -/
theorem C04_text_float_window_needed (ryu : Nat → List UInt8)
    (hspec : RyuSpec ryu 0x3B282DB34012B251 ⟨false, 1, -23, .sci1⟩) :
    HasTy .f64 (.float 0x3B282DB34012B251) ∧
    toText ryu .f64 (.float 0x3B282DB34012B251) = some (asc "1e-23") ∧
    fromText exCfgFast .slice .f64 (asc "1e-23") = some (.ok (.float 0x3B282DB34012B252)) ∧
    de .f64 (.number (.flt 0x3B282DB34012B251)) = .ok (.float 0x3B282DB34012B251) := by
  have htext : ryu 0x3B282DB34012B251 = asc "1e-23" := by rw [hspec.text_eq]; decide
  refine ⟨by simp [HasTy], ?_, ?_, by simp [de, deNumber]⟩
  · simp [toText, ser, Print.text, Print.emits, Print.atomEmits, Print.numberText, Print.flatten,
      Print.Emit.bytes, htext]
  · have h := em23_parse
    unfold fromText
    cases hr : fromTrait exCfgFast (initSt .slice (asc "1e-23")) with
    | ok v s =>
      rw [hr] at h
      unfold fltOf at h
      split at h
      · rename_i b s' heq
        cases heq
        have hb : b = 0x3B282DB34012B252 := by simpa using h
        subst hb
        simp [de, deNumber]
      · exact absurd h (by simp)
    | err e s => rw [hr] at h; simp [fltOf] at h
    | panic p => rw [hr] at h; simp [fltOf] at h
    | fuel => rw [hr] at h; simp [fltOf] at h

#print axioms C04_ser_leaves
#print axioms C04_ser_supported
#print axioms C04_text
#print axioms C04_text_identity
#print axioms C04_text_unicode
#print axioms C04_text_depth_needed
#print axioms C04_text_names_needed
#print axioms C04_text_float_window_needed

end Serde
end Lexpr
