/-
  C17, continued — the `&str` source end to end.

  For the `&str` source nothing is validated, so the parser must never stop in the middle of a
  multi-byte sequence.  `SV s` ("the unread input is well-formed, if the source is a `&str`") is
  shown to be preserved by every token and by `next_value`, and every text payload of the value
  read is well-formed.
-/
import LexprModel.Proofs.Utf8Valid
import LexprModel.Parse
namespace Lexpr
open Utf8 Utf8.U8
namespace Parse.U8

/-! ### the unread input only shrinks -/

/-- `s'` is reached from `s` by consuming input: same source, and the unread input of `s'` is a
    suffix of that of `s`. -/
def Suf (s s' : St) : Prop := s'.rd.mode = s.rd.mode ∧ ∃ pre, s.rd.rest = pre ++ s'.rd.rest

theorem Suf.refl (s : St) : Suf s s := ⟨rfl, [], rfl⟩
theorem Suf.trans {a b c : St} (h1 : Suf a b) (h2 : Suf b c) : Suf a c := by
  obtain ⟨m1, p1, r1⟩ := h1
  obtain ⟨m2, p2, r2⟩ := h2
  exact ⟨m2.trans m1, p1 ++ p2, by rw [r1, r2, List.append_assoc]⟩

/-- every successful run of `m` only consumes input -/
structure SufP {α : Type} (m : P α) : Prop where
  ok : ∀ s a s', m s = .ok a s' → Suf s s'

theorem SufP.pure {α : Type} (a : α) : SufP (pure a : P α) := by
  constructor; intro s b s' h; obtain ⟨_, rfl⟩ := pure_ok h; exact Suf.refl _
theorem SufP.bind {α β : Type} {m : P α} {f : α → P β} (hm : SufP m) (hf : ∀ a, SufP (f a)) :
    SufP (m >>= f) := by
  constructor
  intro s b s' h
  obtain ⟨a, s1, h1, h2⟩ := bind_ok h
  exact (hm.ok _ _ _ h1).trans ((hf a).ok _ _ _ h2)
theorem SufP.ite {α : Type} {c : Prop} [Decidable c] {f g : P α} (hf : SufP f) (hg : SufP g) :
    SufP (if c then f else g) := by
  split <;> assumption
theorem SufP.errAt {α : Type} (c : Code) : SufP (errAt c : P α) := by constructor; intro s a s' h; cases h
theorem SufP.peekErr {α : Type} (c : Code) : SufP (peekErr c : P α) := by constructor; intro s a s' h; cases h
theorem SufP.panicAt {α : Type} (p : Site) : SufP (panicAt p : P α) := by constructor; intro s a s' h; cases h
theorem SufP.outOfFuel {α : Type} : SufP (outOfFuel : P α) := by constructor; intro s a s' h; cases h
theorem SufP.peek : SufP peek := by
  constructor; intro s a s' h; obtain ⟨h1, h2, _⟩ := peek_ok h; exact ⟨h1, [], by rw [h2]; rfl⟩
theorem SufP.next : SufP next := by
  constructor
  intro s a s' h
  obtain ⟨h1, h2⟩ := next_ok h
  rcases h2 with ⟨_, h2⟩ | ⟨b, _, h2⟩
  · exact ⟨h1, [], by rw [h2]; rfl⟩
  · exact ⟨h1, [b], h2⟩
theorem SufP.discard : SufP discard := by
  constructor; intro s a s' h; obtain ⟨h1, b, h2⟩ := discard_ok h; exact ⟨h1, [b], h2⟩

theorem consume_suffix (n : Nat) : ∀ rd : Rd, (rd.consume n).mode = rd.mode ∧
    (rd.consume n).rest = rd.rest.drop n := by
  induction n with
  | zero => intro rd; simp [Rd.consume]
  | succ n ih =>
    intro rd
    simp only [Rd.consume]
    cases hr : rd.rest with
    | nil => simp
    | cons b bs =>
      simp only []
      cases advance rd.line rd.col b with
      | mk l c =>
        obtain ⟨h1, h2⟩ := ih { rd with rest := bs, line := l, col := c, peeked := false }
        simp only [h1, h2, List.drop_succ_cons, and_self]

theorem consumeN_ok {n : Nat} {s s' : St} {u : Unit} (h : consumeN n s = .ok u s') :
    s'.rd.mode = s.rd.mode ∧ s'.rd.rest = s.rd.rest.drop n := by
  simp only [consumeN, Res.ok.injEq] at h
  obtain ⟨_, rfl⟩ := h
  exact consume_suffix n s.rd

theorem SufP.consumeN (n : Nat) : SufP (consumeN n) := by
  constructor
  intro s a s' h
  obtain ⟨h1, h2⟩ := consumeN_ok h
  exact ⟨h1, s.rd.rest.take n, by rw [h2, List.take_append_drop]⟩
theorem SufP.getRest : SufP getRest := by
  constructor; intro s a s' h; change Res.ok _ _ = Res.ok _ _ at h; cases h; exact Suf.refl _
theorem SufP.getMode : SufP getMode := by
  constructor; intro s a s' h; change Res.ok _ _ = Res.ok _ _ at h; cases h; exact Suf.refl _
theorem SufP.getPos : SufP getPos := by
  constructor; intro s a s' h; change Res.ok _ _ = Res.ok _ _ at h; cases h; exact Suf.refl _

/-- goal-directed proof that a `do` block only consumes input; the arguments are the lemmas
    for the functions it calls -/
syntax "sufp" (" [" term,* "]")? : tactic
macro_rules
  | `(tactic| sufp) => `(tactic| sufp [])
  | `(tactic| sufp [$ts,*]) => do
    let alts ← ts.getElems.mapM fun t => `(tactic| (apply $t))
    `(tactic| repeat' (first
      | assumption
      | exact SufP.pure _ | exact SufP.errAt _ | exact SufP.peekErr _ | exact SufP.panicAt _
      | exact SufP.outOfFuel | exact SufP.peek | exact SufP.next | exact SufP.discard
      | exact SufP.consumeN _ | exact SufP.getRest | exact SufP.getMode | exact SufP.getPos
      $[| $alts:tactic]*
      | apply SufP.bind | apply SufP.ite | intro _ | split))

theorem SufP.peekOrNull : SufP peekOrNull := by unfold Parse.peekOrNull; sufp
theorem SufP.nextOrNull : SufP nextOrNull := by unfold Parse.nextOrNull; sufp
theorem SufP.nextOrEof : SufP nextOrEof := by unfold Parse.nextOrEof; sufp
theorem SufP.nextOrEofChar : SufP nextOrEofChar := by unfold Parse.nextOrEofChar; sufp
theorem SufP.parseWhitespace : SufP parseWhitespace := by unfold Parse.parseWhitespace; sufp
theorem SufP.skipDigits : SufP skipDigits := by unfold Parse.skipDigits; sufp
theorem SufP.f64FromParts (cfg : Cfg) (pos : Bool) (sig : Nat) (e : Int) :
    SufP (f64FromParts cfg pos sig e) := by unfold Parse.f64FromParts; sufp
theorem SufP.parseExponentOverflow (pos : Bool) (sig : Nat) (posExp : Bool) :
    SufP (parseExponentOverflow pos sig posExp) := by
  unfold Parse.parseExponentOverflow; sufp [SufP.skipDigits]

theorem SufP.readCont (n : Nat) : ∀ acc, SufP (readCont n acc) := by
  induction n with
  | zero => intro acc; simp only [Parse.readCont]; sufp
  | succ n ih => intro acc; simp only [Parse.readCont]; sufp [ih]

theorem SufP.decodeUtf8Sequence (b : UInt8) : SufP (decodeUtf8Sequence b) := by
  simp only [Parse.decodeUtf8Sequence]; sufp [SufP.readCont]

theorem SufP.decodeR6rsHexEscape (f : Nat) : ∀ n, SufP (decodeR6rsHexEscape f n) := by
  induction f with
  | zero => intro n; simp only [Parse.decodeR6rsHexEscape]; sufp
  | succ f ih => intro n; simp only [Parse.decodeR6rsHexEscape]; sufp [ih, SufP.nextOrEof]

theorem SufP.parseR6rsEscape (f : Nat) (acc : List UInt8) : SufP (parseR6rsEscape f acc) := by
  simp only [Parse.parseR6rsEscape]; sufp [SufP.nextOrEof, SufP.decodeR6rsHexEscape]

theorem SufP.finishStr (c : Bool) (bs : List UInt8) : SufP (finishStr c bs) := by
  simp only [Parse.finishStr]; sufp

theorem SufP.parseR6rsStr (f : Nat) : ∀ acc, SufP (parseR6rsStr f acc) := by
  induction f with
  | zero => intro acc; simp only [Parse.parseR6rsStr]; sufp
  | succ f ih =>
    intro acc; simp only [Parse.parseR6rsStr]
    sufp [ih, SufP.nextOrEof, SufP.finishStr, SufP.parseR6rsEscape]

theorem SufP.decodeElispHexEscape (f : Nat) : ∀ n, SufP (decodeElispHexEscape f n) := by
  induction f with
  | zero => intro n; simp only [Parse.decodeElispHexEscape]; sufp
  | succ f ih => intro n; simp only [Parse.decodeElispHexEscape]; sufp [ih]

theorem SufP.decodeElispUniEscape (k : Nat) : ∀ n, SufP (decodeElispUniEscape k n) := by
  induction k with
  | zero => intro n; simp only [Parse.decodeElispUniEscape]; sufp
  | succ f ih => intro n; simp only [Parse.decodeElispUniEscape]; sufp [ih, SufP.nextOrEof]

theorem SufP.decodeElispOctalEscape (f : Nat) : ∀ n, SufP (decodeElispOctalEscape f n) := by
  induction f with
  | zero => intro n; simp only [Parse.decodeElispOctalEscape]; sufp
  | succ f ih => intro n; simp only [Parse.decodeElispOctalEscape]; sufp [ih]

theorem SufP.elispCharEscape (acc : List UInt8) (n : Nat) : SufP (elispCharEscape acc n) := by
  simp only [Parse.elispCharEscape]; sufp
theorem SufP.elispUniCharEscape (acc : List UInt8) (n : Nat) : SufP (elispUniCharEscape acc n) := by
  simp only [Parse.elispUniCharEscape]; sufp

theorem SufP.parseElispEscape (f : Nat) (acc : List UInt8) : SufP (parseElispEscape f acc) := by
  simp only [Parse.parseElispEscape]
  sufp [SufP.nextOrEof, SufP.decodeElispHexEscape, SufP.decodeElispUniEscape,
    SufP.decodeElispOctalEscape, SufP.elispCharEscape, SufP.elispUniCharEscape]

theorem SufP.parseElispStr (f : Nat) : ∀ acc ub mb na, SufP (parseElispStr f acc ub mb na) := by
  induction f with
  | zero => intro acc ub mb na; simp only [Parse.parseElispStr]; sufp
  | succ f ih =>
    intro acc ub mb na; simp only [Parse.parseElispStr]
    sufp [ih, SufP.nextOrEof, SufP.finishStr, SufP.parseElispEscape]

theorem SufP.decodeR6rsCharHexEscape (f : Nat) : ∀ n b, SufP (decodeR6rsCharHexEscape f n b) := by
  induction f with
  | zero => intro n b; simp only [Parse.decodeR6rsCharHexEscape]; sufp
  | succ f ih => intro n b; simp only [Parse.decodeR6rsCharHexEscape]; sufp [ih]

theorem SufP.parseR6rsChar (f : Nat) : SufP (parseR6rsChar f) := by
  simp only [Parse.parseR6rsChar]
  sufp [SufP.nextOrEofChar, SufP.decodeR6rsCharHexEscape, SufP.decodeUtf8Sequence]

theorem SufP.asChar (n : Nat) : SufP (asChar n) := by simp only [Parse.asChar]; sufp

theorem SufP.asEscapedChar (n : Nat) : SufP (asEscapedChar n) := by
  simp only [Parse.asEscapedChar]; sufp [SufP.asChar]

theorem SufP.decodeElispCharEscape (f : Nat) : SufP (decodeElispCharEscape f) := by
  simp only [Parse.decodeElispCharEscape]
  sufp [SufP.nextOrEofChar, SufP.nextOrEof, SufP.decodeElispHexEscape, SufP.decodeElispUniEscape,
    SufP.decodeElispOctalEscape, SufP.asChar, SufP.asEscapedChar, SufP.decodeUtf8Sequence]

theorem SufP.parseElispChar (f : Nat) : SufP (parseElispChar f) := by
  simp only [Parse.parseElispChar]; sufp [SufP.decodeUtf8Sequence, SufP.decodeElispCharEscape]

theorem SufP.exponentLoop (cfg : Cfg) (pos : Bool) (sig : Nat) (se : Int) (pe : Bool) (f : Nat) :
    ∀ e, SufP (exponentLoop cfg pos sig se pe f e) := by
  induction f with
  | zero => intro e; simp only [Parse.exponentLoop]; sufp
  | succ f ih =>
    intro e; simp only [Parse.exponentLoop]
    sufp [ih, SufP.peekOrNull, SufP.parseExponentOverflow, SufP.f64FromParts]

theorem SufP.parseExponent (cfg : Cfg) (f : Nat) (pos : Bool) (sig : Nat) (se : Int) :
    SufP (parseExponent cfg f pos sig se) := by
  simp only [Parse.parseExponent]; sufp [SufP.peekOrNull, SufP.exponentLoop]

theorem SufP.decimalLoop (f : Nat) : ∀ sig e z a, SufP (decimalLoop f sig e z a) := by
  induction f with
  | zero => intro sig e z a; simp only [Parse.decimalLoop]; sufp
  | succ f ih =>
    intro sig e z a; simp only [Parse.decimalLoop]; sufp [ih, SufP.peekOrNull, SufP.skipDigits]

theorem SufP.parseDecimal (cfg : Cfg) (f : Nat) (pos : Bool) (sig : Nat) (e : Int) :
    SufP (parseDecimal cfg f pos sig e) := by
  simp only [Parse.parseDecimal]
  sufp [SufP.peekOrNull, SufP.decimalLoop, SufP.parseExponent, SufP.f64FromParts]

set_option exponentiation.threshold 2000 in
theorem SufP.parseLongInteger (cfg : Cfg) (radix : Nat) (pos : Bool) (sig : Nat) (f : Nat) :
    ∀ e, SufP (parseLongInteger cfg radix pos sig f e) := by
  induction f with
  | zero => intro e; simp only [Parse.parseLongInteger]; sufp
  | succ f ih =>
    intro e; simp only [Parse.parseLongInteger]
    sufp [ih, SufP.peekOrNull, SufP.parseDecimal, SufP.parseExponent, SufP.f64FromParts]

theorem SufP.parseNumTail (cfg : Cfg) (f : Nat) (radix : Nat) (pos : Bool) (sig : Nat) :
    SufP (parseNumTail cfg f radix pos sig) := by
  simp only [Parse.parseNumTail]; sufp [SufP.peekOrNull, SufP.parseDecimal, SufP.parseExponent]

theorem SufP.numLoop (cfg : Cfg) (radix : Nat) (pos : Bool) (f : Nat) :
    ∀ r, SufP (numLoop cfg radix pos f r) := by
  induction f with
  | zero => intro r; simp only [Parse.numLoop]; sufp
  | succ f ih =>
    intro r; simp only [Parse.numLoop]
    sufp [ih, SufP.peekOrNull, SufP.parseNumTail, SufP.parseLongInteger]

theorem SufP.parseNumLiteral (cfg : Cfg) (f : Nat) (radix : Nat) (pos : Bool) :
    SufP (parseNumLiteral cfg f radix pos) := by
  simp only [Parse.parseNumLiteral]; sufp [SufP.numLoop]

theorem SufP.parseRadixLiteral (cfg : Cfg) (f : Nat) (radix : Nat) :
    SufP (parseRadixLiteral cfg f radix) := by
  simp only [Parse.parseRadixLiteral]; sufp [SufP.peekOrNull, SufP.parseNumLiteral]

theorem SufP.expectNumberEnd (n : Number) : SufP (expectNumberEnd n) := by
  simp only [Parse.expectNumberEnd]; sufp

theorem SufP.parseNumToken (cfg : Cfg) (f : Nat) (pos : Bool) : SufP (parseNumToken cfg f pos) := by
  simp only [Parse.parseNumToken]; sufp [SufP.parseNumLiteral, SufP.expectNumberEnd]

theorem SufP.parseRadixToken (cfg : Cfg) (f : Nat) (radix : Nat) :
    SufP (parseRadixToken cfg f radix) := by
  simp only [Parse.parseRadixToken]; sufp [SufP.parseRadixLiteral, SufP.expectNumberEnd]

theorem SufP.parseNumber (cfg : Cfg) (f : Nat) : SufP (parseNumber cfg f) := by
  simp only [Parse.parseNumber]; sufp [SufP.peekOrNull, SufP.nextOrNull, SufP.parseRadixLiteral]

theorem SufP.expectIdent : ∀ cs, SufP (expectIdent cs)
  | [] => by simp only [Parse.expectIdent]; sufp
  | c :: cs => by
    have ih := SufP.expectIdent cs
    simp only [Parse.expectIdent]; sufp

theorem SufP.parseSymbolBytes (scratch : List UInt8) : SufP (parseSymbolBytes scratch) := by
  simp only [Parse.parseSymbolBytes]; sufp

/-! ### where well-formedness of the unread input is re-established -/

/-- The unread input is empty or starts with an ASCII byte. -/
def Bnd (s : St) : Prop := s.rd.rest = [] ∨ ∃ b tl, s.rd.rest = b :: tl ∧ b < 0x80

theorem SV.of_suf_bnd {s s' : St} (h : SV s) (hsuf : Suf s s') (hb : Bnd s') : SV s' := by
  intro hm
  obtain ⟨hmode, pre, hr⟩ := hsuf
  have hv := h (hmode ▸ hm)
  rcases hb with h0 | ⟨b, tl, hr', hb⟩
  · rw [h0]; exact valid_nil
  · rw [hr, hr'] at hv
    rw [hr']
    exact (valid_split_ascii hv hb).2

/-- everything consumed up to and including an ASCII byte -/
theorem SV.of_last_ascii {s s' : St} {pre : List UInt8} {b : UInt8} (h : SV s)
    (hm : s'.rd.mode = s.rd.mode) (hr : s.rd.rest = pre ++ b :: s'.rd.rest) (hb : b < 0x80) :
    SV s' := by
  intro hm'
  have hv := h (hm ▸ hm')
  rw [hr] at hv
  have := (valid_split_ascii hv hb).2
  rw [valid_cons_ascii _ hb] at this
  exact this

theorem isDelimiter_ascii {b : UInt8} (h : isDelimiter b = true) : b < 0x80 := by
  simp [isDelimiter, or_assoc] at h
  rcases h with rfl | rfl | rfl | rfl | rfl | rfl | rfl | rfl | rfl | rfl | rfl | rfl <;> decide

theorem isCharDelimiter_ascii {b : UInt8} (h : isCharDelimiter b = true) : b < 0x80 := by
  simp [isCharDelimiter, or_assoc] at h
  rcases h with rfl | rfl | rfl | rfl | rfl | rfl | rfl | rfl | rfl | rfl | rfl | rfl <;> decide

theorem Bnd.of_head {s : St} (h : ∀ b, s.rd.rest.head? = some b → b < 0x80) : Bnd s := by
  cases hr : s.rd.rest with
  | nil => exact Or.inl hr
  | cons b tl => exact Or.inr ⟨b, tl, hr, h b (by rw [hr]; rfl)⟩

theorem expectNumberEnd_ok {n m : Number} {s s' : St} (h : expectNumberEnd n s = .ok m s') :
    m = n ∧ Bnd s' := by
  unfold expectNumberEnd at h
  obtain ⟨a, s1, hp, h⟩ := bind_ok h
  obtain ⟨_, hr, ha⟩ := peek_ok hp
  cases a with
  | none =>
    obtain ⟨rfl, rfl⟩ := pure_ok h
    refine ⟨rfl, Bnd.of_head ?_⟩
    intro b hb; rw [hr, ← ha] at hb; cases hb
  | some c =>
    rcases ite_ok h with ⟨_, h⟩ | ⟨hc, h⟩
    · simp [peekErr] at h
    · obtain ⟨rfl, rfl⟩ := pure_ok h
      refine ⟨rfl, Bnd.of_head ?_⟩
      intro b hb
      rw [hr, ← ha] at hb
      cases hb
      simp only [Bool.not_eq_eq_eq_not, Bool.not_true, Bool.not_eq_false] at hc
      exact isDelimiter_ascii hc

theorem parseNumToken_pres {cfg : Cfg} {f : Nat} {pos : Bool} {n : Number} {s s' : St}
    (h : parseNumToken cfg f pos s = .ok n s') (hs : SV s) : SV s' := by
  have hsuf := (SufP.parseNumToken cfg f pos).ok _ _ _ h
  unfold parseNumToken at h
  obtain ⟨_, s1, _, h⟩ := bind_ok h
  exact hs.of_suf_bnd hsuf (expectNumberEnd_ok h).2

theorem parseRadixToken_pres {cfg : Cfg} {f radix : Nat} {n : Number} {s s' : St}
    (h : parseRadixToken cfg f radix s = .ok n s') (hs : SV s) : SV s' := by
  have hsuf := (SufP.parseRadixToken cfg f radix).ok _ _ _ h
  unfold parseRadixToken at h
  obtain ⟨_, s1, _, h⟩ := bind_ok h
  exact hs.of_suf_bnd hsuf (expectNumberEnd_ok h).2

theorem getRest_ok {s s' : St} {a : List UInt8} (h : getRest s = .ok a s') : a = s.rd.rest ∧ s' = s := by
  change Res.ok _ _ = Res.ok _ _ at h; cases h; exact ⟨rfl, rfl⟩
theorem getMode_ok {s s' : St} {a : Mode} (h : getMode s = .ok a s') : a = s.rd.mode ∧ s' = s := by
  change Res.ok _ _ = Res.ok _ _ at h; cases h; exact ⟨rfl, rfl⟩

theorem parseSymbolBytes_bnd {scratch : List UInt8} {s s' : St} {name : List UInt8}
    (h : parseSymbolBytes scratch s = .ok name s') : Bnd s' := by
  unfold parseSymbolBytes at h
  obtain ⟨rest, s1, h1, h⟩ := bind_ok h
  obtain ⟨rfl, rfl⟩ := getRest_ok h1
  obtain ⟨mode, s2, h2, h⟩ := bind_ok h
  obtain ⟨rfl, rfl⟩ := getMode_ok h2
  simp only [] at h
  obtain ⟨_, s3, h3, h⟩ := bind_ok h
  obtain ⟨_, hr3⟩ := consumeN_ok h3
  obtain ⟨nxt, s4, h4, h⟩ := bind_ok h
  obtain ⟨_, hr4, _⟩ := peek_ok h4
  have hb : Bnd s4 := by
    apply Bnd.of_head
    intro b hb
    rw [hr4, hr3] at hb
    cases hd : List.drop (symLen s2.rd.mode s2.rd.rest) s2.rd.rest with
    | nil => rw [hd] at hb; cases hb
    | cons x xs =>
      rw [hd] at hb; cases hb
      exact symTerm_ascii (symLen_drop _ _ hd)
  have hs' : s' = s4 := by
    rcases ite_ok h with ⟨_, h⟩ | ⟨_, h⟩
    · simp [errAt] at h
    rcases ite_ok h with ⟨_, h⟩ | ⟨_, h⟩
    · exact (pure_ok h).2.symm
    rcases ite_ok h with ⟨_, h⟩ | ⟨_, h⟩
    · exact (pure_ok h).2.symm
    rcases ite_ok h with ⟨_, h⟩ | ⟨_, h⟩ <;> simp [errAt] at h
  rw [hs']; exact hb

theorem parseSymbolBytes_pres {scratch : List UInt8} {s s' : St} {name : List UInt8}
    (h : parseSymbolBytes scratch s = .ok name s') (hs : SV s) : SV s' :=
  hs.of_suf_bnd ((SufP.parseSymbolBytes scratch).ok _ _ _ h) (parseSymbolBytes_bnd h)

/-- `s'` is reached from `s` by consuming input that ends with the closing quote. -/
def LastQ (s s' : St) : Prop := s'.rd.mode = s.rd.mode ∧ ∃ pre, s.rd.rest = pre ++ 34 :: s'.rd.rest

theorem LastQ.after {a b c : St} (h1 : Suf a b) (h2 : LastQ b c) : LastQ a c := by
  obtain ⟨m1, p1, r1⟩ := h1
  obtain ⟨m2, p2, r2⟩ := h2
  exact ⟨m2.trans m1, p1 ++ p2, by rw [r1, r2, List.append_assoc]⟩

theorem SV.of_lastQ {s s' : St} (h : SV s) (hq : LastQ s s') : SV s' := by
  obtain ⟨hm, pre, hr⟩ := hq
  exact h.of_last_ascii hm hr (by decide)

theorem finishStr_state {c : Bool} {bs out : List UInt8} {s s' : St}
    (h : finishStr c bs s = .ok out s') : s' = s := by
  unfold finishStr at h
  obtain ⟨mode, s1, h1, h⟩ := bind_ok h
  obtain ⟨_, rfl⟩ := getMode_ok h1
  rcases ite_ok h with ⟨_, h⟩ | ⟨_, h⟩
  · exact (pure_ok h).2.symm
  rcases ite_ok h with ⟨_, h⟩ | ⟨_, h⟩
  · exact (pure_ok h).2.symm
  · simp [errAt] at h

theorem nextOrEof_suf1 {s s' : St} {c : UInt8} (h : nextOrEof s = .ok c s') : Suf s s' := by
  obtain ⟨hm, hr⟩ := nextOrEof_ok h
  exact ⟨hm, [c], hr⟩

theorem parseR6rsStr_lastQ (f : Nat) : ∀ {acc : List UInt8} {s s' : St} {out : List UInt8},
    parseR6rsStr f acc s = .ok out s' → LastQ s s' := by
  induction f with
  | zero => intro acc s s' out h; simp [parseR6rsStr, outOfFuel] at h
  | succ f ih =>
    intro acc s s' out h
    simp only [parseR6rsStr] at h
    obtain ⟨c, s1, hn, h⟩ := bind_ok h
    obtain ⟨hm, hr⟩ := nextOrEof_ok hn
    rcases ite_ok h with ⟨h34, h⟩ | ⟨_, h⟩
    · rw [finishStr_state h]
      exact ⟨hm, [], by rw [hr, eq_of_beq h34]; rfl⟩
    rcases ite_ok h with ⟨_, h⟩ | ⟨_, h⟩
    · obtain ⟨acc', s2, he, h⟩ := bind_ok h
      exact LastQ.after ((nextOrEof_suf1 hn).trans ((SufP.parseR6rsEscape _ _).ok _ _ _ he)) (ih h)
    · exact LastQ.after (nextOrEof_suf1 hn) (ih h)

theorem parseElispStr_lastQ (f : Nat) : ∀ {acc : List UInt8} {ub mb na : Bool} {s s' : St}
    {out : ElispStr}, parseElispStr f acc ub mb na s = .ok out s' → LastQ s s' := by
  induction f with
  | zero => intro acc ub mb na s s' out h; simp [parseElispStr, outOfFuel] at h
  | succ f ih =>
    intro acc ub mb na s s' out h
    simp only [parseElispStr] at h
    obtain ⟨c, s1, hn, h⟩ := bind_ok h
    obtain ⟨hm, hr⟩ := nextOrEof_ok hn
    rcases ite_ok h with ⟨h34, h⟩ | ⟨_, h⟩
    · have hs' : s' = s1 := by
        rcases ite_ok h with ⟨_, h⟩ | ⟨_, h⟩
        · exact (pure_ok h).2.symm
        · obtain ⟨o, s2, hf, h⟩ := bind_ok h
          rw [← (pure_ok h).2, finishStr_state hf]
      rw [hs']
      exact ⟨hm, [], by rw [hr, eq_of_beq h34]; rfl⟩
    rcases ite_ok h with ⟨_, h⟩ | ⟨_, h⟩
    · obtain ⟨⟨acc', k⟩, s2, he, h⟩ := bind_ok h
      refine LastQ.after ((nextOrEof_suf1 hn).trans ((SufP.parseElispEscape _ _).ok _ _ _ he)) ?_
      cases k <;> exact ih h
    · exact LastQ.after (nextOrEof_suf1 hn) (ih h)

/-- consumed only ASCII bytes -/
def ASuf (s s' : St) : Prop :=
  s'.rd.mode = s.rd.mode ∧ ∃ pre, Ascii pre ∧ s.rd.rest = pre ++ s'.rd.rest

theorem ASuf.refl (s : St) : ASuf s s := ⟨rfl, [], Ascii.nil, rfl⟩
theorem ASuf.trans {a b c : St} (h1 : ASuf a b) (h2 : ASuf b c) : ASuf a c := by
  obtain ⟨m1, p1, a1, r1⟩ := h1
  obtain ⟨m2, p2, a2, r2⟩ := h2
  exact ⟨m2.trans m1, p1 ++ p2, a1.append a2, by rw [r1, r2, List.append_assoc]⟩
theorem ASuf.one {s s' : St} {b : UInt8} (hm : s'.rd.mode = s.rd.mode)
    (hr : s.rd.rest = b :: s'.rd.rest) (hb : b < 0x80) : ASuf s s' :=
  ⟨hm, [b], Ascii.cons hb Ascii.nil, hr⟩
theorem ASuf.same {s s' : St} (hm : s'.rd.mode = s.rd.mode) (hr : s'.rd.rest = s.rd.rest) :
    ASuf s s' := ⟨hm, [], Ascii.nil, by rw [hr]; rfl⟩

theorem SV.of_asuf {s s' : St} (h : SV s) (ha : ASuf s s') : SV s' := by
  obtain ⟨hm, pre, hp, hr⟩ := ha
  intro hm'
  have := h (hm ▸ hm')
  rw [hr, valid_ascii_append _ hp] at this
  exact this

theorem expectIdent_asuf : ∀ (cs : List UInt8) {s s' : St} {u : Unit},
    expectIdent cs s = .ok u s' → Ascii cs → ASuf s s'
  | [], s, s', u, h, _ => by
    simp only [expectIdent] at h
    rw [(pure_ok h).2]; exact ASuf.refl _
  | c :: cs, s, s', u, h, hc => by
    simp only [expectIdent] at h
    obtain ⟨a, s1, hn, h⟩ := bind_ok h
    obtain ⟨hm, hr⟩ := next_ok hn
    cases a with
    | none => simp [errAt] at h
    | some b =>
      rcases hr with ⟨h0, _⟩ | ⟨b', hb', hr⟩
      · cases h0
      cases hb'
      rcases ite_ok h with ⟨hbc, h⟩ | ⟨_, h⟩
      · have : b = c := eq_of_beq hbc
        exact (ASuf.one hm hr (this ▸ hc.head)).trans (expectIdent_asuf cs h hc.tail)
      · simp [errAt] at h

theorem nextOrEofChar_ok {s s' : St} {c : UInt8} (h : nextOrEofChar s = .ok c s') :
    s'.rd.mode = s.rd.mode ∧ s.rd.rest = c :: s'.rd.rest := by
  unfold nextOrEofChar at h
  obtain ⟨a, s1, hn, h⟩ := bind_ok h
  obtain ⟨hm, hr⟩ := next_ok hn
  cases a with
  | none => simp [errAt] at h
  | some b =>
    obtain ⟨rfl, rfl⟩ := pure_ok h
    rcases hr with ⟨h0, _⟩ | ⟨b', hb, hr⟩
    · cases h0
    · cases hb; exact ⟨hm, hr⟩

theorem decodeR6rsCharHexEscape_bnd (f : Nat) : ∀ {n : Nat} {first : Bool} {s s' : St}
    {r : Option Nat}, decodeR6rsCharHexEscape f n first s = .ok r s' → Bnd s' := by
  induction f with
  | zero => intro n first s s' r h; simp [decodeR6rsCharHexEscape, outOfFuel] at h
  | succ f ih =>
    intro n first s s' r h
    simp only [decodeR6rsCharHexEscape] at h
    obtain ⟨a, s1, hp, h⟩ := bind_ok h
    obtain ⟨_, hr, ha⟩ := peek_ok hp
    cases a with
    | none =>
      rw [← (pure_ok h).2]
      apply Bnd.of_head; intro b hb; rw [hr, ← ha] at hb; cases hb
    | some c =>
      rcases ite_ok h with ⟨hd, h⟩ | ⟨_, h⟩
      · rw [← (pure_ok h).2]
        apply Bnd.of_head; intro b hb; rw [hr, ← ha] at hb; cases hb
        exact isCharDelimiter_ascii hd
      · obtain ⟨_, s2, _, h⟩ := bind_ok h
        cases hv : hexVal c with
        | none => rw [hv] at h; simp [errAt] at h
        | some v =>
          rw [hv] at h
          rcases ite_ok h with ⟨_, h⟩ | ⟨_, h⟩
          · simp [errAt] at h
          · exact ih h

theorem charNameLen_drop : ∀ (rest : List UInt8) {b : UInt8} {c : List UInt8},
    rest.drop (charNameLen rest) = b :: c → isCharDelimiter b = true
  | [], _, _, h => by simp [charNameLen] at h
  | x :: xs, b, c, h => by
    simp only [charNameLen] at h
    split at h
    · rename_i hx
      simp only [List.drop_zero, List.cons.injEq] at h
      rw [← h.1]; exact hx
    · simp only [List.drop_succ_cons] at h
      exact charNameLen_drop xs h

theorem parseR6rsChar_pres {f : Nat} {s s' : St} {c : Nat}
    (h : parseR6rsChar f s = .ok c s') (hs : SV s) : SV s' := by
  have hsuf := (SufP.parseR6rsChar f).ok _ _ _ h
  unfold parseR6rsChar at h
  obtain ⟨initial, s1, hn, h⟩ := bind_ok h
  obtain ⟨hm1, hr1⟩ := nextOrEofChar_ok hn
  rcases ite_ok h with ⟨_, h⟩ | ⟨_, h⟩
  · obtain ⟨r, s2, hd, h⟩ := bind_ok h
    have hb2 := decodeR6rsCharHexEscape_bnd _ hd
    have hs' : s' = s2 := by
      cases r with
      | none => exact (pure_ok h).2.symm
      | some n =>
        rcases ite_ok h with ⟨_, h⟩ | ⟨_, h⟩
        · exact (pure_ok h).2.symm
        rcases ite_ok h with ⟨_, h⟩ | ⟨_, h⟩
        · obtain ⟨a, s3, _, h⟩ := bind_ok h
          cases a <;> simp [errAt] at h
        · simp [errAt] at h
    subst hs'
    exact hs.of_suf_bnd hsuf hb2
  rcases ite_ok h with ⟨_, h⟩ | ⟨_, h⟩
  · obtain ⟨⟨c', bytes⟩, s2, hseq, h⟩ := bind_ok h
    obtain ⟨_, rfl⟩ := pure_ok h
    intro hm
    have hv := hs (hsuf.1 ▸ hm)
    rw [hr1] at hv
    exact decodeUtf8Sequence_rest_valid hseq hv
  · obtain ⟨a, s2, hp, h⟩ := bind_ok h
    obtain ⟨_, hr2, ha⟩ := peek_ok hp
    cases a with
    | none =>
      obtain ⟨_, rfl⟩ := pure_ok h
      refine hs.of_suf_bnd hsuf (Bnd.of_head ?_)
      intro b hb; rw [hr2, ← ha] at hb; cases hb
    | some nxt =>
      rcases ite_ok h with ⟨hd, h⟩ | ⟨_, h⟩
      · obtain ⟨_, rfl⟩ := pure_ok h
        refine hs.of_suf_bnd hsuf (Bnd.of_head ?_)
        intro b hb; rw [hr2, ← ha] at hb; cases hb
        exact isCharDelimiter_ascii hd
      · obtain ⟨rest, s3, h3, h⟩ := bind_ok h
        obtain ⟨rfl, rfl⟩ := getRest_ok h3
        simp only [] at h
        obtain ⟨_, s4, h4, h⟩ := bind_ok h
        obtain ⟨_, hr4⟩ := consumeN_ok h4
        obtain ⟨nxt', s5, h5, h⟩ := bind_ok h
        obtain ⟨_, hr5, _⟩ := peek_ok h5
        have hb5 : Bnd s5 := by
          apply Bnd.of_head
          intro b hb
          rw [hr5, hr4] at hb
          cases hd : List.drop (charNameLen s3.rd.rest) s3.rd.rest with
          | nil => rw [hd] at hb; cases hb
          | cons x xs =>
            rw [hd] at hb; cases hb
            exact isCharDelimiter_ascii (charNameLen_drop _ hd)
        generalize charName _ = cn at h
        cases cn with
        | some c'' =>
          obtain ⟨_, rfl⟩ := pure_ok h
          exact hs.of_suf_bnd hsuf hb5
        | none =>
          rcases ite_ok h with ⟨_, h⟩ | ⟨_, h⟩ <;> simp [errAt] at h

theorem octVal_nonascii_all : ∀ n < 256, 128 ≤ n → octVal (UInt8.ofNat n) = none := by
  decide +kernel

theorem octVal_ascii {b : UInt8} {v : Nat} (h : octVal b = some v) : b < 0x80 := by
  by_cases hb : b < 0x80
  · exact hb
  · have := octVal_nonascii_all b.toNat (UInt8.toNat_lt b)
      (by rw [UInt8.lt_iff_toNat_lt] at hb; simpa using hb)
    rw [UInt8.ofNat_toNat, h] at this
    cases this

theorem lower_nonascii_all : ∀ n < 256, 128 ≤ n → isAsciiLower (toAsciiLower (UInt8.ofNat n)) = false := by
  decide +kernel

theorem lower_ascii {b : UInt8} (h : isAsciiLower (toAsciiLower b) = true) : b < 0x80 := by
  by_cases hb : b < 0x80
  · exact hb
  · have := lower_nonascii_all b.toNat (UInt8.toNat_lt b)
      (by rw [UInt8.lt_iff_toNat_lt] at hb; simpa using hb)
    rw [UInt8.ofNat_toNat, h] at this
    cases this

/-- `peek` then `discard` consumes the byte that was peeked -/
theorem peek_discard {s s1 s2 : St} {c : UInt8} {u : Unit} (hp : peek s = .ok (some c) s1)
    (hd : discard s1 = .ok u s2) (hc : c < 0x80) : ASuf s s2 := by
  obtain ⟨hm1, hr1, ha⟩ := peek_ok hp
  obtain ⟨hm2, b, hr2⟩ := discard_ok hd
  rw [hr1] at hr2
  rw [hr2] at ha
  cases ha
  exact ASuf.one (hm2.trans hm1) hr2 hc

theorem peek_same {s s1 : St} {a : Option UInt8} (hp : peek s = .ok a s1) : ASuf s s1 := by
  obtain ⟨hm1, hr1, _⟩ := peek_ok hp
  exact ASuf.same hm1 hr1

theorem decodeElispHexEscape_asuf (f : Nat) : ∀ {n : Nat} {s s' : St} {r : Nat},
    decodeElispHexEscape f n s = .ok r s' → ASuf s s' := by
  induction f with
  | zero => intro n s s' r h; simp [decodeElispHexEscape, outOfFuel] at h
  | succ f ih =>
    intro n s s' r h
    simp only [decodeElispHexEscape] at h
    obtain ⟨a, s1, hp, h⟩ := bind_ok h
    cases a with
    | none => rw [← (pure_ok h).2]; exact peek_same hp
    | some c =>
      dsimp only at h
      cases hv : hexVal c with
      | none => rw [hv] at h; rw [← (pure_ok h).2]; exact peek_same hp
      | some v =>
        rw [hv] at h
        obtain ⟨_, s2, hd, h⟩ := bind_ok h
        rcases ite_ok h with ⟨_, h⟩ | ⟨_, h⟩
        · simp [errAt] at h
        · exact (peek_discard hp hd (hexVal_ascii hv)).trans (ih h)

theorem decodeElispOctalEscape_asuf (f : Nat) : ∀ {n : Nat} {s s' : St} {r : Nat},
    decodeElispOctalEscape f n s = .ok r s' → ASuf s s' := by
  induction f with
  | zero => intro n s s' r h; simp [decodeElispOctalEscape, outOfFuel] at h
  | succ f ih =>
    intro n s s' r h
    simp only [decodeElispOctalEscape] at h
    obtain ⟨a, s1, hp, h⟩ := bind_ok h
    cases a with
    | none => rw [← (pure_ok h).2]; exact peek_same hp
    | some c =>
      dsimp only at h
      cases hv : octVal c with
      | none => rw [hv] at h; rw [← (pure_ok h).2]; exact peek_same hp
      | some v =>
        rw [hv] at h
        obtain ⟨_, s2, hd, h⟩ := bind_ok h
        rcases ite_ok h with ⟨_, h⟩ | ⟨_, h⟩
        · simp [errAt] at h
        · exact (peek_discard hp hd (octVal_ascii hv)).trans (ih h)

theorem decodeElispUniEscape_asuf (k : Nat) : ∀ {n : Nat} {s s' : St} {r : Nat},
    decodeElispUniEscape k n s = .ok r s' → ASuf s s' := by
  induction k with
  | zero =>
    intro n s s' r h
    simp only [decodeElispUniEscape] at h
    rw [← (pure_ok h).2]; exact ASuf.refl _
  | succ k ih =>
    intro n s s' r h
    simp only [decodeElispUniEscape] at h
    obtain ⟨c, s1, hn, h⟩ := bind_ok h
    obtain ⟨hm, hr⟩ := nextOrEof_ok hn
    cases hv : hexVal c with
    | none => rw [hv] at h; simp [errAt] at h
    | some v =>
      rw [hv] at h
      rcases ite_ok h with ⟨_, h⟩ | ⟨_, h⟩
      · simp [errAt] at h
      · exact (ASuf.one hm hr (hexVal_ascii hv)).trans (ih h)

theorem asChar_ok {n c : Nat} {s s' : St} (h : asChar n s = .ok c s') : s' = s := by
  unfold asChar at h
  rcases ite_ok h with ⟨_, h⟩ | ⟨_, h⟩
  · exact (pure_ok h).2.symm
  · simp [errAt] at h

theorem asEscapedChar_asuf {n c : Nat} {s s' : St} (h : asEscapedChar n s = .ok c s') :
    ASuf s s' := by
  unfold asEscapedChar at h
  rcases ite_ok h with ⟨_, h⟩ | ⟨_, h⟩
  · obtain ⟨o, s1, hp, h⟩ := bind_ok h
    cases o with
    | none => simp [errAt] at h
    | some b =>
      dsimp only at h
      rw [asChar_ok h]
      exact peek_same hp
  · rw [asChar_ok h]; exact ASuf.refl s

theorem not_gt_ascii {c : UInt8} (h : ¬ c > 0x7F) : c < 0x80 := by
  rw [UInt8.lt_iff_toNat_lt]
  have : ¬ (0x7F : UInt8).toNat < c.toNat := fun hh => h (UInt8.lt_iff_toNat_lt.mpr hh)
  simp at this ⊢
  omega

theorem octal_range_ascii {c : UInt8} (h : (decide (48 ≤ c) && decide (c ≤ 55)) = true) : c < 0x80 := by
  simp only [Bool.and_eq_true, decide_eq_true_eq, UInt8.le_iff_toNat_le] at h
  rw [UInt8.lt_iff_toNat_lt]
  have := h.2
  simp at this ⊢
  omega

theorem ne_false_eq {a b : UInt8} (h : ¬ (a != b) = true) : a = b := by
  simpa using h

set_option hygiene false in
local macro "esc_pure" : tactic => `(tactic| (
  rcases ite_ok h with ⟨hc, h⟩ | ⟨_, h⟩
  · rw [← (pure_ok h).2]
    exact hs.tail hm1 hr1 (by rw [eq_of_beq hc]; decide)))

theorem decodeElispCharEscape_pres {f : Nat} {s s' : St} {r : Nat}
    (h : decodeElispCharEscape f s = .ok r s') (hs : SV s) : SV s' := by
  unfold decodeElispCharEscape at h
  obtain ⟨c, s1, hn, h⟩ := bind_ok h
  obtain ⟨hm1, hr1⟩ := nextOrEofChar_ok hn
  esc_pure
  esc_pure
  esc_pure
  esc_pure
  esc_pure
  esc_pure
  esc_pure
  esc_pure
  esc_pure
  esc_pure
  esc_pure
  -- `^`
  rcases ite_ok h with ⟨hc, h⟩ | ⟨_, h⟩
  · have hs1 : SV s1 := hs.tail hm1 hr1 (by rw [eq_of_beq hc]; decide)
    obtain ⟨k, s2, hk, h⟩ := bind_ok h
    obtain ⟨hm2, hr2⟩ := nextOrEofChar_ok hk
    rcases ite_ok h with ⟨hl, h⟩ | ⟨_, h⟩
    · rw [← (pure_ok h).2]
      exact hs1.tail hm2 hr2 (lower_ascii hl)
    · simp [errAt] at h
  -- `N{U+...}`
  rcases ite_ok h with ⟨hc, h⟩ | ⟨_, h⟩
  · have hs1 : SV s1 := hs.tail hm1 hr1 (by rw [eq_of_beq hc]; decide)
    obtain ⟨b1, s2, hk1, h⟩ := bind_ok h
    obtain ⟨hm2, hr2⟩ := nextOrEofChar_ok hk1
    rcases ite_ok h with ⟨_, h⟩ | ⟨hb1, h⟩
    · simp [errAt] at h
    have hs2 : SV s2 := hs1.tail hm2 hr2 (by rw [ne_false_eq hb1]; decide)
    obtain ⟨b2, s3, hk2, h⟩ := bind_ok h
    obtain ⟨hm3, hr3⟩ := nextOrEofChar_ok hk2
    rcases ite_ok h with ⟨_, h⟩ | ⟨hb2, h⟩
    · simp [errAt] at h
    have hs3 : SV s3 := hs2.tail hm3 hr3 (by rw [ne_false_eq hb2]; decide)
    obtain ⟨b3, s4, hk3, h⟩ := bind_ok h
    obtain ⟨hm4, hr4⟩ := nextOrEofChar_ok hk3
    rcases ite_ok h with ⟨_, h⟩ | ⟨hb3, h⟩
    · simp [errAt] at h
    have hs4 : SV s4 := hs3.tail hm4 hr4 (by rw [ne_false_eq hb3]; decide)
    obtain ⟨n, s5, hx, h⟩ := bind_ok h
    have hs5 : SV s5 := hs4.of_asuf (decodeElispHexEscape_asuf _ hx)
    obtain ⟨b4, s6, hk4, h⟩ := bind_ok h
    obtain ⟨hm6, hr6⟩ := nextOrEof_ok hk4
    rcases ite_ok h with ⟨_, h⟩ | ⟨hb4, h⟩
    · simp [errAt] at h
    have hs6 : SV s6 := hs5.tail hm6 hr6 (by rw [ne_false_eq hb4]; decide)
    rcases ite_ok h with ⟨_, h⟩ | ⟨_, h⟩
    · rw [← (pure_ok h).2]; exact hs6
    · simp [errAt] at h
  -- `u`
  rcases ite_ok h with ⟨hc, h⟩ | ⟨_, h⟩
  · have hs1 : SV s1 := hs.tail hm1 hr1 (by rw [eq_of_beq hc]; decide)
    obtain ⟨n, s2, hx, h⟩ := bind_ok h
    rw [asChar_ok h]
    exact hs1.of_asuf (decodeElispUniEscape_asuf _ hx)
  -- `U`
  rcases ite_ok h with ⟨hc, h⟩ | ⟨_, h⟩
  · have hs1 : SV s1 := hs.tail hm1 hr1 (by rw [eq_of_beq hc]; decide)
    obtain ⟨n, s2, hx, h⟩ := bind_ok h
    rw [asChar_ok h]
    exact hs1.of_asuf (decodeElispUniEscape_asuf _ hx)
  -- `x`
  rcases ite_ok h with ⟨hc, h⟩ | ⟨_, h⟩
  · have hs1 : SV s1 := hs.tail hm1 hr1 (by rw [eq_of_beq hc]; decide)
    obtain ⟨n, s2, hx, h⟩ := bind_ok h
    exact (hs1.of_asuf (decodeElispHexEscape_asuf _ hx)).of_asuf (asEscapedChar_asuf h)
  -- octal
  rcases ite_ok h with ⟨hc, h⟩ | ⟨_, h⟩
  · have hs1 : SV s1 := hs.tail hm1 hr1 (octal_range_ascii hc)
    obtain ⟨n, s2, hx, h⟩ := bind_ok h
    exact (hs1.of_asuf (decodeElispOctalEscape_asuf _ hx)).of_asuf (asEscapedChar_asuf h)
  -- a non-ASCII character
  rcases ite_ok h with ⟨hc, h⟩ | ⟨hc, h⟩
  · obtain ⟨⟨ch, bytes⟩, s2, hseq, h⟩ := bind_ok h
    obtain ⟨_, rfl⟩ := pure_ok h
    obtain ⟨_, hm2, _⟩ := decodeUtf8Sequence_ok hseq
    intro hm
    have hv := hs (by rw [← hm1, ← hm2]; exact hm)
    rw [hr1] at hv
    exact decodeUtf8Sequence_rest_valid hseq hv
  · rw [← (pure_ok h).2]
    exact hs.tail hm1 hr1 (not_gt_ascii hc)

theorem parseElispChar_pres {f : Nat} {s s' : St} {r : Nat}
    (h : parseElispChar f s = .ok r s') (hs : SV s) : SV s' := by
  unfold parseElispChar at h
  obtain ⟨a, s1, hn, h⟩ := bind_ok h
  obtain ⟨hm1, hr1⟩ := next_ok hn
  cases a with
  | none => simp [errAt] at h
  | some initial =>
    rcases hr1 with ⟨h0, _⟩ | ⟨b', hb', hr1⟩
    · cases h0
    cases hb'
    rcases ite_ok h with ⟨hc, h⟩ | ⟨hc, h⟩
    · obtain ⟨⟨ch, bytes⟩, s2, hseq, h⟩ := bind_ok h
      obtain ⟨_, rfl⟩ := pure_ok h
      obtain ⟨_, hm2, _⟩ := decodeUtf8Sequence_ok hseq
      intro hm
      have hv := hs (by rw [← hm1, ← hm2]; exact hm)
      rw [hr1] at hv
      exact decodeUtf8Sequence_rest_valid hseq hv
    have hs1 : SV s1 := hs.tail hm1 hr1 (not_gt_ascii hc)
    rcases ite_ok h with ⟨_, h⟩ | ⟨_, h⟩
    · simp [errAt] at h
    rcases ite_ok h with ⟨_, h⟩ | ⟨_, h⟩
    · exact decodeElispCharEscape_pres h hs1
    · rw [← (pure_ok h).2]; exact hs1

/-- What the parser needs to know about a token: text payloads are well-formed and the closing
    delimiter it announces is `)` or `]`. -/
def TokOK : Token → Prop
  | .symbol s => valid s = true
  | .keyword s => valid s = true
  | .string s => valid s = true
  | .listOpen c => c = 41 ∨ c = 93
  | .vecOpen c => c = 41 ∨ c = 93
  | .byteVecOpen c => c = 41 ∨ c = 93
  | _ => True

theorem symbolToken_ok (o : Options) {name : List UInt8} (hv : valid name = true) :
    TokOK (symbolToken o name) := by
  unfold symbolToken
  split
  · rename_i hc
    simp only [Bool.and_eq_true, beq_iff_eq] at hc
    exact valid_dropLast_colon hv hc.2
  · exact hv

theorem parseSignDotSymbol_pres {cfg : Cfg} {pfx : List UInt8} {s s' : St} {tok : Token}
    (h : parseSignDotSymbol cfg pfx s = .ok tok s') (hp : valid pfx = true) (hs : SV s)
    (hhead : ∀ b tl, s.rd.rest = b :: tl → b < 0x80) : SV s' ∧ TokOK tok := by
  unfold parseSignDotSymbol at h
  obtain ⟨_, s1, hd, h⟩ := bind_ok h
  obtain ⟨hm1, b, hr1⟩ := discard_ok hd
  have hs1 : SV s1 := hs.tail hm1 hr1 (hhead _ _ hr1)
  obtain ⟨c, s2, hpk, h⟩ := bind_ok h
  obtain ⟨hm2, hr2, _⟩ := peekOrNull_ok hpk
  have hs2 : SV s2 := hs1.same hm2 hr2
  rcases ite_ok h with ⟨_, h⟩ | ⟨_, h⟩
  · simp [peekErr] at h
  · obtain ⟨name, s3, hsym, h⟩ := bind_ok h
    obtain ⟨rfl, rfl⟩ := pure_ok h
    exact ⟨parseSymbolBytes_pres hsym hs2, symbolToken_ok _ (symCall_valid hsym hp hs2)⟩

theorem parseSignToken_pres {cfg : Cfg} {fuel : Nat} {sign : UInt8} {pos : Bool} {s s' : St}
    {tok : Token} (h : parseSignToken cfg fuel sign pos s = .ok tok s') (hsign : sign < 0x80)
    (hs : SV s) (hhead : ∀ b tl, s.rd.rest = b :: tl → b < 0x80) : SV s' ∧ TokOK tok := by
  unfold parseSignToken at h
  obtain ⟨_, s1, hd, h⟩ := bind_ok h
  obtain ⟨hm1, b, hr1⟩ := discard_ok hd
  have hs1 : SV s1 := hs.tail hm1 hr1 (hhead _ _ hr1)
  obtain ⟨nxt, s2, hpk, h⟩ := bind_ok h
  obtain ⟨hm2, hr2, hnxt⟩ := peekOrNull_ok hpk
  have hs2 : SV s2 := hs1.same hm2 hr2
  rcases ite_ok h with ⟨_, h⟩ | ⟨_, h⟩
  · obtain ⟨name, s3, hsym, h⟩ := bind_ok h
    obtain ⟨rfl, rfl⟩ := pure_ok h
    exact ⟨parseSymbolBytes_pres hsym hs2,
      symbolToken_ok _ (symCall_valid hsym (valid_ascii (Ascii.cons hsign Ascii.nil)) hs2)⟩
  · rcases ite_ok h with ⟨h46, h⟩ | ⟨_, h⟩
    · refine parseSignDotSymbol_pres h
        (valid_ascii (Ascii.cons hsign (Ascii.cons (by decide) Ascii.nil))) hs2 ?_
      intro b' tl hr
      rw [hr2] at hr
      rw [hr] at hnxt
      simp only [List.head?_cons, Option.getD_some] at hnxt
      rw [← hnxt, eq_of_beq h46]; decide
    · obtain ⟨n, s3, hnum, h⟩ := bind_ok h
      obtain ⟨rfl, rfl⟩ := pure_ok h
      exact ⟨parseNumToken_pres hnum hs2, True.intro⟩

/-- close a branch `pure tok0` at a state known to be fine -/
local macro "tok_done" h:ident hs:ident : tactic => `(tactic| (
  obtain ⟨h1, h2⟩ := pure_ok $h
  subst h1; subst h2
  exact ⟨$hs, by first | exact True.intro | exact Or.inl rfl | exact Or.inr rfl⟩))

/-- **Tokens preserve the invariant.**  -/
theorem parseToken_pres {cfg : Cfg} {fuel : Nat} {pk : UInt8} {s s' : St} {tok : Token}
    (h : parseToken cfg fuel pk s = .ok tok s') (hpk : ∃ tl, s.rd.rest = pk :: tl) (hs : SV s) :
    SV s' ∧ TokOK tok := by
  obtain ⟨tl, hpk⟩ := hpk
  have hhead : ∀ b tl', s.rd.rest = b :: tl' → b = pk := by
    intro b tl' hr; rw [hpk] at hr; cases hr; rfl
  unfold parseToken at h
  simp only [] at h
  -- '#'
  rcases ite_ok h with ⟨hc, h⟩ | ⟨_, h⟩
  · have hpka : pk < 0x80 := by rw [eq_of_beq hc]; decide
    obtain ⟨_, s1, hd, h⟩ := bind_ok h
    obtain ⟨hm1, b, hr1⟩ := discard_ok hd
    have hs1 : SV s1 := hs.tail hm1 hr1 (by rw [hhead _ _ hr1]; exact hpka)
    obtain ⟨a, s2, hn, h⟩ := bind_ok h
    obtain ⟨hm2, hr2⟩ := next_ok hn
    cases a with
    | none => simp [peekErr] at h
    | some c =>
      rcases hr2 with ⟨h0, _⟩ | ⟨c', hc', hr2⟩
      · cases h0
      cases hc'
      have step : ∀ k : UInt8, k < 0x80 → (c == k) = true → SV s2 := by
        intro k hk hck; exact hs1.tail hm2 hr2 (by rw [eq_of_beq hck]; exact hk)
      rcases ite_ok h with ⟨hc, h⟩ | ⟨_, h⟩
      · have hs2 := step _ (by decide) hc; tok_done h hs2
      rcases ite_ok h with ⟨hc, h⟩ | ⟨_, h⟩
      · have hs2 := step _ (by decide) hc; tok_done h hs2
      rcases ite_ok h with ⟨hc, h⟩ | ⟨_, h⟩
      · have hs2 := step _ (by decide) hc
        obtain ⟨_, s3, hid, h⟩ := bind_ok h
        have hs3 := hs2.of_asuf (expectIdent_asuf _ hid (by decide))
        tok_done h hs3
      rcases ite_ok h with ⟨hc, h⟩ | ⟨_, h⟩
      · have hs2 := step _ (by decide) hc; tok_done h hs2
      rcases ite_ok h with ⟨hc, h⟩ | ⟨_, h⟩
      · simp only [Bool.and_eq_true] at hc
        have hs2 := step _ (by decide) hc.1
        obtain ⟨name, s3, hsym, h⟩ := bind_ok h
        obtain ⟨rfl, rfl⟩ := pure_ok h
        exact ⟨parseSymbolBytes_pres hsym hs2, symCall_valid hsym valid_nil hs2⟩
      rcases ite_ok h with ⟨hc, h⟩ | ⟨_, h⟩
      · have hs2 := step _ (by decide) hc
        obtain ⟨_, s3, hid, h⟩ := bind_ok h
        have hs3 := hs2.of_asuf (expectIdent_asuf _ hid (by decide))
        tok_done h hs3
      rcases ite_ok h with ⟨hc, h⟩ | ⟨_, h⟩
      · have hs2 := step _ (by decide) hc
        obtain ⟨_, s3, hid, h⟩ := bind_ok h
        have hs3 := hs2.of_asuf (expectIdent_asuf _ hid (by decide))
        tok_done h hs3
      rcases ite_ok h with ⟨hc, h⟩ | ⟨_, h⟩
      · have hs2 := step _ (by decide) hc
        obtain ⟨n, s3, hnum, h⟩ := bind_ok h
        have hs3 := parseRadixToken_pres hnum hs2
        tok_done h hs3
      rcases ite_ok h with ⟨hc, h⟩ | ⟨_, h⟩
      · have hs2 := step _ (by decide) hc
        obtain ⟨n, s3, hnum, h⟩ := bind_ok h
        have hs3 := parseRadixToken_pres hnum hs2
        tok_done h hs3
      rcases ite_ok h with ⟨hc, h⟩ | ⟨_, h⟩
      · have hs2 := step _ (by decide) hc
        obtain ⟨n, s3, hnum, h⟩ := bind_ok h
        have hs3 := parseRadixToken_pres hnum hs2
        tok_done h hs3
      rcases ite_ok h with ⟨hc, h⟩ | ⟨_, h⟩
      · have hs2 := step _ (by decide) hc
        obtain ⟨n, s3, hnum, h⟩ := bind_ok h
        have hs3 := parseRadixToken_pres hnum hs2
        tok_done h hs3
      rcases ite_ok h with ⟨hc, h⟩ | ⟨_, h⟩
      · have hs2 := step _ (by decide) hc
        obtain ⟨ch, s3, hch, h⟩ := bind_ok h
        have hs3 := parseR6rsChar_pres hch hs2
        tok_done h hs3
      rcases ite_ok h with ⟨hc, h⟩ | ⟨_, h⟩
      · simp only [Bool.and_eq_true] at hc
        have hs2 := step _ (by decide) hc.1
        obtain ⟨name, s3, hsym, h⟩ := bind_ok h
        obtain ⟨rfl, rfl⟩ := pure_ok h
        exact ⟨parseSymbolBytes_pres hsym hs2, symCall_valid hsym (by decide) hs2⟩
      · simp [peekErr] at h
  -- '-'
  rcases ite_ok h with ⟨hc, h⟩ | ⟨_, h⟩
  · have hpka : pk < 0x80 := by rw [eq_of_beq hc]; decide
    exact parseSignToken_pres h (by decide) hs (fun b tl' hr => by rw [hhead _ _ hr]; exact hpka)
  -- '+'
  rcases ite_ok h with ⟨hc, h⟩ | ⟨_, h⟩
  · have hpka : pk < 0x80 := by rw [eq_of_beq hc]; decide
    exact parseSignToken_pres h (by decide) hs (fun b tl' hr => by rw [hhead _ _ hr]; exact hpka)
  -- digits
  rcases ite_ok h with ⟨_, h⟩ | ⟨_, h⟩
  · rcases ite_ok h with ⟨_, h⟩ | ⟨_, h⟩
    · obtain ⟨sym, s1, hsym, h⟩ := bind_ok h
      have hv := symCall_valid hsym valid_nil hs
      have hs1 := parseSymbolBytes_pres hsym hs
      cases hw : wholeNumber cfg sym with
      | some n => rw [hw] at h; tok_done h hs1
      | none =>
        rw [hw] at h
        obtain ⟨rfl, rfl⟩ := pure_ok h
        exact ⟨hs1, symbolToken_ok _ hv⟩
    · obtain ⟨n, s1, hnum, h⟩ := bind_ok h
      have hs1 := parseNumToken_pres hnum hs
      tok_done h hs1
  -- '"'
  rcases ite_ok h with ⟨hc, h⟩ | ⟨_, h⟩
  · have hpka : pk < 0x80 := by rw [eq_of_beq hc]; decide
    obtain ⟨_, s1, hd, h⟩ := bind_ok h
    obtain ⟨hm1, b, hr1⟩ := discard_ok hd
    have hs1 : SV s1 := hs.tail hm1 hr1 (by rw [hhead _ _ hr1]; exact hpka)
    cases hstr : cfg.opts.string with
    | r6rs =>
      rw [hstr] at h
      obtain ⟨out, s2, hp, h⟩ := bind_ok h
      obtain ⟨rfl, rfl⟩ := pure_ok h
      exact ⟨hs1.of_lastQ (parseR6rsStr_lastQ _ hp), r6rsStr_call_valid hp valid_nil hs1⟩
    | elisp =>
      rw [hstr] at h
      obtain ⟨r, s2, hp, h⟩ := bind_ok h
      have hs2 := hs1.of_lastQ (parseElispStr_lastQ _ hp)
      cases r with
      | unibyte b => tok_done h hs2
      | multibyte out =>
        obtain ⟨rfl, rfl⟩ := pure_ok h
        exact ⟨hs2, parseElispStr_multibyte_valid _ hp⟩
  -- '('
  rcases ite_ok h with ⟨hc, h⟩ | ⟨_, h⟩
  · have hpka : pk < 0x80 := by rw [eq_of_beq hc]; decide
    obtain ⟨_, s1, hd, h⟩ := bind_ok h
    obtain ⟨hm1, b, hr1⟩ := discard_ok hd
    have hs1 : SV s1 := hs.tail hm1 hr1 (by rw [hhead _ _ hr1]; exact hpka)
    tok_done h hs1
  -- '['
  rcases ite_ok h with ⟨hc, h⟩ | ⟨_, h⟩
  · have hpka : pk < 0x80 := by rw [eq_of_beq hc]; decide
    obtain ⟨_, s1, hd, h⟩ := bind_ok h
    obtain ⟨hm1, b, hr1⟩ := discard_ok hd
    have hs1 : SV s1 := hs.tail hm1 hr1 (by rw [hhead _ _ hr1]; exact hpka)
    cases hb : cfg.opts.brackets <;> rw [hb] at h <;> tok_done h hs1
  -- ':'
  rcases ite_ok h with ⟨hc, h⟩ | ⟨_, h⟩
  · have hpka : pk < 0x80 := by rw [eq_of_beq hc]; decide
    rcases ite_ok h with ⟨_, h⟩ | ⟨_, h⟩
    · obtain ⟨_, s1, hd, h⟩ := bind_ok h
      obtain ⟨hm1, b, hr1⟩ := discard_ok hd
      have hs1 : SV s1 := hs.tail hm1 hr1 (by rw [hhead _ _ hr1]; exact hpka)
      obtain ⟨name, s2, hsym, h⟩ := bind_ok h
      obtain ⟨rfl, rfl⟩ := pure_ok h
      exact ⟨parseSymbolBytes_pres hsym hs1, symCall_valid hsym valid_nil hs1⟩
    · obtain ⟨name, s2, hsym, h⟩ := bind_ok h
      obtain ⟨rfl, rfl⟩ := pure_ok h
      exact ⟨parseSymbolBytes_pres hsym hs, symbolToken_ok _ (symCall_valid hsym valid_nil hs)⟩
  -- letters
  rcases ite_ok h with ⟨_, h⟩ | ⟨_, h⟩
  · obtain ⟨name, s1, hsym, h⟩ := bind_ok h
    have hv := symCall_valid hsym valid_nil hs
    have hs1 := parseSymbolBytes_pres hsym hs
    rcases ite_ok h with ⟨hc, h⟩ | ⟨_, h⟩
    · simp only [Bool.and_eq_true, beq_iff_eq] at hc
      obtain ⟨rfl, rfl⟩ := pure_ok h
      exact ⟨hs1, valid_dropLast_colon hv hc.2⟩
    rcases ite_ok h with ⟨_, h⟩ | ⟨_, h⟩
    · cases hn : cfg.opts.nil <;> rw [hn] at h
      · tok_done h hs1
      · simp [panicAt] at h
      · tok_done h hs1
    rcases ite_ok h with ⟨_, h⟩ | ⟨_, h⟩
    · cases ht : cfg.opts.t <;> rw [ht] at h
      · tok_done h hs1
      · simp [panicAt] at h
    · obtain ⟨rfl, rfl⟩ := pure_ok h
      exact ⟨hs1, hv⟩
  -- '?'
  rcases ite_ok h with ⟨hc, h⟩ | ⟨_, h⟩
  · simp only [Bool.and_eq_true] at hc
    have hpka : pk < 0x80 := by rw [eq_of_beq hc.1]; decide
    obtain ⟨_, s1, hd, h⟩ := bind_ok h
    obtain ⟨hm1, b, hr1⟩ := discard_ok hd
    have hs1 : SV s1 := hs.tail hm1 hr1 (by rw [hhead _ _ hr1]; exact hpka)
    obtain ⟨ch, s2, hch, h⟩ := bind_ok h
    have hs2 := parseElispChar_pres hch hs1
    tok_done h hs2
  -- quote
  rcases ite_ok h with ⟨hc, h⟩ | ⟨_, h⟩
  · have hpka : pk < 0x80 := by rw [eq_of_beq hc]; decide
    obtain ⟨_, s1, hd, h⟩ := bind_ok h
    obtain ⟨hm1, b, hr1⟩ := discard_ok hd
    have hs1 : SV s1 := hs.tail hm1 hr1 (by rw [hhead _ _ hr1]; exact hpka)
    tok_done h hs1
  rcases ite_ok h with ⟨hc, h⟩ | ⟨_, h⟩
  · have hpka : pk < 0x80 := by rw [eq_of_beq hc]; decide
    obtain ⟨_, s1, hd, h⟩ := bind_ok h
    obtain ⟨hm1, b, hr1⟩ := discard_ok hd
    have hs1 : SV s1 := hs.tail hm1 hr1 (by rw [hhead _ _ hr1]; exact hpka)
    tok_done h hs1
  -- ','
  rcases ite_ok h with ⟨hc, h⟩ | ⟨_, h⟩
  · have hpka : pk < 0x80 := by rw [eq_of_beq hc]; decide
    obtain ⟨_, s1, hd, h⟩ := bind_ok h
    obtain ⟨hm1, b, hr1⟩ := discard_ok hd
    have hs1 : SV s1 := hs.tail hm1 hr1 (by rw [hhead _ _ hr1]; exact hpka)
    obtain ⟨c, s2, hp, h⟩ := bind_ok h
    obtain ⟨hm2, hr2, hc2⟩ := peekOrNull_ok hp
    have hs2 : SV s2 := hs1.same hm2 hr2
    rcases ite_ok h with ⟨h64, h⟩ | ⟨_, h⟩
    · obtain ⟨_, s3, hd3, h⟩ := bind_ok h
      obtain ⟨hm3, b3, hr3⟩ := discard_ok hd3
      have hs3 : SV s3 := by
        refine hs2.tail hm3 hr3 ?_
        rw [hr2.symm, hr3] at hc2
        simp only [List.head?_cons, Option.getD_some] at hc2
        rw [← hc2, eq_of_beq h64]; decide
      tok_done h hs3
    · tok_done h hs2
  -- a non-ASCII symbol initial
  rcases ite_ok h with ⟨_, h⟩ | ⟨hnot, h⟩
  · obtain ⟨_, s1, hd, h⟩ := bind_ok h
    obtain ⟨hm1, b, hr1⟩ := discard_ok hd
    obtain ⟨⟨c, bytes⟩, s2, hseq, h⟩ := bind_ok h
    obtain ⟨hb, hm2, hr2⟩ := decodeUtf8Sequence_ok hseq
    have hs2 : SV s2 := by
      intro hm
      have hv := hs (by rw [← hm1, ← hm2]; exact hm)
      rw [hr1, hhead _ _ hr1] at hv
      exact decodeUtf8Sequence_rest_valid hseq hv
    rcases ite_ok h with ⟨_, h⟩ | ⟨_, h⟩
    · simp [peekErr] at h
    · obtain ⟨name, s3, hsym, h⟩ := bind_ok h
      obtain ⟨rfl, rfl⟩ := pure_ok h
      exact ⟨parseSymbolBytes_pres hsym hs2, symbolToken_ok _ (symCall_valid hsym hb hs2)⟩
  -- extended symbol characters
  rcases ite_ok h with ⟨_, h⟩ | ⟨_, h⟩
  · obtain ⟨name, s2, hsym, h⟩ := bind_ok h
    obtain ⟨rfl, rfl⟩ := pure_ok h
    exact ⟨parseSymbolBytes_pres hsym hs, symbolToken_ok _ (symCall_valid hsym valid_nil hs)⟩
  -- anything else is an error
  · obtain ⟨_, s1, _, h⟩ := bind_ok h
    obtain ⟨_, s2, _, h⟩ := bind_ok h
    cases h

/-! ### whitespace, byte vectors -/

theorem isTrivia_ascii {b : UInt8} (h : isTrivia b = true) : b < 0x80 := by
  simp [isTrivia, or_assoc] at h
  rcases h with rfl | rfl | rfl | rfl | rfl <;> decide

mutual
/-- Skipping whitespace and comments (which may contain any text, up to a line feed) keeps the
    unread input well-formed. -/
theorem valid_drop_wsLen : ∀ bs : List UInt8, valid bs = true → valid (bs.drop (wsLen bs)) = true
  | [], h => by simpa [wsLen] using h
  | b :: bs, h => by
    simp only [wsLen]
    split
    · rename_i hb
      have hb' : b < 0x80 := by rw [eq_of_beq hb]; decide
      rw [valid_cons_ascii _ hb'] at h
      simp only [List.drop_succ_cons]
      exact valid_drop_commentLen bs .idle trivial ((valid_iff _).mp h)
    · split
      · rename_i hb
        rw [valid_cons_ascii _ (isTrivia_ascii hb)] at h
        simp only [List.drop_succ_cons]
        exact valid_drop_wsLen bs h
      · simpa using h
theorem valid_drop_commentLen : ∀ (bs : List UInt8) (st : Utf8.St), st.WF → run st bs = some .idle →
    valid (bs.drop (commentLen bs)) = true
  | [], _, _, _ => by simp [commentLen, valid_nil]
  | b :: bs, st, hw, h => by
    obtain ⟨st', h1, h2⟩ := run_cons_some h
    simp only [commentLen]
    split
    · rename_i hb
      have hb' : b < 0x80 := by rw [eq_of_beq hb]; decide
      obtain ⟨_, rfl⟩ := step_ascii hw hb' h1
      simp only [List.drop_succ_cons]
      exact valid_drop_wsLen bs ((valid_iff _).mpr h2)
    · simp only [List.drop_succ_cons]
      exact valid_drop_commentLen bs st' (step_wf hw h1) h2
end

theorem parseWhitespace_ok {s s' : St} {a : Option UInt8} (h : parseWhitespace s = .ok a s') :
    s'.rd.mode = s.rd.mode ∧ s'.rd.rest = s.rd.rest.drop (wsLen s.rd.rest) ∧ a = s'.rd.rest.head? := by
  unfold parseWhitespace at h
  obtain ⟨rest, s1, h1, h⟩ := bind_ok h
  obtain ⟨rfl, rfl⟩ := getRest_ok h1
  obtain ⟨_, s2, h2, h⟩ := bind_ok h
  obtain ⟨hm2, hr2⟩ := consumeN_ok h2
  obtain ⟨hm3, hr3, ha⟩ := peek_ok h
  exact ⟨hm3.trans hm2, by rw [hr3, hr2], by rw [ha, hr3]⟩

theorem parseWhitespace_pres {s s' : St} {a : Option UInt8} (h : parseWhitespace s = .ok a s')
    (hs : SV s) : SV s' := by
  obtain ⟨hm, hr, _⟩ := parseWhitespace_ok h
  intro hm'
  rw [hr]
  exact valid_drop_wsLen _ (hs (hm ▸ hm'))

/-- after `parse_whitespace` returned `some c`, the unread input starts with `c` -/
theorem parseWhitespace_head {s s' : St} {c : UInt8} (h : parseWhitespace s = .ok (some c) s') :
    ∃ tl, s'.rd.rest = c :: tl := by
  obtain ⟨_, _, ha⟩ := parseWhitespace_ok h
  cases hr : s'.rd.rest with
  | nil => rw [hr] at ha; cases ha
  | cons b tl => rw [hr] at ha; cases ha; exact ⟨tl, rfl⟩

/-- `discard` of a byte known to be at the head and ASCII -/
theorem discard_pres {s s' : St} {c : UInt8} {u : Unit} (h : discard s = .ok u s')
    (hhead : ∃ tl, s.rd.rest = c :: tl) (hc : c < 0x80) (hs : SV s) : SV s' := by
  obtain ⟨hm, b, hr⟩ := discard_ok h
  obtain ⟨tl, ht⟩ := hhead
  rw [ht] at hr
  cases hr
  exact hs.tail hm ht hc

theorem parseNumber_end_pres {cfg : Cfg} {f : Nat} {s s1 s2 : St} {n m : Number}
    (h1 : parseNumber cfg f s = .ok n s1) (h2 : expectNumberEnd n s1 = .ok m s2) (hs : SV s) :
    SV s2 := by
  have hsuf := ((SufP.parseNumber cfg f).ok _ _ _ h1).trans ((SufP.expectNumberEnd n).ok _ _ _ h2)
  exact hs.of_suf_bnd hsuf (expectNumberEnd_ok h2).2

theorem byteListLoop_pres (cfg : Cfg) {close : UInt8} (hclose : close < 0x80) (f : Nat) :
    ∀ {acc : List UInt8} {s s' : St} {out : List UInt8},
    byteListLoop cfg close f acc s = .ok out s' → SV s → SV s' := by
  induction f with
  | zero => intro acc s s' out h; simp [byteListLoop, outOfFuel] at h
  | succ f ih =>
    intro acc s s' out h hs
    simp only [byteListLoop] at h
    obtain ⟨a, s1, hw, h⟩ := bind_ok h
    have hs1 := parseWhitespace_pres hw hs
    cases a with
    | none => simp [peekErr] at h
    | some c =>
      have hhead := parseWhitespace_head hw
      rcases ite_ok h with ⟨hc, h⟩ | ⟨_, h⟩
      · obtain ⟨_, s2, hd, h⟩ := bind_ok h
        rw [← (pure_ok h).2]
        exact discard_pres hd hhead (by rw [eq_of_beq hc]; exact hclose) hs1
      · obtain ⟨n, s2, hn, h⟩ := bind_ok h
        obtain ⟨m, s3, he, h⟩ := bind_ok h
        have hs3 := parseNumber_end_pres hn he hs1
        cases hu : m.asU64 with
        | none => rw [hu] at h; simp [peekErr] at h
        | some v =>
          rw [hu] at h
          rcases ite_ok h with ⟨_, h⟩ | ⟨_, h⟩
          · simp [peekErr] at h
          · exact ih h hs3

theorem parseByteList_pres {cfg : Cfg} {f : Nat} {close : UInt8} (hclose : close < 0x80)
    {s s' : St} {out : List UInt8} (h : parseByteList cfg f close s = .ok out s') (hs : SV s) :
    SV s' := by
  unfold parseByteList at h
  obtain ⟨a, s1, hw, h⟩ := bind_ok h
  have hs1 := parseWhitespace_pres hw hs
  cases a with
  | none => simp [peekErr] at h
  | some c =>
    have hhead := parseWhitespace_head hw
    rcases ite_ok h with ⟨hc, h⟩ | ⟨_, h⟩
    · obtain ⟨_, s2, hd, h⟩ := bind_ok h
      exact byteListLoop_pres cfg hclose f h
        (discard_pres hd hhead (by rw [eq_of_beq hc]; decide) hs1)
    · simp [peekErr] at h

theorem endSeq_pres {close : UInt8} (hclose : close < 0x80) {s s' : St} {u : Unit}
    (h : endSeq close s = .ok u s') (hs : SV s) : SV s' := by
  unfold endSeq at h
  obtain ⟨a, s1, hw, h⟩ := bind_ok h
  have hs1 := parseWhitespace_pres hw hs
  cases a with
  | none => simp [peekErr] at h
  | some b =>
    have hhead := parseWhitespace_head hw
    rcases ite_ok h with ⟨hc, h⟩ | ⟨_, h⟩
    · exact discard_pres h hhead (by rw [eq_of_beq hc]; exact hclose) hs1
    · simp [peekErr] at h

open Print.U8

/-! ### values -/

theorem SV.of_rd {s s' : St} (h : SV s) (hrd : s'.rd = s.rd) : SV s' := by
  intro hm; rw [hrd] at hm ⊢; exact h hm

theorem enter_ok {s s' : St} {u : Unit} (h : enter s = .ok u s') : s'.rd = s.rd := by
  unfold enter at h
  split at h
  · cases h
  · split at h
    · cases h
    · simp only [Res.ok.injEq] at h; rw [← h.2]

theorem leave_ok {s s' : St} {u : Unit} (h : leave s = .ok u s') : s'.rd = s.rd := by
  unfold leave at h
  simp only [Res.ok.injEq] at h; rw [← h.2]

theorem attempt_ok {α : Type} {m : P α} {s s' : St} {r : Except Err α} (h : attempt m s = .ok r s') :
    (∃ a, r = .ok a ∧ m s = .ok a s') ∨ (∃ e, r = .error e ∧ m s = .err e s') := by
  unfold attempt at h
  cases hm : m s with
  | ok a s1 => rw [hm] at h; simp only [Res.ok.injEq] at h; exact Or.inl ⟨a, h.1.symm, by rw [h.2]⟩
  | err e s1 => rw [hm] at h; simp only [Res.ok.injEq] at h; exact Or.inr ⟨e, h.1.symm, by rw [h.2]⟩
  | panic p => rw [hm] at h; cases h
  | fuel => rw [hm] at h; cases h

theorem tokenFuel_ok {s s' : St} {n : Nat} (h : tokenFuel s = .ok n s') : s' = s := by
  change Res.ok _ _ = Res.ok _ _ at h; cases h; rfl

theorem liftExcept_error {α : Type} {e : Err} {s s' : St} {a : α}
    (h : (liftExcept (.error e) : P α) s = .ok a s') : False := by
  change Res.err _ _ = Res.ok _ _ at h; cases h

theorem textValid_append : ∀ (xs : List Value) (t : Value), TextValidList xs → TextValid t →
    TextValid (Value.append xs t)
  | [], _, _, ht => by simpa [Value.append] using ht
  | x :: xs, t, h, ht => by
    simp only [TextValidList] at h
    simp only [Value.append, TextValid]
    exact ⟨h.1, textValid_append xs t h.2 ht⟩

theorem textValid_list (xs : List Value) (h : TextValidList xs) : TextValid (Value.list xs) :=
  textValid_append xs .null h (by simp only [TextValid])

theorem textValidList_snoc : ∀ (xs : List Value) (v : Value), TextValidList xs → TextValid v →
    TextValidList (xs ++ [v])
  | [], v, _, hv => by simp only [List.nil_append, TextValidList]; exact ⟨hv, True.intro⟩
  | x :: xs, v, h, hv => by
    simp only [TextValidList] at h
    simp only [List.cons_append, TextValidList]
    exact ⟨h.1, textValidList_snoc xs v h.2 hv⟩

theorem symbolValue_text (o : Options) {name : List UInt8} (hv : valid name = true) :
    TextValid (symbolValue o name) := by
  have := symbolToken_ok o hv
  unfold symbolValue
  cases ht : symbolToken o name <;> rw [ht] at this <;> simp only [TextValid] <;> exact this

theorem quoteName_valid (q : Quote) : valid q.name = true := by
  cases q <;> decide

/-- the value of an atomic token -/
theorem atom_text {tok : Token} {v : Value} (ht : TokOK tok) (h : tok.atom = some v) : TextValid v := by
  cases tok <;> simp only [Token.atom, Option.some.injEq] at h <;> (try cases h) <;>
    first | exact ht | (simp only [TextValid])

/-- What is proved about the three mutually recursive readers, for one amount of fuel: they
    preserve the invariant and return values whose text payloads are well-formed. -/
def ValueInv (cfg : Cfg) (f : Nat) : Prop :=
  (∀ {s s' : St} {v : Option Value}, nextValue cfg f s = .ok v s' → SV s →
      SV s' ∧ ∀ x, v = some x → TextValid x) ∧
  (∀ {term : UInt8} {acc : List Value} {s s' : St} {v : Value},
      parseList cfg f term acc s = .ok v s' → SV s → TextValidList acc → SV s' ∧ TextValid v) ∧
  (∀ {term : UInt8} {acc : List Value} {s s' : St} {xs : List Value},
      parseVector cfg f term acc s = .ok xs s' → SV s → TextValidList acc →
      SV s' ∧ TextValidList xs)

theorem tokOK_close {c : UInt8} (h : c = 41 ∨ c = 93) : c < 0x80 := by
  rcases h with rfl | rfl <;> decide

theorem valueInv (cfg : Cfg) : ∀ f, ValueInv cfg f := by
  intro f
  induction f with
  | zero =>
    refine ⟨?_, ?_, ?_⟩
    · intro s s' v h; simp [nextValue, outOfFuel] at h
    · intro term acc s s' v h; simp [parseList, outOfFuel] at h
    · intro term acc s s' v h; simp [parseVector, outOfFuel] at h
  | succ f ih =>
    obtain ⟨ihV, ihL, ihX⟩ := ih
    refine ⟨?_, ?_, ?_⟩
    · -- next_value
      intro s s' v h hs
      unfold nextValue at h
      obtain ⟨a, s1, hw, h⟩ := bind_ok h
      have hs1 := parseWhitespace_pres hw hs
      cases a with
      | none =>
        obtain ⟨rfl, rfl⟩ := pure_ok h
        exact ⟨hs1, fun x hx => by cases hx⟩
      | some pk =>
        have hhead := parseWhitespace_head hw
        dsimp only at h
        obtain ⟨tf, s2, htf, h⟩ := bind_ok h
        rw [tokenFuel_ok htf] at h
        obtain ⟨tok, s3, htok, h⟩ := bind_ok h
        obtain ⟨hs3, htokok⟩ := parseToken_pres htok hhead hs1
        cases tok with
        | byteVecOpen close =>
          dsimp only at h
          obtain ⟨bs, s4, hbl, h⟩ := bind_ok h
          obtain ⟨rfl, rfl⟩ := pure_ok h
          exact ⟨parseByteList_pres (tokOK_close htokok) hbl hs3,
            fun x hx => by cases hx; simp only [TextValid]⟩
        | vecOpen close =>
          dsimp only at h
          obtain ⟨_, s4, he, h⟩ := bind_ok h
          have hs4 := hs3.of_rd (enter_ok he)
          obtain ⟨ret, s5, hat, h⟩ := bind_ok h
          obtain ⟨_, s6, hl, h⟩ := bind_ok h
          obtain ⟨es, s7, hes, h⟩ := bind_ok h
          rcases attempt_ok hat with ⟨xs, rfl, hpv⟩ | ⟨e, rfl, _⟩
          · obtain ⟨hs5, hxs⟩ := ihX hpv hs4 (by simp only [TextValidList])
            have hs6 := hs5.of_rd (leave_ok hl)
            rcases attempt_ok hes with ⟨u, rfl, hend⟩ | ⟨e, rfl, _⟩
            · obtain ⟨rfl, rfl⟩ := pure_ok h
              exact ⟨endSeq_pres (tokOK_close htokok) hend hs6,
                fun x hx => by cases hx; simp only [TextValid]; exact hxs⟩
            · exact (liftExcept_error h).elim
          · cases es <;> exact (liftExcept_error h).elim
        | listOpen close =>
          dsimp only at h
          obtain ⟨_, s4, he, h⟩ := bind_ok h
          have hs4 := hs3.of_rd (enter_ok he)
          obtain ⟨ret, s5, hat, h⟩ := bind_ok h
          obtain ⟨_, s6, hl, h⟩ := bind_ok h
          obtain ⟨es, s7, hes, h⟩ := bind_ok h
          rcases attempt_ok hat with ⟨v0, rfl, hpl⟩ | ⟨e, rfl, _⟩
          · obtain ⟨hs5, hv0⟩ := ihL hpl hs4 (by simp only [TextValidList])
            have hs6 := hs5.of_rd (leave_ok hl)
            rcases attempt_ok hes with ⟨u, rfl, hend⟩ | ⟨e, rfl, _⟩
            · obtain ⟨rfl, rfl⟩ := pure_ok h
              exact ⟨endSeq_pres (tokOK_close htokok) hend hs6,
                fun x hx => by cases hx; exact hv0⟩
            · exact (liftExcept_error h).elim
          · cases es <;> exact (liftExcept_error h).elim
        | quotation q =>
          dsimp only at h
          obtain ⟨_, s4, he, h⟩ := bind_ok h
          have hs4 := hs3.of_rd (enter_ok he)
          obtain ⟨ret, s5, hat, h⟩ := bind_ok h
          obtain ⟨_, s6, hl, h⟩ := bind_ok h
          rcases attempt_ok hat with ⟨ov, rfl, hnv⟩ | ⟨e, rfl, _⟩
          · obtain ⟨hs5, hov⟩ := ihV hnv hs4
            have hs6 := hs5.of_rd (leave_ok hl)
            cases ov with
            | none => simp [peekErr] at h
            | some d =>
              obtain ⟨rfl, rfl⟩ := pure_ok h
              refine ⟨hs6, fun x hx => ?_⟩
              cases hx
              apply textValid_list
              simp only [TextValidList, TextValid, and_true]
              exact ⟨quoteName_valid q, hov _ rfl⟩
          · exact (liftExcept_error h).elim
        | _ =>
          simp only [Token.atom] at h
          obtain ⟨h1, h2⟩ := pure_ok h
          subst h1; subst h2
          exact ⟨hs3, fun x hx => by cases hx; exact atom_text htokok rfl⟩
    · -- parse_list
      intro term acc s s' v h hs hacc
      unfold parseList at h
      obtain ⟨a, s1, hw, h⟩ := bind_ok h
      have hs1 := parseWhitespace_pres hw hs
      cases a with
      | none => simp [peekErr] at h
      | some c =>
        have hhead := parseWhitespace_head hw
        dsimp only at h
        rcases ite_ok h with ⟨_, h⟩ | ⟨_, h⟩
        · rcases ite_ok h with ⟨_, h⟩ | ⟨_, h⟩
          · simp [peekErr] at h
          · obtain ⟨rfl, rfl⟩ := pure_ok h
            exact ⟨hs1, textValid_list _ hacc⟩
        rcases ite_ok h with ⟨h46, h⟩ | ⟨_, h⟩
        · obtain ⟨_, s2, hd, h⟩ := bind_ok h
          have hs2 := discard_pres hd hhead (by rw [eq_of_beq h46]; decide) hs1
          obtain ⟨nxt, s3, hp, h⟩ := bind_ok h
          obtain ⟨hm3, hr3, _⟩ := peekOrNull_ok hp
          have hs3 : SV s3 := hs2.same hm3 hr3
          rcases ite_ok h with ⟨_, h⟩ | ⟨_, h⟩
          · rcases ite_ok h with ⟨_, h⟩ | ⟨_, h⟩
            · obtain ⟨a, s4, _, h⟩ := bind_ok h
              cases a <;> simp [peekErr] at h
            · obtain ⟨tail, s4, ht, h⟩ := bind_ok h
              obtain ⟨ov, s4', hnv, ht⟩ := bind_ok ht
              obtain ⟨hs4', hov⟩ := ihV hnv hs3
              cases ov with
              | none => simp [peekErr] at ht
              | some v0 =>
                obtain ⟨rfl, rfl⟩ := pure_ok ht
                obtain ⟨a, s5, hw5, h⟩ := bind_ok h
                have hs5 := parseWhitespace_pres hw5 hs4'
                cases a with
                | none => simp [peekErr] at h
                | some c' =>
                  rcases ite_ok h with ⟨_, h⟩ | ⟨_, h⟩
                  · obtain ⟨rfl, rfl⟩ := pure_ok h
                    exact ⟨hs5, textValid_append _ _ hacc (hov _ rfl)⟩
                  · simp [peekErr] at h
          · obtain ⟨name, s4, hsym, h⟩ := bind_ok h
            have hv := symCall_valid hsym (by decide) hs3
            exact ihL h (parseSymbolBytes_pres hsym hs3)
              (textValidList_snoc _ _ hacc (symbolValue_text _ hv))
        · obtain ⟨ov, s2, hnv, h⟩ := bind_ok h
          obtain ⟨hs2, hov⟩ := ihV hnv hs1
          cases ov with
          | none => simp [peekErr] at h
          | some v0 => exact ihL h hs2 (textValidList_snoc _ _ hacc (hov _ rfl))
    · -- parse_vector
      intro term acc s s' xs h hs hacc
      unfold parseVector at h
      obtain ⟨a, s1, hw, h⟩ := bind_ok h
      have hs1 := parseWhitespace_pres hw hs
      cases a with
      | none => simp [peekErr] at h
      | some c =>
        dsimp only at h
        rcases ite_ok h with ⟨_, h⟩ | ⟨_, h⟩
        · rcases ite_ok h with ⟨_, h⟩ | ⟨_, h⟩
          · simp [peekErr] at h
          · obtain ⟨rfl, rfl⟩ := pure_ok h
            exact ⟨hs1, hacc⟩
        · obtain ⟨ov, s2, hnv, h⟩ := bind_ok h
          obtain ⟨hs2, hov⟩ := ihV hnv hs1
          cases ov with
          | none => simp [peekErr] at h
          | some v0 => exact ihX h hs2 (textValidList_snoc _ _ hacc (hov _ rfl))

open Print.U8

theorem apiFuel_ok {s s' : St} {n : Nat} (h : apiFuel s = .ok n s') : s' = s := by
  change Res.ok _ _ = Res.ok _ _ at h; cases h; rfl

theorem nextValueTop_pres {cfg : Cfg} {s s' : St} {v : Option Value}
    (h : nextValueTop cfg s = .ok v s') (hs : SV s) : SV s' ∧ ∀ x, v = some x → TextValid x := by
  unfold nextValueTop at h
  obtain ⟨f, s1, hf, h⟩ := bind_ok h
  rw [apiFuel_ok hf] at h
  exact (valueInv cfg f).1 h hs

theorem expectValue_pres {cfg : Cfg} {s s' : St} {v : Value}
    (h : expectValue cfg s = .ok v s') (hs : SV s) : SV s' ∧ TextValid v := by
  unfold expectValue at h
  obtain ⟨ov, s1, hn, h⟩ := bind_ok h
  obtain ⟨hs1, hv⟩ := nextValueTop_pres hn hs
  cases ov with
  | none => simp [peekErr] at h
  | some x =>
    obtain ⟨rfl, rfl⟩ := pure_ok h
    exact ⟨hs1, hv _ rfl⟩

theorem fromTrait_text {cfg : Cfg} {s s' : St} {v : Value}
    (h : fromTrait cfg s = .ok v s') (hs : SV s) : TextValid v := by
  unfold fromTrait at h
  obtain ⟨x, s1, he, h⟩ := bind_ok h
  obtain ⟨_, s2, _, h⟩ := bind_ok h
  obtain ⟨rfl, _⟩ := pure_ok h
  exact (expectValue_pres he hs).2

theorem SV.init (mode : Mode) (input : List UInt8) (faulty : Bool)
    (h : mode = .str → valid input = true) : SV (initSt mode input faulty) := h

open Print.U8

/-! ### datums -/

theorem getPos_ok {s s' : St} {p : Pos} (h : getPos s = .ok p s') : s' = s := by
  change Res.ok _ _ = Res.ok _ _ at h; cases h; rfl

/-- The datum variants of the three readers. -/
def DatumInv (cfg : Cfg) (f : Nat) : Prop :=
  (∀ {s s' : St} {d : Option Datum}, nextDatum cfg f s = .ok d s' → SV s →
      SV s' ∧ ∀ x, d = some x → TextValid x.value) ∧
  (∀ {term : UInt8} {acc : List Value} {ms : List SpanInfo} {s s' : St}
      {r : Option (Value × SpanInfo × SpanInfo)},
      parseListMeta cfg f term acc ms s = .ok r s' → SV s → TextValidList acc →
      SV s' ∧ ∀ v c d, r = some (v, c, d) → TextValid v) ∧
  (∀ {term : UInt8} {acc : List Value} {ms : List SpanInfo} {s s' : St}
      {r : List Value × List SpanInfo},
      parseVectorMeta cfg f term acc ms s = .ok r s' → SV s → TextValidList acc →
      SV s' ∧ TextValidList r.1)

theorem datumInv (cfg : Cfg) : ∀ f, DatumInv cfg f := by
  intro f
  induction f with
  | zero =>
    refine ⟨?_, ?_, ?_⟩
    · intro s s' v h; simp [nextDatum, outOfFuel] at h
    · intro term acc ms s s' v h; simp [parseListMeta, outOfFuel] at h
    · intro term acc ms s s' v h; simp [parseVectorMeta, outOfFuel] at h
  | succ f ih =>
    obtain ⟨ihV, ihL, ihX⟩ := ih
    refine ⟨?_, ?_, ?_⟩
    · -- next_datum
      intro s s' v h hs
      unfold nextDatum at h
      obtain ⟨a, s1, hw, h⟩ := bind_ok h
      have hs1 := parseWhitespace_pres hw hs
      cases a with
      | none =>
        obtain ⟨rfl, rfl⟩ := pure_ok h
        exact ⟨hs1, fun x hx => by cases hx⟩
      | some pk =>
        have hhead := parseWhitespace_head hw
        dsimp only at h
        obtain ⟨start, s2, hgp, h⟩ := bind_ok h
        rw [getPos_ok hgp] at h
        obtain ⟨tf, s2', htf, h⟩ := bind_ok h
        rw [tokenFuel_ok htf] at h
        obtain ⟨tok, s3, htok, h⟩ := bind_ok h
        obtain ⟨hs3, htokok⟩ := parseToken_pres htok hhead hs1
        cases tok with
        | byteVecOpen close =>
          dsimp only at h
          obtain ⟨bs, s4, hbl, h⟩ := bind_ok h
          obtain ⟨stop, s5, hgp5, h⟩ := bind_ok h
          rw [getPos_ok hgp5] at h
          obtain ⟨rfl, rfl⟩ := pure_ok h
          exact ⟨parseByteList_pres (tokOK_close htokok) hbl hs3,
            fun x hx => by cases hx; simp only [TextValid]⟩
        | vecOpen close =>
          dsimp only at h
          obtain ⟨_, s4, he, h⟩ := bind_ok h
          have hs4 := hs3.of_rd (enter_ok he)
          obtain ⟨ret, s5, hat, h⟩ := bind_ok h
          obtain ⟨_, s6, hl, h⟩ := bind_ok h
          obtain ⟨es, s7, hes, h⟩ := bind_ok h
          rcases attempt_ok hat with ⟨⟨xs, ms⟩, rfl, hpv⟩ | ⟨e, rfl, _⟩
          · obtain ⟨hs5, hxs⟩ := ihX hpv hs4 (by simp only [TextValidList])
            have hs6 := hs5.of_rd (leave_ok hl)
            rcases attempt_ok hes with ⟨u, rfl, hend⟩ | ⟨e, rfl, _⟩
            · dsimp only at h
              obtain ⟨stop, s8, hgp8, h⟩ := bind_ok h
              rw [getPos_ok hgp8] at h
              obtain ⟨rfl, rfl⟩ := pure_ok h
              exact ⟨endSeq_pres (tokOK_close htokok) hend hs6,
                fun x hx => by cases hx; simp only [TextValid]; exact hxs⟩
            · exact (liftExcept_error h).elim
          · cases es <;> exact (liftExcept_error h).elim
        | listOpen close =>
          dsimp only at h
          obtain ⟨_, s4, he, h⟩ := bind_ok h
          have hs4 := hs3.of_rd (enter_ok he)
          obtain ⟨ret, s5, hat, h⟩ := bind_ok h
          obtain ⟨_, s6, hl, h⟩ := bind_ok h
          obtain ⟨es, s7, hes, h⟩ := bind_ok h
          rcases attempt_ok hat with ⟨r, rfl, hpl⟩ | ⟨e, rfl, _⟩
          · obtain ⟨hs5, hv0⟩ := ihL hpl hs4 (by simp only [TextValidList])
            have hs6 := hs5.of_rd (leave_ok hl)
            rcases attempt_ok hes with ⟨u, rfl, hend⟩ | ⟨e, rfl, _⟩
            · have hs7 := endSeq_pres (tokOK_close htokok) hend hs6
              cases r with
              | none =>
                dsimp only at h
                obtain ⟨stop, s8, hgp8, h⟩ := bind_ok h
                rw [getPos_ok hgp8] at h
                obtain ⟨rfl, rfl⟩ := pure_ok h
                exact ⟨hs7, fun x hx => by cases hx; simp only [TextValid]⟩
              | some r =>
                obtain ⟨v0, c0, d0⟩ := r
                dsimp only at h
                obtain ⟨stop, s8, hgp8, h⟩ := bind_ok h
                rw [getPos_ok hgp8] at h
                obtain ⟨rfl, rfl⟩ := pure_ok h
                exact ⟨hs7, fun x hx => by cases hx; exact hv0 _ _ _ rfl⟩
            · cases r <;> exact (liftExcept_error h).elim
          · cases es <;> exact (liftExcept_error h).elim
        | quotation q =>
          dsimp only at h
          obtain ⟨tokenEnd, s3', hgp3, h⟩ := bind_ok h
          rw [getPos_ok hgp3] at h
          obtain ⟨_, s4, he, h⟩ := bind_ok h
          have hs4 := hs3.of_rd (enter_ok he)
          obtain ⟨ret, s5, hat, h⟩ := bind_ok h
          obtain ⟨_, s6, hl, h⟩ := bind_ok h
          rcases attempt_ok hat with ⟨ov, rfl, hnv⟩ | ⟨e, rfl, _⟩
          · obtain ⟨hs5, hov⟩ := ihV hnv hs4
            have hs6 := hs5.of_rd (leave_ok hl)
            cases ov with
            | none => simp [peekErr] at h
            | some d =>
              obtain ⟨rfl, rfl⟩ := pure_ok h
              refine ⟨hs6, fun x hx => ?_⟩
              cases hx
              simp only [Datum.quotation]
              apply textValid_list
              simp only [TextValidList, TextValid, and_true]
              exact ⟨quoteName_valid q, hov _ rfl⟩
          · exact (liftExcept_error h).elim
        | _ =>
          simp only [Token.atom] at h
          obtain ⟨stop, s4, hgp4, h⟩ := bind_ok h
          rw [getPos_ok hgp4] at h
          obtain ⟨h1, h2⟩ := pure_ok h
          subst h1; subst h2
          exact ⟨hs3, fun x hx => by cases hx; exact atom_text htokok rfl⟩
    · -- parse_list_meta
      intro term acc ms s s' r h hs hacc
      unfold parseListMeta at h
      obtain ⟨a, s1, hw, h⟩ := bind_ok h
      have hs1 := parseWhitespace_pres hw hs
      cases a with
      | none => simp [peekErr] at h
      | some c =>
        have hhead := parseWhitespace_head hw
        dsimp only at h
        rcases ite_ok h with ⟨_, h⟩ | ⟨_, h⟩
        · rcases ite_ok h with ⟨_, h⟩ | ⟨_, h⟩
          · simp [peekErr] at h
          rcases ite_ok h with ⟨_, h⟩ | ⟨_, h⟩
          · obtain ⟨rfl, rfl⟩ := pure_ok h
            exact ⟨hs1, fun v c d hx => by cases hx⟩
          · generalize buildMeta _ _ = bm at h
            obtain ⟨cm, dm⟩ := bm
            obtain ⟨rfl, rfl⟩ := pure_ok h
            exact ⟨hs1, fun v c d hx => by cases hx; exact textValid_list _ hacc⟩
        rcases ite_ok h with ⟨h46, h⟩ | ⟨_, h⟩
        · obtain ⟨start, s1', hgp, h⟩ := bind_ok h
          rw [getPos_ok hgp] at h
          obtain ⟨_, s2, hd, h⟩ := bind_ok h
          have hs2 := discard_pres hd hhead (by rw [eq_of_beq h46]; decide) hs1
          obtain ⟨nxt, s3, hp, h⟩ := bind_ok h
          obtain ⟨hm3, hr3, _⟩ := peekOrNull_ok hp
          have hs3 : SV s3 := hs2.same hm3 hr3
          rcases ite_ok h with ⟨_, h⟩ | ⟨_, h⟩
          · rcases ite_ok h with ⟨_, h⟩ | ⟨_, h⟩
            · obtain ⟨a, s4, _, h⟩ := bind_ok h
              cases a <;> simp [peekErr] at h
            · obtain ⟨tail, s4, ht, h⟩ := bind_ok h
              obtain ⟨ov, s4', hnv, ht⟩ := bind_ok ht
              obtain ⟨hs4', hov⟩ := ihV hnv hs3
              cases ov with
              | none => simp [peekErr] at ht
              | some v0 =>
                obtain ⟨rfl, rfl⟩ := pure_ok ht
                obtain ⟨a, s5, hw5, h⟩ := bind_ok h
                have hs5 := parseWhitespace_pres hw5 hs4'
                cases a with
                | none => simp [peekErr] at h
                | some c' =>
                  dsimp only at h
                  rcases ite_ok h with ⟨_, h⟩ | ⟨_, h⟩
                  · generalize buildMeta _ _ = bm at h
                    obtain ⟨cm, dm⟩ := bm
                    obtain ⟨rfl, rfl⟩ := pure_ok h
                    exact ⟨hs5, fun v c d hx => by
                      cases hx; exact textValid_append _ _ hacc (hov _ rfl)⟩
                  · simp [peekErr] at h
          · obtain ⟨name, s4, hsym, h⟩ := bind_ok h
            have hv := symCall_valid hsym (by decide) hs3
            obtain ⟨stop, s5, hgp5, h⟩ := bind_ok h
            rw [getPos_ok hgp5] at h
            exact ihL h (parseSymbolBytes_pres hsym hs3)
              (textValidList_snoc _ _ hacc (symbolValue_text _ hv))
        · obtain ⟨ov, s2, hnv, h⟩ := bind_ok h
          obtain ⟨hs2, hov⟩ := ihV hnv hs1
          cases ov with
          | none => simp [peekErr] at h
          | some d0 => exact ihL h hs2 (textValidList_snoc _ _ hacc (hov _ rfl))
    · -- parse_vector_meta
      intro term acc ms s s' r h hs hacc
      unfold parseVectorMeta at h
      obtain ⟨a, s1, hw, h⟩ := bind_ok h
      have hs1 := parseWhitespace_pres hw hs
      cases a with
      | none => simp [peekErr] at h
      | some c =>
        dsimp only at h
        rcases ite_ok h with ⟨_, h⟩ | ⟨_, h⟩
        · rcases ite_ok h with ⟨_, h⟩ | ⟨_, h⟩
          · simp [peekErr] at h
          · obtain ⟨rfl, rfl⟩ := pure_ok h
            exact ⟨hs1, hacc⟩
        · obtain ⟨ov, s2, hnv, h⟩ := bind_ok h
          obtain ⟨hs2, hov⟩ := ihV hnv hs1
          cases ov with
          | none => simp [peekErr] at h
          | some d0 => exact ihX h hs2 (textValidList_snoc _ _ hacc (hov _ rfl))

end Parse.U8

namespace Parse.U8
open Print.U8

theorem nextDatumTop_pres {cfg : Cfg} {s s' : St} {d : Option Datum}
    (h : nextDatumTop cfg s = .ok d s') (hs : SV s) :
    SV s' ∧ ∀ x, d = some x → TextValid x.value := by
  unfold nextDatumTop at h
  obtain ⟨f, s1, hf, h⟩ := bind_ok h
  rw [apiFuel_ok hf] at h
  exact (datumInv cfg f).1 h hs

theorem expectDatum_pres {cfg : Cfg} {s s' : St} {d : Datum}
    (h : expectDatum cfg s = .ok d s') (hs : SV s) : SV s' ∧ TextValid d.value := by
  unfold expectDatum at h
  obtain ⟨ov, s1, hn, h⟩ := bind_ok h
  obtain ⟨hs1, hv⟩ := nextDatumTop_pres hn hs
  cases ov with
  | none => simp [peekErr] at h
  | some x =>
    obtain ⟨rfl, rfl⟩ := pure_ok h
    exact ⟨hs1, hv _ rfl⟩

theorem fromTraitDatum_text {cfg : Cfg} {s s' : St} {d : Datum}
    (h : fromTraitDatum cfg s = .ok d s') (hs : SV s) : TextValid d.value := by
  unfold fromTraitDatum at h
  obtain ⟨x, s1, he, h⟩ := bind_ok h
  obtain ⟨_, s2, _, h⟩ := bind_ok h
  obtain ⟨rfl, _⟩ := pure_ok h
  exact (expectDatum_pres he hs).2

theorem expectEnd_pres {s s' : St} {u : Unit} (h : expectEnd s = .ok u s') (hs : SV s) : SV s' := by
  unfold expectEnd at h
  obtain ⟨a, s1, hw, h⟩ := bind_ok h
  have hs1 := parseWhitespace_pres hw hs
  cases a with
  | some _ => simp [peekErr] at h
  | none => rw [← (pure_ok h).2]; exact hs1

end Parse.U8

/-! ## Main theorems -/

namespace C17
open Utf8 Print Parse Utf8.U8 Print.U8 Parse.U8

/-- The invariant of the `&str` source: the unread input is well-formed UTF-8 (nothing is
    claimed for the slice and stream sources, whose results are checked). -/
abbrev StrInputValid (s : Parse.St) : Prop := s.rd.mode = .str → valid s.rd.rest = true

example (input : List UInt8) (h : valid input = true) : StrInputValid (initSt .str input) := fun _ => h
example (input : List UInt8) : StrInputValid (initSt .slice input) := fun h => by cases h

/-- **C17 (tokens, full).**  `parse_token`, called with the byte `pk` that `parse_whitespace`
    peeked, never stops inside a multi-byte sequence — the invariant holds again afterwards —
    and the text of a symbol / keyword / string token is well-formed. -/
theorem C17_token_preserves {cfg : Cfg} {fuel : Nat} {pk : UInt8} {s s' : Parse.St} {tok : Token}
    (h : parseToken cfg fuel pk s = .ok tok s') (hpk : ∃ tl, s.rd.rest = pk :: tl)
    (hs : StrInputValid s) : StrInputValid s' ∧ TokOK tok :=
  parseToken_pres h hpk hs

/-- **C17 (`next_value` / `Parser::next` / the value iterator).**  One successful call preserves
    the invariant (so it holds for the next call) and every string, symbol and keyword in the
    value returned is well-formed UTF-8. -/
theorem C17_next_value_valid {cfg : Cfg} {s s' : Parse.St} {v : Option Value}
    (h : nextValueTop cfg s = .ok v s') (hs : StrInputValid s) :
    StrInputValid s' ∧ ∀ x, v = some x → TextValid x :=
  nextValueTop_pres h hs

/-- **C17 (`next_datum` / the datum iterator).** -/
theorem C17_next_datum_valid {cfg : Cfg} {s s' : Parse.St} {d : Option Datum}
    (h : nextDatumTop cfg s = .ok d s') (hs : StrInputValid s) :
    StrInputValid s' ∧ ∀ x, d = some x → TextValid x.value :=
  nextDatumTop_pres h hs

/-- `expect_value`, `expect_datum` and `expect_end` preserve the invariant as well. -/
theorem C17_expect_valid {cfg : Cfg} {s s' : Parse.St} :
    (∀ {v : Value}, expectValue cfg s = .ok v s' → StrInputValid s → StrInputValid s' ∧ TextValid v) ∧
    (∀ {d : Datum}, expectDatum cfg s = .ok d s' → StrInputValid s →
        StrInputValid s' ∧ TextValid d.value) ∧
    (∀ {u : Unit}, expectEnd s = .ok u s' → StrInputValid s → StrInputValid s') :=
  ⟨fun h hs => expectValue_pres h hs, fun h hs => expectDatum_pres h hs,
   fun h hs => expectEnd_pres h hs⟩

/-- **C17 (`from_str`, `from_slice`, `from_reader` and the `_custom` variants).**  Whatever the
    options, the source and the input: if parsing succeeds — and, for the `&str` source, the
    input is well-formed UTF-8, which the type `&str` guarantees — every string, symbol and
    keyword of the value is well-formed UTF-8. -/
theorem C17_from_valid (cfg : Cfg) (mode : Mode) (input : List UInt8) (faulty : Bool)
    (hin : mode = .str → valid input = true) {v : Value} {s' : Parse.St}
    (h : fromTrait cfg (initSt mode input faulty) = .ok v s') : TextValid v :=
  fromTrait_text h hin

/-- The same for `datum::from_str` etc. -/
theorem C17_from_datum_valid (cfg : Cfg) (mode : Mode) (input : List UInt8) (faulty : Bool)
    (hin : mode = .str → valid input = true) {d : Datum} {s' : Parse.St}
    (h : fromTraitDatum cfg (initSt mode input faulty) = .ok d s') : TextValid d.value :=
  fromTraitDatum_text h hin

/-- Reading and printing again: the printed text (and every single write) is well-formed. -/
theorem C17_parse_print_valid (cfg : Cfg) (mode : Mode) (input : List UInt8) (faulty : Bool)
    (hin : mode = .str → valid input = true) {v : Value} {s' : Parse.St}
    (h : fromTrait cfg (initSt mode input faulty) = .ok v s')
    (o : Print.Options) {ryu : Nat → List UInt8} (hryu : ∀ b, ∀ x ∈ ryu b, x < 0x80) :
    valid (Print.text o ryu v) = true ∧ ∀ e ∈ Print.emits o ryu v, valid e.bytes = true :=
  C17_print_valid_text o hryu (C17_from_valid cfg mode input faulty hin h)

def exampleCfg : Cfg := ⟨Parse.Options.default, true, fun _ => true, fun _ => 0⟩

/-- `(λ "é\x3bb;" . #:ключ)` -/
def exampleInput : List UInt8 :=
  [40, 0xCE, 0xBB, 32, 34, 0xC3, 0xA9, 92, 120, 51, 98, 98, 59, 34, 32, 46, 32, 35, 58,
   0xD0, 0xBA, 0xD0, 0xBB, 0xD1, 0x8E, 0xD1, 0x87, 41]

example : valid exampleInput = true := by decide

def Res.isOk {α : Type} : Parse.Res α → Bool
  | .ok _ _ => true
  | _ => false

theorem Res.exists_of_isOk {α : Type} {r : Parse.Res α} (h : Res.isOk r = true) :
    ∃ a s', r = .ok a s' := by
  cases r with
  | ok a s' => exact ⟨a, s', rfl⟩
  | err e s' => cases h
  | panic p => cases h
  | fuel => cases h

/-- the hypotheses of `C17_from_valid` are satisfied by this input (the result is
    `(λ "éλ" . #:ключ)`, checked by kernel evaluation) -/
example : ∃ v s', fromTrait exampleCfg (initSt .str exampleInput) = .ok v s' :=
  Res.exists_of_isOk (by decide +kernel)

/-- … and the value is the expected one -/
example : (match fromTrait exampleCfg (initSt .str exampleInput) with
    | .ok v _ => v.beq (.cons (.symbol [0xCE, 0xBB]) (.cons (.string [0xC3, 0xA9, 0xCE, 0xBB])
        (.keyword [0xD0, 0xBA, 0xD0, 0xBB, 0xD1, 0x8E, 0xD1, 0x87])))
    | _ => false) = true := by decide +kernel

example : ∃ d s', fromTraitDatum exampleCfg (initSt .str exampleInput) = .ok d s' :=
  Res.exists_of_isOk (by decide +kernel)

end C17
end Lexpr
