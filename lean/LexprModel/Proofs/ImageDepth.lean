/-
  ImageDepth — the lexer never touches the recursion budget.

  `DepP m`: every successful run of `m` leaves `remaining_depth` unchanged.  Shown for every
  function below `parse_token` (and `parse_token` itself) by a goal-directed tactic, in the
  style of `SufP` in `Utf8Parse.lean`.  (`Safety.lean` has the same fact inside its `Safe`
  judgement, but only for inputs shorter than `i32::MAX - 1`, because that judgement also excludes
  the exponent-overflow panic; here no bound on the input is needed.)
-/
import LexprModel.Proofs.Utf8Parse
namespace Lexpr
namespace Parse
namespace Image
open U8

/-- every successful run of `m` keeps the depth budget -/
structure DepP {α : Type} (m : P α) : Prop where
  ok : ∀ s a s', m s = .ok a s' → s'.depth = s.depth

theorem DepP.pure {α : Type} (a : α) : DepP (pure a : P α) := by
  constructor; intro s b s' h; obtain ⟨_, rfl⟩ := pure_ok h; rfl
theorem DepP.bind {α β : Type} {m : P α} {f : α → P β} (hm : DepP m) (hf : ∀ a, DepP (f a)) :
    DepP (m >>= f) := by
  constructor
  intro s b s' h
  obtain ⟨a, s1, h1, h2⟩ := bind_ok h
  exact ((hf a).ok _ _ _ h2).trans (hm.ok _ _ _ h1)
theorem DepP.ite {α : Type} {c : Prop} [Decidable c] {f g : P α} (hf : DepP f) (hg : DepP g) :
    DepP (if c then f else g) := by
  split <;> assumption
theorem DepP.errAt {α : Type} (c : Code) : DepP (errAt c : P α) := by constructor; intro s a s' h; cases h
theorem DepP.peekErr {α : Type} (c : Code) : DepP (peekErr c : P α) := by constructor; intro s a s' h; cases h
theorem DepP.panicAt {α : Type} (p : Site) : DepP (panicAt p : P α) := by constructor; intro s a s' h; cases h
theorem DepP.outOfFuel {α : Type} : DepP (outOfFuel : P α) := by constructor; intro s a s' h; cases h
theorem DepP.rawErr {α : Type} (e : Err) : DepP (fun s' => Res.err e s' : P α) := by
  constructor; intro s a s' h; cases h
theorem DepP.getSt : DepP (fun s => Res.ok s s : P St) := by
  constructor; intro s a s' h; cases h; rfl
theorem DepP.peek : DepP peek := by
  constructor; intro s a s' h
  unfold Parse.peek at h
  split at h
  · cases h; rfl
  · split at h
    · cases h
    · cases h; rfl
theorem DepP.next : DepP next := by
  constructor; intro s a s' h
  unfold Parse.next at h
  split at h
  · cases h; rfl
  · split at h
    · cases h
    · cases h; rfl
theorem DepP.discard : DepP discard := by
  constructor; intro s a s' h
  unfold Parse.discard at h
  split at h
  · cases h; rfl
  · cases h
theorem DepP.consumeN (n : Nat) : DepP (consumeN n) := by
  constructor; intro s a s' h; cases h; rfl
theorem DepP.getRest : DepP getRest := by
  constructor; intro s a s' h; change Res.ok _ _ = Res.ok _ _ at h; cases h; rfl
theorem DepP.getMode : DepP getMode := by
  constructor; intro s a s' h; change Res.ok _ _ = Res.ok _ _ at h; cases h; rfl
theorem DepP.getPos : DepP getPos := by
  constructor; intro s a s' h; change Res.ok _ _ = Res.ok _ _ at h; cases h; rfl

syntax "depp" (" [" term,* "]")? : tactic
macro_rules
  | `(tactic| depp) => `(tactic| depp [])
  | `(tactic| depp [$ts,*]) => do
    let alts ← ts.getElems.mapM fun t => `(tactic| (apply $t))
    `(tactic| repeat' (first
      | assumption
      | exact DepP.pure _ | exact DepP.errAt _ | exact DepP.peekErr _ | exact DepP.panicAt _
      | exact DepP.outOfFuel | exact DepP.peek | exact DepP.next | exact DepP.discard
      | exact DepP.consumeN _ | exact DepP.getRest | exact DepP.getMode | exact DepP.getPos
      | exact DepP.rawErr _ | exact DepP.getSt
      $[| $alts:tactic]*
      | apply DepP.bind | apply DepP.ite | intro _ | split))

theorem DepP.peekOrNull : DepP peekOrNull := by unfold Parse.peekOrNull; depp
theorem DepP.nextOrNull : DepP nextOrNull := by unfold Parse.nextOrNull; depp
theorem DepP.nextOrEof : DepP nextOrEof := by unfold Parse.nextOrEof; depp
theorem DepP.nextOrEofChar : DepP nextOrEofChar := by unfold Parse.nextOrEofChar; depp
theorem DepP.parseWhitespace : DepP parseWhitespace := by unfold Parse.parseWhitespace; depp
theorem DepP.skipDigits : DepP skipDigits := by unfold Parse.skipDigits; depp
theorem DepP.f64FromParts (cfg : Cfg) (pos : Bool) (sig : Nat) (e : Int) :
    DepP (f64FromParts cfg pos sig e) := by unfold Parse.f64FromParts; depp
theorem DepP.parseExponentOverflow (pos : Bool) (sig : Nat) (posExp : Bool) :
    DepP (parseExponentOverflow pos sig posExp) := by
  unfold Parse.parseExponentOverflow; depp [DepP.skipDigits]

theorem DepP.readCont (n : Nat) : ∀ acc, DepP (readCont n acc) := by
  induction n with
  | zero => intro acc; simp only [Parse.readCont]; depp
  | succ n ih => intro acc; simp only [Parse.readCont]; depp [ih]

theorem DepP.decodeUtf8Sequence (b : UInt8) : DepP (decodeUtf8Sequence b) := by
  simp only [Parse.decodeUtf8Sequence]; depp [DepP.readCont]

theorem DepP.decodeR6rsHexEscape (f : Nat) : ∀ n, DepP (decodeR6rsHexEscape f n) := by
  induction f with
  | zero => intro n; simp only [Parse.decodeR6rsHexEscape]; depp
  | succ f ih => intro n; simp only [Parse.decodeR6rsHexEscape]; depp [ih, DepP.nextOrEof]

theorem DepP.parseR6rsEscape (f : Nat) (acc : List UInt8) : DepP (parseR6rsEscape f acc) := by
  simp only [Parse.parseR6rsEscape]; depp [DepP.nextOrEof, DepP.decodeR6rsHexEscape]

theorem DepP.finishStr (c : Bool) (bs : List UInt8) : DepP (finishStr c bs) := by
  simp only [Parse.finishStr]; depp

theorem DepP.parseR6rsStr (f : Nat) : ∀ acc, DepP (parseR6rsStr f acc) := by
  induction f with
  | zero => intro acc; simp only [Parse.parseR6rsStr]; depp
  | succ f ih =>
    intro acc; simp only [Parse.parseR6rsStr]
    depp [ih, DepP.nextOrEof, DepP.finishStr, DepP.parseR6rsEscape]

theorem DepP.decodeElispHexEscape (f : Nat) : ∀ n, DepP (decodeElispHexEscape f n) := by
  induction f with
  | zero => intro n; simp only [Parse.decodeElispHexEscape]; depp
  | succ f ih => intro n; simp only [Parse.decodeElispHexEscape]; depp [ih]

theorem DepP.decodeElispUniEscape (k : Nat) : ∀ n, DepP (decodeElispUniEscape k n) := by
  induction k with
  | zero => intro n; simp only [Parse.decodeElispUniEscape]; depp
  | succ f ih => intro n; simp only [Parse.decodeElispUniEscape]; depp [ih, DepP.nextOrEof]

theorem DepP.decodeElispOctalEscape (f : Nat) : ∀ n, DepP (decodeElispOctalEscape f n) := by
  induction f with
  | zero => intro n; simp only [Parse.decodeElispOctalEscape]; depp
  | succ f ih => intro n; simp only [Parse.decodeElispOctalEscape]; depp [ih]

theorem DepP.elispCharEscape (acc : List UInt8) (n : Nat) : DepP (elispCharEscape acc n) := by
  simp only [Parse.elispCharEscape]; depp
theorem DepP.elispUniCharEscape (acc : List UInt8) (n : Nat) : DepP (elispUniCharEscape acc n) := by
  simp only [Parse.elispUniCharEscape]; depp

theorem DepP.parseElispEscape (f : Nat) (acc : List UInt8) : DepP (parseElispEscape f acc) := by
  simp only [Parse.parseElispEscape]
  depp [DepP.nextOrEof, DepP.decodeElispHexEscape, DepP.decodeElispUniEscape,
    DepP.decodeElispOctalEscape, DepP.elispCharEscape, DepP.elispUniCharEscape]

theorem DepP.parseElispStr (f : Nat) : ∀ acc ub mb na, DepP (parseElispStr f acc ub mb na) := by
  induction f with
  | zero => intro acc ub mb na; simp only [Parse.parseElispStr]; depp
  | succ f ih =>
    intro acc ub mb na; simp only [Parse.parseElispStr]
    depp [ih, DepP.nextOrEof, DepP.finishStr, DepP.parseElispEscape]

theorem DepP.decodeR6rsCharHexEscape (f : Nat) : ∀ n b, DepP (decodeR6rsCharHexEscape f n b) := by
  induction f with
  | zero => intro n b; simp only [Parse.decodeR6rsCharHexEscape]; depp
  | succ f ih => intro n b; simp only [Parse.decodeR6rsCharHexEscape]; depp [ih]

theorem DepP.parseR6rsChar (f : Nat) : DepP (parseR6rsChar f) := by
  simp only [Parse.parseR6rsChar]
  depp [DepP.nextOrEofChar, DepP.decodeR6rsCharHexEscape, DepP.decodeUtf8Sequence]

theorem DepP.asChar (n : Nat) : DepP (asChar n) := by simp only [Parse.asChar]; depp

theorem DepP.asEscapedChar (n : Nat) : DepP (asEscapedChar n) := by
  simp only [Parse.asEscapedChar]; depp [DepP.asChar]

theorem DepP.decodeElispCharEscape (f : Nat) : DepP (decodeElispCharEscape f) := by
  simp only [Parse.decodeElispCharEscape]
  depp [DepP.nextOrEofChar, DepP.nextOrEof, DepP.decodeElispHexEscape, DepP.decodeElispUniEscape,
    DepP.decodeElispOctalEscape, DepP.asChar, DepP.asEscapedChar, DepP.decodeUtf8Sequence]

theorem DepP.parseElispChar (f : Nat) : DepP (parseElispChar f) := by
  simp only [Parse.parseElispChar]; depp [DepP.decodeUtf8Sequence, DepP.decodeElispCharEscape]

theorem DepP.exponentLoop (cfg : Cfg) (pos : Bool) (sig : Nat) (se : Int) (pe : Bool) (f : Nat) :
    ∀ e, DepP (exponentLoop cfg pos sig se pe f e) := by
  induction f with
  | zero => intro e; simp only [Parse.exponentLoop]; depp
  | succ f ih =>
    intro e; simp only [Parse.exponentLoop]
    depp [ih, DepP.peekOrNull, DepP.parseExponentOverflow, DepP.f64FromParts]

theorem DepP.parseExponent (cfg : Cfg) (f : Nat) (pos : Bool) (sig : Nat) (se : Int) :
    DepP (parseExponent cfg f pos sig se) := by
  simp only [Parse.parseExponent]; depp [DepP.peekOrNull, DepP.exponentLoop]

theorem DepP.decimalLoop (f : Nat) : ∀ sig e z a, DepP (decimalLoop f sig e z a) := by
  induction f with
  | zero => intro sig e z a; simp only [Parse.decimalLoop]; depp
  | succ f ih =>
    intro sig e z a; simp only [Parse.decimalLoop]; depp [ih, DepP.peekOrNull, DepP.skipDigits]

theorem DepP.parseDecimal (cfg : Cfg) (f : Nat) (pos : Bool) (sig : Nat) (e : Int) :
    DepP (parseDecimal cfg f pos sig e) := by
  simp only [Parse.parseDecimal]
  depp [DepP.peekOrNull, DepP.decimalLoop, DepP.parseExponent, DepP.f64FromParts]

set_option exponentiation.threshold 2000 in
theorem DepP.parseLongInteger (cfg : Cfg) (radix : Nat) (pos : Bool) (sig : Nat) (f : Nat) :
    ∀ e, DepP (parseLongInteger cfg radix pos sig f e) := by
  induction f with
  | zero => intro e; simp only [Parse.parseLongInteger]; depp
  | succ f ih =>
    intro e; simp only [Parse.parseLongInteger]
    depp [ih, DepP.peekOrNull, DepP.parseDecimal, DepP.parseExponent, DepP.f64FromParts]

theorem DepP.parseNumTail (cfg : Cfg) (f : Nat) (radix : Nat) (pos : Bool) (sig : Nat) :
    DepP (parseNumTail cfg f radix pos sig) := by
  simp only [Parse.parseNumTail]; depp [DepP.peekOrNull, DepP.parseDecimal, DepP.parseExponent]

theorem DepP.numLoop (cfg : Cfg) (radix : Nat) (pos : Bool) (f : Nat) :
    ∀ r, DepP (numLoop cfg radix pos f r) := by
  induction f with
  | zero => intro r; simp only [Parse.numLoop]; depp
  | succ f ih =>
    intro r; simp only [Parse.numLoop]
    depp [ih, DepP.peekOrNull, DepP.parseNumTail, DepP.parseLongInteger]

theorem DepP.parseNumLiteral (cfg : Cfg) (f : Nat) (radix : Nat) (pos : Bool) :
    DepP (parseNumLiteral cfg f radix pos) := by
  simp only [Parse.parseNumLiteral]; depp [DepP.numLoop]

theorem DepP.parseRadixLiteral (cfg : Cfg) (f : Nat) (radix : Nat) :
    DepP (parseRadixLiteral cfg f radix) := by
  simp only [Parse.parseRadixLiteral]; depp [DepP.peekOrNull, DepP.parseNumLiteral]

theorem DepP.expectNumberEnd (n : Number) : DepP (expectNumberEnd n) := by
  simp only [Parse.expectNumberEnd]; depp

theorem DepP.parseNumToken (cfg : Cfg) (f : Nat) (pos : Bool) : DepP (parseNumToken cfg f pos) := by
  simp only [Parse.parseNumToken]; depp [DepP.parseNumLiteral, DepP.expectNumberEnd]

theorem DepP.parseRadixToken (cfg : Cfg) (f : Nat) (radix : Nat) :
    DepP (parseRadixToken cfg f radix) := by
  simp only [Parse.parseRadixToken]; depp [DepP.parseRadixLiteral, DepP.expectNumberEnd]

theorem DepP.parseNumber (cfg : Cfg) (f : Nat) : DepP (parseNumber cfg f) := by
  simp only [Parse.parseNumber]; depp [DepP.peekOrNull, DepP.nextOrNull, DepP.parseRadixLiteral]

theorem DepP.expectIdent : ∀ cs, DepP (expectIdent cs)
  | [] => by simp only [Parse.expectIdent]; depp
  | c :: cs => by
    have ih := DepP.expectIdent cs
    simp only [Parse.expectIdent]; depp

theorem DepP.parseSymbolBytes (scratch : List UInt8) : DepP (parseSymbolBytes scratch) := by
  simp only [Parse.parseSymbolBytes]; depp

theorem DepP.parseSignDotSymbol (cfg : Cfg) (pfx : List UInt8) :
    DepP (parseSignDotSymbol cfg pfx) := by
  simp only [Parse.parseSignDotSymbol]; depp [DepP.peekOrNull, DepP.parseSymbolBytes]

theorem DepP.parseSignToken (cfg : Cfg) (f : Nat) (sign : UInt8) (pos : Bool) :
    DepP (parseSignToken cfg f sign pos) := by
  simp only [Parse.parseSignToken]
  depp [DepP.peekOrNull, DepP.parseSymbolBytes, DepP.parseSignDotSymbol, DepP.parseNumToken]

theorem DepP.parseToken (cfg : Cfg) (f : Nat) (pk : UInt8) : DepP (parseToken cfg f pk) := by
  simp only [Parse.parseToken]
  depp [DepP.peekOrNull, DepP.parseSymbolBytes, DepP.parseSignToken, DepP.parseNumToken,
    DepP.parseRadixToken, DepP.expectIdent, DepP.parseR6rsChar, DepP.parseElispChar,
    DepP.parseR6rsStr, DepP.parseElispStr, DepP.decodeUtf8Sequence]

theorem DepP.endSeq (close : UInt8) : DepP (endSeq close) := by
  simp only [Parse.endSeq]; depp [DepP.parseWhitespace]

theorem DepP.byteListLoop (cfg : Cfg) (close : UInt8) (f : Nat) :
    ∀ acc, DepP (byteListLoop cfg close f acc) := by
  induction f with
  | zero => intro acc; simp only [Parse.byteListLoop]; depp
  | succ f ih =>
    intro acc; simp only [Parse.byteListLoop]
    depp [ih, DepP.parseWhitespace, DepP.parseNumber, DepP.expectNumberEnd]

theorem DepP.parseByteList (cfg : Cfg) (f : Nat) (close : UInt8) :
    DepP (parseByteList cfg f close) := by
  simp only [Parse.parseByteList]; depp [DepP.parseWhitespace, DepP.byteListLoop]

theorem enter_inv {s s' : St} {u : Unit} (h : enter s = .ok u s') :
    s'.rd = s.rd ∧ s'.depth + 1 = s.depth ∧ 1 ≤ s'.depth := by
  unfold enter at h
  split at h
  · cases h
  · split at h
    · cases h
    · rename_i h0 h1
      simp only [Res.ok.injEq] at h
      rw [← h.2]
      simp only [beq_iff_eq] at h0 h1
      refine ⟨rfl, ?_, ?_⟩ <;> simp only <;> omega

theorem leave_inv {s s' : St} {u : Unit} (h : leave s = .ok u s') :
    s'.rd = s.rd ∧ s'.depth = s.depth + 1 := by
  unfold leave at h
  simp only [Res.ok.injEq] at h
  rw [← h.2]; exact ⟨rfl, rfl⟩

end Image
end Parse
end Lexpr
