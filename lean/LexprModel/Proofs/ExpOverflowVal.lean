/-
  Property C05, written exponents beyond `i32`, part 2: the result `parse_exponent_overflow`
  gives (`ExpOverflow.scan_over`) is what the exact value of the literal demands.

    * all significand digits zero        → `±0.0`, the exact value;
    * negative exponent                  → `±0.0`, and `0 < value < 2^-1075` (half the smallest
                                           subnormal: zero IS the correctly rounded double);
    * positive exponent, a non-zero digit → `NumberOutOfRange`, and `value ≥ 2^1024`.

  The magnitude bounds need a bound on the length of the literal: a long significand can
  compensate the exponent (`100…0e-2147483648` with `2^31 - 100` digits is `10^-101`, yet reads as
  `0.0`: `length_bound_needed` below; `0.00…01e2147483648` with `2^31 - 100` fraction digits is
  `10^100`, yet is rejected: `length_bound_needed_pos`; both confirmed on the real crate).  The bound used is `L.text.length + 324 ≤ 2^31`
  (about 2 GiB); the exact conditions are `ip.length + 324 ≤ 2^31` for the negative case
  (`litValue_tiny`) and `fp.length + 309 ≤ 2^31` for the positive one (`litValue_huge`).
-/
import LexprModel.Proofs.ExpOverflow
namespace Lexpr
namespace ExpOverflow
open Parse F64 Numbers Decimals Accuracy

/-! ## 1. The kept significand is zero exactly when all written digits are zero -/

theorem dec_pos {s : Nat} (hs : 0 < s) (e : Int) : 0 < dec s e := by
  unfold dec
  exact Rat.mul_pos (natCast_pos' hs) (ten_zpow_pos e)

theorem dec_zero_left (e : Int) : dec 0 e = 0 := by
  unfold dec; exact Rat.zero_mul _

theorem dec_eq_zero_iff (s : Nat) (e : Int) : dec s e = 0 ↔ s = 0 := by
  constructor
  · intro h
    by_cases h0 : s = 0
    · exact h0
    · have := dec_pos (Nat.pos_of_ne_zero h0) e
      rw [h] at this
      exact absurd this (Rat.lt_irrefl)
  · intro h; subst h; exact dec_zero_left e

theorem close_zero_iff {Pn Vn : Nat} (h : Close Pn Vn) : Pn = 0 ↔ Vn = 0 := by
  obtain ⟨h1, h2⟩ := h
  constructor
  · intro hp; subst hp
    simp only [Nat.sub_zero] at h1
    omega
  · intro hv; subst hv
    simp only [Nat.sub_zero] at h2
    omega

theorem allDigits_getD (fp : Option (List UInt8)) (hfp : ∀ g, fp = some g → AllDigits g) :
    AllDigits (fp.getD []) := by
  cases fp with
  | none => intro c hc; cases hc
  | some g => exact hfp g rfl

/-- the significand the scanners hand on is zero iff every written digit is `0` -/
theorem scanT_zero_iff (L : DecLit) (hipd : AllDigits L.ip)
    (hfp : ∀ g, L.fp = some g → AllDigits g)
    (hsm : L.ip.length + (L.fp.getD []).length ≤ i32Max) :
    L.scanT.1 = 0 ↔ L.rawSig = 0 := by
  obtain ⟨ip, fp, ex⟩ := L
  obtain ⟨Pn, Vn, q, c1, c2, c3⟩ := scanT_close ⟨ip, fp, none⟩ hipd hfp
    (by simpa [exAbs] using hsm)
  rw [scanT_fst_ex ip fp ex none]
  have a1 : (DecLit.scanT ⟨ip, fp, none⟩).1 = 0 ↔ Pn = 0 := by
    rw [← dec_eq_zero_iff _ (DecLit.scanT ⟨ip, fp, none⟩).2, c1, dec_eq_zero_iff]
  have a2 : DecLit.rawSig ⟨ip, fp, ex⟩ = 0 ↔ Vn = 0 := by
    unfold litValue at c2
    have : DecLit.rawSig ⟨ip, fp, ex⟩ = DecLit.rawSig ⟨ip, fp, none⟩ := rfl
    rw [this, ← dec_eq_zero_iff _ (DecLit.rawExp ⟨ip, fp, none⟩), c2, dec_eq_zero_iff]
  rw [a1, a2]
  exact close_zero_iff c3

/-! ## 2. The exact value of a literal whose exponent is beyond `i32` -/

theorem rawSig_lt (L : DecLit) (hipd : AllDigits L.ip) (hfp : ∀ g, L.fp = some g → AllDigits g) :
    L.rawSig < 10 ^ (L.ip.length + (L.fp.getD []).length) := by
  have := dv_lt (L.ip ++ L.fp.getD []) (hipd.append (allDigits_getD L.fp hfp))
  simpa [DecLit.rawSig] using this

theorem ten_m324_lt_eta : (10 : Rat) ^ (-324 : Int) < eta := by decide +kernel
theorem two1024_le_ten309 : (2 : Rat) ^ 1024 ≤ (10 : Rat) ^ (309 : Int) := by decide +kernel

/-- `sig < 10^n` and `n + e ≤ -324`: below half the smallest subnormal -/
theorem dec_lt_eta {sig n : Nat} {e : Int} (hs : sig < 10 ^ n) (he : (n : Int) + e ≤ -324) :
    dec sig e < eta := by
  have h1 : (sig : Rat) ≤ ((10 ^ n : Nat) : Rat) := Rat.natCast_le_natCast.mpr (Nat.le_of_lt hs)
  rw [ten_pow_cast] at h1
  have h2 := Rat.mul_le_mul_of_nonneg_right h1 (Rat.le_of_lt (ten_zpow_pos e))
  have h3 : (10 : Rat) ^ n * (10 : Rat) ^ e = (10 : Rat) ^ ((n : Int) + e) := by
    rw [Rat.zpow_add ten_ne, Rat.zpow_natCast]
  rw [h3] at h2
  have h4 := ten_zpow_mono he
  have h5 := ten_m324_lt_eta
  unfold dec
  grind

/-- `sig ≥ 1` and `e ≥ 309`: at least `2^1024`, beyond every double -/
theorem dec_ge_two1024 {sig : Nat} {e : Int} (hs : 0 < sig) (he : 309 ≤ e) :
    (2 : Rat) ^ 1024 ≤ dec sig e := by
  have h1 := natCast_one_le hs
  have h2 := Rat.mul_le_mul_of_nonneg_right h1 (Rat.le_of_lt (ten_zpow_pos e))
  rw [Rat.one_mul] at h2
  have h4 := ten_zpow_mono he
  have h5 := two1024_le_ten309
  unfold dec
  grind

theorem rawExp_some (L : DecLit) (e : ExpPart) (hex : L.ex = some e) :
    L.rawExp = (if expSignPos e.sign then (e.abs : Int) else -(e.abs : Int)) -
      ((L.fp.getD []).length : Int) := by
  simp [DecLit.rawExp, DecLit.expVal, hex, exVal, ExpPart.val]

/-- negative exponent beyond `i32`, at most `2^31 - 324` integer digits: the value is below
    `2^-1075` (however many fraction digits) -/
theorem litValue_tiny (L : DecLit) (e : ExpPart) (hex : L.ex = some e)
    (hneg : expSignPos e.sign = false) (hov : i32Max < e.abs) (hipd : AllDigits L.ip)
    (hfp : ∀ g, L.fp = some g → AllDigits g) (hlen : L.ip.length + 324 ≤ 2 ^ 31) :
    litValue L < eta := by
  unfold litValue
  apply dec_lt_eta (rawSig_lt L hipd hfp)
  rw [rawExp_some L e hex, hneg]
  simp only [Bool.false_eq_true, if_false]
  unfold i32Max at hov
  omega

/-- positive exponent beyond `i32`, a non-zero digit, at most `2^31 - 309` fraction digits: the
    value is at least `2^1024` -/
theorem litValue_huge (L : DecLit) (e : ExpPart) (hex : L.ex = some e)
    (hpos : expSignPos e.sign = true) (hov : i32Max < e.abs) (hnz : L.rawSig ≠ 0)
    (hlen : (L.fp.getD []).length + 309 ≤ 2 ^ 31) :
    (2 : Rat) ^ 1024 ≤ litValue L := by
  unfold litValue
  apply dec_ge_two1024 (Nat.pos_of_ne_zero hnz)
  rw [rawExp_some L e hex, hpos]
  simp only [if_true]
  unfold i32Max at hov
  omega

theorem litValue_zero (L : DecLit) (h : L.rawSig = 0) : litValue L = 0 := by
  unfold litValue; rw [h]; exact dec_zero_left _

theorem litValue_pos (L : DecLit) (h : L.rawSig ≠ 0) : 0 < litValue L :=
  dec_pos (Nat.pos_of_ne_zero h) _

/-! ## 3. The theorem -/

theorem text_length (L : DecLit) (e : ExpPart) (hex : L.ex = some e) :
    L.text.length = L.ip.length + ((fracText L.fp).length + e.text.length) := by
  simp [DecLit.text, hex, expText]

theorem fracText_length (fp : Option (List UInt8)) :
    (fp.getD []).length ≤ (fracText fp).length := by
  cases fp <;> simp [fracText]

/-- where `NumberOutOfRange` is raised: after the exponent digit at which the accumulator leaves
    `i32` (byte offset from the start of the literal) -/
def errOffset (L : DecLit) (e : ExpPart) : Nat :=
  L.ip.length + ((fracText L.fp).length + (1 + e.sign.length + ovfAt 0 e.digits))

theorem errOffset_le (L : DecLit) (e : ExpPart) (hex : L.ex = some e) :
    errOffset L e ≤ L.text.length := by
  have := ovfAt_le e.digits 0
  rw [text_length L e hex]
  simp only [errOffset, ExpPart.text, List.length_cons, List.length_append]
  omega

/-- **C05_exp_overflow.**  A decimal literal `digits [. digits] (e|E) [+|-] digits` whose written
    exponent does not fit `i32` (any number of exponent digits), at most `2^31 - 324` bytes long,
    followed by the end of the input or a byte that is neither a digit nor `e`/`E`; every option
    set, both builds, all source modes.  The reader's result is exactly what the exact value
    `litValue L` of the literal demands:

    * all significand digits zero: the whole literal is consumed, the result is the zero with the
      literal's sign, and the value is `0`;
    * a non-zero digit, negative exponent: likewise a signed zero, and `0 < value < 2^-1075`, so
      zero is the correctly rounded double;
    * a non-zero digit, positive exponent: `NumberOutOfRange`, raised `errOffset L e` bytes into
      the literal (right after the exponent digit that overflowed the accumulator), and
      `value ≥ 2^1024`, beyond the range of a double — never infinity or NaN. -/
theorem C05_exp_overflow (cfg : Cfg) (fuel : Nat) (pos : Bool) (L : DecLit) (e : ExpPart)
    (rest : List UInt8) (s : St)
    (hipne : L.ip ≠ []) (hipd : AllDigits L.ip)
    (hfp : ∀ g, L.fp = some g → g ≠ [] ∧ AllDigits g) (hex : L.ex = some e) (hwf : e.WF)
    (hov : i32Max < e.abs)
    (hrest : s.rd.rest = L.text ++ rest) (hstop : ScanStop rest)
    (hf : rest = [] → s.rd.faulty = false)
    (hlen : L.text.length + 324 ≤ 2 ^ 31) (hfuel : L.text.length + 1 ≤ fuel) :
    (L.rawSig = 0 →
      parseNumLiteral cfg fuel 10 pos s =
        .ok (Number.flt (signed pos 0)) (adv s L.text.length (endPeek s rest)) ∧
      litValue L = 0) ∧
    (L.rawSig ≠ 0 → expSignPos e.sign = false →
      parseNumLiteral cfg fuel 10 pos s =
        .ok (Number.flt (signed pos 0)) (adv s L.text.length (endPeek s rest)) ∧
      0 < litValue L ∧ litValue L < eta) ∧
    (L.rawSig ≠ 0 → expSignPos e.sign = true →
      parseNumLiteral cfg fuel 10 pos s = errAt .numberOutOfRange (adv s (errOffset L e) false) ∧
      (2 : Rat) ^ 1024 ≤ litValue L) := by
  have hl := text_length L e hex
  have hfl := fracText_length L.fp
  have hfp' : ∀ g, L.fp = some g → AllDigits g := fun g hg => (hfp g hg).2
  have hscan := scan_over cfg fuel pos L e rest s hipne hipd hfp hex hwf hov hrest hstop hf
    (by unfold i32Max; omega) hfuel
  have hz := scanT_zero_iff L hipd hfp' (by unfold i32Max; omega)
  refine ⟨fun h0 => ?_, fun h0 hneg => ?_, fun h0 hp => ?_⟩
  · refine ⟨?_, litValue_zero L h0⟩
    rw [hscan, hz.mpr h0]
    rfl
  · refine ⟨?_, litValue_pos L h0, litValue_tiny L e hex hneg hov hipd hfp' (by omega)⟩
    rw [hscan, hneg]
    simp only [overflowOut, Bool.and_false, Bool.false_eq_true, if_false]
  · refine ⟨?_, litValue_huge L e hex hp hov h0 (by omega)⟩
    have hS : (L.scanT.1 != 0) = true := by
      simp only [bne_iff_ne, ne_eq]
      exact fun h => h0 (hz.mp h)
    rw [hscan, hp]
    simp only [overflowOut, hS, Bool.and_self, if_true, errOffset]

#print axioms C05_exp_overflow

/-! ## 4. Examples -/

/-- the whole input is read as the float with bit pattern `bits` -/
def okFltIs (bits : Nat) : Res Value → Bool
  | .ok (.number (.flt b)) s' => b == bits && s'.rd.rest == []
  | _ => false

/-- the error `c` at line `l`, column `k`, with `rest` unread -/
def errAtIs {α : Type} (c : Code) (l k : Nat) (rest : List UInt8) : Res α → Bool
  | .err (.syntax c' l' k') s' => c' == c && l' == l && k' == k && s'.rd.rest == rest
  | _ => false

/-- Kernel-evaluated, whole inputs through `from_str` (`fromTrait`), both builds:
    `1e99999999999` is `NumberOutOfRange` at 1:12 (after the tenth exponent digit, one digit
    unread — as the real code reports it), `1e-99999999999` and `0e99999999999` are `+0.0`,
    `-0.0e-99999999999` is `-0.0` (`0x8000000000000000`), `-7.25E-0000000000002147483648` too
    (leading zeros do not overflow the accumulator, the value does), `0.000e+2147483648`
    is `+0.0`, not an error, and inside a list the error is at 1:35 (`end_seq` then eats the
    closing parenthesis, as in the real code). -/
example :
    errAtIs .numberOutOfRange 1 12 (asc "9") (fromTrait exCfgFast (initSt .str (asc "1e99999999999"))) = true ∧
    errAtIs .numberOutOfRange 1 12 (asc "9") (fromTrait exCfgSlow (initSt .str (asc "1e99999999999"))) = true ∧
    okFltIs 0 (fromTrait exCfgFast (initSt .str (asc "1e-99999999999"))) = true ∧
    okFltIs 0 (fromTrait exCfgSlow (initSt .io (asc "1e-99999999999"))) = true ∧
    okFltIs 0 (fromTrait exCfgFast (initSt .slice (asc "0e99999999999"))) = true ∧
    okFltIs 0x8000000000000000 (fromTrait exCfgFast (initSt .str (asc "-0.0e-99999999999"))) = true ∧
    okFltIs 0x8000000000000000
      (fromTrait exCfgFast (initSt .str (asc "-7.25E-0000000000002147483648"))) = true ∧
    okFltIs 0 (fromTrait exCfgSlow (initSt .str (asc "0.000e+2147483648"))) = true ∧
    errAtIs .numberOutOfRange 1 35 []
      (fromTrait exCfgFast (initSt .str (asc "(12345678901234567890.5e+2147483648)"))) = true := by
  decide +kernel

/-- the boundary: `2147483647` still goes through `f64_from_parts` (`Decimals.C05_scan_any`),
    `2147483648` is the first exponent on the overflow path -/
example : ovfAt 0 (asc "2147483647") = 10 ∧ dv 0 (asc "2147483647") = i32Max ∧
    ovfAt 0 (asc "2147483648") = 10 ∧ ovfAt 0 (asc "99999999999") = 10 ∧
    ovfAt 0 (asc "0000000000002147483648") = 22 := by decide

/-- `1.50e+99999999999`: a literal meeting all hypotheses of `C05_exp_overflow` -/
def exOver : DecLit := ⟨asc "1", some (asc "50"), some ⟨101, asc "+", asc "99999999999"⟩⟩

example (cfg : Cfg) (pos : Bool) :=
  C05_exp_overflow cfg 30 pos exOver ⟨101, asc "+", asc "99999999999"⟩ (asc ")")
    (exSt (exOver.text ++ asc ")")) (by decide) (by decide)
    (fun g hg => by cases hg; exact ⟨by decide, by decide⟩) rfl
    ⟨Or.inl rfl, Or.inr (Or.inl rfl), by decide, by decide⟩ (by decide) rfl (by decide)
    (fun h => by cases h) (by decide) (by decide)

example : exOver.text = asc "1.50e+99999999999" ∧ exOver.rawSig = 150 ∧ errOffset exOver
    ⟨101, asc "+", asc "99999999999"⟩ = 16 := by decide

/-! ## 5. The bound on the length is needed -/

/-- `1` followed by `N` zeros and `e-2147483648` -/
def longOne (N : Nat) : DecLit :=
  ⟨49 :: List.replicate N 48, none, some ⟨101, [45], asc "2147483648"⟩⟩

theorem longOne_text_length (N : Nat) : (longOne N).text.length = N + 13 := by
  simp only [longOne, DecLit.text, fracText, expText, ExpPart.text, List.length_append,
    List.length_cons, List.length_replicate, List.length_nil]
  have : (asc "2147483648").length = 10 := by decide
  omega

theorem longOne_value (N : Nat) : litValue (longOne N) = (10 : Rat) ^ ((N : Int) - 2147483648) := by
  have h1 : (longOne N).rawSig = 10 ^ N := by
    simp only [longOne, DecLit.rawSig, Option.getD_none, List.append_nil]
    rw [dv_cons, dv_trailing_zeros]
    simp
  have h2 : (longOne N).rawExp = -2147483648 := rfl
  unfold litValue dec
  rw [h1, h2, ten_pow_cast, ← Rat.zpow_natCast, ← Rat.zpow_add ten_ne]
  congr 1

/-- **length_bound_needed.**  Without a bound on the length of the literal the magnitude claim
    is false, also below `2^31` bytes: the literal `100…0e-2147483648` with `N + 1` integer
    digits (`N + 1 ≤ i32::MAX`) is read as `±0.0` by every build, while its value is
    `10^(N - 2^31)`.  With `N = 2^31 - 101` the literal has `2^31 - 88` bytes and the value
    `10^-101`: zero is then far outside the accuracy bound of the property.  (A 2 GiB literal;
    `parse_exponent_overflow` ignores the exponent accumulated by `parse_long_integer`.) -/
theorem length_bound_needed (cfg : Cfg) (fuel : Nat) (pos : Bool) (N : Nat) (rest : List UInt8)
    (s : St) (hN : N + 1 ≤ i32Max) (hrest : s.rd.rest = (longOne N).text ++ rest)
    (hstop : ScanStop rest) (hf : rest = [] → s.rd.faulty = false)
    (hfuel : (longOne N).text.length + 1 ≤ fuel) :
    parseNumLiteral cfg fuel 10 pos s =
      .ok (Number.flt (signed pos 0)) (adv s (longOne N).text.length (endPeek s rest)) ∧
    litValue (longOne N) = (10 : Rat) ^ ((N : Int) - 2147483648) := by
  refine ⟨?_, longOne_value N⟩
  have hd : AllDigits (longOne N).ip :=
    AllDigits.append (a := [49]) (by decide) (allDigits_replicate N)
  rw [scan_over cfg fuel pos (longOne N) ⟨101, [45], asc "2147483648"⟩ rest s (by simp [longOne])
    hd (fun g hg => by cases hg) rfl ⟨Or.inl rfl, Or.inr (Or.inr rfl), by decide, by decide⟩
    (by decide) hrest hstop hf (by simpa [longOne] using hN) hfuel]
  have : expSignPos [45] = false := by decide
  simp only [overflowOut, this, Bool.and_false, Bool.false_eq_true, if_false]

/-- the instance: fewer than `2^31` bytes, value `10^-101`, result `±0.0` -/
example (cfg : Cfg) (pos : Bool) (s : St) (hrest : s.rd.rest = (longOne 2147483547).text)
    (hfl : s.rd.faulty = false) :
    (longOne 2147483547).text.length < 2 ^ 31 ∧
    parseNumLiteral cfg 2147483561 10 pos s =
      .ok (Number.flt (signed pos 0)) (adv s (longOne 2147483547).text.length (endPeek s [])) ∧
    litValue (longOne 2147483547) = (10 : Rat) ^ (-101 : Int) ∧
    eta < (10 : Rat) ^ (-101 : Int) := by
  have h := length_bound_needed cfg 2147483561 pos 2147483547 [] s (by decide)
    (by simpa using hrest) (by decide) (fun _ => hfl) (by rw [longOne_text_length]; decide)
  exact ⟨by rw [longOne_text_length]; decide, h.1, by rw [h.2]; congr 1, by decide +kernel⟩

/-- `0.` followed by `N` zeros, a `1`, and `e2147483648` -/
def longFrac (N : Nat) : DecLit :=
  ⟨[48], some (List.replicate N 48 ++ [49]), some ⟨101, [], asc "2147483648"⟩⟩

theorem longFrac_rawSig (N : Nat) : (longFrac N).rawSig = 1 := by
  simp only [longFrac, DecLit.rawSig, Option.getD_some, List.singleton_append, dv_cons]
  rw [dv_append, dv_trailing_zeros]
  have : (0 * 10 + (UInt8.toNat 48 - 48)) = 0 := by decide
  rw [this, Nat.zero_mul]
  decide

theorem longFrac_value (N : Nat) :
    litValue (longFrac N) = (10 : Rat) ^ ((2147483648 : Int) - ((N + 1 : Nat) : Int)) := by
  have h2 : (longFrac N).rawExp = (2147483648 : Int) - ((N + 1 : Nat) : Int) := by
    have : (longFrac N).rawExp =
        (2147483648 : Int) - (((List.replicate N 48 ++ [49] : List UInt8).length : Nat) : Int) := rfl
    rw [this]
    simp
  unfold litValue dec
  rw [longFrac_rawSig, h2]
  exact Rat.one_mul _

/-- **length_bound_needed_pos.**  The positive counterpart: `0.00…01e2147483648` with `N`
    zeros after the point (`N + 2 ≤ i32::MAX`) is rejected as `NumberOutOfRange` by every build,
    while its value is `10^(2^31 - N - 1)`; with `N = 2^31 - 101` that is `10^100`, an ordinary
    double.  (Again a literal of about 2 GiB.) -/
theorem length_bound_needed_pos (cfg : Cfg) (fuel : Nat) (pos : Bool) (N : Nat)
    (rest : List UInt8) (s : St) (hN : N + 2 ≤ i32Max)
    (hrest : s.rd.rest = (longFrac N).text ++ rest)
    (hstop : ScanStop rest) (hf : rest = [] → s.rd.faulty = false)
    (hfuel : (longFrac N).text.length + 1 ≤ fuel) :
    parseNumLiteral cfg fuel 10 pos s =
      errAt .numberOutOfRange
        (adv s (errOffset (longFrac N) ⟨101, [], asc "2147483648"⟩) false) ∧
    litValue (longFrac N) = (10 : Rat) ^ ((2147483648 : Int) - ((N + 1 : Nat) : Int)) := by
  refine ⟨?_, longFrac_value N⟩
  have hd : AllDigits (List.replicate N 48 ++ [49]) :=
    AllDigits.append (allDigits_replicate N) (by decide)
  have hip : AllDigits (longFrac N).ip := by
    show AllDigits [48]
    decide
  have hz := scanT_zero_iff (longFrac N) hip
    (fun g hg => by cases hg; exact hd)
    (by simp only [longFrac, Option.getD_some, List.length_append, List.length_replicate,
          List.length_cons, List.length_nil]; omega)
  have hS : ((longFrac N).scanT.1 != 0) = true := by
    simp only [bne_iff_ne, ne_eq]
    intro h
    have := hz.mp h
    rw [longFrac_rawSig] at this
    cases this
  rw [scan_over cfg fuel pos (longFrac N) ⟨101, [], asc "2147483648"⟩ rest s (by simp [longFrac])
    hip (fun g hg => by cases hg; exact ⟨by simp, hd⟩) rfl
    ⟨Or.inl rfl, Or.inl rfl, by decide, by decide⟩ (by decide) hrest hstop hf
    (show [48].length ≤ i32Max by decide) hfuel]
  have : expSignPos [] = true := by decide
  simp only [overflowOut, hS, this, Bool.and_self, if_true, errOffset]

#print axioms length_bound_needed
#print axioms length_bound_needed_pos

end ExpOverflow
end Lexpr
