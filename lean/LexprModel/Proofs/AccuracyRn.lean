/-
  Error analysis of `F64.rn` (property C05, accuracy clause), part 1: the value of `rn n d` as a
  rational number and its distance from `n / d`.
-/
import LexprModel.Proofs.Decimals
namespace Lexpr
namespace Accuracy
open Parse F64 Numbers Decimals

/-! ## 1. `rne`: at most one half away from the quotient -/

/-- `|rne n d - n/d| ≤ 1/2`, cross-multiplied. -/
theorem rne_err {n d : Nat} (hd : 0 < d) :
    2 * n ≤ 2 * (d * rne n d) + d ∧ 2 * (d * rne n d) ≤ 2 * n + d := by
  have hdm := Nat.div_add_mod n d
  have hm := Nat.mod_lt n hd
  unfold rne
  simp only []
  split
  · rw [Nat.mul_succ]; omega
  · split
    · split
      · rw [Nat.mul_succ]; omega
      · omega
    · omega

/-- lower counterpart of `Numbers.mant_le`: in the normal range the scaled quotient is at least
    `2^52` -/
theorem mant_ge {n d : Nat} {e : Int} (he : Bracket n d e) :
    2 ^ 52 * (d * 2 ^ (e - 52).toNat) ≤ n * 2 ^ (-(e - 52)).toNat := by
  obtain ⟨h1, _⟩ := he
  have hE : e.toNat + (-(e - 52)).toNat = (-e).toNat + (e - 52).toNat + 52 := by omega
  generalize e.toNat = A at *
  generalize (-e).toNat = B at *
  generalize (e - 52).toNat = Pp at *
  generalize (-(e - 52)).toNat = Pm at *
  have s1 := Nat.mul_le_mul_right (2 ^ Pm) h1
  have e1 : d * 2 ^ A * 2 ^ Pm = d * 2 ^ (A + Pm) := by rw [Nat.pow_add]; grind
  have e2 : d * 2 ^ (B + Pp + 52) = 2 ^ 52 * (d * 2 ^ Pp) * 2 ^ B := by
    rw [Nat.pow_add, Nat.pow_add]; grind
  have e3 : n * 2 ^ B * 2 ^ Pm = n * 2 ^ Pm * 2 ^ B := by grind
  rw [e1, hE, e2, e3] at s1
  exact Nat.le_of_mul_le_mul_right s1 (Nat.two_pow_pos B)

/-! ## 2. The value of a double as a rational number -/

/-- the rational value `m * 2^p` of the magnitude bits of a finite double -/
def val (b : Nat) : Rat := ((decode b).1 : Rat) * (2 : Rat) ^ (decode b).2

theorem two_ne : (2 : Rat) ≠ 0 := by decide

theorem two_zpow_pos (p : Int) : (0 : Rat) < (2 : Rat) ^ p := Rat.zpow_pos (by decide)

theorem two_zpow_split (p : Int) :
    (2 : Rat) ^ p * ((2 ^ (-p).toNat : Nat) : Rat) = ((2 ^ p.toNat : Nat) : Rat) := by
  rw [Rat.natCast_pow, Rat.natCast_pow, ← Rat.zpow_natCast, ← Rat.zpow_natCast]
  show (2 : Rat) ^ p * (2 : Rat) ^ ((-p).toNat : Int) = (2 : Rat) ^ (p.toNat : Int)
  rw [← Rat.zpow_add two_ne]
  congr 1
  omega

theorem val_zero : val 0 = 0 := by decide +kernel

theorem val_nonneg (b : Nat) : 0 ≤ val b := by
  unfold val
  have h1 : (0 : Rat) ≤ ((decode b).1 : Rat) := by
    have := Rat.natCast_le_natCast.mpr (Nat.zero_le (decode b).1)
    simpa using this
  have h2 := Rat.le_of_lt (two_zpow_pos (decode b).2)
  have := Rat.mul_le_mul_of_nonneg_right h1 h2
  simpa using this

/-- value of the bit pattern `E * 2^52 + m`, `m` the mantissa including the hidden bit, possibly
    carried up to `2^53` -/
theorem val_bits {E m : Nat} (hfin : E * two52 + m < infBits) (hm : m ≤ 2 * two52)
    (h : E = 0 ∨ two52 ≤ m) :
    val (E * two52 + m) = (m : Rat) * (2 : Rat) ^ ((E : Int) - 1074) := by
  by_cases hlt : m < 2 * two52
  · have hE : E ≤ 2045 := by simp only [two52, infBits] at *; omega
    unfold val; rw [decode_bits hE hlt h]
  · have hmeq : m = 2 * two52 := by omega
    subst hmeq
    have hE : E + 1 ≤ 2045 := by simp only [two52, infBits] at *; omega
    have e1 : E * two52 + 2 * two52 = (E + 1) * two52 + two52 := by simp only [two52]; omega
    unfold val
    rw [e1, decode_bits hE (by simp [two52]) (Or.inr (Nat.le_refl _))]
    simp only []
    have e2 : ((E + 1 : Nat) : Int) - 1074 = ((E : Int) - 1074) + 1 := by omega
    rw [e2, Rat.zpow_add_one two_ne, Rat.natCast_mul]
    generalize (2 : Rat) ^ ((E : Int) - 1074) = t
    have : ((2 : Nat) : Rat) = 2 := rfl
    rw [this]
    grind

/-- the value of `rn n d`: the rounded mantissa times the unit in the last place -/
theorem rn_val {n d : Nat} (hn : 0 < n) (hd : 0 < d) {e ee : Int} (he : Bracket n d e)
    (hee : ee = if e < -1022 then -1022 else e) (hfin : rn n d < infBits) :
    val (rn n d) =
      (rne (n * 2 ^ (-(ee - 52)).toNat) (d * 2 ^ (ee - 52).toNat) : Rat) * (2 : Rat) ^ (ee - 52) := by
  rw [rn_eq hn hd he] at hfin ⊢
  simp only [← hee] at hfin ⊢
  have hee1 : e ≤ ee := by rw [hee]; split <;> omega
  have hee2 : -1022 ≤ ee := by rw [hee]; split <;> omega
  have hm : rne (n * 2 ^ (-(ee - 52)).toNat) (d * 2 ^ (ee - 52).toNat) ≤ 2 * two52 :=
    rne_le (Nat.mul_pos hd (Nat.two_pow_pos _)) (mant_le hd he hee1)
  have hlo : (ee + 1022).toNat = 0 ∨
      two52 ≤ rne (n * 2 ^ (-(ee - 52)).toNat) (d * 2 ^ (ee - 52).toNat) := by
    by_cases hlt : e < -1022
    · left; rw [hee, if_pos hlt]; rfl
    · right
      have : ee = e := by rw [hee, if_neg hlt]
      rw [this]
      exact rne_ge (Nat.mul_pos hd (Nat.two_pow_pos _)) (mant_ge he)
  generalize rne (n * 2 ^ (-(ee - 52)).toNat) (d * 2 ^ (ee - 52).toNat) = m at *
  by_cases hb : (ee + 1022).toNat * two52 + m ≥ infBits
  · rw [if_pos hb] at hfin; omega
  · rw [if_neg hb] at hfin ⊢
    rw [val_bits hfin hm hlo]
    congr 2
    omega

/-! ## 3. Half an ulp -/

theorem natCast_pos' {k : Nat} (h : 0 < k) : (0 : Rat) < (k : Rat) := by
  have := Rat.natCast_lt_natCast.mpr h
  simpa using this

theorem two_pow_cast_pos (k : Nat) : (0 : Rat) < ((2 ^ k : Nat) : Rat) :=
  natCast_pos' (Nat.two_pow_pos k)

/-- `n / d` with `d > 0`, times `d` -/
theorem div_mul_self {n d : Nat} (hd : 0 < d) : ((n : Rat) / (d : Rat)) * (d : Rat) = (n : Rat) := by
  have := natCast_pos' hd
  grind

theorem halfulp_core (x t A D M : Rat) (hDA : 0 < D * A)
    (h1 : 2 * (x * D * A) ≤ 2 * (D * (t * A) * M) + D * (t * A))
    (h2 : 2 * (D * (t * A) * M) ≤ 2 * (x * D * A) + D * (t * A)) :
    x - t / 2 ≤ M * t ∧ M * t ≤ x + t / 2 := by
  constructor
  · have key : (x - t / 2) * (D * A) ≤ (M * t) * (D * A) := by grind
    exact Rat.le_of_mul_le_mul_right key hDA
  · have key : (M * t) * (D * A) ≤ (x + t / 2) * (D * A) := by grind
    exact Rat.le_of_mul_le_mul_right key hDA

/-- `|val (rn n d) - n/d| ≤ 2^(ee-52) / 2`: half a unit in the last place -/
theorem rn_halfulp {n d : Nat} (hn : 0 < n) (hd : 0 < d) {e ee : Int} (he : Bracket n d e)
    (hee : ee = if e < -1022 then -1022 else e) (hfin : rn n d < infBits) :
    (n : Rat) / (d : Rat) - (2 : Rat) ^ (ee - 52) / 2 ≤ val (rn n d) ∧
    val (rn n d) ≤ (n : Rat) / (d : Rat) + (2 : Rat) ^ (ee - 52) / 2 := by
  rw [rn_val hn hd he hee hfin]
  obtain ⟨h1, h2⟩ := rne_err (n := n * 2 ^ (-(ee - 52)).toNat)
    (Nat.mul_pos hd (Nat.two_pow_pos (ee - 52).toNat))
  generalize rne (n * 2 ^ (-(ee - 52)).toNat) (d * 2 ^ (ee - 52).toNat) = m at *
  have h1' := Rat.natCast_le_natCast.mpr h1
  have h2' := Rat.natCast_le_natCast.mpr h2
  simp only [Rat.natCast_mul, Rat.natCast_add] at h1' h2'
  have hsplit := two_zpow_split (ee - 52)
  have hA := two_pow_cast_pos (-(ee - 52)).toNat
  have hB := two_pow_cast_pos (ee - 52).toNat
  have ht := two_zpow_pos (ee - 52)
  have hx := div_mul_self (n := n) hd
  have hd' := natCast_pos' hd
  generalize ((2 ^ (-(ee - 52)).toNat : Nat) : Rat) = A at *
  generalize ((2 ^ (ee - 52).toNat : Nat) : Rat) = B at *
  generalize (2 : Rat) ^ (ee - 52) = t at *
  generalize (n : Rat) / (d : Rat) = x at *
  have h2c : ((2 : Nat) : Rat) = 2 := rfl
  rw [h2c] at h1' h2'
  have hdA : 0 < (d : Rat) * A := Rat.mul_pos hd' hA
  rw [← hsplit, ← hx] at h1' h2'
  exact halfulp_core x t A (d : Rat) (m : Rat) hdA h1' h2'

/-! ## 4. Relative error in the normal range, absolute error below it -/

/-- the unit roundoff `2^-53` -/
def u : Rat := 1 / 2 ^ 53
/-- half the smallest subnormal, `2^-1075` -/
def eta : Rat := (2 : Rat) ^ (-1075 : Int)

theorem u_pos : 0 < u := by decide +kernel
theorem eta_pos : 0 < eta := two_zpow_pos _

theorem zero_div' (d : Rat) : ((0 : Nat) : Rat) / d = 0 := by
  rw [Rat.div_def]; exact Rat.zero_mul _

theorem one_le_two_pow (k : Nat) : (1 : Rat) ≤ (2 : Rat) ^ k := by
  induction k with
  | zero => simp
  | succ k ih => rw [Rat.pow_succ]; grind

theorem two_zpow_mono {a b : Int} (h : a ≤ b) : (2 : Rat) ^ a ≤ (2 : Rat) ^ b := by
  obtain ⟨k, rfl⟩ : ∃ k : Nat, b = a + (k : Int) := ⟨(b - a).toNat, by omega⟩
  rw [Rat.zpow_add two_ne, Rat.zpow_natCast]
  have h1 := one_le_two_pow k
  have h2 := two_zpow_pos a
  have := Rat.mul_le_mul_of_nonneg_left h1 (Rat.le_of_lt h2)
  simpa using this

/-- `Bracket` read in `Rat`: `2^e ≤ n/d < 2^(e+1)` -/
theorem bracket_rat {n d : Nat} {e : Int} (hd : 0 < d) (he : Bracket n d e) :
    (2 : Rat) ^ e ≤ (n : Rat) / (d : Rat) ∧ (n : Rat) / (d : Rat) < (2 : Rat) ^ (e + 1) := by
  obtain ⟨h1, h2⟩ := he
  have h1' := Rat.natCast_le_natCast.mpr h1
  have h2' := Rat.natCast_lt_natCast.mpr h2
  simp only [Rat.natCast_mul] at h1' h2'
  have h2c : ((2 : Nat) : Rat) = 2 := rfl
  rw [h2c] at h2'
  have hsplit := two_zpow_split e
  have hA := two_pow_cast_pos (-e).toNat
  have hx := div_mul_self (n := n) hd
  have hd' := natCast_pos' hd
  rw [Rat.zpow_add_one two_ne]
  generalize ((2 ^ (-e).toNat : Nat) : Rat) = A at *
  generalize ((2 ^ e.toNat : Nat) : Rat) = B at *
  generalize (2 : Rat) ^ e = t at *
  generalize (n : Rat) / (d : Rat) = x at *
  have hdA : 0 < (d : Rat) * A := Rat.mul_pos hd' hA
  rw [← hsplit, ← hx] at h1' h2'
  generalize (d : Rat) = D at *
  constructor
  · have key : t * (D * A) ≤ x * (D * A) := by grind
    exact Rat.le_of_mul_le_mul_right key hdA
  · have key : x * (D * A) < (t * 2) * (D * A) := by grind
    exact Rat.lt_of_mul_lt_mul_right key (Rat.le_of_lt hdA)

theorem halfulp_normal (e : Int) : (2 : Rat) ^ (e - 52) / 2 = (2 : Rat) ^ e * u := by
  have : e - 52 = e + (-52 : Int) := by omega
  rw [this, Rat.zpow_add two_ne]
  have : (2 : Rat) ^ (-52 : Int) / 2 = u := by decide +kernel
  grind

theorem halfulp_sub : (2 : Rat) ^ ((-1022 : Int) - 52) / 2 = eta := by decide +kernel

/-- **rn_relerr.**  In the normal range (`2^-1022 ≤ n/d`, result finite) the value of `rn n d`
    is within relative error `2^-53` of `n / d`:  `|val (rn n d) - n/d| ≤ 2^-53 * (n/d)`. -/
theorem rn_relerr {n d : Nat} (hd : 0 < d)
    (hnorm : (2 : Rat) ^ (-1022 : Int) ≤ (n : Rat) / (d : Rat)) (hfin : rn n d < infBits) :
    (n : Rat) / (d : Rat) * (1 - u) ≤ val (rn n d) ∧
    val (rn n d) ≤ (n : Rat) / (d : Rat) * (1 + u) := by
  have hn : 0 < n := by
    rcases Nat.eq_zero_or_pos n with h | h
    · subst h
      have := two_zpow_pos (-1022)
      have h0 := zero_div' (d : Rat)
      rw [h0] at hnorm
      grind
    · exact h
  have he := ilog2_spec hn hd
  generalize ilog2 n d = e at he
  obtain ⟨hb1, hb2⟩ := bracket_rat hd he
  have hge : ¬ e < -1022 := by
    intro hlt
    have := two_zpow_mono (show e + 1 ≤ -1022 by omega)
    grind
  obtain ⟨h1, h2⟩ := rn_halfulp hn hd he (ee := e) (by rw [if_neg hge]) hfin
  rw [halfulp_normal] at h1 h2
  have hu := Rat.mul_le_mul_of_nonneg_right hb1 (Rat.le_of_lt u_pos)
  grind

set_option exponentiation.threshold 2048 in
/-- **rn_abserr.**  Below the normal range the absolute error is at most `2^-1075`. -/
theorem rn_abserr {n d : Nat} (hd : 0 < d)
    (hsub : (n : Rat) / (d : Rat) < (2 : Rat) ^ (-1022 : Int)) :
    rn n d < infBits ∧
    (n : Rat) / (d : Rat) - eta ≤ val (rn n d) ∧ val (rn n d) ≤ (n : Rat) / (d : Rat) + eta := by
  rcases Nat.eq_zero_or_pos n with h | hn
  · subst h
    have h0 := zero_div' (d : Rat)
    have := eta_pos
    rw [rn_zero_left, val_zero, h0]
    refine ⟨by decide, ?_, ?_⟩ <;> grind
  have he := ilog2_spec hn hd
  generalize ilog2 n d = e at he
  obtain ⟨hb1, hb2⟩ := bracket_rat hd he
  have hlt : e < -1022 := by
    apply Int.not_le.mp
    intro hge
    have := two_zpow_mono hge
    grind
  have hfin : rn n d < infBits := by
    apply rn_finite_of_lt_pow (k := 0) hd (by decide)
    have h1 : (n : Rat) / (d : Rat) < 1 := by
      have := two_zpow_mono (show (-1022 : Int) ≤ 0 by decide)
      simp only [Rat.zpow_zero] at this
      grind
    have hx := div_mul_self (n := n) hd
    have hd' := natCast_pos' hd
    have h2 : (n : Rat) < (d : Rat) := by
      have := Rat.mul_lt_mul_of_pos_right h1 hd'
      grind
    have := Rat.natCast_lt_natCast.mp h2
    omega
  obtain ⟨h1, h2⟩ := rn_halfulp hn hd he (ee := -1022) (by rw [if_pos hlt]) hfin
  rw [halfulp_sub] at h1 h2
  exact ⟨hfin, h1, h2⟩

/-- both ranges at once: `|val (rn n d) - n/d| ≤ 2^-53 * (n/d) + 2^-1075` -/
theorem rn_err {n d : Nat} (hd : 0 < d) (hfin : rn n d < infBits) :
    (n : Rat) / (d : Rat) * (1 - u) - eta ≤ val (rn n d) ∧
    val (rn n d) ≤ (n : Rat) / (d : Rat) * (1 + u) + eta := by
  have hx : (0 : Rat) ≤ (n : Rat) / (d : Rat) := by
    have h1 : (0 : Rat) ≤ (n : Rat) := by
      have := Rat.natCast_le_natCast.mpr (Nat.zero_le n); simpa using this
    have hd' := natCast_pos' hd
    have hx := div_mul_self (n := n) hd
    apply Rat.not_lt.mp
    intro hneg
    have := Rat.mul_lt_mul_of_pos_right hneg hd'
    grind
  have hu := u_pos
  have he := eta_pos
  have hxu := Rat.mul_le_mul_of_nonneg_left (Rat.le_of_lt hu) hx
  rcases Rat.le_total (a := (2 : Rat) ^ (-1022 : Int)) (b := (n : Rat) / (d : Rat)) with h | h
  · obtain ⟨h1, h2⟩ := rn_relerr hd h hfin
    grind
  · rcases Rat.le_iff_lt_or_eq.mp h with h | h
    · obtain ⟨_, h1, h2⟩ := rn_abserr hd h
      grind
    · obtain ⟨h1, h2⟩ := rn_relerr hd (by rw [h]; exact Rat.le_refl) hfin
      grind

/-- a quotient below `2^-1075` rounds to `+0.0` (`Decimals.rn_underflow` read in `Rat`) -/
theorem rn_zero_rat {n d : Nat} (hd : 0 < d) (h : (n : Rat) / (d : Rat) < eta) : rn n d = 0 := by
  apply rn_underflow hd
  have hx := div_mul_self (n := n) hd
  have hd' := natCast_pos' hd
  have hs := two_zpow_split (-1075)
  have e1 : (-(-1075 : Int)).toNat = 1075 := by decide
  have e2 : ((-1075 : Int)).toNat = 0 := by decide
  rw [e1, e2] at hs
  have hT := two_pow_cast_pos 1075
  apply Rat.natCast_lt_natCast.mp
  rw [Rat.natCast_mul]
  unfold eta at h
  generalize ((2 ^ 1075 : Nat) : Rat) = T at *
  generalize (2 : Rat) ^ (-1075 : Int) = t at *
  generalize (n : Rat) / (d : Rat) = x at *
  have h1 : ((2 ^ 0 : Nat) : Rat) = 1 := rfl
  rw [h1] at hs
  have := Rat.mul_lt_mul_of_pos_right h (Rat.mul_pos hd' hT)
  have e3 : t * ((d : Rat) * T) = (d : Rat) := by
    rw [Rat.mul_comm (d : Rat) T, ← Rat.mul_assoc, hs, Rat.one_mul]
  have e4 : x * ((d : Rat) * T) = (n : Rat) * T := by
    rw [← Rat.mul_assoc, hx]
  rw [e3, e4] at this
  exact this

/-! ## 5. The operations as one rounding of a rational -/

theorem val_def (b : Nat) : val b = ((decode b).1 : Rat) * (2 : Rat) ^ (decode b).2 := rfl

theorem two_zpow_sub (a b : Int) : (2 : Rat) ^ (a - b) * (2 : Rat) ^ b = (2 : Rat) ^ a := by
  rw [← Rat.zpow_add two_ne]; congr 1; omega

/-- `mulPos a b` rounds the rational `val a * val b` -/
theorem mulPos_rat (a b : Nat) :
    ∃ n d : Nat, 0 < d ∧ mulPos a b = rn n d ∧ (n : Rat) / (d : Rat) = val a * val b := by
  refine ⟨_, _, Nat.two_pow_pos _, by rw [mulPos_def, rnScaled_eq], ?_⟩
  rw [val_def, val_def, Rat.natCast_mul, Rat.natCast_mul]
  have hs := two_zpow_split ((decode a).2 + (decode b).2)
  have hA := two_pow_cast_pos (-((decode a).2 + (decode b).2)).toNat
  rw [Rat.zpow_add two_ne] at hs
  generalize ((2 ^ (-((decode a).2 + (decode b).2)).toNat : Nat) : Rat) = A at *
  generalize ((2 ^ ((decode a).2 + (decode b).2).toNat : Nat) : Rat) = B at *
  generalize (2 : Rat) ^ (decode a).2 = ta at *
  generalize (2 : Rat) ^ (decode b).2 = tb at *
  rw [← hs]
  grind

/-- `divPos a b` rounds the rational `val a / val b` (divisor not zero) -/
theorem divPos_rat (a b : Nat) (hb : 0 < (decode b).1) :
    ∃ n d : Nat, 0 < d ∧ divPos a b = rn n d ∧ (n : Rat) / (d : Rat) = val a / val b := by
  refine ⟨_, _, Nat.mul_pos hb (Nat.two_pow_pos _), divPos_eq a b, ?_⟩
  rw [val_def, val_def, Rat.natCast_mul, Rat.natCast_mul]
  have hs := two_zpow_split ((decode a).2 - (decode b).2)
  have hA := two_pow_cast_pos (-((decode a).2 - (decode b).2)).toNat
  have hsub := two_zpow_sub (decode a).2 (decode b).2
  have htb := two_zpow_pos (decode b).2
  have hmb := natCast_pos' hb
  generalize ((2 ^ (-((decode a).2 - (decode b).2)).toNat : Nat) : Rat) = A at *
  generalize ((2 ^ ((decode a).2 - (decode b).2).toNat : Nat) : Rat) = B at *
  generalize (2 : Rat) ^ ((decode a).2 - (decode b).2) = t at *
  generalize (2 : Rat) ^ (decode a).2 = ta at *
  generalize (2 : Rat) ^ (decode b).2 = tb at *
  rw [← hs, ← hsub]
  grind

theorem decode_pos_of_val_pos {b : Nat} (h : 0 < val b) : 0 < (decode b).1 := by
  rcases Nat.eq_zero_or_pos (decode b).1 with h0 | h0
  · rw [val_def, h0] at h
    have : ((0 : Nat) : Rat) * (2 : Rat) ^ (decode b).2 = 0 := Rat.zero_mul _
    rw [this] at h
    exact absurd h Rat.lt_irrefl
  · exact h0

/-- one rounding: `mulPos` -/
theorem mulPos_err {a b : Nat} (hfin : mulPos a b < infBits) :
    val a * val b * (1 - u) - eta ≤ val (mulPos a b) ∧
    val (mulPos a b) ≤ val a * val b * (1 + u) + eta := by
  obtain ⟨n, d, hd, h1, h2⟩ := mulPos_rat a b
  rw [h1] at hfin ⊢
  rw [← h2]
  exact rn_err hd hfin

/-- one rounding: `divPos` -/
theorem divPos_err {a b : Nat} (hb : 0 < val b) (hfin : divPos a b < infBits) :
    val a / val b * (1 - u) - eta ≤ val (divPos a b) ∧
    val (divPos a b) ≤ val a / val b * (1 + u) + eta := by
  obtain ⟨n, d, hd, h1, h2⟩ := divPos_rat a b (decode_pos_of_val_pos hb)
  rw [h1] at hfin ⊢
  rw [← h2]
  exact rn_err hd hfin

/-- a quotient below `2^-1075` is `+0.0` -/
theorem divPos_zero {a b : Nat} (hb : 0 < val b) (h : val a / val b < eta) : divPos a b = 0 := by
  obtain ⟨n, d, hd, h1, h2⟩ := divPos_rat a b (decode_pos_of_val_pos hb)
  rw [h1]
  exact rn_zero_rat hd (by rw [h2]; exact h)

/-! ## 6. `rn_relerr` without rationals -/

/-- the normal range, cross-multiplied: `2^-1022 ≤ n/d` -/
theorem norm_rat {n d : Nat} (hd : 0 < d) (h : d ≤ n * 2 ^ 1022) :
    (2 : Rat) ^ (-1022 : Int) ≤ (n : Rat) / (d : Rat) := by
  have c := Rat.natCast_le_natCast.mpr h
  rw [Rat.natCast_mul] at c
  have hs := two_zpow_split (-1022)
  have e1 : (-(-1022 : Int)).toNat = 1022 := by decide
  have e2 : ((-1022 : Int)).toNat = 0 := by decide
  rw [e1, e2] at hs
  have h1 : ((2 ^ 0 : Nat) : Rat) = 1 := rfl
  rw [h1] at hs
  have hT := two_pow_cast_pos 1022
  have hx := div_mul_self (n := n) hd
  have hd' := natCast_pos' hd
  generalize ((2 ^ 1022 : Nat) : Rat) = T at *
  generalize (2 : Rat) ^ (-1022 : Int) = t at *
  generalize (n : Rat) / (d : Rat) = x at *
  rw [← hx] at c
  have key : t * ((d : Rat) * T) ≤ x * ((d : Rat) * T) := by
    have e3 : t * ((d : Rat) * T) = (d : Rat) := by
      rw [Rat.mul_comm (d : Rat) T, ← Rat.mul_assoc, hs, Rat.one_mul]
    rw [e3, ← Rat.mul_assoc]; exact c
  exact Rat.le_of_mul_le_mul_right key (Rat.mul_pos hd' hT)

/-- **rn_relerr_cross.**  `rn_relerr` stated over `Nat` only.  With `(m, p) = decode (rn n d)`,
    `A = 2^max(-p,0)`, `B = 2^max(p,0)` (so the value is `m * B / A`):

      `|m * B * d - n * A| * 2^53 ≤ n * A`,

    i.e. `|m * 2^p - n/d| ≤ 2^-53 * (n/d)`, for `n/d` in the normal range and a finite result. -/
theorem rn_relerr_cross {n d : Nat} (hd : 0 < d) (hnorm : d ≤ n * 2 ^ 1022)
    (hfin : rn n d < infBits) :
    n * 2 ^ (-(decode (rn n d)).2).toNat * 2 ^ 53 ≤
      (decode (rn n d)).1 * 2 ^ (decode (rn n d)).2.toNat * d * 2 ^ 53 +
        n * 2 ^ (-(decode (rn n d)).2).toNat ∧
    (decode (rn n d)).1 * 2 ^ (decode (rn n d)).2.toNat * d * 2 ^ 53 ≤
      n * 2 ^ (-(decode (rn n d)).2).toNat * 2 ^ 53 + n * 2 ^ (-(decode (rn n d)).2).toNat := by
  obtain ⟨h1, h2⟩ := rn_relerr hd (norm_rat hd hnorm) hfin
  clear hnorm
  rw [val_def] at h1 h2
  have hs := two_zpow_split (decode (rn n d)).2
  have hA := two_pow_cast_pos (-(decode (rn n d)).2).toNat
  have hx := div_mul_self (n := n) hd
  have hd' := natCast_pos' hd
  have huT : u * ((2 ^ 53 : Nat) : Rat) = 1 := by decide +kernel
  have hT := two_pow_cast_pos 53
  constructor
  · apply Rat.natCast_le_natCast.mp
    simp only [Rat.natCast_mul, Rat.natCast_add]
    generalize ((2 ^ (-(decode (rn n d)).2).toNat : Nat) : Rat) = A at *
    generalize ((2 ^ (decode (rn n d)).2.toNat : Nat) : Rat) = B at *
    generalize (2 : Rat) ^ (decode (rn n d)).2 = t at *
    generalize ((decode (rn n d)).1 : Rat) = m at *
    generalize ((2 ^ 53 : Nat) : Rat) = T at *
    generalize (n : Rat) / (d : Rat) = x at *
    have c := Rat.mul_le_mul_of_nonneg_right h1
      (Rat.le_of_lt (Rat.mul_pos (Rat.mul_pos hd' hA) hT))
    have e1 : x * (1 - u) * ((d : Rat) * A * T) = x * (d : Rat) * A * T - x * (d : Rat) * A * (u * T) := by
      grind
    have e2 : m * t * ((d : Rat) * A * T) = m * (t * A) * (d : Rat) * T := by grind
    rw [e1, e2, hx, huT, hs] at c
    grind
  · apply Rat.natCast_le_natCast.mp
    simp only [Rat.natCast_mul, Rat.natCast_add]
    generalize ((2 ^ (-(decode (rn n d)).2).toNat : Nat) : Rat) = A at *
    generalize ((2 ^ (decode (rn n d)).2.toNat : Nat) : Rat) = B at *
    generalize (2 : Rat) ^ (decode (rn n d)).2 = t at *
    generalize ((decode (rn n d)).1 : Rat) = m at *
    generalize ((2 ^ 53 : Nat) : Rat) = T at *
    generalize (n : Rat) / (d : Rat) = x at *
    have c := Rat.mul_le_mul_of_nonneg_right h2
      (Rat.le_of_lt (Rat.mul_pos (Rat.mul_pos hd' hA) hT))
    have e1 : x * (1 + u) * ((d : Rat) * A * T) = x * (d : Rat) * A * T + x * (d : Rat) * A * (u * T) := by
      grind
    have e2 : m * t * ((d : Rat) * A * T) = m * (t * A) * (d : Rat) * T := by grind
    rw [e1, e2, hx, huT, hs] at c
    grind

set_option exponentiation.threshold 2048 in
/-- `1/10`: the hypotheses hold, and the instance reads
    `|7205759403792794 * 10 - 2^56| * 2^53 ≤ 2^56` -/
example : decode (rn 1 10) = (7205759403792794, -56) ∧ (10 ≤ 1 * 2 ^ 1022) ∧ rn 1 10 < infBits := by
  decide +kernel
set_option exponentiation.threshold 2048 in
example := rn_relerr_cross (n := 1) (d := 10) (by decide) (by decide +kernel) (by decide +kernel)

#print axioms rn_relerr
#print axioms rn_abserr
#print axioms rn_err
#print axioms rn_relerr_cross
#print axioms mulPos_err
#print axioms divPos_err

end Accuracy
end Lexpr
