/-
  C19, truncation clause for call histories on one parser (the iterator API): if every call of a
  history succeeds on the full text, then on a truncated text every error of the same history is of
  EOF category, or `NumberOutOfRange` as in Truncation.lean.
-/
import LexprModel.Proofs.Truncation
set_option linter.unusedSimpArgs false
namespace Lexpr
namespace Parse
namespace Trunc
open PrefixDet (Sim ext Scanner digitsLen scan ext_rest ext_consume)

/-- the call returned something (a value, a datum, `None`, `()`), not an error -/
def _root_.Lexpr.Parse.Item.good : Item → Bool
  | .value _ | .datum _ | .none_ | .unit => true
  | _ => false

/-- how `stepOp` turns a result into an item -/
def resStep {α : Type} (mk : α → Item) : Res α → Item × Option St
  | .ok a s' => (mk a, some s')
  | .err e s' => (.err e, some s')
  | .panic p => (.panic p, none)
  | .fuel => (.fuel, none)

def mkV : Option Value → Item
  | some v => .value v
  | none => .none_

def mkD : Option Datum → Item
  | some v => .datum v
  | none => .none_

theorem stepOp_V (cfg : Cfg) (s : St) :
    stepOp cfg .nextValue s = resStep mkV (nextValueTop cfg s) ∧
    stepOp cfg .valueIterNext s = resStep mkV (nextValueTop cfg s) ∧
    stepOp cfg .parserNext s = resStep mkV (nextValueTop cfg s) := by
  simp only [stepOp, resStep]
  cases nextValueTop cfg s with
  | ok a s' => cases a <;> exact ⟨rfl, rfl, rfl⟩
  | _ => exact ⟨rfl, rfl, rfl⟩

theorem stepOp_D (cfg : Cfg) (s : St) :
    stepOp cfg .nextDatum s = resStep mkD (nextDatumTop cfg s) ∧
    stepOp cfg .datumIterNext s = resStep mkD (nextDatumTop cfg s) := by
  simp only [stepOp, resStep]
  cases nextDatumTop cfg s with
  | ok a s' => cases a <;> exact ⟨rfl, rfl⟩
  | _ => exact ⟨rfl, rfl⟩

theorem stepOp_EV (cfg : Cfg) (s : St) :
    stepOp cfg .expectValue s = resStep Item.value (expectValue cfg s) := by
  simp only [stepOp, resStep]
  cases expectValue cfg s <;> rfl

theorem stepOp_ED (cfg : Cfg) (s : St) :
    stepOp cfg .expectDatum s = resStep Item.datum (expectDatum cfg s) := by
  simp only [stepOp, resStep]
  cases expectDatum cfg s <;> rfl

theorem stepOp_EE (cfg : Cfg) (s : St) :
    stepOp cfg .expectEnd s = resStep (fun _ => Item.unit) (expectEnd s) := by
  simp only [stepOp, resStep]
  cases expectEnd s with
  | ok a s' => cases a; rfl
  | _ => rfl

section hist
variable {cfg : Cfg} {q : List UInt8} {R : List UInt8}

/-- the truncated run is in step with the other run, or it has used up its input -/
def Rel (q R : List UInt8) (s x : St) : Prop :=
  (x = ext q s ∧ s.rd.rest <:+ R) ∨ s.rd.rest = []

/-- one call: what `TS`, `Sim`, the end-of-input evaluation and the suffix property give -/
theorem step_rel {α : Type} {m : P α} (_ : q ≠ [])
    (hts : ∀ s, TS (XR cfg s.rd.rest) QT m m s q) (hsim : Sim m m)
    (heo : ∀ s0, s0.rd.rest = [] → EO (XR cfg R) m s0 (fun _ _ => True))
    (hsuf : ∀ s0 e s1, m s0 = .err e s1 → s1.rd.rest <:+ s0.rd.rest)
    {s x : St} (hrel : Rel q R s x) {a' : α} {x1 : St} (hx : m x = .ok a' x1) :
    match m s with
    | .ok _ s1 => Rel q R s1 x1
    | .err e s1 => (Soft e ∨ XR cfg R e) ∧ s1.rd.rest = []
    | .panic _ => True
    | .fuel => True := by
  rcases hrel with ⟨rfl, hR⟩ | h0
  · have h := hts s
    unfold TS at h
    cases hm : m s with
    | ok a s1 =>
      rw [hm] at h
      dsimp only
      rcases h.2 with hin | ⟨h0, _⟩
      · rw [hin] at hx; cases hx
        exact Or.inl ⟨rfl, h.1.trans hR⟩
      · exact Or.inr h0
    | err e s1 =>
      rw [hm] at h
      dsimp only
      have hs1 : s1.rd.rest = [] := by
        apply Classical.byContradiction
        intro hne
        have := hsim.err q hm hne
        rw [this] at hx; cases hx
      refine ⟨?_, hs1⟩
      rcases h with h | h | h
      · exact Or.inl h
      · exact Or.inr (XR.mono _ _ _ hR h)
      · exact absurd hx (h a' x1)
    | panic p => trivial
    | fuel => trivial
  · have h := heo s h0
    unfold EO at h
    cases hm : m s with
    | ok a s1 => rw [hm] at h; exact Or.inr h.1
    | err e s1 =>
      rw [hm] at h
      refine ⟨h, ?_⟩
      have := hsuf s e s1 hm
      rw [h0] at this
      exact List.suffix_nil.mp this
    | panic p => trivial
    | fuel => trivial

theorem EO.bind_apiFuel {β : Type} {X : Err → Prop} {s : St} {f : Nat → P β} {Pa : β → St → Prop}
    (h : EO X (f (2 * s.rd.rest.length + 4)) s Pa) : EO X (apiFuel >>= f) s Pa := h

theorem nextValueTop_eo {X : Err → Prop} {s : St} (h0 : s.rd.rest = []) :
    EO X (nextValueTop cfg) s (fun a _ => a = none) := by
  unfold nextValueTop
  refine EO.bind_apiFuel ?_
  exact (nextValue_eo h0).weaken (fun _ _ _ h => h.1)

theorem nextDatumTop_eo {X : Err → Prop} {s : St} (h0 : s.rd.rest = []) :
    EO X (nextDatumTop cfg) s (fun a _ => a = none) := by
  unfold nextDatumTop
  refine EO.bind_apiFuel ?_
  exact (nextDatum_eo h0).weaken (fun _ _ _ h => h.1)

theorem expectValue_eo {X : Err → Prop} {s : St} (h0 : s.rd.rest = []) :
    EO X (expectValue cfg) s (fun _ _ => True) := by
  unfold expectValue
  refine EO.bind (nextValueTop_eo h0) (fun a s1 h1 ha => ?_)
  subst ha
  exact EO.peekErrSoft (by decide)

theorem expectDatum_eo {X : Err → Prop} {s : St} (h0 : s.rd.rest = []) :
    EO X (expectDatum cfg) s (fun _ _ => True) := by
  unfold expectDatum
  refine EO.bind (nextDatumTop_eo h0) (fun a s1 h1 ha => ?_)
  subst ha
  exact EO.peekErrSoft (by decide)

/-- one call of a history -/
theorem hist_cons {α : Type} {m : P α} {mk : α → Item} (hmk : ∀ a e, mk a ≠ .err e)
    (hq : q ≠ [])
    (hts : ∀ s, TS (XR cfg s.rd.rest) QT m m s q) (hsim : Sim m m)
    (heo : ∀ s0, s0.rd.rest = [] → EO (XR cfg R) m s0 (fun _ _ => True))
    (hsuf : ∀ s0 e s1, m s0 = .err e s1 → s1.rd.rest <:+ s0.rd.rest)
    {op : Op} {ops : List Op} (hop : ∀ s, stepOp cfg op s = resStep mk (m s))
    (ih : ∀ s x, Rel q R s x → (∀ it ∈ runHistory cfg ops x, it.good = true) →
      ∀ e, Item.err e ∈ runHistory cfg ops s → Soft e ∨ XR cfg R e)
    {s x : St} (hrel : Rel q R s x) (hgood : ∀ it ∈ runHistory cfg (op :: ops) x, it.good = true)
    (e : Err) (he : Item.err e ∈ runHistory cfg (op :: ops) s) : Soft e ∨ XR cfg R e := by
  simp only [runHistory, hop] at hgood he
  cases hx : m x with
  | ok a' x1 =>
    rw [hx] at hgood
    simp only [resStep, List.mem_cons] at hgood
    have hstep := step_rel hq hts hsim heo hsuf hrel hx
    cases hm : m s with
    | ok a s1 =>
      rw [hm] at hstep he
      simp only [resStep, List.mem_cons] at he
      rcases he with he | he
      · exact absurd he.symm (hmk a e)
      · exact ih s1 x1 hstep (fun it hit => hgood it (Or.inr hit)) e he
    | err e0 s1 =>
      rw [hm] at hstep he
      simp only [resStep, List.mem_cons] at he
      rcases he with he | he
      · cases he; exact hstep.1
      · exact ih s1 x1 (Or.inr hstep.2) (fun it hit => hgood it (Or.inr hit)) e he
    | panic p =>
      rw [hm] at he
      simp [resStep] at he
    | fuel =>
      rw [hm] at he
      simp [resStep] at he
  | err e' x1 =>
    rw [hx] at hgood
    have := hgood (.err e') (by simp [resStep])
    cases this
  | panic p =>
    rw [hx] at hgood
    have := hgood (.panic p) (by simp [resStep])
    cases this
  | fuel =>
    rw [hx] at hgood
    have := hgood .fuel (by simp [resStep])
    cases this

theorem hist_rel (hq : q ≠ []) : ∀ (ops : List Op) (s x : St), Rel q R s x →
    (∀ it ∈ runHistory cfg ops x, it.good = true) →
    ∀ e, Item.err e ∈ runHistory cfg ops s → Soft e ∨ XR cfg R e := by
  intro ops
  induction ops with
  | nil => intro s x _ _ e he; simp [runHistory] at he
  | cons op ops ih =>
    intro s x hrel hgood e he
    have hV : ∀ a e, mkV a ≠ .err e := by intro a e; cases a <;> simp [mkV]
    have hD : ∀ a e, mkD a ≠ .err e := by intro a e; cases a <;> simp [mkD]
    have sufV : ∀ s0 e s1, nextValueTop cfg s0 = .err e s1 → s1.rd.rest <:+ s0.rd.rest :=
      fun s0 e s1 h => (Progress.nextValueTop_spec.err h).1.suf
    have sufD : ∀ s0 e s1, nextDatumTop cfg s0 = .err e s1 → s1.rd.rest <:+ s0.rd.rest :=
      fun s0 e s1 h => (Progress.nextDatumTop_spec.err h).1.suf
    cases op with
    | nextValue =>
      exact hist_cons (m := nextValueTop cfg) (mk := mkV) (op := .nextValue) hV hq
        (fun s => nextValueTop_t cfg hq) PrefixDet.nextValueTop_s
        (fun s0 h0 => (nextValueTop_eo h0).weaken (fun _ _ _ _ => trivial)) sufV (fun s => (stepOp_V cfg s).1) ih hrel hgood e he
    | valueIterNext =>
      exact hist_cons (m := nextValueTop cfg) (mk := mkV) (op := .valueIterNext) hV hq
        (fun s => nextValueTop_t cfg hq) PrefixDet.nextValueTop_s
        (fun s0 h0 => (nextValueTop_eo h0).weaken (fun _ _ _ _ => trivial)) sufV (fun s => (stepOp_V cfg s).2.1) ih hrel hgood e he
    | parserNext =>
      exact hist_cons (m := nextValueTop cfg) (mk := mkV) (op := .parserNext) hV hq
        (fun s => nextValueTop_t cfg hq) PrefixDet.nextValueTop_s
        (fun s0 h0 => (nextValueTop_eo h0).weaken (fun _ _ _ _ => trivial)) sufV (fun s => (stepOp_V cfg s).2.2) ih hrel hgood e he
    | nextDatum =>
      exact hist_cons (m := nextDatumTop cfg) (mk := mkD) (op := .nextDatum) hD hq
        (fun s => nextDatumTop_t cfg hq) PrefixDet.nextDatumTop_s
        (fun s0 h0 => (nextDatumTop_eo h0).weaken (fun _ _ _ _ => trivial)) sufD (fun s => (stepOp_D cfg s).1) ih hrel hgood e he
    | datumIterNext =>
      exact hist_cons (m := nextDatumTop cfg) (mk := mkD) (op := .datumIterNext) hD hq
        (fun s => nextDatumTop_t cfg hq) PrefixDet.nextDatumTop_s
        (fun s0 h0 => (nextDatumTop_eo h0).weaken (fun _ _ _ _ => trivial)) sufD (fun s => (stepOp_D cfg s).2) ih hrel hgood e he
    | expectValue =>
      exact hist_cons (m := expectValue cfg) (mk := Item.value) (op := .expectValue)
        (fun _ _ h => Item.noConfusion h) hq (fun s => expectValue_t cfg hq)
        PrefixDet.expectValue_s (fun s0 h0 => expectValue_eo h0)
        (fun s0 e s1 h => (Progress.expectValue_spec.err h).1.suf) (stepOp_EV cfg) ih hrel hgood e he
    | expectDatum =>
      exact hist_cons (m := expectDatum cfg) (mk := Item.datum) (op := .expectDatum)
        (fun _ _ h => Item.noConfusion h) hq (fun s => expectDatum_t cfg hq)
        PrefixDet.expectDatum_s (fun s0 h0 => expectDatum_eo h0)
        (fun s0 e s1 h => (Progress.expectDatum_spec.err h).1.suf) (stepOp_ED cfg) ih hrel hgood e he
    | expectEnd =>
      exact hist_cons (m := expectEnd) (mk := fun _ => Item.unit) (op := .expectEnd)
        (fun _ _ h => Item.noConfusion h) hq (fun s => expectEnd_t hq)
        PrefixDet.expectEnd_s (fun s0 h0 => expectEnd_eo h0)
        (fun s0 e s1 h => (Progress.expectEnd_spec.err h).1.suf) (stepOp_EE cfg) ih hrel hgood e he

/-- one call keeps the `faulty` flag and reports an I/O error only if it is set -/
theorem noio_cons {α : Type} {m : P α} {mk : α → Item} (hmk : ∀ a, mk a ≠ .err .io)
    {ko : α → Nat} {ke : Err → Nat}
    (hspec : ∀ s, Progress.Spec m s s ko ke False)
    {op : Op} {ops : List Op} (hop : ∀ s, stepOp cfg op s = resStep mk (m s))
    (ih : ∀ s, s.rd.faulty = false → Item.err .io ∉ runHistory cfg ops s)
    {s : St} (hf : s.rd.faulty = false) : Item.err .io ∉ runHistory cfg (op :: ops) s := by
  intro he
  simp only [runHistory, hop] at he
  cases hm : m s with
  | ok a s1 =>
    rw [hm] at he
    simp only [resStep, List.mem_cons] at he
    rcases he with he | he
    · exact hmk a he.symm
    · exact ih s1 (((hspec s).ok hm).faulty.trans hf) he
  | err e0 s1 =>
    rw [hm] at he
    simp only [resStep, List.mem_cons] at he
    have hsp := (hspec s).err hm
    rcases he with he | he
    · cases he
      have := hsp.2 rfl
      rw [hf] at this; cases this
    · exact ih s1 (hsp.1.faulty.trans hf) he
  | panic p => rw [hm] at he; simp [resStep] at he
  | fuel => rw [hm] at he; simp [resStep] at he

theorem hist_noio : ∀ (ops : List Op) (s : St), s.rd.faulty = false →
    Item.err .io ∉ runHistory cfg ops s := by
  intro ops
  induction ops with
  | nil => intro s _ he; simp [runHistory] at he
  | cons op ops ih =>
    intro s hf
    have hV : ∀ a, mkV a ≠ .err .io := by intro a; cases a <;> simp [mkV]
    have hD : ∀ a, mkD a ≠ .err .io := by intro a; cases a <;> simp [mkD]
    cases op with
    | nextValue =>
      exact noio_cons (m := nextValueTop cfg) (mk := mkV) (op := .nextValue) hV
        (fun s => Progress.nextValueTop_spec) (fun s => (stepOp_V cfg s).1) ih hf
    | valueIterNext =>
      exact noio_cons (m := nextValueTop cfg) (mk := mkV) (op := .valueIterNext) hV
        (fun s => Progress.nextValueTop_spec) (fun s => (stepOp_V cfg s).2.1) ih hf
    | parserNext =>
      exact noio_cons (m := nextValueTop cfg) (mk := mkV) (op := .parserNext) hV
        (fun s => Progress.nextValueTop_spec) (fun s => (stepOp_V cfg s).2.2) ih hf
    | nextDatum =>
      exact noio_cons (m := nextDatumTop cfg) (mk := mkD) (op := .nextDatum) hD
        (fun s => Progress.nextDatumTop_spec) (fun s => (stepOp_D cfg s).1) ih hf
    | datumIterNext =>
      exact noio_cons (m := nextDatumTop cfg) (mk := mkD) (op := .datumIterNext) hD
        (fun s => Progress.nextDatumTop_spec) (fun s => (stepOp_D cfg s).2) ih hf
    | expectValue =>
      exact noio_cons (m := expectValue cfg) (mk := Item.value) (op := .expectValue)
        (fun _ h => Item.noConfusion h) (fun s => Progress.expectValue_spec) (stepOp_EV cfg) ih hf
    | expectDatum =>
      exact noio_cons (m := expectDatum cfg) (mk := Item.datum) (op := .expectDatum)
        (fun _ h => Item.noConfusion h) (fun s => Progress.expectDatum_spec) (stepOp_ED cfg) ih hf
    | expectEnd =>
      exact noio_cons (m := expectEnd) (mk := fun _ => Item.unit) (op := .expectEnd)
        (fun _ h => Item.noConfusion h) (fun s => Progress.expectEnd_spec) (stepOp_EE cfg) ih hf

end hist
end Trunc

open Trunc in
/-- **C19_truncation_history**: any history of calls on one parser (`next_value`, `next_datum`,
    `expect_*`, the iterators), any source.  If no call of the history fails on the text `p ++ q`
    (for instance `p ++ q` is a sequence of data read to its end by an iterator), then every error
    that the same history reports on the truncated text `p` is of EOF category, or it is one of the
    exception of `C19_truncation` (`NumberOutOfRange`). -/
theorem C19_truncation_history (cfg : Cfg) (mode : Mode) (ops : List Op) (p q : List UInt8)
    (hgood : ∀ it ∈ runHistory cfg ops (initSt mode (p ++ q)), it.good = true)
    (e : Err) (he : Item.err e ∈ runHistory cfg ops (initSt mode p)) :
    e.category = .eof ∨ TruncExc e := by
  by_cases hq : q = []
  · subst hq
    rw [List.append_nil] at hgood
    have := hgood _ he
    cases this
  · have h := hist_rel (cfg := cfg) (R := p) hq ops (initSt mode p) (initSt mode (p ++ q))
      (Or.inl ⟨(PrefixDet.ext_initSt mode p q false).symm, List.suffix_refl _⟩) hgood e he
    have hio : e ≠ .io := by
      intro hio
      subst hio
      exact hist_noio ops (initSt mode p) rfl he
    exact h.imp (fun h => category_eof_of h hio) TruncExc_of_XR

end Parse
end Lexpr
