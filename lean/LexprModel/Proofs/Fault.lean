import LexprModel.Parse
import LexprModel.Proofs.SymTerm
namespace Lexpr
namespace Parse

/-! ## read faults on the stream source -/

/-- The fault-free stream parser `s` and a stream parser `t` whose reader fails after the bytes
    it still holds; `tail` is what `t` will never see. -/
structure FSim (tail : List UInt8) (s t : St) : Prop where
  rest : s.rd.rest = t.rd.rest ++ tail
  line : s.rd.line = t.rd.line
  col : s.rd.col = t.rd.col
  peeked : s.rd.peeked = t.rd.peeked
  depth : s.depth = t.depth
  faulty₁ : s.rd.faulty = false
  faulty₂ : t.rd.faulty = true
  mode₁ : s.rd.mode = .io
  mode₂ : t.rd.mode = .io
  /-- a byte in the lookahead slot is a byte that was read -/
  inv : t.rd.peeked = true → t.rd.rest ≠ []

/-- Outcome of the faulty run against the fault-free run: it stops with `Err.io`, or it is the
    same outcome (same value, same error with the same position, same panic). -/
def FRes (tail : List UInt8) {α : Type} (r₁ r₂ : Res α) : Prop :=
  (∃ t', r₂ = .err .io t') ∨
  match r₁, r₂ with
  | .ok a s, .ok b t => a = b ∧ FSim tail s t
  | .err e s, .err e' t => e = e' ∧ FSim tail s t
  | .panic p, .panic q => p = q
  | .fuel, .fuel => True
  | _, _ => False

structure FRel (tail : List UInt8) {α : Type} (m₁ m₂ : P α) : Prop where
  app : ∀ s t, FSim tail s t → FRes tail (m₁ s) (m₂ t)

section
variable {tail : List UInt8} {α β : Type}

theorem FRel.pure (a : α) : FRel tail (pure a : P α) (pure a) :=
  ⟨fun _ _ h => .inr ⟨rfl, h⟩⟩

theorem FRel.bind {m₁ m₂ : P α} {f₁ f₂ : α → P β} (hm : FRel tail m₁ m₂)
    (hf : ∀ a, FRel tail (f₁ a) (f₂ a)) : FRel tail (m₁ >>= f₁) (m₂ >>= f₂) := by
  constructor; intro s t h
  show FRes tail (P.bind m₁ f₁ s) (P.bind m₂ f₂ t)
  unfold P.bind
  rcases hm.app s t h with ⟨t', ht⟩ | hc
  · rw [ht]; exact .inl ⟨t', rfl⟩
  · revert hc
    cases m₁ s <;> cases m₂ t <;> intro hc <;> simp only at hc
    all_goals first | exact hc.elim | exact .inr hc | skip
    obtain ⟨rfl, hs⟩ := hc
    exact (hf _).app _ _ hs

theorem FRel.ite {c : Prop} [Decidable c] {a b a' b' : P α}
    (ha : c → FRel tail a a') (hb : ¬c → FRel tail b b') :
    FRel tail (if c then a else b) (if c then a' else b') := by
  split
  · exact ha ‹_›
  · exact hb ‹_›

theorem FRel.panicAt (p : Site) : FRel tail (panicAt p : P α) (Parse.panicAt p) :=
  ⟨fun _ _ _ => .inr rfl⟩

theorem FRel.outOfFuel : FRel tail (outOfFuel : P α) Parse.outOfFuel :=
  ⟨fun _ _ _ => .inr trivial⟩

theorem FSim.position {s t : St} (h : FSim tail s t) : s.rd.position = t.rd.position := by
  simp [Rd.position, h.line, h.col]

theorem FSim.peekPosition {s t : St} (h : FSim tail s t) :
    s.rd.peekPosition = t.rd.peekPosition := by
  unfold Rd.peekPosition
  rw [h.rest, h.mode₁, h.mode₂, h.peeked, h.line, h.col]
  cases hr : t.rd.rest with
  | nil =>
    have : t.rd.peeked = false := by
      cases hp : t.rd.peeked with
      | false => rfl
      | true => exact absurd hr (h.inv hp)
    cases tail <;> simp [this]
  | cons b bs => simp

theorem FRel.errAt (c : Code) : FRel tail (errAt c : P α) (Parse.errAt c) :=
  ⟨fun s t h => .inr ⟨by show Err.syntax _ _ _ = Err.syntax _ _ _; rw [h.position], h⟩⟩

theorem FRel.peekErr (c : Code) : FRel tail (peekErr c : P α) (Parse.peekErr c) :=
  ⟨fun s t h => .inr ⟨by show Err.syntax _ _ _ = Err.syntax _ _ _; rw [h.peekPosition], h⟩⟩

theorem FRel.getPos : FRel tail getPos getPos :=
  ⟨fun s t h => .inr ⟨h.position, h⟩⟩

theorem FRel.enter : FRel tail enter enter := by
  constructor; intro s t h
  unfold Parse.enter
  rw [h.depth, h.peekPosition]
  by_cases h0 : (t.depth == 0) = true
  · simp only [h0, if_true]; exact .inr rfl
  · simp only [h0, if_false]
    by_cases h1 : (t.depth - 1 == 0) = true
    · simp only [h1, if_true]; exact .inr ⟨rfl, h⟩
    · simp only [h1, if_false]
      exact .inr ⟨rfl, ⟨h.rest, h.line, h.col, h.peeked, by simp [h.depth], h.faulty₁, h.faulty₂,
        h.mode₁, h.mode₂, h.inv⟩⟩

theorem FRel.leave : FRel tail leave leave :=
  ⟨fun s t h => .inr ⟨rfl, ⟨h.rest, h.line, h.col, h.peeked, by simp [h.depth], h.faulty₁,
    h.faulty₂, h.mode₁, h.mode₂, h.inv⟩⟩⟩

/-- `peek`: a byte the faulty reader still holds is seen by both; at the cut the faulty
    reader reports `Err.io` (never end of input). -/
theorem FRel.peek : FRel tail peek peek := by
  constructor; intro s t h
  unfold Parse.peek
  rw [h.rest, h.faulty₂]
  cases hr : t.rd.rest with
  | nil => exact .inl ⟨t, rfl⟩
  | cons b bs =>
    refine .inr ⟨rfl, ⟨?_, h.line, h.col, ?_, h.depth, h.faulty₁, h.faulty₂, h.mode₁, h.mode₂, ?_⟩⟩
    · simp [h.rest, hr]
    · simp [h.peeked, h.mode₁, h.mode₂]
    · intro _; simp [hr]


theorem consume_fault {r₁ r₂ : Rd} (n : Nat) (hr : r₁.rest = r₂.rest ++ tail)
    (hl : r₁.line = r₂.line) (hc : r₁.col = r₂.col) (hn : n ≤ r₂.rest.length) :
    (r₁.consume n).rest = (r₂.consume n).rest ++ tail ∧ (r₁.consume n).line = (r₂.consume n).line ∧
    (r₁.consume n).col = (r₂.consume n).col ∧ (r₁.consume n).peeked = false ∧
    (r₂.consume n).peeked = false ∧ (r₁.consume n).faulty = r₁.faulty ∧
    (r₂.consume n).faulty = r₂.faulty ∧ (r₁.consume n).mode = r₁.mode ∧
    (r₂.consume n).mode = r₂.mode ∧ (r₂.consume n).rest = r₂.rest.drop n := by
  induction n generalizing r₁ r₂ with
  | zero => simp [Rd.consume, hr, hl, hc]
  | succ n ih =>
    unfold Rd.consume
    cases h2 : r₂.rest with
    | nil => simp [h2] at hn
    | cons b bs =>
      rw [hr, h2]
      simp only [List.cons_append]
      have := @ih { r₁ with rest := bs ++ tail, line := (advance r₁.line r₁.col b).1,
                            col := (advance r₁.line r₁.col b).2, peeked := false }
                  { r₂ with rest := bs, line := (advance r₂.line r₂.col b).1,
                            col := (advance r₂.line r₂.col b).2, peeked := false }
                  rfl (by simp [hl, hc]) (by simp [hl, hc]) (by simp [h2] at hn; simpa using hn)
      simpa using this

theorem FSim.consume {s t : St} (h : FSim tail s t) (n : Nat) (hn : n ≤ t.rd.rest.length) :
    FSim tail { s with rd := s.rd.consume n } { t with rd := t.rd.consume n } := by
  obtain ⟨h1, h2, h3, h4, h5, h6, h7, h8, h9, _⟩ := consume_fault n h.rest h.line h.col hn
  exact ⟨h1, h2, h3, by simp [h4, h5], h.depth, by simp [h6, h.faulty₁], by simp [h7, h.faulty₂],
    by simp [h8, h.mode₁], by simp [h9, h.mode₂], by simp [h5]⟩

theorem consume_rest' (rd : Rd) (n : Nat) : (rd.consume n).rest = rd.rest.drop n := by
  induction n generalizing rd with
  | zero => simp [Rd.consume]
  | succ n ih =>
    unfold Rd.consume
    cases h : rd.rest with
    | nil => simp [h]
    | cons b bs => simp only; rw [ih]; simp

/-- `next`: a byte the faulty reader still holds is consumed by both; at the cut the faulty
    reader reports `Err.io`. -/
theorem FRel.next : FRel tail next next := by
  constructor; intro s t h
  unfold Parse.next
  rw [h.rest, h.faulty₂]
  cases hr : t.rd.rest with
  | nil => exact .inl ⟨t, rfl⟩
  | cons b bs => exact .inr ⟨rfl, h.consume 1 (by simp [hr])⟩

/-- `discard` after a successful `peek` (the faulty reader holds a byte). -/
theorem FSim.discard {s t : St} (h : FSim tail s t) (hne : t.rd.rest ≠ []) :
    FRes tail (discard s) (discard t) := by
  unfold Parse.discard
  rw [h.rest]
  cases hr : t.rd.rest with
  | nil => exact absurd hr hne
  | cons b bs => exact .inr ⟨rfl, h.consume 1 (by simp [hr])⟩

/-- consuming bytes the faulty reader still holds -/
theorem FSim.consumeN {s t : St} (h : FSim tail s t) (n : Nat) (hn : n ≤ t.rd.rest.length) :
    FRes tail (consumeN n s) (consumeN n t) :=
  .inr ⟨rfl, h.consume n hn⟩

/-- once everything it holds is consumed, the faulty reader fails on `peek` -/
theorem peek_io_of_all {t : St} (hf : t.rd.faulty = true) (n : Nat) (hn : t.rd.rest.length ≤ n) :
    peek { t with rd := t.rd.consume n } = .err .io { t with rd := t.rd.consume n } := by
  unfold Parse.peek
  have : (t.rd.consume n).rest = [] := by rw [consume_rest']; exact List.drop_eq_nil_of_le hn
  have hf' : (t.rd.consume n).faulty = true := by
    clear this hn
    generalize t.rd = rd at hf
    induction n generalizing rd with
    | zero => simpa [Rd.consume] using hf
    | succ n ih =>
      unfold Rd.consume
      cases h : rd.rest with
      | nil => simpa using hf
      | cons b bs => simp only; exact ih _ (by simpa using hf)
  simp [this, hf']


/-! ### scanners: the faulty reader either stops where the fault-free one stops, or at the cut -/

theorem wsLen_le : ∀ l : List UInt8, wsLen l ≤ l.length ∧ commentLen l ≤ l.length
  | [] => by simp [wsLen, commentLen]
  | b :: bs => by
    have := wsLen_le bs
    constructor
    · simp only [wsLen]; split
      · simp; exact this.2
      · split
        · simp; exact this.1
        · simp
    · simp only [commentLen]; split
      · simp; exact this.1
      · simp; exact this.2

theorem wsLen_append : ∀ (a b : List UInt8),
    (wsLen a < a.length → wsLen (a ++ b) = wsLen a) ∧
    (commentLen a < a.length → commentLen (a ++ b) = commentLen a)
  | [], b => by simp
  | x :: xs, b => by
    have ih := wsLen_append xs b
    constructor
    · intro h
      simp only [wsLen, List.cons_append] at h ⊢
      split
      · rename_i hx; simp only [hx, if_true] at h
        rw [ih.2 (by simpa using h)]
      · rename_i hx; simp only [hx, if_false] at h
        split
        · rename_i ht; simp only [ht, if_true] at h
          rw [ih.1 (by simpa using h)]
        · rfl
    · intro h
      simp only [commentLen, List.cons_append] at h ⊢
      split
      · rename_i hx; simp only [hx, if_true] at h
        rw [ih.1 (by simpa using h)]
      · rename_i hx; simp only [hx, if_false] at h
        rw [ih.2 (by simpa using h)]

theorem FRel.parseWhitespace : FRel tail parseWhitespace parseWhitespace := by
  constructor; intro s t h
  unfold Parse.parseWhitespace
  simp only [P.run_bind, Parse.getRest, Parse.consumeN]
  rw [h.rest]
  by_cases hlt : wsLen t.rd.rest < t.rd.rest.length
  · rw [(wsLen_append _ _).1 hlt]
    exact FRel.peek.app _ _ (h.consume _ (Nat.le_of_lt hlt))
  · exact .inl ⟨_, peek_io_of_all h.faulty₂ _ (by omega)⟩

theorem symLen_le (m : Mode) : ∀ l : List UInt8, symLen m l ≤ l.length
  | [] => by simp [symLen]
  | b :: bs => by
    simp only [symLen]; split
    · simp
    · simp; exact symLen_le m bs

theorem symLen_append_lt (m : Mode) : ∀ (a b : List UInt8), symLen m a < a.length →
    symLen m (a ++ b) = symLen m a
  | [], b => by simp
  | x :: xs, b => by
    intro h
    simp only [symLen, List.cons_append] at h ⊢
    split
    · rfl
    · rename_i hx; simp only [hx] at h
      rw [symLen_append_lt m xs b (by simpa using h)]

theorem FRel.parseSymbolBytes (scratch : List UInt8) :
    FRel tail (parseSymbolBytes scratch) (parseSymbolBytes scratch) := by
  constructor; intro s t h
  unfold Parse.parseSymbolBytes
  simp only [P.run_bind, Parse.getRest, Parse.getMode, Parse.consumeN]
  rw [h.rest, h.mode₁, h.mode₂]
  by_cases hlt : symLen .io t.rd.rest < t.rd.rest.length
  · rw [symLen_append_lt _ _ _ hlt, List.take_append_of_le_length (Nat.le_of_lt hlt)]
    have hp := FRel.peek.app _ _ (h.consume (symLen .io t.rd.rest) (Nat.le_of_lt hlt))
    revert hp
    generalize Parse.peek { rd := s.rd.consume (symLen Mode.io t.rd.rest), depth := s.depth } = p₁
    generalize Parse.peek { rd := t.rd.consume (symLen Mode.io t.rd.rest), depth := t.depth } = p₂
    rintro (⟨t', rfl⟩ | hc)
    · exact .inl ⟨t', rfl⟩
    · revert hc
      cases p₁ <;> cases p₂ <;> intro hc <;> simp only at hc
      all_goals first | exact hc.elim | exact .inr hc | skip
      obtain ⟨rfl, hs⟩ := hc
      simp only
      repeat' split
      all_goals first
        | exact (FRel.errAt _).app _ _ hs
        | exact .inr ⟨rfl, hs⟩
  · have := peek_io_of_all h.faulty₂ (symLen .io t.rd.rest) (by omega)
    rw [this]
    exact .inl ⟨_, rfl⟩

end

section
variable {tail : List UInt8} {α β : Type}

/-- related on states where the faulty reader still holds a byte (e.g. right after a
    successful `peek`) -/
structure FRelNE (tail : List UInt8) {α : Type} (m₁ m₂ : P α) : Prop where
  app : ∀ s t, FSim tail s t → t.rd.rest ≠ [] → FRes tail (m₁ s) (m₂ t)

theorem FRelNE.of_FRel {m₁ m₂ : P α} (h : FRel tail m₁ m₂) : FRelNE tail m₁ m₂ :=
  ⟨fun s t hs _ => h.app s t hs⟩

theorem FRelNE.discard : FRelNE tail discard discard :=
  ⟨fun _ _ h hne => h.discard hne⟩

theorem FRelNE.bind {m₁ m₂ : P α} {f₁ f₂ : α → P β} (hm : FRelNE tail m₁ m₂)
    (hf : ∀ a, FRel tail (f₁ a) (f₂ a)) : FRelNE tail (m₁ >>= f₁) (m₂ >>= f₂) := by
  constructor; intro s t h hne
  show FRes tail (P.bind m₁ f₁ s) (P.bind m₂ f₂ t)
  unfold P.bind
  rcases hm.app s t h hne with ⟨t', ht⟩ | hc
  · rw [ht]; exact .inl ⟨t', rfl⟩
  · revert hc
    cases m₁ s <;> cases m₂ t <;> intro hc <;> simp only at hc
    all_goals first | exact hc.elim | exact .inr hc | skip
    obtain ⟨rfl, hs⟩ := hc
    exact (hf _).app _ _ hs

theorem FRelNE.ite {c : Prop} [Decidable c] {a b a' b' : P α}
    (ha : c → FRelNE tail a a') (hb : ¬c → FRelNE tail b b') :
    FRelNE tail (if c then a else b) (if c then a' else b') := by
  split
  · exact ha ‹_›
  · exact hb ‹_›

/-- a step that leaves the reader alone keeps the byte -/
theorem FRelNE.bind_getPos {f₁ f₂ : Pos → P β} (hf : ∀ a, FRelNE tail (f₁ a) (f₂ a)) :
    FRelNE tail (Parse.getPos >>= f₁) (Parse.getPos >>= f₂) := by
  constructor; intro s t h hne
  show FRes tail (f₁ _ s) (f₂ _ t)
  rw [h.position]
  exact (hf _).app s t h hne

/-- after `Parse.peek` returned a byte the faulty reader holds one; `Parse.peek` never reports end of
    input on the faulty reader -/
theorem FRel.peek_bind {f₁ f₂ : Option UInt8 → P β}
    (hf : ∀ c, FRelNE tail (f₁ (some c)) (f₂ (some c))) :
    FRel tail (Parse.peek >>= f₁) (Parse.peek >>= f₂) := by
  constructor; intro s t h
  show FRes tail (P.bind Parse.peek f₁ s) (P.bind Parse.peek f₂ t)
  unfold P.bind
  have hp := FRel.peek.app s t h
  unfold Parse.peek at hp ⊢
  rw [h.rest, h.faulty₂] at hp ⊢
  cases hr : t.rd.rest with
  | nil => simp only [hr]; exact .inl ⟨t, rfl⟩
  | cons b bs =>
    simp only [hr, List.cons_append] at hp ⊢
    rcases hp with ⟨t', ht⟩ | hc
    · cases ht
    · exact (hf b).app _ _ hc.2 (by simp [hr])

theorem FRel.peekOrNull_bind {f₁ f₂ : UInt8 → P β} (hf : ∀ c, FRelNE tail (f₁ c) (f₂ c)) :
    FRel tail (Parse.peekOrNull >>= f₁) (Parse.peekOrNull >>= f₂) := by
  have : FRel tail (Parse.peek >>= fun o => f₁ (o.getD 0)) (Parse.peek >>= fun o => f₂ (o.getD 0)) :=
    FRel.peek_bind (fun c => hf c)
  constructor; intro s t h
  have := this.app s t h
  revert this
  show FRes tail (P.bind Parse.peek _ s) (P.bind Parse.peek _ t) →
    FRes tail (P.bind (P.bind Parse.peek _) f₁ s) (P.bind (P.bind Parse.peek _) f₂ t)
  unfold P.bind
  cases Parse.peek s <;> cases Parse.peek t <;> exact id

theorem FRel.parseWhitespace_bind {f₁ f₂ : Option UInt8 → P β}
    (hf : ∀ c, FRelNE tail (f₁ (some c)) (f₂ (some c))) :
    FRel tail (Parse.parseWhitespace >>= f₁) (Parse.parseWhitespace >>= f₂) := by
  constructor; intro s t h
  show FRes tail (P.bind Parse.parseWhitespace f₁ s) (P.bind Parse.parseWhitespace f₂ t)
  unfold P.bind Parse.parseWhitespace
  simp only [P.run_bind, Parse.getRest, Parse.consumeN]
  rw [h.rest]
  by_cases hlt : wsLen t.rd.rest < t.rd.rest.length
  · rw [(wsLen_append _ _).1 hlt]
    have := (FRel.peek_bind hf).app _ _ (h.consume _ (Nat.le_of_lt hlt))
    exact this
  · rw [peek_io_of_all h.faulty₂ _ (by omega)]
    exact .inl ⟨_, rfl⟩

theorem FRelNE.peek_bind {f₁ f₂ : Option UInt8 → P β}
    (hf : ∀ c, FRelNE tail (f₁ (some c)) (f₂ (some c))) :
    FRelNE tail (Parse.peek >>= f₁) (Parse.peek >>= f₂) := .of_FRel (FRel.peek_bind hf)
theorem FRelNE.peekOrNull_bind {f₁ f₂ : UInt8 → P β} (hf : ∀ c, FRelNE tail (f₁ c) (f₂ c)) :
    FRelNE tail (Parse.peekOrNull >>= f₁) (Parse.peekOrNull >>= f₂) := .of_FRel (FRel.peekOrNull_bind hf)
theorem FRelNE.parseWhitespace_bind {f₁ f₂ : Option UInt8 → P β}
    (hf : ∀ c, FRelNE tail (f₁ (some c)) (f₂ (some c))) :
    FRelNE tail (Parse.parseWhitespace >>= f₁) (Parse.parseWhitespace >>= f₂) :=
  .of_FRel (FRel.parseWhitespace_bind hf)

end

/-! ### automation -/

syntax "fsim_lemma" : tactic
macro_rules
  | `(tactic| fsim_lemma) => `(tactic| (with_reducible apply_assumption -exfalso -symm) <;> fail)
macro_rules | `(tactic| fsim_lemma) => `(tactic| with_reducible exact FRel.pure _)
macro_rules | `(tactic| fsim_lemma) => `(tactic| with_reducible exact FRel.panicAt _)
macro_rules | `(tactic| fsim_lemma) => `(tactic| with_reducible exact FRel.outOfFuel)
macro_rules | `(tactic| fsim_lemma) => `(tactic| with_reducible exact FRel.peek)
macro_rules | `(tactic| fsim_lemma) => `(tactic| with_reducible exact FRel.next)
macro_rules | `(tactic| fsim_lemma) => `(tactic| with_reducible exact FRel.getPos)
macro_rules | `(tactic| fsim_lemma) => `(tactic| with_reducible exact FRel.errAt _)
macro_rules | `(tactic| fsim_lemma) => `(tactic| with_reducible exact FRel.peekErr _)
macro_rules | `(tactic| fsim_lemma) => `(tactic| with_reducible exact FRel.enter)
macro_rules | `(tactic| fsim_lemma) => `(tactic| with_reducible exact FRel.leave)
macro_rules | `(tactic| fsim_lemma) => `(tactic| with_reducible exact FRel.parseWhitespace)
macro_rules | `(tactic| fsim_lemma) => `(tactic| with_reducible exact FRel.parseSymbolBytes _)

/-- lemmas about computations that start by consuming the peeked byte -/
syntax "fsim_ne" : tactic
macro_rules | `(tactic| fsim_ne) => `(tactic| with_reducible exact FRelNE.discard)

macro "fsim_step" : tactic => `(tactic| first
  | fsim_lemma
  | fsim_ne
  | (with_reducible apply FRel.peek_bind)
  | (with_reducible apply FRel.peekOrNull_bind)
  | (with_reducible apply FRel.parseWhitespace_bind)
  | (with_reducible apply FRelNE.peek_bind)
  | (with_reducible apply FRelNE.peekOrNull_bind)
  | (with_reducible apply FRelNE.parseWhitespace_bind)
  | (with_reducible apply FRelNE.bind_getPos)
  | (with_reducible apply FRel.bind)
  | (with_reducible apply FRelNE.bind)
  | (with_reducible apply FRel.ite)
  | (with_reducible apply FRelNE.ite)
  | (intro _; try dsimp only)
  | (dsimp only)
  | split
  | (with_reducible apply FRelNE.of_FRel))

macro "fsim" : tactic => `(tactic| repeat' fsim_step)

section
variable {tail : List UInt8}

theorem FRel.peekOrNull : FRel tail peekOrNull peekOrNull := by unfold Parse.peekOrNull; fsim
theorem FRel.nextOrNull : FRel tail nextOrNull nextOrNull := by unfold Parse.nextOrNull; fsim
theorem FRel.nextOrEof : FRel tail nextOrEof nextOrEof := by unfold Parse.nextOrEof; fsim
theorem FRel.nextOrEofChar : FRel tail nextOrEofChar nextOrEofChar := by
  unfold Parse.nextOrEofChar; fsim
end
macro_rules | `(tactic| fsim_lemma) => `(tactic| with_reducible exact FRel.peekOrNull)
macro_rules | `(tactic| fsim_lemma) => `(tactic| with_reducible exact FRel.nextOrNull)
macro_rules | `(tactic| fsim_lemma) => `(tactic| with_reducible exact FRel.nextOrEof)
macro_rules | `(tactic| fsim_lemma) => `(tactic| with_reducible exact FRel.nextOrEofChar)


/-! ### the lexer under read faults (explicit, equal fuel on both sides) -/

theorem FRel.finishStr {tail : List UInt8} (checked : Bool) (bytes : List UInt8) :
    FRel tail (finishStr checked bytes) (finishStr checked bytes) := by
  constructor; intro s t h
  unfold Parse.finishStr
  simp only [P.run_bind, Parse.getMode, h.mode₁, h.mode₂, mode_io_ne_str, Bool.and_false,
    Bool.false_eq_true, if_false]
  split
  · exact .inr ⟨rfl, h⟩
  · exact (FRel.errAt _).app s t h
macro_rules | `(tactic| fsim_lemma) => `(tactic| with_reducible exact FRel.finishStr ..)

theorem takeWhile_len_le (p : UInt8 → Bool) : ∀ l : List UInt8, (l.takeWhile p).length ≤ l.length
  | [] => by simp
  | x :: xs => by
    have := takeWhile_len_le p xs
    simp only [List.takeWhile_cons]
    split <;> simp <;> omega

theorem takeWhile_append_lt (p : UInt8 → Bool) : ∀ (a b : List UInt8),
    (a.takeWhile p).length < a.length → ((a ++ b).takeWhile p).length = (a.takeWhile p).length
  | [], b => by simp
  | x :: xs, b => by
    intro h
    simp only [List.takeWhile_cons, List.cons_append] at h ⊢
    cases hx : p x with
    | false => simp
    | true =>
      simp only [hx, if_true, List.length_cons] at h ⊢
      rw [takeWhile_append_lt p xs b (by omega)]

theorem FRel.skipDigits {tail : List UInt8} : FRel tail skipDigits skipDigits := by
  constructor; intro s t h
  unfold Parse.skipDigits
  simp only [P.run_bind, Parse.getRest, Parse.consumeN]
  rw [h.rest]
  by_cases hlt : (t.rd.rest.takeWhile isDigit).length < t.rd.rest.length
  · rw [takeWhile_append_lt _ _ _ hlt]
    have hp := FRel.peek.app _ _ (h.consume _ (Nat.le_of_lt hlt))
    revert hp
    generalize Parse.peek { rd := s.rd.consume _, depth := s.depth } = p₁
    generalize Parse.peek { rd := t.rd.consume _, depth := t.depth } = p₂
    rintro (⟨t', rfl⟩ | hc)
    · exact .inl ⟨t', rfl⟩
    · revert hc
      cases p₁ <;> cases p₂ <;> intro hc <;> simp only at hc
      all_goals first | exact hc.elim | exact .inr hc | skip
      exact .inr ⟨rfl, hc.2⟩
  · rw [peek_io_of_all h.faulty₂ _ (by have := takeWhile_len_le isDigit t.rd.rest; omega)]
    exact .inl ⟨_, rfl⟩
macro_rules | `(tactic| fsim_lemma) => `(tactic| with_reducible exact FRel.skipDigits)

theorem FRel.readCont {tail : List UInt8} (n : Nat) (acc : List UInt8) :
    FRel tail (readCont n acc) (readCont n acc) := by
  induction n generalizing acc with
  | zero => unfold Parse.readCont; fsim
  | succ n ih => unfold Parse.readCont; fsim
macro_rules | `(tactic| fsim_lemma) => `(tactic| with_reducible exact FRel.readCont ..)
theorem FRel.decodeUtf8Sequence {tail : List UInt8} (initial : UInt8) :
    FRel tail (decodeUtf8Sequence initial) (decodeUtf8Sequence initial) := by
  unfold Parse.decodeUtf8Sequence; fsim
macro_rules | `(tactic| fsim_lemma) => `(tactic| with_reducible exact FRel.decodeUtf8Sequence ..)
theorem FRel.decodeR6rsHexEscape {tail : List UInt8} (f n : Nat) :
    FRel tail (decodeR6rsHexEscape f n) (decodeR6rsHexEscape f n) := by
  induction f generalizing n with
  | zero => unfold Parse.decodeR6rsHexEscape; fsim
  | succ f ih => unfold Parse.decodeR6rsHexEscape; fsim
macro_rules | `(tactic| fsim_lemma) => `(tactic| with_reducible exact FRel.decodeR6rsHexEscape ..)
theorem FRel.parseR6rsEscape {tail : List UInt8} (fuel : Nat) (acc : List UInt8) :
    FRel tail (parseR6rsEscape fuel acc) (parseR6rsEscape fuel acc) := by
  unfold Parse.parseR6rsEscape; fsim
macro_rules | `(tactic| fsim_lemma) => `(tactic| with_reducible exact FRel.parseR6rsEscape ..)
theorem FRel.parseR6rsStr {tail : List UInt8} (f : Nat) (acc : List UInt8) :
    FRel tail (parseR6rsStr f acc) (parseR6rsStr f acc) := by
  induction f generalizing acc with
  | zero => unfold Parse.parseR6rsStr; fsim
  | succ f ih => unfold Parse.parseR6rsStr; fsim
macro_rules | `(tactic| fsim_lemma) => `(tactic| with_reducible exact FRel.parseR6rsStr ..)
theorem FRel.decodeElispHexEscape {tail : List UInt8} (f n : Nat) :
    FRel tail (decodeElispHexEscape f n) (decodeElispHexEscape f n) := by
  induction f generalizing n with
  | zero => unfold Parse.decodeElispHexEscape; fsim
  | succ f ih => unfold Parse.decodeElispHexEscape; fsim
macro_rules | `(tactic| fsim_lemma) => `(tactic| with_reducible exact FRel.decodeElispHexEscape ..)
theorem FRel.decodeElispUniEscape {tail : List UInt8} (f n : Nat) :
    FRel tail (decodeElispUniEscape f n) (decodeElispUniEscape f n) := by
  induction f generalizing n with
  | zero => unfold Parse.decodeElispUniEscape; fsim
  | succ f ih => unfold Parse.decodeElispUniEscape; fsim
macro_rules | `(tactic| fsim_lemma) => `(tactic| with_reducible exact FRel.decodeElispUniEscape ..)
theorem FRel.decodeElispOctalEscape {tail : List UInt8} (f n : Nat) :
    FRel tail (decodeElispOctalEscape f n) (decodeElispOctalEscape f n) := by
  induction f generalizing n with
  | zero => unfold Parse.decodeElispOctalEscape; fsim
  | succ f ih => unfold Parse.decodeElispOctalEscape; fsim
macro_rules | `(tactic| fsim_lemma) => `(tactic| with_reducible exact FRel.decodeElispOctalEscape ..)
theorem FRel.elispCharEscape {tail : List UInt8} (acc : List UInt8) (n : Nat) :
    FRel tail (elispCharEscape acc n) (elispCharEscape acc n) := by
  unfold Parse.elispCharEscape; fsim
macro_rules | `(tactic| fsim_lemma) => `(tactic| with_reducible exact FRel.elispCharEscape ..)
theorem FRel.elispUniCharEscape {tail : List UInt8} (acc : List UInt8) (n : Nat) :
    FRel tail (elispUniCharEscape acc n) (elispUniCharEscape acc n) := by
  unfold Parse.elispUniCharEscape; fsim
macro_rules | `(tactic| fsim_lemma) => `(tactic| with_reducible exact FRel.elispUniCharEscape ..)
theorem FRel.parseElispEscape {tail : List UInt8} (fuel : Nat) (acc : List UInt8) :
    FRel tail (parseElispEscape fuel acc) (parseElispEscape fuel acc) := by
  unfold Parse.parseElispEscape; fsim
macro_rules | `(tactic| fsim_lemma) => `(tactic| with_reducible exact FRel.parseElispEscape ..)
theorem FRel.parseElispStr {tail : List UInt8} (f : Nat) (acc : List UInt8) (ub mb na : Bool) :
    FRel tail (parseElispStr f acc ub mb na) (parseElispStr f acc ub mb na) := by
  induction f generalizing acc ub mb na with
  | zero => unfold Parse.parseElispStr; fsim
  | succ f ih => unfold Parse.parseElispStr; fsim
macro_rules | `(tactic| fsim_lemma) => `(tactic| with_reducible exact FRel.parseElispStr ..)
theorem FRel.decodeR6rsCharHexEscape {tail : List UInt8} (f n : Nat) (first : Bool) :
    FRel tail (decodeR6rsCharHexEscape f n first) (decodeR6rsCharHexEscape f n first) := by
  induction f generalizing n first with
  | zero => unfold Parse.decodeR6rsCharHexEscape; fsim
  | succ f ih => unfold Parse.decodeR6rsCharHexEscape; fsim
macro_rules | `(tactic| fsim_lemma) => `(tactic| with_reducible exact FRel.decodeR6rsCharHexEscape ..)
--PARSER6RSCHAR
theorem FRel.asChar {tail : List UInt8} (n : Nat) :
    FRel tail (asChar n) (asChar n) := by
  unfold Parse.asChar; fsim
macro_rules | `(tactic| fsim_lemma) => `(tactic| with_reducible exact FRel.asChar ..)
theorem FRel.asEscapedChar {tail : List UInt8} (n : Nat) :
    FRel tail (asEscapedChar n) (asEscapedChar n) := by
  unfold Parse.asEscapedChar; fsim
macro_rules | `(tactic| fsim_lemma) => `(tactic| with_reducible exact FRel.asEscapedChar ..)
theorem FRel.decodeElispCharEscape {tail : List UInt8} (fuel : Nat) :
    FRel tail (decodeElispCharEscape fuel) (decodeElispCharEscape fuel) := by
  unfold Parse.decodeElispCharEscape; fsim
macro_rules | `(tactic| fsim_lemma) => `(tactic| with_reducible exact FRel.decodeElispCharEscape ..)
theorem FRel.parseElispChar {tail : List UInt8} (fuel : Nat) :
    FRel tail (parseElispChar fuel) (parseElispChar fuel) := by
  unfold Parse.parseElispChar; fsim
macro_rules | `(tactic| fsim_lemma) => `(tactic| with_reducible exact FRel.parseElispChar ..)
theorem FRel.f64FromParts {tail : List UInt8} (cfg : Cfg) (pos : Bool) (sig : Nat) (e : Int) :
    FRel tail (f64FromParts cfg pos sig e) (f64FromParts cfg pos sig e) := by
  unfold Parse.f64FromParts; fsim
macro_rules | `(tactic| fsim_lemma) => `(tactic| with_reducible exact FRel.f64FromParts ..)
theorem FRel.parseExponentOverflow {tail : List UInt8} (pos : Bool) (sig : Nat) (posExp : Bool) :
    FRel tail (parseExponentOverflow pos sig posExp) (parseExponentOverflow pos sig posExp) := by
  unfold Parse.parseExponentOverflow; fsim
macro_rules | `(tactic| fsim_lemma) => `(tactic| with_reducible exact FRel.parseExponentOverflow ..)
theorem FRel.exponentLoop {tail : List UInt8} (cfg : Cfg) (pos : Bool) (sig : Nat) (startExp : Int) (posExp : Bool) (f exp : Nat) :
    FRel tail (exponentLoop cfg pos sig startExp posExp f exp) (exponentLoop cfg pos sig startExp posExp f exp) := by
  induction f generalizing exp with
  | zero => unfold Parse.exponentLoop; fsim
  | succ f ih => unfold Parse.exponentLoop; fsim
macro_rules | `(tactic| fsim_lemma) => `(tactic| with_reducible exact FRel.exponentLoop ..)
theorem FRelNE.parseExponent {tail : List UInt8} (cfg : Cfg) (fuel : Nat) (pos : Bool) (sig : Nat) (startExp : Int) :
    FRelNE tail (parseExponent cfg fuel pos sig startExp) (parseExponent cfg fuel pos sig startExp) := by
  unfold Parse.parseExponent; fsim
macro_rules | `(tactic| fsim_ne) => `(tactic| with_reducible exact FRelNE.parseExponent ..)
theorem FRel.decimalLoop {tail : List UInt8} (f sig : Nat) (exp : Int) (zeros : Nat) (any : Bool) :
    FRel tail (decimalLoop f sig exp zeros any) (decimalLoop f sig exp zeros any) := by
  induction f generalizing sig exp zeros any with
  | zero => unfold Parse.decimalLoop; fsim
  | succ f ih => unfold Parse.decimalLoop; fsim
macro_rules | `(tactic| fsim_lemma) => `(tactic| with_reducible exact FRel.decimalLoop ..)
theorem FRelNE.parseDecimal {tail : List UInt8} (cfg : Cfg) (fuel : Nat) (pos : Bool) (sig : Nat) (exp : Int) :
    FRelNE tail (parseDecimal cfg fuel pos sig exp) (parseDecimal cfg fuel pos sig exp) := by
  unfold Parse.parseDecimal; fsim
macro_rules | `(tactic| fsim_ne) => `(tactic| with_reducible exact FRelNE.parseDecimal ..)
theorem FRel.parseLongInteger {tail : List UInt8} (cfg : Cfg) (radix : Nat) (pos : Bool) (sig f exp : Nat) :
    FRel tail (parseLongInteger cfg radix pos sig f exp) (parseLongInteger cfg radix pos sig f exp) := by
  induction f generalizing exp with
  | zero => unfold Parse.parseLongInteger; fsim
  | succ f ih => unfold Parse.parseLongInteger; generalize (2 : Nat) ^ 1024 = K; fsim
macro_rules | `(tactic| fsim_lemma) => `(tactic| with_reducible exact FRel.parseLongInteger ..)
theorem FRel.parseNumTail {tail : List UInt8} (cfg : Cfg) (fuel radix : Nat) (pos : Bool) (sig : Nat) :
    FRel tail (parseNumTail cfg fuel radix pos sig) (parseNumTail cfg fuel radix pos sig) := by
  unfold Parse.parseNumTail; fsim
macro_rules | `(tactic| fsim_lemma) => `(tactic| with_reducible exact FRel.parseNumTail ..)
theorem FRel.numLoop {tail : List UInt8} (cfg : Cfg) (radix : Nat) (pos : Bool) (f res : Nat) :
    FRel tail (numLoop cfg radix pos f res) (numLoop cfg radix pos f res) := by
  induction f generalizing res with
  | zero => unfold Parse.numLoop; fsim
  | succ f ih => unfold Parse.numLoop; fsim
macro_rules | `(tactic| fsim_lemma) => `(tactic| with_reducible exact FRel.numLoop ..)
theorem FRel.parseNumLiteral {tail : List UInt8} (cfg : Cfg) (fuel radix : Nat) (pos : Bool) :
    FRel tail (parseNumLiteral cfg fuel radix pos) (parseNumLiteral cfg fuel radix pos) := by
  unfold Parse.parseNumLiteral; fsim
macro_rules | `(tactic| fsim_lemma) => `(tactic| with_reducible exact FRel.parseNumLiteral ..)
theorem FRel.parseRadixLiteral {tail : List UInt8} (cfg : Cfg) (fuel radix : Nat) :
    FRel tail (parseRadixLiteral cfg fuel radix) (parseRadixLiteral cfg fuel radix) := by
  unfold Parse.parseRadixLiteral; fsim
macro_rules | `(tactic| fsim_lemma) => `(tactic| with_reducible exact FRel.parseRadixLiteral ..)
theorem FRel.expectNumberEnd {tail : List UInt8} (n : Number) :
    FRel tail (expectNumberEnd n) (expectNumberEnd n) := by
  unfold Parse.expectNumberEnd; fsim
macro_rules | `(tactic| fsim_lemma) => `(tactic| with_reducible exact FRel.expectNumberEnd ..)
theorem FRel.parseNumToken {tail : List UInt8} (cfg : Cfg) (fuel : Nat) (pos : Bool) :
    FRel tail (parseNumToken cfg fuel pos) (parseNumToken cfg fuel pos) := by
  unfold Parse.parseNumToken; fsim
macro_rules | `(tactic| fsim_lemma) => `(tactic| with_reducible exact FRel.parseNumToken ..)
theorem FRel.parseRadixToken {tail : List UInt8} (cfg : Cfg) (fuel radix : Nat) :
    FRel tail (parseRadixToken cfg fuel radix) (parseRadixToken cfg fuel radix) := by
  unfold Parse.parseRadixToken; fsim
macro_rules | `(tactic| fsim_lemma) => `(tactic| with_reducible exact FRel.parseRadixToken ..)
theorem FRel.parseNumber {tail : List UInt8} (cfg : Cfg) (fuel : Nat) :
    FRel tail (parseNumber cfg fuel) (parseNumber cfg fuel) := by
  unfold Parse.parseNumber; fsim
macro_rules | `(tactic| fsim_lemma) => `(tactic| with_reducible exact FRel.parseNumber ..)
theorem FRel.expectIdent {tail : List UInt8} (cs : List UInt8) :
    FRel tail (expectIdent cs) (expectIdent cs) := by
  induction cs with
  | nil => unfold Parse.expectIdent; fsim
  | cons c cs ih => unfold Parse.expectIdent; fsim
macro_rules | `(tactic| fsim_lemma) => `(tactic| with_reducible exact FRel.expectIdent ..)
theorem FRel.endSeq {tail : List UInt8} (close : UInt8) :
    FRel tail (endSeq close) (endSeq close) := by
  unfold Parse.endSeq; fsim
macro_rules | `(tactic| fsim_lemma) => `(tactic| with_reducible exact FRel.endSeq ..)
theorem FRel.byteListLoop {tail : List UInt8} (cfg : Cfg) (close : UInt8) (f : Nat) (acc : List UInt8) :
    FRel tail (byteListLoop cfg close f acc) (byteListLoop cfg close f acc) := by
  induction f generalizing acc with
  | zero => unfold Parse.byteListLoop; fsim
  | succ f ih => unfold Parse.byteListLoop; fsim
macro_rules | `(tactic| fsim_lemma) => `(tactic| with_reducible exact FRel.byteListLoop ..)
theorem FRel.parseByteList {tail : List UInt8} (cfg : Cfg) (fuel : Nat) (close : UInt8) :
    FRel tail (parseByteList cfg fuel close) (parseByteList cfg fuel close) := by
  unfold Parse.parseByteList; fsim
macro_rules | `(tactic| fsim_lemma) => `(tactic| with_reducible exact FRel.parseByteList ..)
theorem FRel.expectEnd {tail : List UInt8}  :
    FRel tail (expectEnd ) (expectEnd ) := by
  unfold Parse.expectEnd; fsim
macro_rules | `(tactic| fsim_lemma) => `(tactic| with_reducible exact FRel.expectEnd ..)
theorem FRelNE.parseSignDotSymbol {tail : List UInt8} (cfg : Cfg) (pfx : List UInt8) :
    FRelNE tail (parseSignDotSymbol cfg pfx) (parseSignDotSymbol cfg pfx) := by
  unfold Parse.parseSignDotSymbol; fsim
macro_rules | `(tactic| fsim_ne) => `(tactic| with_reducible exact FRelNE.parseSignDotSymbol ..)
theorem FRelNE.parseSignToken {tail : List UInt8} (cfg : Cfg) (fuel : Nat) (sign : UInt8) (pos : Bool) :
    FRelNE tail (parseSignToken cfg fuel sign pos) (parseSignToken cfg fuel sign pos) := by
  unfold Parse.parseSignToken; fsim
macro_rules | `(tactic| fsim_ne) => `(tactic| with_reducible exact FRelNE.parseSignToken ..)


theorem charNameLen_le : ∀ l : List UInt8, charNameLen l ≤ l.length
  | [] => by simp [charNameLen]
  | b :: bs => by
    simp only [charNameLen]; split
    · simp
    · simp; exact charNameLen_le bs

theorem charNameLen_append : ∀ (a b : List UInt8), charNameLen a < a.length →
    charNameLen (a ++ b) = charNameLen a
  | [], b => by simp
  | x :: xs, b => by
    intro h
    simp only [charNameLen, List.cons_append] at h ⊢
    split
    · rfl
    · rename_i hx; simp only [hx] at h
      rw [charNameLen_append xs b (by simpa using h)]

/-- the `<character name>` scanner of `parse_r6rs_char` -/
theorem frel_charNameBlock {tail : List UInt8} (initial : UInt8) :
    FRel tail
      (do
        let rest ← getRest
        let n := charNameLen rest
        consumeN n
        let nxt' ← peek
        match charName (initial :: rest.take n) with
        | some c => pure c
        | none =>
          if nxt'.isNone && isCharNamePrefix (initial :: rest.take n) then errAt .eofChar
          else errAt .invalidCharacterConstant : P Nat)
      (do
        let rest ← getRest
        let n := charNameLen rest
        consumeN n
        let nxt' ← peek
        match charName (initial :: rest.take n) with
        | some c => pure c
        | none =>
          if nxt'.isNone && isCharNamePrefix (initial :: rest.take n) then errAt .eofChar
          else errAt .invalidCharacterConstant : P Nat) := by
  constructor; intro s t h
  simp only [P.run_bind, Parse.getRest, Parse.consumeN]
  rw [h.rest]
  by_cases hlt : charNameLen t.rd.rest < t.rd.rest.length
  · rw [charNameLen_append _ _ hlt, List.take_append_of_le_length (Nat.le_of_lt hlt)]
    have hp := FRel.peek.app _ _ (h.consume (charNameLen t.rd.rest) (Nat.le_of_lt hlt))
    revert hp
    generalize Parse.peek { rd := s.rd.consume (charNameLen t.rd.rest), depth := s.depth } = p₁
    generalize Parse.peek { rd := t.rd.consume (charNameLen t.rd.rest), depth := t.depth } = p₂
    rintro (⟨t', rfl⟩ | hc)
    · exact .inl ⟨t', rfl⟩
    · revert hc
      cases p₁ <;> cases p₂ <;> intro hc <;> simp only at hc
      all_goals first | exact hc.elim | exact .inr hc | skip
      obtain ⟨rfl, hs⟩ := hc
      simp only
      cases charName (initial :: List.take (charNameLen t.rd.rest) t.rd.rest) with
      | some c => exact .inr ⟨rfl, hs⟩
      | none =>
        simp only
        split
        · exact (FRel.errAt _).app _ _ hs
        · exact (FRel.errAt _).app _ _ hs
  · have := peek_io_of_all h.faulty₂ (charNameLen t.rd.rest) (by have := charNameLen_le t.rd.rest; omega)
    rw [this]
    exact .inl ⟨_, rfl⟩
macro_rules | `(tactic| fsim_lemma) => `(tactic| exact frel_charNameBlock _)
macro_rules | `(tactic| fsim_ne) => `(tactic| exact FRelNE.of_FRel (frel_charNameBlock _))

theorem FRel.parseR6rsChar {tail : List UInt8} (fuel : Nat) :
    FRel tail (parseR6rsChar fuel) (parseR6rsChar fuel) := by
  unfold Parse.parseR6rsChar
  fsim
macro_rules | `(tactic| fsim_lemma) => `(tactic| with_reducible exact FRel.parseR6rsChar ..)


/-- the last arm of `parse_token` -/
theorem frelNE_tokenFallback {tail : List UInt8} :
    FRelNE tail (do
        let s ← (fun s => Res.ok s s : P St)
        Parse.discard
        (fun s' => Res.err (.syntax .expectedSomeValue s.rd.peekPosition.line
          s.rd.peekPosition.col) s' : P Token))
      (do
        let s ← (fun s => Res.ok s s : P St)
        Parse.discard
        (fun s' => Res.err (.syntax .expectedSomeValue s.rd.peekPosition.line
          s.rd.peekPosition.col) s' : P Token)) := by
  constructor; intro s t h hne
  show FRes tail
    (P.bind Parse.discard (fun _ s' => Res.err (.syntax .expectedSomeValue s.rd.peekPosition.line
      s.rd.peekPosition.col) s') s)
    (P.bind Parse.discard (fun _ s' => Res.err (.syntax .expectedSomeValue t.rd.peekPosition.line
      t.rd.peekPosition.col) s') t)
  unfold P.bind
  rcases h.discard hne with ⟨t', ht⟩ | hc
  · rw [ht]; exact .inl ⟨t', rfl⟩
  · revert hc
    cases Parse.discard s <;> cases Parse.discard t <;> intro hc <;> simp only at hc
    all_goals first | exact hc.elim | exact .inr hc | skip
    exact .inr ⟨by rw [h.peekPosition], hc.2⟩
macro_rules | `(tactic| fsim_ne) => `(tactic| with_reducible exact frelNE_tokenFallback)

/-- `parse_token` after `parse_whitespace` returned `pk` (so the faulty reader holds a byte);
    both sides with the same fuel. -/
theorem FRelNE.parseToken {tail : List UInt8} (cfg : Cfg) (fuel : Nat) (pk : UInt8) :
    FRelNE tail (parseToken cfg fuel pk) (parseToken cfg fuel pk) := by
  unfold Parse.parseToken; fsim
macro_rules | `(tactic| fsim_ne) => `(tactic| with_reducible exact FRelNE.parseToken ..)


/-! ### reading the relation -/

/-- the faulty run never returns `Ok` of something the fault-free run does not return -/
theorem FRes.ok_inv {tail : List UInt8} {α : Type} {r₁ : Res α} {b : α} {t : St}
    (h : FRes tail r₁ (.ok b t)) : ∃ s, r₁ = .ok b s ∧ FSim tail s t := by
  rcases h with ⟨t', ht⟩ | hc
  · cases ht
  · cases r₁ <;> simp only at hc
    exact ⟨_, by rw [hc.1], hc.2⟩

/-- a syntax error of the faulty run (in particular an `Eof*` error) is the fault-free run's
    error, at the same position: the fault itself only ever surfaces as `Err.io` -/
theorem FRes.syntax_inv {tail : List UInt8} {α : Type} {r₁ : Res α} {c : Code} {l k : Nat} {t : St}
    (h : FRes tail r₁ (.err (.syntax c l k) t)) :
    ∃ s, r₁ = .err (.syntax c l k) s ∧ FSim tail s t := by
  rcases h with ⟨t', ht⟩ | hc
  · cases ht
  · cases r₁ <;> simp only at hc
    exact ⟨_, by rw [hc.1], hc.2⟩

/-- a fresh fault-free reader and a reader that fails after `k` bytes -/
theorem FSim.init (bytes : List UInt8) (k : Nat) :
    FSim (bytes.drop k) (initSt .io bytes) (initSt .io (bytes.take k) true) :=
  ⟨by simp [initSt], rfl, rfl, rfl, rfl, rfl, rfl, rfl, rfl, by simp [initSt]⟩

end Parse
end Lexpr
