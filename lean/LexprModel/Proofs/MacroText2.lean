/-
  C09 (text half, second part) — `C09_agree` over the enlarged sub-language: float literals with an
  optional minus sign, strings with arbitrary (well-formed UTF-8) content, characters, and everything
  `TextOK` had, nested arbitrarily in lists, dotted lists (tails merged) and vectors.

  The documented tree type `Doc` (MacroSpec) carries for a float only the pair `(sig, exp)` the
  token denotes, not its spelling.  `Sx` is the same tree with the float literals spelled out
  (`DecLit`: `digits[.digits][(e|E)[+|-]digits]`, a sub-syntax of Rust's float literals);
  `erase : Sx → Doc` forgets the spelling: the Rust token of the literal `L` is
  `Lit.float L.sig L.exp10` (its digits without the trailing zeros of the fraction, exponent
  adjusted — the same number as all written digits, `DecLit.value_eq`), which the model evaluates
  to `F64.rnDec L.sig L.exp10`, the correctly rounded double of the written decimal.

  Main statements here: `C09_text2`, `C09_agree_full` (macro on the tokens and parser on the text
  both give `valueOf env (erase x)`), `C09_agree_float_default`, `C09_agree_float_nofast`.
  In MacroText2Embed: `C09_agree_full_extends` (every `TextOK` tree is covered, same text).
  In MacroText2Ex: the instance `(a "x\ny" #\x1 1.5 -2e3 . #(#:k))` in both builds, the witnesses
  `C09_float_window_needed` / `C09_float_window_needed_8_5em30` (default build: `sexp!(1e-23)` and
  `from_str("1e-23")` are neighbouring doubles), `C09_float_digits_needed` (both builds, twenty
  digits), `C09_float_range_needed`, and the names clause (`C09_name_image`,
  `C09_space_symbol_no_text`, `C09_keyword_names_exact`, `C09_symbol_names_necessary`,
  `C09_dot_head_needed`).  In MacroUnquote: the unquote clause.
-/
import LexprModel.Proofs.MacroText2Base
import LexprModel.Proofs.Image
namespace Lexpr
namespace Macro
open Print
open Parse.ListRT
open Parse (PlainIdent symTermSlice)
open Decimals

/-! ## The tree with spelled float literals -/

/-- The documented syntax with float literals spelled out.  `leaf d` is any leaf of `Doc` other
    than a float (the side conditions reject composite `d`). -/
inductive Sx where
  | leaf (d : Doc)
  | flt (neg : Bool) (L : DecLit)
  | list (xs : List Sx)
  | dotted (xs : List Sx) (t : Sx)
  | vec (xs : List Sx)

mutual
/-- the documented tree of MacroSpec: a float literal becomes the pair its token denotes -/
def erase : Sx → Doc
  | .leaf d => d
  | .flt neg L => if neg then .negFloat L.sig L.exp10 else .float L.sig L.exp10
  | .list xs => .list (eraseL xs)
  | .dotted xs t => .dotted (eraseL xs) (erase t)
  | .vec xs => .vec (eraseL xs)
def eraseL : List Sx → List Doc
  | [] => []
  | x :: xs => erase x :: eraseL xs
end

/-- the text of a leaf: as `stextAtom`, but a string is written as the default printer writes its
    value (R6RS escapes), whatever the Rust source text was -/
def stextAtom2 : Doc → List UInt8
  | .str _ val => strText val
  | d => stextAtom d

mutual
/-- The S-expression text equivalent to the macro syntax: as `stext` (tails merged, single spaces),
    with float literals as written and strings as the printer writes them. -/
def stext2 : Sx → List UInt8
  | .leaf d => stextAtom2 d
  | .flt neg L => fltText neg L
  | .list [] => [40, 41]
  | .list (x :: xs) => 40 :: (stext2 x ++ (stextRest2 xs ++ [41]))
  | .dotted [] t => stext2 t
  | .dotted (x :: xs) t => 40 :: (stext2 x ++ ((stextRest2 xs ++ stextTail2 t) ++ [41]))
  | .vec [] => [35, 40, 41]
  | .vec (x :: xs) => 35 :: 40 :: ((stext2 x ++ stextRest2 xs) ++ [41])
def stextRest2 : List Sx → List UInt8
  | [] => []
  | x :: xs => 32 :: (stext2 x ++ stextRest2 xs)
/-- the tail of a dotted list, up to the closing parenthesis: merged if it is a list -/
def stextTail2 : Sx → List UInt8
  | .list ys => stextRest2 ys
  | .dotted ys t => stextRest2 ys ++ stextTail2 t
  | .vec [] => [32, 46, 32, 35, 40, 41]
  | .vec (x :: xs) => 32 :: 46 :: 32 :: 35 :: 40 :: ((stext2 x ++ stextRest2 xs) ++ [41])
  | .leaf d => 32 :: 46 :: 32 :: stextAtom2 d
  | .flt neg L => 32 :: 46 :: 32 :: fltText neg L
end

/-! ## Side conditions -/

/-- leaves: as `atomOk`, but a string only has to denote well-formed UTF-8 (any content, any
    source text) and `-0` is allowed (it denotes `0`) -/
def atomOk2 : Doc → Bool
  | .str _ val => Utf8.valid val
  | .negInt n => decide (n ≤ 9223372036854775808)
  | d => atomOk d

/-- a symbol name: as in `TextOK` (`symOk`: `PlainIdent` and `dotHeadOk`), or — more generally —
    any name of a symbol the parser `cfg` can return at all (`Parse.Image.SymImg`, necessary by
    `C13_image_shape`) that does not start with `.` followed by NUL or a delimiter (`dotHeadOk`).
    Under the default options the first alternative implies the second (`symOk2_of_symOk`); it is
    kept because it is decidable by evaluation. -/
def symOk2 (cfg : Parse.Cfg) (n : List UInt8) : Prop :=
  symOk n = true ∨ (Parse.Image.SymImg cfg n ∧ dotHeadOk n = true)

/-- the side condition on a leaf: `atomOk2`, with the wider symbol-name clause `symOk2` -/
def LeafOK (cfg : Parse.Cfg) : Doc → Prop
  | .sym n => symOk2 cfg n
  | .psym n => symOk2 cfg n
  | .qsym n _ => symOk2 cfg n
  | d => atomOk2 d = true

/-- a float literal the build reads exactly: well formed, exponent arithmetic inside `i32`, and
    `f64_from_parts` exact on the scanned pair (`ExactBuild`: default build — digits below `2^53`
    and scanned exponent within `±22`, with the first 23 `POW10` entries exact; build without
    fast-float-parsing — at most `u64::MAX` as significand and a finite result) -/
def FltOK (cfg : Parse.Cfg) (L : DecLit) : Prop :=
  L.WF ∧ L.Small ∧ ExactBuild cfg L.sig L.exp10

mutual
def textOk2 (cfg : Parse.Cfg) : Sx → Prop
  | .leaf d => LeafOK cfg d
  | .flt _ L => FltOK cfg L
  | .list xs => textOkL2 cfg xs
  | .dotted [] _ => False
  | .dotted (x :: xs) t => textOk2 cfg x ∧ textOkL2 cfg xs ∧ textOkTail2 cfg t
  | .vec xs => textOkL2 cfg xs
def textOkL2 (cfg : Parse.Cfg) : List Sx → Prop
  | [] => True
  | x :: xs => textOk2 cfg x ∧ textOkL2 cfg xs
/-- in tail position a dotted list may have no elements before its dot -/
def textOkTail2 (cfg : Parse.Cfg) : Sx → Prop
  | .list ys => textOkL2 cfg ys
  | .dotted ys t => textOkL2 cfg ys ∧ textOkTail2 cfg t
  | .vec xs => textOkL2 cfg xs
  | .leaf d => LeafOK cfg d
  | .flt _ L => FltOK cfg L
end

/-- The side conditions of the enlarged sub-language, for the build `cfg`:
    * `leaf d` (`LeafOK`): `d` is a leaf with the conditions of `TextOK` (integers in range, scalar
      characters, keyword names without terminator bytes, not `.`, well-formed UTF-8), except that
      a string literal may have ANY content that is well-formed UTF-8 (its text is the printer's
      rendering of the value), that `-0` is allowed, and that a symbol name may be any name the
      parser can return as a symbol (`SymImg`) with `dotHeadOk` (`symOk2`; this adds the names
      that start with a non-ASCII alphabetic character); no unquote;
    * `flt neg L`: `FltOK cfg L`;
    * a dotted list has at least one element before the dot, except in tail position. -/
def TextOK2 (cfg : Parse.Cfg) (x : Sx) : Prop := textOk2 cfg x

mutual
/-- parentheses pending at the deepest point of `stext2 x` (merged tails do not count) -/
def dnest2 : Sx → Nat
  | .list xs => 1 + dnestL2 xs
  | .dotted [] t => dnest2 t
  | .dotted (x :: xs) t => 1 + max (dnest2 x) (max (dnestL2 xs) (dnestTail2 t))
  | .vec xs => 1 + dnestL2 xs
  | .leaf _ => 0
  | .flt _ _ => 0
def dnestL2 : List Sx → Nat
  | [] => 0
  | x :: xs => max (dnest2 x) (dnestL2 xs)
def dnestTail2 : Sx → Nat
  | .list ys => dnestL2 ys
  | .dotted ys t => max (dnestL2 ys) (dnestTail2 t)
  | .vec xs => 1 + dnestL2 xs
  | .leaf _ => 0
  | .flt _ _ => 0
end

/-! ## Leaves -/

theorem stextAtom2_str_print (ryu : Nat → List UInt8) (src val : List UInt8) :
    stextAtom2 (.str src val) = Print.text Print.Options.default ryu (.string val) :=
  strText_print ryu val

theorem stextAtom2_chr_print (ryu : Nat → List UInt8) (c : Nat) :
    stextAtom2 (.chr c) = Print.text Print.Options.default ryu (.char c) :=
  (text_char ryu c).symm

/-- every leaf of the enlarged sub-language is read as the value it denotes -/
theorem leaf_reads (env : Tok → Value) (cfg : Parse.Cfg) (ho : cfg.opts = Parse.Options.default)
    (d : Doc) (h : atomOk2 d = true) :
    ReadsAs cfg (stextAtom2 d) (valueOf env d) 0 ∧ ElemHead (stextAtom2 d) := by
  cases d with
  | str src val => simpa only [stextAtom2, valueOf] using str_reads cfg ho val h
  | negInt n =>
    simp only [atomOk2, decide_eq_true_eq] at h
    have := raw_negInt env cfg ho true n (by
      by_cases h0 : n = 0
      · simp [h0]
      · simp only [atomOk, Bool.or_eq_true, decide_eq_true_eq]; exact Or.inr ⟨by omega, h⟩)
    simpa only [stextAtom2] using this
  | int _ | float _ _ | negFloat _ _ | chr _ | tru | fls | nil | sym _ | psym _ | qsym _ _
  | kw _ | ckw _ | qkw _ _ | cqkw _ _ | pkw _ | unq _ | list _ | dotted _ _ | vec _ =>
    simp only [atomOk2] at h
    simpa only [stextAtom2] using raw_atom env cfg ho _ h

/-- a symbol in the image of the parser whose head is fine is read back from its name -/
theorem sym_reads (cfg : Parse.Cfg) (n : List UInt8) (himg : Parse.Image.SymImg cfg n)
    (hdot : dotHeadOk n = true) : ReadsAs cfg n (.symbol n) 0 ∧ ElemHead n := by
  obtain ⟨_, _, _, hh, hr⟩ := Parse.Image.atomOKP_symbol cfg (fun _ => []) n himg hdot
  rw [Parse.atomTextP_symbol] at hh
  refine ⟨?_, hh⟩
  intro s rest fuel hf hg hrr hfu hd
  have := hr s rest fuel hf hg (by rw [Parse.atomTextP_symbol]; exact hrr) (by omega)
    (by simp only [nestingP]; omega)
  rwa [Parse.Image.fold_pof] at this

theorem leafOK_of_atomOk2 (cfg : Parse.Cfg) (d : Doc) (h : atomOk2 d = true) : LeafOK cfg d := by
  cases d with
  | sym n => exact Or.inl (by simpa only [atomOk2, atomOk] using h)
  | psym n => exact Or.inl (by simpa only [atomOk2, atomOk] using h)
  | qsym n _ => exact Or.inl (by simpa only [atomOk2, atomOk] using h)
  | int _ | negInt _ | float _ _ | negFloat _ _ | str _ _ | chr _ | tru | fls | nil
  | kw _ | ckw _ | qkw _ _ | cqkw _ _ | pkw _ | unq _ | list _ | dotted _ _ | vec _ =>
    simpa only [LeafOK] using h

theorem leaf_reads2 (env : Tok → Value) (cfg : Parse.Cfg) (ho : cfg.opts = Parse.Options.default)
    (d : Doc) (h : LeafOK cfg d) :
    ReadsAs cfg (stextAtom2 d) (valueOf env d) 0 ∧ ElemHead (stextAtom2 d) := by
  have key : ∀ n, symOk2 cfg n → ReadsAs cfg n (.symbol n) 0 ∧ ElemHead n := by
    intro n hn
    rcases hn with hn | ⟨himg, hdot⟩
    · have := leaf_reads env cfg ho (.sym n) (by simpa only [atomOk2, atomOk] using hn)
      simpa only [stextAtom2, stextAtom, valueOf] using this
    · exact sym_reads cfg n himg hdot
  cases d with
  | sym n => simpa only [stextAtom2, stextAtom, valueOf] using key n h
  | psym n => simpa only [stextAtom2, stextAtom, valueOf] using key n h
  | qsym n _ => simpa only [stextAtom2, stextAtom, valueOf] using key n h
  | int _ | negInt _ | float _ _ | negFloat _ _ | str _ _ | chr _ | tru | fls | nil
  | kw _ | ckw _ | qkw _ _ | cqkw _ _ | pkw _ | unq _ | list _ | dotted _ _ | vec _ =>
    exact leaf_reads env cfg ho _ (by simpa only [LeafOK] using h)

theorem valueOf_flt (env : Tok → Value) (neg : Bool) (L : DecLit) :
    valueOf env (erase (.flt neg L)) = .number (.flt (fltBits neg L)) := by
  cases neg <;> simp [erase, valueOf, fltBits]

theorem flt_reads (env : Tok → Value) (cfg : Parse.Cfg) (ho : cfg.opts = Parse.Options.default)
    (neg : Bool) (L : DecLit) (h : FltOK cfg L) :
    ReadsAs cfg (fltText neg L) (valueOf env (erase (.flt neg L))) 0 ∧ ElemHead (fltText neg L) := by
  rw [valueOf_flt]
  exact float_reads cfg ho neg L h.1 h.2.1 h.2.2

/-! ## Reading the merged text -/

theorem spaceOrEnd_rest2 (xs : List Sx) (E : List UInt8) (hE : SpaceOrEnd E) :
    SpaceOrEnd (stextRest2 xs ++ E) := by
  cases xs with
  | nil => simpa only [stextRest2, List.nil_append] using hE
  | cons x xs =>
    exact Or.inr ⟨(stext2 x ++ stextRest2 xs) ++ E, by simp only [stextRest2, List.cons_append]⟩

/-- a non-empty vector from its first element and the rest of the sequence -/
theorem readsAs_vec_cons (cfg : Parse.Cfg) (X E : List UInt8) (x : Value) (xs : List Value)
    (nx n : Nat) (hX : ReadsAs cfg X x nx) (hhead : ElemHead X) (hE : SpaceOrEnd E)
    (hS : SeqReads cfg false E xs n) :
    ReadsAs cfg (35 :: 40 :: ((X ++ E) ++ [41])) (.vector (x :: xs)) (1 + max nx n) := by
  have hs := seqReads_cons cfg true X E x xs nx n hX hhead hE hS
  simp only [if_true, List.nil_append] at hs
  exact readsAs_vector cfg _ _ _ hs

theorem readsAs_vec_nil (cfg : Parse.Cfg) : ReadsAs cfg [35, 40, 41] (.vector []) 1 := by
  simpa using readsAs_vector cfg [] [] 0 (seqReads_nil cfg true)

mutual
theorem reads2 (env : Tok → Value) (cfg : Parse.Cfg) (ho : cfg.opts = Parse.Options.default) :
    ∀ x : Sx, textOk2 cfg x →
      ReadsAs cfg (stext2 x) (valueOf env (erase x)) (dnest2 x) ∧ ElemHead (stext2 x)
  | .leaf d, h => by
    simp only [textOk2] at h
    simpa only [stext2, erase, dnest2] using leaf_reads2 env cfg ho d h
  | .flt neg L, h => by
    simp only [textOk2] at h
    simpa only [stext2, dnest2] using flt_reads env cfg ho neg L h
  | .list [], _ => by
    refine ⟨?_, by simp only [stext2]; exact head40 _⟩
    simpa [stext2, erase, eraseL, valueOf, valueOfL, Value.list, Value.append, dnest2, dnestL2]
      using readsAs_null cfg
  | .list (x :: xs), h => by
    simp only [textOk2, textOkL2] at h
    obtain ⟨hx, hxh⟩ := reads2 env cfg ho x h.1
    have ht := rest2 env cfg ho xs [] .null 0 h.2 (Or.inl rfl) (tailReads_nil cfg)
    have := readsAs_cons cfg ho (stext2 x) (stextRest2 xs ++ []) _ _ _ _ hx hxh
      (spaceOrEnd_rest2 xs [] (Or.inl rfl)) ht
    refine ⟨?_, by simp only [stext2]; exact head40 _⟩
    simpa [stext2, erase, eraseL, valueOf, valueOfL, Value.list, Value.append, dnest2, dnestL2]
      using this
  | .dotted [] t, h => by simp only [textOk2] at h
  | .dotted (x :: xs) t, h => by
    simp only [textOk2] at h
    obtain ⟨hx, hxh⟩ := reads2 env cfg ho x h.1
    obtain ⟨hd, hsp⟩ := tail2 env cfg ho t h.2.2
    have ht := rest2 env cfg ho xs _ _ _ h.2.1 hsp hd
    have := readsAs_cons cfg ho (stext2 x) (stextRest2 xs ++ stextTail2 t) _ _ _ _ hx hxh
      (spaceOrEnd_rest2 xs _ hsp) ht
    refine ⟨?_, by simp only [stext2]; exact head40 _⟩
    simpa only [stext2, erase, eraseL, valueOf, valueOfL, Value.append, dnest2] using this
  | .vec [], _ => by
    refine ⟨?_, by simp only [stext2]; exact head35 _⟩
    simpa [stext2, erase, eraseL, valueOf, valueOfL, dnest2, dnestL2] using readsAs_vec_nil cfg
  | .vec (x :: xs), h => by
    simp only [textOk2, textOkL2] at h
    obtain ⟨hx, hxh⟩ := reads2 env cfg ho x h.1
    have := readsAs_vec_cons cfg (stext2 x) (stextRest2 xs) _ _ _ _ hx hxh
      (by simpa using spaceOrEnd_rest2 xs [] (Or.inl rfl)) (seq2 env cfg ho xs h.2)
    refine ⟨?_, by simp only [stext2]; exact head35 _⟩
    simpa only [stext2, erase, eraseL, valueOf, valueOfL, dnest2, dnestL2] using this
theorem rest2 (env : Tok → Value) (cfg : Parse.Cfg) (ho : cfg.opts = Parse.Options.default) :
    ∀ (xs : List Sx) (E : List UInt8) (tl : Value) (nt : Nat), textOkL2 cfg xs →
      SpaceOrEnd E → TailReads cfg E tl nt →
      TailReads cfg (stextRest2 xs ++ E) (Value.append (valueOfL env (eraseL xs)) tl)
        (max (dnestL2 xs) nt)
  | [], E, tl, nt, _, _, hD => by
    simpa [stextRest2, eraseL, valueOfL, Value.append, dnestL2] using hD
  | x :: xs, E, tl, nt, h, hE, hD => by
    simp only [textOkL2] at h
    obtain ⟨hx, hxh⟩ := reads2 env cfg ho x h.1
    have ih := rest2 env cfg ho xs E tl nt h.2 hE hD
    have := tailReads_cons cfg ho (stext2 x) (stextRest2 xs ++ E) _ _ _ _ hx hxh
      (spaceOrEnd_rest2 xs E hE) ih
    simpa [stextRest2, eraseL, valueOfL, Value.append, dnestL2, Nat.max_assoc] using this
theorem seq2 (env : Tok → Value) (cfg : Parse.Cfg) (ho : cfg.opts = Parse.Options.default) :
    ∀ xs : List Sx, textOkL2 cfg xs →
      SeqReads cfg false (stextRest2 xs) (valueOfL env (eraseL xs)) (dnestL2 xs)
  | [], _ => by simpa [stextRest2, eraseL, valueOfL, dnestL2] using seqReads_nil cfg false
  | x :: xs, h => by
    simp only [textOkL2] at h
    obtain ⟨hx, hxh⟩ := reads2 env cfg ho x h.1
    have := seqReads_cons cfg false (stext2 x) (stextRest2 xs) _ _ _ _ hx hxh
      (by simpa using spaceOrEnd_rest2 xs [] (Or.inl rfl)) (seq2 env cfg ho xs h.2)
    simpa [stextRest2, eraseL, valueOfL, dnestL2] using this
theorem tail2 (env : Tok → Value) (cfg : Parse.Cfg) (ho : cfg.opts = Parse.Options.default) :
    ∀ t : Sx, textOkTail2 cfg t →
      TailReads cfg (stextTail2 t) (valueOf env (erase t)) (dnestTail2 t) ∧
        SpaceOrEnd (stextTail2 t)
  | .list ys, h => by
    simp only [textOkTail2] at h
    have := rest2 env cfg ho ys [] .null 0 h (Or.inl rfl) (tailReads_nil cfg)
    refine ⟨?_, by simpa [stextTail2] using spaceOrEnd_rest2 ys [] (Or.inl rfl)⟩
    simpa [stextTail2, erase, valueOf, Value.list, dnestTail2] using this
  | .dotted ys t, h => by
    simp only [textOkTail2] at h
    obtain ⟨hd, hsp⟩ := tail2 env cfg ho t h.2
    have := rest2 env cfg ho ys _ _ _ h.1 hsp hd
    refine ⟨?_, by simpa only [stextTail2] using spaceOrEnd_rest2 ys _ hsp⟩
    simpa only [stextTail2, erase, valueOf, dnestTail2] using this
  | .vec [], _ => by
    refine ⟨?_, Or.inr ⟨_, rfl⟩⟩
    have := tailReads_dot cfg [35, 40, 41] _ _ (readsAs_vec_nil cfg) (head35 _)
    simpa [stextTail2, erase, eraseL, valueOf, valueOfL, dnestTail2, dnestL2] using this
  | .vec (x :: xs), h => by
    simp only [textOkTail2, textOkL2] at h
    obtain ⟨hx, hxh⟩ := reads2 env cfg ho x h.1
    have hv := readsAs_vec_cons cfg (stext2 x) (stextRest2 xs) _ _ _ _ hx hxh
      (by simpa using spaceOrEnd_rest2 xs [] (Or.inl rfl)) (seq2 env cfg ho xs h.2)
    have := tailReads_dot cfg _ _ _ hv (head35 _)
    refine ⟨?_, Or.inr ⟨_, rfl⟩⟩
    simpa only [stextTail2, erase, eraseL, valueOf, valueOfL, dnestTail2, dnestL2] using this
  | .leaf d, h => by
    simp only [textOkTail2] at h
    obtain ⟨hx, hxh⟩ := leaf_reads2 env cfg ho d h
    refine ⟨?_, Or.inr ⟨_, rfl⟩⟩
    simpa only [stextTail2, erase, dnestTail2] using tailReads_dot cfg _ _ _ hx hxh
  | .flt neg L, h => by
    simp only [textOkTail2] at h
    obtain ⟨hx, hxh⟩ := flt_reads env cfg ho neg L h
    refine ⟨?_, Or.inr ⟨_, rfl⟩⟩
    simpa only [stextTail2, dnestTail2] using tailReads_dot cfg _ _ _ hx hxh
end

/-! ## Main theorems -/

/-- **C09_text2.** The parser (default options, slice source, build `cfg`) reads the text of a
    `TextOK2` tree of nesting at most 127 as the value the macro syntax denotes, consuming all
    of it. -/
theorem C09_text2 (env : Tok → Value) (cfg : Parse.Cfg) (ho : cfg.opts = Parse.Options.default)
    (x : Sx) (hok : TextOK2 cfg x) (hn : dnest2 x ≤ 127) :
    ∃ s', Parse.fromTrait cfg (Parse.initSt .slice (stext2 x)) = .ok (valueOf env (erase x)) s' ∧
      s'.rd.rest = [] ∧ s'.depth = 128 := by
  have hv := (reads2 env cfg ho x hok).1 (Parse.initSt .slice (stext2 x)) []
    (2 * (Parse.initSt .slice (stext2 x)).rd.rest.length + 4) (Or.inl rfl) ⟨rfl, rfl⟩
    (by simp [Parse.initSt]) (by omega) (by simp [Parse.initSt]; omega)
  obtain ⟨s', e, r, _, dd⟩ := fromTrait_of_nextValue cfg _ _ hv
  exact ⟨s', e, r, dd⟩

/-- **C09_agree_full.** Macro and parser agree on the enlarged sub-language: for a tree `x` whose
    documented tree `erase x` is well formed (`WF`: no glued tokens), that satisfies the text side
    conditions `TextOK2 cfg x` and nests at most 127 deep, `sexp!` applied to the Rust tokens and
    `from_slice` (build `cfg`, default options) applied to the S-expression text `stext2 x` both
    yield `valueOf env (erase x)`: floats are the correctly rounded doubles of the written
    decimals, strings and characters the literal's value.
    (`hfuel` is the fuel artefact of the macro model, as in `C09_expand`.) -/
theorem C09_agree_full (env : Tok → Value) (cfg : Parse.Cfg)
    (ho : cfg.opts = Parse.Options.default) (x : Sx) (hwf : WF (erase x)) (hok : TextOK2 cfg x)
    (hn : dnest2 x ≤ 127) (hfuel : need (erase x) ≤ 2 * (toks (erase x)).length + 1000) :
    expand env (toks (erase x)) = some (valueOf env (erase x)) ∧
      ∃ s', Parse.fromTrait cfg (Parse.initSt .slice (stext2 x)) = .ok (valueOf env (erase x)) s' ∧
        s'.rd.rest = [] ∧ s'.depth = 128 :=
  ⟨C09_expand env (erase x) hwf hfuel, C09_text2 env cfg ho x hok hn⟩

/-- **C09_agree_full** with a fuel hypothesis that does not mention `need`: at most 500 nodes. -/
theorem C09_agree_full_small (env : Tok → Value) (cfg : Parse.Cfg)
    (ho : cfg.opts = Parse.Options.default) (x : Sx) (hwf : WF (erase x)) (hok : TextOK2 cfg x)
    (hn : dnest2 x ≤ 127) (hsize : nodes (erase x) ≤ 500) :
    expand env (toks (erase x)) = some (valueOf env (erase x)) ∧
      ∃ s', Parse.fromTrait cfg (Parse.initSt .slice (stext2 x)) = .ok (valueOf env (erase x)) s' ∧
        s'.rd.rest = [] ∧ s'.depth = 128 :=
  ⟨C09_expand_small env (erase x) hwf hsize, C09_text2 env cfg ho x hok hn⟩

/-! ### Float leaves, spelled out -/

/-- the macro side of a float literal: the tokens `[-] lit` expand to the correctly rounded double
    (sign applied by flipping the sign bit, as `-lit` does) -/
theorem expand_flt (env : Tok → Value) (neg : Bool) (L : DecLit) :
    expand env (toks (erase (.flt neg L))) = some (.number (.flt (fltBits neg L))) := by
  have hwf : WF (erase (.flt neg L)) := by cases neg <;> simp [erase, WF, wf]
  have hf : need (erase (.flt neg L)) ≤ 2 * (toks (erase (.flt neg L))).length + 1000 := by
    cases neg <;> simp [erase, need]
  rw [C09_expand env _ hwf hf, valueOf_flt]

/-- **C09_agree_float_default.** Default build (fast-float-parsing): a float literal with optional
    minus sign whose significant digits (integer part and fraction without its trailing zeros) are
    below `2^53` and whose scanned exponent (written exponent minus the number of those fraction
    digits) is within `±22` denotes the same double for `sexp!` and for the parser: the double
    nearest to the written decimal, negated for `-`. -/
theorem C09_agree_float_default (env : Tok → Value) (cfg : Parse.Cfg)
    (ho : cfg.opts = Parse.Options.default) (neg : Bool) (L : DecLit) (hwf : L.WF)
    (hsmall : L.Small) (hfast : cfg.fast = true)
    (hp : ∀ k, k ≤ 22 → Numbers.Exact (cfg.pow10 k) (10 ^ k))
    (hS : L.sig < 2 ^ 53) (hlo : -22 ≤ L.exp10) (hhi : L.exp10 ≤ 22) :
    expand env (toks (erase (.flt neg L))) = some (.number (.flt (fltBits neg L))) ∧
    (∃ s', Parse.fromTrait cfg (Parse.initSt .slice (fltText neg L)) =
        .ok (.number (.flt (fltBits neg L))) s' ∧ s'.rd.rest = [] ∧ s'.depth = 128) ∧
    fltBits neg L =
      (if neg then F64.neg (F64.rn (L.rawSig * 10 ^ L.rawExp.toNat) (10 ^ (-L.rawExp).toNat))
       else F64.rn (L.rawSig * 10 ^ L.rawExp.toNat) (10 ^ (-L.rawExp).toNat)) := by
  have hb : ExactBuild cfg L.sig L.exp10 := Or.inl ⟨hfast, hp, hS, hlo, hhi⟩
  have ht := C09_text2 env cfg ho (.flt neg L) ⟨hwf, hsmall, hb⟩ (by simp [dnest2])
  rw [valueOf_flt] at ht
  exact ⟨expand_flt env neg L, by simpa only [stext2] using ht, fltBits_raw neg L hb.sig_le⟩

/-- **C09_agree_float_nofast.** Build without fast-float-parsing: every float literal with optional
    minus sign whose significant digits fit `u64` (at most 19 digits always do) and whose correctly
    rounded value is finite denotes the same double for `sexp!` and for the parser. -/
theorem C09_agree_float_nofast (env : Tok → Value) (cfg : Parse.Cfg)
    (ho : cfg.opts = Parse.Options.default) (neg : Bool) (L : DecLit) (hwf : L.WF)
    (hsmall : L.Small) (hfast : cfg.fast = false) (hS : L.sig ≤ u64Max)
    (hfin : F64.rn (L.rawSig * 10 ^ L.rawExp.toNat) (10 ^ (-L.rawExp).toNat) < F64.infBits) :
    expand env (toks (erase (.flt neg L))) = some (.number (.flt (fltBits neg L))) ∧
    (∃ s', Parse.fromTrait cfg (Parse.initSt .slice (fltText neg L)) =
        .ok (.number (.flt (fltBits neg L))) s' ∧ s'.rd.rest = [] ∧ s'.depth = 128) ∧
    fltBits neg L =
      (if neg then F64.neg (F64.rn (L.rawSig * 10 ^ L.rawExp.toNat) (10 ^ (-L.rawExp).toNat))
       else F64.rn (L.rawSig * 10 ^ L.rawExp.toNat) (10 ^ (-L.rawExp).toNat)) := by
  have hb : ExactBuild cfg L.sig L.exp10 := Or.inr ⟨hfast, hS, by rw [L.decRn_eq]; exact hfin⟩
  have ht := C09_text2 env cfg ho (.flt neg L) ⟨hwf, hsmall, hb⟩ (by simp [dnest2])
  rw [valueOf_flt] at ht
  exact ⟨expand_flt env neg L, by simpa only [stext2] using ht, fltBits_raw neg L hS⟩

end Macro
end Lexpr
