/-
  Refinement of the mutation model of LexprModel/ConsOps.lean (cells reached by `cdr_mut` steps, the
  iterators as state machines, scripts) to the `(xs, t)` reference of C15 (Props/C15.lean): an element
  sequence `xs` and a tail `t` that is not a pair.  Every statement is for all lists, indices and values.

    cellAt_ref          the i-th cell of `append xs t` is `(xs[i] . append (xs.drop (i+1)) t)`, none beyond
    setCarAt_ref        set_car at cell i < |xs|:   the list becomes `append (xs.set i x) t`
    setCdrAt_ref        set_cdr at cell i < |xs|:   the list becomes `append (xs.take (i+1)) x`
    setCdrAt_merge      … and a list `append zs t'` stored there merges: `append (xs.take (i+1) ++ zs) t'`
    set*_oob            beyond the last cell nothing is reachable (the stores report `none`)
    after_setCar_* / after_setCdr_*   what every traversal of C15 sees afterwards
    intoPair_eq, iter_*, intoIter_*, listIter_*   accessors and iterators
    script_*            the same facts stated on the script interpreter `run`
-/
import LexprModel.Proofs.ConsOps
import LexprModel.Props.C15
namespace Lexpr
namespace ConsOps
open Value

/-! ### cells of `append xs t` -/

theorem cellAt_ref (xs : List Value) (t : Value) (i : Nat) (h : i < xs.length) :
    cellAt (append xs t) i = some (xs[i], append (xs.drop (i + 1)) t) := by
  induction xs generalizing i with
  | nil => simp at h
  | cons y ys ih =>
    cases i with
    | zero => simp [append, cellAt]
    | succ i =>
      have h' : i < ys.length := by simpa using h
      simp [append, cellAt, ih i h']

theorem cellAt_oob (xs : List Value) (t : Value) (ht : NotCons t) (i : Nat) (h : xs.length ≤ i) :
    cellAt (append xs t) i = none := by
  induction xs generalizing i with
  | nil => cases t <;> simp_all [NotCons, isCons, append, cellAt]
  | cons y ys ih =>
    cases i with
    | zero => simp at h
    | succ i => simp only [append, cellAt]; exact ih i (by simpa using h)

/-- `car()` / `cdr()` of the i-th cell -/
theorem carAt_ref (xs : List Value) (t : Value) (i : Nat) (h : i < xs.length) :
    carAt (append xs t) i = some xs[i] := by simp [carAt, cellAt_ref xs t i h]

theorem cdrAt_ref (xs : List Value) (t : Value) (i : Nat) (h : i < xs.length) :
    cdrAt (append xs t) i = some (append (xs.drop (i + 1)) t) := by simp [cdrAt, cellAt_ref xs t i h]

/-! ### `set_car` -/

/-- **setCarAt_ref**: `set_car(x)` on cell `i < |xs|` replaces element `i`; the tail is untouched. -/
theorem setCarAt_ref (xs : List Value) (t : Value) (i : Nat) (x : Value) (h : i < xs.length) :
    setCarAt (append xs t) i x = some (append (xs.set i x) t) := by
  induction xs generalizing i with
  | nil => simp at h
  | cons y ys ih =>
    cases i with
    | zero => simp [append, setCarAt]
    | succ i =>
      have h' : i < ys.length := by simpa using h
      simp [append, setCarAt, ih i h']

theorem setCarAt_oob (xs : List Value) (t : Value) (ht : NotCons t) (i : Nat) (x : Value)
    (h : xs.length ≤ i) : setCarAt (append xs t) i x = none := by
  induction xs generalizing i with
  | nil => cases t <;> simp_all [NotCons, isCons, append, setCarAt]
  | cons y ys ih =>
    cases i with
    | zero => simp at h
    | succ i => simp only [append, setCarAt, ih i (by simpa using h)]

/-! ### `set_cdr` -/

/-- **setCdrAt_ref**: `set_cdr(x)` on cell `i < |xs|` keeps the first `i + 1` elements and replaces
    everything after them by `x`. -/
theorem setCdrAt_ref (xs : List Value) (t : Value) (i : Nat) (x : Value) (h : i < xs.length) :
    setCdrAt (append xs t) i x = some (append (xs.take (i + 1)) x) := by
  induction xs generalizing i with
  | nil => simp at h
  | cons y ys ih =>
    cases i with
    | zero => simp [append, setCdrAt]
    | succ i =>
      have h' : i < ys.length := by simpa using h
      simp [append, setCdrAt, ih i h']

/-- a list stored with `set_cdr` merges into the chain -/
theorem setCdrAt_merge (xs : List Value) (t : Value) (i : Nat) (zs : List Value) (t' : Value)
    (h : i < xs.length) :
    setCdrAt (append xs t) i (append zs t') = some (append (xs.take (i + 1) ++ zs) t') := by
  rw [setCdrAt_ref xs t i _ h, C15_append_merge]

theorem setCdrAt_oob (xs : List Value) (t : Value) (ht : NotCons t) (i : Nat) (x : Value)
    (h : xs.length ≤ i) : setCdrAt (append xs t) i x = none := by
  induction xs generalizing i with
  | nil => cases t <;> simp_all [NotCons, isCons, append, setCdrAt]
  | cons y ys ih =>
    cases i with
    | zero => simp at h
    | succ i => simp only [append, setCdrAt, ih i (by simpa using h)]

/-- `*c.car_mut() = x` and `*c.cdr_mut() = x` are the same stores -/
theorem carMutAssign_eq (v : Value) (i : Nat) (x : Value) : carMutAssign v i x = setCarAt v i x := rfl
theorem cdrMutAssign_eq (v : Value) (i : Nat) (x : Value) : cdrMutAssign v i x = setCdrAt v i x := rfl

/-- reading back what was stored -/
theorem carAt_setCarAt (xs : List Value) (t : Value) (i : Nat) (x : Value) (h : i < xs.length) :
    (setCarAt (append xs t) i x).bind (carAt · i) = some x := by
  rw [setCarAt_ref xs t i x h]
  simp [carAt_ref (xs.set i x) t i (by simpa using h)]

theorem cdrAt_setCdrAt (xs : List Value) (t : Value) (i : Nat) (x : Value) (h : i < xs.length) :
    (setCdrAt (append xs t) i x).bind (cdrAt · i) = some x := by
  rw [setCdrAt_ref xs t i x h]
  have hl : i < (xs.take (i + 1)).length := by simp [List.length_take]; omega
  simp [cdrAt_ref (xs.take (i + 1)) x i hl, append]

/-! ### what the traversals of C15 see after a store (non-empty list, i.e. the owner is a pair) -/

/-- a non-empty `append` is a pair -/
theorem append_ne (zs : List Value) (t : Value) (h : zs ≠ []) :
    append zs t = .cons (zs.head h) (append zs.tail t) := by
  cases zs with
  | nil => exact absurd rfl h
  | cons z zs => rfl

theorem toVec_append (zs : List Value) (t : Value) (ht : NotCons t) (h : zs ≠ []) :
    ∃ a d, append zs t = .cons a d ∧ consToVec a d = (zs, t) := by
  cases zs with
  | nil => exact absurd rfl h
  | cons z zs => exact ⟨z, append zs t, rfl, C15_to_vec z zs t ht⟩

/-- **after_setCar_to_vec**: `to_vec` / `into_vec` / `to_ref_vec` after `set_car` at cell `i`. -/
theorem after_setCar_to_vec (x₀ : Value) (xs : List Value) (t : Value) (ht : NotCons t) (i : Nat)
    (x : Value) (h : i < (x₀ :: xs).length) :
    ∃ a d, setCarAt (.cons x₀ (append xs t)) i x = some (.cons a d) ∧
      consToVec a d = ((x₀ :: xs).set i x, t) := by
  have hs := setCarAt_ref (x₀ :: xs) t i x h
  simp only [append] at hs
  obtain ⟨a, d, e, hv⟩ := toVec_append ((x₀ :: xs).set i x) t ht (by cases i <;> simp)
  exact ⟨a, d, by rw [hs, e], hv⟩

/-- **after_setCar_index**: positional indexing after `set_car` at cell `i`. -/
theorem after_setCar_index (x₀ : Value) (xs : List Value) (t : Value) (ht : NotCons t) (i j : Nat)
    (x : Value) (h : i < (x₀ :: xs).length) :
    (setCarAt (.cons x₀ (append xs t)) i x).bind (·.getIdx j) = ((x₀ :: xs).set i x)[j]? := by
  have hs := setCarAt_ref (x₀ :: xs) t i x h
  simp only [append] at hs
  rw [hs]
  cases i with
  | zero => simpa [append] using C15_index_usize x xs t ht j
  | succ i => simpa [append] using C15_index_usize x₀ (xs.set i x) t ht j

/-- **after_setCar_value_to_vec**: `Value::to_vec` after `set_car`. -/
theorem after_setCar_value_to_vec (xs : List Value) (t : Value) (ht : NotCons t) (i : Nat)
    (x : Value) (h : i < xs.length) :
    (setCarAt (append xs t) i x).bind Value.toVec = if t.isNull then some (xs.set i x) else none := by
  rw [setCarAt_ref xs t i x h]
  exact C15_value_to_vec (xs.set i x) t ht

/-- **after_setCar_list_iter**: the element iterator after `set_car` at cell `i`. -/
theorem after_setCar_list_iter (x₀ : Value) (xs : List Value) (t : Value) (ht : NotCons t) (i : Nat)
    (x : Value) (h : i < (x₀ :: xs).length) (k : Nat) :
    ∃ a d, setCarAt (.cons x₀ (append xs t)) i x = some (.cons a d) ∧
      (ListCursor.cons a d).take ((x₀ :: xs).length + 3 + k) =
        ((x₀ :: xs).set i x).map some ++
          (if t.isNull then List.replicate (3 + k) none
           else [none, some t] ++ List.replicate (1 + k) none) := by
  have hs := setCarAt_ref (x₀ :: xs) t i x h
  simp only [append] at hs
  cases i with
  | zero =>
    refine ⟨x, append xs t, by simpa [append] using hs, ?_⟩
    simpa using C15_list_iter x xs t ht k
  | succ i =>
    refine ⟨x₀, append (xs.set i x) t, by simpa [append] using hs, ?_⟩
    simpa using C15_list_iter x₀ (xs.set i x) t ht k

/-- **after_setCdr_to_vec**: the traversals after `set_cdr` at cell `i` with a value that decomposes
    as `(zs, t')`: the first `i + 1` elements, then `zs`, then the tail `t'`. -/
theorem after_setCdr_to_vec (x₀ : Value) (xs : List Value) (t : Value) (i : Nat)
    (zs : List Value) (t' : Value) (ht' : NotCons t') (h : i < (x₀ :: xs).length) :
    ∃ a d, setCdrAt (.cons x₀ (append xs t)) i (append zs t') = some (.cons a d) ∧
      consToVec a d = ((x₀ :: xs).take (i + 1) ++ zs, t') := by
  have hs := setCdrAt_merge (x₀ :: xs) t i zs t' h
  simp only [append] at hs
  obtain ⟨a, d, e, hv⟩ := toVec_append ((x₀ :: xs).take (i + 1) ++ zs) t' ht' (by simp)
  exact ⟨a, d, by rw [hs, e], hv⟩

theorem after_setCdr_index (x₀ : Value) (xs : List Value) (t : Value) (i j : Nat)
    (zs : List Value) (t' : Value) (ht' : NotCons t') (h : i < (x₀ :: xs).length) :
    (setCdrAt (.cons x₀ (append xs t)) i (append zs t')).bind (·.getIdx j)
      = ((x₀ :: xs).take (i + 1) ++ zs)[j]? := by
  have hs := setCdrAt_merge (x₀ :: xs) t i zs t' h
  simp only [append] at hs
  rw [hs]
  have := C15_index_usize x₀ (xs.take i ++ zs) t' ht' j
  simpa [append] using this

theorem after_setCdr_value_to_vec (xs : List Value) (t : Value) (i : Nat)
    (zs : List Value) (t' : Value) (ht' : NotCons t') (h : i < xs.length) :
    (setCdrAt (append xs t) i (append zs t')).bind Value.toVec
      = if t'.isNull then some (xs.take (i + 1) ++ zs) else none := by
  rw [setCdrAt_merge xs t i zs t' h]
  exact C15_value_to_vec _ t' ht'

/-- **after_setCdr_list_iter**: the element iterator after `set_cdr` at cell `i`. -/
theorem after_setCdr_list_iter (x₀ : Value) (xs : List Value) (t : Value) (i : Nat)
    (zs : List Value) (t' : Value) (ht' : NotCons t') (h : i < (x₀ :: xs).length) (k : Nat) :
    ∃ a d, setCdrAt (.cons x₀ (append xs t)) i (append zs t') = some (.cons a d) ∧
      (ListCursor.cons a d).take (((x₀ :: xs).take (i + 1) ++ zs).length + 3 + k) =
        ((x₀ :: xs).take (i + 1) ++ zs).map some ++
          (if t'.isNull then List.replicate (3 + k) none
           else [none, some t'] ++ List.replicate (1 + k) none) := by
  have hs := setCdrAt_merge (x₀ :: xs) t i zs t' h
  simp only [append] at hs
  refine ⟨x₀, append (xs.take i ++ zs) t', by simpa [append] using hs, ?_⟩
  simpa using C15_list_iter x₀ (xs.take i ++ zs) t' ht' k

/-- every stored value has such a decomposition, so the `set_cdr` theorems cover every argument -/
theorem setCdr_arg_decompose (x : Value) : ∃ zs t', NotCons t' ∧ x = append zs t' := C15_decompose x

/-! ### `into_pair`, `take`, `Cons::new` -/

/-- **intoPair_eq**: `into_pair` returns the two fields; what is left to drop is `(Nil . Nil)`. -/
theorem intoPair_eq (a d : Value) : intoPair a d = ((a, d), (.nil, .nil)) := rfl
theorem take_eq (a d : Value) : take a d = ((a, d), (.nil, .nil)) := rfl
theorem new_cellAt (a d : Value) : cellAt (new a d) 0 = some (a, d) := rfl
/-- `Cons::new(car, cdr)` then `into_pair` gives back both -/
theorem new_intoPair (a d : Value) :
    (match new a d with | .cons x y => some (intoPair x y).1 | _ => none) = some (a, d) := rfl

/-! ### `Iter` and `IntoIter` -/

/-- `peek` returns what `next` will return; `peek` itself has no effect on the iterator -/
theorem iter_peek_next (c : CellCursor) : (Iter.next c).1 = c.peek := by
  cases c with
  | none => rfl
  | some p => obtain ⟨car, cdr⟩ := p; cases cdr <;> rfl

/-- the consuming iterator yields the current cell's car, and its cdr exactly when that is the last cell -/
theorem intoIter_peek_next (c : CellCursor) :
    (IntoIter.next c).1 = c.peek.map fun p => (p.1, if p.2.isCons then none else some p.2) := by
  cases c with
  | none => rfl
  | some p => obtain ⟨car, cdr⟩ := p; cases cdr <;> rfl

/-- both iterators advance in the same way -/
theorem intoIter_iter_cursor (c : CellCursor) : (IntoIter.next c).2 = (Iter.next c).2 := by
  cases c with
  | none => rfl
  | some p => obtain ⟨car, cdr⟩ := p; cases cdr <;> rfl

theorem iter_take_none (n : Nat) : Iter.take n none = List.replicate n none := by
  induction n with
  | zero => rfl
  | succ n ih => simp [Iter.take, Iter.next, ih, List.replicate_succ]

theorem intoIter_take_none (n : Nat) : IntoIter.take n none = List.replicate n none := by
  induction n with
  | zero => rfl
  | succ n ih => simp [IntoIter.take, IntoIter.next, ih, List.replicate_succ]

/-- **iter_take**: the state machine `Iter` yields the cells of `consIter`, then `None` forever. -/
theorem iter_take : ∀ (d a : Value) (k : Nat),
    Iter.take ((consIter a d).length + k) (CellCursor.start a d)
      = (consIter a d).map some ++ List.replicate k none
  | .cons x y, a, k => by
    have ih := iter_take y x k
    simp only [consIter, List.length_cons, CellCursor.start] at ih ⊢
    rw [show (consIter x y).length + 1 + k = ((consIter x y).length + k) + 1 by omega]
    simp [Iter.take, Iter.next, ih]
  | .nil, a, k | .null, a, k | .bool _, a, k | .number _, a, k | .char _, a, k | .string _, a, k
  | .symbol _, a, k | .keyword _, a, k | .bytes _, a, k | .vector _, a, k => by
    simp only [consIter, List.length_cons, List.length_nil, CellCursor.start]
    rw [show 0 + 1 + k = k + 1 by omega]
    simp [Iter.take, Iter.next, iter_take_none]

/-- **intoIter_take**: the state machine `IntoIter` yields the items of `consIntoIter`, then `None`. -/
theorem intoIter_take : ∀ (d a : Value) (k : Nat),
    IntoIter.take ((consIntoIter a d).length + k) (CellCursor.start a d)
      = (consIntoIter a d).map some ++ List.replicate k none
  | .cons x y, a, k => by
    have ih := intoIter_take y x k
    simp only [consIntoIter, List.length_cons, CellCursor.start] at ih ⊢
    rw [show (consIntoIter x y).length + 1 + k = ((consIntoIter x y).length + k) + 1 by omega]
    simp [IntoIter.take, IntoIter.next, ih]
  | .nil, a, k | .null, a, k | .bool _, a, k | .number _, a, k | .char _, a, k | .string _, a, k
  | .symbol _, a, k | .keyword _, a, k | .bytes _, a, k | .vector _, a, k => by
    simp only [consIntoIter, List.length_cons, List.length_nil, CellCursor.start]
    rw [show 0 + 1 + k = k + 1 by omega]
    simp [IntoIter.take, IntoIter.next, intoIter_take_none]

/-- against the reference: the consuming iterator on `(x :: xs, t)` -/
theorem intoIter_take_ref (x : Value) (xs : List Value) (t : Value) (ht : NotCons t) (k : Nat) :
    IntoIter.take ((x :: xs).length + k) (CellCursor.start x (append xs t)) =
      (((x :: xs).dropLast.map fun e => some (e, none)) ++
        [some ((x :: xs).getLast (by simp), some t)]) ++ List.replicate k none := by
  have hl : (consIntoIter x (append xs t)).length = (x :: xs).length := by
    rw [C15_into_iter x xs t ht]; simp
  have := intoIter_take (append xs t) x k
  rw [hl, C15_into_iter x xs t ht] at this
  rw [this]; simp [Function.comp_def]

/-- `peek_mut().set_cdr(x)`: the rest of the iteration is that of the cell `(car . x)`;
    `peek_mut().set_car(x)`: the current item becomes `x` -/
theorem peekSetCdr_eq (car cdr x : Value) :
    IntoIter.peekSetCdr (some (car, cdr)) x = (true, CellCursor.start car x) := rfl
theorem peekSetCar_eq (car cdr x : Value) :
    IntoIter.peekSetCar (some (car, cdr)) x = (true, CellCursor.start x cdr) := rfl
theorem peekSet_none (x : Value) :
    IntoIter.peekSetCdr none x = (false, none) ∧ IntoIter.peekSetCar none x = (false, none) := ⟨rfl, rfl⟩

/-! ### `ListIter::peek`, `ListIter::is_empty` -/

/-- **listIter_peek_next**: `peek` returns what `next` will return (for all four cursor states). -/
theorem listIter_peek_next (c : ListCursor) : c.next.1 = c.peek := by
  cases c with
  | cons car cdr => cases cdr <;> rfl
  | dot v => rfl
  | rest v => rfl
  | exhausted => rfl

theorem listIter_take_exhausted (n : Nat) :
    ListCursor.take n .exhausted = List.replicate n none := by
  induction n with
  | zero => rfl
  | succ n ih => simp [ListCursor.take, ListCursor.next, ih, List.replicate_succ]

/-- **listIter_isEmpty_iff**: `is_empty` is true exactly when every later `next` returns `None`;
    two calls are enough to tell. -/
theorem listIter_isEmpty_iff (c : ListCursor) :
    c.isEmpty = true ↔ ∀ n, c.take n = List.replicate n none := by
  constructor
  · intro h
    cases c <;> simp_all [ListCursor.isEmpty, listIter_take_exhausted]
  · intro h
    have h2 := h 2
    cases c with
    | cons car cdr => cases cdr <;> simp [ListCursor.take, ListCursor.next, List.replicate_succ] at h2
    | dot v => simp [ListCursor.take, ListCursor.next, List.replicate_succ] at h2
    | rest v => simp [ListCursor.take, ListCursor.next, List.replicate_succ] at h2
    | exhausted => rfl

/-- a `None` from `next` does not mean the iterator is empty: at the dot of an improper list
    `next` returns `None` and `is_empty` is false (as documented) -/
theorem listIter_dot (v : Value) :
    (ListCursor.dot v).next.1 = none ∧ (ListCursor.dot v).isEmpty = false := ⟨rfl, rfl⟩

theorem after_exhausted (k : Nat) : ListCursor.after k .exhausted = .exhausted := by
  induction k with
  | zero => rfl
  | succ k ih => simpa [ListCursor.after, ListCursor.next] using ih

theorem after_rest (v : Value) (k : Nat) :
    (ListCursor.after k (.rest v)).isEmpty = decide (1 ≤ k) := by
  cases k with
  | zero => rfl
  | succ k => simp [ListCursor.after, ListCursor.next, after_exhausted, ListCursor.isEmpty]

theorem after_dot (v : Value) (k : Nat) :
    (ListCursor.after k (.dot v)).isEmpty = decide (2 ≤ k) := by
  cases k with
  | zero => rfl
  | succ k =>
    simp only [ListCursor.after, ListCursor.next, after_rest]
    simp only [decide_eq_decide]; omega

/-- **listIter_isEmpty_ref**: on the list `(x :: xs, t)`, `is_empty` becomes true after `|x :: xs|`
    calls of `next` for a proper list, and after two more (the `None` at the dot and the tail) for an
    improper one — never earlier, and it stays true. -/
theorem listIter_isEmpty_ref (x : Value) (xs : List Value) (t : Value) (ht : NotCons t) (k : Nat) :
    (ListCursor.after k (.cons x (append xs t))).isEmpty =
      if t.isNull then decide ((x :: xs).length ≤ k) else decide ((x :: xs).length + 2 ≤ k) := by
  induction xs generalizing x k with
  | nil =>
    cases k with
    | zero => cases t <;> simp [ListCursor.after, ListCursor.isEmpty]
    | succ k =>
      cases t with
      | cons a d => simp [NotCons, isCons] at ht
      | null =>
        simp [isNull, asNull, append, ListCursor.after, ListCursor.next, after_exhausted,
          ListCursor.isEmpty]
      | nil | bool _ | number _ | char _ | string _ | symbol _ | keyword _ | bytes _ | vector _ =>
        simp only [isNull, asNull, append, ListCursor.after, ListCursor.next, after_dot,
          List.length_cons, List.length_nil, Option.isSome_none, Bool.false_eq_true, if_false,
          decide_eq_decide]
        omega
  | cons y ys ih =>
    cases k with
    | zero => cases t <;> simp [ListCursor.after, ListCursor.isEmpty]
    | succ k =>
      simp only [append, ListCursor.after, ListCursor.next, ih y k, List.length_cons]
      split <;> simp only [decide_eq_decide] <;> omega

/-! ### the same facts on the script interpreter -/

/-- set_car at an existing cell, then `to_vec`: the reference with element `i` replaced -/
theorem script_setCar_toVec (x₀ : Value) (xs : List Value) (t : Value) (ht : NotCons t) (i : Nat)
    (x : Value) (h : i < (x₀ :: xs).length) :
    run { root := .cons x₀ (append xs t) } [.setCar i x, .toVec]
      = [.done, .vecTail ((x₀ :: xs).set i x) t] := by
  obtain ⟨a, d, hs, hv⟩ := after_setCar_to_vec x₀ xs t ht i x h
  simp [run, step, storeObs, hs, toVec_impl_eq, hv]

/-- `*car_mut() = x` behaves as `set_car(x)` -/
theorem script_carMut (s : MState) (i : Nat) (x : Value) : step s (.carMut i x) = step s (.setCar i x) := rfl
theorem script_cdrMut (s : MState) (i : Nat) (x : Value) : step s (.cdrMut i x) = step s (.setCdr i x) := rfl

/-- set_cdr at an existing cell, then `to_vec`: prefix, stored elements, stored tail -/
theorem script_setCdr_toVec (x₀ : Value) (xs : List Value) (t : Value) (i : Nat)
    (zs : List Value) (t' : Value) (ht' : NotCons t') (h : i < (x₀ :: xs).length) :
    run { root := .cons x₀ (append xs t) } [.setCdr i (append zs t'), .toVec]
      = [.done, .vecTail ((x₀ :: xs).take (i + 1) ++ zs) t'] := by
  obtain ⟨a, d, hs, hv⟩ := after_setCdr_to_vec x₀ xs t i zs t' ht' h
  simp [run, step, storeObs, hs, toVec_impl_eq, hv]

/-- a store beyond the last cell is reported and changes nothing -/
theorem script_oob (xs : List Value) (t : Value) (ht : NotCons t) (i : Nat) (x : Value)
    (h : xs.length ≤ i) :
    run { root := append xs t } [.setCar i x, .setCdr i x, .show] = [.oob, .oob, .val (append xs t)] := by
  simp [run, step, storeObs, setCarAt_oob xs t ht i x h, setCdrAt_oob xs t ht i x h]

/-- `into_pair` on a script: both fields, the script continues on the cdr -/
theorem script_intoPair (a d : Value) :
    run { root := .cons a d } [.intoPair, .show] = [.optPair (some (a, d)), .val d] := rfl

/-- `peek` between `next` calls does not advance any of the three iterators -/
theorem script_peek_idem (s : MState) : (step s .peek).1 = s := by
  obtain ⟨root, cur⟩ := s
  cases cur <;> rfl

/-- `clone` on a script returns the list itself; a NaN-free list compares equal to its clone -/
theorem script_clone (v : Value) : run { root := v } [.clone, .show] = [.val v, .val v] := by
  simp [run, step, clone_eq]

/-- `Value::append(xs, root)` on a script -/
theorem script_append (v : Value) (xs : List Value) :
    run { root := v } [.appendTo xs, .show] = [.done, .val (append xs v)] := by
  simp [run, step, appendImpl_eq]

/-! ### non-vacuity -/

example : NotCons (.symbol [122]) ∧ 1 < ([Value.null, .bool true, .nil] : List Value).length ∧
    setCarAt (append [.null, .bool true, .nil] (.symbol [122])) 1 (.char 65)
      = some (append [.null, .char 65, .nil] (.symbol [122])) :=
  ⟨rfl, by decide, setCarAt_ref _ _ _ _ (by decide)⟩

example : setCdrAt (append [.null, .bool true, .nil] .null) 0 (append [.char 65] (.symbol [122]))
      = some (append [.null, .char 65] (.symbol [122])) :=
  setCdrAt_merge _ _ _ _ _ (by decide)

end ConsOps
end Lexpr
