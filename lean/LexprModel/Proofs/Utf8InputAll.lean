/-
  Utf8InputAll — C17, input clause, for WHOLE inputs (slice and stream sources, R6RS string
  syntax; every other option, the character syntax included, is arbitrary):

    `C17_whole_input_valid`: if `from_slice` / `from_reader` accepts `bytes` (the whole input was
    read) and every run of trivia in `bytes` is well-formed (`TV bytes`: wherever a run of
    whitespace and `;` comments starts, the bytes it spans are valid UTF-8), then `bytes` is valid
    UTF-8.  `C17_whole_input_valid_no_comment`: in particular when `bytes` contains no `;`
    (byte 59) at all — the rule the differential oracle checks: "input that is not UTF-8, has no
    comment and is read to the end is never accepted".

  Comments are the one place where the reader skips bytes without looking at them
  (`comment_may_hide_ill_formed_bytes` below: `1;` FF is accepted), so some hypothesis about
  them is necessary; `TV` is the weakest one of this shape: it is implied by the conclusion
  (`TV.of_valid`), so for accepted inputs `valid bytes ↔ TV bytes` (`C17_whole_input_valid_iff`).
  The model has no block comments and no datum comments (`#|…|#`, `#;`): `#|` and `#;` are
  errors of `parse_token`.

  Route: `Inv s0 s` ("`s` is reached from `s0` by consuming a valid chunk, what is left has
  well-formed trivia, the source validates") is preserved by trivia, by every token
  (`parseToken_vc`), by byte vectors, and by the three mutually recursive readers (induction on the
  fuel, `valueInv`).  Peeked-but-unconsumed bytes do not matter: everything is stated on `rd.rest`.
-/
import LexprModel.Proofs.Utf8InputTok
namespace Lexpr
namespace Parse
namespace InAll
open Utf8 Utf8.U8 Parse.U8 InLoop InTok Image

/-! ### well-formed trivia -/

/-- every run of trivia (whitespace and `;` comments up to the line feed), wherever it starts, is
    valid UTF-8 -/
def TV (l : List UInt8) : Prop := ∀ t, t <:+ l → valid (t.take (wsLen t)) = true

theorem TV.suffix {l l' : List UInt8} (h : TV l) (hs : l' <:+ l) : TV l' :=
  fun t ht => h t (ht.trans hs)

theorem wsLen_ascii_of_no59 : ∀ t : List UInt8, (∀ b ∈ t, b ≠ 59) → Ascii (t.take (wsLen t))
  | [], _ => by simp only [wsLen, List.take_nil]; exact Ascii.nil
  | b :: bs, h => by
    simp only [wsLen]
    split
    · rename_i hb
      exact absurd (eq_of_beq hb) (h b (List.mem_cons_self ..))
    · split
      · rename_i hb
        simp only [List.take_succ_cons]
        exact Ascii.cons (isTrivia_ascii hb)
          (wsLen_ascii_of_no59 bs (fun x hx => h x (List.mem_cons_of_mem _ hx)))
      · simp only [List.take_zero]; exact Ascii.nil

/-- without a `;` the trivia are ASCII whitespace -/
theorem TV.of_no59 {l : List UInt8} (h : ∀ b ∈ l, b ≠ 59) : TV l :=
  fun t ht => valid_ascii (wsLen_ascii_of_no59 t (fun b hb => h b (ht.subset hb)))

/-! ### the invariant -/

/-- `s` is reached from `s0` by consuming a valid chunk; what is left has well-formed trivia; the
    source is one that validates -/
structure Inv (s0 s : St) : Prop where
  vc : VC s0 s
  tv : TV s.rd.rest
  mode : s.rd.mode ≠ .str

theorem Inv.step {s0 s s' : St} (h : Inv s0 s) (hv : VC s s') : Inv s0 s' := by
  obtain ⟨hm, w, _, hr⟩ := hv
  exact ⟨h.vc.trans ⟨hm, w, ‹_›, hr⟩, h.tv.suffix ⟨w, hr.symm⟩, by rw [hm]; exact h.mode⟩

theorem Inv.asuf {s0 s s' : St} (h : Inv s0 s) (ha : ASuf s s') : Inv s0 s' :=
  h.step (VC.of_asuf ha)

theorem Inv.of_rd {s0 s s' : St} (h : Inv s0 s) (hrd : s'.rd = s.rd) : Inv s0 s' :=
  h.step (VC.same (by rw [hrd]) (by rw [hrd]))

theorem Inv.sv {s0 s : St} (h : Inv s0 s) : SV s := fun hm => absurd hm h.mode

theorem parseWhitespace_inv {s0 s s' : St} {a : Option UInt8} (h : parseWhitespace s = .ok a s')
    (hs : Inv s0 s) : Inv s0 s' := by
  obtain ⟨hm, hr, _⟩ := parseWhitespace_ok h
  refine hs.step (VC.chunk (w := s.rd.rest.take (wsLen s.rd.rest)) hm ?_
    (hs.tv _ (List.suffix_refl _)))
  rw [hr, List.take_append_drop]

theorem parseWhitespace_head' {s s' : St} {c : UInt8} (h : parseWhitespace s = .ok (some c) s') :
    s'.rd.rest.head? = some c := (parseWhitespace_ok h).2.2.symm

theorem headA_of_head {s : St} {c : UInt8} (h : s.rd.rest.head? = some c) (hc : c < 0x80) :
    HeadA s := by
  intro b hb; rw [h] at hb; cases hb; exact hc

theorem discard_inv {s0 s s' : St} {c : UInt8} {u : Unit} (h : discard s = .ok u s')
    (hhead : s.rd.rest.head? = some c) (hc : c < 0x80) (hs : Inv s0 s) : Inv s0 s' :=
  hs.asuf (discard_asuf h (headA_of_head hhead hc))

/-! ### byte vectors, `end_seq` -/

theorem byteListLoop_inv (cfg : Cfg) {close : UInt8} (hclose : close < 0x80) (f : Nat) :
    ∀ {acc : List UInt8} {s0 s s' : St} {out : List UInt8},
    byteListLoop cfg close f acc s = .ok out s' → Inv s0 s → Inv s0 s' := by
  induction f with
  | zero => intro acc s0 s s' out h; simp [byteListLoop, outOfFuel] at h
  | succ f ih =>
    intro acc s0 s s' out h hs
    simp only [byteListLoop] at h
    obtain ⟨a, s1, hw, h⟩ := bind_ok h
    have hs1 := parseWhitespace_inv hw hs
    cases a with
    | none => simp [peekErr] at h
    | some c =>
      have hhead := parseWhitespace_head' hw
      rcases ite_ok h with ⟨hc, h⟩ | ⟨_, h⟩
      · obtain ⟨_, s2, hd, h⟩ := bind_ok h
        rw [← (pure_ok h).2]
        exact discard_inv hd hhead (by rw [eq_of_beq hc]; exact hclose) hs1
      · obtain ⟨n, s2, hn, h⟩ := bind_ok h
        obtain ⟨m, s3, he, h⟩ := bind_ok h
        have hs3 := (hs1.asuf (parseNumber_asuf hn)).asuf (expectNumberEnd_asuf he)
        cases hu : m.asU64 with
        | none => rw [hu] at h; simp [peekErr] at h
        | some v =>
          rw [hu] at h
          rcases ite_ok h with ⟨_, h⟩ | ⟨_, h⟩
          · simp [peekErr] at h
          · exact ih h hs3

theorem parseByteList_inv {cfg : Cfg} {f : Nat} {close : UInt8} (hclose : close < 0x80)
    {s0 s s' : St} {out : List UInt8} (h : parseByteList cfg f close s = .ok out s')
    (hs : Inv s0 s) : Inv s0 s' := by
  unfold parseByteList at h
  obtain ⟨a, s1, hw, h⟩ := bind_ok h
  have hs1 := parseWhitespace_inv hw hs
  cases a with
  | none => simp [peekErr] at h
  | some c =>
    have hhead := parseWhitespace_head' hw
    rcases ite_ok h with ⟨hc, h⟩ | ⟨_, h⟩
    · obtain ⟨_, s2, hd, h⟩ := bind_ok h
      exact byteListLoop_inv cfg hclose f h
        (discard_inv hd hhead (by rw [eq_of_beq hc]; decide) hs1)
    · simp [peekErr] at h

theorem endSeq_inv {close : UInt8} (hclose : close < 0x80) {s0 s s' : St} {u : Unit}
    (h : endSeq close s = .ok u s') (hs : Inv s0 s) : Inv s0 s' := by
  unfold endSeq at h
  obtain ⟨a, s1, hw, h⟩ := bind_ok h
  have hs1 := parseWhitespace_inv hw hs
  cases a with
  | none => simp [peekErr] at h
  | some b =>
    have hhead := parseWhitespace_head' hw
    rcases ite_ok h with ⟨hc, h⟩ | ⟨_, h⟩
    · exact discard_inv h hhead (by rw [eq_of_beq hc]; exact hclose) hs1
    · simp [peekErr] at h

/-! ### the three readers -/

/-- What is proved about the three mutually recursive readers, for one amount of fuel. -/
def ValueInv (cfg : Cfg) (f : Nat) : Prop :=
  (∀ {s0 s s' : St} {v : Option Value}, nextValue cfg f s = .ok v s' → Inv s0 s → Inv s0 s') ∧
  (∀ {term : UInt8} {acc : List Value} {s0 s s' : St} {v : Value},
      parseList cfg f term acc s = .ok v s' → Inv s0 s → Inv s0 s') ∧
  (∀ {term : UInt8} {acc : List Value} {s0 s s' : St} {xs : List Value},
      parseVector cfg f term acc s = .ok xs s' → Inv s0 s → Inv s0 s')

theorem valueInv (cfg : Cfg) (hr6 : cfg.opts.string = .r6rs) : ∀ f, ValueInv cfg f := by
  intro f
  induction f with
  | zero =>
    refine ⟨?_, ?_, ?_⟩
    · intro s0 s s' v h; simp [nextValue, outOfFuel] at h
    · intro term acc s0 s s' v h; simp [parseList, outOfFuel] at h
    · intro term acc s0 s s' v h; simp [parseVector, outOfFuel] at h
  | succ f ih =>
    obtain ⟨ihV, ihL, ihX⟩ := ih
    refine ⟨?_, ?_, ?_⟩
    · -- next_value
      intro s0 s s' v h hs
      unfold nextValue at h
      obtain ⟨a, s1, hw, h⟩ := bind_ok h
      have hs1 := parseWhitespace_inv hw hs
      cases a with
      | none =>
        obtain ⟨_, rfl⟩ := pure_ok h
        exact hs1
      | some pk =>
        have hhead := parseWhitespace_head' hw
        dsimp only at h
        obtain ⟨tf, s2, htf, h⟩ := bind_ok h
        rw [tokenFuel_ok htf] at h
        obtain ⟨tok, s3, htok, h⟩ := bind_ok h
        have hs3 := hs1.step (parseToken_vc htok hhead hs1.mode hr6)
        have htokok := (parseToken_pres htok (parseWhitespace_head hw) hs1.sv).2
        cases tok with
        | byteVecOpen close =>
          dsimp only at h
          obtain ⟨bs, s4, hbl, h⟩ := bind_ok h
          obtain ⟨_, rfl⟩ := pure_ok h
          exact parseByteList_inv (tokOK_close htokok) hbl hs3
        | vecOpen close =>
          dsimp only at h
          obtain ⟨_, s4, he, h⟩ := bind_ok h
          have hs4 := hs3.of_rd (Parse.U8.enter_ok he)
          obtain ⟨ret, s5, hat, h⟩ := bind_ok h
          obtain ⟨_, s6, hl, h⟩ := bind_ok h
          obtain ⟨es, s7, hes, h⟩ := bind_ok h
          rcases attempt_ok hat with ⟨xs, rfl, hpv⟩ | ⟨e, rfl, _⟩
          · have hs5 := ihX hpv hs4
            have hs6 := hs5.of_rd (Parse.U8.leave_ok hl)
            rcases attempt_ok hes with ⟨u, rfl, hend⟩ | ⟨e, rfl, _⟩
            · obtain ⟨_, rfl⟩ := pure_ok h
              exact endSeq_inv (tokOK_close htokok) hend hs6
            · exact (liftExcept_error h).elim
          · cases es <;> exact (liftExcept_error h).elim
        | listOpen close =>
          dsimp only at h
          obtain ⟨_, s4, he, h⟩ := bind_ok h
          have hs4 := hs3.of_rd (Parse.U8.enter_ok he)
          obtain ⟨ret, s5, hat, h⟩ := bind_ok h
          obtain ⟨_, s6, hl, h⟩ := bind_ok h
          obtain ⟨es, s7, hes, h⟩ := bind_ok h
          rcases attempt_ok hat with ⟨v0, rfl, hpl⟩ | ⟨e, rfl, _⟩
          · have hs5 := ihL hpl hs4
            have hs6 := hs5.of_rd (Parse.U8.leave_ok hl)
            rcases attempt_ok hes with ⟨u, rfl, hend⟩ | ⟨e, rfl, _⟩
            · obtain ⟨_, rfl⟩ := pure_ok h
              exact endSeq_inv (tokOK_close htokok) hend hs6
            · exact (liftExcept_error h).elim
          · cases es <;> exact (liftExcept_error h).elim
        | quotation q =>
          dsimp only at h
          obtain ⟨_, s4, he, h⟩ := bind_ok h
          have hs4 := hs3.of_rd (Parse.U8.enter_ok he)
          obtain ⟨ret, s5, hat, h⟩ := bind_ok h
          obtain ⟨_, s6, hl, h⟩ := bind_ok h
          rcases attempt_ok hat with ⟨ov, rfl, hnv⟩ | ⟨e, rfl, _⟩
          · have hs5 := ihV hnv hs4
            have hs6 := hs5.of_rd (Parse.U8.leave_ok hl)
            cases ov with
            | none => simp [peekErr] at h
            | some d =>
              obtain ⟨_, rfl⟩ := pure_ok h
              exact hs6
          · exact (liftExcept_error h).elim
        | _ =>
          simp only [Token.atom] at h
          obtain ⟨_, h2⟩ := pure_ok h
          subst h2
          exact hs3
    · -- parse_list
      intro term acc s0 s s' v h hs
      unfold parseList at h
      obtain ⟨a, s1, hw, h⟩ := bind_ok h
      have hs1 := parseWhitespace_inv hw hs
      cases a with
      | none => simp [peekErr] at h
      | some c =>
        have hhead := parseWhitespace_head' hw
        dsimp only at h
        rcases ite_ok h with ⟨_, h⟩ | ⟨_, h⟩
        · rcases ite_ok h with ⟨_, h⟩ | ⟨_, h⟩
          · simp [peekErr] at h
          · obtain ⟨_, rfl⟩ := pure_ok h
            exact hs1
        rcases ite_ok h with ⟨h46, h⟩ | ⟨_, h⟩
        · obtain ⟨_, s2, hd, h⟩ := bind_ok h
          have hs2 := discard_inv hd hhead (by rw [eq_of_beq h46]; decide) hs1
          obtain ⟨nxt, s3, hp, h⟩ := bind_ok h
          have hs3 : Inv s0 s3 := hs2.asuf (peekOrNull_same hp)
          rcases ite_ok h with ⟨_, h⟩ | ⟨_, h⟩
          · rcases ite_ok h with ⟨_, h⟩ | ⟨_, h⟩
            · obtain ⟨a, s4, _, h⟩ := bind_ok h
              cases a <;> simp [peekErr] at h
            · obtain ⟨tail, s4, ht, h⟩ := bind_ok h
              obtain ⟨ov, s4', hnv, ht⟩ := bind_ok ht
              have hs4' := ihV hnv hs3
              cases ov with
              | none => simp [peekErr] at ht
              | some v0 =>
                obtain ⟨_, rfl⟩ := pure_ok ht
                obtain ⟨a, s5, hw5, h⟩ := bind_ok h
                have hs5 := parseWhitespace_inv hw5 hs4'
                cases a with
                | none => simp [peekErr] at h
                | some c' =>
                  rcases ite_ok h with ⟨_, h⟩ | ⟨_, h⟩
                  · obtain ⟨_, rfl⟩ := pure_ok h
                    exact hs5
                  · simp [peekErr] at h
          · obtain ⟨name, s4, hsym, h⟩ := bind_ok h
            exact ihL h (hs3.step (parseSymbolBytes_vc hsym hs3.mode (by decide)))
        · obtain ⟨ov, s2, hnv, h⟩ := bind_ok h
          have hs2 := ihV hnv hs1
          cases ov with
          | none => simp [peekErr] at h
          | some v0 => exact ihL h hs2
    · -- parse_vector
      intro term acc s0 s s' xs h hs
      unfold parseVector at h
      obtain ⟨a, s1, hw, h⟩ := bind_ok h
      have hs1 := parseWhitespace_inv hw hs
      cases a with
      | none => simp [peekErr] at h
      | some c =>
        dsimp only at h
        rcases ite_ok h with ⟨_, h⟩ | ⟨_, h⟩
        · rcases ite_ok h with ⟨_, h⟩ | ⟨_, h⟩
          · simp [peekErr] at h
          · obtain ⟨_, rfl⟩ := pure_ok h
            exact hs1
        · obtain ⟨ov, s2, hnv, h⟩ := bind_ok h
          have hs2 := ihV hnv hs1
          cases ov with
          | none => simp [peekErr] at h
          | some v0 => exact ihX h hs2

/-! ### entry points -/

/-- **`next_value` consumes a valid chunk** (one call of `Parser::next_value` / one item of the
    value iterator), from any state of a slice or stream reader whose remaining trivia are
    well-formed. -/
theorem C17_next_value_input_valid {cfg : Cfg} {S S' : St} {v : Option Value} {w : List UInt8}
    (h : nextValueTop cfg S = .ok v S') (hr6 : cfg.opts.string = .r6rs)
    (hm : S.rd.mode ≠ .str) (htv : TV S.rd.rest) (hw : S.rd.rest = w ++ S'.rd.rest) :
    Utf8.valid w = true := by
  unfold nextValueTop at h
  obtain ⟨f, s1, hf, h⟩ := bind_ok h
  rw [apiFuel_ok hf] at h
  have := (valueInv cfg hr6 f).1 h (s0 := S) ⟨VC.refl S, htv, hm⟩
  exact this.vc.valid_of hw

theorem expectEnd_inv {s0 s s' : St} {u : Unit} (h : expectEnd s = .ok u s') (hs : Inv s0 s) :
    Inv s0 s' ∧ s'.rd.rest = [] := by
  unfold expectEnd at h
  obtain ⟨a, s1, hw, h⟩ := bind_ok h
  have hs1 := parseWhitespace_inv hw hs
  cases a with
  | some c => simp [peekErr] at h
  | none =>
    obtain ⟨_, rfl⟩ := pure_ok h
    refine ⟨hs1, ?_⟩
    have := (parseWhitespace_ok hw).2.2
    cases hr : s1.rd.rest with
    | nil => rfl
    | cons b tl => rw [hr] at this; cases this

theorem fromTrait_inv {cfg : Cfg} (hr6 : cfg.opts.string = .r6rs) {s s' : St} {v : Value}
    (h : fromTrait cfg s = .ok v s') (hm : s.rd.mode ≠ .str) (htv : TV s.rd.rest) :
    Inv s s' ∧ s'.rd.rest = [] := by
  unfold fromTrait at h
  obtain ⟨x, s1, he, h⟩ := bind_ok h
  obtain ⟨_, s2, hend, h⟩ := bind_ok h
  obtain ⟨_, rfl⟩ := pure_ok h
  unfold expectValue at he
  obtain ⟨ov, s3, hn, he⟩ := bind_ok he
  unfold nextValueTop at hn
  obtain ⟨f, s4, hf, hn⟩ := bind_ok hn
  rw [apiFuel_ok hf] at hn
  have hs3 := (valueInv cfg hr6 f).1 hn (s0 := s) ⟨VC.refl s, htv, hm⟩
  cases ov with
  | none => simp [peekErr] at he
  | some x' =>
    obtain ⟨_, rfl⟩ := pure_ok he
    exact expectEnd_inv hend hs3

/-- **C17, input clause, whole inputs**: if `from_slice` / `from_reader` (R6RS string syntax, any
    other options) accepts `bytes` and the trivia of `bytes` are well-formed, then `bytes` is valid
    UTF-8.  (`faulty`: whether the stream ends in a failing `read`; an accepted input never got
    there.) -/
theorem C17_whole_input_valid {cfg : Cfg} {mode : Mode} {bytes : List UInt8} {faulty : Bool}
    {v : Value} {S' : St} (h : fromTrait cfg (initSt mode bytes faulty) = .ok v S')
    (hr6 : cfg.opts.string = .r6rs) (hm : mode ≠ .str) (htv : TV bytes) :
    Utf8.valid bytes = true := by
  obtain ⟨hinv, hrest⟩ := fromTrait_inv hr6 h (by exact hm) (by exact htv)
  exact hinv.vc.valid_of (w := bytes) (by rw [hrest]; simp [initSt])

/-- **The rule of the differential oracle**: input that is not UTF-8, contains no `;` and is read
    to the end is never accepted (slice and stream sources, R6RS string syntax). -/
theorem C17_whole_input_valid_no_comment {cfg : Cfg} {mode : Mode} {bytes : List UInt8}
    {faulty : Bool} {v : Value} {S' : St}
    (h : fromTrait cfg (initSt mode bytes faulty) = .ok v S')
    (hr6 : cfg.opts.string = .r6rs) (hm : mode ≠ .str) (hno : ∀ b ∈ bytes, b ≠ 59) :
    Utf8.valid bytes = true :=
  C17_whole_input_valid h hr6 hm (TV.of_no59 hno)

/-- the contrapositive, as the oracle states it -/
theorem C17_ill_formed_input_rejected {cfg : Cfg} {mode : Mode} {bytes : List UInt8}
    {faulty : Bool} (hr6 : cfg.opts.string = .r6rs) (hm : mode ≠ .str)
    (hno : ∀ b ∈ bytes, b ≠ 59) (hbad : Utf8.valid bytes = false) :
    ∀ v S', fromTrait cfg (initSt mode bytes faulty) ≠ .ok v S' := by
  intro v S' h
  rw [C17_whole_input_valid_no_comment h hr6 hm hno] at hbad
  cases hbad

/-! ### the hypothesis about trivia is implied by the conclusion -/

/-- a valid text splits at the front of a valid tail: if `a ++ b` and `b` are valid, so is `a` -/
theorem valid_left_of_append {a b : List UInt8} (hab : valid (a ++ b) = true)
    (hb : valid b = true) : valid a = true := by
  rw [valid_iff, run_append] at hab
  cases ha : run .idle a with
  | none => rw [ha] at hab; cases hab
  | some s =>
    rw [ha] at hab
    simp only [Option.bind_some] at hab
    by_cases hs : s = .idle
    · rw [valid_iff, ha, hs]
    · cases b with
      | nil => simp only [run] at hab; cases hab; exact absurd rfl hs
      | cons x xs =>
        have hwf : WF2 s := run_wf2 (s := .idle) trivial ha
        rw [run_mid_head hwf hs (Head.of_valid (by simp) hb)] at hab
        cases hab

/-- a suffix of a valid text that starts with an ASCII byte is valid -/
theorem valid_suffix_ascii_head {l : List UInt8} {b : UInt8} {tl : List UInt8}
    (hl : valid l = true) (ht : (b :: tl) <:+ l) (hba : b < 0x80) :
    valid (b :: tl) = true := by
  obtain ⟨p, hp⟩ := ht
  rw [← hp] at hl
  exact (valid_split_ascii hl hba).2

/-- valid input has well-formed trivia: the hypothesis of `C17_whole_input_valid` is implied by
    its conclusion -/
theorem TV.of_valid {l : List UInt8} (hl : valid l = true) : TV l := by
  intro t ht
  cases t with
  | nil => simp [wsLen, valid_nil]
  | cons b tl =>
    by_cases hstart : (b == 59 || isTrivia b) = true
    · have hba : b < 0x80 := by
        simp only [Bool.or_eq_true] at hstart
        rcases hstart with h | h
        · rw [eq_of_beq h]; decide
        · exact isTrivia_ascii h
      have hvt : valid (b :: tl) = true := valid_suffix_ascii_head hl ht hba
      have hd := valid_drop_wsLen (b :: tl) hvt
      have hsplit : valid ((b :: tl).take (wsLen (b :: tl)) ++ (b :: tl).drop (wsLen (b :: tl))) = true := by
        rw [List.take_append_drop]; exact hvt
      exact valid_left_of_append hsplit hd
    · have h0 : wsLen (b :: tl) = 0 := by
        simp only [Bool.or_eq_true, not_or] at hstart
        simp only [wsLen]
        rw [if_neg hstart.1, if_neg hstart.2]
      rw [h0]; simp [valid_nil]

/-- for an accepted input: valid UTF-8 exactly when its trivia are well-formed — ill-formed bytes
    can hide in comments and nowhere else -/
theorem C17_whole_input_valid_iff {cfg : Cfg} {mode : Mode} {bytes : List UInt8} {faulty : Bool}
    {v : Value} {S' : St} (h : fromTrait cfg (initSt mode bytes faulty) = .ok v S')
    (hr6 : cfg.opts.string = .r6rs) (hm : mode ≠ .str) :
    Utf8.valid bytes = true ↔ TV bytes :=
  ⟨TV.of_valid, C17_whole_input_valid h hr6 hm⟩

/-! ### witnesses -/

/-- the hypothesis about comments is necessary: `1;` FF is not valid UTF-8 and is accepted as 1
    (the comment is skipped without being looked at) -/
theorem comment_may_hide_ill_formed_bytes :
    Utf8.valid [0x31, 0x3B, 0xFF] = false ∧
    parsesTo cfgD [0x31, 0x3B, 0xFF] (.number (Number.ofUnsigned 1)) = true := by
  decide +kernel

/-- an input that meets the hypotheses of `C17_whole_input_valid_no_comment`:
    `(λ "é\x3bb;" #\λ 12 #u8(1 2))` with raw non-ASCII text in a symbol, a string and a character
    … -/
def exInput : List UInt8 :=
  [0x28, 0xCE, 0xBB, 0x20, 0x22, 0xC3, 0xA9] ++ asc "\\x3bb" ++ [0x3B] ++ asc "\" #\\" ++ [0xCE, 0xBB] ++
    asc " 12 #u8(1 2))"

def acceptsAll (cfg : Cfg) (mode : Mode) (bytes : List UInt8) : Bool :=
  match fromTrait cfg (initSt mode bytes) with
  | .ok _ _ => true
  | _ => false

theorem acceptsAll_spec {cfg : Cfg} {mode : Mode} {bytes : List UInt8}
    (h : acceptsAll cfg mode bytes = true) : ∃ v S', fromTrait cfg (initSt mode bytes) = .ok v S' := by
  unfold acceptsAll at h
  split at h
  · rename_i v S' heq; exact ⟨v, S', heq⟩
  · cases h

/-- an input with a comment whose trivia are well-formed: `(a ; é` LF `b)` -/
def exInputComment : List UInt8 := asc "(a ; " ++ [0xC3, 0xA9, 0x0A] ++ asc "b)"

theorem ex_accepts :
    acceptsAll cfgD .slice [0x28, 0xCE, 0xBB, 0x20, 0x22, 0xC3, 0xA9, 0x22, 0x20, 0x23, 0x5C, 0xCE, 0xBB,
      0x20, 0x31, 0x32, 0x20, 0x23, 0x75, 0x38, 0x28, 0x31, 0x20, 0x32, 0x29, 0x29] = true ∧
    acceptsAll cfgD .io [0x28, 0xCE, 0xBB, 0x20, 0x22, 0xC3, 0xA9, 0x22, 0x20, 0x23, 0x5C, 0xCE, 0xBB,
      0x20, 0x31, 0x32, 0x20, 0x23, 0x75, 0x38, 0x28, 0x31, 0x20, 0x32, 0x29, 0x29] = true ∧
    acceptsAll cfgD .slice exInputComment = true := by
  decide +kernel

/-- … and the theorem applies to it (no `;` in it) -/
example : Utf8.valid [0x28, 0xCE, 0xBB, 0x20, 0x22, 0xC3, 0xA9, 0x22, 0x20, 0x23, 0x5C, 0xCE, 0xBB,
      0x20, 0x31, 0x32, 0x20, 0x23, 0x75, 0x38, 0x28, 0x31, 0x20, 0x32, 0x29, 0x29] = true := by
  obtain ⟨v, S', h⟩ := acceptsAll_spec ex_accepts.1
  exact C17_whole_input_valid_no_comment h rfl (by decide) (by decide)

/-- the general theorem applies to the input with a comment: its trivia are well-formed because
    it is valid (`TV.of_valid`), and the theorem gives validity back — with the `iff` form -/
example : TV exInputComment := by
  obtain ⟨v, S', h⟩ := acceptsAll_spec ex_accepts.2.2
  exact (C17_whole_input_valid_iff h rfl (by decide)).mp (by decide +kernel)

/-- ill-formed input without comments is rejected wherever the bad byte stands: in a symbol, a
    string, a character, between tokens, inside a byte vector, at the very end -/
example :
    acceptsAll cfgD .slice [0x28, 0x61, 0xFF, 0x29] = false ∧
    acceptsAll cfgD .slice [0x22, 0xC3, 0x22] = false ∧
    acceptsAll cfgD .slice [0x23, 0x5C, 0xC3, 0x28, 0x29] = false ∧
    acceptsAll cfgD .slice [0x28, 0x61, 0x20, 0x80, 0x20, 0x62, 0x29] = false ∧
    acceptsAll cfgD .slice ([0x23, 0x75, 0x38, 0x28, 0x31, 0xFF, 0x29]) = false ∧
    acceptsAll cfgD .io [0x31, 0x20, 0xFF] = false := by
  decide +kernel

/-- the hypothesis on the string syntax is necessary: under the Emacs Lisp string syntax the input
    `"` C3 `\xa9"` — no `;`, not UTF-8 — is accepted as `é` (the recorded finding
    `numeric_escape_completes_sequence`; `C17_elisp_input_clause` says exactly when) -/
theorem r6rs_hypothesis_needed :
    cfgEl.opts.string = .elisp ∧
    (∀ b ∈ [0x22, 0xC3, 0x5C, 0x78, 0x61, 0x39, 0x22], b ≠ (59 : UInt8)) ∧
    Utf8.valid [0x22, 0xC3, 0x5C, 0x78, 0x61, 0x39, 0x22] = false ∧
    parsesTo cfgEl [0x22, 0xC3, 0x5C, 0x78, 0x61, 0x39, 0x22] (.string [0xC3, 0xA9]) = true := by
  decide +kernel

end InAll
end Parse
end Lexpr
