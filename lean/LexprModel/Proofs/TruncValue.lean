/-
  Truncation (C19): `next_value`, `parse_list`, `parse_vector`.
-/
import LexprModel.Proofs.TruncParse
set_option linter.unusedSimpArgs false
namespace Lexpr
namespace Parse
namespace Trunc
open PrefixDet (Sim ext Scanner digitsLen scan ext_rest ext_consume)

section value
variable {X : Err → Prop} {s : St} {q : List UInt8}

theorem nextValue_eo {cfg : Cfg} {f : Nat} (h0 : s.rd.rest = []) :
    EO X (nextValue cfg f) s (fun a s1 => a = none ∧ s1.depth = s.depth) := by
  cases f with
  | zero => exact EO.outOfFuel
  | succ f =>
    unfold nextValue
    refine EO.bind (parseWhitespace_eo h0) (fun a s1 h1 ha => ?_)
    obtain ⟨rfl, hd⟩ := ha
    exact EO.pure h1 ⟨rfl, hd⟩

theorem parseList_eo {cfg : Cfg} {f : Nat} {term : UInt8} {acc : List Value}
    (h0 : s.rd.rest = []) : EO X (parseList cfg f term acc) s (fun _ _ => False) := by
  cases f with
  | zero => exact EO.outOfFuel
  | succ f =>
    unfold parseList
    refine EO.bind (parseWhitespace_eo h0) (fun a s1 h1 ha => ?_)
    obtain ⟨rfl, _⟩ := ha
    exact EO.peekErrSoft (by decide)

theorem parseVector_eo {cfg : Cfg} {f : Nat} {term : UInt8} {acc : List Value}
    (h0 : s.rd.rest = []) : EO X (parseVector cfg f term acc) s (fun _ _ => False) := by
  cases f with
  | zero => exact EO.outOfFuel
  | succ f =>
    unfold parseVector
    refine EO.bind (parseWhitespace_eo h0) (fun a s1 h1 ha => ?_)
    obtain ⟨rfl, _⟩ := ha
    exact EO.peekErrSoft (by decide)

theorem leave_rest (x : St) : ∃ x1, leave x = .ok () x1 ∧ x1.rd.rest = x.rd.rest :=
  ⟨_, rfl, rfl⟩

theorem TE.bind_leave {β : Type} {f : Unit → P β} {Q : β → St → Res β → Prop} {r' : Res β}
    (h : ∀ s1, s1.rd.rest = s.rd.rest → TE X Q (f ()) r' s1) : TE X Q (leave >>= f) r' s :=
  h _ rfl

theorem TE.bind_attempt {α β : Type} {m : P α} {f : Except Err α → P β} {Pa : α → St → Prop}
    {Q : β → St → Res β → Prop} {r' : Res β} (hm : EO X m s Pa)
    (hok : ∀ a s1, s1.rd.rest = [] → Pa a s1 → TE X Q (f (.ok a)) r' s1) (hre : Reraises f) :
    TE X Q (attempt m >>= f) r' s := by
  unfold TE
  unfold EO at hm
  rw [bind_eq]
  unfold attempt
  cases h : m s with
  | ok a s1 =>
    rw [h] at hm
    simp only [rbind]
    exact hok a s1 hm.1 hm.2
  | err e s1 =>
    rw [h] at hm
    simp only [rbind]
    have := hre e s1
    cases hf : f (.error e) s1 with
    | ok b s2 => rw [hf] at this; exact this.elim
    | err e2 s2 =>
      rw [hf] at this
      subst this
      exact hm.elim Or.inl (fun h => Or.inr (Or.inl h))
    | panic p => trivial
    | fuel => trivial
  | panic p => trivial
  | fuel => trivial

theorem enter_notOk {β : Type} {f : Unit → P β} {x : St} (hd : (x.depth == 0) = false)
    (h1 : (x.depth - 1 == 0) = true) : NotOk ((enter >>= f) x) := by
  rw [bind_eq]
  unfold enter
  simp only [hd, h1, Bool.false_eq_true, ↓reduceIte, rbind]
  exact NotOk.err

theorem TE.bind_enter {β : Type} {f : Unit → P β} {Q : β → St → Res β → Prop} {r' : Res β}
    (hr : (s.depth == 0) = false → (s.depth - 1 == 0) = true → NotOk r')
    (h : ∀ s1, s1.rd.rest = s.rd.rest → TE X Q (f ()) r' s1) : TE X Q (enter >>= f) r' s := by
  unfold TE
  rw [bind_eq]
  unfold enter
  cases hd : (s.depth == 0) with
  | true => simp only [↓reduceIte, rbind]
  | false =>
    cases h1 : (s.depth - 1 == 0) with
    | true =>
      simp only [Bool.false_eq_true, ↓reduceIte, rbind]
      exact Or.inr (Or.inr (hr hd h1))
    | false =>
      simp only [Bool.false_eq_true, ↓reduceIte, rbind]
      exact h _ rfl

/-- the diverged result of `peekOrNull`: the NUL that stands for the end of the input -/
def QNull (s : St) : UInt8 → St → Res UInt8 → Prop := fun a s1 _ => a = 0 ∧ s1 = s

theorem peekOrNull_t : TS X (QNull s) peekOrNull peekOrNull s q := by
  rw [peekOrNull_eq]
  refine TS.bind peek_t (fun _ _ _ _ => TS.pure) (fun a s1 _ h0 ha => ?_)
  obtain ⟨rfl, rfl⟩ := ha
  exact TE.pure h0 ⟨rfl, rfl⟩

/-- `next_value` where a value is required (the dotted tail) -/
theorem tailValue_eo {cfg : Cfg} {f : Nat} (h0 : s.rd.rest = []) :
    EO X (do match (← nextValue cfg f) with
          | some v => pure v
          | none => peekErr .eofValue : P Value) s (fun _ _ => False) := by
  refine EO.bind (nextValue_eo h0) (fun a s1 h1 ha => ?_)
  obtain ⟨rfl, _⟩ := ha
  exact EO.peekErrSoft (by decide)

theorem value_ts (cfg : Cfg) (hq : q ≠ []) : ∀ f f' : Nat, f ≤ f' →
    (∀ s, TS (XR cfg s.rd.rest) QT (nextValue cfg f) (nextValue cfg f') s q) ∧
    (∀ s term acc, TS (XR cfg s.rd.rest) QF (parseList cfg f term acc) (parseList cfg f' term acc) s q) ∧
    (∀ s term acc, TS (XR cfg s.rd.rest) QF (parseVector cfg f term acc)
      (parseVector cfg f' term acc) s q) := by
  intro f
  induction f with
  | zero => intro f' _; exact ⟨fun _ => TS.fuel0 rfl, fun _ _ _ => TS.fuel0 rfl, fun _ _ _ => TS.fuel0 rfl⟩
  | succ f ih =>
    intro f' h
    obtain ⟨g, rfl⟩ : ∃ g, f' = g + 1 := ⟨f' - 1, by omega⟩
    have ih' := ih g (by omega)
    refine ⟨fun s => ?_, fun s term acc => ?_, fun s term acc => ?_⟩
    · unfold nextValue
      refine TS.bindM XR.mono (parseWhitespace_t hq) (fun o s1 _ _ => ?_) (fun o s1 _ h0 ho => ?_)
      · cases o with
        | none => exact TS.pure
        | some pk =>
          dsimp only
          refine TS.bind_tokenFuel (fun n n' hn => ?_)
          refine TS.bindM XR.mono (parseToken_t hq (XR.noor _ _) hn)
            (fun tok s2 _ _ => ?_) (fun tok s2 htok h0 hqt => ?_)
          · cases tok with
            | byteVecOpen close =>
              dsimp only
              exact TS.bindFM XR.mono (parseByteList_t hq (XR.noor _ _) hn) (fun _ _ _ _ => TS.pure)
            | vecOpen close =>
              dsimp only
              refine TS.bindFM XR.mono enter_t (fun _ s3 _ _ => ?_)
              refine TS.bind_attemptM XR.mono (ih'.2.2 s3 close []) (fun xs s4 _ _ => ?_)
                (fun _ _ _ _ h => h.elim) (reraises_leave ?_) (reraises_leave ?_)
              · refine TS.bindFM XR.mono leave_t (fun _ s5 _ _ => ?_)
                refine TS.bind_attemptM XR.mono (endSeq_t hq) (fun u s6 _ _ => ?_)
                  (fun _ _ _ _ h => h.elim) (fun e x => ?_) (fun e x => ?_)
                · cases u; exact TS.pure
                · rfl
                · rfl
              · intro e es x; cases es <;> rfl
              · intro e es x; cases es <;> rfl
            | listOpen close =>
              dsimp only
              refine TS.bindFM XR.mono enter_t (fun _ s3 _ _ => ?_)
              refine TS.bind_attemptM XR.mono (ih'.2.1 s3 close []) (fun xs s4 _ _ => ?_)
                (fun _ _ _ _ h => h.elim) (reraises_leave ?_) (reraises_leave ?_)
              · refine TS.bindFM XR.mono leave_t (fun _ s5 _ _ => ?_)
                refine TS.bind_attemptM XR.mono (endSeq_t hq) (fun u s6 _ _ => ?_)
                  (fun _ _ _ _ h => h.elim) (fun e x => ?_) (fun e x => ?_)
                · cases u; exact TS.pure
                · rfl
                · rfl
              · intro e es x; cases es <;> rfl
              · intro e es x; cases es <;> rfl
            | quotation qt =>
              dsimp only
              refine TS.bindFM XR.mono enter_t (fun _ s3 _ _ => ?_)
              refine TS.bind_attemptM XR.mono (ih'.1 s3) (fun d s4 _ _ => ?_)
                (fun d s4 _ h0 _ => ?_) (fun e x => ?_) (fun e x => ?_)
              · refine TS.bindFM XR.mono leave_t (fun _ s5 _ _ => ?_)
                cases d with
                | none => exact TS.peekErr
                | some d => exact TS.pure
              · refine TE.bind_leave (fun s5 h5 => ?_)
                cases d with
                | none => exact TE.peekErrSoft (by decide)
                | some d => exact TE.pure (h5.trans h0) trivial
              · rfl
              · rfl
            | _ => exact TS.pure
          · rcases hqt with hat | ⟨qt, qt', s', rfl, hr', hd'⟩
            · cases tok <;> first
                | exact TE.pure h0 trivial
                | (exfalso; simp [Token.atom] at hat)
            · dsimp only
              rw [hr']
              simp only [rbind]
              refine TE.bind_enter (fun hd h1 => enter_notOk (by rw [hd']; exact hd)
                (by rw [hd']; exact h1)) (fun s3 h3 => ?_)
              refine TE.bind_attempt (nextValue_eo (h3.trans h0)) (fun d s4 h4 hd4 => ?_)
                (fun e x => rfl)
              obtain ⟨rfl, _⟩ := hd4
              exact TE.bind_leave (fun s5 h5 => TE.peekErrSoft (by decide))
      · cases ho; exact TE.pure h0 trivial
    · unfold parseList
      refine TS.bindM XR.mono (parseWhitespace_t hq) (fun o s1 _ _ => ?_) (fun o s1 _ h0 ho => ?_)
      · cases o with
        | none => exact TS.peekErr
        | some c =>
          dsimp only
          refine TS.ite (fun _ => ?_) (fun _ => TS.ite (fun _ => ?_) (fun _ => ?_))
          · exact TS.ite (fun _ => TS.peekErr) (fun _ => TS.pure)
          · -- a dot
            refine TS.bindFM XR.mono discard_t (fun _ s2 _ _ => ?_)
            refine TS.bindM XR.mono peekOrNull_t (fun nxt s3 _ _ => ?_) (fun nxt s3 _ h0 hn => ?_)
            · refine TS.ite (fun _ => TS.ite (fun _ => ?_) (fun _ => ?_)) (fun _ => ?_)
              · refine TS.bindM XR.mono peek_t (fun o s4 _ _ => ?_) (fun o s4 _ h0 ho => ?_)
                · cases o with
                  | none => exact TS.peekErr
                  | some _ => exact TS.peekErr
                · obtain ⟨rfl, rfl⟩ := ho
                  exact TE.peekErrSoft (by decide)
              · refine TS.bindM XR.mono (Q1 := QT) ?_ (fun tail s4 _ _ => ?_) (fun tail s4 _ h0 _ => ?_)
                · refine TS.bindM XR.mono (ih'.1 s3) (fun o s4 _ _ => ?_) (fun o s4 _ h0 _ => ?_)
                  · cases o with
                    | none => exact TS.peekErr
                    | some v => exact TS.pure
                  · cases o with
                    | none => exact TE.peekErrSoft (by decide)
                    | some v => exact TE.pure h0 trivial
                · refine TS.bindM XR.mono (parseWhitespace_t hq) (fun o s5 _ _ => ?_)
                    (fun o s5 _ h0 ho => ?_)
                  · cases o with
                    | none => exact TS.peekErr
                    | some c' => exact TS.ite (fun _ => TS.pure) (fun _ => TS.peekErr)
                  · cases ho; exact TE.peekErrSoft (by decide)
                · refine TE.bind (parseWhitespace_eo h0) (fun o s5 h5 ho => ?_)
                  obtain ⟨rfl, _⟩ := ho
                  exact TE.peekErrSoft (by decide)
              · refine TS.bindM XR.mono ((parseSymbolBytes_t hq).toQT) (fun name s4 _ _ => ?_)
                  (fun name s4 _ h0 _ => ?_)
                · exact ih'.2.1 s4 term _
                · exact TE.ofEO (parseList_eo h0) (fun _ _ _ h => h.elim)
            · obtain ⟨rfl, rfl⟩ := hn
              simp (decide := true) only [Bool.true_or, ↓reduceIte]
              refine TE.ite (fun _ => ?_) (fun _ => ?_)
              · exact TE.bind_peek h0 (TE.peekErrSoft (by decide))
              · exact TE.bind (tailValue_eo h0) (fun _ _ _ h => h.elim)
          · refine TS.bindM XR.mono (ih'.1 s1) (fun o s2 _ _ => ?_) (fun o s2 _ h0 _ => ?_)
            · cases o with
              | none => exact TS.peekErr
              | some v => exact ih'.2.1 s2 term _
            · cases o with
              | none => exact TE.peekErrSoft (by decide)
              | some v => exact TE.ofEO (parseList_eo h0) (fun _ _ _ h => h.elim)
      · cases ho; exact TE.peekErrSoft (by decide)
    · unfold parseVector
      refine TS.bindM XR.mono (parseWhitespace_t hq) (fun o s1 _ _ => ?_) (fun o s1 _ h0 ho => ?_)
      · cases o with
        | none => exact TS.peekErr
        | some c =>
          dsimp only
          refine TS.ite (fun _ => ?_) (fun _ => ?_)
          · exact TS.ite (fun _ => TS.peekErr) (fun _ => TS.pure)
          · refine TS.bindM XR.mono (ih'.1 s1) (fun o s2 _ _ => ?_) (fun o s2 _ h0 _ => ?_)
            · cases o with
              | none => exact TS.peekErr
              | some v => exact ih'.2.2 s2 term _
            · cases o with
              | none => exact TE.peekErrSoft (by decide)
              | some v => exact TE.ofEO (parseVector_eo h0) (fun _ _ _ h => h.elim)
      · cases ho; exact TE.peekErrSoft (by decide)

end value
end Trunc
end Parse
end Lexpr
