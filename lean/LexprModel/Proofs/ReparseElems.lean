/-
  C11, re-parse clause — the two kinds of element that are not returned by a `next_datum` call of
  their own: a symbol that starts with a dot inside a list (`(a .b)`, read by `parse_list_meta`
  itself), and the head of a quote shorthand (exempt from the clause: its span covers just the
  shorthand characters).
-/
import LexprModel.Proofs.ReparseTop
namespace Lexpr
namespace Parse
namespace Reparse
open Progress Spans

/-! ### `parse_symbol_bytes`, forwards and backwards -/

theorem getMode_apply (S : St) : getMode S = .ok S.rd.mode S := rfl

theorem scan_apply (g : List UInt8 → Nat) (S : St) :
    PrefixDet.scan g S = .ok (S.rd.rest.take (g S.rd.rest)) { S with rd := S.rd.consume (g S.rd.rest) } :=
  rfl

theorem psb_ok {scratch : List UInt8} {S S' : St} {name : List UInt8}
    (h : parseSymbolBytes scratch S = .ok name S') :
    name = scratch ++ S.rd.rest.take (symLen S.rd.mode S.rd.rest) ∧
    S'.rd.rest = S.rd.rest.drop (symLen S.rd.mode S.rd.rest) ∧
    (name == [46]) = false ∧ (S.rd.mode = .str ∨ Utf8.valid name = true) ∧
    (S'.rd.rest = [] → S.rd.faulty = false) := by
  rw [PrefixDet.parseSymbolBytes_eq, bind_ok_eq (getMode_apply S), bind_ok_eq (scan_apply _ S)] at h
  obtain ⟨nxt, Sc, hp, hI⟩ := bind_ok h
  have hrest : Sc.rd.rest = S.rd.rest.drop (symLen S.rd.mode S.rd.rest) ∧
      (Sc.rd.rest = [] → S.rd.faulty = false) := by
    cases hb : ({ S with rd := S.rd.consume (symLen S.rd.mode S.rd.rest) } : St).rd.rest with
    | nil =>
      have hf : ({ S with rd := S.rd.consume (symLen S.rd.mode S.rd.rest) } : St).rd.faulty =
          S.rd.faulty := consume_faulty _ _
      unfold peek at hp
      rw [hb] at hp
      dsimp only at hp
      split at hp
      · cases hp
      · cases hp
        rename_i hnf
        refine ⟨by rw [← consume_rest], fun _ => ?_⟩
        rw [hf] at hnf
        simpa using hnf
    | cons c t =>
      rw [peek_cons hb] at hp
      cases hp
      refine ⟨by rw [pk_rest, ← consume_rest], fun h0 => ?_⟩
      rw [pk_rest, hb] at h0
      cases h0
  split at hI
  · cases hI
  · rename_i h46
    split at hI
    · cases hI
      rename_i hstr
      exact ⟨rfl, hrest.1, by simpa using h46, Or.inl (by simpa using hstr), hrest.2⟩
    · split at hI
      · cases hI
        rename_i hval
        exact ⟨rfl, hrest.1, by simpa using h46, Or.inr hval, hrest.2⟩
      · split at hI <;> cases hI

theorem psb_intro {scratch : List UInt8} {S : St} {name : List UInt8}
    (hname : name = scratch ++ S.rd.rest.take (symLen S.rd.mode S.rd.rest))
    (h46 : (name == [46]) = false) (hv : S.rd.mode = .str ∨ Utf8.valid name = true)
    (hf : S.rd.rest.drop (symLen S.rd.mode S.rd.rest) = [] → S.rd.faulty = false) :
    ∃ S', parseSymbolBytes scratch S = .ok name S' ∧
      S'.rd.rest = S.rd.rest.drop (symLen S.rd.mode S.rd.rest) := by
  rw [PrefixDet.parseSymbolBytes_eq, bind_ok_eq (getMode_apply S), bind_ok_eq (scan_apply _ S)]
  have hpk : ∃ nxt Sc, peek ({ S with rd := S.rd.consume (symLen S.rd.mode S.rd.rest) } : St) =
      .ok nxt Sc ∧ Sc.rd.rest = S.rd.rest.drop (symLen S.rd.mode S.rd.rest) := by
    cases hb : ({ S with rd := S.rd.consume (symLen S.rd.mode S.rd.rest) } : St).rd.rest with
    | nil =>
      have hb' : S.rd.rest.drop (symLen S.rd.mode S.rd.rest) = [] := by
        rw [← consume_rest]; exact hb
      refine ⟨none, _, peek_nil hb ?_, by rw [hb', hb]⟩
      show (S.rd.consume _).faulty = false
      rw [consume_faulty]; exact hf hb'
    | cons c t => exact ⟨some c, _, peek_cons hb, by rw [pk_rest, ← consume_rest]⟩
  obtain ⟨nxt, Sc, hp, hr⟩ := hpk
  rw [bind_ok_eq hp, ← hname]
  refine ⟨Sc, ?_, hr⟩
  rw [if_neg (by simp [h46])]
  rcases hv with hstr | hval
  · rw [if_pos (by simp [hstr])]; rfl
  · by_cases hstr : (S.rd.mode == Mode.str) = true
    · rw [if_pos hstr]; rfl
    · rw [if_neg hstr, if_pos hval]; rfl

/-! ### a symbol that starts with a dot, inside a list -/

theorem parseToken_46 (cfg : Cfg) (fuel : Nat) :
    parseToken cfg fuel 46 = (do
      let name ← parseSymbolBytes []
      pure (symbolToken cfg.opts name)) := by
  unfold parseToken
  simp [isDigit, isAsciiAlpha, isSymbolExtended]

theorem afterWs_symbolToken {cfg : Cfg} {F : Nat} {pk : UInt8} {S S2 : St} {name : List UInt8}
    (ht : parseToken cfg (S.rd.rest.length + 1) pk S = .ok (symbolToken cfg.opts name) S2) :
    afterWs cfg F pk S = .ok (some (symbolValue cfg.opts name)) S2 := by
  unfold afterWs
  have htf : tokenFuel S = .ok (S.rd.rest.length + 1) S := rfl
  rw [bind_ok_eq htf, bind_ok_eq ht]
  unfold symbolValue symbolToken
  split <;> rfl

/-- `parse_list_meta` at a dot that is not followed by a delimiter reads `.` and the symbol
    bytes after it; `next_value` started at the dot reads the same symbol and stops at the same
    place -/
theorem dotSymbol_run {cfg : Cfg} {F : Nat} {S1 S2 S3 S4 : St} {t : List UInt8} {nxt : UInt8}
    {name : List UInt8} (h1 : S1.rd.rest = 46 :: t) (hd : discard S1 = .ok () S2)
    (hp : peekOrNull S2 = .ok nxt S3) (hs : parseSymbolBytes [46] S3 = .ok name S4) :
    ∃ S4', nextValue cfg (F + 1) S1 = .ok (some (symbolValue cfg.opts name)) S4' ∧
      S4'.rd.rest = S4.rd.rest := by
  -- the state in which the symbol bytes are read on the datum side
  rw [discard_cons h1] at hd
  cases hd
  have hS3 : S3.rd.rest = t ∧ S3.rd.mode = S1.rd.mode ∧ S3.rd.faulty = S1.rd.faulty := by
    have hr := peekOrNull_tri (adv1 S1)
    unfold Tri at hr
    rw [hp] at hr
    have hm := peekOrNull_inv (I := fun s : St => s.rd.mode = S1.rd.mode) (adv1 S1)
      (by show (S1.rd.consume 1).mode = _; rw [consume_mode])
    rw [hp] at hm
    have hf := peekOrNull_inv (I := fun s : St => s.rd.faulty = S1.rd.faulty) (adv1 S1)
      (by show (S1.rd.consume 1).faulty = _; rw [consume_faulty])
    rw [hp] at hf
    exact ⟨by rw [hr.1, adv1_rest h1], hm, hf⟩
  obtain ⟨hname, hrest4, h46, hval, hfl⟩ := psb_ok hs
  rw [hS3.1, hS3.2.1] at hname hrest4
  rw [hS3.2.1] at hval
  rw [hS3.2.2] at hfl
  -- the value side
  obtain ⟨S1a, hws, hr1a, hm1a, hf1a, _⟩ :=
    parseWhitespace_token (s := S1) (b := 46) (t := t) h1 (by decide) (by decide)
  have hsym : symLen S1a.rd.mode S1a.rd.rest = symLen S1.rd.mode t + 1 := by
    rw [hr1a, hm1a]
    have : symTerm S1.rd.mode 46 = false := symTerm_of_ext (by decide)
    simp [symLen, this]
  obtain ⟨S4', hpsb, hr4'⟩ := psb_intro (scratch := []) (S := S1a) (name := name)
    (by rw [hsym, hr1a, hname]; rfl) h46 (by rw [hm1a]; exact hval)
    (by
      rw [hsym, hr1a, List.drop_succ_cons, hf1a]
      intro h0
      exact hfl (by rw [hrest4]; exact h0))
  refine ⟨S4', ?_, by rw [hr4', hsym, hr1a, List.drop_succ_cons, hrest4]⟩
  rw [nextValue_succ, bind_ok_eq hws]
  refine afterWs_symbolToken ?_
  rw [parseToken_46, bind_ok_eq hpsb]
  rfl

/-! ### the token of a quote shorthand covers exactly the shorthand characters -/

/-- a token program that never returns a `quotation` token -/
def NotQ (m : P Token) : Prop := ∀ s a s', m s = .ok a s' → ∀ q, a ≠ .quotation q

theorem NotQ.bind_any {α : Type} {m : P α} {f : α → P Token} (hf : ∀ a, NotQ (f a)) :
    NotQ (m >>= f) := by
  intro s a s' h
  obtain ⟨x, s1, _, h2⟩ := bind_ok h
  exact hf x s1 a s' h2

theorem NotQ.pure {t : Token} (h : ∀ q, t ≠ .quotation q) : NotQ (pure t) := by
  intro s a s' hr
  cases hr
  exact h

theorem NotQ.of_neverOk {m : P Token} (h : NeverOk m) : NotQ m :=
  fun s a s' hr => absurd hr (h s a s')

theorem NotQ.ite {c : Prop} [Decidable c] {A B : P Token} (hA : c → NotQ A) (hB : ¬c → NotQ B) :
    NotQ (if c then A else B) := by
  split
  · exact hA ‹_›
  · exact hB ‹_›

theorem symbolToken_notq (o : Options) (name : List UInt8) (q : Quote) :
    symbolToken o name ≠ .quotation q := by
  unfold symbolToken
  split <;> exact fun h => by cases h

open Lean Elab Tactic Meta in
elab "nguard_pi" : tactic => do
  let g := (← instantiateMVars (← getMainTarget)).cleanupAnnotations
  unless g.isForall do throwError "not a pi"

/-- follow a token program to its leaves -/
syntax "notq" "[" term,* "]" : tactic
macro_rules
  | `(tactic| notq [$ts,*]) => `(tactic| repeat' (first
    | (nguard_pi; intro _)
    | exact NotQ.pure (fun q h => by cases h)
    | exact NotQ.pure (symbolToken_notq _ _)
    | exact NotQ.of_neverOk NeverOk.peekErr
    | exact NotQ.of_neverOk NeverOk.errAt
    | exact NotQ.of_neverOk NeverOk.panicAt
    | exact NotQ.of_neverOk NeverOk.rawErr
    $[| exact_call $ts]*
    | (prog_head ite; refine NotQ.ite ?_ ?_)
    | (prog_head Bind.bind; refine NotQ.bind_any ?_)
    | dsimp only
    | split))

theorem parseSignDotSymbol_notq (cfg : Cfg) (pfx : List UInt8) : NotQ (parseSignDotSymbol cfg pfx) := by
  unfold parseSignDotSymbol
  notq []

theorem parseSignToken_notq (cfg : Cfg) (fuel : Nat) (sign : UInt8) (pos : Bool) :
    NotQ (parseSignToken cfg fuel sign pos) := by
  unfold parseSignToken
  notq [parseSignDotSymbol_notq _ _]

theorem parseToken_notq (cfg : Cfg) (fuel : Nat) (pk : UInt8) (h39 : pk ≠ 39) (h96 : pk ≠ 96)
    (h44 : pk ≠ 44) : NotQ (parseToken cfg fuel pk) := by
  unfold parseToken
  repeat' (first
    | (nguard_pi; intro _)
    | exact absurd (eq_of_beq ‹(pk == 39) = true›) h39
    | exact absurd (eq_of_beq ‹(pk == 96) = true›) h96
    | exact absurd (eq_of_beq ‹(pk == 44) = true›) h44
    | exact NotQ.pure (fun q h => by cases h)
    | exact NotQ.pure (symbolToken_notq _ _)
    | exact NotQ.of_neverOk NeverOk.peekErr
    | exact NotQ.of_neverOk NeverOk.errAt
    | exact NotQ.of_neverOk NeverOk.panicAt
    | exact NotQ.of_neverOk NeverOk.rawErr
    | exact parseSignToken_notq _ _ _ _
    | (prog_head ite; refine NotQ.ite ?_ ?_)
    | (prog_head Bind.bind; refine NotQ.bind_any ?_)
    | dsimp only
    | split)

theorem parseToken_quotation_inv {cfg : Cfg} {fuel : Nat} {pk : UInt8} {s s2 : St} {q : Quote}
    (h : parseToken cfg fuel pk s = .ok (.quotation q) s2) (hpk : s.rd.rest.head? = some pk) :
    s.rd.rest = q.shorthand ++ s2.rd.rest := by
  cases hr : s.rd.rest with
  | nil => rw [hr] at hpk; cases hpk
  | cons c t =>
    rw [hr] at hpk
    obtain rfl : c = pk := by simpa using hpk
    by_cases h39 : c = 39
    · subst h39
      rw [parseToken_39, bind_ok_eq (discard_cons hr)] at h
      cases h
      rw [adv1_rest hr]; rfl
    by_cases h96 : c = 96
    · subst h96
      rw [parseToken_96, bind_ok_eq (discard_cons hr)] at h
      cases h
      rw [adv1_rest hr]; rfl
    by_cases h44 : c = 44
    · subst h44
      rw [parseToken_44, bind_ok_eq (discard_cons hr)] at h
      obtain ⟨c2, S3, hp, h⟩ := bind_ok h
      have hp3 := peekOrNull_tri (adv1 s)
      unfold Tri at hp3
      rw [hp] at hp3
      obtain ⟨hr3, hc2⟩ := hp3
      rw [adv1_rest hr] at hr3 hc2
      by_cases h64 : (c2 == 64) = true
      · rw [if_pos h64] at h
        obtain ⟨_, S4, hd, h⟩ := bind_ok h
        cases h
        cases ht : t with
        | nil =>
          rw [ht] at hc2
          rw [hc2] at h64
          exact absurd h64 (by decide)
        | cons c3 t3 =>
          rw [ht] at hc2 hr3
          have h3 : c3 = 64 := by
            simp only [List.head?_cons, Option.getD_some] at hc2
            rw [hc2] at h64
            exact eq_of_beq h64
          subst h3
          rw [discard_cons hr3] at hd
          cases hd
          rw [adv1_rest hr3]; rfl
      · rw [if_neg h64] at h
        cases h
        rw [hr3]; rfl
    exact absurd rfl (parseToken_notq cfg fuel c h39 h96 h44 s _ s2 h q)

/-- the head of a quote shorthand: the symbol `quote` / `quasiquote` / `unquote` /
    `unquote-splicing`, whose span covers exactly the shorthand characters `'`, `` ` ``, `,`, `,@` -/
def QuoteHead (input : List UInt8) (v : Value) (sp : Span) : Prop :=
  ∃ (q : Quote) (p : List UInt8), (p ++ q.shorthand) <+: input ∧
    sp = ⟨posOf p, posOf (p ++ q.shorthand)⟩ ∧ v = .symbol q.name

theorem quoteHead_of_token {cfg : Cfg} {fuel : Nat} {pk : UInt8} {s s2 : St} {q : Quote}
    {input : List UInt8} (h : parseToken cfg fuel pk s = .ok (.quotation q) s2)
    (hpk : s.rd.rest.head? = some pk) (hat : At input s) (hat2 : At input s2) :
    QuoteHead input (.symbol q.name) ⟨s.rd.position, s2.rd.position⟩ := by
  have hsh := parseToken_quotation_inv h hpk
  obtain ⟨pre, hin, hpos⟩ := hat
  obtain ⟨pre2, hin2, hpos2⟩ := hat2
  have hp2 : pre2 = pre ++ q.shorthand := by
    have : pre2 ++ s2.rd.rest = (pre ++ q.shorthand) ++ s2.rd.rest := by
      rw [hin2, ← hin, hsh, List.append_assoc]
    exact List.append_cancel_right this
  refine ⟨q, pre, ⟨s2.rd.rest, by rw [← hp2, hin2]⟩, by rw [hpos, hpos2, hp2], rfl⟩

end Reparse
end Parse
end Lexpr
