import LexprModel.Proofs.Hist
import LexprModel.Proofs.Utf8Lemmas
import LexprModel.Proofs.SymTerm
namespace Lexpr
namespace Parse

/-- `&str` source versus `&[u8]` source at the same point of the same input: the states are
    identical except for the mode tag. -/
structure StrSl (s t : St) : Prop where
  rd : s.rd = { t.rd with mode := .str }
  depth : s.depth = t.depth
  mode : t.rd.mode = .slice

/-- ... and what is left of the input is a suffix of well-formed UTF-8. -/
structure StrB (s t : St) : Prop extends StrSl s t where
  bnd : Utf8.Bnd t.rd.rest

theorem consume_str (rd : Rd) (n : Nat) :
    ({ rd with mode := .str } : Rd).consume n = { rd.consume n with mode := .str } := by
  induction n generalizing rd with
  | zero => simp [Rd.consume]
  | succ n ih =>
    unfold Rd.consume
    cases h : rd.rest with
    | nil => simp [h]
    | cons b bs =>
      simp only [h]
      exact ih { rd with rest := bs, line := (advance rd.line rd.col b).1,
                         col := (advance rd.line rd.col b).2, peeked := false }

theorem consume_mode_ss (rd : Rd) (n : Nat) : (rd.consume n).mode = rd.mode := by
  induction n generalizing rd with
  | zero => simp [Rd.consume]
  | succ n ih =>
    unfold Rd.consume
    cases h : rd.rest with
    | nil => simp
    | cons b bs => simp only; rw [ih]

theorem consume_rest_ss (rd : Rd) (n : Nat) : (rd.consume n).rest = rd.rest.drop n := by
  induction n generalizing rd with
  | zero => simp [Rd.consume]
  | succ n ih =>
    unfold Rd.consume
    cases h : rd.rest with
    | nil => simp [h]
    | cons b bs => simp only; rw [ih]; simp

theorem StrB.consume {s t : St} (h : StrB s t) (n : Nat) :
    StrB { s with rd := s.rd.consume n } { t with rd := t.rd.consume n } := by
  refine ⟨⟨?_, h.depth, ?_⟩, ?_⟩
  · simp only [h.rd, consume_str]
  · simp only [consume_mode_ss, h.mode]
  · simp only [consume_rest_ss]; exact h.bnd.drop n

theorem StrSl.rest {s t : St} (h : StrSl s t) : s.rd.rest = t.rd.rest := by rw [h.rd]
theorem StrSl.faulty {s t : St} (h : StrSl s t) : s.rd.faulty = t.rd.faulty := by rw [h.rd]
theorem StrSl.position {s t : St} (h : StrSl s t) : s.rd.position = t.rd.position := by
  rw [h.rd]; rfl
theorem StrSl.peekPosition {s t : St} (h : StrSl s t) : s.rd.peekPosition = t.rd.peekPosition := by
  rw [h.rd]; simp only [Rd.peekPosition, h.mode]; rfl
theorem StrSl.smode {s t : St} (h : StrSl s t) : s.rd.mode = .str := by rw [h.rd]

abbrev PStr {α : Type} (m₁ m₂ : P α) : Prop := PRel StrB Eq Eq m₁ m₂

theorem PStr.peek : PStr peek peek := by
  constructor; intro s t h
  unfold Parse.peek
  rw [h.rest, h.faulty]
  cases hr : t.rd.rest with
  | nil => cases t.rd.faulty <;> exact ⟨rfl, h⟩
  | cons b bs =>
    refine ⟨rfl, ⟨⟨?_, h.depth, h.mode⟩, by simpa [hr] using h.bnd⟩⟩
    simp only [h.rd, h.mode]; rfl

theorem PStr.next : PStr next next := by
  constructor; intro s t h
  unfold Parse.next
  rw [h.rest, h.faulty]
  cases hr : t.rd.rest with
  | nil => cases t.rd.faulty <;> exact ⟨rfl, h⟩
  | cons b bs => exact ⟨rfl, h.consume 1⟩

theorem PStr.discard : PStr discard discard := by
  constructor; intro s t h
  unfold Parse.discard
  rw [h.rest]
  cases hr : t.rd.rest with
  | nil => exact rfl
  | cons b bs => exact ⟨rfl, h.consume 1⟩

theorem PStr.consumeN (n : Nat) : PStr (consumeN n) (consumeN n) := by
  constructor; intro s t h; exact ⟨rfl, h.consume n⟩

theorem PStr.getRest : PStr getRest getRest := by
  constructor; intro s t h; exact ⟨h.rest, h⟩

theorem PStr.getPos : PStr getPos getPos := by
  constructor; intro s t h; exact ⟨h.position, h⟩

theorem PStr.tokenFuel : PStr tokenFuel tokenFuel := by
  constructor; intro s t h; exact ⟨by simp [h.rest], h⟩

theorem PStr.apiFuel : PStr apiFuel apiFuel := by
  constructor; intro s t h; exact ⟨by simp [h.rest], h⟩

theorem PStr.errAt {α : Type} (c : Code) : PStr (errAt c : P α) (errAt c) := by
  constructor; intro s t h; exact ⟨by rw [h.position], h⟩

theorem PStr.peekErr {α : Type} (c : Code) : PStr (peekErr c : P α) (peekErr c) := by
  constructor; intro s t h; exact ⟨by rw [h.peekPosition], h⟩

theorem PStr.enter : PStr enter enter := by
  constructor; intro s t h
  unfold Parse.enter
  rw [h.depth, h.peekPosition]
  split
  · exact rfl
  · split
    · exact ⟨rfl, h⟩
    · exact ⟨rfl, ⟨⟨h.rd, by simp [h.depth], h.mode⟩, h.bnd⟩⟩

theorem PStr.leave : PStr leave leave := by
  constructor; intro s t h
  exact ⟨rfl, ⟨⟨h.rd, by simp [h.depth], h.mode⟩, h.bnd⟩⟩

theorem PStr.finishChecked (bytes : List UInt8) : PStr (finishStr true bytes) (finishStr true bytes) := by
  constructor; intro s t h
  unfold Parse.finishStr
  show ResRel StrB Eq Eq (P.bind getMode _ s) (P.bind getMode _ t)
  simp only [P.bind, getMode, Bool.not_true, Bool.false_and, Bool.false_eq_true, if_false]
  split
  · exact ⟨rfl, h⟩
  · exact (PStr.errAt _).app s t h

instance : Prims StrB Eq where
  peek := PStr.peek
  next := PStr.next
  discard := PStr.discard
  consumeN := PStr.consumeN
  getRest := PStr.getRest
  getPos := PStr.getPos
  tokenFuel := PStr.tokenFuel
  apiFuel := PStr.apiFuel
  errAt := PStr.errAt
  peekErr := PStr.peekErr
  enter := PStr.enter
  leave := PStr.leave
  finishChecked := PStr.finishChecked
  peekPosE := fun c h => by rw [h.peekPosition]
  getSt := ⟨fun _ _ h => ⟨h, h⟩⟩


/-! ### a Hoare layer that tracks the remaining input -/

/-- results of one computation on a `&str` parser and on a slice parser: equal, and `post`
    holds of the value and the remaining input -/
def HRes {α : Type} (post : α → List UInt8 → Prop) : Res α → Res α → Prop
  | .ok a s, .ok b t => a = b ∧ StrB s t ∧ post a t.rd.rest
  | .err e s, .err e' t => e = e' ∧ StrB s t
  | .panic p, .panic q => p = q
  | .fuel, .fuel => True
  | _, _ => False

/-- from related states whose remaining input is `r0` -/
structure HR {α : Type} (r0 : List UInt8) (m₁ m₂ : P α) (post : α → List UInt8 → Prop) : Prop where
  app : ∀ s t, StrB s t → t.rd.rest = r0 → HRes post (m₁ s) (m₂ t)

section hr
variable {α β : Type} {r0 : List UInt8}

theorem HR.bind {m₁ m₂ : P α} {f₁ f₂ : α → P β} {Q : α → List UInt8 → Prop}
    {R : β → List UInt8 → Prop} (hm : HR r0 m₁ m₂ Q)
    (hf : ∀ a r, Q a r → Utf8.Bnd r → HR r (f₁ a) (f₂ a) R) :
    HR r0 (m₁ >>= f₁) (m₂ >>= f₂) R := by
  constructor; intro s t h hr
  have := hm.app s t h hr
  show HRes R (P.bind m₁ f₁ s) (P.bind m₂ f₂ t)
  unfold P.bind
  cases h1 : m₁ s <;> cases h2 : m₂ t <;> rw [h1, h2] at this <;> simp only [HRes] at this ⊢
  · obtain ⟨rfl, hb, hq⟩ := this
    exact (hf _ _ hq hb.bnd).app _ _ hb rfl
  · exact this
  · exact this

theorem HR.weaken {m₁ m₂ : P α} {Q R : α → List UInt8 → Prop} (hm : HR r0 m₁ m₂ Q)
    (hq : ∀ a r, Q a r → R a r) : HR r0 m₁ m₂ R := by
  constructor; intro s t h hr
  have := hm.app s t h hr
  revert this
  cases m₁ s <;> cases m₂ t <;> simp only [HRes] <;> intro h' <;>
    first | exact h'.elim | exact ⟨h'.1, h'.2.1, hq _ _ h'.2.2⟩ | exact h'

theorem HR.of_PRel {m₁ m₂ : P α} (hm : PStr m₁ m₂) : HR r0 m₁ m₂ (fun _ _ => True) := by
  constructor; intro s t h _
  have := hm.app s t h
  revert this
  cases m₁ s <;> cases m₂ t <;> simp only [HRes, ResRel] <;> intro h' <;>
    first | exact h'.elim | exact ⟨h'.1, h'.2, trivial⟩ | exact h'

theorem HR.to_PRel {m₁ m₂ : P α} {Q : α → List UInt8 → Prop}
    (hm : ∀ r0, Utf8.Bnd r0 → HR r0 m₁ m₂ Q) : PStr m₁ m₂ := by
  constructor; intro s t h
  have := (hm _ h.bnd).app s t h rfl
  revert this
  cases m₁ s <;> cases m₂ t <;> simp only [HRes, ResRel] <;> intro h' <;>
    first | exact h'.elim | exact ⟨h'.1, h'.2.1⟩ | exact h'

theorem HR.ite {c : Prop} [Decidable c] {a b a' b' : P α} {Q : α → List UInt8 → Prop}
    (ha : c → HR r0 a a' Q) (hb : ¬c → HR r0 b b' Q) :
    HR r0 (if c then a else b) (if c then a' else b') Q := by
  split
  · exact ha ‹_›
  · exact hb ‹_›

theorem HR.pure (a : α) : HR r0 (pure a : P α) (pure a) (fun b r => b = a ∧ r = r0) := by
  constructor; intro s t h hr; exact ⟨rfl, h, rfl, hr⟩

theorem HR.peek : HR r0 peek peek (fun a r => r = r0 ∧ a = r0.head?) := by
  constructor; intro s t h hr
  have := PStr.peek.app s t h
  unfold Parse.peek at this ⊢
  rw [h.rest, h.faulty, hr] at this ⊢
  cases r0 with
  | nil =>
    cases hf : t.rd.faulty <;> simp only [Bool.false_eq_true, ↓reduceIte] at this ⊢
    · exact ⟨rfl, h, hr, rfl⟩
    · exact ⟨rfl, h⟩
  | cons b bs => exact ⟨rfl, this.2, hr, rfl⟩

theorem HR.next : HR r0 next next (fun a r => r0 = a.toList ++ r) := by
  constructor; intro s t h hr
  have := PStr.next.app s t h
  unfold Parse.next at this ⊢
  rw [h.rest, h.faulty, hr] at this ⊢
  cases r0 with
  | nil =>
    cases hf : t.rd.faulty <;> simp only [Bool.false_eq_true, ↓reduceIte] at this ⊢
    · exact ⟨rfl, h, by simp [hr]⟩
    · exact ⟨rfl, h⟩
  | cons b bs =>
    refine ⟨rfl, this.2, ?_⟩
    simp [consume_rest_ss, hr]

theorem HR.discard : HR r0 discard discard (fun _ r => ∃ b, r0 = b :: r) := by
  constructor; intro s t h hr
  have := PStr.discard.app s t h
  unfold Parse.discard at this ⊢
  rw [h.rest, hr] at this ⊢
  cases r0 with
  | nil => exact rfl
  | cons b bs =>
    refine ⟨rfl, this.2, b, ?_⟩
    simp [consume_rest_ss, hr]

theorem HR.consumeN (n : Nat) : HR r0 (consumeN n) (consumeN n) (fun _ r => r = r0.drop n) := by
  constructor; intro s t h hr
  exact ⟨rfl, h.consume n, by simp [consume_rest_ss, hr]⟩

theorem HR.getRest : HR r0 getRest getRest (fun a r => a = r0 ∧ r = r0) := by
  constructor; intro s t h hr; exact ⟨h.rest, h, h.rest.trans hr, hr⟩

theorem HR.getPos : HR r0 getPos getPos (fun _ r => r = r0) := by
  constructor; intro s t h hr; exact ⟨h.position, h, hr⟩

theorem HR.tokenFuel : HR r0 tokenFuel tokenFuel (fun _ r => r = r0) := by
  constructor; intro s t h hr; exact ⟨by simp [h.rest], h, hr⟩

end hr

open Utf8 (valid Bnd isCont)

theorem HR.weaken_res {α : Type} {r₁ r₂ : Res α} (h : ResRel StrB Eq Eq r₁ r₂) :
    HRes (fun _ _ => True) r₁ r₂ := by
  revert h
  cases r₁ <;> cases r₂ <;> simp only [HRes, ResRel] <;> intro h' <;>
    first | exact h'.elim | exact ⟨h'.1, h'.2, trivial⟩ | exact h'

/-! ### byte classes are ASCII -/

theorem lit128 : (0x80 : UInt8).toNat = 128 := rfl

theorem symTerm_ascii {m : Mode} {b : UInt8} (h : symTerm m b = true) : b < 0x80 := by
  have : symTermSlice b = true := by cases m <;> simpa only [symTerm, ← symTermSlice_eq_io] using h
  simp only [symTermSlice, Bool.or_eq_true, beq_iff_eq] at this
  rcases this with ((((((((rfl | rfl) | rfl) | rfl) | rfl) | rfl) | rfl) | rfl) | rfl) | rfl <;> decide

theorem isDigit_ascii {b : UInt8} (h : isDigit b = true) : b < 0x80 := by
  simp only [isDigit, Bool.and_eq_true, decide_eq_true_eq, UInt8.le_iff_toNat_le,
    UInt8.lt_iff_toNat_lt] at h ⊢
  simp at h ⊢; omega

theorem isAsciiAlpha_ascii {b : UInt8} (h : isAsciiAlpha b = true) : b < 0x80 := by
  simp only [isAsciiAlpha, Bool.and_eq_true, Bool.or_eq_true, decide_eq_true_eq,
    UInt8.le_iff_toNat_le, UInt8.lt_iff_toNat_lt] at h ⊢
  simp at h ⊢; omega

theorem isSymbolExtended_ascii {b : UInt8} (h : isSymbolExtended b = true) : b < 0x80 := by
  simp only [isSymbolExtended, Bool.or_eq_true, beq_iff_eq] at h
  rcases h with (((((((((((((((rfl | rfl) | rfl) | rfl) | rfl) | rfl) | rfl) | rfl) | rfl) | rfl) | rfl) | rfl) | rfl) | rfl) | rfl) | rfl) <;> decide

theorem hexVal_ascii {b : UInt8} {v : Nat} (h : hexVal b = some v) : b < 0x80 := by
  unfold hexVal at h
  repeat' split at h
  all_goals first | cases h | skip
  all_goals rename_i hc
  all_goals
    simp only [Bool.and_eq_true, decide_eq_true_eq, UInt8.le_iff_toNat_le, UInt8.lt_iff_toNat_lt] at hc ⊢
  all_goals (simp at hc ⊢; omega)

theorem valid_single {b : UInt8} (h : b < 0x80) : valid [b] = true := by
  simp [valid, Utf8.run, Utf8.step_idle_ascii h]

theorem valid_cons_ascii {b : UInt8} {l : List UInt8} (h : b < 0x80) (hl : valid l = true) :
    valid (b :: l) = true := Utf8.valid_append (a := [b]) (valid_single h) hl

theorem valid_snoc_ascii {b : UInt8} {l : List UInt8} (h : b < 0x80) (hl : valid l = true) :
    valid (l ++ [b]) = true := Utf8.valid_append hl (valid_single h)

/-- the symbol scanner stops at a character boundary -/
theorem valid_take_symLen {m : Mode} {l : List UInt8} (h : valid l = true) :
    valid (l.take (symLen m l)) = true := by
  apply (Utf8.valid_take (symLen m l) h ?_).1
  intro b hb
  have : symTerm m b = true := by
    clear h
    induction l with
    | nil => simp [symLen] at hb
    | cons x xs ih =>
      simp only [symLen] at hb
      split at hb
      · simp only [List.drop_zero, List.head?_cons, Option.some.injEq] at hb; subst hb; assumption
      · simp only [List.drop_succ_cons] at hb; exact ih hb
  exact Utf8.ascii_noncont (symTerm_ascii this)

/-! ### the two unchecked conversions -/

/-- `parse_symbol` on a `&str` and on the same bytes as a slice, at a character boundary and
    with a well-formed prefix in `scratch` -/
theorem HR.parseSymbolBytes {r0 scratch : List UInt8} (hs : valid scratch = true)
    (hr : valid r0 = true) :
    HR r0 (parseSymbolBytes scratch) (parseSymbolBytes scratch) (fun _ _ => True) := by
  constructor; intro s t h hr0
  unfold Parse.parseSymbolBytes
  simp only [P.run_bind, Parse.getRest, Parse.getMode, Parse.consumeN]
  rw [h.rest, h.smode, h.mode, hr0, symLen_mode .str .slice]
  have h1 := h.consume (symLen .slice r0)
  have hp := PStr.peek.app _ _ h1
  revert hp
  generalize Parse.peek { rd := s.rd.consume (symLen Mode.slice r0), depth := s.depth } = p₁
  generalize Parse.peek { rd := t.rd.consume (symLen Mode.slice r0), depth := t.depth } = p₂
  intro hp
  have hv : valid (scratch ++ r0.take (symLen .slice r0)) = true :=
    Utf8.valid_append hs (valid_take_symLen hr)
  cases p₁ <;> cases p₂ <;> simp only [ResRel] at hp <;> try (exact hp.elim)
  · obtain ⟨rfl, hp⟩ := hp
    simp only [hv, mode_slice_ne_str, show (Mode.str == Mode.str) = true from rfl, if_true,
      Bool.false_eq_true, if_false]
    split
    · exact HR.weaken_res ((PStr.errAt (α := List UInt8) (invalidDot _)).app _ _ hp)
    · exact ⟨rfl, hp, trivial⟩
  all_goals first | exact hp | exact trivial


theorem HR.finishStr {r0 bytes : List UInt8} (checked : Bool) (hv : valid bytes = true) :
    HR r0 (finishStr checked bytes) (finishStr checked bytes) (fun _ _ => True) := by
  constructor; intro s t h hr0
  unfold Parse.finishStr
  simp only [P.run_bind, Parse.getMode, hv, if_true, ite_self]
  exact ⟨rfl, h, trivial⟩

section hr2
variable {α : Type} {r0 : List UInt8}

theorem HR.errAt (c : Code) (Q : α → List UInt8 → Prop) : HR r0 (errAt c : P α) (errAt c) Q := by
  constructor; intro s t h _
  have := (PStr.errAt (α := α) c).app s t h
  exact this

theorem HR.peekErr (c : Code) (Q : α → List UInt8 → Prop) :
    HR r0 (peekErr c : P α) (peekErr c) Q := by
  constructor; intro s t h _
  have := (PStr.peekErr (α := α) c).app s t h
  exact this

theorem HR.outOfFuel (Q : α → List UInt8 → Prop) : HR r0 (outOfFuel : P α) outOfFuel Q := by
  constructor; intro s t h _; exact trivial

theorem HR.pure' (a : α) {Q : α → List UInt8 → Prop} (h : Q a r0) :
    HR r0 (Pure.pure a : P α) (Pure.pure a) Q :=
  (HR.pure a).weaken (by rintro _ _ ⟨rfl, rfl⟩; exact h)

/-- anything that is related on all `StrB` states, when nothing is required afterwards -/
theorem HR.gen {m₁ m₂ : P α} (hm : PStr m₁ m₂) : HR r0 m₁ m₂ (fun _ _ => True) := HR.of_PRel hm

end hr2

/-- extensible: a specification for the computation at the head of a `bind` -/
syntax "hr_spec" : tactic
macro_rules | `(tactic| hr_spec) => `(tactic| exact HR.of_PRel (by psim_lemma))
macro_rules | `(tactic| hr_spec) => `(tactic| with_reducible exact HR.peek)
macro_rules | `(tactic| hr_spec) => `(tactic| with_reducible exact HR.next)
macro_rules | `(tactic| hr_spec) => `(tactic| with_reducible exact HR.discard)
macro_rules | `(tactic| hr_spec) => `(tactic| with_reducible exact HR.consumeN _)
macro_rules | `(tactic| hr_spec) => `(tactic| with_reducible exact HR.getRest)
macro_rules | `(tactic| hr_spec) => `(tactic| with_reducible exact HR.getPos)
macro_rules | `(tactic| hr_spec) => `(tactic| with_reducible exact HR.tokenFuel)

/-- step over the first computation of a `bind` -/
macro "hbind" : tactic => `(tactic| (refine HR.bind (Q := ?Q) ?hm ?hf; case hm => hr_spec))

theorem HR.nextOrEof {r0 : List UInt8} : HR r0 nextOrEof nextOrEof (fun c r => r0 = c :: r) := by
  unfold Parse.nextOrEof
  hbind
  intro a r hq _
  cases a with
  | none => exact HR.errAt _ _
  | some b => refine HR.pure' b ?_; simpa using hq
macro_rules | `(tactic| hr_spec) => `(tactic| with_reducible exact HR.nextOrEof)

theorem HR.peekOrNull {r0 : List UInt8} :
    HR r0 peekOrNull peekOrNull (fun c r => r = r0 ∧ c = r0.head?.getD 0) := by
  unfold Parse.peekOrNull
  hbind
  rintro a r ⟨rfl, rfl⟩ _
  refine HR.pure' _ ?_; exact ⟨rfl, rfl⟩
macro_rules | `(tactic| hr_spec) => `(tactic| with_reducible exact HR.peekOrNull)

theorem HR.parseWhitespace {r0 : List UInt8} :
    HR r0 parseWhitespace parseWhitespace (fun a r => a = r.head?) := by
  unfold Parse.parseWhitespace
  hbind; rintro a r ⟨rfl, rfl⟩ _
  hbind; rintro _ r rfl _
  exact HR.peek.weaken (by rintro a r ⟨rfl, rfl⟩; rfl)
macro_rules | `(tactic| hr_spec) => `(tactic| with_reducible exact HR.parseWhitespace)


/-! ### R6RS strings -/

theorem valid_tail_ascii {b : UInt8} {l : List UInt8} (h : valid (b :: l) = true) (hb : b < 0x80) :
    valid l = true := (Bnd.of_valid h).valid_after_ascii hb

theorem ascii_of_beq {c k : UInt8} (h : (c == k) = true) (hk : k < 0x80) : c < 0x80 := by
  rw [beq_iff_eq] at h; subst h; exact hk

theorem HR.decodeR6rsHexEscape {r0 : List UInt8} (f n : Nat) (hr : valid r0 = true) :
    HR r0 (decodeR6rsHexEscape f n) (decodeR6rsHexEscape f n) (fun _ r => valid r = true) := by
  induction f generalizing n r0 with
  | zero => unfold Parse.decodeR6rsHexEscape; exact HR.outOfFuel _
  | succ f ih =>
    unfold Parse.decodeR6rsHexEscape
    hbind; intro b r hq _
    subst hq
    apply HR.ite <;> intro hc
    · exact HR.pure' _ (valid_tail_ascii hr (ascii_of_beq hc (by decide)))
    · split
      · exact HR.errAt _ _
      · rename_i v hv
        apply HR.ite <;> intro _
        · exact HR.errAt _ _
        · exact ih _ (valid_tail_ascii hr (hexVal_ascii hv))

theorem HR.parseR6rsEscape {r0 : List UInt8} (fuel : Nat) (acc : List UInt8)
    (ha : valid acc = true) (hr : valid r0 = true) :
    HR r0 (parseR6rsEscape fuel acc) (parseR6rsEscape fuel acc)
      (fun acc' r => valid acc' = true ∧ valid r = true) := by
  unfold Parse.parseR6rsEscape
  hbind; intro c r hq _
  subst hq
  repeat' (apply HR.ite <;> intro hc)
  case hb.hb.hb.hb.hb.hb.hb.hb.hb.hb.ha =>
    refine HR.bind (HR.decodeR6rsHexEscape _ _ (valid_tail_ascii hr (ascii_of_beq hc (by decide)))) ?_
    intro n r' hr' _
    apply HR.ite <;> intro hs
    · exact HR.pure' _ ⟨Utf8.valid_append ha (Utf8.valid_encode hs), hr'⟩
    · exact HR.errAt _ _
  case hb.hb.hb.hb.hb.hb.hb.hb.hb.hb.hb => exact HR.errAt _ _
  all_goals
    exact HR.pure' _ ⟨valid_snoc_ascii (by decide) ha,
      valid_tail_ascii hr (ascii_of_beq hc (by decide))⟩

/-- the accumulated bytes and the remaining input together continue well-formed text -/
def Mid (acc r : List UInt8) : Prop :=
  ∃ st : Utf8.St, st.wf ∧ Utf8.run .idle acc = some st ∧ Utf8.run st r = some .idle

theorem Mid.of_valid {acc r : List UInt8} (ha : valid acc = true) (hr : valid r = true) :
    Mid acc r := ⟨.idle, trivial, Utf8.valid_iff.1 ha, Utf8.valid_iff.1 hr⟩

theorem Mid.ascii {acc r : List UInt8} {c : UInt8} (h : Mid acc (c :: r)) (hc : c < 0x80) :
    valid acc = true ∧ valid r = true := by
  obtain ⟨st, hw, ha, hr⟩ := h
  simp only [Utf8.run] at hr
  cases hs : Utf8.step st c with
  | none => simp [hs] at hr
  | some s1 =>
    have := Utf8.step_noncont hw (Utf8.ascii_noncont hc) hs
    subst this
    rw [Utf8.step_idle_ascii hc] at hr
    exact ⟨Utf8.valid_iff.2 ha, Utf8.valid_iff.2 hr⟩

theorem Mid.snoc {acc r : List UInt8} {c : UInt8} (h : Mid acc (c :: r)) : Mid (acc ++ [c]) r := by
  obtain ⟨st, hw, ha, hr⟩ := h
  simp only [Utf8.run] at hr
  cases hs : Utf8.step st c with
  | none => simp [hs] at hr
  | some s1 =>
    rw [hs] at hr
    refine ⟨s1, Utf8.step_wf hs, ?_, hr⟩
    rw [Utf8.run_append, ha]
    simp [Utf8.run, hs]

/-- `parse_r6rs_str` on a `&str` and on a slice: the unchecked conversion of the `&str` source
    is applied to bytes that pass the check of the slice source -/
theorem HR.parseR6rsStr {r0 : List UInt8} (f : Nat) (acc : List UInt8) (h : Mid acc r0) :
    HR r0 (parseR6rsStr f acc) (parseR6rsStr f acc) (fun _ _ => True) := by
  induction f generalizing acc r0 with
  | zero => unfold Parse.parseR6rsStr; exact HR.outOfFuel _
  | succ f ih =>
    unfold Parse.parseR6rsStr
    hbind; intro c r hq _
    subst hq
    apply HR.ite <;> intro hc
    · exact HR.finishStr _ (h.ascii (ascii_of_beq hc (by decide))).1
    · apply HR.ite <;> intro hc'
      · have hv := h.ascii (ascii_of_beq hc' (by decide))
        refine HR.bind (HR.parseR6rsEscape _ _ hv.1 hv.2) ?_
        intro acc' r' hv' _
        exact ih _ (Mid.of_valid hv'.1 hv'.2)
      · exact ih _ h.snoc


/-! ### tokens -/

/-- the rest does not depend on the source -/
macro "hgen" : tactic => `(tactic| (refine HR.gen ?_; psim; done))

theorem HR.panicAt {α : Type} {r0 : List UInt8} (p : Site) (Q : α → List UInt8 → Prop) :
    HR r0 (panicAt p : P α) (Parse.panicAt p) Q := by
  constructor; intro s t h _; exact rfl

theorem HR.readCont {r0 : List UInt8} (n : Nat) (acc : List UInt8) :
    HR r0 (readCont n acc) (readCont n acc)
      (fun bytes r => ∃ tl, bytes = acc ++ tl ∧ r0 = tl ++ r) := by
  induction n generalizing acc r0 with
  | zero => unfold Parse.readCont; exact HR.pure' _ ⟨[], by simp, rfl⟩
  | succ n ih =>
    unfold Parse.readCont
    hbind; intro a r hq _
    cases a with
    | none => exact HR.errAt _ _
    | some b =>
      subst hq
      refine (ih (acc ++ [b])).weaken ?_
      rintro bytes r' ⟨tl, h1, h2⟩
      exact ⟨b :: tl, by simpa using h1, by simpa using h2⟩

theorem HR.decodeUtf8Sequence {r0 : List UInt8} (initial : UInt8) :
    HR r0 (decodeUtf8Sequence initial) (decodeUtf8Sequence initial)
      (fun p r => ∃ tl, p.2 = initial :: tl ∧ r0 = tl ++ r ∧ valid p.2 = true) := by
  unfold Parse.decodeUtf8Sequence
  dsimp only
  split
  · exact HR.errAt _ _
  · refine HR.bind (HR.readCont _ _) ?_
    rintro bytes r ⟨tl, h1, h2⟩ _
    apply HR.ite <;> intro hv
    · split
      · exact HR.pure' _ ⟨tl, by simpa using h1, h2, hv⟩
      · exact HR.panicAt _ _
    · exact HR.errAt _ _

/-- first byte of well-formed text is not a continuation byte -/
theorem valid_head_noncont {b : UInt8} {l : List UInt8} (h : valid (b :: l) = true) :
    isCont b = false := by
  cases hc : isCont b with
  | false => rfl
  | true =>
    have := Utf8.valid_iff.1 h
    simp [Utf8.run, Utf8.step_idle_cont hc] at this

theorem bnd_after_ascii {b : UInt8} {r0 r : List UInt8} (hb : Bnd r0) (hq : r0 = b :: r)
    (h : b < 0x80) : valid r = true := by
  subst hq; exact hb.valid_after_ascii h

theorem bnd_at_ascii {b : UInt8} {r0 : List UInt8} (hb : Bnd r0) (hh : r0.head? = some b)
    (h : b < 0x80) : valid r0 = true := by
  apply hb.valid_of_head
  intro b' hb'
  rw [hh] at hb'; cases hb'
  exact Utf8.ascii_noncont h

theorem HR.parseSignDotSymbol {r0 : List UInt8} (cfg : Cfg) (pfx : List UInt8)
    (hb : Bnd r0) (hh : r0.head? = some 46) (hp : valid pfx = true) :
    HR r0 (parseSignDotSymbol cfg pfx) (parseSignDotSymbol cfg pfx) (fun _ _ => True) := by
  unfold Parse.parseSignDotSymbol
  hbind; rintro _ r ⟨b, hq⟩ _
  have hb46 : b = 46 := by subst hq; simpa using hh
  have hv : valid r = true := bnd_after_ascii hb hq (by subst hb46; decide)
  hbind; rintro c r' ⟨rfl, _⟩ _
  apply HR.ite <;> intro _
  · exact HR.peekErr _ _
  · refine HR.bind (HR.parseSymbolBytes hp hv) ?_
    intro name r'' _ _
    exact HR.pure' _ trivial

theorem HR.parseSignToken {r0 : List UInt8} (cfg : Cfg) (fuel : Nat) (sign : UInt8) (pos : Bool)
    (hb : Bnd r0) (hh : r0.head? = some sign) (hs : sign < 0x80) :
    HR r0 (parseSignToken cfg fuel sign pos) (parseSignToken cfg fuel sign pos)
      (fun _ _ => True) := by
  unfold Parse.parseSignToken
  hbind; rintro _ r ⟨b, hq⟩ hbr
  have hbs : b = sign := by subst hq; simpa using hh
  have hv : valid r = true := bnd_after_ascii hb hq (by subst hbs; exact hs)
  hbind; rintro nxt r' ⟨rfl, hn⟩ _
  apply HR.ite <;> intro _
  · refine HR.bind (HR.parseSymbolBytes (valid_single hs) hv) ?_
    intro name r'' _ _
    exact HR.pure' _ trivial
  · apply HR.ite <;> intro h46
    · refine HR.parseSignDotSymbol cfg _ hbr ?_ (valid_cons_ascii hs (valid_single (by decide)))
      rw [beq_iff_eq] at h46
      subst hn
      cases hd : r'.head? with
      | none => simp [hd] at h46
      | some x => simp [hd] at h46; simp [h46]
    · hgen


theorem head_of_cons {b pk : UInt8} {r0 r : List UInt8} (hq : r0 = b :: r)
    (hh : r0.head? = some pk) : b = pk := by subst hq; simpa using hh

/-- `parse_symbol` followed by anything that does not depend on the source -/
macro "hsym" hs:term "," hv:term : tactic => `(tactic|
  (refine HR.bind (HR.parseSymbolBytes $hs $hv) ?_; intro _ _ _ _; hgen))

theorem HR.parseToken {r0 : List UInt8} (cfg : Cfg) (fuel : Nat) (pk : UInt8)
    (hb : Bnd r0) (hh : r0.head? = some pk) :
    HR r0 (parseToken cfg fuel pk) (parseToken cfg fuel pk) (fun _ _ => True) := by
  unfold Parse.parseToken
  dsimp only
  apply HR.ite <;> intro h35
  · -- `#`
    hbind; rintro _ r ⟨b, hq⟩ hbr
    hbind; intro a r' hq' _
    cases a with
    | none => exact HR.peekErr _ _
    | some c =>
      dsimp only
      have hq' : r = c :: r' := by simpa using hq'
      subst hq'
      repeat' (apply HR.ite <;> intro hc)
      all_goals first
        | hgen
        | (simp only [Bool.and_eq_true, beq_iff_eq] at hc
           have hv : valid r' = true := hbr.valid_after_ascii (by rw [hc.1]; decide)
           hsym (by decide), hv)
  apply HR.ite <;> intro h45
  · exact HR.parseSignToken cfg fuel 45 false hb (by rw [hh, beq_iff_eq.1 h45]) (by decide)
  apply HR.ite <;> intro h43
  · exact HR.parseSignToken cfg fuel 43 true hb (by rw [hh, beq_iff_eq.1 h43]) (by decide)
  apply HR.ite <;> intro hdig
  · have hv : valid r0 = true := bnd_at_ascii hb hh (isDigit_ascii hdig)
    apply HR.ite <;> intro _
    · hsym rfl, hv
    · hgen
  apply HR.ite <;> intro h34
  · -- string
    hbind; rintro _ r ⟨b, hq⟩ _
    have hv : valid r = true :=
      bnd_after_ascii hb hq (by rw [head_of_cons hq hh, beq_iff_eq.1 h34]; decide)
    split
    · refine HR.bind (HR.parseR6rsStr _ _ (Mid.of_valid rfl hv)) ?_
      intro _ _ _ _; hgen
    · hgen
  apply HR.ite <;> intro h40
  · hgen
  apply HR.ite <;> intro h91
  · hgen
  apply HR.ite <;> intro h58
  · have hpk : pk < 0x80 := by rw [beq_iff_eq.1 h58]; decide
    apply HR.ite <;> intro _
    · hbind; rintro _ r ⟨b, hq⟩ _
      have hv : valid r = true := bnd_after_ascii hb hq (by rw [head_of_cons hq hh]; exact hpk)
      hsym rfl, hv
    · hsym rfl, (bnd_at_ascii hb hh hpk)
  apply HR.ite <;> intro halpha
  · hsym rfl, (bnd_at_ascii hb hh (isAsciiAlpha_ascii halpha))
  apply HR.ite <;> intro h63
  · hgen
  apply HR.ite <;> intro h39
  · hgen
  apply HR.ite <;> intro h96
  · hgen
  apply HR.ite <;> intro h44
  · hgen
  apply HR.ite <;> intro h127
  · -- a non-ASCII character starts a symbol
    hbind; rintro _ r ⟨b, hq⟩ _
    have hbpk := head_of_cons hq hh
    subst hbpk
    refine HR.bind (HR.decodeUtf8Sequence _) ?_
    rintro ⟨c, bytes⟩ r' ⟨tl, hbytes, hcat, hvb⟩ _
    dsimp only at hbytes hcat hvb ⊢
    apply HR.ite <;> intro _
    · exact HR.peekErr _ _
    · have hv0 : valid r0 = true := by
        apply hb.valid_of_head
        intro x hx
        rw [hh] at hx; cases hx
        rw [hbytes] at hvb
        exact valid_head_noncont hvb
      have hv : valid r' = true := by
        rw [hq, hcat, ← List.cons_append, ← hbytes] at hv0
        exact Utf8.valid_of_append_left hvb hv0
      hsym hvb, hv
  apply HR.ite <;> intro hext
  · hsym rfl, (bnd_at_ascii hb hh (isSymbolExtended_ascii hext))
  · hgen


/-! ### the parser proper -/

theorem nextValue_str (cfg : Cfg) : ∀ f,
    PStr (nextValue cfg f) (nextValue cfg f) ∧
    (∀ term acc, PStr (parseList cfg f term acc) (parseList cfg f term acc)) ∧
    (∀ term acc, PStr (parseVector cfg f term acc) (parseVector cfg f term acc)) := by
  intro f
  induction f with
  | zero =>
    refine ⟨?_, ?_, ?_⟩
    · unfold nextValue; psim
    · intro term acc; unfold parseList; psim
    · intro term acc; unfold parseVector; psim
  | succ f ih =>
    obtain ⟨ihV, ihL, ihVec⟩ := ih
    refine ⟨?_, ?_, ?_⟩
    · refine HR.to_PRel (Q := fun _ _ => True) ?_
      intro r0 _
      unfold nextValue
      hbind; intro a r ha hbr
      cases a with
      | none => dsimp only; hgen
      | some pk =>
        dsimp only
        hbind; rintro tf _ rfl _
        refine HR.bind (HR.parseToken cfg tf pk hbr ha.symm) ?_
        intro tok _ _ _
        refine HR.gen ?_
        split
        · psim
        · attempt_block (ihVec _ _)
        · attempt_block (ihL _ _)
        · apply PRel.bind Prims.enter; intro _
          apply PRel.bind_attempt ihV; intro r₁ r₂ hr
          apply PRel.bind Prims.leave; intro _
          rcases ExRel.cases_eq hr with ⟨_ | a, rfl, rfl⟩ | ⟨e, e', rfl, rfl, hr⟩ <;> (try dsimp only) <;>
            first | exact PRel.errK hr | psim
        · psim
    · intro term acc
      refine HR.to_PRel (Q := fun _ _ => True) ?_
      intro r0 _
      unfold parseList
      hbind; intro a r ha hbr
      cases a with
      | none => dsimp only; exact HR.peekErr _ _
      | some c =>
        dsimp only
        apply HR.ite <;> intro _
        · hgen
        apply HR.ite <;> intro h46
        · hbind; rintro _ r1 ⟨b, hq⟩ _
          have hv : valid r1 = true :=
            bnd_after_ascii hbr hq (by rw [head_of_cons hq ha.symm, beq_iff_eq.1 h46]; decide)
          hbind; rintro nxt _ ⟨rfl, _⟩ _
          apply HR.ite <;> intro _
          · hgen
          · refine HR.bind (HR.parseSymbolBytes (by decide) hv) ?_
            intro _ _ _ _; exact HR.gen (ihL _ _)
        · hgen
    · intro term acc; unfold parseVector; psim

theorem nextDatum_str (cfg : Cfg) : ∀ f,
    PStr (nextDatum cfg f) (nextDatum cfg f) ∧
    (∀ term acc ms, PStr (parseListMeta cfg f term acc ms) (parseListMeta cfg f term acc ms)) ∧
    (∀ term acc ms, PStr (parseVectorMeta cfg f term acc ms) (parseVectorMeta cfg f term acc ms)) := by
  intro f
  induction f with
  | zero =>
    refine ⟨?_, ?_, ?_⟩
    · unfold nextDatum; psim
    · intro term acc ms; unfold parseListMeta; psim
    · intro term acc ms; unfold parseVectorMeta; psim
  | succ f ih =>
    obtain ⟨ihV, ihL, ihVec⟩ := ih
    refine ⟨?_, ?_, ?_⟩
    · refine HR.to_PRel (Q := fun _ _ => True) ?_
      intro r0 _
      unfold nextDatum
      hbind; intro a r ha hbr
      cases a with
      | none => dsimp only; hgen
      | some pk =>
        dsimp only
        hbind; rintro start _ rfl _
        hbind; rintro tf _ rfl _
        refine HR.bind (HR.parseToken cfg tf pk hbr ha.symm) ?_
        intro tok _ _ _
        refine HR.gen ?_
        split
        · psim
        · attempt_block (ihVec _ _ _)
        · attempt_block (ihL _ _ _)
        · apply PRel.bind Prims.getPos; intro tokenEnd
          apply PRel.bind Prims.enter; intro _
          apply PRel.bind_attempt ihV; intro r₁ r₂ hr
          apply PRel.bind Prims.leave; intro _
          rcases ExRel.cases_eq hr with ⟨_ | a, rfl, rfl⟩ | ⟨e, e', rfl, rfl, hr⟩ <;> (try dsimp only) <;>
            first | exact PRel.errK hr | psim
        · psim
    · intro term acc ms
      refine HR.to_PRel (Q := fun _ _ => True) ?_
      intro r0 _
      unfold parseListMeta
      hbind; intro a r ha hbr
      cases a with
      | none => dsimp only; exact HR.peekErr _ _
      | some c =>
        dsimp only
        apply HR.ite <;> intro _
        · hgen
        apply HR.ite <;> intro h46
        · hbind; rintro start _ rfl _
          hbind; rintro _ r1 ⟨b, hq⟩ _
          have hv : valid r1 = true :=
            bnd_after_ascii hbr hq (by rw [head_of_cons hq ha.symm, beq_iff_eq.1 h46]; decide)
          hbind; rintro nxt _ ⟨rfl, _⟩ _
          apply HR.ite <;> intro _
          · hgen
          · refine HR.bind (HR.parseSymbolBytes (by decide) hv) ?_
            intro _ _ _ _
            refine HR.gen ?_
            psim
        · hgen
    · intro term acc ms; unfold parseVectorMeta; psim

instance : PrimsTop StrB Eq where
  nextValue := fun cfg f => (nextValue_str cfg f).1
  nextDatum := fun cfg f => (nextDatum_str cfg f).1

/-! ### statements without the auxiliary invariant -/

/-- Result equality between a `&str` parser and a slice parser: the same value, the same error
    (code *and* position), the same panic; the end states differ only in the mode tag. -/
def ResEq {α : Type} : Res α → Res α → Prop
  | .ok a s, .ok b t => a = b ∧ StrSl s t
  | .err e s, .err e' t => e = e' ∧ StrSl s t
  | .panic p, .panic q => p = q
  | .fuel, .fuel => True
  | _, _ => False

theorem ResEq.of_rel {α : Type} {r₁ r₂ : Res α} (h : ResRel StrB Eq Eq r₁ r₂) : ResEq r₁ r₂ := by
  revert h
  cases r₁ <;> cases r₂ <;> simp only [ResRel, ResEq] <;> intro h <;>
    first | exact h.elim | exact ⟨h.1, h.2.toStrSl⟩ | exact h

theorem StrB.of_valid {s t : St} (h : StrSl s t) (hv : Utf8.valid s.rd.rest = true) : StrB s t :=
  ⟨h, Utf8.Bnd.of_valid (h.rest ▸ hv)⟩

theorem ItemRel.eq {i j : Item} (h : ItemRel Eq i j) : i = j := by
  cases i <;> cases j <;> simp only [ItemRel] at h <;> first | exact h.elim | (subst h; rfl) | rfl

theorem HistRel.eq {l₁ l₂ : List Item} (h : HistRel Eq l₁ l₂) : l₁ = l₂ := by
  induction h with
  | nil => rfl
  | cons hi _ ih => rw [hi.eq, ih]

end Parse
end Lexpr
