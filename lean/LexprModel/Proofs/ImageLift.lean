/-
  ImageLift — C13, the image of the parser: from tokens to values.

  `AllAtoms A v`: every atom leaf of `v` (through car, cdr and vector elements; `()` is not an
  atom) satisfies `A`.  `nextValue_img`: whatever `next_value` returns from a source that validates
  text has all its atoms in `AtomImg cfg` (the value form of `TokImg`), and its nesting — one level
  per list or vector, `()` counted as a level unless the reader turns the symbol `nil` into `()` —
  is strictly below the recursion budget it was read with.
-/
import LexprModel.Proofs.ImageTok
import LexprModel.Proofs.ImageDepth
import LexprModel.Proofs.SpansInv
namespace Lexpr
namespace Parse
namespace Image
open Utf8

/-! ### predicates on all atoms of a value -/

mutual
def AllAtoms (A : Value → Prop) : Value → Prop
  | .cons a d => AllAtoms A a ∧ AllAtoms A d
  | .vector xs => AllAtomsSeq A xs
  | .null => True
  | .nil => A .nil
  | .bool b => A (.bool b)
  | .number n => A (.number n)
  | .char c => A (.char c)
  | .string x => A (.string x)
  | .symbol x => A (.symbol x)
  | .keyword x => A (.keyword x)
  | .bytes x => A (.bytes x)
def AllAtomsSeq (A : Value → Prop) : List Value → Prop
  | [] => True
  | x :: xs => AllAtoms A x ∧ AllAtomsSeq A xs
end

theorem allAtoms_append (A : Value → Prop) : ∀ (xs : List Value) (t : Value),
    AllAtomsSeq A xs → AllAtoms A t → AllAtoms A (Value.append xs t)
  | [], _, _, ht => by simpa [Value.append] using ht
  | x :: xs, t, h, ht => by
    simp only [AllAtomsSeq] at h
    simp only [Value.append, AllAtoms]
    exact ⟨h.1, allAtoms_append A xs t h.2 ht⟩

theorem allAtoms_list (A : Value → Prop) (xs : List Value) (h : AllAtomsSeq A xs) :
    AllAtoms A (Value.list xs) :=
  allAtoms_append A xs .null h (by simp only [AllAtoms])

theorem allAtomsSeq_snoc (A : Value → Prop) : ∀ (xs : List Value) (v : Value),
    AllAtomsSeq A xs → AllAtoms A v → AllAtomsSeq A (xs ++ [v])
  | [], v, _, hv => by simp only [List.nil_append, AllAtomsSeq]; exact ⟨hv, True.intro⟩
  | x :: xs, v, h, hv => by
    simp only [AllAtomsSeq] at h
    simp only [List.cons_append, AllAtomsSeq]
    exact ⟨h.1, allAtomsSeq_snoc A xs v h.2 hv⟩

mutual
theorem AllAtoms.imp {A B : Value → Prop} (hab : ∀ v, A v → B v) :
    ∀ v : Value, AllAtoms A v → AllAtoms B v
  | .cons a d, h => by
    simp only [AllAtoms] at h ⊢; exact ⟨AllAtoms.imp hab a h.1, AllAtoms.imp hab d h.2⟩
  | .vector xs, h => by simp only [AllAtoms] at h ⊢; exact AllAtomsSeq.imp hab xs h
  | .null, _ => by simp only [AllAtoms]
  | .nil, h => by simp only [AllAtoms] at h ⊢; exact hab _ h
  | .bool _, h => by simp only [AllAtoms] at h ⊢; exact hab _ h
  | .number _, h => by simp only [AllAtoms] at h ⊢; exact hab _ h
  | .char _, h => by simp only [AllAtoms] at h ⊢; exact hab _ h
  | .string _, h => by simp only [AllAtoms] at h ⊢; exact hab _ h
  | .symbol _, h => by simp only [AllAtoms] at h ⊢; exact hab _ h
  | .keyword _, h => by simp only [AllAtoms] at h ⊢; exact hab _ h
  | .bytes _, h => by simp only [AllAtoms] at h ⊢; exact hab _ h
theorem AllAtomsSeq.imp {A B : Value → Prop} (hab : ∀ v, A v → B v) :
    ∀ xs : List Value, AllAtomsSeq A xs → AllAtomsSeq B xs
  | [], _ => by simp only [AllAtomsSeq]
  | x :: xs, h => by
    simp only [AllAtomsSeq] at h ⊢
    exact ⟨AllAtoms.imp hab x h.1, AllAtomsSeq.imp hab xs h.2⟩
end

mutual
theorem AllAtoms.and {A B : Value → Prop} :
    ∀ v : Value, AllAtoms A v → AllAtoms B v → AllAtoms (fun x => A x ∧ B x) v
  | .cons a d, h, g => by
    simp only [AllAtoms] at h g ⊢; exact ⟨AllAtoms.and a h.1 g.1, AllAtoms.and d h.2 g.2⟩
  | .vector xs, h, g => by simp only [AllAtoms] at h g ⊢; exact AllAtomsSeq.and xs h g
  | .null, _, _ => by simp only [AllAtoms]
  | .nil, h, g => by simp only [AllAtoms] at h g ⊢; exact ⟨h, g⟩
  | .bool _, h, g => by simp only [AllAtoms] at h g ⊢; exact ⟨h, g⟩
  | .number _, h, g => by simp only [AllAtoms] at h g ⊢; exact ⟨h, g⟩
  | .char _, h, g => by simp only [AllAtoms] at h g ⊢; exact ⟨h, g⟩
  | .string _, h, g => by simp only [AllAtoms] at h g ⊢; exact ⟨h, g⟩
  | .symbol _, h, g => by simp only [AllAtoms] at h g ⊢; exact ⟨h, g⟩
  | .keyword _, h, g => by simp only [AllAtoms] at h g ⊢; exact ⟨h, g⟩
  | .bytes _, h, g => by simp only [AllAtoms] at h g ⊢; exact ⟨h, g⟩
theorem AllAtomsSeq.and {A B : Value → Prop} :
    ∀ xs : List Value, AllAtomsSeq A xs → AllAtomsSeq B xs →
      AllAtomsSeq (fun x => A x ∧ B x) xs
  | [], _, _ => by simp only [AllAtomsSeq]
  | x :: xs, h, g => by
    simp only [AllAtomsSeq] at h g ⊢
    exact ⟨AllAtoms.and x h.1 g.1, AllAtomsSeq.and xs h.2 g.2⟩
end

/-- the value form of `TokImg` -/
def AtomImg (cfg : Cfg) : Value → Prop
  | .symbol n => SymImg cfg n
  | .keyword n => KwImg cfg n
  | .char c => isScalar c = true
  | .string s => Utf8.valid s = true
  | .number n => NumOK n
  | _ => True

/-! ### the nesting measure -/

mutual
/-- number of `enter`s pending at the deepest point while the printed text of the value is read;
    `z` is what `()` costs -/
def nq (z : Nat) : Value → Nat
  | .cons a d => 1 + max (nq z a) (nqTail z d)
  | .vector xs => 1 + nqSeq z xs
  | .null => z
  | _ => 0
def nqTail (z : Nat) : Value → Nat
  | .cons a d => max (nq z a) (nqTail z d)
  | .vector xs => 1 + nqSeq z xs
  | _ => 0
def nqSeq (z : Nat) : List Value → Nat
  | [] => 0
  | x :: xs => max (nq z x) (nqSeq z xs)
end

/-- `()` costs a level, except where the reader also makes it from the symbol `nil` -/
def nullCost (o : Options) : Nat := if o.nil = .emptyList then 0 else 1

theorem nullCost_le (o : Options) : nullCost o ≤ 1 := by unfold nullCost; split <;> omega

theorem nq_le_tail (z : Nat) (hz : z ≤ 1) (v : Value) : nq z v ≤ 1 + nqTail z v := by
  cases v <;> simp only [nq, nqTail] <;> omega

theorem nqTail_le (z : Nat) (v : Value) : nqTail z v ≤ nq z v := by
  cases v <;> simp only [nq, nqTail] <;> omega

theorem nqTail_append (z : Nat) (D : Nat) : ∀ (acc : List Value) (t : Value),
    (∀ x ∈ acc, nq z x < D) → nqTail z t < D → nqTail z (Value.append acc t) < D
  | [], t, _, ht => by simpa [Value.append] using ht
  | x :: xs, t, h, ht => by
    have h1 := h x (by simp)
    have h2 := nqTail_append z D xs t (fun y hy => h y (by simp [hy])) ht
    simp only [Value.append, nqTail]
    omega

theorem nqSeq_lt (z : Nat) (D : Nat) (hD : 1 ≤ D) : ∀ (xs : List Value),
    (∀ x ∈ xs, nq z x < D) → nqSeq z xs < D
  | [], _ => by simp only [nqSeq]; omega
  | x :: xs, h => by
    have h1 := h x (by simp)
    have h2 := nqSeq_lt z D hD xs (fun y hy => h y (by simp [hy]))
    simp only [nqSeq]
    omega

theorem nqSeq_mem (z : Nat) : ∀ (xs : List Value) (x : Value), x ∈ xs → nq z x ≤ nqSeq z xs
  | [], _, h => by cases h
  | y :: ys, x, h => by
    simp only [nqSeq]
    rcases List.mem_cons.mp h with rfl | h
    · omega
    · have := nqSeq_mem z ys x h; omega

/-! ### atoms -/

theorem atom_img (cfg : Cfg) {tok : Token} {v : Value} (ht : TokImg cfg tok)
    (h : tok.atom = some v) :
    AllAtoms (AtomImg cfg) v ∧ nq (nullCost cfg.opts) v = 0 := by
  cases tok <;> simp only [Token.atom, Option.some.injEq] at h <;> (try cases h) <;>
    first
      | exact ⟨ht, rfl⟩
      | exact ⟨True.intro, rfl⟩
      | (refine ⟨True.intro, ?_⟩
         simp only [nq, nullCost]
         exact if_pos (show cfg.opts.nil = .emptyList from ht))

theorem symbolValue_img (cfg : Cfg) (name : List UInt8)
    (h : TokImg cfg (symbolToken cfg.opts name)) :
    AllAtoms (AtomImg cfg) (symbolValue cfg.opts name) ∧
      nq (nullCost cfg.opts) (symbolValue cfg.opts name) = 0 := by
  unfold symbolValue
  rcases ListRT.symbolToken_cases' cfg.opts name with hc | hc <;> rw [hc] at h ⊢
  · exact ⟨h, rfl⟩
  · exact ⟨h, rfl⟩

theorem dotsym_img (cfg : Cfg) {name : List UInt8} {s s' : St}
    (h : parseSymbolBytes [46] s = .ok name s') (hm : s.rd.mode ≠ .str) :
    AllAtoms (AtomImg cfg) (symbolValue cfg.opts name) ∧
      nq (nullCost cfg.opts) (symbolValue cfg.opts name) = 0 := by
  obtain ⟨body, hname, -, hnt, hdot, hv, -⟩ := psb_inv h
  have hname' : name = 46 :: body := by simpa using hname
  subst hname'
  apply symbolValue_img
  have hshape : nameShape cfg (46 :: body) = true :=
    nameShape_intro cfg 46 body (NonTerm.cons (by decide) hnt)
      (by simp [isSymbolExtended, isAsciiAlpha, hdot])
  have e : nameTok cfg.opts (46 :: body) = symbolToken cfg.opts (46 :: body) := by
    simp [nameTok, isAsciiAlpha]
  rw [← e]
  exact nameTok_img cfg _ hshape (hv hm)

theorem quote_img (cfg : Cfg) (q : Quote) : SymImg cfg q.name := by
  have hv : Utf8.valid q.name = true := U8.quoteName_valid q
  have key : ∀ (b : UInt8) (tl : List UInt8), q.name = b :: tl → isAsciiAlpha b = true →
      NonTerm (b :: tl) → (b :: tl).getLast? ≠ some 58 → b :: tl ≠ asc "nil" →
      b :: tl ≠ asc "t" → SymImg cfg q.name := by
    intro b tl hq ha hnt hl hn ht
    rw [hq] at hv ⊢
    refine ⟨hv, hnt, Or.inl ⟨nameShape_intro cfg b tl hnt (by simp [ha]), ?_⟩⟩
    have hl' : ¬ (cfg.opts.kwPostfix = true ∧ (b :: tl).getLast? = some 58) := fun h => hl h.2
    have hn' : ¬ (cfg.opts.nil ≠ .default ∧ b :: tl = asc "nil") := fun h => hn h.2
    have ht' : ¬ (cfg.opts.t ≠ .default ∧ b :: tl = asc "t") := fun h => ht h.2
    simp only [nameTok, ha, if_true, letterTok, hl', hn', ht', if_false]
  cases q
  · exact key 113 (asc "uote") (by decide) (by decide) (by decide) (by decide) (by decide)
      (by decide)
  · exact key 113 (asc "uasiquote") (by decide) (by decide) (by decide) (by decide) (by decide)
      (by decide)
  · exact key 117 (asc "nquote") (by decide) (by decide) (by decide) (by decide) (by decide)
      (by decide)
  · exact key 117 (asc "nquote-splicing") (by decide) (by decide) (by decide) (by decide)
      (by decide) (by decide)

/-! ### the sources that validate text -/

def NoStr (s : St) : Prop := s.rd.mode ≠ .str

instance : Spans.Stable NoStr where
  consume := by intro s n h; simpa [NoStr] using h
  peeked := by intro s b h; simpa [NoStr] using h
  depth := by intro s d h; simpa [NoStr] using h

theorem inv_ok {α : Type} {I : St → Prop} {m : P α} (hm : Spans.Inv I m) {s s' : St} {a : α}
    (h : m s = .ok a s') (hs : I s) : I s' := by
  have := hm s hs
  rw [h] at this
  exact this

/-! ### the induction over the parser -/

/-- What is proved of the three mutually recursive readers for one amount of fuel. -/
def ImgInv (cfg : Cfg) (f : Nat) : Prop :=
  (∀ {s s' : St} {v : Option Value}, nextValue cfg f s = .ok v s' → NoStr s → 1 ≤ s.depth →
      NoStr s' ∧ s'.depth = s.depth ∧
      ∀ x, v = some x → AllAtoms (AtomImg cfg) x ∧ nq (nullCost cfg.opts) x < s.depth) ∧
  (∀ {term : UInt8} {acc : List Value} {s s' : St} {v : Value},
      parseList cfg f term acc s = .ok v s' → NoStr s → 1 ≤ s.depth →
      AllAtomsSeq (AtomImg cfg) acc → (∀ x ∈ acc, nq (nullCost cfg.opts) x < s.depth) →
      NoStr s' ∧ s'.depth = s.depth ∧ AllAtoms (AtomImg cfg) v ∧
        nqTail (nullCost cfg.opts) v < s.depth) ∧
  (∀ {term : UInt8} {acc : List Value} {s s' : St} {xs : List Value},
      parseVector cfg f term acc s = .ok xs s' → NoStr s → 1 ≤ s.depth →
      AllAtomsSeq (AtomImg cfg) acc → (∀ x ∈ acc, nq (nullCost cfg.opts) x < s.depth) →
      NoStr s' ∧ s'.depth = s.depth ∧ AllAtomsSeq (AtomImg cfg) xs ∧
        ∀ x ∈ xs, nq (nullCost cfg.opts) x < s.depth)

theorem snoc_lt {z D : Nat} {acc : List Value} {v : Value}
    (h : ∀ x ∈ acc, nq z x < D) (hv : nq z v < D) : ∀ x ∈ acc ++ [v], nq z x < D := by
  intro x hx
  rw [List.mem_append, List.mem_singleton] at hx
  rcases hx with hx | rfl
  · exact h x hx
  · exact hv

theorem imgInv (cfg : Cfg) : ∀ f, ImgInv cfg f := by
  intro f
  induction f with
  | zero =>
    refine ⟨?_, ?_, ?_⟩
    · intro s s' v h; simp [nextValue, outOfFuel] at h
    · intro term acc s s' v h; simp [parseList, outOfFuel] at h
    · intro term acc s s' v h; simp [parseVector, outOfFuel] at h
  | succ f ih =>
    obtain ⟨ihV, ihL, ihX⟩ := ih
    have hz := nullCost_le cfg.opts
    refine ⟨?_, ?_, ?_⟩
    · -- next_value
      intro s s' v h hm hd
      unfold nextValue at h
      obtain ⟨a, s1, hw, h⟩ := U8.bind_ok h
      have hm1 : NoStr s1 := inv_ok Spans.parseWhitespace_inv hw hm
      have hd1 : s1.depth = s.depth := DepP.parseWhitespace.ok _ _ _ hw
      cases a with
      | none =>
        obtain ⟨rfl, rfl⟩ := U8.pure_ok h
        exact ⟨hm1, hd1, fun x hx => by cases hx⟩
      | some pk =>
        have hhead := U8.parseWhitespace_head hw
        dsimp only at h
        obtain ⟨tf, s2, htf, h⟩ := U8.bind_ok h
        rw [U8.tokenFuel_ok htf] at h
        obtain ⟨tok, s3, htok, h⟩ := U8.bind_ok h
        have himg := parseToken_img htok hhead hm1
        have hm3 : NoStr s3 := inv_ok Spans.parseToken_inv htok hm1
        have hd3 : s3.depth = s.depth := ((DepP.parseToken cfg tf pk).ok _ _ _ htok).trans hd1
        cases tok with
        | byteVecOpen close =>
          dsimp only at h
          obtain ⟨bs, s4, hbl, h⟩ := U8.bind_ok h
          obtain ⟨rfl, rfl⟩ := U8.pure_ok h
          refine ⟨inv_ok Spans.parseByteList_inv hbl hm3,
            ((DepP.parseByteList cfg tf close).ok _ _ _ hbl).trans hd3, fun x hx => ?_⟩
          cases hx
          exact ⟨True.intro, by simp only [nq]; omega⟩
        | vecOpen close =>
          dsimp only at h
          obtain ⟨_, s4, he, h⟩ := U8.bind_ok h
          obtain ⟨hr4, hd4, hd4'⟩ := enter_inv he
          have hm4 : NoStr s4 := by unfold NoStr; rw [hr4]; exact hm3
          obtain ⟨ret, s5, hat, h⟩ := U8.bind_ok h
          obtain ⟨_, s6, hl, h⟩ := U8.bind_ok h
          obtain ⟨hr6, hd6⟩ := leave_inv hl
          obtain ⟨es, s7, hes, h⟩ := U8.bind_ok h
          rcases U8.attempt_ok hat with ⟨xs, rfl, hpv⟩ | ⟨e, rfl, _⟩
          · obtain ⟨hm5, hd5, hxs, hnx⟩ := ihX hpv hm4 hd4' (by simp only [AllAtomsSeq])
              (by intro x hx; cases hx)
            have hm6 : NoStr s6 := by unfold NoStr; rw [hr6]; exact hm5
            rcases U8.attempt_ok hes with ⟨u, rfl, hend⟩ | ⟨e, rfl, _⟩
            · obtain ⟨rfl, rfl⟩ := U8.pure_ok h
              refine ⟨inv_ok Spans.endSeq_inv hend hm6, ?_, fun x hx => ?_⟩
              · have := (DepP.endSeq close).ok _ _ _ hend
                omega
              · cases hx
                refine ⟨by simp only [AllAtoms]; exact hxs, ?_⟩
                have := nqSeq_lt (nullCost cfg.opts) s4.depth hd4' xs hnx
                simp only [nq]; omega
            · exact (U8.liftExcept_error h).elim
          · cases es <;> exact (U8.liftExcept_error h).elim
        | listOpen close =>
          dsimp only at h
          obtain ⟨_, s4, he, h⟩ := U8.bind_ok h
          obtain ⟨hr4, hd4, hd4'⟩ := enter_inv he
          have hm4 : NoStr s4 := by unfold NoStr; rw [hr4]; exact hm3
          obtain ⟨ret, s5, hat, h⟩ := U8.bind_ok h
          obtain ⟨_, s6, hl, h⟩ := U8.bind_ok h
          obtain ⟨hr6, hd6⟩ := leave_inv hl
          obtain ⟨es, s7, hes, h⟩ := U8.bind_ok h
          rcases U8.attempt_ok hat with ⟨v0, rfl, hpl⟩ | ⟨e, rfl, _⟩
          · obtain ⟨hm5, hd5, hv0, hn0⟩ := ihL hpl hm4 hd4' (by simp only [AllAtomsSeq])
              (by intro x hx; cases hx)
            have hm6 : NoStr s6 := by unfold NoStr; rw [hr6]; exact hm5
            rcases U8.attempt_ok hes with ⟨u, rfl, hend⟩ | ⟨e, rfl, _⟩
            · obtain ⟨rfl, rfl⟩ := U8.pure_ok h
              refine ⟨inv_ok Spans.endSeq_inv hend hm6, ?_, fun x hx => ?_⟩
              · have := (DepP.endSeq close).ok _ _ _ hend
                omega
              · cases hx
                refine ⟨hv0, ?_⟩
                have := nq_le_tail (nullCost cfg.opts) hz v0
                omega
            · exact (U8.liftExcept_error h).elim
          · cases es <;> exact (U8.liftExcept_error h).elim
        | quotation q =>
          dsimp only at h
          obtain ⟨_, s4, he, h⟩ := U8.bind_ok h
          obtain ⟨hr4, hd4, hd4'⟩ := enter_inv he
          have hm4 : NoStr s4 := by unfold NoStr; rw [hr4]; exact hm3
          obtain ⟨ret, s5, hat, h⟩ := U8.bind_ok h
          obtain ⟨_, s6, hl, h⟩ := U8.bind_ok h
          obtain ⟨hr6, hd6⟩ := leave_inv hl
          rcases U8.attempt_ok hat with ⟨ov, rfl, hnv⟩ | ⟨e, rfl, _⟩
          · obtain ⟨hm5, hd5, hov⟩ := ihV hnv hm4 hd4'
            have hm6 : NoStr s6 := by unfold NoStr; rw [hr6]; exact hm5
            cases ov with
            | none => simp [peekErr] at h
            | some d =>
              obtain ⟨rfl, rfl⟩ := U8.pure_ok h
              refine ⟨hm6, by omega, fun x hx => ?_⟩
              cases hx
              obtain ⟨hd0, hn0⟩ := hov d rfl
              refine ⟨?_, ?_⟩
              · simp only [Value.list, Value.append, AllAtoms, and_true]
                exact ⟨quote_img cfg q, hd0⟩
              · simp only [Value.list, Value.append, nq, nqTail]
                omega
          · exact (U8.liftExcept_error h).elim
        | _ =>
          simp only [Token.atom] at h
          obtain ⟨h1, h2⟩ := U8.pure_ok h
          subst h1; subst h2
          refine ⟨hm3, hd3, fun x hx => ?_⟩
          cases hx
          obtain ⟨ha, hn⟩ := atom_img cfg himg rfl
          exact ⟨ha, by rw [hn]; omega⟩
    · -- parse_list
      intro term acc s s' v h hm hd hacc hnq
      unfold parseList at h
      obtain ⟨a, s1, hw, h⟩ := U8.bind_ok h
      have hm1 : NoStr s1 := inv_ok Spans.parseWhitespace_inv hw hm
      have hd1 : s1.depth = s.depth := DepP.parseWhitespace.ok _ _ _ hw
      cases a with
      | none => simp [peekErr] at h
      | some c =>
        dsimp only at h
        rcases U8.ite_ok h with ⟨_, h⟩ | ⟨_, h⟩
        · rcases U8.ite_ok h with ⟨_, h⟩ | ⟨_, h⟩
          · simp [peekErr] at h
          · obtain ⟨rfl, rfl⟩ := U8.pure_ok h
            exact ⟨hm1, hd1, allAtoms_list _ _ hacc,
              nqTail_append _ _ acc .null hnq (by simp only [nqTail]; omega)⟩
        rcases U8.ite_ok h with ⟨h46, h⟩ | ⟨_, h⟩
        · obtain ⟨_, s2, hdc, h⟩ := U8.bind_ok h
          have hm2 : NoStr s2 := inv_ok Spans.Inv.discard hdc hm1
          have hd2 : s2.depth = s.depth := (DepP.discard.ok _ _ _ hdc).trans hd1
          obtain ⟨nxt, s3, hp, h⟩ := U8.bind_ok h
          have hm3 : NoStr s3 := inv_ok Spans.peekOrNull_inv hp hm2
          have hd3 : s3.depth = s.depth := (DepP.peekOrNull.ok _ _ _ hp).trans hd2
          rcases U8.ite_ok h with ⟨_, h⟩ | ⟨_, h⟩
          · rcases U8.ite_ok h with ⟨_, h⟩ | ⟨_, h⟩
            · obtain ⟨a, s4, _, h⟩ := U8.bind_ok h
              cases a <;> simp [peekErr] at h
            · obtain ⟨tail, s4, ht, h⟩ := U8.bind_ok h
              obtain ⟨ov, s4', hnv, ht⟩ := U8.bind_ok ht
              obtain ⟨hm4, hd4, hov⟩ := ihV hnv hm3 (by omega)
              cases ov with
              | none => simp [peekErr] at ht
              | some v0 =>
                obtain ⟨rfl, rfl⟩ := U8.pure_ok ht
                obtain ⟨a, s5, hw5, h⟩ := U8.bind_ok h
                have hm5 : NoStr s5 := inv_ok Spans.parseWhitespace_inv hw5 hm4
                have hd5 : s5.depth = s4'.depth := DepP.parseWhitespace.ok _ _ _ hw5
                cases a with
                | none => simp [peekErr] at h
                | some c' =>
                  dsimp only at h
                  rcases U8.ite_ok h with ⟨_, h⟩ | ⟨_, h⟩
                  · obtain ⟨rfl, rfl⟩ := U8.pure_ok h
                    obtain ⟨ha0, hn0⟩ := hov v0 rfl
                    refine ⟨hm5, by omega, allAtoms_append _ _ _ hacc ha0,
                      nqTail_append _ _ acc v0 hnq ?_⟩
                    have := nqTail_le (nullCost cfg.opts) v0
                    omega
                  · simp [peekErr] at h
          · obtain ⟨name, s4, hsym, h⟩ := U8.bind_ok h
            obtain ⟨ha0, hn0⟩ := dotsym_img cfg hsym hm3
            have hm4 : NoStr s4 := inv_ok Spans.parseSymbolBytes_inv hsym hm3
            have hd4 : s4.depth = s.depth := ((DepP.parseSymbolBytes [46]).ok _ _ _ hsym).trans hd3
            obtain ⟨r1, r2, r3, r4⟩ := ihL h hm4 (by omega) (allAtomsSeq_snoc _ _ _ hacc ha0)
              (snoc_lt (by rw [hd4]; exact hnq) (by rw [hn0]; omega))
            exact ⟨r1, by omega, r3, by omega⟩
        · obtain ⟨ov, s2, hnv, h⟩ := U8.bind_ok h
          obtain ⟨hm2, hd2, hov⟩ := ihV hnv hm1 (by omega)
          cases ov with
          | none => simp [peekErr] at h
          | some v0 =>
            obtain ⟨ha0, hn0⟩ := hov v0 rfl
            dsimp only at h
            obtain ⟨r1, r2, r3, r4⟩ := ihL h hm2 (by omega) (allAtomsSeq_snoc _ _ _ hacc ha0)
              (snoc_lt (by rw [hd2, hd1]; exact hnq) (by omega))
            exact ⟨r1, by omega, r3, by omega⟩
    · -- parse_vector
      intro term acc s s' xs h hm hd hacc hnq
      unfold parseVector at h
      obtain ⟨a, s1, hw, h⟩ := U8.bind_ok h
      have hm1 : NoStr s1 := inv_ok Spans.parseWhitespace_inv hw hm
      have hd1 : s1.depth = s.depth := DepP.parseWhitespace.ok _ _ _ hw
      cases a with
      | none => simp [peekErr] at h
      | some c =>
        dsimp only at h
        rcases U8.ite_ok h with ⟨_, h⟩ | ⟨_, h⟩
        · rcases U8.ite_ok h with ⟨_, h⟩ | ⟨_, h⟩
          · simp [peekErr] at h
          · obtain ⟨rfl, rfl⟩ := U8.pure_ok h
            exact ⟨hm1, hd1, hacc, hnq⟩
        · obtain ⟨ov, s2, hnv, h⟩ := U8.bind_ok h
          obtain ⟨hm2, hd2, hov⟩ := ihV hnv hm1 (by omega)
          cases ov with
          | none => simp [peekErr] at h
          | some v0 =>
            obtain ⟨ha0, hn0⟩ := hov v0 rfl
            dsimp only at h
            obtain ⟨r1, r2, r3, r4⟩ := ihX h hm2 (by omega) (allAtomsSeq_snoc _ _ _ hacc ha0)
              (snoc_lt (by rw [hd2, hd1]; exact hnq) (by omega))
            exact ⟨r1, by omega, r3, fun x hx => by have := r4 x hx; omega⟩

/-- **The image of `next_value`.** -/
theorem nextValue_img {cfg : Cfg} {fuel : Nat} {s s' : St} {v : Value}
    (h : nextValue cfg fuel s = .ok (some v) s') (hm : s.rd.mode ≠ .str) (hd : 1 ≤ s.depth) :
    AllAtoms (AtomImg cfg) v ∧ nq (nullCost cfg.opts) v < s.depth :=
  ((imgInv cfg fuel).1 h hm hd).2.2 v rfl

/-- The atoms part needs no recursion budget: with none left, only a single token can have been
    read (every `enter` would have been a panic). -/
theorem nextValue_img_atoms {cfg : Cfg} {fuel : Nat} {s s' : St} {v : Value}
    (h : nextValue cfg fuel s = .ok (some v) s') (hm : s.rd.mode ≠ .str) :
    AllAtoms (AtomImg cfg) v := by
  by_cases hd : 1 ≤ s.depth
  · exact (nextValue_img h hm hd).1
  · have hd0 : s.depth = 0 := by omega
    cases fuel with
    | zero => simp [nextValue, outOfFuel] at h
    | succ f =>
      unfold nextValue at h
      obtain ⟨a, s1, hw, h⟩ := U8.bind_ok h
      have hm1 : NoStr s1 := inv_ok Spans.parseWhitespace_inv hw hm
      have hd1 : s1.depth = s.depth := DepP.parseWhitespace.ok _ _ _ hw
      cases a with
      | none => obtain ⟨h1, _⟩ := U8.pure_ok h; cases h1
      | some pk =>
        have hhead := U8.parseWhitespace_head hw
        dsimp only at h
        obtain ⟨tf, s2, htf, h⟩ := U8.bind_ok h
        rw [U8.tokenFuel_ok htf] at h
        obtain ⟨tok, s3, htok, h⟩ := U8.bind_ok h
        have himg := parseToken_img htok hhead hm1
        have hd3 : s3.depth = 0 := by
          rw [(DepP.parseToken cfg tf pk).ok _ _ _ htok, hd1, hd0]
        cases tok with
        | byteVecOpen close =>
          dsimp only at h
          obtain ⟨bs, s4, hbl, h⟩ := U8.bind_ok h
          obtain ⟨h1, _⟩ := U8.pure_ok h
          cases h1
          simp only [AllAtoms, AtomImg]
        | vecOpen close =>
          dsimp only at h
          obtain ⟨_, s4, he, h⟩ := U8.bind_ok h
          have := enter_inv he
          omega
        | listOpen close =>
          dsimp only at h
          obtain ⟨_, s4, he, h⟩ := U8.bind_ok h
          have := enter_inv he
          omega
        | quotation q =>
          dsimp only at h
          obtain ⟨_, s4, he, h⟩ := U8.bind_ok h
          have := enter_inv he
          omega
        | _ =>
          simp only [Token.atom] at h
          obtain ⟨h1, h2⟩ := U8.pure_ok h
          cases h1
          exact (atom_img cfg himg rfl).1

end Image
end Parse
end Lexpr
