/-
  Positions do not depend on the kind of source.

  `Same s1 s2`: two parser states with the same unread input and the same (line, column); mode,
  `peeked`, `faulty` and depth may differ.  `Rel m`: run from `Same` states, *if both runs succeed*
  they return the same value and end in `Same` states.  Every function of the model is `Rel`; the
  sources differ only in the position attached to some errors (`peek_position`), in UTF-8
  validation (`&str` skips it: an error on one side only) and in the `peeked` flag.
-/
import LexprModel.Proofs.SpansInv
namespace Lexpr
namespace Parse
namespace Spans
open Progress

/-- same unread input and same position -/
def Same (s1 s2 : St) : Prop :=
  s1.rd.rest = s2.rd.rest ∧ s1.rd.line = s2.rd.line ∧ s1.rd.col = s2.rd.col

theorem Same.position {s1 s2 : St} (h : Same s1 s2) : s1.rd.position = s2.rd.position := by
  unfold Rd.position; rw [h.2.1, h.2.2]

theorem Same.refl (s : St) : Same s s := ⟨rfl, rfl, rfl⟩

/-- relational triple on successful runs -/
def RH {α β : Type} (Pre : St → St → Prop) (m : P α) (m' : P β)
    (Post : α → St → β → St → Prop) : Prop :=
  ∀ s1 s2, Pre s1 s2 → ∀ a s1' b s2', m s1 = .ok a s1' → m' s2 = .ok b s2' → Post a s1' b s2'

/-- two programs that agree on `Same` states whenever both succeed -/
def Rel2 {α : Type} (m m' : P α) : Prop := RH Same m m' (fun a s1 b s2 => a = b ∧ Same s1 s2)

/-- `m` agrees with itself across sources -/
def Rel {α : Type} (m : P α) : Prop := Rel2 m m

/-- `m` never succeeds -/
def NeverOk {α : Type} (m : P α) : Prop := ∀ s a s', m s ≠ .ok a s'

theorem bind_ok {α β : Type} {m : P α} {f : α → P β} {s : St} {b : β} {s' : St}
    (h : (m >>= f) s = .ok b s') : ∃ a s1, m s = .ok a s1 ∧ f a s1 = .ok b s' := by
  change P.bind m f s = _ at h
  unfold P.bind at h
  cases hm : m s with
  | ok a s1 => rw [hm] at h; exact ⟨a, s1, rfl, h⟩
  | err e s1 => rw [hm] at h; cases h
  | panic p => rw [hm] at h; cases h
  | fuel => rw [hm] at h; cases h

section rules
variable {α β : Type}

theorem Rel2.bind {m m' : P α} {f f' : α → P β} (hm : Rel2 m m') (hf : ∀ a, Rel2 (f a) (f' a)) :
    Rel2 (m >>= f) (m' >>= f') := by
  intro s1 s2 hs b1 t1 b2 t2 h1 h2
  obtain ⟨a1, u1, hm1, hf1⟩ := bind_ok h1
  obtain ⟨a2, u2, hm2, hf2⟩ := bind_ok h2
  obtain ⟨rfl, hu⟩ := hm s1 s2 hs _ _ _ _ hm1 hm2
  exact hf a1 u1 u2 hu _ _ _ _ hf1 hf2

theorem Rel.bind {m : P α} {f : α → P β} (hm : Rel m) (hf : ∀ a, Rel (f a)) : Rel (m >>= f) :=
  Rel2.bind hm hf

theorem Rel2.pure {a : α} : Rel2 (Pure.pure a : P α) (Pure.pure a) := by
  intro s1 s2 hs b1 t1 b2 t2 h1 h2
  cases h1; cases h2
  exact ⟨rfl, hs⟩

theorem Rel.pure {a : α} : Rel (Pure.pure a : P α) := Rel2.pure

theorem Rel2.of_neverOk_left {m m' : P α} (h : NeverOk m) : Rel2 m m' :=
  fun s1 _ _ a t1 _ _ h1 _ => absurd h1 (h s1 a t1)

theorem Rel2.of_neverOk_right {m m' : P α} (h : NeverOk m') : Rel2 m m' :=
  fun _ s2 _ _ _ b t2 _ h2 => absurd h2 (h s2 b t2)

theorem Rel.of_neverOk {m : P α} (h : NeverOk m) : Rel m := Rel2.of_neverOk_left h

theorem NeverOk.errAt {c : Code} : NeverOk (errAt c : P α) := fun _ _ _ h => by cases h
theorem NeverOk.peekErr {c : Code} : NeverOk (peekErr c : P α) := fun _ _ _ h => by cases h
theorem NeverOk.panicAt {p : Site} : NeverOk (panicAt p : P α) := fun _ _ _ h => by cases h
theorem NeverOk.outOfFuel : NeverOk (outOfFuel : P α) := fun _ _ _ h => by cases h
theorem NeverOk.liftErr {e : Err} : NeverOk (liftExcept (.error e) : P α) :=
  fun _ _ _ h => by cases h
theorem NeverOk.rawErr {e : Err} : NeverOk (fun s' => Res.err e s' : P α) :=
  fun _ _ _ h => by cases h

theorem NeverOk.bind {m : P α} {f : α → P β} (hf : ∀ a, NeverOk (f a)) : NeverOk (m >>= f) := by
  intro s b s' h
  obtain ⟨a, s1, _, hf1⟩ := bind_ok h
  exact hf a s1 b s' hf1

theorem NeverOk.ite {c : Prop} [Decidable c] {A B : P α} (hA : NeverOk A) (hB : NeverOk B) :
    NeverOk (if c then A else B) := by
  split
  · exact hA
  · exact hB

theorem Rel.errAt {c : Code} : Rel (errAt c : P α) := Rel.of_neverOk NeverOk.errAt
theorem Rel.peekErr {c : Code} : Rel (peekErr c : P α) := Rel.of_neverOk NeverOk.peekErr
theorem Rel.panicAt {p : Site} : Rel (panicAt p : P α) := Rel.of_neverOk NeverOk.panicAt
theorem Rel.outOfFuel : Rel (outOfFuel : P α) := Rel.of_neverOk NeverOk.outOfFuel
theorem Rel.rawErr {e : Err} : Rel (fun s' => Res.err e s' : P α) :=
  Rel.of_neverOk NeverOk.rawErr
theorem Rel.liftExcept {r : Except Err α} : Rel (liftExcept r) := by
  cases r with
  | ok a => exact Rel.pure
  | error e => exact Rel.of_neverOk NeverOk.liftErr

theorem Rel2.ite {c : Prop} [Decidable c] {A B A' B' : P α} (hA : Rel2 A A') (hB : Rel2 B B') :
    Rel2 (if c then A else B) (if c then A' else B') := by
  split
  · exact hA
  · exact hB

theorem Rel.ite {c : Prop} [Decidable c] {A B : P α} (hA : Rel A) (hB : Rel B) :
    Rel (if c then A else B) := Rel2.ite hA hB

/-- a computation whose value is a function of (unread input, position) and that keeps the state -/
theorem Rel.reader {g : St → α} (hg : ∀ s1 s2, Same s1 s2 → g s1 = g s2) :
    Rel (fun s => Res.ok (g s) s : P α) := by
  intro s1 s2 hs b1 t1 b2 t2 h1 h2
  cases h1; cases h2
  exact ⟨hg s1 s2 hs, hs⟩

theorem Rel.getRest : Rel getRest := Rel.reader fun _ _ h => h.1
theorem Rel.getPos : Rel getPos := Rel.reader fun _ _ h => h.position
theorem Rel.tokenFuel : Rel tokenFuel := Rel.reader fun _ _ h => by rw [h.1]
theorem Rel.apiFuel : Rel apiFuel := Rel.reader fun _ _ h => by rw [h.1]

theorem consume_same (n : Nat) : ∀ rd1 rd2 : Rd,
    rd1.rest = rd2.rest → rd1.line = rd2.line → rd1.col = rd2.col →
    (rd1.consume n).rest = (rd2.consume n).rest ∧ (rd1.consume n).line = (rd2.consume n).line ∧
      (rd1.consume n).col = (rd2.consume n).col := by
  induction n with
  | zero => intro rd1 rd2 h1 h2 h3; exact ⟨h1, h2, h3⟩
  | succ n ih =>
    intro rd1 rd2 h1 h2 h3
    cases hr : rd2.rest with
    | nil =>
      have hr1 : rd1.rest = [] := h1.trans hr
      simp [Rd.consume, hr, hr1, h2, h3]
    | cons b bs =>
      have hr1 : rd1.rest = b :: bs := h1.trans hr
      simp only [Rd.consume, hr, hr1, h2, h3]
      exact ih _ _ rfl rfl rfl

theorem Same.consume {s1 s2 : St} (h : Same s1 s2) (n : Nat) :
    Same { s1 with rd := s1.rd.consume n } { s2 with rd := s2.rd.consume n } :=
  consume_same n _ _ h.1 h.2.1 h.2.2

theorem Rel.consumeN {n : Nat} : Rel (consumeN n) := by
  intro s1 s2 hs b1 t1 b2 t2 h1 h2
  cases h1; cases h2
  exact ⟨rfl, hs.consume n⟩

theorem Rel.peek : Rel peek := by
  intro s1 s2 hs b1 t1 b2 t2 h1 h2
  unfold Parse.peek at h1 h2
  rw [← hs.1] at h2
  cases hr : s1.rd.rest with
  | nil =>
    simp only [hr] at h1 h2
    split at h1
    · cases h1
    · split at h2
      · cases h2
      · cases h1; cases h2; exact ⟨rfl, hs⟩
  | cons b bs =>
    simp only [hr] at h1 h2
    cases h1; cases h2
    exact ⟨rfl, hr.symm.trans hs.1, hs.2.1, hs.2.2⟩

theorem Rel.next : Rel next := by
  intro s1 s2 hs b1 t1 b2 t2 h1 h2
  unfold Parse.next at h1 h2
  rw [← hs.1] at h2
  cases hr : s1.rd.rest with
  | nil =>
    simp only [hr] at h1 h2
    split at h1
    · cases h1
    · split at h2
      · cases h2
      · cases h1; cases h2; exact ⟨rfl, hs⟩
  | cons b bs =>
    simp only [hr] at h1 h2
    cases h1; cases h2
    exact ⟨rfl, hs.consume 1⟩

theorem Rel.discard : Rel discard := by
  intro s1 s2 hs b1 t1 b2 t2 h1 h2
  unfold Parse.discard at h1 h2
  rw [← hs.1] at h2
  cases hr : s1.rd.rest with
  | nil => simp only [hr] at h1; cases h1
  | cons b bs =>
    simp only [hr] at h1 h2
    cases h1; cases h2
    exact ⟨rfl, hs.consume 1⟩

theorem Rel.enter : Rel enter := by
  intro s1 s2 hs b1 t1 b2 t2 h1 h2
  unfold Parse.enter at h1 h2
  split at h1
  · cases h1
  · split at h1
    · cases h1
    · split at h2
      · cases h2
      · split at h2
        · cases h2
        · cases h1; cases h2; exact ⟨rfl, hs⟩

theorem Rel.leave : Rel leave := by
  intro s1 s2 hs b1 t1 b2 t2 h1 h2
  cases h1; cases h2
  exact ⟨rfl, hs⟩

theorem attempt_ok {m : P α} {s : St} {r : Except Err α} {s' : St}
    (h : attempt m s = .ok r s') :
    (∃ a, r = .ok a ∧ m s = .ok a s') ∨ (∃ e, r = .error e ∧ m s = .err e s') := by
  unfold Parse.attempt at h
  cases hm : m s with
  | ok a s1 => rw [hm] at h; cases h; exact Or.inl ⟨a, rfl, rfl⟩
  | err e s1 => rw [hm] at h; cases h; exact Or.inr ⟨e, rfl, rfl⟩
  | panic p => rw [hm] at h; cases h
  | fuel => rw [hm] at h; cases h

/-- `attempt m` followed by a continuation that re-raises a captured error -/
theorem Rel.bind_attempt {m : P α} {f : Except Err α → P β} (hm : Rel m)
    (hok : ∀ a, Rel (f (.ok a))) (herr : ∀ e, NeverOk (f (.error e))) :
    Rel (attempt m >>= f) := by
  intro s1 s2 hs b1 t1 b2 t2 h1 h2
  obtain ⟨r1, u1, hm1, hf1⟩ := bind_ok h1
  obtain ⟨r2, u2, hm2, hf2⟩ := bind_ok h2
  rcases attempt_ok hm1 with ⟨a1, rfl, hk1⟩ | ⟨e1, rfl, _⟩
  · rcases attempt_ok hm2 with ⟨a2, rfl, hk2⟩ | ⟨e2, rfl, _⟩
    · obtain ⟨rfl, hu⟩ := hm s1 s2 hs _ _ _ _ hk1 hk2
      exact hok a1 u1 u2 hu _ _ _ _ hf1 hf2
    · exact absurd hf2 (herr e2 _ _ _)
  · exact absurd hf1 (herr e1 _ _ _)

/-- reading the whole state is only used on a path that ends in an error -/
theorem Rel.bind_getSt {f : St → P β} (hf : ∀ s0, NeverOk (f s0)) :
    Rel ((fun s => Res.ok s s : P St) >>= f) :=
  Rel.of_neverOk (NeverOk.bind hf)

/-- the mode is read: the continuations for any two modes must agree -/
theorem Rel.bind_getMode {f : Mode → P β} (hf : ∀ m1 m2, Rel2 (f m1) (f m2)) :
    Rel (getMode >>= f) := by
  intro s1 s2 hs b1 t1 b2 t2 h1 h2
  exact hf s1.rd.mode s2.rd.mode s1 s2 hs _ _ _ _ h1 h2

end rules

syntax "rel_wp" "[" term,* "]" : tactic
macro_rules
  | `(tactic| rel_wp [$ts,*]) => `(tactic| repeat' (first
      | pi_intro
      | contradiction
      | (prog_head Pure.pure; exact Rel.pure)
      | (prog_head Lexpr.Parse.errAt; first | exact Rel.errAt | exact NeverOk.errAt)
      | (prog_head Lexpr.Parse.peekErr; first | exact Rel.peekErr | exact NeverOk.peekErr)
      | (prog_head Lexpr.Parse.panicAt; first | exact Rel.panicAt | exact NeverOk.panicAt)
      | (prog_head Lexpr.Parse.outOfFuel; exact Rel.outOfFuel)
      | (prog_head Lexpr.Parse.liftExcept; first | exact Rel.liftExcept | exact NeverOk.liftErr)
      | (prog_head Lexpr.Parse.getRest; exact Rel.getRest)
      | (prog_head Lexpr.Parse.getPos; exact Rel.getPos)
      | (prog_head Lexpr.Parse.tokenFuel; exact Rel.tokenFuel)
      | (prog_head Lexpr.Parse.apiFuel; exact Rel.apiFuel)
      | (prog_head Lexpr.Parse.peek; exact Rel.peek)
      | (prog_head Lexpr.Parse.next; exact Rel.next)
      | (prog_head Lexpr.Parse.discard; exact Rel.discard)
      | (prog_head Lexpr.Parse.consumeN; exact Rel.consumeN)
      | (prog_head Lexpr.Parse.enter; exact Rel.enter)
      | (prog_head Lexpr.Parse.leave; exact Rel.leave)
      | (prog_head Bind.bind; first
          | (prog_bind_head Lexpr.Parse.attempt; refine Rel.bind_attempt ?_ ?_ ?_)
          | (prog_bind_lam; refine Rel.bind_getSt ?_)
          | refine Rel.bind ?_ ?_
          | refine NeverOk.bind ?_)
      | (prog_head ite; first | refine Rel.ite ?_ ?_ | refine NeverOk.ite ?_ ?_)
      | (prog_lam; first | exact Rel.rawErr | exact NeverOk.rawErr)
      $[| exact_call $ts]*
      | split
      | dsimp only))

theorem symLen_mode (m : Mode) (l : List UInt8) : symLen m l = symLen .slice l := by
  induction l with
  | nil => rfl
  | cons b bs ih => simp only [symLen, symTerm_eq, ih]

theorem parseWhitespace_rel : Rel parseWhitespace := by
  unfold parseWhitespace; rel_wp []

theorem peekOrNull_rel : Rel peekOrNull := by
  unfold peekOrNull; rel_wp []

theorem nextOrNull_rel : Rel nextOrNull := by
  unfold nextOrNull; rel_wp []

/-- the leaves of `parseSymbolBytes` / `finishStr`: the same value or an error -/
macro "leaves" : tactic => `(tactic| repeat' (first
  | exact Rel2.pure
  | exact Rel2.of_neverOk_left NeverOk.errAt
  | exact Rel2.of_neverOk_right NeverOk.errAt
  | split))

theorem parseSymbolBytes_rel {scratch : List UInt8} : Rel (parseSymbolBytes scratch) := by
  unfold parseSymbolBytes
  refine Rel.bind Rel.getRest fun rest => ?_
  refine Rel.bind_getMode fun m1 m2 => ?_
  dsimp only
  rw [symLen_mode m1, symLen_mode m2]
  refine Rel2.bind Rel.consumeN fun _ => ?_
  refine Rel2.bind Rel.peek fun nxt => ?_
  leaves

theorem finishStr_rel {c : Bool} {bs : List UInt8} : Rel (finishStr c bs) := by
  unfold finishStr
  refine Rel.bind_getMode fun m1 m2 => ?_
  leaves

theorem nextOrEof_rel : Rel nextOrEof := by
  unfold nextOrEof; rel_wp []

theorem nextOrEofChar_rel : Rel nextOrEofChar := by
  unfold nextOrEofChar; rel_wp []

theorem readCont_rel {n : Nat} {acc : List UInt8} : Rel (readCont n acc) := by
  induction n generalizing acc with
  | zero => unfold readCont; rel_wp []
  | succ n ih => unfold readCont; rel_wp [ih]

theorem decodeUtf8Sequence_rel {b : UInt8} : Rel (decodeUtf8Sequence b) := by
  unfold decodeUtf8Sequence; rel_wp [readCont_rel]

theorem decodeR6rsHexEscape_rel {fuel n : Nat} : Rel (decodeR6rsHexEscape fuel n) := by
  induction fuel generalizing n with
  | zero => unfold decodeR6rsHexEscape; rel_wp []
  | succ f ih => unfold decodeR6rsHexEscape; rel_wp [nextOrEof_rel, ih]

theorem parseR6rsEscape_rel {fuel : Nat} {acc : List UInt8} : Rel (parseR6rsEscape fuel acc) := by
  unfold parseR6rsEscape; rel_wp [nextOrEof_rel, decodeR6rsHexEscape_rel]

theorem parseR6rsStr_rel {fuel : Nat} {acc : List UInt8} : Rel (parseR6rsStr fuel acc) := by
  induction fuel generalizing acc with
  | zero => unfold parseR6rsStr; rel_wp []
  | succ f ih =>
    unfold parseR6rsStr; rel_wp [nextOrEof_rel, finishStr_rel, parseR6rsEscape_rel, ih]

theorem decodeElispHexEscape_rel {fuel n : Nat} : Rel (decodeElispHexEscape fuel n) := by
  induction fuel generalizing n with
  | zero => unfold decodeElispHexEscape; rel_wp []
  | succ f ih => unfold decodeElispHexEscape; rel_wp [ih]

theorem decodeElispUniEscape_rel {count n : Nat} : Rel (decodeElispUniEscape count n) := by
  induction count generalizing n with
  | zero => unfold decodeElispUniEscape; rel_wp []
  | succ f ih => unfold decodeElispUniEscape; rel_wp [nextOrEof_rel, ih]

theorem decodeElispOctalEscape_rel {fuel n : Nat} : Rel (decodeElispOctalEscape fuel n) := by
  induction fuel generalizing n with
  | zero => unfold decodeElispOctalEscape; rel_wp []
  | succ f ih => unfold decodeElispOctalEscape; rel_wp [ih]

theorem elispCharEscape_rel {acc : List UInt8} {n : Nat} : Rel (elispCharEscape acc n) := by
  unfold elispCharEscape; rel_wp []

theorem elispUniCharEscape_rel {acc : List UInt8} {n : Nat} :
    Rel (elispUniCharEscape acc n) := by
  unfold elispUniCharEscape; rel_wp []

theorem parseElispEscape_rel {fuel : Nat} {acc : List UInt8} :
    Rel (parseElispEscape fuel acc) := by
  unfold parseElispEscape
  rel_wp [nextOrEof_rel, decodeElispHexEscape_rel, decodeElispUniEscape_rel,
    decodeElispOctalEscape_rel, elispCharEscape_rel, elispUniCharEscape_rel]

theorem parseElispStr_rel {fuel : Nat} {acc : List UInt8} {ub mb na : Bool} :
    Rel (parseElispStr fuel acc ub mb na) := by
  induction fuel generalizing acc ub mb na with
  | zero => unfold parseElispStr; rel_wp []
  | succ f ih =>
    unfold parseElispStr; rel_wp [nextOrEof_rel, finishStr_rel, parseElispEscape_rel, ih]

theorem decodeR6rsCharHexEscape_rel {fuel n : Nat} {first : Bool} :
    Rel (decodeR6rsCharHexEscape fuel n first) := by
  induction fuel generalizing n first with
  | zero => unfold decodeR6rsCharHexEscape; rel_wp []
  | succ f ih => unfold decodeR6rsCharHexEscape; rel_wp [ih]

theorem parseR6rsChar_rel {fuel : Nat} : Rel (parseR6rsChar fuel) := by
  unfold parseR6rsChar
  rel_wp [nextOrEofChar_rel, decodeR6rsCharHexEscape_rel, decodeUtf8Sequence_rel]

theorem asChar_rel {n : Nat} : Rel (asChar n) := by
  unfold asChar; rel_wp []

theorem asEscapedChar_rel {n : Nat} : Rel (asEscapedChar n) := by
  unfold asEscapedChar; rel_wp [asChar_rel]

theorem decodeElispCharEscape_rel {fuel : Nat} : Rel (decodeElispCharEscape fuel) := by
  unfold decodeElispCharEscape
  rel_wp [nextOrEofChar_rel, nextOrEof_rel, decodeElispHexEscape_rel, decodeElispUniEscape_rel,
    decodeElispOctalEscape_rel, asChar_rel, asEscapedChar_rel, decodeUtf8Sequence_rel]

theorem parseElispChar_rel {fuel : Nat} : Rel (parseElispChar fuel) := by
  unfold parseElispChar
  rel_wp [decodeElispCharEscape_rel, decodeUtf8Sequence_rel]

theorem f64FromParts_rel {cfg : Cfg} {pos : Bool} {sig : Nat} {e : Int} :
    Rel (f64FromParts cfg pos sig e) := by
  unfold f64FromParts; rel_wp []

theorem skipDigits_rel : Rel skipDigits := by
  unfold skipDigits; rel_wp []

theorem parseExponentOverflow_rel {pos : Bool} {sig : Nat} {posExp : Bool} :
    Rel (parseExponentOverflow pos sig posExp) := by
  unfold parseExponentOverflow; rel_wp [skipDigits_rel]

theorem exponentLoop_rel {cfg : Cfg} {pos : Bool} {sig : Nat} {startExp : Int} {posExp : Bool}
    {fuel exp : Nat} : Rel (exponentLoop cfg pos sig startExp posExp fuel exp) := by
  induction fuel generalizing exp with
  | zero => unfold exponentLoop; rel_wp []
  | succ f ih =>
    unfold exponentLoop
    rel_wp [peekOrNull_rel, parseExponentOverflow_rel, f64FromParts_rel, ih]

theorem parseExponent_rel {cfg : Cfg} {fuel : Nat} {pos : Bool} {sig : Nat} {startExp : Int} :
    Rel (parseExponent cfg fuel pos sig startExp) := by
  unfold parseExponent; rel_wp [peekOrNull_rel, exponentLoop_rel]

theorem decimalLoop_rel {fuel sig : Nat} {exp : Int} {zeros : Nat} {any : Bool} :
    Rel (decimalLoop fuel sig exp zeros any) := by
  induction fuel generalizing sig exp zeros any with
  | zero => unfold decimalLoop; rel_wp []
  | succ f ih => unfold decimalLoop; rel_wp [peekOrNull_rel, skipDigits_rel, ih]

theorem parseDecimal_rel {cfg : Cfg} {fuel : Nat} {pos : Bool} {sig : Nat} {exp : Int} :
    Rel (parseDecimal cfg fuel pos sig exp) := by
  unfold parseDecimal
  rel_wp [peekOrNull_rel, decimalLoop_rel, parseExponent_rel, f64FromParts_rel]

theorem parseLongInteger_rel {cfg : Cfg} {radix : Nat} {pos : Bool} {sig fuel exp : Nat} :
    Rel (parseLongInteger cfg radix pos sig fuel exp) := by
  induction fuel generalizing exp with
  | zero => unfold parseLongInteger; rel_wp []
  | succ f ih =>
    unfold parseLongInteger
    generalize (2 : Nat) ^ 1024 = big
    rel_wp [peekOrNull_rel, parseDecimal_rel, parseExponent_rel, f64FromParts_rel, ih]

theorem parseNumTail_rel {cfg : Cfg} {fuel radix : Nat} {pos : Bool} {sig : Nat} :
    Rel (parseNumTail cfg fuel radix pos sig) := by
  unfold parseNumTail
  rel_wp [peekOrNull_rel, parseDecimal_rel, parseExponent_rel]

theorem numLoop_rel {cfg : Cfg} {radix : Nat} {pos : Bool} {fuel res : Nat} :
    Rel (numLoop cfg radix pos fuel res) := by
  induction fuel generalizing res with
  | zero => unfold numLoop; rel_wp []
  | succ f ih =>
    unfold numLoop
    rel_wp [peekOrNull_rel, parseNumTail_rel, parseLongInteger_rel, ih]

theorem parseNumLiteral_rel {cfg : Cfg} {fuel radix : Nat} {pos : Bool} :
    Rel (parseNumLiteral cfg fuel radix pos) := by
  unfold parseNumLiteral; rel_wp [numLoop_rel]

theorem parseRadixLiteral_rel {cfg : Cfg} {fuel radix : Nat} :
    Rel (parseRadixLiteral cfg fuel radix) := by
  unfold parseRadixLiteral; rel_wp [peekOrNull_rel, parseNumLiteral_rel]

theorem expectNumberEnd_rel {n : Number} : Rel (expectNumberEnd n) := by
  unfold expectNumberEnd; rel_wp []

theorem parseNumToken_rel {cfg : Cfg} {fuel : Nat} {pos : Bool} :
    Rel (parseNumToken cfg fuel pos) := by
  unfold parseNumToken; rel_wp [parseNumLiteral_rel, expectNumberEnd_rel]

theorem parseRadixToken_rel {cfg : Cfg} {fuel radix : Nat} :
    Rel (parseRadixToken cfg fuel radix) := by
  unfold parseRadixToken; rel_wp [parseRadixLiteral_rel, expectNumberEnd_rel]

theorem parseNumber_rel {cfg : Cfg} {fuel : Nat} : Rel (parseNumber cfg fuel) := by
  unfold parseNumber; rel_wp [peekOrNull_rel, nextOrNull_rel, parseRadixLiteral_rel]

theorem expectIdent_rel {cs : List UInt8} : Rel (expectIdent cs) := by
  induction cs with
  | nil => unfold expectIdent; rel_wp []
  | cons c cs ih => unfold expectIdent; rel_wp [ih]

theorem parseSignDotSymbol_rel {cfg : Cfg} {pfx : List UInt8} :
    Rel (parseSignDotSymbol cfg pfx) := by
  unfold parseSignDotSymbol; rel_wp [peekOrNull_rel, parseSymbolBytes_rel]

theorem parseSignToken_rel {cfg : Cfg} {fuel : Nat} {sign : UInt8} {pos : Bool} :
    Rel (parseSignToken cfg fuel sign pos) := by
  unfold parseSignToken
  rel_wp [peekOrNull_rel, parseSymbolBytes_rel, parseSignDotSymbol_rel, parseNumToken_rel]

theorem parseToken_rel {cfg : Cfg} {fuel : Nat} {pk : UInt8} : Rel (parseToken cfg fuel pk) := by
  unfold parseToken
  rel_wp [peekOrNull_rel, expectIdent_rel, parseSymbolBytes_rel, parseRadixToken_rel,
    parseR6rsChar_rel, parseSignToken_rel, parseNumToken_rel, parseR6rsStr_rel,
    parseElispStr_rel, parseElispChar_rel, decodeUtf8Sequence_rel]

theorem endSeq_rel {close : UInt8} : Rel (endSeq close) := by
  unfold endSeq; rel_wp [parseWhitespace_rel]

theorem byteListLoop_rel {cfg : Cfg} {close : UInt8} {fuel : Nat} {acc : List UInt8} :
    Rel (byteListLoop cfg close fuel acc) := by
  induction fuel generalizing acc with
  | zero => unfold byteListLoop; rel_wp []
  | succ f ih =>
    unfold byteListLoop
    rel_wp [parseWhitespace_rel, parseNumber_rel, expectNumberEnd_rel, ih]

theorem parseByteList_rel {cfg : Cfg} {close : UInt8} {fuel : Nat} :
    Rel (parseByteList cfg fuel close) := by
  unfold parseByteList; rel_wp [parseWhitespace_rel, byteListLoop_rel]

theorem value_rels (cfg : Cfg) : ∀ fuel : Nat,
    Rel (nextValue cfg fuel) ∧
    (∀ term acc, Rel (parseList cfg fuel term acc)) ∧
    (∀ term acc, Rel (parseVector cfg fuel term acc)) := by
  intro fuel
  induction fuel with
  | zero =>
    refine ⟨?_, ?_, ?_⟩
    · unfold nextValue; rel_wp []
    · intro term acc; unfold parseList; rel_wp []
    · intro term acc; unfold parseVector; rel_wp []
  | succ f ih =>
    refine ⟨?_, ?_, ?_⟩
    · unfold nextValue
      rel_wp [parseWhitespace_rel, parseToken_rel, parseByteList_rel, endSeq_rel, ih.1,
        ih.2.1 _ _, ih.2.2 _ _]
    · intro term acc
      unfold parseList
      rel_wp [parseWhitespace_rel, peekOrNull_rel, parseSymbolBytes_rel, ih.1, ih.2.1 _ _]
    · intro term acc
      unfold parseVector
      rel_wp [parseWhitespace_rel, ih.1, ih.2.2 _ _]

theorem datum_rels (cfg : Cfg) : ∀ fuel : Nat,
    Rel (nextDatum cfg fuel) ∧
    (∀ term acc ms, Rel (parseListMeta cfg fuel term acc ms)) ∧
    (∀ term acc ms, Rel (parseVectorMeta cfg fuel term acc ms)) := by
  intro fuel
  induction fuel with
  | zero =>
    refine ⟨?_, ?_, ?_⟩
    · unfold nextDatum; rel_wp []
    · intro term acc ms; unfold parseListMeta; rel_wp []
    · intro term acc ms; unfold parseVectorMeta; rel_wp []
  | succ f ih =>
    refine ⟨?_, ?_, ?_⟩
    · unfold nextDatum
      rel_wp [parseWhitespace_rel, parseToken_rel, parseByteList_rel, endSeq_rel, ih.1,
        ih.2.1 _ _ _, ih.2.2 _ _ _]
    · intro term acc ms
      unfold parseListMeta
      rel_wp [parseWhitespace_rel, peekOrNull_rel, parseSymbolBytes_rel, ih.1, ih.2.1 _ _ _]
    · intro term acc ms
      unfold parseVectorMeta
      rel_wp [parseWhitespace_rel, ih.1, ih.2.2 _ _ _]

theorem nextValueTop_rel {cfg : Cfg} : Rel (nextValueTop cfg) := by
  unfold nextValueTop; rel_wp [(value_rels cfg _).1]

theorem nextDatumTop_rel {cfg : Cfg} : Rel (nextDatumTop cfg) := by
  unfold nextDatumTop; rel_wp [(datum_rels cfg _).1]

theorem expectValue_rel {cfg : Cfg} : Rel (expectValue cfg) := by
  unfold expectValue; rel_wp [nextValueTop_rel]

theorem expectDatum_rel {cfg : Cfg} : Rel (expectDatum cfg) := by
  unfold expectDatum; rel_wp [nextDatumTop_rel]

theorem expectEnd_rel : Rel expectEnd := by
  unfold expectEnd; rel_wp [parseWhitespace_rel]

theorem fromTrait_rel {cfg : Cfg} : Rel (fromTrait cfg) := by
  unfold fromTrait; rel_wp [expectValue_rel, expectEnd_rel]

theorem fromTraitDatum_rel {cfg : Cfg} : Rel (fromTraitDatum cfg) := by
  unfold fromTraitDatum; rel_wp [expectDatum_rel, expectEnd_rel]


end Spans
end Parse
end Lexpr
