/-
  C08 — "a token is read as a number only if the whole token is a numeric literal", the scanners:
  whenever one of the number scanners of `parse/mod.rs` (`parse_exponent`, `parse_decimal`,
  `parse_long_integer`, `parse_num_tail`, the digit loops, `parse_num_literal`,
  `parse_radix_literal`) succeeds, the bytes it consumed (`s.rd.rest = w ++ s'.rd.rest`) have the
  corresponding shape of the C05 grammar (`Spec/NumericLiteral.lean`).  For every reader state,
  every source mode, every radix and both builds.  The token level is in `NumberWhole.lean`.
-/
import LexprModel.Spec.NumericLiteral
import LexprModel.Proofs.NumberEnd
namespace Lexpr
namespace Parse
namespace C08
open Spec

/-! ### lists -/

theorem takeWhile_split (p : UInt8 → Bool) : ∀ l : List UInt8,
    l = l.takeWhile p ++ l.drop (l.takeWhile p).length := by
  intro l
  induction l with
  | nil => rfl
  | cons x xs ih =>
    by_cases hx : p x = true
    · simp only [List.takeWhile_cons, hx, ↓reduceIte, List.length_cons, List.drop_succ_cons,
        List.cons_append]
      rw [← ih]
    · simp [hx]

theorem all_takeWhile (p : UInt8 → Bool) : ∀ l : List UInt8, (l.takeWhile p).all p = true := by
  intro l
  induction l with
  | nil => rfl
  | cons x xs ih =>
    by_cases hx : p x = true
    · simp only [List.takeWhile_cons, hx, ↓reduceIte, List.all_cons, Bool.true_and]; exact ih
    · simp [hx]

/-- a run of `p` followed by something that does not start with a `p`: `takeWhile` finds the run -/
theorem takeWhile_run (p : UInt8 → Bool) (ds t : List UInt8) (hd : ds.all p = true)
    (ht : ∀ b bs, t = b :: bs → p b = false) : (ds ++ t).takeWhile p = ds := by
  induction ds with
  | nil =>
    cases t with
    | nil => rfl
    | cons b bs => simp [ht b bs rfl]
  | cons x xs ih =>
    simp only [List.all_cons, Bool.and_eq_true] at hd
    simp only [List.cons_append, List.takeWhile_cons, hd.1, ↓reduceIte, ih hd.2]

theorem dropWhile_run (p : UInt8 → Bool) (ds t : List UInt8) (hd : ds.all p = true)
    (ht : ∀ b bs, t = b :: bs → p b = false) : (ds ++ t).dropWhile p = t := by
  induction ds with
  | nil =>
    cases t with
    | nil => rfl
    | cons b bs => simp [ht b bs rfl]
  | cons x xs ih =>
    simp only [List.all_cons, Bool.and_eq_true] at hd
    simp only [List.cons_append, List.dropWhile_cons, hd.1, ↓reduceIte, ih hd.2]

/-! ### reader steps: what a step consumes -/

theorem discard_rest {s s' : St} {u : Unit} (h : discard s = .ok u s') :
    ∃ b, s.rd.rest = b :: s'.rd.rest := by
  obtain ⟨b, tl, hr, rfl⟩ := discard_ok h
  exact ⟨b, by rw [adv_rest, hr]; rfl⟩

theorem next_rest {s s' : St} {b : UInt8} (h : next s = .ok (some b) s') :
    s.rd.rest = b :: s'.rd.rest := by
  rcases next_ok h with ⟨h1, _, _⟩ | ⟨b', tl, h1, hr, rfl⟩
  · cases h1
  · cases h1
    rw [adv_rest, hr]; rfl

/-- `peek_or_null` followed by `discard`: the discarded byte is the peeked one -/
theorem peek_discard {s s1 s2 : St} {c : UInt8} {u : Unit} (hp : peekOrNull s = .ok c s1)
    (hd : discard s1 = .ok u s2) : s.rd.rest = c :: s2.rd.rest := by
  obtain ⟨rfl, hr1, _⟩ := peekOrNull_ok hp
  obtain ⟨b, hb⟩ := discard_rest hd
  rw [← hr1, hb]
  rfl

theorem peekOrNull_rest {s s1 : St} {c : UInt8} (hp : peekOrNull s = .ok c s1) :
    s1.rd.rest = s.rd.rest ∧ c = nextByte s.rd.rest := by
  obtain ⟨h1, h2, _⟩ := peekOrNull_ok hp
  exact ⟨h2, h1⟩

theorem f64FromParts_st {cfg : Cfg} {pos : Bool} {sig : Nat} {e : Int} {s s' : St} {r : Nat}
    (h : f64FromParts cfg pos sig e s = .ok r s') : s' = s := by
  unfold f64FromParts at h
  by_cases hf : cfg.fast = true
  · simp only [hf, ↓reduceIte] at h
    cases hfp : fastParts cfg.pow10 (e.natAbs / 308 + 2) (F64.ofNat sig) e with
    | some f => rw [hfp] at h; simp only [pure_apply, Res.ok.injEq] at h; exact h.2.symm
    | none => rw [hfp] at h; simp [errAt] at h
  · simp only [hf, Bool.false_eq_true, ↓reduceIte] at h
    by_cases hi : F64.isInf (F64.rnDec sig e) = true
    · simp [hi, errAt] at h
    · simp only [hi, Bool.false_eq_true, ↓reduceIte, pure_apply, Res.ok.injEq] at h
      exact h.2.symm

/-! ### byte classes -/

theorem digit_not_sign : ∀ b : UInt8, isDigit b = true → (b == 43 || b == 45) = false := by
  apply byte_forall; decide +kernel

theorem digit_not_expMark : ∀ b : UInt8, isDigit b = true → isExpMark b = false := by
  apply byte_forall; decide +kernel

/-- the digit test of the scanners: `digit_val` finds a digit, and it is below the radix -/
def dOk (radix : Nat) (c : UInt8) : Bool :=
  match digitVal radix c with
  | some d => decide (d < radix)
  | none => false

theorem dOk_of {radix : Nat} {c : UInt8} {d : Nat} (h : digitVal radix c = some d)
    (hlt : ¬ d ≥ radix) : dOk radix c = true := by
  unfold dOk; rw [h]; simp; omega

theorem dOk_2 : ∀ b : UInt8, dOk 2 b = isRadixDigit 2 b := by apply byte_forall; decide +kernel
theorem dOk_8 : ∀ b : UInt8, dOk 8 b = isRadixDigit 8 b := by apply byte_forall; decide +kernel
theorem dOk_10 : ∀ b : UInt8, dOk 10 b = isRadixDigit 10 b := by apply byte_forall; decide +kernel
theorem dOk_16 : ∀ b : UInt8, dOk 16 b = isRadixDigit 16 b := by apply byte_forall; decide +kernel

theorem dOk_not_sign_dot_exp : ∀ b : UInt8, isRadixDigit 10 b = true →
    (b == 43 || b == 45) = false ∧ (b == 46) = false ∧ isExpMark b = false := by
  apply byte_forall; decide +kernel

theorem radixDigit_not_sign (radix : Nat) : ∀ b : UInt8, isRadixDigit radix b = true →
    (b == 43 || b == 45) = false := by
  unfold isRadixDigit
  split
  · apply byte_forall; decide +kernel
  · split
    · apply byte_forall; decide +kernel
    · split
      · apply byte_forall; decide +kernel
      · apply byte_forall; decide +kernel

/-! ### the exponent -/

theorem skipDigits_eats {s s' : St} {u : Unit} (h : skipDigits s = .ok u s') :
    ∃ w, s.rd.rest = w ++ s'.rd.rest ∧ w.all isDigit = true := by
  unfold skipDigits at h
  simp only [bind_apply, getRest_eq, consumeN_eq] at h
  cases hp : peek (s.adv (List.takeWhile isDigit s.rd.rest).length) with
  | ok o s1 =>
    rw [hp] at h
    simp only [pure_apply, Res.ok.injEq] at h
    obtain ⟨_, hr, _⟩ := peek_ok hp
    refine ⟨s.rd.rest.takeWhile isDigit, ?_, all_takeWhile _ _⟩
    rw [← h.2, hr, adv_rest]
    exact takeWhile_split _ _
  | err e s1 => rw [hp] at h; cases h
  | panic p => rw [hp] at h; cases h
  | fuel => rw [hp] at h; cases h

theorem parseExponentOverflow_eats {pos : Bool} {sig : Nat} {posExp : Bool} {s s' : St} {r : Nat}
    (h : parseExponentOverflow pos sig posExp s = .ok r s') :
    ∃ w, s.rd.rest = w ++ s'.rd.rest ∧ w.all isDigit = true := by
  unfold parseExponentOverflow at h
  split at h
  · simp [errAt] at h
  · obtain ⟨u, s1, h1, h2⟩ := bind_ok' h
    simp only [pure_apply, Res.ok.injEq] at h2
    rw [← h2.2]
    exact skipDigits_eats h1

theorem exponentLoop_eats {cfg : Cfg} {pos : Bool} {sig : Nat} {startExp : Int} {posExp : Bool} :
    ∀ (f exp : Nat) {s s' : St} {r : Nat},
      exponentLoop cfg pos sig startExp posExp f exp s = .ok r s' →
      ∃ w, s.rd.rest = w ++ s'.rd.rest ∧ w.all isDigit = true := by
  intro f
  induction f with
  | zero => intro exp s s' r h; cases h
  | succ f ih =>
    intro exp s s' r h
    unfold exponentLoop at h
    obtain ⟨c, s1, hp, h⟩ := bind_ok' h
    split at h
    · rename_i hc
      obtain ⟨u, s2, hd, h⟩ := bind_ok' h
      have hr := peek_discard hp hd
      simp only at h
      split at h
      · obtain ⟨w, hw, hall⟩ := parseExponentOverflow_eats h
        exact ⟨c :: w, by rw [hr, hw]; rfl, by simp [hc, hall]⟩
      · obtain ⟨w, hw, hall⟩ := ih _ h
        exact ⟨c :: w, by rw [hr, hw]; rfl, by simp [hc, hall]⟩
    · have := f64FromParts_st h
      subst this
      exact ⟨[], by simp [(peekOrNull_rest hp).1], rfl⟩

/-- the optional sign of the exponent / of a radix literal -/
theorem signStep_eats {s s1 s2 : St} {c : UInt8} {pe : Bool} (hp : peekOrNull s = .ok c s1)
    (h : (if c == 43 then do discard; pure true
          else if c == 45 then do discard; pure false
          else pure true : P Bool) s1 = .ok pe s2) :
    ∃ sg, s.rd.rest = sg ++ s2.rd.rest ∧ (sg = [] ∨ sg = [43] ∨ sg = [45]) := by
  split at h
  · rename_i hc
    obtain ⟨u, s3, hd, h⟩ := bind_ok' h
    simp only [pure_apply, Res.ok.injEq] at h
    have hr := peek_discard hp hd
    rw [h.2] at hr
    have : c = 43 := by simpa using hc
    subst this
    exact ⟨[43], hr, .inr (.inl rfl)⟩
  · split at h
    · rename_i _ hc
      obtain ⟨u, s3, hd, h⟩ := bind_ok' h
      simp only [pure_apply, Res.ok.injEq] at h
      have hr := peek_discard hp hd
      rw [h.2] at hr
      have : c = 45 := by simpa using hc
      subst this
      exact ⟨[45], hr, .inr (.inr rfl)⟩
    · simp only [pure_apply, Res.ok.injEq] at h
      rw [← h.2]
      exact ⟨[], by simp [(peekOrNull_rest hp).1], .inl rfl⟩

theorem signed_digits1 {sg ds : List UInt8} {d : UInt8} (hsg : sg = [] ∨ sg = [43] ∨ sg = [45])
    (hd : isDigit d = true) (hall : ds.all isDigit = true) :
    digits1 isDigit (dropSign (sg ++ d :: ds)) = true := by
  rcases hsg with rfl | rfl | rfl
  · simp [dropSign, digit_not_sign d hd, digits1, hd, hall]
  · simp [dropSign, digits1, hd, hall]
  · simp [dropSign, digits1, hd, hall]

/-- `parse_exponent` (started at the `e`): it consumes that byte, an optional sign and at least
    one digit -/
theorem parseExponent_eats {cfg : Cfg} {fuel : Nat} {pos : Bool} {sig : Nat} {se : Int} {s s' : St}
    {r : Nat} (h : parseExponent cfg fuel pos sig se s = .ok r s') :
    ∃ e w, s.rd.rest = e :: (w ++ s'.rd.rest) ∧ digits1 isDigit (dropSign w) = true := by
  unfold parseExponent at h
  obtain ⟨u, s1, hd, h⟩ := bind_ok' h
  obtain ⟨e, he⟩ := discard_rest hd
  obtain ⟨c, s2, hp, h⟩ := bind_ok' h
  obtain ⟨pe, s3, hs, h⟩ := bind_ok' h
  obtain ⟨sg, hsg, hsg'⟩ := signStep_eats hp hs
  obtain ⟨o, s4, hn, h⟩ := bind_ok' h
  cases o with
  | none => simp [errAt] at h
  | some d =>
    simp only at h
    split at h
    · rename_i hdig
      obtain ⟨ds, hds, hall⟩ := exponentLoop_eats _ _ h
      refine ⟨e, sg ++ d :: ds, ?_, signed_digits1 hsg' hdig hall⟩
      rw [he, hsg, next_rest hn, hds]
      simp
    · simp [errAt] at h

/-! ### the fraction -/

theorem decimalLoop_eats : ∀ (f sig : Nat) (exp : Int) (zeros : Nat) (any : Bool) {s s' : St}
    {r : Nat × Int × Bool}, decimalLoop f sig exp zeros any s = .ok r s' →
    ∃ w, s.rd.rest = w ++ s'.rd.rest ∧ w.all isDigit = true ∧
      (r.2.2 = true → any = true ∨ w ≠ []) := by
  intro f
  induction f with
  | zero => intro sig exp zeros any s s' r h; cases h
  | succ f ih =>
    intro sig exp zeros any s s' r h
    unfold decimalLoop at h
    obtain ⟨c, s1, hp, h⟩ := bind_ok' h
    split at h
    · rename_i hc
      obtain ⟨u, s2, hd, h⟩ := bind_ok' h
      have hr := peek_discard hp hd
      split at h
      · obtain ⟨w, hw, hall, _⟩ := ih _ _ _ _ h
        exact ⟨c :: w, by rw [hr, hw]; rfl, by simp [hc, hall], fun _ => .inr (by simp)⟩
      · rcases hsh : shiftIn sig exp zeros (c.toNat - 48) with ⟨sg1, ex1, fl⟩
        rw [hsh] at h
        cases fl with
        | true =>
          obtain ⟨u', s3, hsk, h⟩ := bind_ok' h
          simp only [pure_apply, Res.ok.injEq] at h
          obtain ⟨w, hw, hall⟩ := skipDigits_eats hsk
          rw [h.2] at hw
          exact ⟨c :: w, by rw [hr, hw]; rfl, by simp [hc, hall], fun _ => .inr (by simp)⟩
        | false =>
          obtain ⟨w, hw, hall, _⟩ := ih _ _ _ _ h
          exact ⟨c :: w, by rw [hr, hw]; rfl, by simp [hc, hall], fun _ => .inr (by simp)⟩
    · simp only [pure_apply, Res.ok.injEq] at h
      obtain ⟨rfl, rfl⟩ := h
      exact ⟨[], by simp [(peekOrNull_rest hp).1], rfl, fun ha => .inl ha⟩

/-- `parse_decimal` (started at the `.`): it consumes that byte, at least one digit, and an
    optional exponent -/
theorem parseDecimal_eats {cfg : Cfg} {fuel : Nat} {pos : Bool} {sig : Nat} {exp : Int} {s s' : St}
    {r : Nat} (h : parseDecimal cfg fuel pos sig exp s = .ok r s') :
    ∃ d fs ex, s.rd.rest = d :: (fs ++ ex ++ s'.rd.rest) ∧ digits1 isDigit fs = true ∧
      (ex = [] ∨ exponentPart ex = true) := by
  unfold parseDecimal at h
  obtain ⟨u, s1, hd, h⟩ := bind_ok' h
  obtain ⟨d, hdr⟩ := discard_rest hd
  obtain ⟨⟨sig', exp', any⟩, s2, hl, h⟩ := bind_ok' h
  obtain ⟨fs, hfs, hall, hany⟩ := decimalLoop_eats _ _ _ _ _ hl
  simp only at h
  split at h
  · obtain ⟨o, s3, _, h⟩ := bind_ok' h
    cases o <;> simp [peekErr] at h
  · rename_i hne
    have hany' : any = true := by simpa using hne
    have hfs1 : digits1 isDigit fs = true := by
      rcases hany hany' with h0 | h0
      · cases h0
      · cases fs with
        | nil => exact absurd rfl h0
        | cons x xs => simpa [digits1] using hall
    obtain ⟨c, s3, hp, h⟩ := bind_ok' h
    obtain ⟨hr3, hc⟩ := peekOrNull_rest hp
    split at h
    · rename_i hce
      obtain ⟨e, w, hw, hwd⟩ := parseExponent_eats h
      refine ⟨d, fs, e :: w, ?_, hfs1, .inr ?_⟩
      · rw [hdr, hfs, ← hr3, hw]; simp
      · rw [← hr3, hw] at hc
        have : c = e := hc
        subst this
        simp only [exponentPart, isExpMark, hce, hwd, Bool.and_self]
    · have := f64FromParts_st h
      subst this
      exact ⟨d, fs, [], by rw [hdr, hfs, hr3]; simp, hfs1, .inl rfl⟩

/-! ### what may follow the integer digits -/

/-- nothing, or (radix 10 only) a fraction and/or an exponent -/
def TailW (radix : Nat) (t : List UInt8) : Prop :=
  ∃ fr ex, t = fr ++ ex ∧ (fr = [] ∨ fractionPart fr = true) ∧
    (ex = [] ∨ exponentPart ex = true) ∧ (t ≠ [] → radix = 10)

theorem TailW.nil (radix : Nat) : TailW radix [] :=
  ⟨[], [], rfl, .inl rfl, .inl rfl, fun h => absurd rfl h⟩

/-- the bytes a successful `parse_decimal` at a `.` consumed, as a tail -/
theorem tailW_of_decimal {d : UInt8} {fs ex : List UInt8} (hd : d = 46)
    (hfs : digits1 isDigit fs = true) (hex : ex = [] ∨ exponentPart ex = true) :
    TailW 10 (d :: (fs ++ ex)) := by
  subst hd
  refine ⟨46 :: fs, ex, rfl, .inr ?_, hex, fun _ => rfl⟩
  simpa [fractionPart] using hfs

theorem tailW_of_exponent {e : UInt8} {w : List UInt8} (he : (e == 101 || e == 69) = true)
    (hw : digits1 isDigit (dropSign w) = true) : TailW 10 (e :: w) := by
  refine ⟨[], e :: w, rfl, .inl rfl, .inr ?_, fun _ => rfl⟩
  simp only [exponentPart, isExpMark, he, hw, Bool.and_self]

/-- the tail of `parse_num_tail` / `parse_long_integer` once the digits are over: shared by both -/
theorem tailArms_eats {cfg : Cfg} {fuel radix : Nat} {pos : Bool} {sig : Nat} {exp : Int}
    {s s1 s' : St} {c : UInt8} (hp : peekOrNull s = .ok c s1) :
    (∀ r, (c == 46) = true → radix = 10 → parseDecimal cfg fuel pos sig exp s1 = .ok r s' →
      ∃ t, s.rd.rest = t ++ s'.rd.rest ∧ TailW radix t) ∧
    (∀ r, (c == 101 || c == 69) = true → radix = 10 →
      parseExponent cfg fuel pos sig exp s1 = .ok r s' →
      ∃ t, s.rd.rest = t ++ s'.rd.rest ∧ TailW radix t) := by
  obtain ⟨hr1, hc⟩ := peekOrNull_rest hp
  constructor
  · intro r hc46 hrad h
    subst hrad
    obtain ⟨d, fs, ex, hw, hfs, hex⟩ := parseDecimal_eats h
    rw [hr1] at hw
    have hd : d = 46 := by
      rw [hw] at hc
      have : c = d := hc
      subst this
      simpa using hc46
    exact ⟨d :: (fs ++ ex), by rw [hw]; simp, tailW_of_decimal hd hfs hex⟩
  · intro r hce hrad h
    subst hrad
    obtain ⟨e, w, hw, hwd⟩ := parseExponent_eats h
    rw [hr1] at hw
    have he : c = e := by rw [hw] at hc; exact hc
    subst he
    exact ⟨c :: w, by rw [hw]; simp, tailW_of_exponent hce hwd⟩

theorem parseNumTail_eats {cfg : Cfg} {fuel radix : Nat} {pos : Bool} {sig : Nat} {s s' : St}
    {n : Number} (h : parseNumTail cfg fuel radix pos sig s = .ok n s') :
    ∃ t, s.rd.rest = t ++ s'.rd.rest ∧ TailW radix t := by
  unfold parseNumTail at h
  obtain ⟨c, s1, hp, h⟩ := bind_ok' h
  have harms := tailArms_eats (cfg := cfg) (fuel := fuel) (radix := radix) (pos := pos)
    (sig := sig) (exp := 0) (s' := s') hp
  have hnil : ∀ {a : Number} {x : St}, (pure a : P Number) s1 = .ok n x → x = s' →
      ∃ t, s.rd.rest = t ++ s'.rd.rest ∧ TailW radix t := by
    intro a x hx hxs
    simp only [pure_apply, Res.ok.injEq] at hx
    exact ⟨[], by rw [← hxs, ← hx.2]; simp [(peekOrNull_rest hp).1], TailW.nil _⟩
  split at h
  · rename_i hc
    split at h
    · simp [peekErr] at h
    · rename_i hrad
      obtain ⟨f, s2, hd, h⟩ := bind_ok' h
      simp only [pure_apply, Res.ok.injEq] at h
      rw [h.2] at hd
      exact harms.1 _ hc (by simpa using hrad) hd
  · split at h
    · rename_i hc
      split at h
      · simp [peekErr] at h
      · rename_i hrad
        obtain ⟨f, s2, hd, h⟩ := bind_ok' h
        simp only [pure_apply, Res.ok.injEq] at h
        rw [h.2] at hd
        exact harms.2 _ hc (by simpa using hrad) hd
    · split at h
      · exact hnil h rfl
      · simp only at h
        split at h
        · exact hnil h rfl
        · exact hnil h rfl

theorem parseLongInteger_eats {cfg : Cfg} {radix : Nat} {pos : Bool} {sig : Nat} :
    ∀ (f exp : Nat) {s s' : St} {r : Nat}, parseLongInteger cfg radix pos sig f exp s = .ok r s' →
      ∃ ds t, s.rd.rest = ds ++ t ++ s'.rd.rest ∧ ds.all (dOk radix) = true ∧ TailW radix t := by
  intro f
  induction f with
  | zero => intro exp s s' r h; cases h
  | succ f ih =>
    intro exp s s' r h
    unfold parseLongInteger at h
    obtain ⟨c, s1, hp, h⟩ := bind_ok' h
    have harms := tailArms_eats (cfg := cfg) (fuel := f + 1) (radix := radix) (pos := pos)
      (sig := sig) (exp := exp) (s' := s') hp
    cases hdv : digitVal radix c with
    | some d =>
      rw [hdv] at h
      simp only at h
      split at h
      · simp [peekErr] at h
      · rename_i hlt
        obtain ⟨u, s2, hd, h⟩ := bind_ok' h
        have hr := peek_discard hp hd
        split at h
        · cases h
        · obtain ⟨ds, t, hw, hall, ht⟩ := ih _ h
          exact ⟨c :: ds, t, by rw [hr, hw]; simp, by simp [dOk_of hdv hlt, hall], ht⟩
    | none =>
      rw [hdv] at h
      simp only at h
      split at h
      · rename_i hc
        split at h
        · simp [peekErr] at h
        · rename_i hrad
          obtain ⟨t, ht, htw⟩ := harms.1 _ hc (by simpa using hrad) h
          exact ⟨[], t, by simpa using ht, rfl, htw⟩
      · split at h
        · rename_i hc
          split at h
          · simp [peekErr] at h
          · rename_i hrad
            obtain ⟨t, ht, htw⟩ := harms.2 _ hc (by simpa using hrad) h
            exact ⟨[], t, by simpa using ht, rfl, htw⟩
        · have hst : s' = s1 := by
            split at h
            · have key : ∀ g : Nat, (if F64.isInf g = true then errAt .numberOutOfRange
                  else pure (if pos = true then g else F64.neg g) : P Nat) s1 = .ok r s' →
                  s' = s1 := by
                intro g hg
                split at hg
                · simp [errAt] at hg
                · simp only [pure_apply, Res.ok.injEq] at hg; exact hg.2.symm
              exact key _ h
            · exact f64FromParts_st h
          subst hst
          exact ⟨[], [], by simp [(peekOrNull_rest hp).1], rfl, TailW.nil _⟩

/-! ### the integer digits, the literal -/

/-- `digit(radix)+` followed by a tail -/
def BodyW (radix : Nat) (w : List UInt8) : Prop :=
  ∃ ds t, w = ds ++ t ∧ ds ≠ [] ∧ ds.all (dOk radix) = true ∧ TailW radix t

theorem numLoop_eats {cfg : Cfg} {radix : Nat} {pos : Bool} :
    ∀ (f res : Nat) {s s' : St} {n : Number}, numLoop cfg radix pos f res s = .ok n s' →
      ∃ ds t, s.rd.rest = ds ++ t ++ s'.rd.rest ∧ ds.all (dOk radix) = true ∧ TailW radix t := by
  intro f
  induction f with
  | zero => intro res s s' n h; cases h
  | succ f ih =>
    intro res s s' n h
    unfold numLoop at h
    obtain ⟨c, s1, hp, h⟩ := bind_ok' h
    cases hdv : digitVal radix c with
    | none =>
      rw [hdv] at h
      obtain ⟨t, ht, htw⟩ := parseNumTail_eats h
      exact ⟨[], t, by rw [← (peekOrNull_rest hp).1, ht]; simp, rfl, htw⟩
    | some d =>
      rw [hdv] at h
      simp only at h
      split at h
      · simp [peekErr] at h
      · rename_i hlt
        obtain ⟨u, s2, hd, h⟩ := bind_ok' h
        have hr := peek_discard hp hd
        split at h
        · obtain ⟨g, s3, hl, h⟩ := bind_ok' h
          simp only [pure_apply, Res.ok.injEq] at h
          rw [h.2] at hl
          obtain ⟨ds, t, hw, hall, ht⟩ := parseLongInteger_eats _ _ hl
          exact ⟨c :: ds, t, by rw [hr, hw]; simp, by simp [dOk_of hdv hlt, hall], ht⟩
        · obtain ⟨ds, t, hw, hall, ht⟩ := ih _ h
          exact ⟨c :: ds, t, by rw [hr, hw]; simp, by simp [dOk_of hdv hlt, hall], ht⟩

/-- `parse_num_literal`: at least one digit of the radix, then the tail -/
theorem parseNumLiteral_eats {cfg : Cfg} {fuel radix : Nat} {pos : Bool} {s s' : St} {n : Number}
    (h : parseNumLiteral cfg fuel radix pos s = .ok n s') :
    ∃ w, s.rd.rest = w ++ s'.rd.rest ∧ BodyW radix w := by
  unfold parseNumLiteral at h
  obtain ⟨o, s1, hn, h⟩ := bind_ok' h
  cases o with
  | none => simp [peekErr] at h
  | some c =>
    simp only at h
    cases hdv : digitVal radix c with
    | none => rw [hdv] at h; simp [peekErr] at h
    | some d =>
      rw [hdv] at h
      simp only at h
      split at h
      · simp [peekErr] at h
      · rename_i hlt
        obtain ⟨ds, t, hw, hall, ht⟩ := numLoop_eats _ _ h
        refine ⟨c :: ds ++ t, ?_, c :: ds, t, rfl, by simp, by simp [dOk_of hdv hlt, hall], ht⟩
        rw [next_rest hn, hw]; simp

/-- `parse_radix_literal`: an optional sign and the literal -/
theorem parseRadixLiteral_eats {cfg : Cfg} {fuel radix : Nat} {s s' : St} {n : Number}
    (h : parseRadixLiteral cfg fuel radix s = .ok n s') :
    ∃ sg w, s.rd.rest = sg ++ w ++ s'.rd.rest ∧ (sg = [] ∨ sg = [43] ∨ sg = [45]) ∧
      BodyW radix w := by
  unfold parseRadixLiteral at h
  obtain ⟨c, s1, hp, h⟩ := bind_ok' h
  split at h
  · rename_i hc
    obtain ⟨u, s2, hd, h⟩ := bind_ok' h
    have hr := peek_discard hp hd
    have : c = 45 := by simpa using hc
    subst this
    obtain ⟨w, hw, hb⟩ := parseNumLiteral_eats h
    exact ⟨[45], w, by rw [hr, hw]; rfl, .inr (.inr rfl), hb⟩
  · split at h
    · rename_i hc
      obtain ⟨u, s2, hd, h⟩ := bind_ok' h
      have hr := peek_discard hp hd
      have : c = 43 := by simpa using hc
      subst this
      obtain ⟨w, hw, hb⟩ := parseNumLiteral_eats h
      exact ⟨[43], w, by rw [hr, hw]; rfl, .inr (.inl rfl), hb⟩
    · obtain ⟨w, hw, hb⟩ := parseNumLiteral_eats h
      exact ⟨[], w, by rw [← (peekOrNull_rest hp).1, hw]; rfl, .inl rfl, hb⟩

end C08
end Parse
end Lexpr
