/-
  Truncation (C19): the lexer, part 1 (tactics, strings, escapes, characters).
-/
import LexprModel.Proofs.TruncBase
set_option linter.unusedSimpArgs false
namespace Lexpr
namespace Parse
namespace Trunc
open PrefixDet (Sim ext Scanner digitsLen scan ext_rest ext_consume)

/-! ### tactics -/

open Lean Elab Tactic Meta in
/-- succeed iff the goal is syntactically a `∀` / `→` -/
elab "tguard_pi" : tactic => do
  let g := (← instantiateMVars (← getMainTarget)).cleanupAnnotations
  unless g.isForall do throwError "not a pi"

open Lean Elab Tactic Meta in
/-- succeed iff the goal is a `TS` goal -/
elab "tguard_ts" : tactic => do
  let g := (← instantiateMVars (← getMainTarget)).cleanupAnnotations
  unless g.getAppFn.isConstOf ``TS do throwError "not a TS goal"

open Lean Elab Tactic Meta in
/-- succeed iff the goal is a `TE` goal -/
elab "tguard_te" : tactic => do
  let g := (← instantiateMVars (← getMainTarget)).cleanupAnnotations
  unless g.getAppFn.isConstOf ``TE do throwError "not a TE goal"

open Lean Elab Tactic Meta in
/-- succeed iff the goal is `TS _ _ (c .. >>= f) ..` with head constant `c` -/
elab "tguard_bind_head " id:ident : tactic => do
  let g := (← instantiateMVars (← getMainTarget)).cleanupAnnotations
  unless g.getAppFn.isConstOf ``TS do throwError "not a TS goal"
  let r := g.getAppArgs[3]!
  unless r.getAppFn.isConstOf ``Bind.bind && r.getAppNumArgs == 6 do throwError "not a bind"
  let m := r.getAppArgs[4]!
  unless m.getAppFn.isConstOf id.getId.eraseMacroScopes do throwError "head mismatch"

open Lean Elab Tactic Meta in
/-- succeed iff the goal is `TE _ _ (c .. >>= f) ..` with head constant `c` -/
elab "teguard_bind_head " id:ident : tactic => do
  let g := (← instantiateMVars (← getMainTarget)).cleanupAnnotations
  unless g.getAppFn.isConstOf ``TE do throwError "not a TE goal"
  let r := g.getAppArgs[3]!
  unless r.getAppFn.isConstOf ``Bind.bind && r.getAppNumArgs == 6 do throwError "not a bind"
  let m := r.getAppArgs[4]!
  unless m.getAppFn.isConstOf id.getId.eraseMacroScopes do throwError "head mismatch"

open Lean Elab Tactic Meta in
/-- succeed iff the goal is `TS _ _ (c ..) ..` with head constant `c` -/
elab "tguard_head " id:ident : tactic => do
  let g := (← instantiateMVars (← getMainTarget)).cleanupAnnotations
  unless g.getAppFn.isConstOf ``TS do throwError "not a TS goal"
  let r := g.getAppArgs[3]!
  unless r.getAppFn.isConstOf id.getId.eraseMacroScopes do throwError "head mismatch"

open Lean Elab Tactic Meta in
/-- succeed iff the goal is `TS _ _ prog ..` where `prog` is an application of a constant that is
    not structural -/
elab "tguard_call" : tactic => do
  let g := (← instantiateMVars (← getMainTarget)).cleanupAnnotations
  unless g.getAppFn.isConstOf ``TS do throwError "not a TS goal"
  let r := g.getAppArgs[3]!
  match r.getAppFn with
  | .const n _ =>
    if n == ``Bind.bind || n == ``ite || n == ``Pure.pure then throwError "structural"
    if (← isMatcher n) then throwError "matcher"
  | _ => throwError "not a constant application"

open Lean Elab Tactic Meta in
/-- succeed iff the goal is `TS _ _ (m >>= f) ..` where `m` is an application of a constant that
    is not structural -/
elab "tguard_bind_call" : tactic => do
  let g := (← instantiateMVars (← getMainTarget)).cleanupAnnotations
  unless g.getAppFn.isConstOf ``TS do throwError "not a TS goal"
  let r := g.getAppArgs[3]!
  unless r.getAppFn.isConstOf ``Bind.bind && r.getAppNumArgs == 6 do throwError "not a bind"
  let m := r.getAppArgs[4]!
  match m.getAppFn with
  | .const n _ =>
    if n == ``Bind.bind || n == ``ite || n == ``Pure.pure then throwError "structural"
    if (← isMatcher n) then throwError "matcher"
  | _ => throwError "not a constant application"

/-- `tsim hq [in-step lemmas (QF)] [lemmas with a diverged result]`: follow the structure of the
    program on `TS` goals; `TE` goals (the truncated run has seen the end of its input) are left. -/
syntax "tsim" term:max "[" term,* "]" "[" term,* "]" : tactic
macro_rules
  | `(tactic| tsim $hq [$ts,*] [$us,*]) => `(tactic| repeat' (first
      | (tguard_pi; intro _)
      | (tguard_head Pure.pure; exact TS.pure)
      | (tguard_head Lexpr.Parse.errAt; exact TS.errAt)
      | (tguard_head Lexpr.Parse.peekErr; exact TS.peekErr)
      | (tguard_head Lexpr.Parse.panicAt; exact TS.panicAt)
      | (tguard_head Lexpr.Parse.outOfFuel; exact TS.outOfFuel)
      | (tguard_head Lexpr.Parse.liftExcept; exact TS.liftExcept)
      | (tguard_head ite; refine TS.ite ?_ ?_)
      | (tguard_head Lexpr.Parse.discard; first | exact discard_t | exact TS.toQT discard_t)
      | (tguard_head Bind.bind; first
          | (tguard_bind_head Lexpr.Parse.peek; refine TS.bind_peek $hq ?_ ?_)
          | (tguard_bind_head Lexpr.Parse.next; refine TS.bind_next $hq ?_ ?_)
          | (tguard_bind_head Lexpr.Parse.peekOrNull; refine TS.bind_peekOrNull $hq ?_ ?_)
          | (tguard_bind_head Lexpr.Parse.discard; refine TS.bindF discard_t ?_)
          | (tguard_bind_head Lexpr.Parse.getMode; refine TS.bindF getMode_t ?_)
          | (tguard_bind_head Lexpr.Parse.getPos; refine TS.bindF getPos_t ?_)
          | (tguard_bind_head Lexpr.Parse.enter; refine TS.bindF enter_t ?_)
          | (tguard_bind_head Lexpr.Parse.leave; refine TS.bindF leave_t ?_)
          | (tguard_bind_head Pure.pure; refine TS.pure_bind ?_)
          | (tguard_bind_head Bind.bind; simp only [bind_assoc'])
          | (tguard_bind_head Lexpr.Parse.getRest; first
              | fail
              $[| exact $us]*
              $[| exact TS.toQT $us]*)
          | (tguard_bind_call; first
              | fail
              $[| (refine TS.bindF $ts ?_)]*
              $[| (refine TS.bindF ($ts (by omega)) ?_)]*
              $[| (refine TS.bind $us ?_ ?_)]*
              $[| (refine TS.bind ($us (by omega)) ?_ ?_)]*)
          | (first
              | fail
              $[| exact $ts]*))
      | (tguard_call; first
          | fail
          $[| exact $ts]*
          $[| exact $ts (by omega)]*
          $[| exact $us]*
          $[| exact $us (by omega)]*
          $[| exact TS.toQT $ts]*
          $[| exact TS.toQT ($ts (by omega))]*
          $[| exact TS.toQT $us]*
          $[| exact TS.toQT ($us (by omega))]*)
      | (tguard_ts; first
          | dsimp only
          | (simp only [Except.ok.injEq, Except.error.injEq, reduceCtorEq] at *; subst_vars)
          | split)))

/-- closes the requirement on a diverged result (extended in later files) -/
syntax "tq_close" : tactic
macro_rules
  | `(tactic| tq_close) => `(tactic| trivial)

/-- `tesim [EO lemmas]`: evaluate a program started without input -/
syntax "tesim" "[" term,* "]" : tactic
macro_rules
  | `(tactic| tesim [$ts,*]) => `(tactic| repeat' (first
      | (tguard_pi; intro _)
      | (tguard_te; first
          | contradiction
          | (refine TE.pure (by assumption) ?_; first | trivial | assumption | tq_close)
          | exact TE.errSoft (by decide)
          | exact TE.peekErrSoft (by decide)
          | exact TE.errX (by assumption)
          | exact TE.peekErrX (by assumption)
          | exact TE.panicAt
          | exact TE.outOfFuel
          $[| exact TE.ofEO $ts (fun _ _ _ _ => trivial)]*
          $[| exact TE.ofEO ($ts (by assumption)) (fun _ _ _ _ => trivial)]*
          | (teguard_bind_head Lexpr.Parse.peek; refine TE.bind_peek (by assumption) ?_)
          | (teguard_bind_head Lexpr.Parse.next; refine TE.bind_next (by assumption) ?_)
          | (teguard_bind_head Lexpr.Parse.peekOrNull; refine TE.bind_peekOrNull (by assumption) ?_)
          | (teguard_bind_head Lexpr.Parse.discard; exact TE.bind_discard (by assumption))
          | (teguard_bind_head Lexpr.Parse.getMode; refine TE.bind_getMode ?_)
          | (teguard_bind_head Lexpr.Parse.getPos; refine TE.bind_getPos ?_)
          | (teguard_bind_head Pure.pure; refine TE.bind_pure ?_)
          $[| (refine TE.bind $ts ?_)]*
          $[| (refine TE.bind ($ts (by assumption)) ?_)]*
          | (refine TE.ite ?_ ?_)
          | dsimp only
          | split)))

section lex
variable {X : Err → Prop} {s : St} {q : List UInt8}

theorem nextOrEof_t (hq : q ≠ []) : TS X QF nextOrEof nextOrEof s q := by
  unfold nextOrEof
  tsim hq [] []
  tesim []

theorem nextOrEofChar_t (hq : q ≠ []) : TS X QF nextOrEofChar nextOrEofChar s q := by
  unfold nextOrEofChar
  tsim hq [] []
  tesim []

theorem readCont_t (hq : q ≠ []) {n : Nat} {acc : List UInt8} :
    TS X QF (readCont n acc) (readCont n acc) s q := by
  induction n generalizing acc s with
  | zero => unfold readCont; tsim hq [] []
  | succ n ih => unfold readCont; tsim hq [ih] []; tesim []

theorem decodeUtf8Sequence_t (hq : q ≠ []) {b : UInt8} :
    TS X QF (decodeUtf8Sequence b) (decodeUtf8Sequence b) s q := by
  unfold decodeUtf8Sequence
  tsim hq [readCont_t hq] []

theorem decodeR6rsHexEscape_t (hq : q ≠ []) {f f' n : Nat} (h : f ≤ f') :
    TS X QF (decodeR6rsHexEscape f n) (decodeR6rsHexEscape f' n) s q := by
  induction f generalizing f' n s with
  | zero => exact TS.fuel0 rfl
  | succ f ih =>
    obtain ⟨g, rfl⟩ : ∃ g, f' = g + 1 := ⟨f' - 1, by omega⟩
    unfold decodeR6rsHexEscape
    tsim hq [nextOrEof_t hq, ih] []

theorem parseR6rsEscape_t (hq : q ≠ []) {f f' : Nat} {acc : List UInt8} (h : f ≤ f') :
    TS X QF (parseR6rsEscape f acc) (parseR6rsEscape f' acc) s q := by
  unfold parseR6rsEscape
  tsim hq [nextOrEof_t hq, decodeR6rsHexEscape_t hq] []

theorem finishStr_t {c : Bool} {bs : List UInt8} : TS X QF (finishStr c bs) (finishStr c bs) s q := by
  unfold finishStr
  tsim (by assumption) [] []

theorem parseR6rsStr_t (hq : q ≠ []) {f f' : Nat} {acc : List UInt8} (h : f ≤ f') :
    TS X QF (parseR6rsStr f acc) (parseR6rsStr f' acc) s q := by
  induction f generalizing f' acc s with
  | zero => exact TS.fuel0 rfl
  | succ f ih =>
    obtain ⟨g, rfl⟩ : ∃ g, f' = g + 1 := ⟨f' - 1, by omega⟩
    unfold parseR6rsStr
    tsim hq [nextOrEof_t hq, finishStr_t, parseR6rsEscape_t hq, ih] []

/-- the diverged result of a digit loop: the other run, if it returns, returns at least as much -/
def QLe : Nat → St → Res Nat → Prop := fun a _ r' => ∀ a' s', r' = .ok a' s' → a ≤ a'

theorem decodeElispHexEscape_ge {f n a : Nat} {x x' : St}
    (h : decodeElispHexEscape f n x = .ok a x') : n ≤ a := by
  induction f generalizing n x with
  | zero => cases h
  | succ f ih =>
    unfold decodeElispHexEscape at h
    rw [bind_eq] at h
    cases hp : peek x with
    | ok o x1 =>
      rw [hp] at h
      simp only [rbind] at h
      cases o with
      | none => cases h; exact Nat.le_refl _
      | some c =>
        dsimp only at h
        cases hv : hexVal c with
        | none => rw [hv] at h; cases h; exact Nat.le_refl _
        | some v =>
          rw [hv] at h
          dsimp only at h
          rw [bind_eq] at h
          cases hd : discard x1 with
          | ok u x2 =>
            rw [hd] at h
            simp only [rbind] at h
            split at h
            · cases h
            · have := ih h; omega
          | err e x2 => rw [hd] at h; cases h
          | panic p => rw [hd] at h; cases h
          | fuel => rw [hd] at h; cases h
    | err e x1 => rw [hp] at h; cases h
    | panic p => rw [hp] at h; cases h
    | fuel => rw [hp] at h; cases h

theorem decodeElispHexEscape_t (hq : q ≠ []) {f f' n : Nat} (h : f ≤ f') :
    TS X QLe (decodeElispHexEscape f n) (decodeElispHexEscape f' n) s q := by
  induction f generalizing f' n s with
  | zero => exact TS.fuel0 rfl
  | succ f ih =>
    obtain ⟨g, rfl⟩ : ∃ g, f' = g + 1 := ⟨f' - 1, by omega⟩
    unfold decodeElispHexEscape
    tsim hq [] [ih]
    refine TE.pure (by assumption) ?_
    intro a' s' hr
    exact decodeElispHexEscape_ge (f := g + 1) (by unfold decodeElispHexEscape; exact hr)

theorem decodeElispUniEscape_t (hq : q ≠ []) {count n : Nat} :
    TS X QF (decodeElispUniEscape count n) (decodeElispUniEscape count n) s q := by
  induction count generalizing n s with
  | zero => unfold decodeElispUniEscape; tsim hq [] []
  | succ f ih => unfold decodeElispUniEscape; tsim hq [nextOrEof_t hq, ih] []

theorem discard_cons {b : UInt8} {t : List UInt8} (h : s.rd.rest = b :: t) :
    discard s = .ok () { s with rd := s.rd.consume 1 } := by
  unfold discard; rw [h]

theorem consume1_rest {b : UInt8} {t : List UInt8} (h : s.rd.rest = b :: t) :
    ({ s with rd := s.rd.consume 1 } : St).rd.rest = t := by
  simp [Progress.consume_rest, h]

theorem peeked_rest (s : St) :
    ({ s with rd := { s.rd with peeked := s.rd.peeked || s.rd.mode == .io } } : St).rd.rest = s.rd.rest :=
  rfl

theorem decodeElispOctalEscape_ge {f n a : Nat} {x x' : St}
    (h : decodeElispOctalEscape f n x = .ok a x') : n ≤ a := by
  induction f generalizing n x with
  | zero => cases h
  | succ f ih =>
    unfold decodeElispOctalEscape at h
    cases hr : x.rd.rest with
    | nil =>
      rw [bind_eq, peek_eof hr] at h
      split at h
      · cases h
      · cases h; exact Nat.le_refl _
    | cons b t =>
      rw [bind_eq, peek_cons hr] at h
      simp only [rbind] at h
      cases hv : octVal b with
      | none => rw [hv] at h; cases h; exact Nat.le_refl _
      | some v =>
        rw [hv] at h
        dsimp only at h
        rw [bind_eq, discard_cons (by rw [peeked_rest]; exact hr)] at h
        simp only [rbind] at h
        split at h
        · cases h
        · have := ih h; omega

theorem decodeElispOctalEscape_t (hq : q ≠ []) {f f' n : Nat} (h : f ≤ f') :
    TS X QLe (decodeElispOctalEscape f n) (decodeElispOctalEscape f' n) s q := by
  induction f generalizing f' n s with
  | zero => exact TS.fuel0 rfl
  | succ f ih =>
    obtain ⟨g, rfl⟩ : ∃ g, f' = g + 1 := ⟨f' - 1, by omega⟩
    unfold decodeElispOctalEscape
    tsim hq [] [ih]
    refine TE.pure (by assumption) ?_
    intro a' s' hr
    exact decodeElispOctalEscape_ge (f := g + 1) (by unfold decodeElispOctalEscape; exact hr)

theorem elispCharEscape_t (hq : q ≠ []) {acc : List UInt8} {n : Nat} :
    TS X QF (elispCharEscape acc n) (elispCharEscape acc n) s q := by
  unfold elispCharEscape
  tsim hq [] []
  tesim []

theorem elispUniCharEscape_t {acc : List UInt8} {n : Nat} :
    TS X QF (elispUniCharEscape acc n) (elispUniCharEscape acc n) s q := by
  unfold elispUniCharEscape
  tsim (by assumption) [] []

theorem notScalar_cases {n : Nat} (h : isScalar n = false) :
    0x110000 ≤ n ∨ Utf8.isSurrogate n = true := by
  unfold isScalar at h
  by_cases h1 : n < 0x110000
  · right; simpa [h1] using h
  · left; omega

theorem notScalar_of_ge {n a : Nat} (h : 0x110000 ≤ n) (ha : n ≤ a) : isScalar a = false := by
  unfold isScalar
  have : ¬ a < 0x110000 := by omega
  simp [this]

theorem notSurrogate_of_ge {a : Nat} (h : 0x110000 ≤ a) : Utf8.isSurrogate a = false := by
  unfold Utf8.isSurrogate
  have : ¬ a < 0xE000 := by omega
  simp [this]

theorem nextOrEof_eo (h0 : s.rd.rest = []) : EO X nextOrEof s (fun _ _ => False) := by
  unfold nextOrEof
  refine EO.bind_next h0 ?_
  exact EO.errSoft (by decide)

theorem nextOrEofChar_eo (h0 : s.rd.rest = []) : EO X nextOrEofChar s (fun _ _ => False) := by
  unfold nextOrEofChar
  refine EO.bind_next h0 ?_
  exact EO.errSoft (by decide)

/-- the byte returned by `next_or_eof` was the first unread byte -/
theorem nextOrEof_ok {c : UInt8} {s1 : St} (h : nextOrEof s = .ok c s1) :
    s.rd.rest = c :: s1.rd.rest := by
  unfold nextOrEof at h
  cases hr : s.rd.rest with
  | nil =>
    rw [bind_eq, next_eof hr] at h
    split at h <;> cases h
  | cons b t =>
    rw [bind_eq, next_cons hr] at h
    cases h
    simp [Progress.consume_rest, hr]

theorem nextOrEofChar_ok {c : UInt8} {s1 : St} (h : nextOrEofChar s = .ok c s1) :
    s.rd.rest = c :: s1.rd.rest := by
  unfold nextOrEofChar at h
  cases hr : s.rd.rest with
  | nil =>
    rw [bind_eq, next_eof hr] at h
    split at h <;> cases h
  | cons b t =>
    rw [bind_eq, next_cons hr] at h
    cases h
    simp [Progress.consume_rest, hr]

theorem TS.bind_nextOrEof {β : Type} {f f' : UInt8 → P β} {Q2 : β → St → Res β → Prop} (hq : q ≠ [])
    (h2 : ∀ c s1, s.rd.rest = c :: s1.rd.rest → TS X Q2 (f c) (f' c) s1 q) :
    TS X Q2 (nextOrEof >>= f) (nextOrEof >>= f') s q :=
  TS.bindF (nextOrEof_t hq) (fun c s1 hm _ => h2 c s1 (nextOrEof_ok hm))

theorem TS.bind_nextOrEofChar {β : Type} {f f' : UInt8 → P β} {Q2 : β → St → Res β → Prop}
    (hq : q ≠ [])
    (h2 : ∀ c s1, s.rd.rest = c :: s1.rd.rest → TS X Q2 (f c) (f' c) s1 q) :
    TS X Q2 (nextOrEofChar >>= f) (nextOrEofChar >>= f') s q :=
  TS.bindF (nextOrEofChar_t hq) (fun c s1 hm _ => h2 c s1 (nextOrEofChar_ok hm))

theorem NotOk.bind {α β : Type} {m : P α} {f : α → P β} {x : St} (h : NotOk (m x)) :
    NotOk ((m >>= f) x) := by
  rw [bind_eq]; exact h.rbind

theorem TE.errAt_bind_notOk {α β : Type} {c : Code} {f : α → P β} {Q : β → St → Res β → Prop}
    {r' : Res β} (h : NotOk r') : TE X Q ((errAt c : P α) >>= f) r' s := Or.inr (Or.inr h)

/-! ### numeric Emacs escapes whose digits ran to the end of the input

  A value above U+10FFFF stays invalid whatever follows (`QLe`: more digits only make it larger);
  a surrogate at the end of the input is reported as EOF (the repaired code: one more digit makes
  it a scalar value again). -/

theorem elispCharEscape_notOk {acc : List UInt8} {a : Nat} {x : St} (h : isScalar a = false) :
    NotOk (elispCharEscape acc a x) := by
  unfold elispCharEscape
  simp only [h, Bool.false_eq_true, ↓reduceIte]
  split
  · rw [bind_eq]
    cases peek x with
    | ok o x1 => cases o <;> exact NotOk.err
    | err e x1 => exact NotOk.err
    | panic p => exact NotOk.panic
    | fuel => exact NotOk.fuel
  · exact NotOk.err

theorem elispUniCharEscape_notOk {acc : List UInt8} {a : Nat} {x : St} (h : isScalar a = false) :
    NotOk (elispUniCharEscape acc a x) := by
  unfold elispUniCharEscape; simp only [h]; exact NotOk.err

theorem asChar_notOk {a : Nat} {x : St} (h : isScalar a = false) : NotOk (asChar a x) := by
  unfold asChar; simp only [h]; exact NotOk.err

theorem asEscapedChar_notOk {a : Nat} {x : St} (h : isScalar a = false) :
    NotOk (asEscapedChar a x) := by
  unfold asEscapedChar
  split
  · rw [bind_eq]
    cases peek x with
    | ok o x1 =>
      cases o with
      | none => exact NotOk.err
      | some b => exact asChar_notOk h
    | err e x1 => exact NotOk.err
    | panic p => exact NotOk.panic
    | fuel => exact NotOk.fuel
  · exact asChar_notOk h

/-- the other run fails on every value it can have read, if the truncated run read one that is
    neither a scalar value nor a surrogate -/
theorem notOk_of_QLe {β : Type} {n : Nat} {s2 : St} {r' : Res Nat} {k' : Nat → P β}
    (hs : isScalar n = false) (hsur : Utf8.isSurrogate n = false) (hQ : QLe n s2 r')
    (hk : ∀ a x, isScalar a = false → NotOk (k' a x)) : NotOk (rbind r' k') := by
  have hge : 0x110000 ≤ n := by
    rcases notScalar_cases hs with h | h
    · exact h
    · rw [hsur] at h; cases h
  cases hr : r' with
  | ok a' s' => exact hk a' s' (notScalar_of_ge hge (hQ a' s' hr))
  | err e s' => exact NotOk.err
  | panic p => exact NotOk.panic
  | fuel => exact NotOk.fuel

theorem elispCharEscape_te {acc : List UInt8} {n : Nat} {s2 : St} {r' : Res Nat}
    (h0 : s2.rd.rest = []) (hQ : QLe n s2 r') :
    TE X QT (elispCharEscape acc n) (rbind r' fun n => elispCharEscape acc n) s2 := by
  unfold elispCharEscape
  refine TE.ite (fun _ => TE.ite (fun _ => TE.pure h0 trivial) (fun _ => TE.pure h0 trivial))
    (fun hs => TE.ite (fun _ => ?_) (fun hsur => TE.errNotOk ?_))
  · exact TE.bind_peek h0 (TE.errSoft (by decide))
  · exact notOk_of_QLe (by simpa using hs) (by simpa using hsur) hQ
      (fun a x ha => elispCharEscape_notOk ha)

theorem asEscapedChar_t (hq : q ≠ []) {n : Nat} : TS X QF (asEscapedChar n) (asEscapedChar n) s q := by
  unfold asEscapedChar asChar
  tsim hq [] []
  tesim []

theorem asEscapedChar_te {n : Nat} {s2 : St} {r' : Res Nat} (h0 : s2.rd.rest = [])
    (hQ : QLe n s2 r') : TE X QT (asEscapedChar n) (rbind r' fun n => asEscapedChar n) s2 := by
  unfold asEscapedChar
  refine TE.ite (fun _ => TE.bind_peek h0 (TE.errSoft (by decide))) (fun hsur => ?_)
  unfold asChar
  refine TE.ite (fun _ => TE.pure h0 trivial) (fun hs => TE.errNotOk ?_)
  exact notOk_of_QLe (by simpa using hs) (by simpa using hsur) hQ
    (fun a x ha => asEscapedChar_notOk ha)

/-- what follows the digits of `\N{U+...` in a string -/
def namedTail (acc : List UInt8) (n : Nat) : P (List UInt8 × ElispEscape) := do
  let r ← elispUniCharEscape acc n
  let b4 ← nextOrEof
  if b4 != 125 then errAt .invalidEscape else pure r

/-- `surrogate_at_end`, then the rest of the `\N{U+...}` arm -/
def namedEnd (acc : List UInt8) (n : Nat) : P (List UInt8 × ElispEscape) :=
  if Utf8.isSurrogate n then do
    match (← peek) with
    | none => errAt .eofString
    | some _ => namedTail acc n
  else namedTail acc n

theorem namedEnd_notOk {acc : List UInt8} {a : Nat} {x : St} (h : isScalar a = false) :
    NotOk (namedEnd acc a x) := by
  have ht : ∀ y, NotOk (namedTail acc a y) := fun y => (elispUniCharEscape_notOk h).bind
  unfold namedEnd
  split
  · rw [bind_eq]
    cases peek x with
    | ok o x1 =>
      cases o with
      | none => exact NotOk.err
      | some b => exact ht x1
    | err e x1 => exact NotOk.err
    | panic p => exact NotOk.panic
    | fuel => exact NotOk.fuel
  · exact ht x

theorem namedEnd_te {acc : List UInt8} {n : Nat} {s2 : St} {r' : Res Nat}
    (h0 : s2.rd.rest = []) (hQ : QLe n s2 r') :
    TE X QT (namedEnd acc n) (rbind r' fun n => namedEnd acc n) s2 := by
  unfold namedEnd
  refine TE.ite (fun _ => TE.bind_peek h0 (TE.errSoft (by decide))) (fun hsur => ?_)
  unfold namedTail elispUniCharEscape
  by_cases hs : isScalar n = true
  · simp only [hs, ↓reduceIte]
    tesim [nextOrEof_eo]
  · have hs' : isScalar n = false := by simpa using hs
    simp only [hs']
    exact TE.errAt_bind_notOk (notOk_of_QLe hs' (by simpa using hsur) hQ
      (fun a x ha => namedEnd_notOk ha))

theorem parseElispEscape_t (hq : q ≠ []) {f f' : Nat} {acc : List UInt8} (h : f ≤ f') :
    TS X QT (parseElispEscape f acc) (parseElispEscape f' acc) s q := by
  unfold parseElispEscape
  tsim hq [nextOrEof_t hq, decodeElispUniEscape_t hq, elispUniCharEscape_t, elispCharEscape_t hq]
    [decodeElispHexEscape_t hq, decodeElispOctalEscape_t hq]
  all_goals first
    | exact elispCharEscape_te (by assumption) (by assumption)
    | exact namedEnd_te (by assumption) (by assumption)
    | tesim [nextOrEof_eo]

theorem TS.suffix {α : Type} {Q : α → St → Res α → Prop} {m m' : P α} {a : α} {s1 : St}
    (h : TS X Q m m' s q) (hm : m s = .ok a s1) : s1.rd.rest <:+ s.rd.rest := by
  unfold TS at h; rw [hm] at h; exact h.1

theorem parseElispStr_eo {f : Nat} {acc : List UInt8} {ub mb na : Bool} (h0 : s.rd.rest = []) :
    EO X (parseElispStr f acc ub mb na) s (fun _ _ => False) := by
  cases f with
  | zero => exact EO.outOfFuel
  | succ f =>
    unfold parseElispStr
    exact EO.bind (nextOrEof_eo h0) (fun _ _ _ h => h.elim)

theorem parseElispStr_t (hq : q ≠ []) {f f' : Nat} {acc : List UInt8} {ub mb na : Bool} (h : f ≤ f') :
    TS X QF (parseElispStr f acc ub mb na) (parseElispStr f' acc ub mb na) s q := by
  induction f generalizing f' acc ub mb na s with
  | zero => exact TS.fuel0 rfl
  | succ f ih =>
    obtain ⟨g, rfl⟩ : ∃ g, f' = g + 1 := ⟨f' - 1, by omega⟩
    unfold parseElispStr
    refine TS.bind_nextOrEof hq fun c s1 hc => ?_
    refine TS.ite (fun _ => ?_) (fun _ => TS.ite (fun h92 => ?_) (fun _ => ?_))
    · tsim hq [finishStr_t] []
    · refine TS.bind (parseElispEscape_t hq h) (fun r s2 hm _ => ?_) (fun r s2 hm h0 _ => ?_)
      · obtain ⟨acc', k⟩ := r
        cases k <;> exact ih (by omega)
      · obtain ⟨acc', k⟩ := r
        cases k <;> exact TE.ofEO (parseElispStr_eo h0) (fun _ _ _ h => h.elim)
    · exact ih (by omega)

/-- the diverged result of the `#\x` digit loop -/
def QOptLe : Option Nat → St → Res (Option Nat) → Prop := fun a _ r' =>
  ∀ n0, a = some n0 → ∀ a' s', r' = .ok a' s' → ∃ n', a' = some n' ∧ n0 ≤ n'

theorem decodeR6rsCharHexEscape_ge {f n : Nat} {first : Bool} {a : Option Nat} {x x' : St}
    (h : decodeR6rsCharHexEscape f n first x = .ok a x') (hf : first = false) :
    ∃ n', a = some n' ∧ n ≤ n' := by
  induction f generalizing n first x with
  | zero => cases h
  | succ f ih =>
    subst hf
    unfold decodeR6rsCharHexEscape at h
    cases hr : x.rd.rest with
    | nil =>
      rw [bind_eq, peek_eof hr] at h
      split at h
      · cases h
      · cases h; exact ⟨n, rfl, Nat.le_refl _⟩
    | cons b t =>
      rw [bind_eq, peek_cons hr] at h
      simp only [rbind] at h
      split at h
      · cases h; exact ⟨n, rfl, Nat.le_refl _⟩
      · rw [bind_eq, discard_cons (by rw [peeked_rest]; exact hr)] at h
        simp only [rbind] at h
        cases hv : hexVal b with
        | none => rw [hv] at h; cases h
        | some v =>
          rw [hv] at h
          dsimp only at h
          split at h
          · cases h
          · obtain ⟨n', h1, h2⟩ := ih h rfl
            exact ⟨n', h1, by omega⟩

theorem decodeR6rsCharHexEscape_t (hq : q ≠ []) {f f' n : Nat} {first : Bool} (h : f ≤ f') :
    TS X QOptLe (decodeR6rsCharHexEscape f n first) (decodeR6rsCharHexEscape f' n first) s q := by
  induction f generalizing f' n first s with
  | zero => exact TS.fuel0 rfl
  | succ f ih =>
    obtain ⟨g, rfl⟩ : ∃ g, f' = g + 1 := ⟨f' - 1, by omega⟩
    unfold decodeR6rsCharHexEscape
    tsim hq [] [ih]
    refine TE.pure (by assumption) ?_
    intro n0 hn0 a' s' hr
    cases first with
    | true => cases hn0
    | false =>
      cases hn0
      exact decodeR6rsCharHexEscape_ge (f := g + 1) (first := false)
        (by unfold decodeR6rsCharHexEscape; exact hr) rfl


theorem charName_mem {y : List UInt8} {c : Nat} (h : charName y = some c) : y ∈ charNames := by
  apply Classical.byContradiction
  intro hm
  simp only [charNames, List.mem_cons, List.not_mem_nil, or_false, not_or] at hm
  obtain ⟨h1, h2, h3, h4, h5, h6, h7, h8, h9, h10, h11, h12⟩ := hm
  simp [charName, h1, h2, h3, h4, h5, h6, h7, h8, h9, h10, h11, h12] at h

theorem charName_prefix {x y : List UInt8} {c : Nat} (h : charName y = some c) (hp : x <+: y) :
    isCharNamePrefix x = true := by
  unfold isCharNamePrefix
  exact List.any_eq_true.2 ⟨y, charName_mem h, List.isPrefixOf_iff_prefix.2 hp⟩

theorem charNameLen_append {a b : List UInt8} (h : charNameLen a = a.length) :
    charNameLen (a ++ b) = a.length + charNameLen b := by
  induction a with
  | nil => simp
  | cons x a ih =>
    simp only [charNameLen, List.length_cons, List.cons_append] at h ⊢
    split at h
    · omega
    · rename_i hd
      simp only [hd, Bool.false_eq_true, ↓reduceIte]
      rw [ih (by omega)]; omega

theorem charNameTail_t (hq : q ≠ []) {initial : UInt8} :
    TS X QT (PrefixDet.charNameTail initial) (PrefixDet.charNameTail initial) s q := by
  rw [PrefixDet.charNameTail_eq]
  obtain ⟨b, q', rfl⟩ := List.exists_cons_of_ne_nil hq
  refine TS.bind (scan_t PrefixDet.charNameLen_scanner) (fun tk s1 hm _ => ?_)
    (fun tk s1 hm h0 hq1 => ?_)
  · refine TS.bind_peek hq (fun _ _ _ => ?_) (fun h0 => ?_)
    · tsim hq [] []
    · cases hcn : charName (initial :: tk) with
      | some c => exact TE.pure h0 trivial
      | none =>
        dsimp only
        refine TE.ite (fun _ => TE.errSoft (by decide)) (fun _ => TE.errNotOk ?_)
        obtain ⟨s2, hp, _⟩ := peek_ext_nil (b := b) (q' := q') h0
        rw [hp]
        simp only [rbind, hcn, Option.isNone_some, Bool.false_and, Bool.false_eq_true, ↓reduceIte]
        exact NotOk.err
  · obtain ⟨rfl, hlen, -⟩ := hq1
    refine TE.bind_peek h0 ?_
    cases hcn : charName (initial :: s.rd.rest) with
    | some c => exact TE.pure h0 trivial
    | none =>
      dsimp only
      refine TE.ite (fun _ => TE.errSoft (by decide)) (fun hnp => TE.errNotOk ?_)
      have hnp' : isCharNamePrefix (initial :: s.rd.rest) = false := by
        simpa using hnp
      have hcn' : ∀ x, charName (initial :: (s.rd.rest ++ x)) = none := by
        intro x
        cases hx : charName (initial :: (s.rd.rest ++ x)) with
        | none => rfl
        | some c =>
          have := charName_prefix hx (x := initial :: s.rd.rest) (by simp)
          rw [hnp'] at this; cases this
      have htk : ((ext (b :: q') s).rd.rest.take (charNameLen (ext (b :: q') s).rd.rest)) =
          s.rd.rest ++ (b :: q').take (charNameLen (b :: q')) := by
        rw [ext_rest, charNameLen_append hlen, List.take_append]
        simp [List.take_of_length_le]
      unfold scan
      simp only [rbind]
      rw [htk, bind_eq]
      cases peek _ with
      | ok o s3 =>
        simp only [rbind, hcn']
        split <;> exact NotOk.err
      | err e s3 => exact NotOk.err
      | panic p => exact NotOk.panic
      | fuel => exact NotOk.fuel


theorem parseR6rsChar_t (hq : q ≠ []) {f f' : Nat} (h : f ≤ f') :
    TS X QT (parseR6rsChar f) (parseR6rsChar f') s q := by
  unfold parseR6rsChar
  refine TS.bind_nextOrEofChar hq fun initial s1 hc => ?_
  refine TS.ite (fun _ => ?_) (fun _ => ?_)
  · refine TS.bind (decodeR6rsCharHexEscape_t hq h) (fun a s2 _ _ => ?_) (fun a s2 hm h0 hq1 => ?_)
    · tsim hq [] []
      tesim []
    · cases a with
      | none => exact TE.pure h0 trivial
      | some n =>
        dsimp only
        refine TE.ite (fun _ => TE.pure h0 trivial) (fun hs => TE.ite (fun _ => ?_) (fun hsur => ?_))
        · tesim []
        · refine TE.errNotOk ?_
          have hs' : isScalar n = false := by simpa using hs
          have hsur' : Utf8.isSurrogate n = false := by simpa using hsur
          have hge : 0x110000 ≤ n := by
            rcases notScalar_cases hs' with h | h
            · exact h
            · rw [hsur'] at h; cases h
          cases hr : decodeR6rsCharHexEscape f' 0 true (ext q s1) with
          | ok a' s' =>
            obtain ⟨n', rfl, hle⟩ := hq1 n rfl a' s' hr
            simp only [rbind, notScalar_of_ge hge hle, notSurrogate_of_ge (Nat.le_trans hge hle),
              Bool.false_eq_true, ↓reduceIte]
            exact NotOk.err
          | err e s' => exact NotOk.err
          | panic p => exact NotOk.panic
          | fuel => exact NotOk.fuel
  · tsim hq [decodeUtf8Sequence_t hq] [charNameTail_t hq]
    tesim []


theorem asChar_t {n : Nat} : TS X QF (asChar n) (asChar n) s q := by
  unfold asChar
  tsim (by assumption) [] []

theorem decodeElispCharEscape_t (hq : q ≠ []) {f f' : Nat} (h : f ≤ f') :
    TS X QT (decodeElispCharEscape f) (decodeElispCharEscape f') s q := by
  unfold decodeElispCharEscape
  tsim hq [nextOrEof_t hq, nextOrEofChar_t hq, decodeElispUniEscape_t hq, asChar_t,
    asEscapedChar_t hq, decodeUtf8Sequence_t hq]
    [decodeElispHexEscape_t hq, decodeElispOctalEscape_t hq]
  all_goals first
    | exact asEscapedChar_te (by assumption) (by assumption)
    | tesim [nextOrEof_eo]

theorem next_ok {c : UInt8} {s1 : St} (h : next s = .ok (some c) s1) :
    s.rd.rest = c :: s1.rd.rest := by
  cases hr : s.rd.rest with
  | nil =>
    rw [next_eof hr] at h
    split at h <;> cases h
  | cons b t =>
    rw [next_cons hr] at h
    cases h
    simp [Progress.consume_rest, hr]

theorem parseElispChar_t (hq : q ≠ []) {f f' : Nat} (h : f ≤ f') :
    TS X QT (parseElispChar f) (parseElispChar f') s q := by
  unfold parseElispChar
  tsim hq [decodeUtf8Sequence_t hq] [decodeElispCharEscape_t hq]
  tesim []

end lex
end Trunc
end Parse
end Lexpr
