/-
  C11, re-parse clause — the framework.

  "End of input acts like a delimiter": the converse direction of prefix determinism
  (PrefixDet.lean).  A run (`S`, the *full* run) over `x ++ r` that stops without consuming
  anything of `r` is compared with the run (`s`, the *truncated* run) over `x` alone.

  `TRel r S s`: the full state `S` has the unread input of the truncated state `s` followed by `r`,
  the same mode, `s` is not faulty, and the depth budget of `s` is at least that of `S`.  Line,
  column and the `peeked` flag are unconstrained: values do not depend on them (position
  independence), and the fuel of the two runs is unrelated (the truncated run may answer
  "out of fuel"; the public entry points never do).

  `TrK k m m'`: if the full run `m S` succeeds in `S'`, then
    * the frame: it did not grow the input and restored the depth budget, and
    * if at least `k` bytes in front of `r` are left (`k = 1`: strictly before the boundary,
      `k = 0`: possibly exactly at the boundary, having at most peeked the first byte of `r`),
      the truncated run `m' s` returns the same value in a related state (or runs out of fuel).
  Every function satisfies `TrK 1` for uniform reasons (it never saw `r`).  `TrK 0` fails for
  `peek` itself and holds for a function only if the code treats end of input like the byte it
  peeked: each `peek` site needs an analysis of the boundary case, `Bd b m m'` (the full run has
  peeked `b`, the first byte of `r`, where the truncated run saw the end of input).
-/
import LexprModel.Proofs.Spans
import LexprModel.Proofs.PrefixDet
namespace Lexpr
namespace Parse
namespace Reparse
open Progress Spans

/-! ### the relation between the two runs -/

def TRel (r : List UInt8) (S s : St) : Prop :=
  S.rd.rest = s.rd.rest ++ r ∧ S.rd.mode = s.rd.mode ∧ s.rd.faulty = false ∧ S.depth ≤ s.depth

/-- the truncated run follows: same value, related state — or it ran out of fuel -/
def Fol {α : Type} (r : List UInt8) (a : α) (S' : St) (res : Res α) : Prop :=
  res = .fuel ∨ ∃ s', res = .ok a s' ∧ TRel r S' s'

/-- frame of a successful run: the input did not grow, the depth budget is restored -/
def Fr (S S' : St) : Prop := S'.rd.rest.length ≤ S.rd.rest.length ∧ S'.depth = S.depth

theorem Fr.refl (S : St) : Fr S S := ⟨Nat.le_refl _, rfl⟩
theorem Fr.trans {a b c : St} (h1 : Fr a b) (h2 : Fr b c) : Fr a c :=
  ⟨Nat.le_trans h2.1 h1.1, h2.2.trans h1.2⟩

def TrK {α : Type} (k : Nat) (m m' : P α) : Prop :=
  ∀ (r : List UInt8) (S s : St) (a : α) (S' : St), TRel r S s → m S = .ok a S' →
    Fr S S' ∧ (r.length + k ≤ S'.rd.rest.length → Fol r a S' (m' s))

/-- the boundary case: the truncated input is exhausted, the full run sees `b` next and does
    not consume it -/
def Bd {α : Type} (b : UInt8) (m m' : P α) : Prop :=
  ∀ (r' : List UInt8) (S s : St) (a : α) (S' : St), TRel (b :: r') S s → s.rd.rest = [] →
    m S = .ok a S' → r'.length + 1 ≤ S'.rd.rest.length → Fol (b :: r') a S' (m' s)

/-- a successful run does not grow the input -/
def MonoOk {α : Type} (m : P α) : Prop :=
  ∀ S a S', m S = .ok a S' → S'.rd.rest.length ≤ S.rd.rest.length

/-- a successful run from a state with unread input consumes at least one byte -/
def Prog {α : Type} (m : P α) : Prop :=
  ∀ S a S', S.rd.rest ≠ [] → m S = .ok a S' → S'.rd.rest.length < S.rd.rest.length

/-- the frame alone -/
def FrOk {α : Type} (m : P α) : Prop := ∀ S a S', m S = .ok a S' → Fr S S'

theorem bindP_apply {α β : Type} (m : P α) (f : α → P β) (s : St) :
    (m >>= f) s = match m s with
      | .ok a s' => f a s'
      | .err e s' => .err e s'
      | .panic p => .panic p
      | .fuel => .fuel := rfl

theorem bind_fuel {α β : Type} {m : P α} {f : α → P β} {s : St} (h : m s = .fuel) :
    (m >>= f) s = .fuel := by
  rw [bindP_apply, h]

theorem bind_ok_eq {α β : Type} {m : P α} {f : α → P β} {s s1 : St} {a : α} (h : m s = .ok a s1) :
    (m >>= f) s = f a s1 := by
  rw [bindP_apply, h]

theorem bind_assoc_P {α β γ : Type} (m : P α) (g : α → P β) (f : β → P γ) :
    ((m >>= g) >>= f) = (m >>= fun a => g a >>= f) := by
  funext s
  rw [bindP_apply, bindP_apply, bindP_apply]
  cases m s <;> rfl

/-- the state that witnesses the frame part of a `TrK` statement -/
def dummy (S : St) : St := { S with rd := { S.rd with rest := [], faulty := false } }

theorem trel_dummy (S : St) : TRel S.rd.rest S (dummy S) :=
  ⟨by simp [dummy], rfl, rfl, Nat.le_refl _⟩

section rules
variable {α β : Type} {k : Nat}

theorem TrK.frame {m m' : P α} (h : TrK k m m') : FrOk m :=
  fun S a S' hr => (h S.rd.rest S (dummy S) a S' (trel_dummy S) hr).1

theorem FrOk.mono {m : P α} (h : FrOk m) : MonoOk m := fun S a S' hr => (h S a S' hr).1

theorem TrK.weaken {m m' : P α} (h : TrK 0 m m') : TrK k m m' := by
  intro r S s a S' hrel hr
  obtain ⟨fr, t⟩ := h r S s a S' hrel hr
  exact ⟨fr, fun hl => t (by omega)⟩

theorem TrK.bind {m m' : P α} {f f' : α → P β} (hm : TrK k m m') (hf : ∀ a, TrK k (f a) (f' a)) :
    TrK k (m >>= f) (m' >>= f') := by
  intro r S s b S' hrel h
  obtain ⟨a, S1, h1, h2⟩ := bind_ok h
  obtain ⟨fr1, t1⟩ := hm r S s a S1 hrel h1
  have fr2 := (hf a).frame S1 b S' h2
  refine ⟨fr1.trans fr2, fun hl => ?_⟩
  rcases t1 (by have := fr2.1; omega) with hfu | ⟨s1, hs1, hrel1⟩
  · exact Or.inl (bind_fuel hfu)
  · rw [bind_ok_eq hs1]
    exact (hf a r S1 s1 b S' hrel1 h2).2 hl

/-- a first part that only has to be followed strictly before the boundary, because the second
    part consumes -/
theorem TrK.bind_prog {m m' : P α} {f f' : α → P β} (hm : TrK 1 m m')
    (hf : ∀ a, TrK 0 (f a) (f' a))
    (hp : ∀ a S b S', f a S = .ok b S' → S'.rd.rest.length < S.rd.rest.length) :
    TrK 0 (m >>= f) (m' >>= f') := by
  intro r S s b S' hrel h
  obtain ⟨a, S1, h1, h2⟩ := bind_ok h
  obtain ⟨fr1, t1⟩ := hm r S s a S1 hrel h1
  have fr2 := (hf a).frame S1 b S' h2
  refine ⟨fr1.trans fr2, fun hl => ?_⟩
  rcases t1 (by have := hp a S1 b S' h2; omega) with hfu | ⟨s1, hs1, hrel1⟩
  · exact Or.inl (bind_fuel hfu)
  · rw [bind_ok_eq hs1]
    exact (hf a r S1 s1 b S' hrel1 h2).2 hl

theorem TrK.pure {a : α} : TrK k (pure a : P α) (pure a) := by
  intro r S s b S' hrel h
  cases h
  exact ⟨Fr.refl _, fun _ => Or.inr ⟨s, rfl, hrel⟩⟩

theorem TrK.of_neverOk {m m' : P α} (h : NeverOk m) : TrK k m m' :=
  fun _ S _ a S' _ hr => absurd hr (h S a S')

theorem TrK.errAt {c : Code} {m' : P α} : TrK k (errAt c : P α) m' := TrK.of_neverOk NeverOk.errAt
theorem TrK.peekErr {c : Code} {m' : P α} : TrK k (peekErr c : P α) m' :=
  TrK.of_neverOk NeverOk.peekErr
theorem TrK.panicAt {p : Site} {m' : P α} : TrK k (panicAt p : P α) m' :=
  TrK.of_neverOk NeverOk.panicAt
theorem TrK.outOfFuel {m' : P α} : TrK k (outOfFuel : P α) m' := TrK.of_neverOk NeverOk.outOfFuel
theorem TrK.rawErr {e : Err} {m' : P α} : TrK k (fun s' => Res.err e s' : P α) m' :=
  TrK.of_neverOk NeverOk.rawErr

/-- the left program is out of fuel -/
theorem TrK.fuel0 {m m' : P α} (h : m = Parse.outOfFuel) : TrK k m m' := h ▸ TrK.outOfFuel

/-- the truncated run is out of fuel: only the frame of the full run is needed -/
theorem TrK.right_fuel {m m' : P α} (hfr : FrOk m) (h : m' = Parse.outOfFuel) : TrK k m m' := by
  intro r S s a S' _ hr
  exact ⟨hfr S a S' hr, fun _ => Or.inl (by rw [h]; rfl)⟩

/-- a function with a fuel argument: it is enough to treat positive fuel on the right -/
theorem TrK.fuel_cases {m : P α} {G : Nat → P α} (h0 : G 0 = Parse.outOfFuel)
    (main : ∀ g, TrK k m (G (g + 1))) : ∀ f', TrK k m (G f') := by
  intro f'
  cases f' with
  | zero => exact TrK.right_fuel (main 0).frame h0
  | succ g => exact main g

theorem TrK.liftExcept {x : Except Err α} : TrK k (liftExcept x) (liftExcept x) := by
  cases x with
  | ok a => exact TrK.pure
  | error e => exact TrK.of_neverOk NeverOk.liftErr

theorem TrK.ite {c : Prop} [Decidable c] {A A' B B' : P α} (hA : c → TrK k A A')
    (hB : ¬c → TrK k B B') : TrK k (if c then A else B) (if c then A' else B') := by
  split
  · exact hA ‹_›
  · exact hB ‹_›

theorem TrK.bind_tokenFuel {f f' : Nat → P β} (h : ∀ n n', TrK k (f n) (f' n')) :
    TrK k (tokenFuel >>= f) (tokenFuel >>= f') := by
  intro r S s b S' hrel hr
  exact h (S.rd.rest.length + 1) (s.rd.rest.length + 1) r S s b S' hrel hr

theorem TrK.bind_apiFuel {f f' : Nat → P β} (h : ∀ n n', TrK k (f n) (f' n')) :
    TrK k (apiFuel >>= f) (apiFuel >>= f') := by
  intro r S s b S' hrel hr
  exact h (2 * S.rd.rest.length + 4) (2 * s.rd.rest.length + 4) r S s b S' hrel hr

end rules

/-! ### the reader primitives -/

theorem trel_peeked {r : List UInt8} {S s : St} (h : TRel r S s) (p q : Bool) :
    TRel r { S with rd := { S.rd with peeked := p } } { s with rd := { s.rd with peeked := q } } := h

theorem trel_consume {r : List UInt8} {S s : St} (h : TRel r S s) (n : Nat)
    (hn : n ≤ s.rd.rest.length) :
    TRel r { S with rd := S.rd.consume n } { s with rd := s.rd.consume n } := by
  obtain ⟨h1, h2, h3, h4⟩ := h
  refine ⟨?_, ?_, ?_, h4⟩
  · show (S.rd.consume n).rest = (s.rd.consume n).rest ++ r
    rw [consume_rest, consume_rest, h1, List.drop_append_of_le_length hn]
  · show (S.rd.consume n).mode = (s.rd.consume n).mode
    rw [consume_mode, consume_mode, h2]
  · show (s.rd.consume n).faulty = false
    rw [consume_faulty, h3]

theorem fr_consume (S : St) (n : Nat) : Fr S { S with rd := S.rd.consume n } :=
  ⟨by show (S.rd.consume n).rest.length ≤ _; rw [consume_rest]; simp, rfl⟩

theorem fr_peeked (S : St) (p : Bool) : Fr S { S with rd := { S.rd with peeked := p } } :=
  ⟨Nat.le_refl _, rfl⟩

/-- the state after a successful `peek` at a byte -/
def pk (S : St) : St := { S with rd := { S.rd with peeked := S.rd.peeked || S.rd.mode == .io } }

theorem peek_cons {S : St} {c : UInt8} {t : List UInt8} (h : S.rd.rest = c :: t) :
    peek S = .ok (some c) (pk S) := by
  unfold peek
  split
  · rename_i b' t' hb
    rw [h] at hb
    cases hb
    rfl
  · rename_i hb; rw [h] at hb; cases hb

theorem peek_nil {S : St} (h : S.rd.rest = []) (hf : S.rd.faulty = false) : peek S = .ok none S := by
  unfold peek
  split
  · rename_i b' t' hb; rw [h] at hb; cases hb
  · simp [hf]

theorem peek_nil_ok {S S' : St} {o : Option UInt8} (h : S.rd.rest = []) (hr : peek S = .ok o S') :
    o = none ∧ S' = S := by
  unfold peek at hr
  split at hr
  · rename_i b' t' hb; rw [h] at hb; cases hb
  · split at hr
    · cases hr
    · cases hr; exact ⟨rfl, rfl⟩

theorem trel_pk {r : List UInt8} {S s : St} (h : TRel r S s) : TRel r (pk S) (pk s) := h
theorem trel_pk_left {r : List UInt8} {S s : St} (h : TRel r S s) : TRel r (pk S) s := h
theorem fr_pk (S : St) : Fr S (pk S) := ⟨Nat.le_refl _, rfl⟩
theorem pk_rest (S : St) : (pk S).rd.rest = S.rd.rest := rfl

/-- the state after consuming one byte -/
def adv1 (S : St) : St := { S with rd := S.rd.consume 1 }

theorem adv1_rest {S : St} {c : UInt8} {t : List UInt8} (h : S.rd.rest = c :: t) :
    (adv1 S).rd.rest = t := by
  show (S.rd.consume 1).rest = t
  rw [consume_rest, h]; rfl

theorem next_cons {S : St} {c : UInt8} {t : List UInt8} (h : S.rd.rest = c :: t) :
    next S = .ok (some c) (adv1 S) := by
  unfold next
  split
  · rename_i b' t' hb
    rw [h] at hb
    cases hb
    rfl
  · rename_i hb; rw [h] at hb; cases hb

theorem next_nil {S : St} (h : S.rd.rest = []) (hf : S.rd.faulty = false) : next S = .ok none S := by
  unfold next
  split
  · rename_i b' t' hb; rw [h] at hb; cases hb
  · simp [hf]

theorem next_nil_ok {S S' : St} {o : Option UInt8} (h : S.rd.rest = []) (hr : next S = .ok o S') :
    o = none ∧ S' = S := by
  unfold next at hr
  split at hr
  · rename_i b' t' hb; rw [h] at hb; cases hb
  · split at hr
    · cases hr
    · cases hr; exact ⟨rfl, rfl⟩

theorem discard_cons {S : St} {c : UInt8} {t : List UInt8} (h : S.rd.rest = c :: t) :
    discard S = .ok () (adv1 S) := by
  unfold discard
  split
  · rfl
  · rename_i hb; rw [h] at hb; cases hb

theorem discard_nil {S : St} (h : S.rd.rest = []) : discard S = .panic .discardAtEof := by
  unfold discard
  split
  · rename_i b' t' hb; rw [h] at hb; cases hb
  · rfl

theorem trel_nil {r : List UInt8} {S s : St} (h : TRel r S s) (hS : S.rd.rest = []) :
    s.rd.rest = [] ∧ r = [] := by
  have := h.1
  rw [hS] at this
  cases hs : s.rd.rest with
  | nil => rw [hs] at this; exact ⟨rfl, by simpa using this.symm⟩
  | cons _ _ => rw [hs] at this; simp at this

/-- the full run is at `c :: t`: the truncated run is at the same byte, or at its end with
    `r = c :: t` -/
theorem trel_cons {r : List UInt8} {S s : St} {c : UInt8} {t : List UInt8} (h : TRel r S s)
    (hS : S.rd.rest = c :: t) :
    (∃ t', s.rd.rest = c :: t' ∧ t = t' ++ r) ∨ (s.rd.rest = [] ∧ r = c :: t) := by
  have := h.1
  rw [hS] at this
  cases hs : s.rd.rest with
  | nil => rw [hs] at this; exact Or.inr ⟨rfl, by simpa using this.symm⟩
  | cons c' t' =>
    rw [hs, List.cons_append] at this
    obtain ⟨rfl, ht⟩ := List.cons.inj this
    exact Or.inl ⟨t', rfl, ht⟩

theorem trel_adv1 {r : List UInt8} {S s : St} (h : TRel r S s) {c : UInt8} {t' : List UInt8}
    (hs : s.rd.rest = c :: t') : TRel r (adv1 S) (adv1 s) :=
  trel_consume h 1 (by simp [hs])

theorem fr_adv1 (S : St) : Fr S (adv1 S) := fr_consume S 1

/-- `peek` strictly before the boundary -/
theorem peek_t1 : TrK 1 peek peek := by
  intro r S s a S' hrel hr
  cases hS : S.rd.rest with
  | nil =>
    obtain ⟨rfl, rfl⟩ := peek_nil_ok hS hr
    exact ⟨Fr.refl _, fun hl => by simp [hS] at hl⟩
  | cons c t =>
    rw [peek_cons hS] at hr
    cases hr
    refine ⟨fr_pk S, fun hl => ?_⟩
    rcases trel_cons hrel hS with ⟨t', hs, _⟩ | ⟨_, hr⟩
    · rw [peek_cons hs]
      exact Or.inr ⟨_, rfl, trel_pk hrel⟩
    · rw [pk_rest, hS, hr] at hl
      omega

theorem next_t {k : Nat} : TrK k next next := by
  intro r S s a S' hrel hr
  cases hS : S.rd.rest with
  | nil =>
    obtain ⟨rfl, rfl⟩ := next_nil_ok hS hr
    refine ⟨Fr.refl _, fun _ => ?_⟩
    rw [next_nil (trel_nil hrel hS).1 hrel.2.2.1]
    exact Or.inr ⟨s, rfl, hrel⟩
  | cons c t =>
    rw [next_cons hS] at hr
    cases hr
    refine ⟨fr_adv1 S, fun hl => ?_⟩
    rcases trel_cons hrel hS with ⟨t', hs, _⟩ | ⟨_, hr⟩
    · rw [next_cons hs]
      exact Or.inr ⟨_, rfl, trel_adv1 hrel hs⟩
    · rw [adv1_rest hS, hr] at hl
      simp at hl
      omega

theorem discard_t {k : Nat} : TrK k discard discard := by
  intro r S s a S' hrel hr
  cases hS : S.rd.rest with
  | nil => rw [discard_nil hS] at hr; cases hr
  | cons c t =>
    rw [discard_cons hS] at hr
    cases hr
    refine ⟨fr_adv1 S, fun hl => ?_⟩
    rcases trel_cons hrel hS with ⟨t', hs, _⟩ | ⟨_, hr⟩
    · rw [discard_cons hs]
      exact Or.inr ⟨_, rfl, trel_adv1 hrel hs⟩
    · rw [adv1_rest hS, hr] at hl
      simp at hl
      omega

theorem getMode_t {k : Nat} : TrK k getMode getMode := by
  intro r S s a S' hrel hr
  cases hr
  refine ⟨Fr.refl _, fun _ => Or.inr ⟨s, ?_, hrel⟩⟩
  show Res.ok s.rd.mode s = _
  rw [hrel.2.1]

/-- `enter` and `leave` change the depth budget: they only occur as a bracket -/
theorem enter_ok {S S' : St} (h : enter S = .ok () S') :
    2 ≤ S.depth ∧ S' = { S with depth := S.depth - 1 } := by
  unfold enter at h
  split at h
  · cases h
  · split at h
    · cases h
    · cases h
      rename_i h0 h1
      refine ⟨?_, rfl⟩
      simp at h0 h1
      omega

theorem enter_of_le {s : St} (h : 2 ≤ s.depth) : enter s = .ok () { s with depth := s.depth - 1 } := by
  have hd1 : (s.depth == 0) = false := by simp; omega
  have hd2 : (s.depth - 1 == 0) = false := by simp; omega
  simp [enter, hd1, hd2]

/-! ### scanners -/

/-- `g` measures a prefix of its argument; if it stops at or before the end of `x`, it does not
    depend on what follows `x` -/
def Scanner0 (g : List UInt8 → Nat) : Prop :=
  ∀ x r, g (x ++ r) ≤ (x ++ r).length ∧ (g (x ++ r) ≤ x.length → g x = g (x ++ r))

theorem scan_t {k : Nat} {g : List UInt8 → Nat} (hg : Scanner0 g) :
    TrK k (PrefixDet.scan g) (PrefixDet.scan g) := by
  intro r S s a S' hrel hr
  have hrel' := hrel
  obtain ⟨h1, h2, h3, h4⟩ := hrel
  unfold PrefixDet.scan at hr ⊢
  cases hr
  refine ⟨fr_consume S _, fun hl => ?_⟩
  have hl' : r.length + k ≤ (S.rd.consume (g S.rd.rest)).rest.length := hl
  rw [consume_rest, h1, List.length_drop, List.length_append] at hl'
  obtain ⟨hle, heq⟩ := hg s.rd.rest r
  rw [List.length_append] at hle
  have hx : g (s.rd.rest ++ r) ≤ s.rd.rest.length := by omega
  have he := heq hx
  have hgS : g S.rd.rest = g s.rd.rest := by rw [h1, he]
  rw [hgS]
  refine Or.inr ⟨_, ?_, trel_consume hrel' (g s.rd.rest) (by omega)⟩
  rw [h1, List.take_append_of_le_length (by omega)]

theorem ws_scan0 (x r : List UInt8) :
    (wsLen (x ++ r) ≤ x.length → wsLen x = wsLen (x ++ r)) ∧
    (commentLen (x ++ r) ≤ x.length → commentLen x = commentLen (x ++ r)) := by
  induction x with
  | nil =>
    simp only [List.nil_append, List.length_nil, Nat.le_zero_eq, wsLen, commentLen]
    exact ⟨fun h => h.symm, fun h => h.symm⟩
  | cons b t ih =>
    simp only [List.cons_append, wsLen, commentLen, List.length_cons]
    refine ⟨?_, ?_⟩
    · split
      · intro h; rw [ih.2 (by omega)]
      · split
        · intro h; rw [ih.1 (by omega)]
        · intro _; rfl
    · split
      · intro h; rw [ih.1 (by omega)]
      · intro h; rw [ih.2 (by omega)]

theorem wsLen_scanner0 : Scanner0 wsLen :=
  fun x r => ⟨(Spans.wsLen_le _).1, (ws_scan0 x r).1⟩

theorem symLen_le (m : Mode) : ∀ l : List UInt8, symLen m l ≤ l.length
  | [] => by simp [symLen]
  | b :: t => by
    simp only [symLen, List.length_cons]
    split
    · omega
    · have := symLen_le m t; omega

theorem symLen_scanner0 (m : Mode) : Scanner0 (symLen m) := by
  intro x r
  refine ⟨symLen_le m _, ?_⟩
  induction x with
  | nil => simp only [List.nil_append, List.length_nil, Nat.le_zero_eq, symLen]; exact fun h => h.symm
  | cons b t ih =>
    simp only [List.cons_append, symLen, List.length_cons]
    split
    · intro _; rfl
    · intro h; rw [ih (by omega)]

theorem charNameLen_le : ∀ l : List UInt8, charNameLen l ≤ l.length
  | [] => by simp [charNameLen]
  | b :: t => by
    simp only [charNameLen, List.length_cons]
    split
    · omega
    · have := charNameLen_le t; omega

theorem charNameLen_scanner0 : Scanner0 charNameLen := by
  intro x r
  refine ⟨charNameLen_le _, ?_⟩
  induction x with
  | nil =>
    simp only [List.nil_append, List.length_nil, Nat.le_zero_eq, charNameLen]; exact fun h => h.symm
  | cons b t ih =>
    simp only [List.cons_append, charNameLen, List.length_cons]
    split
    · intro _; rfl
    · intro h; rw [ih (by omega)]

theorem digits_scanner0 : Scanner0 PrefixDet.digitsLen := by
  intro x r
  refine ⟨(PrefixDet.digits_scanner (x ++ r) []).1, ?_⟩
  induction x with
  | nil =>
    simp only [List.nil_append, List.length_nil, Nat.le_zero_eq, PrefixDet.digitsLen]
    intro h; simp [h]
  | cons b t ih =>
    unfold PrefixDet.digitsLen at ih ⊢
    simp only [List.cons_append, List.takeWhile_cons, List.length_cons]
    split
    · simp only [List.length_cons]
      intro h; rw [ih (by omega)]
    · intro _; rfl

/-! ### `peek` at the boundary -/

section peekrules
variable {β : Type}

theorem TrK.bind_peek {f f' : Option UInt8 → P β} (hf : ∀ o, TrK 0 (f o) (f' o))
    (hb : ∀ b, Bd b (f (some b)) (f' none)) : TrK 0 (peek >>= f) (peek >>= f') := by
  intro r S s x S' hrel h
  obtain ⟨o, S1, hp, hf1⟩ := bind_ok h
  cases hS : S.rd.rest with
  | nil =>
    obtain ⟨rfl, rfl⟩ := peek_nil_ok hS hp
    refine ⟨(hf none).frame S1 x S' hf1, fun hl => ?_⟩
    rw [bind_ok_eq (peek_nil (trel_nil hrel hS).1 hrel.2.2.1)]
    exact (hf none r S1 s x S' hrel hf1).2 hl
  | cons c t =>
    rw [peek_cons hS] at hp
    cases hp
    refine ⟨(fr_pk S).trans ((hf (some c)).frame _ x S' hf1), fun hl => ?_⟩
    rcases trel_cons hrel hS with ⟨t', hs, _⟩ | ⟨hs, hr⟩
    · rw [bind_ok_eq (peek_cons hs)]
      exact (hf (some c) r _ _ x S' (trel_pk hrel) hf1).2 hl
    · rw [bind_ok_eq (peek_nil hs hrel.2.2.1)]
      subst hr
      exact hb c t _ s x S' (trel_pk_left hrel) hs hf1 (by simpa using hl)

theorem peekOrNull_bind (f : UInt8 → P β) :
    (peekOrNull >>= f) = (peek >>= fun o => f (o.getD 0)) := by
  unfold peekOrNull
  rw [bind_assoc_P]
  rfl

theorem TrK.bind_peekOrNull {f f' : UInt8 → P β} (hf : ∀ c, TrK 0 (f c) (f' c))
    (hb : ∀ b, Bd b (f b) (f' 0)) : TrK 0 (peekOrNull >>= f) (peekOrNull >>= f') := by
  rw [peekOrNull_bind, peekOrNull_bind]
  exact TrK.bind_peek (fun o => hf _) (fun b => hb b)

theorem parseWhitespace_bind (f : Option UInt8 → P β) :
    (parseWhitespace >>= f) = (PrefixDet.scan wsLen >>= fun _ => peek >>= f) := by
  rw [PrefixDet.parseWhitespace_eq, bind_assoc_P]

theorem TrK.bind_parseWhitespace {f f' : Option UInt8 → P β} (hf : ∀ o, TrK 0 (f o) (f' o))
    (hb : ∀ b, Bd b (f (some b)) (f' none)) :
    TrK 0 (parseWhitespace >>= f) (parseWhitespace >>= f') := by
  rw [parseWhitespace_bind, parseWhitespace_bind]
  exact TrK.bind (scan_t wsLen_scanner0) fun _ => TrK.bind_peek hf hb

theorem peekOrNull_t1 : TrK 1 peekOrNull peekOrNull := by
  unfold peekOrNull
  exact TrK.bind peek_t1 fun _ => TrK.pure

theorem parseWhitespace_t1 : TrK 1 parseWhitespace parseWhitespace := by
  rw [PrefixDet.parseWhitespace_eq]
  exact TrK.bind (scan_t wsLen_scanner0) fun _ => peek_t1

end peekrules

/-! ### rules for the boundary case -/

section bdrules
variable {α β : Type} {b : UInt8}

theorem Bd.of_tr {m m' : P α} (h : TrK 0 m m') : Bd b m m' :=
  fun r' S s a S' hrel _ hr hl => (h (b :: r') S s a S' hrel hr).2 (by simpa using hl)

theorem Bd.of_neverOk {m m' : P α} (h : NeverOk m) : Bd b m m' :=
  fun _ S _ a S' _ _ hr _ => absurd hr (h S a S')

theorem Bd.pure {a : α} : Bd b (pure a : P α) (pure a) := Bd.of_tr TrK.pure

theorem Bd.ite_left {c : Prop} [Decidable c] {A B m' : P α} (hA : c → Bd b A m')
    (hB : ¬c → Bd b B m') : Bd b (if c then A else B) m' := by
  split
  · exact hA ‹_›
  · exact hB ‹_›

/-- the full run consumes: it cannot have stopped at the boundary -/
theorem Bd.of_prog {m m' : P α} (h : Prog m) : Bd b m m' := by
  intro r' S s a S' hrel hs hr hl
  have h1 : S.rd.rest = b :: r' := by rw [hrel.1, hs]; rfl
  have := h S a S' (by rw [h1]; simp) hr
  rw [h1] at this
  simp at this
  omega

theorem Prog.bind {m : P α} {f : α → P β} (hm : Prog m) (hf : ∀ a, MonoOk (f a)) :
    Prog (m >>= f) := by
  intro S x S' hne h
  obtain ⟨a, S1, h1, h2⟩ := bind_ok h
  have := hm S a S1 hne h1
  have := hf a S1 x S' h2
  omega

theorem Bd.prog_bind {m : P α} {f : α → P β} {m' : P β} (hm : Prog m) (hf : ∀ a, MonoOk (f a)) :
    Bd b (m >>= f) m' := Bd.of_prog (Prog.bind hm hf)

theorem Prog.discard : Prog discard := by
  intro S a S' hne h
  cases hS : S.rd.rest with
  | nil => exact absurd hS hne
  | cons c t =>
    rw [discard_cons hS] at h
    cases h
    rw [adv1_rest hS]; simp

theorem Prog.next : Prog next := by
  intro S a S' hne h
  cases hS : S.rd.rest with
  | nil => exact absurd hS hne
  | cons c t =>
    rw [next_cons hS] at h
    cases h
    rw [adv1_rest hS]; simp

theorem Prog.of_spec {m : P α} {ke : Err → Nat} {F : St → Prop}
    (h : ∀ S, Spec m S S (fun _ => 1) ke (F S)) : Prog m := by
  intro S a S' _ hr
  have := (h S).ok hr
  have := this.len
  omega

theorem MonoOk.of_spec {m : P α} {ko : α → Nat} {ke : Err → Nat} {F : St → Prop}
    (h : ∀ S, Spec m S S ko ke (F S)) : MonoOk m := by
  intro S a S' hr
  have := (h S).ok hr
  have := this.len
  omega

theorem Bd.bind_peek {f f' : Option UInt8 → P β} (h : Bd b (f (some b)) (f' none)) :
    Bd b (peek >>= f) (peek >>= f') := by
  intro r' S s x S' hrel hs hr hl
  have hS : S.rd.rest = b :: r' := by rw [hrel.1, hs]; rfl
  rw [bind_ok_eq (peek_cons hS)] at hr
  rw [bind_ok_eq (peek_nil hs hrel.2.2.1)]
  exact h r' _ s x S' (trel_pk_left hrel) hs hr hl

theorem Bd.bind_peekOrNull {f f' : UInt8 → P β} (h : Bd b (f b) (f' 0)) :
    Bd b (peekOrNull >>= f) (peekOrNull >>= f') := by
  rw [peekOrNull_bind, peekOrNull_bind]
  exact Bd.bind_peek h

/-- a scanner that is followed by a `peek`: at the boundary it measures nothing on either side -/
theorem Bd.bind_scan {g : List UInt8 → Nat} (hg : Scanner0 g) {f f' : List UInt8 → P β}
    (hmono : ∀ a, MonoOk (f a)) (h : Bd b (f []) (f' [])) :
    Bd b (PrefixDet.scan g >>= f) (PrefixDet.scan g >>= f') := by
  intro r' S s x S' hrel hs hr hl
  have hS : S.rd.rest = b :: r' := by rw [hrel.1, hs]; rfl
  obtain ⟨tk, S1, h1, h2⟩ := bind_ok hr
  unfold PrefixDet.scan at h1
  cases h1
  have hm := hmono _ _ x S' h2
  have hm' : S'.rd.rest.length ≤ (S.rd.consume (g S.rd.rest)).rest.length := hm
  rw [consume_rest, List.length_drop, hS] at hm'
  simp only [List.length_cons] at hm'
  have hg0 : g (b :: r') = 0 := by omega
  have hgn : g [] = 0 := by
    have := (hg [] (b :: r')).2
    simp only [List.nil_append, List.length_nil, Nat.le_zero_eq] at this
    rw [this hg0, hg0]
  have hsc : PrefixDet.scan g s = .ok [] { s with rd := s.rd.consume 0 } := by
    unfold PrefixDet.scan
    rw [hs, hgn]; rfl
  rw [bind_ok_eq hsc]
  rw [hS, hg0] at h2
  exact h r' _ _ x S' (trel_consume hrel 0 (Nat.zero_le _)) (by rw [consume_rest, hs]; rfl) h2 hl

theorem Bd.bind_parseWhitespace {f f' : Option UInt8 → P β} (hmono : ∀ o, MonoOk (f o))
    (h : Bd b (f (some b)) (f' none)) :
    Bd b (parseWhitespace >>= f) (parseWhitespace >>= f') := by
  rw [parseWhitespace_bind, parseWhitespace_bind]
  refine Bd.bind_scan wsLen_scanner0 (fun _ => ?_) (Bd.bind_peek h)
  intro S x S' hr
  obtain ⟨o, S1, hp, hf1⟩ := bind_ok hr
  have := hmono o S1 x S' hf1
  have h2 : S1.rd.rest = S.rd.rest := by
    cases hS : S.rd.rest with
    | nil => rw [(peek_nil_ok hS hp).2, hS]
    | cons c t => rw [peek_cons hS] at hp; cases hp; rw [pk_rest, hS]
  rw [h2] at this
  exact this

end bdrules

/-! ### monotonicity from the invariant lemmas of SpansInv.lean -/

/-- "at most `n` bytes are unread" is a stable predicate -/
instance lenLe_stable (n : Nat) : Stable (fun s : St => s.rd.rest.length ≤ n) where
  consume s k h := by
    show (s.rd.consume k).rest.length ≤ n
    rw [consume_rest, List.length_drop]; omega
  peeked _ _ h := h
  depth _ _ h := h

/-- "the source is of kind `m`" is a stable predicate -/
instance mode_stable (m : Mode) : Stable (fun s : St => s.rd.mode = m) where
  consume s k h := by
    show (s.rd.consume k).mode = m
    rw [consume_mode]; exact h
  peeked _ _ h := h
  depth _ _ h := h

/-- "the source does not fail" is a stable predicate -/
instance faulty_stable (b : Bool) : Stable (fun s : St => s.rd.faulty = b) where
  consume s k h := by
    show (s.rd.consume k).faulty = b
    rw [consume_faulty]; exact h
  peeked _ _ h := h
  depth _ _ h := h

theorem MonoOk.of_inv {α : Type} {m : P α}
    (h : ∀ n, Inv (fun s : St => s.rd.rest.length ≤ n) m) : MonoOk m := by
  intro S a S' hr
  have := h S.rd.rest.length S (Nat.le_refl _)
  rw [hr] at this
  exact this

end Reparse
end Parse
end Lexpr
