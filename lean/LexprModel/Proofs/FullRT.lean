/-
  FullRT — the round trip `print → parse` with *every* leaf kind: `#nil`, booleans, integers,
  floats (`Decimals.FloatOK`), characters, strings, symbols, keywords and byte vectors, in any
  nesting of lists, dotted lists and vectors of depth at most 127.

  * `atomRT_float_any`: `Decimals.atomRT_float` for every parser option set (the default-options
    hypothesis is only used for a digit-initial literal; with `leading_digit_symbols` the text is
    first read as a symbol and then recognised by the sub-parser `wholeNumber`).
  * `atomOKP_float`: float leaves for the structure theorem `ListRT.value_rtP`.
  * `C02_roundtrip_full`: every compatible printer / parser pair, floats and byte vectors included.
  * `C01_roundtrip_full`: the default pair, stated with the predicates of `ListRTGlue.lean`
    (`SupportedAtom`) and `Decimals.lean` (`FloatOK`), byte vectors unrestricted; `.str` and `.io`
    corollaries through `Sources.lean` (`C01_roundtrip_full_sources`, `C02_roundtrip_full_sources`);
    `C01_roundtrip_plain` is the default pair with the larger name set of `symbolPlainFor`.
  * `C01_text_valid` / `C02_text_valid`: the printed text is well-formed UTF-8 (ryu is only
    required to write ASCII for the float leaves of the value, which `FloatOK` implies).

  Importing `Sources.lean` next to `AtomRT.lean` needs the four renames made in
  SymTerm / Fault / StrSlice (`symTermSlice_eq_io`, `symLen_append_lt`, `consume_rest_ss`,
  `consume_mode_ss`).
-/
import LexprModel.Proofs.DialectStructRT
import LexprModel.Proofs.Decimals
import LexprModel.Proofs.Sources
import LexprModel.Proofs.Utf8Valid
namespace Lexpr
namespace FullRT
open Parse F64 Numbers Decimals Spec

/-! ## 1. A decimal literal under the leading-digit option -/

/-- the bytes a decimal literal is made of -/
def litByte (b : UInt8) : Bool :=
  isDigit b || b == 46 || b == 101 || b == 69 || b == 43 || b == 45

theorem litByte_facts : ∀ b : UInt8, litByte b = true → symTermSlice b = false ∧ b < 0x80 := by
  apply forall_u8; decide +kernel

theorem litByte_digit {b : UInt8} (h : isDigit b = true) : litByte b = true := by
  simp [litByte, h]

theorem ExpPart.text_bytes (e : ExpPart) (h : e.WF) : ∀ b ∈ e.text, litByte b = true := by
  obtain ⟨hm, hs, -, hd⟩ := h
  intro b hb
  simp only [ExpPart.text, List.mem_cons, List.mem_append] at hb
  rcases hb with rfl | hb | hb
  · rcases hm with h | h <;> rw [h] <;> decide
  · rcases hs with h | h | h <;> rw [h] at hb <;> simp at hb <;> subst hb <;> decide
  · exact litByte_digit (hd b hb)

theorem DecLit.text_bytes (L : DecLit) (h : L.WF) : ∀ b ∈ L.text, litByte b = true := by
  obtain ⟨ip, fp, ex⟩ := L
  obtain ⟨-, hip, hfp, hex, -⟩ := h
  intro b hb
  simp only [DecLit.text, List.mem_append] at hb
  rcases hb with hb | hb | hb
  · exact litByte_digit (hip b hb)
  · cases fp with
    | none => simp [fracText] at hb
    | some f =>
      simp only [fracText, List.mem_cons] at hb
      rcases hb with rfl | hb
      · decide
      · exact litByte_digit ((hfp f rfl).2 b hb)
  · cases ex with
    | none => simp [expText] at hb
    | some e => exact ExpPart.text_bytes e (hex e rfl) b hb

/-- the sub-parser of the leading-digit path recognises a whole literal -/
theorem wholeNumber_lit (cfg : Cfg) (L : DecLit) (g : Nat) (hwf : L.WF) (hS : L.sig ≤ u64Max)
    (hsmall : L.Small) (hparts : ∀ u, f64FromParts cfg true L.sig L.exp10 u = .ok g u) :
    wholeNumber cfg L.text = some (.flt g) := by
  unfold wholeNumber
  simp only
  rw [scan_lit cfg (L.text.length + 1) true L [] { rd := { mode := .slice, rest := L.text } } hwf
    (by simp) (by simp [ScanStop, isDigit]) (fun _ => rfl) hS hsmall (Nat.le_refl _)]
  simp [hparts, Number.ofF64]

/-- `Decimals.token_lit_pos` for every parser option set. -/
theorem token_lit_pos_any (cfg : Cfg) (fuel : Nat) (L : DecLit) (rest : List UInt8)
    (s : St) (g : Nat) (pk : UInt8)
    (hwf : L.WF) (hrest : s.rd.rest = L.text ++ rest) (hpk : L.text.head? = some pk)
    (hF : Follow rest)
    (hf : rest = [] → s.rd.faulty = false) (hS : L.sig ≤ u64Max) (hsmall : L.Small)
    (hfuel : L.text.length + 1 ≤ fuel)
    (hparts : ∀ u, f64FromParts cfg true L.sig L.exp10 u = .ok g u) :
    parseToken cfg fuel pk s =
      .ok (.number (.flt g)) (adv s L.text.length (endPeek s rest)) := by
  obtain ⟨c, tl, htx, hc⟩ := L.text_head hwf
  have : pk = c := by rw [htx] at hpk; simpa using hpk.symm
  subst this
  obtain ⟨h1, h2, h3⟩ := isDigit_facts pk hc
  cases hl : cfg.opts.leadingDigit
  · have hdisp : parseToken cfg fuel pk =
        (do let n ← parseNumToken cfg fuel true; pure (.number n)) := by
      simp only [beq_eq_false_iff_ne, ne_eq] at h1 h2 h3
      unfold parseToken
      simp [h1, h2, h3, hc, hl]
    rw [hdisp]
    simp only [bind_apply, numToken_lit cfg fuel true L rest s g hwf hrest (delimStop_of_follow hF)
      hf hS hsmall hfuel hparts, pure_apply]
  · have hb := DecLit.text_bytes L hwf
    have hnt : ∀ b ∈ L.text, symTermSlice b = false := fun b h => (litByte_facts b (hb b h)).1
    have hval : Utf8.valid L.text = true := ascii_valid _ (fun b h => (litByte_facts b (hb b h)).2)
    have hdot : [] ++ L.text ≠ [46] := by
      rw [htx]; intro h
      have : pk = 46 := by simpa using (List.cons.inj h).1
      subst this; exact absurd hc (by decide)
    have hsym := parseSymbolBytes_ok [] L.text rest s hrest hF hf hnt hdot
      (Or.inr (by simpa using hval))
    unfold parseToken
    simp only [h1, h2, h3, hc, hl, Bool.false_eq_true, if_false, if_true, bind_apply, hsym,
      List.nil_append, wholeNumber_lit cfg L g hwf hS hsmall hparts, pure_apply]

/-! ## 2. Float leaves for every parser option set -/

theorem atomTextP_flt (p : Print.Options) (ryu : Nat → List UInt8) (b : Nat) :
    atomTextP p ryu (.number (.flt b)) = ryu b := by
  simp [atomTextP, Print.atomEmits, Print.flatten, Print.Emit.bytes, Print.numberText]

/-- **atomRT_float_any.**  `Decimals.atomRT_float` without the hypothesis that the parser options
    are the default ones: what ryu writes for a double `b` (`RyuSpec`), inside the exact window of
    the build, is read back by `parse_token` as `Float(b)` bit for bit under all 1536 parser option
    sets (the text does not depend on the printer options either).  With `leading_digit_symbols`
    a digit-initial text is first scanned as a symbol and then recognised by the sub-parser. -/
theorem atomRT_float_any (cfg : Cfg) (ryu : Nat → List UInt8) (fuel : Nat) (s : St)
    (rest : List UInt8) (b : Nat) (d : RyuDec) (pk : UInt8)
    (hb : b < 2 ^ 64) (hspec : RyuSpec ryu b d)
    (hbuild : (cfg.fast = true ∧ (∀ k, k ≤ 22 → Exact (cfg.pow10 k) (10 ^ k)) ∧
                d.S < 2 ^ 53 ∧ -22 ≤ d.E ∧ d.E ≤ 22) ∨
              (cfg.fast = false ∧ isInf b = false))
    (hrest : s.rd.rest = ryu b ++ rest)
    (hpk : (ryu b).head? = some pk)
    (hfuel : (ryu b).length + 1 ≤ fuel)
    (hF : Follow rest) (hf : rest = [] → s.rd.faulty = false) :
    parseToken cfg fuel pk s =
      .ok (.number (.flt b)) (adv s (ryu b).length (endPeek s rest)) := by
  obtain ⟨hwf, htext, hsign, hround⟩ := hspec
  have hfacts := d.litFacts hwf
  have hS17 := d.S_lt hwf
  have hSle : d.S ≤ u64Max := Nat.le_of_lt (Nat.lt_of_lt_of_le hS17 (by decide))
  have hrn : decRn d.S d.E = b % signBit := by rw [d.decRn_SE hwf, hround]
  have hEB : ExactBuild cfg d.lit.sig d.lit.exp10 := by
    rw [hfacts.sig, hfacts.exp]
    rcases hbuild with h | ⟨hfast, hinf⟩
    · exact Or.inl h
    · refine Or.inr ⟨hfast, hSle, ?_⟩
      rw [hrn]
      exact lt_inf_of_not_isInf (by rw [← hrn]; exact rn_le_inf _ _) (by rw [isInf_mod]; exact hinf)
  have hparts : ∀ u, f64FromParts cfg (!d.neg) d.lit.sig d.lit.exp10 u = .ok b u := by
    intro u
    rw [hEB.parts, hfacts.sig, hfacts.exp, hrn, hsign, signed_bits hb]
  rw [htext] at hrest hpk hfuel ⊢
  unfold RyuDec.text at hrest hpk hfuel ⊢
  cases hneg : d.neg with
  | false =>
    simp only [hneg, Bool.false_eq_true, if_false, List.nil_append, Bool.not_false] at hrest hpk hfuel hparts ⊢
    exact token_lit_pos_any cfg fuel d.lit rest s b pk hfacts.wf hrest hpk hF hf
      (by rw [hfacts.sig]; exact hSle) hfacts.small hfuel hparts
  | true =>
    simp only [hneg, if_true, List.cons_append, List.nil_append, Bool.not_true, List.length_cons,
      List.head?_cons, Option.some.injEq] at hrest hpk hfuel hparts ⊢
    subst hpk
    exact token_lit_neg cfg fuel d.lit rest s b hfacts.wf hrest (delimStop_of_follow hF) hf
      (by rw [hfacts.sig]; exact hSle) hfacts.small (by omega) hparts

/-- the first byte of what ryu writes: a digit or `-` -/
theorem float_head (cfg : Cfg) (ryu : Nat → List UInt8) (b : Nat) (h : FloatOK cfg ryu b) :
    ListRT.ElemHead (ryu b) := by
  obtain ⟨-, d, hspec, -⟩ := h
  have hfacts := d.litFacts hspec.wf
  rw [hspec.text_eq]
  unfold RyuDec.text
  obtain ⟨c, tl, hc, hdig⟩ := d.lit.text_head hfacts.wf
  cases d.neg with
  | false =>
    simp only [Bool.false_eq_true, if_false, List.nil_append, hc]
    exact ListRT.head_of_nonterm c tl (digit_head_facts c hdig).1 (digit_head_facts c hdig).2
  | true =>
    simp only [if_true, List.cons_append, List.nil_append]
    exact ListRT.head_of_nonterm 45 _ (by decide) (by decide)

/-- **dialectRT_float**: the float case missing from `dialectRT_atom`. -/
theorem dialectRT_float (cfg : Cfg) (p : Print.Options) (ryu : Nat → List UInt8) (fuel : Nat)
    (s : St) (rest : List UInt8) (b : Nat) (h : FloatOK cfg ryu b)
    (hrest : s.rd.rest = atomTextP p ryu (.number (.flt b)) ++ rest)
    (hfuel : (atomTextP p ryu (.number (.flt b))).length + 1 ≤ fuel)
    (hF : Follow rest) (hf : rest = [] → s.rd.faulty = false) :
    LexesAs cfg fuel s (atomTextP p ryu (.number (.flt b))) (.number (.flt b)) ∧
      fold p cfg.opts (.number (.flt b)) = .number (.flt b) := by
  refine ⟨?_, by simp [fold]⟩
  rw [atomTextP_flt] at hrest hfuel ⊢
  obtain ⟨c, tl, ht, h1, h2, -⟩ := float_head cfg ryu b h
  obtain ⟨hb, d, hspec, hbuild⟩ := h
  exact ⟨c, endPeek s rest, by rw [ht]; rfl, h1, h2,
    atomRT_float_any cfg ryu fuel s rest b d c hb hspec hbuild hrest (by rw [ht]; rfl) hfuel hF hf⟩

/-- **atomOKP_float.**  A float with `FloatOK` is a good leaf for the structure theorem
    `ListRT.value_rtP` under every printer / parser pair (no compatibility needed). -/
theorem atomOKP_float (p : Print.Options) (cfg : Cfg) (ryu : Nat → List UInt8) (b : Nat)
    (h : FloatOK cfg ryu b) : ListRT.AtomOKP p cfg ryu (.number (.flt b)) := by
  refine ⟨rfl, rfl, by simp, by rw [atomTextP_flt]; exact float_head cfg ryu b h, ?_⟩
  intro s rest fuel hf hg hr hfu _
  obtain ⟨F, rfl⟩ : ∃ F, fuel = F + 1 := ⟨fuel - 1, by omega⟩
  have hr1 : (adv s 0 (s.rd.mode == .io)).rd.rest = atomTextP p ryu (.number (.flt b)) ++ rest := by
    simp [hr]
  obtain ⟨hl, hfo⟩ := dialectRT_float cfg p ryu
    ((atomTextP p ryu (.number (.flt b)) ++ rest).length + 1) (adv s 0 (s.rd.mode == .io)) rest b h
    hr1 (by simp) ((ListRT.follow_iff rest).mp hf) (by simpa using fun _ => hg.2)
  rw [hfo]
  obtain ⟨q, hq⟩ := nextValue_of_lexes cfg F s _ rest _ _ hr hl rfl
  exact ListRT.runs_of_adv _ s _ _ q rest hg hq (by simp [hr])

/-! ## 3. Values all of whose leaves satisfy a predicate -/

mutual
/-- every atom leaf of `v` (through car, cdr and vector elements; the empty list is not a leaf)
    satisfies `P` -/
def AllLeaves (P : Value → Prop) : Value → Prop
  | .cons a d => AllLeaves P a ∧ AllLeaves P d
  | .vector xs => AllLeavesSeq P xs
  | .null => True
  | .nil => P .nil
  | .bool b => P (.bool b)
  | .number n => P (.number n)
  | .char c => P (.char c)
  | .string x => P (.string x)
  | .symbol x => P (.symbol x)
  | .keyword x => P (.keyword x)
  | .bytes x => P (.bytes x)
def AllLeavesSeq (P : Value → Prop) : List Value → Prop
  | [] => True
  | x :: xs => AllLeaves P x ∧ AllLeavesSeq P xs
end

/-- the values `AllLeaves` applies its predicate to -/
def IsLeaf (v : Value) : Prop := v.isCons = false ∧ v.isVector = false ∧ v ≠ .null

mutual
theorem AllLeaves.mono {P Q : Value → Prop} (hpq : ∀ v, IsLeaf v → P v → Q v) :
    ∀ v : Value, AllLeaves P v → AllLeaves Q v
  | .cons a d, h => by
    simp only [AllLeaves] at h ⊢
    exact ⟨AllLeaves.mono hpq a h.1, AllLeaves.mono hpq d h.2⟩
  | .vector xs, h => by
    simp only [AllLeaves] at h ⊢
    exact AllLeavesSeq.mono hpq xs h
  | .null, _ => by simp only [AllLeaves]
  | .nil, h => by simp only [AllLeaves] at h ⊢; exact hpq _ ⟨rfl, rfl, by simp⟩ h
  | .bool _, h => by simp only [AllLeaves] at h ⊢; exact hpq _ ⟨rfl, rfl, by simp⟩ h
  | .number _, h => by simp only [AllLeaves] at h ⊢; exact hpq _ ⟨rfl, rfl, by simp⟩ h
  | .char _, h => by simp only [AllLeaves] at h ⊢; exact hpq _ ⟨rfl, rfl, by simp⟩ h
  | .string _, h => by simp only [AllLeaves] at h ⊢; exact hpq _ ⟨rfl, rfl, by simp⟩ h
  | .symbol _, h => by simp only [AllLeaves] at h ⊢; exact hpq _ ⟨rfl, rfl, by simp⟩ h
  | .keyword _, h => by simp only [AllLeaves] at h ⊢; exact hpq _ ⟨rfl, rfl, by simp⟩ h
  | .bytes _, h => by simp only [AllLeaves] at h ⊢; exact hpq _ ⟨rfl, rfl, by simp⟩ h
theorem AllLeavesSeq.mono {P Q : Value → Prop} (hpq : ∀ v, IsLeaf v → P v → Q v) :
    ∀ xs : List Value, AllLeavesSeq P xs → AllLeavesSeq Q xs
  | [], _ => by simp only [AllLeavesSeq]
  | x :: xs, h => by
    simp only [AllLeavesSeq] at h ⊢
    exact ⟨AllLeaves.mono hpq x h.1, AllLeavesSeq.mono hpq xs h.2⟩
end

theorem allLeavesSeq_iff {P : Value → Prop} (xs : List Value) :
    AllLeavesSeq P xs ↔ ∀ x ∈ xs, AllLeaves P x := by
  induction xs with
  | nil => simp [AllLeavesSeq]
  | cons x xs ih => simp [AllLeavesSeq, ih]

/-- a proper list -/
theorem allLeaves_list {P : Value → Prop} (xs : List Value) :
    AllLeaves P (Value.list xs) ↔ ∀ x ∈ xs, AllLeaves P x := by
  induction xs with
  | nil => simp [Value.list, Value.append, AllLeaves]
  | cons x xs ih =>
    have : Value.list (x :: xs) = .cons x (Value.list xs) := by simp [Value.list, Value.append]
    rw [this]
    simp only [AllLeaves, List.mem_cons, forall_eq_or_imp]
    exact and_congr_right fun _ => ih

mutual
theorem allAtomsOK_of_leaves (cfg : Cfg) (ryu : Nat → List UInt8) :
    ∀ v : Value, AllLeaves (ListRT.AtomOK cfg ryu) v → ListRT.AllAtomsOK cfg ryu v
  | .cons a d, h => by
    simp only [AllLeaves] at h
    simp only [ListRT.AllAtomsOK]
    exact ⟨allAtomsOK_of_leaves cfg ryu a h.1, allAtomsOK_of_leaves cfg ryu d h.2⟩
  | .vector xs, h => by
    simp only [AllLeaves] at h
    simp only [ListRT.AllAtomsOK]
    exact allAtomsOKSeq_of_leaves cfg ryu xs h
  | .null, _ => by simp only [ListRT.AllAtomsOK]
  | .nil, h => by simp only [AllLeaves] at h; simp only [ListRT.AllAtomsOK]; exact h
  | .bool _, h => by simp only [AllLeaves] at h; simp only [ListRT.AllAtomsOK]; exact h
  | .number _, h => by simp only [AllLeaves] at h; simp only [ListRT.AllAtomsOK]; exact h
  | .char _, h => by simp only [AllLeaves] at h; simp only [ListRT.AllAtomsOK]; exact h
  | .string _, h => by simp only [AllLeaves] at h; simp only [ListRT.AllAtomsOK]; exact h
  | .symbol _, h => by simp only [AllLeaves] at h; simp only [ListRT.AllAtomsOK]; exact h
  | .keyword _, h => by simp only [AllLeaves] at h; simp only [ListRT.AllAtomsOK]; exact h
  | .bytes _, h => by simp only [AllLeaves] at h; simp only [ListRT.AllAtomsOK]; exact h
theorem allAtomsOKSeq_of_leaves (cfg : Cfg) (ryu : Nat → List UInt8) :
    ∀ xs : List Value, AllLeavesSeq (ListRT.AtomOK cfg ryu) xs → ListRT.AllAtomsOKSeq cfg ryu xs
  | [], _ => by simp only [ListRT.AllAtomsOKSeq]
  | x :: xs, h => by
    simp only [AllLeavesSeq] at h
    simp only [ListRT.AllAtomsOKSeq]
    exact ⟨allAtomsOK_of_leaves cfg ryu x h.1, allAtomsOKSeq_of_leaves cfg ryu xs h.2⟩
end

mutual
theorem allAtomsOKP_of_leaves (p : Print.Options) (cfg : Cfg) (ryu : Nat → List UInt8) :
    ∀ v : Value, AllLeaves (ListRT.AtomOKP p cfg ryu) v → ListRT.AllAtomsOKP p cfg ryu v
  | .cons a d, h => by
    simp only [AllLeaves] at h
    simp only [ListRT.AllAtomsOKP]
    exact ⟨allAtomsOKP_of_leaves p cfg ryu a h.1, allAtomsOKP_of_leaves p cfg ryu d h.2⟩
  | .vector xs, h => by
    simp only [AllLeaves] at h
    simp only [ListRT.AllAtomsOKP]
    exact allAtomsOKSeqP_of_leaves p cfg ryu xs h
  | .null, _ => by simp only [ListRT.AllAtomsOKP]
  | .nil, h => by simp only [AllLeaves] at h; simp only [ListRT.AllAtomsOKP]; exact h
  | .bool _, h => by simp only [AllLeaves] at h; simp only [ListRT.AllAtomsOKP]; exact h
  | .number _, h => by simp only [AllLeaves] at h; simp only [ListRT.AllAtomsOKP]; exact h
  | .char _, h => by simp only [AllLeaves] at h; simp only [ListRT.AllAtomsOKP]; exact h
  | .string _, h => by simp only [AllLeaves] at h; simp only [ListRT.AllAtomsOKP]; exact h
  | .symbol _, h => by simp only [AllLeaves] at h; simp only [ListRT.AllAtomsOKP]; exact h
  | .keyword _, h => by simp only [AllLeaves] at h; simp only [ListRT.AllAtomsOKP]; exact h
  | .bytes _, h => by simp only [AllLeaves] at h; simp only [ListRT.AllAtomsOKP]; exact h
theorem allAtomsOKSeqP_of_leaves (p : Print.Options) (cfg : Cfg) (ryu : Nat → List UInt8) :
    ∀ xs : List Value, AllLeavesSeq (ListRT.AtomOKP p cfg ryu) xs →
      ListRT.AllAtomsOKSeqP p cfg ryu xs
  | [], _ => by simp only [ListRT.AllAtomsOKSeqP]
  | x :: xs, h => by
    simp only [AllLeavesSeq] at h
    simp only [ListRT.AllAtomsOKSeqP]
    exact ⟨allAtomsOKP_of_leaves p cfg ryu x h.1, allAtomsOKSeqP_of_leaves p cfg ryu xs h.2⟩
end

/-! ## 4. C02 with every leaf kind -/

/-- A leaf that is plain for the pair `p`, `cfg`: `ListRT.LeafPlainFor` (`#nil`, booleans, `u64` /
    negative `i64` integers, scalar characters, valid UTF-8 strings, byte vectors with any content,
    names that are `symbolPlainFor` / `keywordPlainFor` without a misleading leading dot) or a
    float with `Decimals.FloatOK` (ryu meets `RyuSpec` for that double and — fast build — the
    text lies in the exact window; build without `fast-float-parsing`: the double is finite). -/
def LeafPlainForF (p : Print.Options) (cfg : Cfg) (ryu : Nat → List UInt8) : Value → Prop
  | .number (.flt b) => FloatOK cfg ryu b
  | v => ListRT.LeafPlainFor p cfg v

/-- `ListRT.AllPlainFor` extended by float leaves. -/
def AllPlainForF (p : Print.Options) (cfg : Cfg) (ryu : Nat → List UInt8) (v : Value) : Prop :=
  AllLeaves (LeafPlainForF p cfg ryu) v

theorem atomOKP_of_leafF (p : Print.Options) (cfg : Cfg) (ryu : Nat → List UInt8)
    (hc : Compatible p cfg.opts = true) (v : Value) (hl : IsLeaf v)
    (h : LeafPlainForF p cfg ryu v) : ListRT.AtomOKP p cfg ryu v := by
  cases v with
  | number n =>
    cases n with
    | flt b => exact atomOKP_float p cfg ryu b h
    | pos n => exact ListRT.atomOKP_of_leaf p cfg ryu _ hc hl.2.2 h
    | neg i => exact ListRT.atomOKP_of_leaf p cfg ryu _ hc hl.2.2 h
  | _ => exact ListRT.atomOKP_of_leaf p cfg ryu _ hc hl.2.2 h

theorem allAtomsOKP_of_plainF (p : Print.Options) (cfg : Cfg) (ryu : Nat → List UInt8)
    (hc : Compatible p cfg.opts = true) (v : Value) (h : AllPlainForF p cfg ryu v) :
    ListRT.AllAtomsOKP p cfg ryu v :=
  allAtomsOKP_of_leaves p cfg ryu v (AllLeaves.mono (atomOKP_of_leafF p cfg ryu hc) v h)

mutual
/-- the float-free predicate of `DialectStructRT.lean` is a special case -/
theorem allPlainForF_of_plain (p : Print.Options) (cfg : Cfg) (ryu : Nat → List UInt8) :
    ∀ v : Value, ListRT.AllPlainFor p cfg v → AllLeaves (LeafPlainForF p cfg ryu) v
  | .cons a d, h => by
    simp only [ListRT.AllPlainFor] at h
    simp only [AllLeaves]
    exact ⟨allPlainForF_of_plain p cfg ryu a h.1, allPlainForF_of_plain p cfg ryu d h.2⟩
  | .vector xs, h => by
    simp only [ListRT.AllPlainFor] at h
    simp only [AllLeaves]
    exact allPlainForFSeq_of_plain p cfg ryu xs h
  | .null, _ => by simp only [AllLeaves]
  | .nil, _ => by simp only [AllLeaves, LeafPlainForF]; exact ⟨trivial, rfl⟩
  | .bool _, _ => by simp only [AllLeaves, LeafPlainForF]; exact ⟨trivial, rfl⟩
  | .number (.flt b), h => by simp only [ListRT.AllPlainFor] at h; exact absurd h.1 id
  | .number (.pos n), h => by simp only [ListRT.AllPlainFor] at h; simp only [AllLeaves, LeafPlainForF]; exact h
  | .number (.neg i), h => by simp only [ListRT.AllPlainFor] at h; simp only [AllLeaves, LeafPlainForF]; exact h
  | .char c, h => by simp only [ListRT.AllPlainFor] at h; simp only [AllLeaves, LeafPlainForF]; exact h
  | .string x, h => by simp only [ListRT.AllPlainFor] at h; simp only [AllLeaves, LeafPlainForF]; exact h
  | .symbol x, h => by simp only [ListRT.AllPlainFor] at h; simp only [AllLeaves, LeafPlainForF]; exact h
  | .keyword x, h => by simp only [ListRT.AllPlainFor] at h; simp only [AllLeaves, LeafPlainForF]; exact h
  | .bytes _, _ => by simp only [AllLeaves, LeafPlainForF]; exact ⟨trivial, rfl⟩
theorem allPlainForFSeq_of_plain (p : Print.Options) (cfg : Cfg) (ryu : Nat → List UInt8) :
    ∀ xs : List Value, ListRT.AllPlainForSeq p cfg xs → AllLeavesSeq (LeafPlainForF p cfg ryu) xs
  | [], _ => by simp only [AllLeavesSeq]
  | x :: xs, h => by
    simp only [ListRT.AllPlainForSeq] at h
    simp only [AllLeavesSeq]
    exact ⟨allPlainForF_of_plain p cfg ryu x h.1, allPlainForFSeq_of_plain p cfg ryu xs h.2⟩
end

/-- **C02_structure_full**: `ListRT.dialectRT_structure` with float leaves — `next_value` in any
    non-faulty slice state, in any follow context. -/
theorem C02_structure_full (cfg : Cfg) (p : Print.Options) (ryu : Nat → List UInt8)
    (hc : Compatible p cfg.opts = true) (v : Value) (h : AllPlainForF p cfg ryu v)
    (s : St) (rest : List UInt8) (fuel : Nat) (hf : ListRT.Follow rest)
    (hm : s.rd.mode = .slice) (hfa : s.rd.faulty = false)
    (hr : s.rd.rest = Print.text p ryu v ++ rest)
    (hfu : fuel ≥ 2 * s.rd.rest.length + 3) (hn : ListRT.nestingP p v + 1 ≤ s.depth) :
    ∃ s', nextValue cfg fuel s = .ok (some (fold p cfg.opts v)) s' ∧ s'.rd.rest = rest ∧
      s'.rd.mode = .slice ∧ s'.rd.faulty = false ∧ s'.depth = s.depth := by
  obtain ⟨s', e, r, ⟨gm, gf⟩, d⟩ :=
    ListRT.value_rtP p cfg ryu (ListRT.compatible_brackets p cfg.opts hc) v
      (allAtomsOKP_of_plainF p cfg ryu hc v h) s rest fuel hf ⟨hm, hfa⟩ hr hfu hn
  exact ⟨s', e, r, gm, gf, d⟩

/-- **C02_roundtrip_full** (exact depth measure): `from_slice_custom(to_string_custom(v, p), r) =
    Ok(fold p r v)` for every compatible pair `p`, `r = cfg.opts`, every value whose leaves are
    plain for the pair, floats with `FloatOK` and byte vectors included, `nestingP p v ≤ 127`. -/
theorem C02_roundtrip_full_exact (cfg : Cfg) (p : Print.Options) (ryu : Nat → List UInt8)
    (hc : Compatible p cfg.opts = true) (v : Value) (h : AllPlainForF p cfg ryu v)
    (hn : ListRT.nestingP p v ≤ 127) :
    ∃ s', fromTrait cfg (initSt .slice (Print.text p ryu v)) = .ok (fold p cfg.opts v) s' ∧
      s'.rd.rest = [] ∧ s'.depth = 128 := by
  have hv := ListRT.value_rtP p cfg ryu (ListRT.compatible_brackets p cfg.opts hc) v
    (allAtomsOKP_of_plainF p cfg ryu hc v h) (initSt .slice (Print.text p ryu v)) []
    (2 * (initSt .slice (Print.text p ryu v)).rd.rest.length + 4) (Or.inl rfl) ⟨rfl, rfl⟩
    (by simp [initSt]) (by omega) (by simp [initSt]; omega)
  obtain ⟨s', e, r, _, d⟩ := ListRT.fromTrait_of_nextValue cfg _ _ hv
  exact ⟨s', e, r, d⟩

/-- **C02_roundtrip_full**: the same with the nesting measure of `Spec/Dialect.lean` (`()` costs
    one level that `Spec.nesting` does not count, hence `< 127`). -/
theorem C02_roundtrip_full (cfg : Cfg) (p : Print.Options) (ryu : Nat → List UInt8)
    (hc : Compatible p cfg.opts = true) (v : Value) (h : AllPlainForF p cfg ryu v)
    (hn : Spec.nesting v < 127) :
    ∃ s', fromTrait cfg (initSt .slice (Print.text p ryu v)) = .ok (fold p cfg.opts v) s' ∧
      s'.rd.rest = [] ∧ s'.depth = 128 :=
  C02_roundtrip_full_exact cfg p ryu hc v h (by have := ListRT.nestingP_le p v; omega)

/-! ## 5. C01 with every leaf kind -/

/-- The leaves of `C01_roundtrip_full`: `ListRT.SupportedAtom` (`#nil`, booleans, `u64` / negative
    `i64` integers, scalar characters, valid UTF-8 strings, plain-identifier symbols and keywords),
    floats with `Decimals.FloatOK`, and byte vectors (any bytes). -/
def LeafFull (cfg : Cfg) (ryu : Nat → List UInt8) : Value → Prop
  | .number (.flt b) => FloatOK cfg ryu b
  | .bytes _ => True
  | v => ListRT.SupportedAtom v

/-- every leaf of `v` is a `LeafFull` -/
def AllSupportedFull (cfg : Cfg) (ryu : Nat → List UInt8) (v : Value) : Prop :=
  AllLeaves (LeafFull cfg ryu) v

/-- a byte vector leaf under the default pair, from the dialect-generic atom theorem -/
theorem atomOK_bytes (cfg : Cfg) (ho : cfg.opts = Options.default) (ryu : Nat → List UInt8)
    (x : List UInt8) : ListRT.AtomOK cfg ryu (.bytes x) := by
  have hc : Compatible Print.Options.default cfg.opts = true := by rw [ho]; decide
  obtain ⟨h1, h2, h3, h4, h5⟩ :=
    ListRT.atomOKP_of_leaf Print.Options.default cfg ryu (.bytes x) hc (by simp) ⟨trivial, rfl⟩
  refine ⟨h1, h2, h3, h4, ?_⟩
  intro s rest fuel hf hg hr hfu hd
  have := h5 s rest fuel hf hg hr hfu (by simpa [ListRT.nestingP] using hd)
  simpa [fold, Print.Options.default] using this

theorem atomOK_of_leafFull (cfg : Cfg) (ho : cfg.opts = Options.default) (ryu : Nat → List UInt8)
    (v : Value) (h : LeafFull cfg ryu v) : ListRT.AtomOK cfg ryu v := by
  cases v with
  | number n =>
    cases n with
    | flt b => exact atomOK_float cfg ho ryu b h
    | pos n => exact ListRT.atomOK_supported cfg ho ryu _ h
    | neg i => exact ListRT.atomOK_supported cfg ho ryu _ h
  | bytes x => exact atomOK_bytes cfg ho ryu x
  | _ => exact ListRT.atomOK_supported cfg ho ryu _ h

theorem allAtomsOK_of_supportedFull (cfg : Cfg) (ho : cfg.opts = Options.default)
    (ryu : Nat → List UInt8) (v : Value) (h : AllSupportedFull cfg ryu v) :
    ListRT.AllAtomsOK cfg ryu v :=
  allAtomsOK_of_leaves cfg ryu v
    (AllLeaves.mono (fun v _ hv => atomOK_of_leafFull cfg ho ryu v hv) v h)

mutual
/-- `AllSupportedF` of `Decimals.lean` (no byte vectors) is a special case -/
theorem allSupportedFull_of_F (cfg : Cfg) (ryu : Nat → List UInt8) :
    ∀ v : Value, AllSupportedF cfg ryu v → AllLeaves (LeafFull cfg ryu) v
  | .cons a d, h => by
    simp only [AllSupportedF] at h
    simp only [AllLeaves]
    exact ⟨allSupportedFull_of_F cfg ryu a h.1, allSupportedFull_of_F cfg ryu d h.2⟩
  | .vector xs, h => by
    simp only [AllSupportedF] at h
    simp only [AllLeaves]
    exact allSupportedFullSeq_of_F cfg ryu xs h
  | .null, _ => by simp only [AllLeaves]
  | .nil, _ => by simp only [AllLeaves, LeafFull, ListRT.SupportedAtom]
  | .bool _, _ => by simp only [AllLeaves, LeafFull, ListRT.SupportedAtom]
  | .number (.flt b), h => by simp only [AllSupportedF] at h; simp only [AllLeaves, LeafFull]; exact h
  | .number (.pos n), h => by simp only [AllSupportedF] at h; simp only [AllLeaves, LeafFull]; exact h
  | .number (.neg i), h => by simp only [AllSupportedF] at h; simp only [AllLeaves, LeafFull]; exact h
  | .char c, h => by simp only [AllSupportedF] at h; simp only [AllLeaves, LeafFull]; exact h
  | .string x, h => by simp only [AllSupportedF] at h; simp only [AllLeaves, LeafFull]; exact h
  | .symbol x, h => by simp only [AllSupportedF] at h; simp only [AllLeaves, LeafFull]; exact h
  | .keyword x, h => by simp only [AllSupportedF] at h; simp only [AllLeaves, LeafFull]; exact h
  | .bytes _, h => by simp only [AllSupportedF] at h
theorem allSupportedFullSeq_of_F (cfg : Cfg) (ryu : Nat → List UInt8) :
    ∀ xs : List Value, AllSupportedFSeq cfg ryu xs → AllLeavesSeq (LeafFull cfg ryu) xs
  | [], _ => by simp only [AllLeavesSeq]
  | x :: xs, h => by
    simp only [AllSupportedFSeq] at h
    simp only [AllLeavesSeq]
    exact ⟨allSupportedFull_of_F cfg ryu x h.1, allSupportedFullSeq_of_F cfg ryu xs h.2⟩
end

/-- **C01_structure_full**: `next_value` reads the text of `v` back as `v` from any non-faulty
    slice state in any follow context, and restores the depth budget. -/
theorem C01_structure_full (cfg : Cfg) (ho : cfg.opts = Options.default)
    (ryu : Nat → List UInt8) (v : Value) (h : AllSupportedFull cfg ryu v)
    (s : St) (rest : List UInt8) (fuel : Nat) (hf : ListRT.Follow rest)
    (hm : s.rd.mode = .slice) (hfa : s.rd.faulty = false)
    (hr : s.rd.rest = Print.text Print.Options.default ryu v ++ rest)
    (hfu : fuel ≥ 2 * s.rd.rest.length + 3) (hn : ListRT.nesting v + 1 ≤ s.depth) :
    ∃ s', nextValue cfg fuel s = .ok (some v) s' ∧ s'.rd.rest = rest ∧
      s'.rd.mode = .slice ∧ s'.rd.faulty = false ∧ s'.depth = s.depth :=
  ListRT.C01_structure cfg ho ryu v (allAtomsOK_of_supportedFull cfg ho ryu v h) s rest fuel hf
    hm hfa hr hfu hn

/-- **C01_roundtrip_full.**  `from_slice(to_string(v)) = Ok(v)` with the default options on both
    sides, for every value of nesting at most 127 whose leaves are `#nil`, booleans, integers
    (`u64`, negative `i64`), floats with `FloatOK` (ryu meets `RyuSpec` for that double; default
    build: inside the exactness window; build without `fast-float-parsing`: every finite double),
    scalar characters, valid UTF-8 strings, plain-identifier symbols and keywords, and byte
    vectors with arbitrary content; all input is consumed and the recursion budget is back at
    128. -/
theorem C01_roundtrip_full (cfg : Cfg) (ho : cfg.opts = Options.default)
    (ryu : Nat → List UInt8) (v : Value) (h : AllSupportedFull cfg ryu v)
    (hn : ListRT.nesting v ≤ 127) :
    ∃ s', fromTrait cfg (initSt .slice (Print.text Print.Options.default ryu v)) = .ok v s' ∧
      s'.rd.rest = [] ∧ s'.depth = 128 :=
  ListRT.C01_roundtrip_partial cfg ho ryu v (allAtomsOK_of_supportedFull cfg ho ryu v h) hn

/-! ## 6. The printed text is well-formed UTF-8 (needed for the `&str` source) -/

/-- the two float printers agree on the float leaf `v` (vacuous for every other leaf) -/
def SameFloat (ryu ryu' : Nat → List UInt8) (v : Value) : Prop :=
  ∀ b, v = .number (.flt b) → ryu b = ryu' b

theorem atomEmits_congr (o : Print.Options) (ryu ryu' : Nat → List UInt8) (v : Value)
    (h : SameFloat ryu ryu' v) : Print.atomEmits o ryu v = Print.atomEmits o ryu' v := by
  cases v with
  | number n =>
    cases n with
    | flt b => simp [Print.atomEmits, Print.numberText, h b rfl]
    | pos n => rfl
    | neg i => rfl
  | _ => rfl

mutual
/-- the printed text depends on the float printer only through the float leaves of the value -/
theorem emits_congr (o : Print.Options) (ryu ryu' : Nat → List UInt8) :
    ∀ v : Value, AllLeaves (SameFloat ryu ryu') v → Print.emits o ryu v = Print.emits o ryu' v
  | .cons a d, h => by
    simp only [AllLeaves] at h
    simp only [Print.emits]
    rw [emits_congr o ryu ryu' a h.1, emitsTail_congr o ryu ryu' d h.2]
  | .vector xs, h => by
    simp only [AllLeaves] at h
    simp only [Print.emits]
    rw [emitsSeq_congr o ryu ryu' true xs h]
  | .null, _ => by simp only [Print.emits]; rfl
  | .nil, h => by simp only [Print.emits]; rfl
  | .bool _, h => by simp only [Print.emits]; rfl
  | .number n, h => by
    simp only [AllLeaves] at h; simp only [Print.emits]; exact atomEmits_congr o ryu ryu' _ h
  | .char _, h => by simp only [Print.emits]; rfl
  | .string _, h => by simp only [Print.emits]; rfl
  | .symbol _, h => by simp only [Print.emits]; rfl
  | .keyword _, h => by simp only [Print.emits]; rfl
  | .bytes _, h => by simp only [Print.emits]; rfl
theorem emitsTail_congr (o : Print.Options) (ryu ryu' : Nat → List UInt8) :
    ∀ v : Value, AllLeaves (SameFloat ryu ryu') v →
      Print.emitsTail o ryu v = Print.emitsTail o ryu' v
  | .cons a d, h => by
    simp only [AllLeaves] at h
    simp only [Print.emitsTail]
    rw [emits_congr o ryu ryu' a h.1, emitsTail_congr o ryu ryu' d h.2]
  | .vector xs, h => by
    simp only [AllLeaves] at h
    simp only [Print.emitsTail]
    rw [emitsSeq_congr o ryu ryu' true xs h]
  | .null, _ => by simp only [Print.emitsTail]
  | .nil, h => by simp only [Print.emitsTail]; rfl
  | .bool _, h => by simp only [Print.emitsTail]; rfl
  | .number n, h => by
    simp only [AllLeaves] at h; simp only [Print.emitsTail]; rw [atomEmits_congr o ryu ryu' _ h]
  | .char _, h => by simp only [Print.emitsTail]; rfl
  | .string _, h => by simp only [Print.emitsTail]; rfl
  | .symbol _, h => by simp only [Print.emitsTail]; rfl
  | .keyword _, h => by simp only [Print.emitsTail]; rfl
  | .bytes _, h => by simp only [Print.emitsTail]; rfl
theorem emitsSeq_congr (o : Print.Options) (ryu ryu' : Nat → List UInt8) :
    ∀ (first : Bool) (xs : List Value), AllLeavesSeq (SameFloat ryu ryu') xs →
      Print.emitsSeq o ryu first xs = Print.emitsSeq o ryu' first xs
  | _, [], _ => by simp only [Print.emitsSeq]
  | true, x :: xs, h => by
    simp only [AllLeavesSeq] at h
    simp only [Print.emitsSeq]
    rw [emits_congr o ryu ryu' x h.1, emitsSeq_congr o ryu ryu' false xs h.2]
  | false, x :: xs, h => by
    simp only [AllLeavesSeq] at h
    simp only [Print.emitsSeq]
    rw [emits_congr o ryu ryu' x h.1, emitsSeq_congr o ryu ryu' false xs h.2]
end

/-- `ryu` restricted to the doubles for which it writes ASCII -/
def ryuA (ryu : Nat → List UInt8) (b : Nat) : List UInt8 :=
  if (ryu b).all (fun x => decide (x < 0x80)) = true then ryu b else []

theorem ryuA_ascii (ryu : Nat → List UInt8) : ∀ b, ∀ x ∈ ryuA ryu b, x < 0x80 := by
  intro b x hx
  unfold ryuA at hx
  split at hx
  · rename_i h
    simpa using List.all_eq_true.mp h x hx
  · simp at hx

/-- a leaf whose text is well-formed: valid UTF-8 payload, ASCII float text -/
def LeafTextOK (ryu : Nat → List UInt8) (v : Value) : Prop :=
  Print.U8.TextValid v ∧ ∀ b, v = .number (.flt b) → ∀ x ∈ ryu b, x < 0x80

mutual
theorem textValid_of_leaves (ryu : Nat → List UInt8) :
    ∀ v : Value, AllLeaves (LeafTextOK ryu) v → Print.U8.TextValid v
  | .cons a d, h => by
    simp only [AllLeaves] at h
    simp only [Print.U8.TextValid]
    exact ⟨textValid_of_leaves ryu a h.1, textValid_of_leaves ryu d h.2⟩
  | .vector xs, h => by
    simp only [AllLeaves] at h
    simp only [Print.U8.TextValid]
    exact textValidList_of_leaves ryu xs h
  | .null, _ => by simp only [Print.U8.TextValid]
  | .nil, _ => by simp only [Print.U8.TextValid]
  | .bool _, _ => by simp only [Print.U8.TextValid]
  | .number _, _ => by simp only [Print.U8.TextValid]
  | .char _, _ => by simp only [Print.U8.TextValid]
  | .string _, h => by simp only [AllLeaves] at h; exact h.1
  | .symbol _, h => by simp only [AllLeaves] at h; exact h.1
  | .keyword _, h => by simp only [AllLeaves] at h; exact h.1
  | .bytes _, _ => by simp only [Print.U8.TextValid]
theorem textValidList_of_leaves (ryu : Nat → List UInt8) :
    ∀ xs : List Value, AllLeavesSeq (LeafTextOK ryu) xs → Print.U8.TextValidList xs
  | [], _ => by simp only [Print.U8.TextValidList]
  | x :: xs, h => by
    simp only [AllLeavesSeq] at h
    simp only [Print.U8.TextValidList]
    exact ⟨textValid_of_leaves ryu x h.1, textValidList_of_leaves ryu xs h.2⟩
end

/-- **text_valid_of_leaves**: for every printer option set the printed text is well-formed UTF-8
    when every string / symbol / keyword payload is, and ryu writes ASCII *for the float leaves
    of the value* (nothing is assumed about ryu elsewhere). -/
theorem text_valid_of_leaves (o : Print.Options) (ryu : Nat → List UInt8) (v : Value)
    (h : AllLeaves (LeafTextOK ryu) v) : Utf8.valid (Print.text o ryu v) = true := by
  have hc : Print.emits o ryu v = Print.emits o (ryuA ryu) v :=
    emits_congr o ryu (ryuA ryu) v (AllLeaves.mono (fun w _ hw b hb => by
      have := hw.2 b hb
      unfold ryuA
      rw [if_pos (by simpa [List.all_eq_true] using this)]) v h)
  unfold Print.text
  rw [hc]
  exact (C17.C17_print_valid_text o (ryuA_ascii ryu) (textValid_of_leaves ryu v h)).1

/-- what ryu writes for a `FloatOK` double is ASCII -/
theorem floatOK_ascii (cfg : Cfg) (ryu : Nat → List UInt8) (b : Nat) (h : FloatOK cfg ryu b) :
    ∀ x ∈ ryu b, x < 0x80 := by
  obtain ⟨-, d, hspec, -⟩ := h
  have hfacts := d.litFacts hspec.wf
  rw [hspec.text_eq]
  intro x hx
  unfold RyuDec.text at hx
  rcases List.mem_append.mp hx with hx | hx
  · split at hx
    · simp at hx; subst hx; decide
    · simp at hx
  · exact (litByte_facts x (DecLit.text_bytes d.lit hfacts.wf x hx)).2

theorem leafTextOK_of_full (cfg : Cfg) (ryu : Nat → List UInt8) (v : Value)
    (h : LeafFull cfg ryu v) : LeafTextOK ryu v := by
  cases v with
  | number n =>
    cases n with
    | flt b =>
      refine ⟨by simp only [Print.U8.TextValid], fun b' hb => ?_⟩
      cases hb; exact floatOK_ascii cfg ryu b h
    | pos n => exact ⟨by simp only [Print.U8.TextValid], fun b hb => by cases hb⟩
    | neg i => exact ⟨by simp only [Print.U8.TextValid], fun b hb => by cases hb⟩
  | string x => exact ⟨by simp only [Print.U8.TextValid]; exact h, fun b hb => by cases hb⟩
  | symbol x => exact ⟨by simp only [Print.U8.TextValid]; exact h.1.2, fun b hb => by cases hb⟩
  | keyword x => exact ⟨by simp only [Print.U8.TextValid]; exact h.2.2, fun b hb => by cases hb⟩
  | cons a d => exact False.elim h
  | vector xs => exact False.elim h
  | _ => exact ⟨by simp only [Print.U8.TextValid], fun b hb => by cases hb⟩

theorem leafTextOK_of_plainF (p : Print.Options) (cfg : Cfg) (ryu : Nat → List UInt8) (v : Value)
    (h : LeafPlainForF p cfg ryu v) : LeafTextOK ryu v := by
  cases v with
  | number n =>
    cases n with
    | flt b =>
      refine ⟨by simp only [Print.U8.TextValid], fun b' hb => ?_⟩
      cases hb; exact floatOK_ascii cfg ryu b h
    | pos n => exact ⟨by simp only [Print.U8.TextValid], fun b hb => by cases hb⟩
    | neg i => exact ⟨by simp only [Print.U8.TextValid], fun b hb => by cases hb⟩
  | string x => exact ⟨by simp only [Print.U8.TextValid]; exact h.1, fun b hb => by cases hb⟩
  | symbol x =>
    refine ⟨?_, fun b hb => by cases hb⟩
    have h1 : symbolPlainFor cfg x = true := h.1
    simp only [symbolPlainFor, Bool.and_eq_true] at h1
    simp only [Print.U8.TextValid]; exact h1.1.1.1.1.2
  | keyword x =>
    refine ⟨?_, fun b hb => by cases hb⟩
    have h1 : keywordPlainFor p cfg x = true := h.1
    simp only [keywordPlainFor, Bool.and_eq_true] at h1
    simp only [Print.U8.TextValid]; exact h1.1
  | cons a d => exact False.elim h.1
  | vector xs => exact False.elim h.1
  | _ => exact ⟨by simp only [Print.U8.TextValid], fun b hb => by cases hb⟩

/-- **C01_text_valid**: the text of a value with supported leaves is well-formed UTF-8. -/
theorem C01_text_valid (cfg : Cfg) (ryu : Nat → List UInt8) (o : Print.Options) (v : Value)
    (h : AllSupportedFull cfg ryu v) : Utf8.valid (Print.text o ryu v) = true :=
  text_valid_of_leaves o ryu v (AllLeaves.mono (fun w _ hw => leafTextOK_of_full cfg ryu w hw) v h)

/-- **C02_text_valid**: the same for leaves that are plain for a pair. -/
theorem C02_text_valid (cfg : Cfg) (p : Print.Options) (ryu : Nat → List UInt8) (v : Value)
    (h : AllPlainForF p cfg ryu v) : Utf8.valid (Print.text p ryu v) = true :=
  text_valid_of_leaves p ryu v
    (AllLeaves.mono (fun w _ hw => leafTextOK_of_plainF p cfg ryu w hw) v h)

/-! ## 7. The `&str` and stream sources -/

/-- `from_str` agrees with `from_slice` on well-formed text (from `C06_str_slice_fromTrait`) -/
theorem str_of_slice (cfg : Cfg) (bytes : List UInt8) (v : Value) (s' : St)
    (hv : Utf8.valid bytes = true) (h : fromTrait cfg (initSt .slice bytes) = .ok v s') :
    ∃ s'', fromTrait cfg (initSt .str bytes) = .ok v s'' ∧ s''.rd.rest = s'.rd.rest ∧
      s''.depth = s'.depth := by
  have hr := C06_str_slice_fromTrait cfg (StrSl.init bytes) (by simpa [initSt] using hv)
  rw [h] at hr
  cases h1 : fromTrait cfg (initSt .str bytes) with
  | ok a t =>
    rw [h1] at hr
    obtain ⟨rfl, hs⟩ := hr
    exact ⟨t, rfl, by rw [hs.rd], hs.depth⟩
  | err e t => rw [h1] at hr; exact hr.elim
  | panic q => rw [h1] at hr; exact hr.elim
  | fuel => rw [h1] at hr; exact hr.elim

/-- `from_reader` (a reader that never fails) agrees with `from_slice`
    (from `C06_slice_io_fromTrait`) -/
theorem io_of_slice (cfg : Cfg) (bytes : List UInt8) (v : Value) (s' : St)
    (h : fromTrait cfg (initSt .slice bytes) = .ok v s') :
    ∃ s'', fromTrait cfg (initSt .io bytes) = .ok v s'' ∧ s''.rd.rest = s'.rd.rest ∧
      s''.depth = s'.depth := by
  have hr := C06_slice_io_fromTrait cfg (Sim.init bytes)
  rw [h] at hr
  cases h1 : fromTrait cfg (initSt .io bytes) with
  | ok a t =>
    rw [h1] at hr
    obtain ⟨rfl, hs⟩ := hr
    exact ⟨t, rfl, hs.rest.symm, hs.depth.symm⟩
  | err e t => rw [h1] at hr; exact hr.elim
  | panic q => rw [h1] at hr; exact hr.elim
  | fuel => rw [h1] at hr; exact hr.elim

/-- **C01_roundtrip_full_sources**: `C01_roundtrip_full` for all three sources — `from_str`,
    `from_slice`, `from_reader` (fault-free reader) on the text of `to_string`. -/
theorem C01_roundtrip_full_sources (cfg : Cfg) (ho : cfg.opts = Options.default)
    (ryu : Nat → List UInt8) (v : Value) (h : AllSupportedFull cfg ryu v)
    (hn : ListRT.nesting v ≤ 127) (m : Mode) :
    ∃ s', fromTrait cfg (initSt m (Print.text Print.Options.default ryu v)) = .ok v s' ∧
      s'.rd.rest = [] ∧ s'.depth = 128 := by
  obtain ⟨s', e, r, d⟩ := C01_roundtrip_full cfg ho ryu v h hn
  cases m with
  | slice => exact ⟨s', e, r, d⟩
  | str =>
    obtain ⟨t, e', r', d'⟩ := str_of_slice cfg _ v s' (C01_text_valid cfg ryu _ v h) e
    exact ⟨t, e', r'.trans r, d'.trans d⟩
  | io =>
    obtain ⟨t, e', r', d'⟩ := io_of_slice cfg _ v s' e
    exact ⟨t, e', r'.trans r, d'.trans d⟩

/-- **C02_roundtrip_full_sources**: `C02_roundtrip_full` for all three sources. -/
theorem C02_roundtrip_full_sources (cfg : Cfg) (p : Print.Options) (ryu : Nat → List UInt8)
    (hc : Compatible p cfg.opts = true) (v : Value) (h : AllPlainForF p cfg ryu v)
    (hn : ListRT.nestingP p v ≤ 127) (m : Mode) :
    ∃ s', fromTrait cfg (initSt m (Print.text p ryu v)) = .ok (fold p cfg.opts v) s' ∧
      s'.rd.rest = [] ∧ s'.depth = 128 := by
  obtain ⟨s', e, r, d⟩ := C02_roundtrip_full_exact cfg p ryu hc v h hn
  cases m with
  | slice => exact ⟨s', e, r, d⟩
  | str =>
    obtain ⟨t, e', r', d'⟩ := str_of_slice cfg _ _ s' (C02_text_valid cfg p ryu v h) e
    exact ⟨t, e', r'.trans r, d'.trans d⟩
  | io =>
    obtain ⟨t, e', r', d'⟩ := io_of_slice cfg _ _ s' e
    exact ⟨t, e', r'.trans r, d'.trans d⟩

/-! ## 8. The default pair as an instance of the dialect-generic theorem

`SupportedAtom` (from `ListRTGlue.lean`) accepts ASCII-initial identifiers only; the dialect-generic
leaf predicate `LeafPlainFor` also accepts names that start with a non-ASCII alphabetic scalar
(`cfg.isAlphabetic`).  The default pair folds nothing, so `C02_roundtrip_full` specialises to a
second form of the C01 theorem with that larger set of names. -/

mutual
theorem fold_default (r : Options) : ∀ v : Value, fold Print.Options.default r v = v
  | .cons a d => by simp only [fold]; rw [fold_default r a, fold_default r d]
  | .vector xs => by simp only [fold]; rw [foldList_default r xs]
  | .null => by simp [fold]
  | .nil => by simp [fold, Print.Options.default]
  | .bool b => by simp [fold, Print.Options.default]
  | .number _ => by simp [fold]
  | .char _ => by simp [fold]
  | .string _ => by simp [fold]
  | .symbol _ => by simp [fold]
  | .keyword _ => by simp [fold]
  | .bytes b => by simp [fold, Print.Options.default]
theorem foldList_default (r : Options) : ∀ xs : List Value, foldList Print.Options.default r xs = xs
  | [] => by simp [foldList]
  | x :: xs => by simp only [foldList]; rw [fold_default r x, foldList_default r xs]
end

mutual
theorem nestingP_default : ∀ v : Value, ListRT.nestingP Print.Options.default v = ListRT.nesting v
  | .cons a d => by
    simp only [ListRT.nestingP, ListRT.nesting]; rw [nestingP_default a, nestingTailP_default d]
  | .vector xs => by simp only [ListRT.nestingP, ListRT.nesting]; rw [nestingSeqP_default xs]
  | .null => by simp [ListRT.nestingP, ListRT.nesting]
  | .nil => by simp [ListRT.nestingP, ListRT.nesting, Print.Options.default]
  | .bool _ => by simp [ListRT.nestingP, ListRT.nesting]
  | .number _ => by simp [ListRT.nestingP, ListRT.nesting]
  | .char _ => by simp [ListRT.nestingP, ListRT.nesting]
  | .string _ => by simp [ListRT.nestingP, ListRT.nesting]
  | .symbol _ => by simp [ListRT.nestingP, ListRT.nesting]
  | .keyword _ => by simp [ListRT.nestingP, ListRT.nesting]
  | .bytes _ => by simp [ListRT.nestingP, ListRT.nesting]
theorem nestingTailP_default :
    ∀ v : Value, ListRT.nestingTailP Print.Options.default v = ListRT.nestingTail v
  | .cons a d => by
    simp only [ListRT.nestingTailP, ListRT.nestingTail]
    rw [nestingP_default a, nestingTailP_default d]
  | .vector xs => by
    simp only [ListRT.nestingTailP, ListRT.nestingTail]; rw [nestingSeqP_default xs]
  | .null => by simp [ListRT.nestingTailP, ListRT.nestingTail]
  | .nil => by simp [ListRT.nestingTailP, ListRT.nestingTail, Print.Options.default]
  | .bool _ => by simp [ListRT.nestingTailP, ListRT.nestingTail]
  | .number _ => by simp [ListRT.nestingTailP, ListRT.nestingTail]
  | .char _ => by simp [ListRT.nestingTailP, ListRT.nestingTail]
  | .string _ => by simp [ListRT.nestingTailP, ListRT.nestingTail]
  | .symbol _ => by simp [ListRT.nestingTailP, ListRT.nestingTail]
  | .keyword _ => by simp [ListRT.nestingTailP, ListRT.nestingTail]
  | .bytes _ => by simp [ListRT.nestingTailP, ListRT.nestingTail]
theorem nestingSeqP_default :
    ∀ xs : List Value, ListRT.nestingSeqP Print.Options.default xs = ListRT.nestingSeq xs
  | [] => by simp [ListRT.nestingSeqP, ListRT.nestingSeq]
  | x :: xs => by
    simp only [ListRT.nestingSeqP, ListRT.nestingSeq]
    rw [nestingP_default x, nestingSeqP_default xs]
end

/-- **C01_roundtrip_plain**: the default pair with the leaf predicate of the dialect-generic
    theorem (`LeafPlainForF Print.Options.default cfg ryu`): as `C01_roundtrip_full_sources`, and
    in addition symbols / keywords whose first character is a non-ASCII alphabetic scalar. -/
theorem C01_roundtrip_plain (cfg : Cfg) (ho : cfg.opts = Options.default)
    (ryu : Nat → List UInt8) (v : Value) (h : AllPlainForF Print.Options.default cfg ryu v)
    (hn : ListRT.nesting v ≤ 127) (m : Mode) :
    ∃ s', fromTrait cfg (initSt m (Print.text Print.Options.default ryu v)) = .ok v s' ∧
      s'.rd.rest = [] ∧ s'.depth = 128 := by
  have hc : Compatible Print.Options.default cfg.opts = true := by rw [ho]; decide
  have := C02_roundtrip_full_sources cfg Print.Options.default ryu hc v h
    (by rw [nestingP_default]; exact hn) m
  rwa [fold_default] at this

/-! ## 9. Instances -/

/-- `#((a #u8(1 2 255) 1.5 . -100.0) "s" #:k ())`: a byte vector and floats inside a (dotted)
    list inside a vector; default build, all three sources. -/
example (m : Mode) :
    let v : Value := .vector [.cons (.symbol (asc "a")) (.cons (.bytes [1, 2, 255])
      (.cons (.number (.flt 0x3FF8000000000000)) (.number (.flt 0xC059000000000000)))),
      .string (asc "s"), .keyword (asc "k"), .null]
    ∃ s', fromTrait exCfgFast (initSt m (Print.text Print.Options.default ryuEx v)) = .ok v s' ∧
      s'.rd.rest = [] ∧ s'.depth = 128 := by
  intro v
  refine C01_roundtrip_full_sources exCfgFast rfl ryuEx v ?_ ?_ m
  · simp only [v, AllSupportedFull, AllLeaves, AllLeavesSeq, LeafFull, ListRT.SupportedAtom,
      and_true, true_and]
    exact ⟨⟨by decide, floatOK_ex_15, floatOK_ex_m100⟩, by decide, by decide⟩
  · simp [v, ListRT.nesting, ListRT.nestingTail, ListRT.nestingSeq]

/-- the printed text of that value -/
example :
    Print.text Print.Options.default ryuEx (.vector [.cons (.symbol (asc "a"))
      (.cons (.bytes [1, 2, 255]) (.cons (.number (.flt 0x3FF8000000000000))
        (.number (.flt 0xC059000000000000)))), .string (asc "s"), .keyword (asc "k"), .null]) =
    asc "#((a #u8(1 2 255) 1.5 . -100.0) \"s\" #:k ())" := by decide +kernel

/-- the reader of `DialectRT.lean` with all keyword syntaxes, special `nil`, `t` = true, Emacs Lisp
    characters and *leading-digit symbols*, default (fast) build with the regenerated table -/
def mixCfgF : Cfg := { mixCfg with pow10 := pow10Tab }

theorem floatOK_mix_15 : FloatOK mixCfgF ryuEx 0x3FF8000000000000 :=
  ⟨by decide, ⟨false, 15, -1, .mid⟩, ⟨by decide, by decide, by decide, by decide +kernel⟩,
   Or.inl ⟨rfl, fun k hk => pow10Tab_exact k (by omega), by decide, by decide, by decide⟩⟩

theorem floatOK_mix_m100 : FloatOK mixCfgF ryuEx 0xC059000000000000 :=
  ⟨by decide, ⟨true, 1, 2, .intDot0⟩, ⟨by decide, by decide, by decide, by decide +kernel⟩,
   Or.inl ⟨rfl, fun k hk => pow10Tab_exact k (by omega), by decide, by decide, by decide⟩⟩

/-- `(a: [1.5 #vu8(1 2) nil] t . -100.0)` printed with `name:` keywords, bracket vectors and
    symbols for nil / booleans, read with leading-digit symbols enabled (so `1.5` goes through
    `parse_symbol` and the sub-parser): floats and byte vectors in a non-default pair. -/
example (m : Mode) :
    let v : Value := .cons (.keyword (asc "a")) (.cons (.vector [.number (.flt 0x3FF8000000000000),
      .bytes [1, 2], .nil]) (.cons (.bool true) (.number (.flt 0xC059000000000000))))
    ∃ s', fromTrait mixCfgF (initSt m (Print.text mixP ryuEx v)) = .ok (fold mixP mixOpts v) s' ∧
      s'.rd.rest = [] ∧ s'.depth = 128 := by
  intro v
  refine C02_roundtrip_full_sources mixCfgF mixP ryuEx (by decide) v ?_ ?_ m
  · simp only [v, AllPlainForF, AllLeaves, AllLeavesSeq, LeafPlainForF, ListRT.LeafPlainFor,
      AtomPlainFor, ListRT.dotOkP, and_true, true_and]
    exact ⟨by decide, floatOK_mix_15, floatOK_mix_m100⟩
  · simp [v, ListRT.nestingP, ListRT.nestingTailP, ListRT.nestingSeqP, mixP]

/-- build without `fast-float-parsing`, Emacs Lisp on both sides: a 17-digit double and
    `f64::MAX` next to a unibyte string -/
def elCfgSlow : Cfg := { elCfg with fast := false }

example :
    let v : Value := .vector [.number (.flt 0x437B69B4BA630F35), .bytes [1, 200],
      .number (.flt 0x7FEFFFFFFFFFFFFF)]
    ∃ s', fromTrait elCfgSlow (initSt .slice (Print.text Print.Options.elisp ryuEx v)) =
        .ok (fold Print.Options.elisp Options.elisp v) s' ∧ s'.rd.rest = [] ∧ s'.depth = 128 := by
  intro v
  refine C02_roundtrip_full_exact elCfgSlow Print.Options.elisp ryuEx (by decide) v ?_ ?_
  · simp only [v, AllPlainForF, AllLeaves, AllLeavesSeq, LeafPlainForF, ListRT.LeafPlainFor,
      AtomPlainFor, ListRT.dotOkP, and_true, true_and]
    exact ⟨⟨by decide, ⟨false, 12345678901234568, 1, .sci⟩,
        ⟨by decide, by decide, by decide, by decide +kernel⟩, Or.inr ⟨rfl, by decide⟩⟩,
      ⟨by decide, ⟨false, 17976931348623157, 292, .sci⟩,
        ⟨by decide, by decide, by decide, by decide +kernel⟩, Or.inr ⟨rfl, by decide⟩⟩⟩
  · simp [v, ListRT.nestingP, ListRT.nestingSeqP]

/-- default pair, a symbol with a Unicode-alphabetic initial (`λx`) next to a float and a byte
    vector: covered by `C01_roundtrip_plain` (not by `SupportedAtom`) -/
def exCfgLam : Cfg := { exCfgFast with isAlphabetic := fun c => c == 955 }

example (m : Mode) :
    let v : Value := .cons (.symbol [0xCE, 0xBB, 120]) (.cons (.bytes [0, 255])
      (.number (.flt 0x3FF8000000000000)))
    ∃ s', fromTrait exCfgLam (initSt m (Print.text Print.Options.default ryuEx v)) = .ok v s' ∧
      s'.rd.rest = [] ∧ s'.depth = 128 := by
  intro v
  refine C01_roundtrip_plain exCfgLam rfl ryuEx v ?_ ?_ m
  · simp only [v, AllPlainForF, AllLeaves, LeafPlainForF, ListRT.LeafPlainFor,
      AtomPlainFor, ListRT.dotOkP, and_true, true_and]
    exact ⟨by decide, by decide, ⟨false, 15, -1, .mid⟩,
      ⟨by decide, by decide, by decide, by decide +kernel⟩,
      Or.inl ⟨rfl, exTable, by decide, by decide, by decide⟩⟩
  · simp [v, ListRT.nesting, ListRT.nestingTail]

#print axioms atomRT_float_any
#print axioms atomOKP_float
#print axioms C02_structure_full
#print axioms C02_roundtrip_full_exact
#print axioms C02_roundtrip_full
#print axioms C01_structure_full
#print axioms C01_roundtrip_full
#print axioms C01_text_valid
#print axioms C02_text_valid
#print axioms C01_roundtrip_full_sources
#print axioms C02_roundtrip_full_sources
#print axioms C01_roundtrip_plain

end FullRT
end Lexpr
