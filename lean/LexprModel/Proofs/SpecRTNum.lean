/-
  SpecRTNum — the Scheme reader of `Spec/Reader.lean` on the numbers the printer writes: `itoa`
  integers and `ryu` floats.  For a float the reader assigns the literal its correctly rounded value,
  so all that is needed is that ryu's text denotes the double (`Decimals.RyuSpec`): no exactness
  window of a fast path, no build feature — contrast `Decimals.FloatOK`.
-/
import LexprModel.Proofs.SpecRTAtoms
import LexprModel.Proofs.FullRT
namespace Lexpr
namespace SpecRT
open Spec Print

/-! ## 1. Digit strings -/

theorem isDigit_eq (b : UInt8) : Spec.isDigit b = Parse.isDigit b := rfl
theorem decVal_eq (ds : List UInt8) : Spec.decVal ds = Decimals.dv 0 ds := rfl

theorem digit_facts : ∀ b : UInt8, Spec.isDigit b = true →
    isDelim b = false ∧ b ≠ 39 ∧ b ≠ 96 ∧ b ≠ 44 ∧ b ≠ 35 ∧ b ≠ 45 ∧ b ≠ 43 ∧ b ≠ 46 := by
  apply forall_u8; decide +kernel

/-- what stops a run of digits -/
def NoDigit (rest : List UInt8) : Prop := ∀ c r, rest = c :: r → Spec.isDigit c = false

theorem span_digits (ds rest : List UInt8) (hd : ∀ c ∈ ds, Spec.isDigit c = true) (hs : NoDigit rest) :
    (ds ++ rest).takeWhile Spec.isDigit = ds ∧ (ds ++ rest).dropWhile Spec.isDigit = rest := by
  induction ds with
  | nil =>
    cases rest with
    | nil => simp
    | cons c r => simp [hs c r rfl]
  | cons d ds ih =>
    have := ih (fun c hc => hd c (by simp [hc]))
    simp [hd d (by simp), this]

/-- a string of digits is an integer literal -/
theorem udecimal_int (ds : List UInt8) (hne : ds ≠ []) (hd : ∀ c ∈ ds, Spec.isDigit c = true) :
    udecimal ds = some (Spec.decVal ds, 0, true) := by
  obtain ⟨h1, h2⟩ := span_digits ds [] hd (by intro c r h; cases h)
  simp only [List.append_nil] at h1 h2
  have hne' : ds.isEmpty = false := by cases ds <;> simp_all
  simp [udecimal, h1, h2, hne', exponent]

theorem natDigits_digits (n : Nat) : ∀ c ∈ natDigits n, Spec.isDigit c = true :=
  Decimals.natDigits_allDigits n

theorem natDigits_cons (n : Nat) : ∃ x tl, natDigits n = x :: tl := by
  obtain ⟨d, tl, -, he⟩ := Parse.natDigits_head n
  exact ⟨_, tl, he⟩

theorem number_natDigits (n : Nat) : number (natDigits n) = some (integerOf false n) := by
  obtain ⟨x, tl, he⟩ := natDigits_cons n
  have hdig := natDigits_digits n
  have hu := udecimal_int (natDigits n) (Decimals.natDigits_ne_nil n) hdig
  rw [decVal_eq, Decimals.dv_natDigits] at hu
  obtain ⟨-, -, -, -, f5, f6, f7, -⟩ := digit_facts x (hdig x (by rw [he]; simp))
  rw [he] at hu ⊢
  have f6' : (x == 45) = false := by simpa using f6
  simp [number, f5, f6', f7, hu]

theorem number_neg_natDigits (n : Nat) : number (45 :: natDigits n) = some (integerOf true n) := by
  have hu := udecimal_int (natDigits n) (Decimals.natDigits_ne_nil n) (natDigits_digits n)
  rw [decVal_eq, Decimals.dv_natDigits] at hu
  simp [number, hu]

/-! ## 2. Integers -/

theorem text_number (ryu : Nat → List UInt8) (n : Number) :
    text po ryu (.number n) = numberText ryu n := by
  simp [text, emits, atomEmits, flatten_cons_all, flatten_nil]

/-- a numeric atom that does not start with `#` or a quote character and is not the lone dot -/
theorem reads_number (alpha : Nat → Bool) (x : UInt8) (xs : List UInt8) (n : Number)
    (hb : ∀ b ∈ x :: xs, isDelim b = false ∧ b ≠ 39 ∧ b ≠ 96 ∧ b ≠ 44 ∧ b ≠ 35)
    (h46 : x ≠ 46) (hn : number (x :: xs) = some n) :
    ReadsAs lexeme (classify alpha) (x :: xs) (.number n) := by
  obtain ⟨-, q1, q2, q3, q4⟩ := hb x (by simp)
  refine readsAs_atom alpha x xs _ (fun b h => (hb b h).1) ⟨q1, q2, q3⟩ (fun e => absurd e q4) ?_
  have h46' : (x :: xs == [46]) = false := by
    cases xs <;> simp [h46]
  simp only [classify, h46', Bool.false_eq_true, if_false, atomValue_nohash alpha x xs q4, hn]
  rfl

theorem reads_posint (alpha : Nat → Bool) (ryu : Nat → List UInt8) (n : Nat) (h : n ≤ u64Max) :
    ReadsAs lexeme (classify alpha) (text po ryu (.number (.pos n))) (.number (.pos n)) := by
  rw [text_number]
  show ReadsAs _ _ (natDigits n) _
  have hdig := natDigits_digits n
  have hn := number_natDigits n
  obtain ⟨x, tl, he⟩ := natDigits_cons n
  rw [he] at hdig hn ⊢
  refine reads_number alpha x tl _ (fun b hb => ?_) (digit_facts x (hdig x (by simp))).2.2.2.2.2.2.2 ?_
  · obtain ⟨a1, a2, a3, a4, a5, -⟩ := digit_facts b (hdig b hb)
    exact ⟨a1, a2, a3, a4, a5⟩
  · rw [hn]; simp [integerOf, h]

theorem reads_negint (alpha : Nat → Bool) (ryu : Nat → List UInt8) (i : Int)
    (h1 : i64Min ≤ i) (h2 : i < 0) :
    ReadsAs lexeme (classify alpha) (text po ryu (.number (.neg i))) (.number (.neg i)) := by
  rw [text_number]
  have hi : numberText ryu (.neg i) = 45 :: natDigits i.natAbs := by
    simp only [numberText, intDigits, h2, if_true]; rfl
  rw [hi]
  have hdig := natDigits_digits i.natAbs
  refine reads_number alpha 45 _ _ (fun b hb => ?_) (by decide) ?_
  · rcases List.mem_cons.mp hb with rfl | hb
    · decide
    · obtain ⟨a1, a2, a3, a4, a5, -⟩ := digit_facts b (hdig b hb)
      exact ⟨a1, a2, a3, a4, a5⟩
  · rw [number_neg_natDigits]
    have e0 : i.natAbs ≠ 0 := by omega
    have e1 : i.natAbs ≤ 9223372036854775808 := by unfold i64Min at h1; omega
    have e2 : -(i.natAbs : Int) = i := by omega
    simp [integerOf, e0, e1, e2]

/-! ## 3. Decimal literals -/

open Decimals in
/-- the exponent part of a literal, as the specification reads it -/
theorem exponent_expText (ex : Option ExpPart) (hwf : ∀ e, ex = some e → e.WF) :
    exponent (expText ex) = some (exVal ex) := by
  cases ex with
  | none => rfl
  | some e =>
    obtain ⟨hm, hs, hne, hd⟩ := hwf e rfl
    obtain ⟨mark, sign, digits⟩ := e
    simp only at hm hs hne hd
    have hmark : (mark == 101 || mark == 69) = true := by
      rcases hm with h | h <;> simp [h]
    have hall : digits.all Spec.isDigit = true := by
      simp only [List.all_eq_true]; exact hd
    have hemp : digits.isEmpty = false := by cases digits <;> simp_all
    obtain ⟨c, r, hc⟩ : ∃ c r, digits = c :: r := by
      cases digits with
      | nil => exact absurd rfl hne
      | cons c r => exact ⟨c, r, rfl⟩
    have hcd : Spec.isDigit c = true := hd c (by simp [hc])
    obtain ⟨-, -, -, -, -, c45, c43, -⟩ := digit_facts c hcd
    simp only [expText, ExpPart.text, exVal, ExpPart.val, ExpPart.abs, expSignPos]
    rcases hs with rfl | rfl | rfl
    · subst hc
      have c45' : (c == 45) = false := by simpa using c45
      have c43' : (c == 43) = false := by simpa using c43
      simp only [List.all_cons, Bool.and_eq_true] at hall
      simp [exponent, hmark, c45', c43', hall.1, hall.2, decVal_eq]
    · simp [exponent, hmark, hall, hemp, decVal_eq]
    · simp [exponent, hmark, hall, hemp, decVal_eq]

open Decimals in
theorem expText_noDigit (ex : Option ExpPart) (hwf : ∀ e, ex = some e → e.WF) (rest : List UInt8)
    (hr : NoDigit rest) : NoDigit (expText ex ++ rest) := by
  cases ex with
  | none => simpa [expText] using hr
  | some e =>
    intro c r h
    obtain ⟨hm, -⟩ := hwf e rfl
    simp only [expText, ExpPart.text, List.cons_append, List.cons.injEq] at h
    rw [← h.1]
    rcases hm with h' | h' <;> rw [h'] <;> decide

open Decimals in
theorem expText_head (ex : Option ExpPart) (hwf : ∀ e, ex = some e → e.WF) :
    (expText ex).head? ≠ some 46 := by
  cases ex with
  | none => simp [expText]
  | some e =>
    obtain ⟨hm, -⟩ := hwf e rfl
    simp only [expText, ExpPart.text, List.head?_cons]
    rcases hm with h' | h' <;> rw [h'] <;> decide

open Decimals in
/-- **The value of a literal**: the specification reads `digits [. digits] [e [sign] digits]` as all
    written digits times the written power of ten. -/
theorem udecimal_lit (L : DecLit) (hwf : L.WF) :
    udecimal L.text = some (L.rawSig, L.rawExp, false) := by
  obtain ⟨ip, fp, ex⟩ := L
  obtain ⟨hne, hip, hfp, hex, hsome⟩ := hwf
  simp only at hne hip hfp hex hsome
  have hipe : ip.isEmpty = false := by cases ip <;> simp_all
  have hexp := exponent_expText ex hex
  cases fp with
  | none =>
    have hsome' : ex.isSome = true := by simpa using hsome
    have hnd : NoDigit (expText ex) := by
      simpa using expText_noDigit ex hex [] (by intro c r h; cases h)
    obtain ⟨s1, s2⟩ := span_digits ip (expText ex) hip hnd
    have h46 : ((expText ex).head? == some 46) = false := by
      simpa using expText_head ex hex
    have hr2 : (expText ex).isEmpty = false := by
      cases ex with
      | none => simp at hsome'
      | some e => simp [expText, ExpPart.text]
    simp [DecLit.text, fracText, udecimal, s1, s2, h46, hipe, hexp, hr2, DecLit.rawSig,
      DecLit.rawExp, DecLit.expVal, decVal_eq]
  | some f =>
    obtain ⟨-, hf⟩ := hfp f rfl
    have hnd1 : NoDigit (46 :: (f ++ expText ex)) := by
      intro c r h; simp only [List.cons.injEq] at h; rw [← h.1]; decide
    obtain ⟨s1, s2⟩ := span_digits ip (46 :: (f ++ expText ex)) hip hnd1
    have hnd2 : NoDigit (expText ex) := by
      simpa using expText_noDigit ex hex [] (by intro c r h; cases h)
    obtain ⟨t1, t2⟩ := span_digits f (expText ex) hf hnd2
    simp [DecLit.text, fracText, udecimal, s1, s2, t1, t2, hipe, hexp, DecLit.rawSig,
      DecLit.rawExp, DecLit.expVal, decVal_eq]

/-! ## 4. Floats -/

theorem litByte_facts : ∀ b : UInt8, FullRT.litByte b = true →
    isDelim b = false ∧ b ≠ 39 ∧ b ≠ 96 ∧ b ≠ 44 ∧ b ≠ 35 := by
  apply forall_u8; decide +kernel

theorem sign_bits (b : Nat) (hb : b < 2 ^ 64) :
    (if F64.isNeg b = true then F64.signBit else 0) + b % F64.signBit = b := by
  unfold F64.isNeg F64.signBit
  by_cases h : b ≥ 0x8000000000000000
  · simp only [h, decide_true, if_true]; omega
  · simp only [h, decide_false, Bool.false_eq_true, if_false]; omega

open Decimals in
/-- the number the specification assigns to a well-formed literal with a sign -/
theorem number_lit (L : DecLit) (hwf : L.WF) (neg : Bool) :
    number ((if neg then [45] else []) ++ L.text) =
      some (.flt ((if neg then F64.signBit else 0) + decRn L.rawSig L.rawExp)) := by
  obtain ⟨c, tl, hc, hdig⟩ := L.text_head hwf
  have hu := udecimal_lit L hwf
  obtain ⟨-, -, -, -, f5, f6, f7, -⟩ := digit_facts c hdig
  have f6' : (c == 45) = false := by simpa using f6
  cases neg with
  | true =>
    simp [number, hu, floatOf, decRn]
  | false =>
    rw [hc] at hu ⊢
    simp [number, f5, f6', f7, hu, floatOf, decRn]

open Decimals in
/-- **Floats.**  What ryu writes for the double `b` — under the sole assumption that the text denotes
    a decimal which rounds to `b` (`RyuSpec`) — is read by the specification as `b`, bit for bit. -/
theorem reads_float (alpha : Nat → Bool) (ryu : Nat → List UInt8) (b : Nat) (hb : b < 2 ^ 64)
    (d : RyuDec) (hspec : RyuSpec ryu b d) :
    ReadsAs lexeme (classify alpha) (text po ryu (.number (.flt b))) (.number (.flt b)) := by
  rw [text_number]
  show ReadsAs _ _ (ryu b) _
  obtain ⟨hwf, htext, hsign, hround⟩ := hspec
  have hfacts := d.litFacts hwf
  have hbytes := FullRT.DecLit.text_bytes d.lit hfacts.wf
  obtain ⟨c, tl, hc, hdig⟩ := d.lit.text_head hfacts.wf
  have hnum := number_lit d.lit hfacts.wf d.neg
  have hval : decRn d.lit.rawSig d.lit.rawExp = b % F64.signBit := by
    rw [← d.lit.decRn_eq, hfacts.sig, hfacts.exp, d.decRn_SE hwf, hround]
  have hsb : (if d.neg = true then F64.signBit else 0) + b % F64.signBit = b := by
    rw [hsign]; exact sign_bits b hb
  rw [hval, hsb] at hnum
  rw [htext]
  unfold RyuDec.text
  have hall : ∀ x ∈ (if d.neg = true then [45] else []) ++ d.lit.text,
      isDelim x = false ∧ x ≠ 39 ∧ x ≠ 96 ∧ x ≠ 44 ∧ x ≠ 35 := by
    intro x hx
    rcases List.mem_append.mp hx with hx | hx
    · have : x = 45 := by
        cases hn : d.neg <;> simp [hn] at hx
        exact hx
      subst this; decide
    · exact litByte_facts x (hbytes x hx)
  cases hneg : d.neg with
  | true =>
    simp only [hneg, if_true, List.cons_append, List.nil_append] at hnum hall ⊢
    exact reads_number alpha 45 _ _ hall (by decide) hnum
  | false =>
    simp only [hneg, Bool.false_eq_true, if_false, List.nil_append, hc] at hnum hall ⊢
    exact reads_number alpha c tl _ hall (digit_facts c hdig).2.2.2.2.2.2.2 hnum

/-! ## 5. Byte vectors -/

/-- an octet as the printer's element -/
def octNum (b : UInt8) : Value := .number (.pos b.toNat)

theorem seqT_false_eq (o : Print.Options) (ryu : Nat → List UInt8) (x : Value) (xs : List Value) :
    seqT o ryu false (x :: xs) = 32 :: seqT o ryu true (x :: xs) := by
  rw [seqT_false, seqT_true]

theorem octetsText_seq (ryu : Nat → List UInt8) : ∀ bs : List UInt8,
    octetsText bs = seqT po ryu true (bs.map octNum)
  | [] => by simp [octetsText, seqT_nil]
  | [b] => by
    simp only [octetsText, List.map_cons, List.map_nil, seqT_true, seqT_nil, List.append_nil]
    rw [octNum, text_number]; rfl
  | b :: b' :: bs => by
    have ih := octetsText_seq ryu (b' :: bs)
    simp only [List.map_cons] at ih
    simp only [octetsText, List.map_cons, seqT_true (x := octNum b), seqT_false_eq, ← ih]
    rw [octNum, text_number]
    have h1 : ch ' ' = 32 := by decide
    simp [numberText, h1]

theorem octet_octNum (b : UInt8) : octet (octNum b) = some b := by
  have : b.toNat < 256 := UInt8.toNat_lt b
  simp [octet, octNum, this]

theorem mapM_octet (bs : List UInt8) : (bs.map octNum).mapM octet = some bs := by
  induction bs with
  | nil => rfl
  | cons b bs ih => simp [List.mapM_cons, octet_octNum, ih]

theorem foldList_octs (o : Print.Options) (r : Parse.Options) (bs : List UInt8) :
    foldList o r (bs.map octNum) = bs.map octNum := by
  induction bs with
  | nil => rfl
  | cons b bs ih => simp [foldList, fold, octNum, ih]

theorem leaves_octs (bs : List UInt8) :
    LeavesSeq (fun v => ∃ n, n ≤ u64Max ∧ v = .number (.pos n)) (bs.map octNum) := by
  induction bs with
  | nil => simp [LeavesSeq]
  | cons b bs ih =>
    have : b.toNat < 256 := UInt8.toNat_lt b
    simp only [List.map_cons, LeavesSeq, octNum, Leaves]
    exact ⟨⟨b.toNat, by unfold u64Max; omega, rfl⟩, ih⟩

theorem lexeme_u8 (r : List UInt8) : lexeme (35 :: [117, 56, 40] ++ r) = some (some .u8, 4) := by
  simp [lexeme, isWhite, asc_hp, asc_u8]

theorem text_bytes (ryu : Nat → List UInt8) (bs : List UInt8) :
    text po ryu (.bytes bs) = 35 :: [117, 56, 40] ++ (octetsText bs ++ [41]) := by
  have h1 : asc ")" = [41] := by decide
  simp [text, emits, atomEmits, bytesEmits, po, Print.Options.default, flatten_cons_all,
    flatten_nil, asc_u8, h1]

theorem reads_bytes (alpha : Nat → Bool) (ryu : Nat → List UInt8) (bs : List UInt8) :
    ReadsAs lexeme (classify alpha) (text po ryu (.bytes bs)) (.bytes bs) := by
  rw [text_bytes, octetsText_seq ryu]
  have hs := seq_reads lexeme (classify alpha) po (brackets_default alpha) ryu Parse.Options.default
    (fun v => ∃ n, n ≤ u64Max ∧ v = .number (.pos n))
    (fun v _ _ _ ⟨n, hn, hv⟩ => by
      subst hv
      simpa [fold] using reads_posint alpha ryu n hn)
    true (bs.map octNum) (leaves_octs bs)
  rw [foldList_octs] at hs
  exact readsAs_bracketed lexeme (classify alpha) 35 [117, 56, 40] 41 .u8 .rpar .rpar .bytes _
    (bs.map octNum) _ (by decide) lexeme_u8 rfl lexeme_rpar rfl
    (by simp only [finish, List.append_nil, List.reverse_reverse, mapM_octet]; rfl) hs

/-! ## 6. From the leaf predicates of `FullRT.lean` -/

mutual
theorem leaves_of_allLeaves {P Q R : Value → Prop} (hpqr : ∀ v, v ≠ .null → P v → Q v → R v) :
    ∀ v : Value, FullRT.AllLeaves P v → FullRT.AllLeaves Q v → Leaves R v
  | .cons a d, h1, h2 => by
    simp only [FullRT.AllLeaves] at h1 h2
    simp only [Leaves]
    exact ⟨leaves_of_allLeaves hpqr a h1.1 h2.1, leaves_of_allLeaves hpqr d h1.2 h2.2⟩
  | .vector xs, h1, h2 => by
    simp only [FullRT.AllLeaves] at h1 h2
    simp only [Leaves]
    exact leavesSeq_of_allLeaves hpqr xs h1 h2
  | .null, _, _ => by simp only [Leaves]
  | .nil, h1, h2 => by
    simp only [FullRT.AllLeaves] at h1 h2; simp only [Leaves]; exact hpqr _ (by simp) h1 h2
  | .bool _, h1, h2 => by
    simp only [FullRT.AllLeaves] at h1 h2; simp only [Leaves]; exact hpqr _ (by simp) h1 h2
  | .number _, h1, h2 => by
    simp only [FullRT.AllLeaves] at h1 h2; simp only [Leaves]; exact hpqr _ (by simp) h1 h2
  | .char _, h1, h2 => by
    simp only [FullRT.AllLeaves] at h1 h2; simp only [Leaves]; exact hpqr _ (by simp) h1 h2
  | .string _, h1, h2 => by
    simp only [FullRT.AllLeaves] at h1 h2; simp only [Leaves]; exact hpqr _ (by simp) h1 h2
  | .symbol _, h1, h2 => by
    simp only [FullRT.AllLeaves] at h1 h2; simp only [Leaves]; exact hpqr _ (by simp) h1 h2
  | .keyword _, h1, h2 => by
    simp only [FullRT.AllLeaves] at h1 h2; simp only [Leaves]; exact hpqr _ (by simp) h1 h2
  | .bytes _, h1, h2 => by
    simp only [FullRT.AllLeaves] at h1 h2; simp only [Leaves]; exact hpqr _ (by simp) h1 h2
theorem leavesSeq_of_allLeaves {P Q R : Value → Prop} (hpqr : ∀ v, v ≠ .null → P v → Q v → R v) :
    ∀ xs : List Value, FullRT.AllLeavesSeq P xs → FullRT.AllLeavesSeq Q xs → LeavesSeq R xs
  | [], _, _ => by simp only [LeavesSeq]
  | x :: xs, h1, h2 => by
    simp only [FullRT.AllLeavesSeq] at h1 h2
    simp only [LeavesSeq]
    exact ⟨leaves_of_allLeaves hpqr x h1.1 h2.1, leavesSeq_of_allLeaves hpqr xs h1.2 h2.2⟩
end

end SpecRT
end Lexpr
