/-
  Facts about the UTF-8 validity automaton of `Basic.lean`: composition, self-synchronisation
  (cuts at non-continuation bytes), and validity of `encode`.
-/
import LexprModel.Basic
set_option linter.unusedSimpArgs false
namespace Lexpr
namespace Utf8

/-- bounds of a reachable mid-sequence state lie within the continuation range -/
def St.wf : St → Prop
  | .idle => True
  | .mid _ lo hi => 0x80 ≤ lo ∧ hi ≤ 0xBF

theorem step_wf {st st' : St} {b : UInt8} (h : step st b = some st') : st'.wf := by
  cases st with
  | idle =>
    simp only [step] at h
    repeat' split at h
    all_goals first | (cases h; simp [St.wf]) | cases h
  | mid need lo hi =>
    simp only [step] at h
    repeat' split at h
    all_goals first | (cases h; simp [St.wf]) | cases h

theorem step_noncont {st st' : St} {b : UInt8} (hw : st.wf) (hb : isCont b = false)
    (h : step st b = some st') : st = .idle := by
  cases st with
  | idle => rfl
  | mid need lo hi =>
    exfalso
    simp only [step] at h
    simp only [St.wf] at hw
    simp only [isCont, Bool.and_eq_false_iff, decide_eq_false_iff_not] at hb
    split at h
    · rename_i hc
      simp only [Bool.and_eq_true, decide_eq_true_eq] at hc
      simp only [UInt8.le_iff_toNat_le, UInt8.lt_iff_toNat_lt] at *
      simp at hw hb
      omega
    · cases h


theorem ascii_noncont {b : UInt8} (h : b < 0x80) : isCont b = false := by
  simp only [isCont, Bool.and_eq_false_iff, decide_eq_false_iff_not]
  simp only [UInt8.le_iff_toNat_le, UInt8.lt_iff_toNat_lt] at *
  simp at h ⊢
  omega

theorem step_idle_ascii {b : UInt8} (h : b < 0x80) : step .idle b = some .idle := by
  simp [step, h]

theorem step_idle_cont {b : UInt8} (h : isCont b = true) : step .idle b = none := by
  simp only [isCont, Bool.and_eq_true, decide_eq_true_eq] at h
  simp only [step]
  have h1 := h.1; have h2 := h.2
  simp only [UInt8.le_iff_toNat_le, UInt8.lt_iff_toNat_lt] at h1 h2
  simp at h1 h2
  repeat' split
  all_goals first | rfl | skip
  all_goals rename_i hc
  all_goals
    (try simp only [Bool.and_eq_true, decide_eq_true_eq, beq_iff_eq] at hc)
  all_goals
    first
    | (simp only [UInt8.le_iff_toNat_le, UInt8.lt_iff_toNat_lt] at hc; simp at hc; omega)
    | (subst hc; simp at h1 h2)

theorem run_append (st : St) (a b : List UInt8) :
    run st (a ++ b) = (run st a).bind (fun st' => run st' b) := by
  induction a generalizing st with
  | nil => simp [run]
  | cons x xs ih =>
    simp only [List.cons_append, run]
    cases step st x with
    | none => simp
    | some st' => simpa using ih st'

theorem run_wf {st st' : St} {l : List UInt8} (hw : st.wf) (h : run st l = some st') : st'.wf := by
  induction l generalizing st with
  | nil => simp only [run] at h; cases h; exact hw
  | cons x xs ih =>
    simp only [run] at h
    cases hs : step st x with
    | none => simp [hs] at h
    | some s1 => rw [hs] at h; exact ih (step_wf hs) h

/-- "suffix of well-formed text": from automaton state `st` the bytes complete to idle -/
def Bnd (l : List UInt8) : Prop := ∃ st : St, st.wf ∧ run st l = some .idle

theorem valid_iff {l : List UInt8} : valid l = true ↔ run .idle l = some .idle := by
  simp [valid]

theorem Bnd.of_valid {l : List UInt8} (h : valid l = true) : Bnd l :=
  ⟨.idle, trivial, valid_iff.1 h⟩

theorem Bnd.tail {b : UInt8} {l : List UInt8} (h : Bnd (b :: l)) : Bnd l := by
  obtain ⟨st, hw, hr⟩ := h
  simp only [run] at hr
  cases hs : step st b with
  | none => simp [hs] at hr
  | some s1 => rw [hs] at hr; exact ⟨s1, step_wf hs, hr⟩

theorem Bnd.drop {l : List UInt8} (h : Bnd l) (n : Nat) : Bnd (l.drop n) := by
  induction n generalizing l with
  | zero => simpa using h
  | succ n ih =>
    cases l with
    | nil => simpa using h
    | cons b bs => simpa using ih h.tail

/-- self-synchronisation: a suffix of well-formed text that is empty or starts with a
    non-continuation byte is itself well-formed -/
theorem Bnd.valid_of_head {l : List UInt8} (h : Bnd l)
    (hh : ∀ b, l.head? = some b → isCont b = false) : valid l = true := by
  obtain ⟨st, hw, hr⟩ := h
  cases l with
  | nil => simp only [run] at hr; cases hr; rfl
  | cons b bs =>
    have hb := hh b rfl
    simp only [run] at hr
    cases hs : step st b with
    | none => simp [hs] at hr
    | some s1 =>
      have := step_noncont hw hb hs
      subst this
      apply valid_iff.2
      simp only [run, hs]
      rw [hs] at hr; exact hr

/-- after an ASCII byte the text is at a boundary -/
theorem Bnd.valid_after_ascii {b : UInt8} {l : List UInt8} (h : Bnd (b :: l)) (hb : b < 0x80) :
    valid l = true := by
  obtain ⟨st, hw, hr⟩ := h
  simp only [run] at hr
  cases hs : step st b with
  | none => simp [hs] at hr
  | some s1 =>
    have := step_noncont hw (ascii_noncont hb) hs
    subst this
    rw [step_idle_ascii hb] at hs
    cases hs
    rw [step_idle_ascii hb] at hr
    exact valid_iff.2 hr

theorem valid_append {a b : List UInt8} (ha : valid a = true) (hb : valid b = true) :
    valid (a ++ b) = true := by
  rw [valid_iff] at *
  rw [run_append, ha]; simpa using hb

theorem valid_of_append_left {a b : List UInt8} (ha : valid a = true) (hab : valid (a ++ b) = true) :
    valid b = true := by
  rw [valid_iff] at *
  rw [run_append, ha] at hab; simpa using hab

/-- a well-formed text cut before a non-continuation byte (or at its end) is well-formed -/
theorem valid_take {l : List UInt8} (n : Nat) (h : valid l = true)
    (hh : ∀ b, (l.drop n).head? = some b → isCont b = false) :
    valid (l.take n) = true ∧ valid (l.drop n) = true := by
  have h' := valid_iff.1 h
  rw [← List.take_append_drop n l, run_append] at h'
  cases hr : run .idle (l.take n) with
  | none => simp [hr] at h'
  | some st =>
    rw [hr] at h'
    simp only [Option.bind_some] at h'
    have hw : st.wf := run_wf (st := .idle) trivial hr
    have hv := Bnd.valid_of_head ⟨st, hw, h'⟩ hh
    refine ⟨?_, hv⟩
    cases hd : l.drop n with
    | nil => rw [hd] at h'; simp only [run] at h'; cases h'; exact valid_iff.2 hr
    | cons b bs =>
      rw [hd] at h' hh
      have hb := hh b rfl
      simp only [run] at h'
      cases hs : step st b with
      | none => simp [hs] at h'
      | some s1 =>
        have := step_noncont hw hb hs
        subst this
        exact valid_iff.2 hr


/-! ### `encode` produces well-formed sequences -/

theorem step_idle_nat (b : UInt8) : step .idle b =
    (if b.toNat < 128 then some .idle
     else if 194 ≤ b.toNat ∧ b.toNat ≤ 223 then some (.mid 1 0x80 0xBF)
     else if b.toNat = 224 then some (.mid 2 0xA0 0xBF)
     else if b.toNat = 237 then some (.mid 2 0x80 0x9F)
     else if 225 ≤ b.toNat ∧ b.toNat ≤ 239 then some (.mid 2 0x80 0xBF)
     else if b.toNat = 240 then some (.mid 3 0x90 0xBF)
     else if 241 ≤ b.toNat ∧ b.toNat ≤ 243 then some (.mid 3 0x80 0xBF)
     else if b.toNat = 244 then some (.mid 3 0x80 0x8F)
     else none) := by
  simp only [step, UInt8.lt_iff_toNat_lt, UInt8.le_iff_toNat_le, Bool.and_eq_true,
    decide_eq_true_eq, beq_iff_eq, ← UInt8.toNat_inj]
  rfl

theorem step_mid_nat (need : Nat) (lo hi b : UInt8) : step (.mid need lo hi) b =
    (if lo.toNat ≤ b.toNat ∧ b.toNat ≤ hi.toNat then
      (if need ≤ 1 then some .idle else some (.mid (need - 1) 0x80 0xBF))
     else none) := by
  simp only [step, UInt8.le_iff_toNat_le, Bool.and_eq_true, decide_eq_true_eq]

theorem toNat_ofNat8 (n : Nat) : (UInt8.ofNat n).toNat = n % 256 := UInt8.toNat_ofNat'

theorem lit80 : (0x80 : UInt8).toNat = 128 := rfl
theorem litBF : (0xBF : UInt8).toNat = 191 := rfl
theorem litA0 : (0xA0 : UInt8).toNat = 160 := rfl
theorem lit9F : (0x9F : UInt8).toNat = 159 := rfl
theorem lit90 : (0x90 : UInt8).toNat = 144 := rfl
theorem lit8F : (0x8F : UInt8).toNat = 143 := rfl

theorem valid_encode {n : Nat} (h : isScalar n = true) : valid (encode n) = true := by
  simp only [isScalar, isSurrogate, Bool.and_eq_true, decide_eq_true_eq, Bool.not_eq_true',
    Bool.and_eq_false_iff, decide_eq_false_iff_not] at h
  obtain ⟨h1, h2⟩ := h
  unfold encode valid
  split
  · simp only [run, step_idle_nat, toNat_ofNat8]
    rw [if_pos (by omega)]; rfl
  split
  · simp only [run, step_idle_nat, toNat_ofNat8]
    rw [if_neg (by omega), if_pos (by omega)]
    simp only [step_mid_nat, toNat_ofNat8, lit80, litBF]
    rw [if_pos (by omega)]; rfl
  split
  · simp only [run, step_idle_nat, toNat_ofNat8]
    rw [if_neg (by omega), if_neg (by omega)]
    by_cases c1 : n < 4096
    · rw [if_pos (by omega)]
      simp only [step_mid_nat, toNat_ofNat8, lit80, litBF, litA0]
      rw [if_pos (by omega)]
      simp only [step_mid_nat, toNat_ofNat8, lit80, litBF, litA0, show ¬ (2 ≤ 1) by omega, if_false]
      rw [if_pos (by omega)]; rfl
    · rw [if_neg (by omega)]
      by_cases c2 : n / 4096 = 13
      · rw [if_pos (by omega)]
        simp only [step_mid_nat, toNat_ofNat8, lit80, litBF, lit9F]
        rw [if_pos (by omega)]
        simp only [step_mid_nat, toNat_ofNat8, lit80, litBF, show ¬ (2 ≤ 1) by omega, if_false]
        rw [if_pos (by omega)]; rfl
      · rw [if_neg (by omega), if_pos (by omega)]
        simp only [step_mid_nat, toNat_ofNat8, lit80, litBF]
        rw [if_pos (by omega)]
        simp only [step_mid_nat, toNat_ofNat8, lit80, litBF, show ¬ (2 ≤ 1) by omega, if_false]
        rw [if_pos (by omega)]; rfl
  · simp only [run, step_idle_nat, toNat_ofNat8]
    rw [if_neg (by omega), if_neg (by omega), if_neg (by omega), if_neg (by omega), if_neg (by omega)]
    by_cases c1 : n < 262144
    · rw [if_pos (by omega)]
      simp only [step_mid_nat, toNat_ofNat8, lit80, litBF, lit90]
      rw [if_pos (by omega)]
      simp only [step_mid_nat, toNat_ofNat8, lit80, litBF, show ¬ (3 ≤ 1) by omega, if_false]
      rw [if_pos (by omega)]
      simp only [step_mid_nat, toNat_ofNat8, lit80, litBF, show ¬ (3 - 1 ≤ 1) by omega, if_false]
      rw [if_pos (by omega)]; rfl
    · rw [if_neg (by omega)]
      by_cases c2 : n < 1048576
      · rw [if_pos (by omega)]
        simp only [step_mid_nat, toNat_ofNat8, lit80, litBF]
        rw [if_pos (by omega)]
        simp only [step_mid_nat, toNat_ofNat8, lit80, litBF, show ¬ (3 ≤ 1) by omega, if_false]
        rw [if_pos (by omega)]
        simp only [step_mid_nat, toNat_ofNat8, lit80, litBF, show ¬ (3 - 1 ≤ 1) by omega, if_false]
        rw [if_pos (by omega)]; rfl
      · rw [if_neg (by omega), if_pos (by omega)]
        simp only [step_mid_nat, toNat_ofNat8, lit80, litBF, lit8F]
        rw [if_pos (by omega)]
        simp only [step_mid_nat, toNat_ofNat8, lit80, litBF, show ¬ (3 ≤ 1) by omega, if_false]
        rw [if_pos (by omega)]
        simp only [step_mid_nat, toNat_ofNat8, lit80, litBF, show ¬ (3 - 1 ≤ 1) by omega, if_false]
        rw [if_pos (by omega)]; rfl

end Utf8
end Lexpr
