/-
  C19, truncation clause: kernel-checked witnesses of the two classes of counterexamples, and
  concrete instances of the theorem (non-vacuity).  See Truncation.lean.
-/
import LexprModel.Proofs.Truncation
import LexprModel.Proofs.TruncHistory
namespace Lexpr
namespace Parse
open Trunc Locations

/-- `Options::elisp()`; the two tables are not consulted by the examples below -/
def elispCfg : Cfg := { opts := Options.elisp, isAlphabetic := fun _ => false, pow10 := fun _ => 0 }

/-- default options with Emacs character syntax only -/
def elispCharCfg : Cfg :=
  { opts := { Options.default with char := .elisp }, isAlphabetic := fun _ => false, pow10 := fun _ => 0 }

/-- default options, build without `fast-float-parsing` (no table is consulted) -/
def slowCfg : Cfg :=
  { opts := Options.default, fast := false, isAlphabetic := fun _ => false, pow10 := fun _ => 0 }

/-- default options, default build (`fast-float-parsing`) with the regenerated `POW10` table -/
def fastCfg : Cfg :=
  { opts := Options.default, fast := true, isAlphabetic := fun _ => false, pow10 := Numbers.pow10Tab }

/-! ### class A (repaired): a numeric Emacs escape whose value so far is a surrogate

  Before the repair these prefixes were reported as `InvalidUnicodeCodePoint` (syntax category);
  the model follows the repaired code: EOF category, same positions.  An escape that is complete
  (closing quote, delimiter, `}`) or of fixed length (`\u`) is still invalid. -/

/-- with `Options::elisp()`, `"\xD8000"` parses and its proper prefix `"\xD800` is now reported as
    `EofWhileParsingString` at 1:7 -/
example :
    (∃ v s1, fromTrait elispCfg (initSt .str (asc "\"\\xD8000\"")) = .ok v s1) ∧
    (∃ s', fromTrait elispCfg (initSt .str (asc "\"\\xD800")) =
        .err (.syntax .eofString 1 7) s' ∧ s'.rd.rest = []) ∧
    (Err.syntax .eofString 1 7).category = .eof ∧
    asc "\"\\xD800" <+: asc "\"\\xD8000\"" ∧ asc "\"\\xD800" ≠ asc "\"\\xD8000\"" :=
  ⟨Progress.okAny_elim (by decide +kernel), errIs_elim (by decide +kernel), rfl, by decide, by decide⟩

/-- an octal escape: `"\154000` (U+D800) is a prefix of `"\1540000"` (U+6C000) -/
example :
    (∃ v s1, fromTrait elispCfg (initSt .slice (asc "\"\\1540000\"")) = .ok v s1) ∧
    (∃ s', fromTrait elispCfg (initSt .slice (asc "\"\\154000")) =
        .err (.syntax .eofString 1 8) s' ∧ s'.rd.rest = []) :=
  ⟨Progress.okAny_elim (by decide +kernel), errIs_elim (by decide +kernel)⟩

/-- `\N{U+...}`: `"\N{U+D800` is a prefix of `"\N{U+D8000}"` -/
example :
    (∃ v s1, fromTrait elispCfg (initSt .io (asc "\"\\N{U+D8000}\"")) = .ok v s1) ∧
    (∃ s', fromTrait elispCfg (initSt .io (asc "\"\\N{U+D800")) =
        .err (.syntax .eofString 1 10) s' ∧ s'.rd.rest = []) :=
  ⟨Progress.okAny_elim (by decide +kernel), errIs_elim (by decide +kernel)⟩

/-- character literals, with only `CharSyntax::Elisp` switched on: `?\xD800` is a prefix of
    `?\xD8000`, `?\154000` of `?\1540000`; now `EofWhileParsingCharacterConstant` -/
example :
    (∃ v s1, fromTrait elispCharCfg (initSt .str (asc "?\\xD8000")) = .ok v s1) ∧
    (∃ s', fromTrait elispCharCfg (initSt .str (asc "?\\xD800")) =
        .err (.syntax .eofChar 1 7) s' ∧ s'.rd.rest = []) ∧
    (∃ s', fromTrait elispCharCfg (initSt .io (asc "?\\154000")) =
        .err (.syntax .eofChar 1 8) s' ∧ s'.rd.rest = []) :=
  ⟨Progress.okAny_elim (by decide +kernel), errIs_elim (by decide +kernel),
   errIs_elim (by decide +kernel)⟩

/-- still invalid, at the same positions as before: the escape is complete, or of fixed length -/
example :
    errIs .invalidUnicodeCodePoint 1 7 (asc "\"") (fromTrait elispCfg (initSt .str (asc "\"\\xD800\""))) = true ∧
    errIs .invalidUnicodeCodePoint 1 7 (asc " ") (fromTrait elispCfg (initSt .str (asc "?\\xD800 "))) = true ∧
    errIs .invalidUnicodeCodePoint 1 10 (asc "}\"") (fromTrait elispCfg (initSt .str (asc "\"\\N{U+D800}\""))) = true ∧
    errIs .invalidUnicodeCodePoint 1 8 (asc "\"") (fromTrait elispCfg (initSt .str (asc "\"\\154000\""))) = true ∧
    errIs .invalidUnicodeCodePoint 1 7 [] (fromTrait elispCfg (initSt .str (asc "\"\\uD800"))) = true := by
  decide +kernel

/-- a value above U+10FFFF at the end of the input stays a syntax error (no continuation helps) -/
example : errIs .invalidUnicodeCodePoint 1 9 [] (fromTrait elispCfg (initSt .str (asc "\"\\x110000"))) = true := by
  decide +kernel

/-! ### class B: an integer part of more than 308 digits -/

/-- `2` followed by 308 zeros (2e308, larger than every double) -/
def longInt : List UInt8 := 50 :: List.replicate 308 48

/-- **C19_truncation_counterexample_long_integer** (build without `fast-float-parsing`): `longInt`
    followed by `e-1` parses as a single datum (the number 2e307); its proper prefix `longInt` is
    reported as `NumberOutOfRange` at 1:309 — syntax category, all input consumed. -/
theorem C19_truncation_counterexample_long_integer :
    (∃ v s1, fromTrait slowCfg (initSt .str (longInt ++ asc "e-1")) = .ok v s1) ∧
    (∃ s', fromTrait slowCfg (initSt .str longInt) = .err (.syntax .numberOutOfRange 1 309) s' ∧
      s'.rd.rest = []) ∧
    (Err.syntax .numberOutOfRange 1 309).category = .syntax ∧ longInt <+: longInt ++ asc "e-1" :=
  ⟨Progress.okAny_elim (by decide +kernel), errIs_elim (by decide +kernel), rfl,
   List.prefix_append _ _⟩

/-- the same in the default build (`fast-float-parsing`, regenerated `POW10` table) -/
theorem C19_truncation_counterexample_long_integer_fast :
    (∃ v s1, fromTrait fastCfg (initSt .slice (longInt ++ asc "e-1")) = .ok v s1) ∧
    (∃ s', fromTrait fastCfg (initSt .slice longInt) = .err (.syntax .numberOutOfRange 1 309) s' ∧
      s'.rd.rest = []) ∧
    longInt <+: longInt ++ asc "e-1" :=
  ⟨Progress.okAny_elim (by decide +kernel), errIs_elim (by decide +kernel), List.prefix_append _ _⟩


/-! ### instances of the theorem (its hypotheses are satisfiable) -/

/-- `(a "b" #\x41)` parses; its prefix `(a "b` fails with `eofString` (EOF category) -/
example : (∃ v s1, fromTrait Progress.exCfg (initSt .slice (asc "(a \"b\" #\\x41)")) = .ok v s1) ∧
    (∃ s', fromTrait Progress.exCfg (initSt .slice (asc "(a \"b")) = .err (.syntax .eofString 1 5) s' ∧
      s'.rd.rest = []) :=
  ⟨Progress.okAny_elim (by decide +kernel), errIs_elim (by decide +kernel)⟩

/-- ... and `C19_truncation_eof` applies to it: all its hypotheses hold -/
example (e : Err) (s' : St)
    (hfail : fromTrait Progress.exCfg (initSt .slice (asc "(a \"b")) = .err e s') :
    e.category = .eof := by
  obtain ⟨v, s, hfull⟩ : ∃ v s1,
      fromTrait Progress.exCfg (initSt .slice (asc "(a \"b\" #\\x41)")) = .ok v s1 :=
    Progress.okAny_elim (by decide +kernel)
  obtain ⟨s'', h2, _⟩ : ∃ s', fromTrait Progress.exCfg (initSt .slice (asc "(a \"b")) =
      .err (.syntax .eofString 1 5) s' ∧ s'.rd.rest = [] := errIs_elim (by decide +kernel)
  refine C19_truncation_eof Progress.exCfg .slice _ _ v s e s' hfull (by decide) (by decide) hfail
    (fun l k h => ?_)
  rw [h2] at hfail; subst h; cases hfail

/-- the prefix `(a "b" #\x4` of the same text: the list is not closed, `eofList` -/
example : ∃ s', fromTrait Progress.exCfg (initSt .str (asc "(a \"b\" #\\x4")) =
    .err (.syntax .eofList 1 11) s' ∧ s'.rd.rest = [] := errIs_elim (by decide +kernel)

/-- the theorem applied to a class B witness: the exception holds, the category is not EOF -/
example : TruncExc (.syntax .numberOutOfRange 1 309) ∧
    (Err.syntax .numberOutOfRange 1 309).category ≠ .eof := ⟨⟨1, 309, rfl⟩, by decide⟩

/-- the clause of C19 as stated (no exception) is false for the model -/
theorem C19_truncation_clause_false :
    ¬ (∀ (cfg : Cfg) (mode : Mode) (t p : List UInt8) (v : Value) (s : St) (e : Err) (s' : St),
        fromTrait cfg (initSt mode t) = .ok v s → p <+: t → p ≠ t →
        fromTrait cfg (initSt mode p) = .err e s' → e.category = .eof) := by
  intro hall
  obtain ⟨⟨v, s, h1⟩, ⟨s', h2, _⟩, _, h4⟩ := C19_truncation_counterexample_long_integer
  have hne : longInt ≠ longInt ++ asc "e-1" := by
    intro h
    have h1 := congrArg List.length h
    have h3 : (asc "e-1").length = 3 := by decide
    rw [List.length_append, h3] at h1
    omega
  have := hall _ _ _ _ v s _ s' h1 h4 hne h2
  cases this

/-! ### the iterator API -/

/-- four calls of a value iterator on `a (b) "c"`: three values and the end of the input -/
example : ∀ it ∈ runHistory Progress.exCfg [.valueIterNext, .valueIterNext, .valueIterNext, .valueIterNext]
    (initSt .io (asc "a (b) \"c" ++ asc "\"")), it.good = true := by decide +kernel

/-- on the truncated text `a (b) "c` the third call fails; `C19_truncation_history` applies (its
    hypothesis is the previous example) and says the error is of EOF category or an exception -/
example (e : Err)
    (he : Item.err e ∈ runHistory Progress.exCfg [.valueIterNext, .valueIterNext, .valueIterNext, .valueIterNext]
      (initSt .io (asc "a (b) \"c"))) :
    e.category = .eof ∨ TruncExc e :=
  C19_truncation_history Progress.exCfg .io _ (asc "a (b) \"c") (asc "\"") (by decide +kernel) e he

/-- the failing item is `eofString` -/
example : (runHistory Progress.exCfg [.valueIterNext, .valueIterNext, .valueIterNext, .valueIterNext]
      (initSt .io (asc "a (b) \"c"))).any (fun it => match it with
        | .err (.syntax .eofString 1 8) => true
        | _ => false) = true := by decide +kernel

end Parse
end Lexpr
