/-
  The hand-written `Clone` / `PartialEq` / `Drop` of `SpanInfo` (datum.rs, since /repo commit 54f14f8)
  and the derived `Clone` / `PartialEq` of `Datum` around them.  Same conventions as
  LexprModel/ConsOps.lean: `last` is a path (number of `slots[1]` steps from `head`), loops are
  structural recursions on the remaining chain, `unreachable!()` is a `panic` outcome, the `...I` / `...D`
  functions carry the call depth (one level = one call of `SpanInfo::clone` / `eq` / drop glue).

  The model's `SpanInfo.cons sp car cdr` is the Rust `SpanInfo::Cons(sp, Box<[car, cdr]>)`.
-/
import LexprModel.Parse
import LexprModel.ConsOps
namespace Lexpr
namespace ConsOps
open Parse

/-! ### paths -/

/-- The node reached from `s` by `i` steps into `slots[1]`. -/
def SI.nodeAt : SpanInfo → Nat → Option SpanInfo
  | s, 0 => some s
  | .cons _ _ d, i + 1 => SI.nodeAt d i
  | _, _ + 1 => none

/-- `slots[1] = x` on the `Cons` node at path `i`; `none`: no `Cons` node there. -/
def SI.setSlot1At : SpanInfo → Nat → SpanInfo → Option SpanInfo
  | .cons sp a _, 0, x => some (.cons sp a x)
  | .cons sp a d, i + 1, x =>
    match SI.setSlot1At d i x with
    | some d' => some (.cons sp a d')
    | none => none
  | _, _, _ => none

/-! ### Clone -/

/-- the local `fn cell(span, car)` of `SpanInfo::clone`, given the cloned car -/
def cellS (sp : Span) (car : SpanInfo) : SpanInfo := .cons sp car (.prim Span.empty)

/-- `if let SpanInfo::Cons(_, slots) = last { slots[1] = rest.clone(); }  head`, given the outcome of
    `rest.clone()` (which is evaluated only when the pattern matches). -/
def finishS (head : SpanInfo) (last : Nat) (r : Out SpanInfo) : Out SpanInfo :=
  match SI.nodeAt head last with
  | some (.cons _ _ _) =>
    match r with
    | .panic s => .panic s
    | .ok c =>
      match SI.setSlot1At head last c with
      | some h => .ok h
      | none => .panic .dangling
  | some _ => .ok head
  | none => .panic .dangling

mutual
/-- `<SpanInfo as Clone>::clone`. -/
def cloneS : SpanInfo → Out SpanInfo
  | .prim sp => .ok (.prim sp)
  | .vec sp xs => (cloneSList xs).map (.vec sp)
  | .cons sp car cdr =>
    -- let mut head = cell(span, &info[0]); let mut last = &mut head; let mut rest = &info[1];
    match cloneS car with
    | .panic s => .panic s
    | .ok c => cloneSWhile (cellS sp c) 0 cdr
/-- `while let SpanInfo::Cons(span, info) = rest { … }` and the code after it. -/
def cloneSWhile (head : SpanInfo) (last : Nat) : SpanInfo → Out SpanInfo
  | .cons sp car cdr =>
    -- last = match last { SpanInfo::Cons(_, slots) => { slots[1] = cell(span, &info[0]); &mut slots[1] }
    --                     _ => unreachable!() };
    match SI.nodeAt head last with
    | some (.cons _ _ _) =>
      match cloneS car with
      | .panic s => .panic s
      | .ok c =>
        match SI.setSlot1At head last (cellS sp c) with
        | some head' => cloneSWhile head' (last + 1) cdr      -- rest = &info[1]
        | none => .panic .dangling
    | some _ => .panic .spanCloneUnreachable
    | none => .panic .dangling
  | .vec sp xs => finishS head last ((cloneSList xs).map (.vec sp))
  | .prim sp => finishS head last (.ok (.prim sp))
/-- `<Vec<SpanInfo> as Clone>::clone`. -/
def cloneSList : List SpanInfo → Out (List SpanInfo)
  | [] => .ok []
  | x :: xs =>
    match cloneS x with
    | .panic s => .panic s
    | .ok y => (cloneSList xs).map (y :: ·)
end

/-! ### PartialEq -/

mutual
/-- `<SpanInfo as PartialEq>::eq`: `loop { match (a, b) { … } }`; the `Cons` arm continues the loop
    with `a = &xs[1]; b = &ys[1]`. -/
def eqS : SpanInfo → SpanInfo → Bool
  | .prim x, .prim y => x == y
  | .vec x xs, .vec y ys => x == y && eqSList xs ys
  | .cons x xa xd, .cons y ya yd =>
    if x != y || !(eqS xa ya) then false else eqS xd yd
  | _, _ => false
/-- `<Vec<SpanInfo> as PartialEq>::eq`. -/
def eqSList : List SpanInfo → List SpanInfo → Bool
  | [], [] => true
  | x :: xs, y :: ys => eqS x y && eqSList xs ys
  | _, _ => false
end

/-! ### Drop -/

/-- the closure `unlink` of `SpanInfo::drop`: what it returns and what it leaves in place -/
def unlink : SpanInfo → Option SpanInfo × SpanInfo
  | .cons sp a d => (some d, .cons sp a (.prim Span.empty))
  | s => (none, s)

/-- `while let Some(mut info) = next { next = unlink(&mut info); }` started with `next = Some(s)`:
    the nodes dropped at the end of each iteration, in order (each already unlinked). -/
def dropSChain : SpanInfo → List SpanInfo
  | .cons sp a d => .cons sp a (.prim Span.empty) :: dropSChain d
  | s => [s]

/-- `<SpanInfo as Drop>::drop(&mut self)`: what is left in `self` for the drop glue, and the nodes
    dropped inside the loop. -/
def SpanInfo.dropLoop (s : SpanInfo) : SpanInfo × List SpanInfo :=
  match unlink s with
  | (some d, left) => (left, dropSChain d)
  | (none, left) => (left, [])

/-! ### Datum (derived) -/

/-- `<Datum as Clone>::clone`, also `From<Ref<'_>> for Datum`. -/
def cloneDatum (d : Datum) : Out Datum :=
  match cloneV d.value with
  | .panic s => .panic s
  | .ok v =>
    match cloneS d.info with
    | .panic s => .panic s
    | .ok i => .ok ⟨v, i⟩

/-- `<Datum as PartialEq>::eq`. -/
def eqDatum (a b : Datum) : Bool := eqV a.value b.value && eqS a.info b.info

/-! ### call depth -/

mutual
/-- levels used by the loop-implemented operations on a `SpanInfo` (the analogue of `Depth.looped`) -/
def loopedS : SpanInfo → Nat
  | .cons _ a d => max (loopedS a) (loopedSTail d) + 1
  | .vec _ xs => loopedSList xs + 1
  | .prim _ => 1
def loopedSTail : SpanInfo → Nat
  | .cons _ a d => max (loopedS a) (loopedSTail d)
  | .vec _ xs => loopedSList xs + 1
  | .prim _ => 1
def loopedSList : List SpanInfo → Nat
  | [] => 0
  | x :: xs => max (loopedS x) (loopedSList xs)
end

mutual
/-- `cloneS` with the depth reached. -/
def cloneSI : SpanInfo → Out SpanInfo × Nat
  | .prim sp => (.ok (.prim sp), 1)
  | .vec sp xs =>
    match cloneSListI xs with
    | (r, k) => (r.map (.vec sp), k + 1)
  | .cons sp car cdr =>
    match cloneSI car with
    | (.panic s, k) => (.panic s, k + 1)
    | (.ok c, k) =>
      match cloneSWhileI (cellS sp c) 0 cdr k with
      | (r, k') => (r, k' + 1)
def cloneSWhileI (head : SpanInfo) (last : Nat) : SpanInfo → Nat → Out SpanInfo × Nat
  | .cons sp car cdr, k =>
    match SI.nodeAt head last with
    | some (.cons _ _ _) =>
      match cloneSI car with
      | (.panic s, k1) => (.panic s, max k k1)
      | (.ok c, k1) =>
        match SI.setSlot1At head last (cellS sp c) with
        | some head' => cloneSWhileI head' (last + 1) cdr (max k k1)
        | none => (.panic .dangling, max k k1)
    | some _ => (.panic .spanCloneUnreachable, k)
    | none => (.panic .dangling, k)
  | .vec sp xs, k =>
    match cloneSListI xs with
    | (r, k1) => (finishS head last (r.map (.vec sp)), max k (k1 + 1))
  | .prim sp, k => (finishS head last (.ok (.prim sp)), max k 1)
def cloneSListI : List SpanInfo → Out (List SpanInfo) × Nat
  | [] => (.ok [], 0)
  | x :: xs =>
    match cloneSI x with
    | (.panic s, k) => (.panic s, k)
    | (.ok y, k) =>
      match cloneSListI xs with
      | (r, k') => (r.map (y :: ·), max k k')
end

mutual
/-- `eqS` with the depth reached *below* the frame of this call of `SpanInfo::eq` (the loop stays in
    the frame; comparing `xs[0]` with `ys[0]`, and the elements of a `Vec`, are calls). -/
def eqSI : SpanInfo → SpanInfo → Bool × Nat
  | .prim x, .prim y => (x == y, 0)
  | .vec x xs, .vec y ys => if x == y then eqSListI xs ys else (false, 0)
  | .cons x xa xd, .cons y ya yd =>
    if x != y then (false, 0) else
    match eqSI xa ya with
    | (false, k) => (false, k + 1)
    | (true, k) =>
      match eqSI xd yd with
      | (r, k') => (r, max (k + 1) k')
  | _, _ => (false, 0)
def eqSListI : List SpanInfo → List SpanInfo → Bool × Nat
  | [], [] => (true, 0)
  | x :: xs, y :: ys =>
    match eqSI x y with
    | (false, k) => (false, k + 1)
    | (true, k) =>
      match eqSListI xs ys with
      | (r, k') => (r, max (k + 1) k')
  | _, _ => (false, 0)
end

mutual
/-- Depth of dropping a `SpanInfo` (`SpanInfo::drop` and the drop glue). -/
def dropSD : SpanInfo → Nat
  | .prim _ => 1
  | .vec _ xs => 1 + dropSListD xs
  | .cons _ car cdr =>
    -- the loop drops the chain from `cdr`; the glue drops `[car, Prim(empty)]`
    1 + max (max (dropSD car) 1) (chainSD cdr)
/-- Depth of the nodes dropped by the loop from `s` on: a `Cons` node is dropped unlinked (its own
    `drop` finds `Prim(empty)` in `slots[1]`, the glue drops its car), the final node as it is. -/
def chainSD : SpanInfo → Nat
  | .cons _ car cdr => max (1 + max (max (dropSD car) 1) 1) (chainSD cdr)
  | .vec _ xs => 1 + dropSListD xs
  | .prim _ => 1
def dropSListD : List SpanInfo → Nat
  | [] => 0
  | x :: xs => max (dropSD x) (dropSListD xs)
end

end ConsOps
end Lexpr
