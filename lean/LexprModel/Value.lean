/-
  `lexpr::Number`, `lexpr::Value`, their accessors, conversions and comparisons
  (number.rs, value/mod.rs, value/from.rs, value/partial_eq.rs, cons.rs).
-/
import LexprModel.F64
namespace Lexpr

def u64Max : Nat := 18446744073709551615
def i64Max : Int := 9223372036854775807
def i64Min : Int := -9223372036854775808

/-- `number::N`: PosInt(u64) | NegInt(i64) | Float(f64 as bits). -/
inductive Number where
  | pos (n : Nat)
  | neg (i : Int)
  | flt (bits : Nat)
  deriving Repr, DecidableEq, Inhabited

namespace Number

/-- Values that can exist: u64 / i64 / 64 bits. -/
def WF : Number → Prop
  | pos n => n ≤ u64Max
  | neg i => i64Min ≤ i ∧ i ≤ i64Max
  | flt b => b < 2 ^ 64

/-- Normal form produced by every public constructor: NegInt is negative. -/
def Normal : Number → Prop
  | neg i => i < 0
  | _ => True

/-- `From<u8|u16|u32|u64>` -/
def ofUnsigned (n : Nat) : Number := pos n
/-- `From<i8|i16|i32|i64>` -/
def ofSigned (i : Int) : Number := if i ≥ 0 then pos i.toNat else neg i
/-- `From<f64>` -/
def ofF64 (bits : Nat) : Number := flt bits
/-- `From<f32>` -/
def ofF32 (bits32 : Nat) : Number := flt (F64.ofF32Bits bits32)

def isI64 : Number → Bool
  | pos v => decide ((v : Int) ≤ i64Max)
  | neg _ => true
  | flt _ => false

def isU64 : Number → Bool
  | pos _ => true
  | _ => false

def isF64 : Number → Bool
  | flt _ => true
  | _ => false

def asI64 : Number → Option Int
  | pos n => if (n : Int) ≤ i64Max then some n else none
  | neg i => some i
  | flt _ => none

def asU64 : Number → Option Nat
  | pos n => some n
  | _ => none

def asF64 : Number → Option Nat
  | pos n => some (F64.ofNat n)
  | neg i => some (F64.ofInt i)
  | flt b => some b

/-- derived `PartialEq` on `N` (floats compare with IEEE `==`). -/
def beq : Number → Number → Bool
  | pos a, pos b => a == b
  | neg a, neg b => a == b
  | flt a, flt b => F64.feq a b
  | _, _ => false

end Number

/-- `lexpr::Value`. Strings, symbols and keywords carry their UTF-8 bytes. -/
inductive Value where
  | nil
  | null
  | bool (b : Bool)
  | number (n : Number)
  | char (c : Nat)              -- a Unicode scalar value
  | string (s : List UInt8)
  | symbol (s : List UInt8)
  | keyword (s : List UInt8)
  | bytes (b : List UInt8)
  | cons (car cdr : Value)
  | vector (xs : List Value)
  deriving Repr, Inhabited

namespace Value

/- derived `PartialEq` for `Value` (through `Cons`, `Number`, boxed slices). -/
mutual
def beq : Value → Value → Bool
  | nil, nil => true
  | null, null => true
  | bool a, bool b => a == b
  | number a, number b => Number.beq a b
  | char a, char b => a == b
  | string a, string b => a == b
  | symbol a, symbol b => a == b
  | keyword a, keyword b => a == b
  | bytes a, bytes b => a == b
  | cons a d, cons a' d' => beq a a' && beq d d'
  | vector xs, vector ys => beqList xs ys
  | _, _ => false
def beqList : List Value → List Value → Bool
  | [], [] => true
  | x :: xs, y :: ys => beq x y && beqList xs ys
  | _, _ => false
end

/-! ### kind predicates and accessors (value/mod.rs) -/

def asStr : Value → Option (List UInt8) | string s => some s | _ => none
def asSymbol : Value → Option (List UInt8) | symbol s => some s | _ => none
def asKeyword : Value → Option (List UInt8) | keyword s => some s | _ => none
def asName : Value → Option (List UInt8)
  | symbol s => some s | keyword s => some s | string s => some s | _ => none
def asBytes : Value → Option (List UInt8) | bytes b => some b | _ => none
def asNumber : Value → Option Number | number n => some n | _ => none
def asBool : Value → Option Bool | bool b => some b | _ => none
def asChar : Value → Option Nat | char c => some c | _ => none
def asNil : Value → Option Unit | nil => some () | _ => none
def asNull : Value → Option Unit | null => some () | _ => none
def asPair : Value → Option (Value × Value) | cons a d => some (a, d) | _ => none
def asSlice : Value → Option (List Value) | vector xs => some xs | _ => none

def isString (v : Value) : Bool := v.asStr.isSome
def isSymbol (v : Value) : Bool := v.asSymbol.isSome
def isKeyword (v : Value) : Bool := v.asKeyword.isSome
def isBytes (v : Value) : Bool := v.asBytes.isSome
def isNumber (v : Value) : Bool := v.asNumber.isSome
def isBoolean (v : Value) : Bool := v.asBool.isSome
def isChar (v : Value) : Bool := v.asChar.isSome
def isNil (v : Value) : Bool := v.asNil.isSome
def isNull (v : Value) : Bool := v.asNull.isSome
def isCons : Value → Bool | cons _ _ => true | _ => false
def isVector : Value → Bool | vector _ => true | _ => false

def isI64 (v : Value) : Bool := match v.asNumber with | some n => n.isI64 | none => false
def isU64 (v : Value) : Bool := match v.asNumber with | some n => n.isU64 | none => false
def isF64 (v : Value) : Bool := match v.asNumber with | some n => n.isF64 | none => false
def asI64 (v : Value) : Option Int := v.asNumber.bind Number.asI64
def asU64 (v : Value) : Option Nat := v.asNumber.bind Number.asU64
def asF64 (v : Value) : Option Nat := v.asNumber.bind Number.asF64

/-- The 11 kinds, as a number 0..10. -/
def kind : Value → Nat
  | nil => 0 | null => 1 | bool _ => 2 | number _ => 3 | char _ => 4 | string _ => 5
  | symbol _ => 6 | keyword _ => 7 | bytes _ => 8 | cons _ _ => 9 | vector _ => 10

/-- The eleven kind predicates in `kind` order. -/
def kindFlags (v : Value) : List Bool :=
  [v.isNil, v.isNull, v.isBoolean, v.isNumber, v.isChar, v.isString, v.isSymbol, v.isKeyword,
   v.isBytes, v.isCons, v.isVector]

/-! ### comparisons with primitives (value/partial_eq.rs) -/

def eqI64 (v : Value) (o : Int) : Bool := match v.asI64 with | some i => i == o | none => false
def eqU64 (v : Value) (o : Nat) : Bool := match v.asU64 with | some i => i == o | none => false
def eqF64 (v : Value) (o : Nat) : Bool := match v.asF64 with | some f => F64.feq f o | none => false
def eqBool (v : Value) (o : Bool) : Bool := match v.asBool with | some b => b == o | none => false
def eqStr (v : Value) (o : List UInt8) : Bool := match v.asStr with | some s => s == o | none => false

end Value
end Lexpr
