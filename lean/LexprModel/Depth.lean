/-
  Call depth of the operations that walk a list (C16).  Each function mirrors which traversals of the
  real implementation are loops and which are recursion:
    * a derived `Clone` / `PartialEq` / drop glue recurses through every field (car AND cdr): this is
      what `Cons` and the span information of a `Datum` had on the pinned tree (`derived` below, kept
      as the witness of the defect repaired by /repo commit 54f14f8);
    * `impl Drop for Cons` — and since 54f14f8 `Clone` and `PartialEq` for `Cons`, and `Clone`,
      `PartialEq` and `Drop` for `SpanInfo` — walk the cdr chain in a loop and recurse only into cars
      (and into the tail);  `Printer::print`, `parse_list`, the iterators, `Index`, `is_list`, `to_vec`
      walk the cdr chain in a loop and recurse only where the structure nests.
  Depth 1 = one frame.
-/
import LexprModel.Value
import LexprModel.Spec.Dialect
namespace Lexpr
namespace Depth

mutual
/-- a derived `Clone` / `PartialEq` on `Cons` (the pinned tree): one frame per cell along the cdr chain -/
def derived : Value → Nat
  | .cons a d => max (derived a) (derived d) + 1
  | .vector xs => derivedList xs + 1
  | _ => 1
def derivedList : List Value → Nat
  | [] => 0
  | x :: xs => max (derived x) (derivedList xs)
end

mutual
/-- operations that loop along the cdr chain and recurse only into elements:
    `Drop`, `Clone`, `PartialEq` for `Cons` and `SpanInfo`, `Printer::print`, the parser, `to_vec`,
    iterators, `Index` (depth 1 for the
    non-recursive ones is bounded by this as well) -/
def looped : Value → Nat
  | .cons a d => max (looped a) (loopedTail d) + 1
  | .vector xs => loopedList xs + 1
  | _ => 1
def loopedTail : Value → Nat
  | .cons a d => max (looped a) (loopedTail d)
  | .vector xs => loopedList xs + 1
  | _ => 1
def loopedList : List Value → Nat
  | [] => 0
  | x :: xs => max (looped x) (loopedList xs)
end

end Depth
end Lexpr
