/-
  Definitions the round-trip properties (C01, C02, C13) are stated with, written from the wording of
  the properties (DESIGN.md Appendix A): which parser option sets recognise what a printer emits
  (`Compatible`), the documented dialect folding (`fold`), and the corresponding printer options
  for a parser option set (`pof`).
-/
import LexprModel.Value
import LexprModel.Options
namespace Lexpr
namespace Spec

/-- `R` recognises what `P` emits. -/
def Compatible (p : Print.Options) (r : Parse.Options) : Bool :=
  r.keyword p.keyword &&
  (p.vector != .brackets || r.brackets == .vector) &&
  (r.string == p.string) && (p.bytes != .elisp || r.string == .elisp) &&
  (p.char != .elisp || r.char == .elisp)

def readNil (r : Parse.Options) : Value :=
  match r.nil with | .default => .symbol (asc "nil") | .emptyList => .null | .special => .nil
def readT (r : Parse.Options) : Value :=
  match r.t with | .default => .symbol (asc "t") | .true_ => .bool true

mutual
/-- The documented folding only: nil and booleans printed as the symbols nil / t read back as the
    parser's nil / t treatment dictates; an empty byte vector printed as an Emacs unibyte string
    reads back as the empty string. -/
def fold (p : Print.Options) (r : Parse.Options) : Value → Value
  | .nil =>
    (match p.nil with
     | .token => .nil
     | .emptyList => .null
     | .symbol => readNil r
     | .false_ => if p.bool == .token then .bool false else readNil r)
  | .bool b => if p.bool == .token then .bool b else if b then readT r else readNil r
  | .bytes b => if b.isEmpty && p.bytes == .elisp then .string [] else .bytes b
  | .cons a d => .cons (fold p r a) (fold p r d)
  | .vector xs => .vector (foldList p r xs)
  | .null => .null
  | .number n => .number n
  | .char c => .char c
  | .string s => .string s
  | .symbol s => .symbol s
  | .keyword s => .keyword s
def foldList (p : Print.Options) (r : Parse.Options) : List Value → List Value
  | [] => []
  | x :: xs => fold p r x :: foldList p r xs
end

/-- The printer options corresponding to a parser option set (C13): a keyword spelling the
    parser reads, the `#nil` / `#t` / `#f` tokens, vector style from the bracket meaning,
    `#u8(...)` byte vectors, the same string and character syntax. -/
def pof (r : Parse.Options) : Print.Options :=
  { keyword := if r.kwOctothorpe then .octothorpe else if r.kwPrefix then .colonPrefix
               else if r.kwPostfix then .colonPostfix else .octothorpe,
    nil := .token, bool := .token,
    vector := match r.brackets with | .vector => .brackets | .list => .octothorpe,
    bytes := .r7rs, string := r.string, char := r.char }

/- list / vector nesting through car, vector elements and non-list tails (not along the cdr chain) -/
mutual
def nesting : Value → Nat
  | .cons a d => max (nesting a) (nestingTail d) + 1
  | .vector xs => nestingList xs + 1
  | _ => 0
def nestingTail : Value → Nat
  | .cons a d => max (nesting a) (nestingTail d)
  | .vector xs => nestingList xs + 1
  | _ => 0
def nestingList : List Value → Nat
  | [] => 0
  | x :: xs => max (nesting x) (nestingList xs)
end

end Spec
end Lexpr
