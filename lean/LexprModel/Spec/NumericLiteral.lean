/-
  The grammar of numeric literals (C05), as a decidable recogniser over bytes — the definition
  `C08_number_whole_token` (Proofs/NumberWhole.lean) is stated with.

      literal   ::=  [ "#b" | "#o" | "#d" | "#x" ]  [ "+" | "-" ]  unsigned(radix)
      unsigned  ::=  digit(radix)+                                    radix 2, 8, 16
                  |  digit+ [ "." digit+ ] [ ("e"|"E") ["+"|"-"] digit+ ]   radix 10

  The radix marks are lower-case only (`#B #O #D #X` are not accepted by `parse_token`:
  parse/mod.rs, the `b'b' | b'o' | b'd' | b'x'` arms), without a mark the radix is 10; the
  digits of radix 16 are `0-9a-fA-F` (so a hexadecimal literal has no exponent: `e` is a digit).
  A fraction needs a digit before and after the dot: `.5`, `1.`, `1.e5` are not literals.
-/
import LexprModel.Lex
namespace Lexpr
namespace Spec
open Parse

/-- digits of the four radixes -/
def isRadixDigit (radix : Nat) (b : UInt8) : Bool :=
  if radix == 2 then b == 48 || b == 49                                       -- 0 1
  else if radix == 8 then 48 ≤ b && b ≤ 55                                    -- 0-7
  else if radix == 16 then isDigit b || (97 ≤ b && b ≤ 102) || (65 ≤ b && b ≤ 70)  -- 0-9 a-f A-F
  else isDigit b                                                              -- 0-9

/-- `p+`: a non-empty run of bytes of the class `p` -/
def digits1 (p : UInt8 → Bool) (w : List UInt8) : Bool := !w.isEmpty && w.all p

/-- drop an optional sign `+` / `-` -/
def dropSign : List UInt8 → List UInt8
  | c :: r => if c == 43 || c == 45 then r else c :: r
  | [] => []

/-- `e` or `E` -/
def isExpMark (c : UInt8) : Bool := c == 101 || c == 69

/-- `("e"|"E") ["+"|"-"] digit+` -/
def exponentPart : List UInt8 → Bool
  | c :: r => isExpMark c && digits1 isDigit (dropSign r)
  | [] => false

/-- `"." digit+` -/
def fractionPart : List UInt8 → Bool
  | c :: r => c == 46 && digits1 isDigit r
  | [] => false

/-- `[fraction] [exponent]`: split at the first `e`/`E` (a fraction contains none) -/
def decimalSuffix (t : List UInt8) : Bool :=
  let fr := t.takeWhile (fun c => !isExpMark c)
  let ex := t.dropWhile (fun c => !isExpMark c)
  (fr.isEmpty || fractionPart fr) && (ex.isEmpty || exponentPart ex)

/-- `unsigned(radix)`: the leading run of digits of the radix is not empty, and what follows it
    is nothing or — radix 10 only — a fraction and/or an exponent -/
def unsignedShape (radix : Nat) (w : List UInt8) : Bool :=
  let ds := w.takeWhile (isRadixDigit radix)
  let t := w.dropWhile (isRadixDigit radix)
  !ds.isEmpty && (t.isEmpty || (radix == 10 && decimalSuffix t))

/-- `[sign] unsigned(radix)` -/
def signedShape (radix : Nat) (w : List UInt8) : Bool := unsignedShape radix (dropSign w)

/-- the radix named by the byte after `#` -/
def radixOfMark (c : UInt8) : Option Nat :=
  if c == 98 then some 2            -- b
  else if c == 111 then some 8      -- o
  else if c == 100 then some 10     -- d
  else if c == 120 then some 16     -- x
  else none

/-- **the whole byte string is a numeric literal** -/
def numericLiteralShape (w : List UInt8) : Bool :=
  match w with
  | h :: c :: r =>
    if h == 35 then                 -- '#'
      match radixOfMark c with
      | some radix => signedShape radix r
      | none => false
    else signedShape 10 w
  | _ => signedShape 10 w

/-! accepted -/
example : numericLiteralShape (asc "1") = true := by decide
example : numericLiteralShape (asc "-12.5e+3") = true := by decide
example : numericLiteralShape (asc "#x-1F") = true := by decide
example : numericLiteralShape (asc "#b101") = true := by decide
example : numericLiteralShape (asc "+5") = true := by decide
example : numericLiteralShape (asc "1e5") = true := by decide
example : numericLiteralShape (asc "1E-5") = true := by decide
example : numericLiteralShape (asc "#d1.5") = true := by decide
example : numericLiteralShape (asc "#o+17") = true := by decide
example : numericLiteralShape (asc "#xe5") = true := by decide
example : numericLiteralShape (asc "007.250E01") = true := by decide
/-! rejected -/
example : numericLiteralShape (asc "1+") = false := by decide
example : numericLiteralShape (asc "+5x") = false := by decide
example : numericLiteralShape (asc "#x1Fz") = false := by decide
example : numericLiteralShape (asc "") = false := by decide
example : numericLiteralShape (asc "-") = false := by decide
example : numericLiteralShape (asc "1.") = false := by decide
example : numericLiteralShape (asc "1e") = false := by decide
example : numericLiteralShape (asc ".5") = false := by decide
example : numericLiteralShape (asc "#b102") = false := by decide
example : numericLiteralShape (asc "#X1F") = false := by decide
example : numericLiteralShape (asc "#x") = false := by decide
example : numericLiteralShape (asc "#") = false := by decide
example : numericLiteralShape (asc "#b1e5") = false := by decide
example : numericLiteralShape (asc "#x1.5") = false := by decide
example : numericLiteralShape (asc "-.5") = false := by decide
example : numericLiteralShape (asc "1.e5") = false := by decide
example : numericLiteralShape (asc "1e+") = false := by decide
example : numericLiteralShape (asc "1.5.5") = false := by decide
example : numericLiteralShape (asc "1e5e5") = false := by decide
example : numericLiteralShape (asc "1e5.5") = false := by decide
example : numericLiteralShape (asc "+-5") = false := by decide
example : numericLiteralShape (asc "#x#x5") = false := by decide
example : numericLiteralShape (asc "5 ") = false := by decide

end Spec
end Lexpr
