/-
  Smoke tests of the executable specification readers (`#eval` / `#guard`, compiled evaluation, nothing
  here is used by a theorem).  `u` turns a Lean string into its UTF-8 bytes.
-/
import LexprModel.Spec.ReaderExec
namespace Lexpr.Spec.Smoke
open Lexpr Lexpr.Spec

def u (s : String) : List UInt8 := s.toUTF8.toList
def sym (s : String) : Value := .symbol (u s)
def int (n : Nat) : Value := .number (.pos n)
def list (xs : List Value) (tail : Value := .null) : Value := xs.foldr .cons tail
/-- `some true` iff the text reads as `v` -/
def reads (r : List UInt8 → Option Value) (text : String) (v : Value) : Bool :=
  (r (u text)).map (Value.beq · v) == some true
def rejects (r : List UInt8 → Option Value) (text : String) : Bool := (r (u text)).isNone

/-! ### Scheme -/

#eval readScheme (u "(a \"b\\n\" #\\x41 1.5 #u8(1 2) . #t)")

#guard reads readScheme "(a \"b\\n\" #\\x41 1.5 #u8(1 2) . #t)"
  (list [sym "a", .string (u "b\n"), .char 65, .number (.flt 0x3FF8000000000000), .bytes [1, 2]]
    (.bool true))
#guard reads readScheme "  ; comment\n ( 1 -2 +3 #xff #b-101 #o17 ) ; trailing"
  (list [int 1, .number (.neg (-2)), int 3, int 255, .number (.neg (-5)), int 15])
#guard reads readScheme "(1e3 .5 5. -0.0 1E2)"
  (list [.number (.flt 0x408F400000000000), .number (.flt 0x3FE0000000000000),
    .number (.flt 0x4014000000000000), .number (.flt 0x8000000000000000),
    .number (.flt 0x4059000000000000)])
#guard reads readScheme "18446744073709551615" (int 18446744073709551615)
#guard reads readScheme "18446744073709551616" (.number (.flt 0x43F0000000000000))
#guard reads readScheme "-9223372036854775808" (.number (.neg (-9223372036854775808)))
#guard reads readScheme "-9223372036854775809" (.number (.flt 0xC3E0000000000000))
#guard reads readScheme "5e-324" (.number (.flt 1))
#guard reads readScheme "1.7976931348623157e308" (.number (.flt 0x7FEFFFFFFFFFFFFF))
#guard reads readScheme "'(a `b ,c ,@d)"
  (list [sym "quote", list [sym "a", list [sym "quasiquote", sym "b"], list [sym "unquote", sym "c"],
    list [sym "unquote-splicing", sym "d"]]])
#guard reads readScheme "#(1 #(2) () [a . b] #nil #:kw #true #false)"
  (.vector [int 1, .vector [int 2], .null, .cons (sym "a") (sym "b"), .nil, .keyword (u "kw"),
    .bool true, .bool false])
#guard reads readScheme "(#\\space #\\  #\\( #\\x #\\x3bb #\\λ #\\newline #\\nul #\\delete)"
  (list [.char 32, .char 32, .char 40, .char 120, .char 955, .char 955, .char 10, .char 0, .char 127])
#guard reads readScheme "\"\\x41;\\\\\\a\\\"λ\\x3bb;\"" (.string (u "A\\\x07\"λλ"))
#guard reads readScheme "(+ - ... +a -.b .a λx a.b ->x set! <=?)"
  (list [sym "+", sym "-", sym "...", sym "+a", sym "-.b", sym ".a", sym "λx", sym "a.b", sym "->x",
    sym "set!", sym "<=?"])
#guard reads readScheme "#vu8(0 255)" (.bytes [0, 255])
#guard rejects readScheme "a\"b"
#guard rejects readScheme "a#b"
#guard rejects readScheme "(1 . 2 3)"
#guard rejects readScheme "(. 2)"
#guard rejects readScheme "#(1 . 2)"
#guard rejects readScheme "(1 2]"
#guard rejects readScheme "1 2"
#guard rejects readScheme ""
#guard rejects readScheme "+i"
#guard rejects readScheme "#u8(256)"
#guard rejects readScheme "#\\spac"
#guard rejects readScheme "\"\\q\""
#guard rejects readScheme "1+"
#guard rejects readScheme "→"      -- U+2192 is not alphabetic

/-! ### Emacs Lisp -/

#eval readElisp (u "(a nil t :k [1 2.5] ?a ?\\( \"a\\u0001\" \"\\001\\310\" . b)")

#guard reads readElisp "(a nil t :k [1 2.5 -3] ?a ?\\( ?\\x41 ?  . b)"
  (list [sym "a", .null, sym "t", .keyword (u "k"),
    .vector [int 1, .number (.flt 0x4004000000000000), .number (.neg (-3))],
    .char 97, .char 40, .char 65, .char 32] (sym "b"))
#guard reads readElisp "(\"a\\u0001b\\n\\\"é\" \"\\001\\310\" \"\" \"\\x41é\" \"\\x41\\ b\")"
  (list [.string (u "a\x01b\n\"é"), .bytes [1, 200], .string [], .string (u "Aé"), .bytes [65, 98]])
#guard reads readElisp "(1. +1. .5 1+ -1e3 #x1f a.b foo? ?\\n ?\\101 ?\\N{U+3bb} ?\\u03bb)"
  (list [int 1, int 1, .number (.flt 0x3FE0000000000000), sym "1+",
    .number (.flt 0xC08F400000000000), int 31, sym "a.b", sym "foo?", .char 10, .char 65, .char 955,
    .char 955])
#guard reads readElisp "'(a #'f)" (list [sym "quote", list [sym "a", list [sym "function", sym "f"]]])
#guard rejects readElisp "?ab"
#guard rejects readElisp "\"\\xe9é\""     -- a byte escape outside ASCII next to a non-ASCII character
#guard rejects readElisp "a\"b"
#guard rejects readElisp "[1 . 2]"
#guard rejects readElisp "(1 2]"
#guard rejects readElisp "#(1 2)"
#guard rejects readElisp "?\\^a"

end Lexpr.Spec.Smoke
