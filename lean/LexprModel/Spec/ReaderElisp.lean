/-
  An INDEPENDENT reader for the documented Emacs Lisp subset (lexpr/src/parse/mod.rs `Options::elisp`,
  lexpr/docs/elisp-strings.md, the Emacs Lisp reference manual for the lexical details): `nil` is the
  empty list, `t` an ordinary symbol, `:name` a keyword, `[ … ]` a vector, `?c` a character, strings
  with the Emacs escapes, a string with a hexadecimal or octal byte escape and no non-ASCII character
  is a unibyte string = a byte vector.

  Same three stages as `Spec/Reader.lean` and the same stage 3 (`Spec.build`); stages 1 and 2 are
  those of this dialect.  Nothing of the model of the crate's parser is used.
-/
import LexprModel.Spec.Reader
namespace Lexpr
namespace Spec
namespace Elisp

/-! ## 1. Escapes (after the backslash), shared by characters and strings -/

/-- what an escape denotes: a character, or (hexadecimal and octal escapes below 256) a raw byte -/
inductive Esc where
  | chr (c : Nat) | raw (b : Nat)
  deriving Repr, DecidableEq

def isHex (b : UInt8) : Bool := (digitVal 16 b).isSome
def isOct (b : UInt8) : Bool := (digitVal 8 b).isSome

/-- the mnemonic escapes `\a \b \t \n \v \f \r \e \s \d` -/
def mnemonic : List (UInt8 × Nat) :=
  [(ch 'a', 7), (ch 'b', 8), (ch 't', 9), (ch 'n', 10), (ch 'v', 11), (ch 'f', 12), (ch 'r', 13),
   (ch 'e', 27), (ch 's', 32), (ch 'd', 127)]

def numEsc (n : Nat) : Option Esc :=
  if n < 256 then some (.raw n) else if isScalar n then some (.chr n) else none
def uniEsc (n : Nat) : Option Esc := if isScalar n then some (.chr n) else none

/-- The escape at the head of the input (which starts just after the backslash) and its length:
    `x` hex digits (as many as follow), 1–3 octal digits, `uXXXX`, `UXXXXXXXX`, `N{U+X…}`, a mnemonic
    letter, or any other character standing for itself (`\\`, `\"`, `\(` …).  The keyboard-oriented
    escapes (`\^c`, `\C-c`, `\M-c`, …) are outside the subset. -/
def escape (bs : List UInt8) : Option (Esc × Nat) :=
  match bs with
  | [] => none
  | e :: r =>
    if e == 94 || ((asc "CMSHAs").contains e && r.head? == some 45) then none
    else if e == 120 then
      let ds := r.takeWhile isHex
      (digitsVal 16 ds).bind fun n => (numEsc n).map (·, 1 + ds.length)
    else if isOct e then
      let ds := (e :: r.take 2).takeWhile isOct
      (digitsVal 8 ds).bind fun n => (numEsc n).map (·, ds.length)
    else if e == 117 then (digitsVal 16 (r.take 4)).bind fun n =>
      if (r.take 4).length == 4 then (uniEsc n).map (·, 5) else none
    else if e == 85 then (digitsVal 16 (r.take 8)).bind fun n =>
      if (r.take 8).length == 8 then (uniEsc n).map (·, 9) else none
    else if e == 78 then
      let ds := (r.drop 3).takeWhile isHex
      if r.take 3 == asc "{U+" && (r.drop (3 + ds.length)).head? == some 125 then
        (digitsVal 16 ds).bind fun n => (uniEsc n).map (·, 5 + ds.length)
      else none
    else match mnemonic.lookup e with
      | some c => some (.chr c, 1)
      | none => (Utf8.decodeFirst bs).map fun (c, _) => (.chr c, (Utf8.encode c).length)

/-! ## 2. Lexemes -/

/-- `?c` or `?\escape`: the character and the length of the lexeme after the `?` -/
def charBody (bs : List UInt8) : Option (Nat × Nat) :=
  match bs with
  | [] => none
  | b :: r =>
    if b == 92 then
      (escape r).bind fun (e, n) => match e with
        | .chr c => some (c, n + 1)
        | .raw c => some (c, n + 1)
    else (Utf8.decodeFirst bs).map fun (c, _) => (c, (Utf8.encode c).length)

def lexeme (bs : List UInt8) : Option (Option Tok × Nat) :=
  match bs with
  | [] => none
  | b :: r =>
    if isWhite b then some (none, 1)
    else if b == 59 then some (none, 1 + commentLen r)
    else if b == 40 then some (some .lpar, 1)
    else if b == 41 then some (some .rpar, 1)
    else if b == 91 then some (some .lbrk, 1)
    else if b == 93 then some (some .rbrk, 1)
    else if b == 39 then some (some (.abbrev (asc "quote")), 1)
    else if b == 96 then some (some (.abbrev (asc "`")), 1)
    else if b == 44 then
      if r.head? == some 64 then some (some (.abbrev (asc ",@")), 2)
      else some (some (.abbrev (asc ",")), 1)
    else if bs.take 2 == asc "#'" then some (some (.abbrev (asc "function")), 2)
    else if b == 34 then (strLen r).map fun n => (some (.str (r.take n)), n + 2)
    else if b == 63 then
      (charBody r).map fun (c, n) =>
        (some (.chr c ((r.drop n).take (atomLen (r.drop n)))), 1 + n + atomLen (r.drop n))
    else some (some (.atom (bs.take (atomLen bs))), atomLen bs)

/-! ## 3. The meaning of a lexeme -/

/-- one element of a string body: an escape, nothing (`\<newline>`, `\ `), or a literal byte (of a
    UTF-8 encoded character) -/
inductive StrEl where
  | esc (e : Esc) | skip | lit (b : UInt8)
  deriving Repr, DecidableEq

def strElement (bs : List UInt8) : Option (StrEl × Nat) :=
  match bs with
  | [] => none
  | b :: r =>
    if b == 92 then
      (if r.head? == some 10 || r.head? == some 32 then some (.skip, 2)
       else (escape r).map fun (e, n) => (.esc e, n + 1))
    else some (.lit b, 1)

def StrEl.isRaw : StrEl → Bool | .esc (.raw _) => true | _ => false
def StrEl.nonAscii : StrEl → Bool | .esc (.chr c) => c ≥ 128 | .lit b => b ≥ 128 | _ => false
/-- the bytes an element contributes to a multibyte string -/
def StrEl.bytes : StrEl → List UInt8
  | .esc (.chr c) => Utf8.encode c | .esc (.raw b) => [UInt8.ofNat b] | .lit b => [b] | .skip => []

/-- docs/elisp-strings.md: a string without byte escapes (hexadecimal or octal, below 256) is a
    multibyte string; with a byte escape and only ASCII characters it is a unibyte string, i.e. a byte
    vector; a byte escape outside ASCII next to a non-ASCII character is an error -/
def strValue (body : List UInt8) : Option Value :=
  match chunks strElement 0 body with
  | none => none
  | some es =>
    if es.any StrEl.isRaw && !es.any StrEl.nonAscii then some (.bytes (es.flatMap StrEl.bytes))
    else if es.any fun e => e.isRaw && e.bytes.any (· ≥ 128) then none
    else if Utf8.valid (es.flatMap StrEl.bytes) then some (.string (es.flatMap StrEl.bytes))
    else none

/-- symbol constituents that need no backslash: letters, digits, `-+=*/_~!@$%^&:<>{}?.`, and the bytes
    of non-ASCII scalars (judged by `alpha`) -/
def isConstituent (b : UInt8) : Bool :=
  isLetter b || isDigit b || (asc "-+=*/_~!@$%^&:<>{}?.").contains b || b ≥ 128

/-- integers `[+-]digits[.]`, `#b #o #x` integers, floats as in `Spec.number` -/
def number (a : List UInt8) : Option Number :=
  let body := if a.head? == some 45 || a.head? == some 43 then a.drop 1 else a
  if a.getLast? == some 46 && !body.dropLast.isEmpty && body.dropLast.all isDigit then
    some (integerOf (a.head? == some 45) (decVal body.dropLast))
  else if a.take 2 == asc "#d" || a.take 2 == asc "#D" then none
  else Spec.number a

/-- a symbol: constituents only, not starting with `?`, not a number, not the lone dot;
    non-ASCII scalars alphabetic -/
def isSymbol (alpha : Nat → Bool) (a : List UInt8) : Bool :=
  !a.isEmpty && a.all isConstituent && a.head? != some 63 && a != [46] && (number a).isNone &&
  (match scalars a with
   | some cs => cs.all fun c => c < 128 || alpha c
   | none => false)

def atomValue (alpha : Nat → Bool) (a : List UInt8) : Option Value :=
  if a == asc "nil" then some .null
  else if a.head? == some 58 then
    (if isSymbol alpha (a.drop 1) then some (.keyword (a.drop 1)) else none)
  else match number a with
    | some n => some (.number n)
    | none => if isSymbol alpha a then some (.symbol a) else none

def classify (alpha : Nat → Bool) : Tok → Option Item
  | .lpar => some (.open (.list .rpar))
  | .lbrk => some (.open (.vector .rbrk))
  | .rpar => some (.close .rpar)
  | .rbrk => some (.close .rbrk)
  | .abbrev s => some (.abbrev s)
  | .str body => (strValue body).map .datum
  | .chr c more => if more.isEmpty && isScalar c then some (.datum (.char c)) else none
  | .atom a => if a == [46] then some .dot else (atomValue alpha a).map .datum
  | _ => none

end Elisp

/-- **The Emacs Lisp reader**: one datum, surrounded by whitespace and comments, and nothing else. -/
def readElispWith (alpha : Nat → Bool) (text : List UInt8) : Option Value :=
  ((chunks Elisp.lexeme 0 text).map fun ts => ts.filterMap id).bind fun ts =>
    (ts.mapM (Elisp.classify alpha)).bind build

end Spec
end Lexpr
