/-
  The two specification readers as closed executable functions, for differential testing against the
  crate: `alpha` is instantiated with the Unicode property Alphabetic (the regenerated range table of
  `char::is_alphabetic`).  A driver calls `Spec.readScheme bytes` / `Spec.readElisp bytes` on the text
  the real printer produced and compares with the value that was printed (Scheme) or its documented
  folding (Emacs Lisp).  No proofs in here; the theorems (Proofs/SpecRT.lean, SpecRTElisp.lean) hold
  for every `alpha`, hence for this one (`Proofs/SpecRTExec.lean`).
-/
import LexprModel.Spec.Reader
import LexprModel.Spec.ReaderElisp
import LexprModel.Generated.Tables
namespace Lexpr
namespace Spec

/-- Unicode `Alphabetic` on scalar values, from the regenerated table -/
def unicodeAlphabetic (c : Nat) : Bool :=
  Gen.alphabeticRanges.any fun (lo, hi) => lo ≤ c && c ≤ hi

/-- the independent reader of the documented R6RS/R7RS-style grammar -/
def readScheme (text : List UInt8) : Option Value := readSchemeWith unicodeAlphabetic text

/-- the independent reader of the documented Emacs Lisp subset -/
def readElisp (text : List UInt8) : Option Value := readElispWith unicodeAlphabetic text

end Spec
end Lexpr
