/-
  Definitions the last clause of C08 is stated with: "two option sets that differ only in options an
  input does not exercise give identical results for it".

  * `OptName` — the ten parser options, one name per field of `parse::Options` (the three keyword
    spellings are separate names); `optValue o n` is the content of option `n` in `o`;
    `AgreeOn ns o o'` — the two option sets agree on every option named in `ns`;
    `SameBuild c c'` — the same build (cargo feature, the two regenerated tables).
  * `tokenText mode rest` — the token at the head of `rest`: the bytes up to the next symbol
    terminator; `postfixKw name` — `[kwPostfix]` if `name` has at least two bytes and ends in `:`.
  * `tokenOpts o mode rest` — DECLARATIVE, per token: the options the token at the head of `rest`
    exercises, from its first byte(s) and its text:
      `nil` ⇒ nil option, `t` ⇒ t option, a token ending in `:` ⇒ `kwPostfix` (for symbol-like tokens),
      `:`-initial ⇒ `kwPrefix` (and `kwPostfix` only if `kwPrefix` is off), `#:` ⇒ `kwOctothorpe`,
      `#%` ⇒ `racket`, `[` ⇒ `brackets`, `"` ⇒ `string`, `?`-initial ⇒ `char` (and `kwPostfix` only if
      the character syntax is not Emacs Lisp), digit-initial ⇒ `leadingDigit` (and `kwPostfix` only
      if leading-digit symbols are on); sign-initial tokens that the code sends to the number parser
      (`+5`) or rejects (`-.5`) exercise nothing; `(`, `)`, `]`, `'`, `` ` ``, `,`, `,@`, the other `#`
      tokens: nothing.
  * `exercisedOp cfg mode bytes` — OPERATIONAL: the union of `tokenOpts` over the tokens that
    `from_trait` under `cfg` actually reads (`exValue` / `exList` / `exVector` follow the control flow of
    `next_value` / `parse_list` / `parse_vector`, calling the model's own functions for the states,
    and collect `tokenOpts` at every call of `parse_token` and `postfixKw` at the `.name` elements
    that `parse_list` reads itself).
  * `exercised cfg mode bytes` — FLAT: the union of `tokenOpts` over the flat token stream of the
    input, context-free: skip trivia, take the token, continue after it (the model's tokenizer
    `parse_token` is the token splitter; a byte vector `#u8(…)` is one token; `)` and `]` are
    one-byte tokens; after a `.` that is followed by a delimiter the scan ALSO continues directly
    behind the dot, because that is what `parse_list` does for a dotted tail — inside a list
    `."a"` is a dot and a string, elsewhere it is one symbol).  The scan stops only where the
    tokenizer itself fails; it does not know about nesting, mismatched parentheses, the recursion
    limit or the end of the first datum; it over-approximates `exercisedOp`
    (`Proofs/FrameScan.lean`).
-/
import LexprModel.Parse
namespace Lexpr
namespace Spec
open Parse

/-- the ten parser options -/
inductive OptName where
  | kwPrefix | kwPostfix | kwOctothorpe | nil | t | brackets | string | char | racket | leadingDigit
  deriving DecidableEq, Repr, Inhabited

/-- the content of an option, as a number -/
def optValue (o : Parse.Options) : OptName → Nat
  | .kwPrefix => o.kwPrefix.toNat
  | .kwPostfix => o.kwPostfix.toNat
  | .kwOctothorpe => o.kwOctothorpe.toNat
  | .nil => match o.nil with | .emptyList => 0 | .default => 1 | .special => 2
  | .t => match o.t with | .true_ => 0 | .default => 1
  | .brackets => match o.brackets with | .list => 0 | .vector => 1
  | .string => match o.string with | .r6rs => 0 | .elisp => 1
  | .char => match o.char with | .r6rs => 0 | .elisp => 1
  | .racket => o.racket.toNat
  | .leadingDigit => o.leadingDigit.toNat

/-- the two option sets agree on every option named in `ns` -/
def AgreeOn (ns : List OptName) (o o' : Parse.Options) : Prop :=
  ∀ n ∈ ns, optValue o n = optValue o' n

instance (ns : List OptName) (o o' : Parse.Options) : Decidable (AgreeOn ns o o') := by
  unfold AgreeOn; exact inferInstance

/-- the same build: cargo feature `fast-float-parsing` and the two regenerated tables -/
structure SameBuild (c c' : Cfg) : Prop where
  fast : c.fast = c'.fast
  alpha : c.isAlphabetic = c'.isAlphabetic
  pow10 : c.pow10 = c'.pow10

/-- the token at the head of the input: everything up to the next symbol terminator -/
def tokenText (mode : Mode) (rest : List UInt8) : List UInt8 := rest.take (symLen mode rest)

/-- a name of at least two bytes that ends in `:` is a keyword under the colon-postfix spelling -/
def postfixKw (name : List UInt8) : List OptName :=
  if name.length > 1 && name.getLast? == some 58 then [.kwPostfix] else []

/-- The options exercised by the token at the head of `rest`. -/
def tokenOpts (o : Parse.Options) (mode : Mode) (rest : List UInt8) : List OptName :=
  match rest with
  | [] => []
  | pk :: tl =>
    let name := tokenText mode rest
    if pk == 35 then                                        -- `#`
      (match tl with
       | c :: _ => if c == 58 then [.kwOctothorpe] else if c == 37 then [.racket] else []
       | [] => [])
    else if pk == 45 || pk == 43 then                       -- `-` `+`
      let nxt := tl.head?.getD 0
      if nxt == 0 || isDelimiter nxt || isSignSubsequent nxt then postfixKw name
      else if nxt == 46 then (if isDigit ((tl.drop 1).head?.getD 0) then [] else postfixKw name)
      else []                                               -- a number or an error
    else if isDigit pk then
      .leadingDigit :: (if o.leadingDigit then postfixKw name else [])
    else if pk == 34 then [.string]                         -- `"`
    else if pk == 40 then []                                -- `(`
    else if pk == 91 then [.brackets]                       -- `[`
    else if pk == 58 then                                   -- `:`
      .kwPrefix :: (if o.kwPrefix then [] else postfixKw name)
    else if isAsciiAlpha pk then
      postfixKw name ++ (if name == asc "nil" then [.nil] else []) ++
        (if name == asc "t" then [.t] else [])
    else if pk == 63 then                                   -- `?`
      .char :: (if o.char == .elisp then [] else postfixKw name)
    else if pk == 39 || pk == 96 || pk == 44 then []        -- the quote shorthands
    else if pk > 127 then postfixKw name
    else if isSymbolExtended pk then postfixKw name
    else []

/-! ### operational: the tokens the parser reads -/

mutual
/-- options exercised by `next_value` -/
def exValue (cfg : Cfg) : Nat → St → List OptName
  | 0, _ => []
  | f + 1, s =>
    match parseWhitespace s with
    | .ok (some pk) s0 =>
      tokenOpts cfg.opts s0.rd.mode s0.rd.rest ++
      (match parseToken cfg (s0.rd.rest.length + 1) pk s0 with
       | .ok (.vecOpen _) s1 =>
         (match enter s1 with | .ok () s2 => exVector cfg f s2 | _ => [])
       | .ok (.listOpen _) s1 =>
         (match enter s1 with | .ok () s2 => exList cfg f true s2 | _ => [])
       | .ok (.quotation _) s1 =>
         (match enter s1 with | .ok () s2 => exValue cfg f s2 | _ => [])
       | _ => [])
    | _ => []
/-- options exercised by `parse_list`; `emp` says that no element has been read yet -/
def exList (cfg : Cfg) : Nat → Bool → St → List OptName
  | 0, _, _ => []
  | f + 1, emp, s =>
    match parseWhitespace s with
    | .ok (some c) s0 =>
      if c == 41 || c == 93 then []
      else if c == 46 then
        (match (discard >>= fun _ => peekOrNull) s0 with
         | .ok nxt s2 =>
           if nxt == 0 || isDelimiter nxt then (if emp then [] else exValue cfg f s2)
           else
             (match parseSymbolBytes [46] s2 with
              | .ok name s3 => postfixKw name ++ exList cfg f false s3
              | _ => [])
         | _ => [])
      else
        exValue cfg f s0 ++
        (match nextValue cfg f s0 with
         | .ok (some _) s1 => exList cfg f false s1
         | _ => [])
    | _ => []
/-- options exercised by `parse_vector` -/
def exVector (cfg : Cfg) : Nat → St → List OptName
  | 0, _ => []
  | f + 1, s =>
    match parseWhitespace s with
    | .ok (some c) s0 =>
      if c == 41 || c == 93 then []
      else
        exValue cfg f s0 ++
        (match nextValue cfg f s0 with
         | .ok (some _) s1 => exVector cfg f s1
         | _ => [])
    | _ => []
end

/-- The options exercised by `from_str` / `from_slice` / `from_reader` on `bytes` under `cfg`:
    those of the tokens the parser reads. -/
def exercisedOp (cfg : Cfg) (mode : Mode) (bytes : List UInt8) : List OptName :=
  exValue cfg (2 * bytes.length + 4) (initSt mode bytes)

/-! ### flat: the token stream of the input -/

/-- one step of the flat scan: skip trivia, take the token at the head of the input, and continue
    with `k` behind it (see the header) -/
def scanBody (cfg : Cfg) (k : St → List OptName) (s : St) : List OptName :=
  match parseWhitespace s with
  | .ok (some pk) s0 =>
    if pk == 41 || pk == 93 then
      (match discard s0 with | .ok () s1 => k s1 | _ => [])
    else
      tokenOpts cfg.opts s0.rd.mode s0.rd.rest ++
      (match parseToken cfg (s0.rd.rest.length + 1) pk s0 with
       | .ok (.byteVecOpen close) s1 =>
         (match parseByteList cfg (s0.rd.rest.length + 1) close s1 with
          | .ok _ s2 => k s2
          | _ => [])
       | .ok _ s1 => k s1
       | _ => []) ++
      (if pk == 46 then
         (match (discard >>= fun _ => peekOrNull) s0 with
          | .ok nxt s2 => if nxt == 0 || isDelimiter nxt then k s2 else []
          | _ => [])
       else [])
  | _ => []

/-- the flat scan of the token stream, at most `fuel` tokens -/
def scan (cfg : Cfg) : Nat → St → List OptName
  | 0, _ => []
  | f + 1, s => scanBody cfg (scan cfg f) s

/-- The options exercised by the token stream of `bytes` (tokens split under `cfg`). -/
def exercised (cfg : Cfg) (mode : Mode) (bytes : List UInt8) : List OptName :=
  scan cfg (bytes.length + 1) (initSt mode bytes)

end Spec
end Lexpr
