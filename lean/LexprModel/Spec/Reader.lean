/-
  An INDEPENDENT reader for the Scheme dialect of S-expressions, written from the documented grammar
  (R7RS small 7.1.1 with the R6RS extensions the crate documents: `#vu8(`, brackets as parentheses,
  R6RS character names, and the Guile spellings `#nil` and `#:keyword`; see lexpr/src/lib.rs).

  It shares nothing with the model of the crate's parser (`Lex.lean`, `Parse.lean`): it imports only
  bytes, UTF-8, `Value` and the rounding function `F64.rn`.  Its shape is also different: the crate
  reads in one recursive-descent pass with look-ahead; this reader works in three stages,

      bytes  --tokens-->  List Tok  --classify-->  List Item  --build-->  Value

  (cut the text into lexemes; give every lexeme its meaning; assemble the tree with a stack).
  Plain executable functions, no proofs inside, no fuel, no depth limit.  `alpha` says which non-ASCII
  scalars may occur in identifiers (the grammar leaves this to the implementation; the crate documents
  "alphabetic", `Spec.readScheme` in ReaderExec.lean instantiates the Unicode property Alphabetic).

  Outside the data model and therefore rejected (`none`): `|quoted symbols|`, block and datum
  comments, exactness prefixes, rationals, complex numbers, `+inf.0` / `+nan.0`, labels.
  The theorems about this reader are in Proofs/SpecRT.lean (`C01_independent`).
-/
import LexprModel.Value
namespace Lexpr
namespace Spec

/-! ## 0. A generic cutter -/

/-- Cut a byte string into consecutive pieces.  At a piece boundary `f` sees the remaining input and
    says what the piece is and how many bytes (at least one) it takes; `skip` counts the bytes of the
    current piece still to be passed over.  (Structural recursion, no fuel.) -/
def chunks {α : Type} (f : List UInt8 → Option (α × Nat)) : Nat → List UInt8 → Option (List α)
  | _, [] => some []
  | skip + 1, _ :: bs => chunks f skip bs
  | 0, b :: bs =>
    match f (b :: bs) with
    | none => none
    | some (a, n) => (chunks f (n - 1) bs).map (a :: ·)

/-- the scalar values of a UTF-8 string (`none` if ill-formed) -/
def scalars (bs : List UInt8) : Option (List Nat) :=
  chunks (fun s => (Utf8.decodeFirst s).map fun (c, _) => (c, (Utf8.encode c).length)) 0 bs

/-! ## 1. Lexemes -/

def isWhite (b : UInt8) : Bool := b == 32 || b == 9 || b == 10 || b == 13 || b == 12

/-- a lexeme that is not self-delimiting ends before one of these, or at the end of the input -/
def isDelim (b : UInt8) : Bool :=
  isWhite b || b == 40 || b == 41 || b == 91 || b == 93 || b == 34 || b == 59

inductive Tok where
  | lpar | rpar | lbrk | rbrk           -- ( ) [ ]
  | vec | u8                            -- #(   #u8( or #vu8(
  | abbrev (sym : List UInt8)           -- ' ` , ,@  with the symbol they abbreviate
  | str (body : List UInt8)             -- "body"  (escapes not yet interpreted)
  | chr (c : Nat) (more : List UInt8)   -- #\ one scalar, then the further non-delimiter bytes
  | atom (bytes : List UInt8)           -- any other maximal run of non-delimiter bytes
  deriving Repr, DecidableEq

/-- length of the maximal run of non-delimiter bytes -/
def atomLen : List UInt8 → Nat
  | [] => 0
  | b :: bs => if isDelim b then 0 else atomLen bs + 1

/-- length of a comment body: up to (not including) the line feed -/
def commentLen : List UInt8 → Nat
  | [] => 0
  | b :: bs => if b == 10 then 0 else commentLen bs + 1

/-- length of a string body: up to (not including) the first `"` not preceded by a backslash -/
def strLen : List UInt8 → Option Nat
  | [] => none
  | b :: bs =>
    if b == 34 then some 0
    else if b == 92 then
      match bs with
      | [] => none
      | _ :: bs' => (strLen bs').map (· + 2)
    else (strLen bs).map (· + 1)

/-- The lexeme at the head of the input (`none` inside = whitespace or comment) and its length. -/
def lexeme (bs : List UInt8) : Option (Option Tok × Nat) :=
  match bs with
  | [] => none
  | b :: r =>
    if isWhite b then some (none, 1)
    else if b == 59 then some (none, 1 + commentLen r)
    else if b == 40 then some (some .lpar, 1)
    else if b == 41 then some (some .rpar, 1)
    else if b == 91 then some (some .lbrk, 1)
    else if b == 93 then some (some .rbrk, 1)
    else if b == 39 then some (some (.abbrev (asc "quote")), 1)
    else if b == 96 then some (some (.abbrev (asc "quasiquote")), 1)
    else if b == 44 then
      if r.head? == some 64 then some (some (.abbrev (asc "unquote-splicing")), 2)
      else some (some (.abbrev (asc "unquote")), 1)
    else if b == 34 then (strLen r).map fun n => (some (.str (r.take n)), n + 2)
    else if bs.take 2 == asc "#(" then some (some .vec, 2)
    else if bs.take 4 == asc "#u8(" then some (some .u8, 4)
    else if bs.take 5 == asc "#vu8(" then some (some .u8, 5)
    else if bs.take 2 == asc "#\\" then
      match Utf8.decodeFirst (bs.drop 2) with
      | none => none
      | some (c, after) => some (some (.chr c (after.take (atomLen after))),
                                 2 + (Utf8.encode c).length + atomLen after)
    else some (some (.atom (bs.take (atomLen bs))), atomLen bs)

/-- Stage 1: the lexemes of a text, trivia dropped. -/
def tokens (bs : List UInt8) : Option (List Tok) :=
  (chunks lexeme 0 bs).map fun ts => ts.filterMap id

/-! ## 2. The meaning of a lexeme -/

/-! ### numbers: `[#b|#o|#d|#x] [+|-] digits`, `[+|-] (digits [. digits*] | . digits) [e [+|-] digits]` -/

def isDigit (b : UInt8) : Bool := 48 ≤ b && b ≤ 57

/-- value of a digit in the given radix -/
def digitVal (radix : Nat) (b : UInt8) : Option Nat :=
  let v := if isDigit b then b.toNat - 48
           else if 97 ≤ b && b ≤ 102 then b.toNat - 87
           else if 65 ≤ b && b ≤ 70 then b.toNat - 55 else 16
  if v < radix then some v else none

/-- value of a non-empty digit string in the given radix -/
def digitsVal (radix : Nat) (ds : List UInt8) : Option Nat :=
  if !ds.isEmpty && ds.all (fun d => (digitVal radix d).isSome) then
    some (ds.foldl (fun a d => a * radix + (digitVal radix d).getD 0) 0)
  else none

def decVal (ds : List UInt8) : Nat := ds.foldl (fun a c => a * 10 + (c.toNat - 48)) 0

/-- the exponent part: nothing, or `e` / `E`, an optional sign, at least one digit -/
def exponent : List UInt8 → Option Int
  | [] => some 0
  | m :: r =>
    if m == 101 || m == 69 then
      let neg := r.head? == some 45
      let ds := if neg || r.head? == some 43 then r.drop 1 else r
      if !ds.isEmpty && ds.all isDigit then some (if neg then -(decVal ds : Int) else decVal ds)
      else none
    else none

/-- An unsigned decimal: all written digits as one integer `m`, the power of ten `e` that goes with
    them (the number denoted is `m * 10^e`), and whether it was written as a plain integer. -/
def udecimal (bs : List UInt8) : Option (Nat × Int × Bool) :=
  let ip := bs.takeWhile isDigit
  let r1 := bs.dropWhile isDigit
  let dot := r1.head? == some 46
  let fp := if dot then (r1.drop 1).takeWhile isDigit else []
  let r2 := if dot then (r1.drop 1).dropWhile isDigit else r1
  if ip.isEmpty && fp.isEmpty then none
  else (exponent r2).map fun e => (decVal (ip ++ fp), e - fp.length, !dot && r2.isEmpty)

/-- the double nearest to `m * 10^e`, with its sign: a correctly rounding reader -/
def floatOf (neg : Bool) (m : Nat) (e : Int) : Number :=
  .flt ((if neg then F64.signBit else 0) + F64.rn (m * 10 ^ e.toNat) (10 ^ (-e).toNat))

/-- An integer literal denotes exactly that integer while it fits `[-2^63, 2^64-1]`; a larger one, and
    every literal with a fraction or an exponent, denotes the nearest double. -/
def integerOf (neg : Bool) (m : Nat) : Number :=
  if neg then
    (if m = 0 then .pos 0 else if m ≤ 9223372036854775808 then .neg (-(m : Int)) else floatOf true m 0)
  else if m ≤ u64Max then .pos m else floatOf false m 0

def number (a : List UInt8) : Option Number :=
  let radix : Option Nat :=
    if a.head? == some 35 then
      (match a.drop 1 |>.head? with
       | some r => if r == 98 || r == 66 then some 2 else if r == 111 || r == 79 then some 8
                   else if r == 100 || r == 68 then some 10 else if r == 120 || r == 88 then some 16
                   else none
       | none => none)
    else some 10
  let a := if a.head? == some 35 then a.drop 2 else a
  let neg := a.head? == some 45
  let body := if neg || a.head? == some 43 then a.drop 1 else a
  match radix with
  | none => none
  | some 10 => (udecimal body).map fun (m, e, int) => if int then integerOf neg m else floatOf neg m e
  | some r => (digitsVal r body).map (integerOf neg)

/-! ### identifiers (R7RS 7.1.1) -/

def isLetter (b : UInt8) : Bool := (65 ≤ b && b ≤ 90) || (97 ≤ b && b ≤ 122)

/-- `<initial>`: a letter, a special initial `! $ % & * / : < = > ? @ ^ _ ~`, or a byte of a non-ASCII
    scalar (those scalars are judged by `alpha`, see `isIdentifier`) -/
def isInitial (b : UInt8) : Bool := isLetter b || (asc "!$%&*/:<=>?@^_~").contains b || b ≥ 128
/-- `<subsequent>`: an initial, a digit, or a special subsequent `+ - . @` -/
def isSubsequent (b : UInt8) : Bool := isInitial b || isDigit b || (asc "+-.@").contains b
/-- `<sign subsequent>`: an initial, a sign, or `@` -/
def isSignSubsequent (b : UInt8) : Bool := isInitial b || b == 43 || b == 45 || b == 64
/-- `<dot subsequent>`: a sign subsequent or `.` -/
def isDotSubsequent (b : UInt8) : Bool := isSignSubsequent b || b == 46

/-- `<initial> <subsequent>*` or a `<peculiar identifier>`: `+`, `-`, `sign sign-subsequent
    subsequent*`, `sign . dot-subsequent subsequent*`, `. dot-subsequent subsequent*` -/
def identShape : List UInt8 → Bool
  | [] => false
  | b :: tl =>
    (isInitial b && tl.all isSubsequent) ||
    ((b == 43 || b == 45) &&
      (match tl with
       | [] => true
       | c :: r =>
         (isSignSubsequent c && r.all isSubsequent) ||
         (c == 46 && (match r with
                      | d :: r' => isDotSubsequent d && r'.all isSubsequent
                      | [] => false)))) ||
    (b == 46 && (match tl with
                 | d :: r => isDotSubsequent d && r.all isSubsequent
                 | [] => false))

/-- spellings the grammar assigns to numbers this data model does not have (7.1.1: "`+i`, `-i` and
    `<infnan>` are exceptions to the peculiar identifier rule") -/
def reservedNumeric : List (List UInt8) :=
  [asc "+i", asc "-i", asc "+inf.0", asc "-inf.0", asc "+nan.0", asc "-nan.0"]

/-- An identifier: the shape above, well-formed UTF-8 in which every non-ASCII scalar is
    alphabetic, and not one of the reserved numeric spellings. -/
def isIdentifier (alpha : Nat → Bool) (name : List UInt8) : Bool :=
  identShape name &&
  (match scalars name with
   | some cs => cs.all fun c => c < 128 || alpha c
   | none => false) &&
  !reservedNumeric.contains name

/-! ### characters and strings -/

/-- the character names of R6RS and R7RS -/
def charNames : List (List UInt8 × Nat) :=
  [(asc "nul", 0), (asc "null", 0), (asc "alarm", 7), (asc "backspace", 8), (asc "tab", 9),
   (asc "linefeed", 10), (asc "newline", 10), (asc "vtab", 11), (asc "page", 12), (asc "return", 13),
   (asc "esc", 27), (asc "escape", 27), (asc "space", 32), (asc "delete", 127)]

/-- `#\c`, `#\name`, `#\x<hex scalar value>` -/
def charValue (c : Nat) (more : List UInt8) : Option Value :=
  if more.isEmpty then some (.char c)
  else if c == 120 then
    match digitsVal 16 more with
    | some n => if isScalar n then some (.char n) else none
    | none => none
  else (charNames.lookup (Utf8.encode c ++ more)).map .char

/-- the single-character escapes of a string -/
def strEscapes : List (UInt8 × UInt8) :=
  [(ch 'a', 7), (ch 'b', 8), (ch 't', 9), (ch 'n', 10), (ch 'r', 13), (ch '"', 34), (ch '\\', 92),
   (ch '|', 124)]

/-- one element of a string body: `\a \b \t \n \r \" \\ \|`, `\x<hex scalar value>;`, or a literal byte -/
def strElement (bs : List UInt8) : Option (List UInt8 × Nat) :=
  match bs with
  | [] => none
  | b :: r =>
    if b != 92 then some ([b], 1)
    else match r with
      | [] => none
      | e :: r' =>
        if e == 120 then
          let hex := r'.takeWhile (· != 59)
          match digitsVal 16 hex with
          | some n => if isScalar n && hex.length < r'.length then some (Utf8.encode n, hex.length + 3)
                      else none
          | none => none
        else (strEscapes.lookup e).map fun v => ([v], 2)

def strValue (body : List UInt8) : Option Value :=
  match chunks strElement 0 body with
  | some parts => if Utf8.valid parts.flatten then some (.string parts.flatten) else none
  | none => none

/-! ### every lexeme -/

inductive Open where
  | list (close : Tok) | vector (close : Tok) | bytes
  deriving Repr, DecidableEq

inductive Item where
  | open (k : Open) | close (t : Tok) | dot | abbrev (sym : List UInt8) | datum (v : Value)
  deriving Repr

def atomValue (alpha : Nat → Bool) (a : List UInt8) : Option Value :=
  if a == asc "#t" || a == asc "#true" then some (.bool true)
  else if a == asc "#f" || a == asc "#false" then some (.bool false)
  else if a == asc "#nil" then some .nil
  else if a.take 2 == asc "#:" then
    (if isIdentifier alpha (a.drop 2) then some (.keyword (a.drop 2)) else none)
  else match number a with
    | some n => some (.number n)
    | none => if isIdentifier alpha a then some (.symbol a) else none

/-- Stage 2. -/
def classify (alpha : Nat → Bool) : Tok → Option Item
  | .lpar => some (.open (.list .rpar))
  | .lbrk => some (.open (.list .rbrk))
  | .vec => some (.open (.vector .rpar))
  | .u8 => some (.open .bytes)
  | .rpar => some (.close .rpar)
  | .rbrk => some (.close .rbrk)
  | .abbrev s => some (.abbrev s)
  | .str body => (strValue body).map .datum
  | .chr c more => (charValue c more).map .datum
  | .atom a => if a == [46] then some .dot else (atomValue alpha a).map .datum

/-! ## 3. The tree -/

/-- an open construct: the elements so far (latest first) and, for a list, what has been seen of a
    dotted tail (`some none` = the dot, `some (some t)` = the dot and the tail); or a pending
    abbreviation -/
inductive Frame where
  | seq (k : Open) (rev : List Value) (tail : Option (Option Value))
  | abbrev (sym : List UInt8)
  deriving Repr

/-- A finished datum goes to the innermost open construct (`none` in the result: still reading;
    `some v`: the whole datum is `v`). -/
def deliver (v : Value) : List Frame → Option (List Frame × Option Value)
  | [] => some ([], some v)
  | .abbrev s :: fs => deliver (.cons (.symbol s) (.cons v .null)) fs
  | .seq k rev none :: fs => some (.seq k (v :: rev) none :: fs, none)
  | .seq k rev (some none) :: fs => some (.seq k rev (some (some v)) :: fs, none)
  | .seq _ _ (some (some _)) :: _ => none

def octet : Value → Option UInt8
  | .number (.pos n) => if n < 256 then some (UInt8.ofNat n) else none
  | _ => none

/-- the datum an open construct becomes at its closing lexeme -/
def finish (close : Tok) : Frame → Option Value
  | .seq (.list c) rev none => if c = close then some (rev.reverse.foldr .cons .null) else none
  | .seq (.list c) rev (some (some t)) => if c = close then some (rev.reverse.foldr .cons t) else none
  | .seq (.vector c) rev none => if c = close then some (.vector rev.reverse) else none
  | .seq .bytes rev none => if close = .rpar then (rev.reverse.mapM octet).map .bytes else none
  | _ => none

def step (st : List Frame × Option Value) (it : Item) : Option (List Frame × Option Value) :=
  match st, it with
  | (_, some _), _ => none                       -- something after the datum
  | (fs, none), .datum v => deliver v fs
  | (fs, none), .open k => some (.seq k [] none :: fs, none)
  | (fs, none), .abbrev s => some (.abbrev s :: fs, none)
  | (.seq (.list c) (x :: rev) none :: fs, none), .dot => some (.seq (.list c) (x :: rev) (some none) :: fs, none)
  | (f :: fs, none), .close t => (finish t f).bind (deliver · fs)
  | _, _ => none

/-- Stage 3: exactly one datum. -/
def build (items : List Item) : Option Value :=
  match items.foldlM step ([], none) with
  | some ([], some v) => some v
  | _ => none

/-- **The reader**: one datum, surrounded by whitespace and comments, and nothing else. -/
def readSchemeWith (alpha : Nat → Bool) (text : List UInt8) : Option Value :=
  (tokens text).bind fun ts => (ts.mapM (classify alpha)).bind build

end Spec
end Lexpr
