/-
  The lexer: `parse_whitespace`, `parse_token` and everything below it
  (parse/mod.rs, parse/read.rs).  Function names follow the Rust names.
-/
import LexprModel.Reader
namespace Lexpr
namespace Parse

/-! ### byte classes -/

/-- Whitespace skipped by `parse_whitespace`. -/
def isTrivia (b : UInt8) : Bool := b == 32 || b == 10 || b == 9 || b == 13 || b == 12

/-- Bytes at which `SliceRead::parse_symbol_bytes` stops. -/
def symTermSlice (b : UInt8) : Bool :=
  b == 32 || b == 10 || b == 9 || b == 13 || b == 12 || b == 41 || b == 93 || b == 40 ||
  b == 91 || b == 59

/-- Bytes at which `IoRead::parse_symbol_bytes` stops. -/
def symTermIo (b : UInt8) : Bool :=
  b == 32 || b == 10 || b == 9 || b == 13 || b == 12 || b == 41 || b == 93 || b == 40 ||
  b == 91 || b == 59

def symTerm (m : Mode) (b : UInt8) : Bool :=
  match m with | .io => symTermIo b | _ => symTermSlice b

/-- `parse::is_delimiter` (mod.rs): ASCII whitespace or one of `|()[]";`. -/
def isDelimiter (b : UInt8) : Bool :=
  b == 32 || b == 9 || b == 10 || b == 12 || b == 13 ||
  b == 124 || b == 40 || b == 41 || b == 91 || b == 93 || b == 34 || b == 59

def isAsciiAlpha (b : UInt8) : Bool := (65 ≤ b && b ≤ 90) || (97 ≤ b && b ≤ 122)
def isDigit (b : UInt8) : Bool := 48 ≤ b && b ≤ 57

/-- `is_sign_subsequent`: alphabetic or one of `!$%&*/:<=>?@^_~-+@`. -/
def isSignSubsequent (b : UInt8) : Bool :=
  isAsciiAlpha b || b == 33 || b == 36 || b == 37 || b == 38 || b == 42 || b == 47 || b == 58 ||
  b == 60 || b == 61 || b == 62 || b == 63 || b == 64 || b == 94 || b == 95 || b == 126 ||
  b == 45 || b == 43

/-- `SYMBOL_EXTENDED`: `!$%&*./:<=>?@^_~`. -/
def isSymbolExtended (b : UInt8) : Bool :=
  b == 33 || b == 36 || b == 37 || b == 38 || b == 42 || b == 46 || b == 47 || b == 58 ||
  b == 60 || b == 61 || b == 62 || b == 63 || b == 64 || b == 94 || b == 95 || b == 126

/-- `read::is_delimiter` (`DELIMITER`): `()[]";#` space, LF, TAB, CR, FF. -/
def isCharDelimiter (b : UInt8) : Bool :=
  b == 40 || b == 41 || b == 91 || b == 93 || b == 34 || b == 59 || b == 35 || b == 32 ||
  b == 10 || b == 9 || b == 13 || b == 12

/-- `decode_hex_val` (the `HEX` table). -/
def hexVal (b : UInt8) : Option Nat :=
  if 48 ≤ b && b ≤ 57 then some (b.toNat - 48)
  else if 65 ≤ b && b ≤ 70 then some (b.toNat - 55)
  else if 97 ≤ b && b ≤ 102 then some (b.toNat - 87)
  else none

/-- `decode_octal_val`. -/
def octVal (b : UInt8) : Option Nat :=
  if 48 ≤ b && b ≤ 55 then some (b.toNat - 48) else none

/-- Configuration that is fixed at build or construction time. -/
structure Cfg where
  opts : Options
  /-- cargo feature `fast-float-parsing` -/
  fast : Bool := true
  /-- `char::is_alphabetic` for non-ASCII scalars (regenerated table, see Generated/Tables) -/
  isAlphabetic : Nat → Bool
  /-- `POW10[k]` as bits, k ≤ 308 (regenerated table) -/
  pow10 : Nat → Nat

/-! ### whitespace and symbols: structural scanners over the input -/

mutual
/-- Length of the trivia (whitespace and `;` comments) at the head of the input. -/
def wsLen : List UInt8 → Nat
  | [] => 0
  | b :: bs => if b == 59 then commentLen bs + 1 else if isTrivia b then wsLen bs + 1 else 0
/-- Inside a comment: up to and including the line feed. -/
def commentLen : List UInt8 → Nat
  | [] => 0
  | b :: bs => if b == 10 then wsLen bs + 1 else commentLen bs + 1
end

/-- `parse_whitespace`: skip trivia, return the next byte without consuming it. -/
def parseWhitespace : P (Option UInt8) := do
  let rest ← getRest
  consumeN (wsLen rest)
  peek

/-- Number of bytes up to the first symbol terminator. -/
def symLen (m : Mode) : List UInt8 → Nat
  | [] => 0
  | b :: bs => if symTerm m b then 0 else symLen m bs + 1

/-- `invalid_dot` -/
def invalidDot (atEof : Bool) : Code := if atEof then .eofValue else .invalidSymbol

/-- `Read::parse_symbol` with `scratch` holding a prefix: the bytes of the symbol.  The str
    source does not validate (`from_utf8_unchecked`), the others do (`as_str`). -/
def parseSymbolBytes (scratch : List UInt8) : P (List UInt8) := do
  let rest ← getRest
  let mode ← getMode
  let n := symLen mode rest
  consumeN n
  let nxt ← peek
  let name := scratch ++ rest.take n
  if name == [46] then errAt (invalidDot nxt.isNone)
  else if mode == .str then pure name
  else if Utf8.valid name then pure name
  else if Utf8.incomplete name && nxt.isNone then errAt .eofValue   -- `as_symbol_str`
  else errAt .invalidUnicodeCodePoint

/-! ### UTF-8 sequences and escapes -/

def nextOrEof : P UInt8 := do
  match (← next) with
  | some b => pure b
  | none => errAt .eofString

def nextOrEofChar : P UInt8 := do
  match (← next) with
  | some b => pure b
  | none => errAt .eofChar

/-- Read `n` more bytes with `next()`; the input ending inside the sequence is an EOF error. -/
def readCont : Nat → List UInt8 → P (List UInt8)
  | 0, acc => pure acc
  | n + 1, acc => do
    match (← next) with
    | some b => readCont n (acc ++ [b])
    | none => errAt .eofValue

/-- `decode_utf8_sequence`: returns the scalar and its bytes (what is left in `scratch`). -/
def decodeUtf8Sequence (initial : UInt8) : P (Nat × List UInt8) := do
  let len : Option Nat :=
    if 0xC0 ≤ initial && initial ≤ 0xDF then some 1
    else if 0xE0 ≤ initial && initial ≤ 0xF7 then some ((initial.toNat - 0xC0) / 16)
    else none
  match len with
  | none => errAt .invalidUnicodeCodePoint
  | some len =>
    let bytes ← readCont len [initial]
    if Utf8.valid bytes then
      match Utf8.decodeFirst bytes with
      | some (c, _) => pure (c, bytes)
      | none => panicAt .unreachable
    else errAt .invalidUnicodeCodePoint

def maxCp : Nat := 16777216   -- 1 << 24

/-- `decode_r6rs_hex_escape`: hex digits up to `;`. -/
def decodeR6rsHexEscape : Nat → Nat → P Nat
  | 0, _ => outOfFuel
  | f + 1, n => do
    let b ← nextOrEof
    if b == 59 then pure n
    else match hexVal b with
      | none => errAt .eofString
      | some v => if n ≥ maxCp then errAt .invalidUnicodeCodePoint
                  else decodeR6rsHexEscape f (n * 16 + v)

/-- `parse_r6rs_escape`: appends to the scratch buffer. -/
def parseR6rsEscape (fuel : Nat) (acc : List UInt8) : P (List UInt8) := do
  let c ← nextOrEof
  if c == 34 then pure (acc ++ [34])
  else if c == 92 then pure (acc ++ [92])
  else if c == 97 then pure (acc ++ [7])
  else if c == 98 then pure (acc ++ [8])
  else if c == 102 then pure (acc ++ [12])
  else if c == 110 then pure (acc ++ [10])
  else if c == 114 then pure (acc ++ [13])
  else if c == 116 then pure (acc ++ [9])
  else if c == 118 then pure (acc ++ [11])
  else if c == 124 then pure (acc ++ [124])
  else if c == 120 then do
    let n ← decodeR6rsHexEscape fuel 0
    if isScalar n then pure (acc ++ Utf8.encode n) else errAt .invalidUnicodeCodePoint
  else errAt .invalidEscape

/-- `as_str` unless the source is a `&str` (then `from_utf8_unchecked`). -/
def finishStr (checked : Bool) (bytes : List UInt8) : P (List UInt8) := do
  let mode ← getMode
  if !checked && mode == .str then pure bytes
  else if Utf8.valid bytes then pure bytes
  else errAt .invalidUnicodeCodePoint

/-- `parse_r6rs_str`: after the opening quote. -/
def parseR6rsStr : Nat → List UInt8 → P (List UInt8)
  | 0, _ => outOfFuel
  | f + 1, acc => do
    let c ← nextOrEof
    if c == 34 then finishStr false acc
    else if c == 92 then do
      let acc' ← parseR6rsEscape (f + 1) acc
      parseR6rsStr f acc'
    else parseR6rsStr f (acc ++ [c])

inductive ElispEscape where | unibyte | multibyte | indeterminate
  deriving DecidableEq, Repr

/-- `decode_elisp_hex_escape`: as many hex digits as follow. -/
def decodeElispHexEscape : Nat → Nat → P Nat
  | 0, _ => outOfFuel
  | f + 1, n => do
    match (← peek) with
    | none => pure n
    | some c => match hexVal c with
      | none => pure n
      | some v => do
        discard
        if n ≥ maxCp then errAt .invalidUnicodeCodePoint
        else decodeElispHexEscape f (n * 16 + v)

/-- `decode_elisp_uni_escape`: exactly `count` hex digits. -/
def decodeElispUniEscape : Nat → Nat → P Nat
  | 0, n => pure n
  | count + 1, n => do
    let c ← nextOrEof
    match hexVal c with
    | none => errAt .invalidEscape
    | some v => if n ≥ maxCp then errAt .invalidUnicodeCodePoint
                else decodeElispUniEscape count (n * 16 + v)

/-- `decode_elisp_octal_escape`. -/
def decodeElispOctalEscape : Nat → Nat → P Nat
  | 0, _ => outOfFuel
  | f + 1, n => do
    match (← peek) with
    | none => pure n
    | some c => match octVal c with
      | none => pure n
      | some v => do
        discard
        if n ≥ maxCp then errAt .invalidUnicodeCodePoint
        else decodeElispOctalEscape f (n * 8 + v)

/-- `parse_elisp_char_escape`: a byte if it fits, else the UTF-8 encoding.  A value that is not a
    scalar: `surrogate_at_end` (a surrogate, and then a `peek` that finds the end of the input)
    makes the escape incomplete (`EofWhileParsingString`), otherwise it is invalid. -/
def elispCharEscape (acc : List UInt8) (n : Nat) : P (List UInt8 × ElispEscape) :=
  if isScalar n then
    if n > 255 then pure (acc ++ Utf8.encode n, .multibyte)
    else pure (acc ++ [UInt8.ofNat n], .unibyte)
  else if Utf8.isSurrogate n then do
    match (← peek) with
    | none => errAt .eofString
    | some _ => errAt .invalidUnicodeCodePoint
  else errAt .invalidUnicodeCodePoint

/-- `parse_elisp_uni_char_escape`. -/
def elispUniCharEscape (acc : List UInt8) (n : Nat) : P (List UInt8 × ElispEscape) :=
  if isScalar n then pure (acc ++ Utf8.encode n, .multibyte)
  else errAt .invalidUnicodeCodePoint

def toAsciiLower (b : UInt8) : UInt8 := if 65 ≤ b && b ≤ 90 then b + 32 else b
def isAsciiLower (b : UInt8) : Bool := 97 ≤ b && b ≤ 122

/-- `parse_elisp_escape`. -/
def parseElispEscape (fuel : Nat) (acc : List UInt8) : P (List UInt8 × ElispEscape) := do
  let c ← nextOrEof
  if c == 34 then pure (acc ++ [34], .indeterminate)
  else if c == 92 then pure (acc ++ [92], .indeterminate)
  else if c == 32 then do
    -- escaped blank: ignored; a continuation byte cannot follow it in valid UTF-8
    match (← peek) with
    | some b => if 128 ≤ b && b ≤ 191 then errAt .invalidUnicodeCodePoint else pure (acc, .indeterminate)
    | none => pure (acc, .indeterminate)
  else if c == 97 then pure (acc ++ [7], .indeterminate)
  else if c == 98 then pure (acc ++ [8], .indeterminate)
  else if c == 116 then pure (acc ++ [9], .indeterminate)
  else if c == 110 then pure (acc ++ [10], .indeterminate)
  else if c == 118 then pure (acc ++ [11], .indeterminate)
  else if c == 102 then pure (acc ++ [12], .indeterminate)
  else if c == 114 then pure (acc ++ [13], .indeterminate)
  else if c == 101 then pure (acc ++ [27], .indeterminate)
  else if c == 115 then pure (acc ++ [32], .indeterminate)
  else if c == 100 then pure (acc ++ [127], .indeterminate)
  else if c == 94 then do
    let k := toAsciiLower (← nextOrEof)
    if isAsciiLower k then pure (acc ++ [k - 97], .indeterminate) else errAt .invalidEscape
  else if c == 78 then do
    let b1 ← nextOrEof
    if b1 != 123 then errAt .invalidEscape
    else do
      let b2 ← nextOrEof
      if b2 != 85 then errAt .invalidEscape
      else do
        let b3 ← nextOrEof
        if b3 != 43 then errAt .invalidEscape
        else do
          let n ← decodeElispHexEscape fuel 0
          -- `surrogate_at_end`: the `peek` happens only for a surrogate; if the input does not end
          -- there the closure returns `n` and `parse_elisp_uni_char_escape` goes on as before
          if Utf8.isSurrogate n then do
            match (← peek) with
            | none => errAt .eofString
            | some _ => do
              let r ← elispUniCharEscape acc n
              let b4 ← nextOrEof
              if b4 != 125 then errAt .invalidEscape else pure r
          else do
            let r ← elispUniCharEscape acc n
            let b4 ← nextOrEof
            if b4 != 125 then errAt .invalidEscape else pure r
  else if c == 117 then do
    let n ← decodeElispUniEscape 4 0
    elispUniCharEscape acc n
  else if c == 85 then do
    let n ← decodeElispUniEscape 8 0
    elispUniCharEscape acc n
  else if c == 120 then do
    let n ← decodeElispHexEscape fuel 0
    elispCharEscape acc n
  else if 48 ≤ c && c ≤ 55 then do
    let n ← decodeElispOctalEscape fuel (c.toNat - 48)
    elispCharEscape acc n
  -- a continuation byte cannot follow the (ASCII) backslash in valid UTF-8
  else if 128 ≤ c && c ≤ 191 then errAt .invalidUnicodeCodePoint
  else pure (acc ++ [c], .indeterminate)

/-- Result of `parse_elisp_str`. -/
inductive ElispStr where
  | unibyte (b : List UInt8)
  | multibyte (s : List UInt8)
  deriving Repr

/-- `parse_elisp_str` with the three flags. -/
def parseElispStr : Nat → List UInt8 → (ub mb na : Bool) → P ElispStr
  | 0, _, _, _, _ => outOfFuel
  | f + 1, acc, ub, mb, na => do
    let c ← nextOrEof
    if c == 34 then
      if ub && !(mb || na) then pure (.unibyte acc)
      else do
        let s ← finishStr true acc
        pure (.multibyte s)
    else if c == 92 then do
      let (acc', k) ← parseElispEscape (f + 1) acc
      match k with
      | .unibyte => parseElispStr f acc' true mb na
      | .multibyte => parseElispStr f acc' ub true na
      | .indeterminate => parseElispStr f acc' ub mb na
    else parseElispStr f (acc ++ [c]) ub mb (na || c > 127)

/-! ### character literals -/

/-- `decode_r6rs_char_hex_escape`. -/
def decodeR6rsCharHexEscape : Nat → Nat → Bool → P (Option Nat)
  | 0, _, _ => outOfFuel
  | f + 1, n, first => do
    match (← peek) with
    | none => pure (if first then none else some n)
    | some c =>
      if isCharDelimiter c then pure (if first then none else some n)
      else do
        discard
        match hexVal c with
        | none => errAt .eofChar
        | some v => if n ≥ maxCp then errAt .invalidUnicodeCodePoint
                    else decodeR6rsCharHexEscape f (n * 16 + v) false

/-- The `<character name>` table of `parse_r6rs_char`. -/
def charName (name : List UInt8) : Option Nat :=
  if name == asc "nul" then some 0
  else if name == asc "alarm" then some 7
  else if name == asc "backspace" then some 8
  else if name == asc "tab" then some 9
  else if name == asc "linefeed" then some 10
  else if name == asc "newline" then some 10
  else if name == asc "vtab" then some 11
  else if name == asc "page" then some 12
  else if name == asc "return" then some 13
  else if name == asc "esc" then some 27
  else if name == asc "space" then some 32
  else if name == asc "delete" then some 127
  else none

def charNames : List (List UInt8) :=
  [asc "nul", asc "alarm", asc "backspace", asc "tab", asc "linefeed", asc "newline", asc "vtab",
   asc "page", asc "return", asc "esc", asc "space", asc "delete"]

/-- `is_char_name_prefix` -/
def isCharNamePrefix (name : List UInt8) : Bool := charNames.any fun full => name.isPrefixOf full

/-- Number of bytes up to the first character delimiter. -/
def charNameLen : List UInt8 → Nat
  | [] => 0
  | b :: bs => if isCharDelimiter b then 0 else charNameLen bs + 1

/-- `parse_r6rs_char`: after `#\`. -/
def parseR6rsChar (fuel : Nat) : P Nat := do
  let initial ← nextOrEofChar
  if initial == 120 then do
    match (← decodeR6rsCharHexEscape fuel 0 true) with
    | some n =>
      if isScalar n then pure n
      else if Utf8.isSurrogate n then do
        match (← peek) with
        | none => errAt .eofChar
        | some _ => errAt .invalidUnicodeCodePoint
      else errAt .invalidUnicodeCodePoint
    | none => pure 120
  else if initial > 0x7F then do
    let (c, _) ← decodeUtf8Sequence initial
    pure c
  else do
    match (← peek) with
    | none => pure initial.toNat
    | some nxt =>
      if isCharDelimiter nxt then pure initial.toNat
      else do
        let rest ← getRest
        let n := charNameLen rest
        consumeN n
        let nxt' ← peek
        match charName (initial :: rest.take n) with
        | some c => pure c
        | none =>
          if nxt'.isNone && isCharNamePrefix (initial :: rest.take n) then errAt .eofChar
          else errAt .invalidCharacterConstant

/-- `as_char` -/
def asChar (n : Nat) : P Nat := if isScalar n then pure n else errAt .invalidUnicodeCodePoint

/-- `as_escaped_char`: `surrogate_at_end` (a surrogate, and then a `peek` that finds the end of the
    input) is `EofWhileParsingCharacterConstant`; otherwise `as_char`. -/
def asEscapedChar (n : Nat) : P Nat :=
  if Utf8.isSurrogate n then do
    match (← peek) with
    | none => errAt .eofChar
    | some _ => asChar n
  else asChar n

/-- `decode_elisp_char_escape`: after `?\`. -/
def decodeElispCharEscape (fuel : Nat) : P Nat := do
  let c ← nextOrEofChar
  if c == 97 then pure 7
  else if c == 98 then pure 8
  else if c == 116 then pure 9
  else if c == 110 then pure 10
  else if c == 118 then pure 11
  else if c == 102 then pure 12
  else if c == 114 then pure 13
  else if c == 101 then pure 27
  else if c == 115 then pure 32
  else if c == 92 then pure 92
  else if c == 100 then pure 127
  else if c == 94 then do
    let k := toAsciiLower (← nextOrEofChar)
    if isAsciiLower k then pure (k.toNat - 97) else errAt .invalidEscape
  else if c == 78 then do
    let b1 ← nextOrEofChar
    if b1 != 123 then errAt .invalidEscape
    else do
      let b2 ← nextOrEofChar
      if b2 != 85 then errAt .invalidEscape
      else do
        let b3 ← nextOrEofChar
        if b3 != 43 then errAt .invalidEscape
        else do
          let n ← decodeElispHexEscape fuel 0
          let b4 ← nextOrEof
          if b4 != 125 then errAt .invalidEscape
          else if isScalar n then pure n else errAt .invalidEscape
  else if c == 117 then do
    let n ← decodeElispUniEscape 4 0
    asChar n
  else if c == 85 then do
    let n ← decodeElispUniEscape 8 0
    asChar n
  else if c == 120 then do
    let n ← decodeElispHexEscape fuel 0
    asEscapedChar n
  else if 48 ≤ c && c ≤ 55 then do
    let n ← decodeElispOctalEscape fuel (c.toNat - 48)
    asEscapedChar n
  else if c > 0x7F then do
    let (ch, _) ← decodeUtf8Sequence c
    pure ch
  else pure c.toNat

/-- `parse_elisp_char`: after `?`. -/
def parseElispChar (fuel : Nat) : P Nat := do
  match (← next) with
  | none => errAt .eofChar
  | some initial =>
    if initial > 0x7F then do
      let (c, _) ← decodeUtf8Sequence initial
      pure c
    else if initial == 40 || initial == 41 || initial == 91 || initial == 93 || initial == 59 then
      errAt .invalidCharacterConstant
    else if initial == 92 then decodeElispCharEscape fuel
    else pure initial.toNat

/-! ### numbers -/

def i32Max : Nat := 2147483647

/-- Digit value as the three `match` arms compute it; letters only when `radix > 10`. -/
def digitVal (radix : Nat) (c : UInt8) : Option Nat :=
  if 48 ≤ c && c ≤ 57 then some (c.toNat - 48)
  else if 97 ≤ c && c ≤ 102 && radix > 10 then some (10 + (c.toNat - 97))
  else if 65 ≤ c && c ≤ 70 && radix > 10 then some (10 + (c.toNat - 65))
  else none

/-- The `overflow!` macro: `a * radix + b` would exceed `c`. -/
def overflow (a radix b c : Nat) : Bool := a ≥ c / radix && (a > c / radix || b > c % radix)

/-- `f64_from_parts`, feature `fast-float-parsing`: the loop over `POW10`. `none` = out of range. -/
def fastParts (pow10 : Nat → Nat) : Nat → Nat → Int → Option Nat
  | 0, f, _ => some f
  | fuel + 1, f, e =>
    if e.natAbs ≤ 308 then
      if e ≥ 0 then
        let g := F64.mulPos f (pow10 e.natAbs)
        if F64.isInf g then none else some g
      else some (F64.divPos f (pow10 e.natAbs))
    else if F64.isZero f then some f
    else if e ≥ 0 then none
    else fastParts pow10 fuel (F64.divPos f (pow10 308)) (e + 308)

/-- `f64_from_parts` in both feature configurations; errors are raised with `self.error`. -/
def f64FromParts (cfg : Cfg) (pos : Bool) (sig : Nat) (e : Int) : P Nat :=
  if cfg.fast then
    -- |e| < 2^31, each round adds 308 and f reaches zero after at most three divisions
    match fastParts cfg.pow10 (e.natAbs / 308 + 2) (F64.ofNat sig) e with
    | some f => pure (if pos then f else F64.neg f)
    | none => errAt .numberOutOfRange
  else
    let f := F64.rnDec sig e
    if F64.isInf f then errAt .numberOutOfRange
    else pure (if pos then f else F64.neg f)

/-- skip the remaining digits -/
def skipDigits : P Unit := do
  let rest ← getRest
  let n := (rest.takeWhile isDigit).length
  consumeN n
  let _ ← peek
  pure ()

/-- `parse_exponent_overflow`. -/
def parseExponentOverflow (pos : Bool) (sig : Nat) (posExp : Bool) : P Nat := do
  if sig != 0 && posExp then errAt .numberOutOfRange
  else do
    skipDigits
    pure (if pos then 0 else F64.signBit)

/-- the digit loop of `parse_exponent` -/
def exponentLoop (cfg : Cfg) (pos : Bool) (sig : Nat) (startExp : Int) (posExp : Bool) :
    Nat → Nat → P Nat
  | 0, _ => outOfFuel
  | f + 1, exp => do
    let c ← peekOrNull
    if isDigit c then do
      discard
      let d := c.toNat - 48
      if overflow exp 10 d i32Max then parseExponentOverflow pos sig posExp
      else exponentLoop cfg pos sig startExp posExp f (exp * 10 + d)
    else
      -- saturating_add / saturating_sub on i32
      let fin : Int :=
        if posExp then min (startExp + exp) (i32Max : Int)
        else max (startExp - exp) (-(i32Max : Int) - 1)
      f64FromParts cfg pos sig fin

/-- `parse_exponent`: at the `e`. -/
def parseExponent (cfg : Cfg) (fuel : Nat) (pos : Bool) (sig : Nat) (startExp : Int) : P Nat := do
  discard
  let c ← peekOrNull
  let posExp ← (if c == 43 then do discard; pure true
                else if c == 45 then do discard; pure false
                else pure true : P Bool)
  match (← next) with
  | some d =>
    if isDigit d then exponentLoop cfg pos sig startExp posExp fuel (d.toNat - 48)
    else errAt .invalidNumber
  | none => errAt .eofValue

/-- Shift `zeros` zero digits and then the digit `d` into the significand, stopping (flag
    `true`) as soon as the next multiply/add would overflow u64; progress made so far is kept. -/
def shiftIn : Nat → Int → Nat → Nat → Nat × Int × Bool
  | sig, exp, 0, d =>
    if overflow sig 10 d u64Max then (sig, exp, true) else (sig * 10 + d, exp - 1, false)
  | sig, exp, z + 1, d =>
    if overflow sig 10 0 u64Max then (sig, exp, true) else shiftIn (sig * 10) (exp - 1) z d

/-- the digit loop of `parse_decimal`; `zeros` counts fraction zeros not yet followed by
    another digit (trailing zeros never reach the significand) -/
def decimalLoop : Nat → Nat → Int → Nat → Bool → P (Nat × Int × Bool)
  | 0, _, _, _, _ => outOfFuel
  | f + 1, sig, exp, zeros, any => do
    let c ← peekOrNull
    if isDigit c then do
      discard
      if c == 48 then decimalLoop f sig exp (zeros + 1) true
      else
        match shiftIn sig exp zeros (c.toNat - 48) with
        | (sig', exp', true) => do
          skipDigits
          pure (sig', exp', true)
        | (sig', exp', false) => decimalLoop f sig' exp' 0 true
    else pure (sig, exp, any)

/-- `parse_decimal`: at the `.`. -/
def parseDecimal (cfg : Cfg) (fuel : Nat) (pos : Bool) (sig : Nat) (exp : Int) : P Nat := do
  discard
  let (sig', exp', any) ← decimalLoop fuel sig exp 0 false
  if !any then
    match (← peek) with
    | some _ => peekErr .invalidNumber
    | none => peekErr .eofValue
  else do
    let c ← peekOrNull
    if c == 101 || c == 69 then parseExponent cfg fuel pos sig' exp'
    else f64FromParts cfg pos sig' exp'

/-- `parse_long_integer`. -/
def parseLongInteger (cfg : Cfg) (radix : Nat) (pos : Bool) (sig : Nat) : Nat → Nat → P Nat
  | 0, _ => outOfFuel
  | f + 1, exp => do
    let c ← peekOrNull
    match digitVal radix c with
    | some d =>
      if d ≥ radix then peekErr .invalidNumber
      else do
        discard
        if exp + 1 > i32Max then panicAt .exponentOverflow
        else parseLongInteger cfg radix pos sig f (exp + 1)
    | none =>
      if c == 46 then
        if radix != 10 then peekErr .invalidNumber else parseDecimal cfg (f + 1) pos sig exp
      else if c == 101 || c == 69 then
        if radix != 10 then peekErr .invalidNumber else parseExponent cfg (f + 1) pos sig exp
      else if radix != 10 then
        -- significand as f64 * radix.powi(exponent); radix is 2, 8 or 16 here
        let g := if radix ^ exp < 2 ^ 1024 then F64.mulPos (F64.ofNat sig) (F64.ofNat (radix ^ exp))
                 else F64.infBits
        if F64.isInf g then errAt .numberOutOfRange
        else pure (if pos then g else F64.neg g)
      else f64FromParts cfg pos sig exp

/-- `significand as i64` -/
def asI64 (n : Nat) : Int := if n < 9223372036854775808 then n else (n : Int) - 18446744073709551616
/-- `i64::wrapping_neg` -/
def wrappingNeg (i : Int) : Int := if i == i64Min then i64Min else -i

/-- `parse_num_tail`. -/
def parseNumTail (cfg : Cfg) (fuel : Nat) (radix : Nat) (pos : Bool) (sig : Nat) : P Number := do
  let c ← peekOrNull
  if c == 46 then
    if radix != 10 then peekErr .invalidNumber
    else do
      let f ← parseDecimal cfg fuel pos sig 0
      pure (Number.ofF64 f)
  else if c == 101 || c == 69 then
    if radix != 10 then peekErr .invalidNumber
    else do
      let f ← parseExponent cfg fuel pos sig 0
      pure (Number.ofF64 f)
  else if pos then pure (Number.ofUnsigned sig)
  else
    let neg := wrappingNeg (asI64 sig)
    if neg > 0 then pure (Number.ofF64 (F64.neg (F64.ofNat sig)))
    else pure (Number.ofSigned neg)

/-- the digit loop of `parse_num_literal` -/
def numLoop (cfg : Cfg) (radix : Nat) (pos : Bool) : Nat → Nat → P Number
  | 0, _ => outOfFuel
  | f + 1, res => do
    let c ← peekOrNull
    match digitVal radix c with
    | none => parseNumTail cfg (f + 1) radix pos res
    | some d =>
      if d ≥ radix then peekErr .invalidNumber
      else do
        discard
        if overflow res radix d u64Max then do
          let g ← parseLongInteger cfg radix pos res (f + 1) 1
          pure (Number.ofF64 g)
        else numLoop cfg radix pos f (res * radix + d)

/-- `parse_num_literal`. -/
def parseNumLiteral (cfg : Cfg) (fuel : Nat) (radix : Nat) (pos : Bool) : P Number := do
  match (← next) with
  | none => peekErr .eofValue
  | some c =>
    match digitVal radix c with
    | none => peekErr .invalidNumber
    | some d =>
      if d ≥ radix then peekErr .invalidNumber
      else numLoop cfg radix pos fuel d

/-- `parse_radix_literal`. -/
def parseRadixLiteral (cfg : Cfg) (fuel : Nat) (radix : Nat) : P Number := do
  let c ← peekOrNull
  if c == 45 then do discard; parseNumLiteral cfg fuel radix false
  else if c == 43 then do discard; parseNumLiteral cfg fuel radix true
  else parseNumLiteral cfg fuel radix true

/-- `expect_number_end`. -/
def expectNumberEnd (n : Number) : P Number := do
  match (← peek) with
  | some c => if !isDelimiter c then peekErr .invalidNumber else pure n
  | none => pure n

def parseNumToken (cfg : Cfg) (fuel : Nat) (pos : Bool) : P Number := do
  let n ← parseNumLiteral cfg fuel 10 pos
  expectNumberEnd n

def parseRadixToken (cfg : Cfg) (fuel : Nat) (radix : Nat) : P Number := do
  let n ← parseRadixLiteral cfg fuel radix
  expectNumberEnd n

/-- `parse_number` (byte vector elements). -/
def parseNumber (cfg : Cfg) (fuel : Nat) : P Number := do
  let c ← peekOrNull
  if c == 35 then do
    discard
    let r ← next
    match r with
    | none => peekErr .eofValue
    | some r =>
      if r == 98 then parseRadixLiteral cfg fuel 2
      else if r == 111 then parseRadixLiteral cfg fuel 8
      else if r == 100 then parseRadixLiteral cfg fuel 10
      else if r == 120 then parseRadixLiteral cfg fuel 16
      else peekErr .invalidNumber
  else parseRadixLiteral cfg fuel 10

/-! ### tokens -/

inductive Quote where | quote | quasiquote | unquote | unquoteSplicing
  deriving DecidableEq, Repr, Inhabited

def Quote.name : Quote → List UInt8
  | .quote => asc "quote"
  | .quasiquote => asc "quasiquote"
  | .unquote => asc "unquote"
  | .unquoteSplicing => asc "unquote-splicing"

inductive Token where
  | null | nil
  | bool (b : Bool)
  | char (c : Nat)
  | number (n : Number)
  | symbol (s : List UInt8)
  | keyword (s : List UInt8)
  | string (s : List UInt8)
  | bytes (b : List UInt8)
  | listOpen (close : UInt8)
  | quotation (q : Quote)
  | vecOpen (close : UInt8)
  | byteVecOpen (close : UInt8)
  deriving Repr, Inhabited

/-- `expect_ident`. -/
def expectIdent : List UInt8 → P Unit
  | [] => pure ()
  | c :: cs => do
    match (← next) with
    | some b => if b == c then expectIdent cs else errAt .expectedSomeIdent
    | none => errAt .eofValue

/-- `symbol_token`. -/
def symbolToken (o : Options) (name : List UInt8) : Token :=
  if o.kwPostfix && name.length > 1 && name.getLast? == some 58 then .keyword name.dropLast
  else .symbol name

/-- The sub-parser of the leading-digit path: is the whole symbol a numeric literal?
    (`Parser::from_slice_custom(symbol)` + `parse_num_literal(10, true)` + `peek().is_none()`) -/
def wholeNumber (cfg : Cfg) (sym : List UInt8) : Option Number :=
  let s : St := { rd := { mode := .slice, rest := sym } }
  match parseNumLiteral cfg (sym.length + 1) 10 true s with
  | .ok n s' => if s'.rd.rest.isEmpty then some n else none
  | _ => none

/-- `parse_sign_dot_symbol`. -/
def parseSignDotSymbol (cfg : Cfg) (pfx : List UInt8) : P Token := do
  discard
  let c ← peekOrNull
  if isDigit c then peekErr .invalidNumber
  else do
    let name ← parseSymbolBytes pfx
    pure (symbolToken cfg.opts name)

/-- The `+` / `-` arms of `parse_token`. -/
def parseSignToken (cfg : Cfg) (fuel : Nat) (sign : UInt8) (pos : Bool) : P Token := do
  discard
  let nxt ← peekOrNull
  if nxt == 0 || isDelimiter nxt || isSignSubsequent nxt then do
    let name ← parseSymbolBytes [sign]
    pure (symbolToken cfg.opts name)
  else if nxt == 46 then parseSignDotSymbol cfg [sign, 46]
  else do
    let n ← parseNumToken cfg fuel pos
    pure (.number n)

/-- `parse_token`. `fuel` bounds the scanner loops (callers pass the input length + 1). -/
def parseToken (cfg : Cfg) (fuel : Nat) (pk : UInt8) : P Token := do
  let o := cfg.opts
  if pk == 35 then do            -- '#'
    discard
    match (← next) with
    | none => peekErr .eofValue
    | some c =>
      if c == 116 then pure (.bool true)
      else if c == 102 then pure (.bool false)
      else if c == 110 then do expectIdent (asc "il"); pure .nil
      else if c == 40 then pure (.vecOpen 41)
      else if c == 58 && o.kwOctothorpe then do
        let name ← parseSymbolBytes []
        pure (.keyword name)
      else if c == 118 then do expectIdent (asc "u8"); pure (.byteVecOpen 41)
      else if c == 117 then do expectIdent (asc "8"); pure (.byteVecOpen 41)
      else if c == 98 then do let n ← parseRadixToken cfg fuel 2; pure (.number n)
      else if c == 111 then do let n ← parseRadixToken cfg fuel 8; pure (.number n)
      else if c == 100 then do let n ← parseRadixToken cfg fuel 10; pure (.number n)
      else if c == 120 then do let n ← parseRadixToken cfg fuel 16; pure (.number n)
      else if c == 92 then do let ch ← parseR6rsChar fuel; pure (.char ch)
      else if c == 37 && o.racket then do
        let name ← parseSymbolBytes (asc "#%")
        pure (.symbol name)
      else peekErr .expectedSomeIdent
  else if pk == 45 then parseSignToken cfg fuel 45 false
  else if pk == 43 then parseSignToken cfg fuel 43 true
  else if isDigit pk then
    if o.leadingDigit then do
      let sym ← parseSymbolBytes []
      match wholeNumber cfg sym with
      | some n => pure (.number n)
      | none => pure (symbolToken o sym)
    else do
      let n ← parseNumToken cfg fuel true
      pure (.number n)
  else if pk == 34 then do       -- '"'
    discard
    match o.string with
    | .r6rs => do
      let s ← parseR6rsStr fuel []
      pure (.string s)
    | .elisp => do
      match (← parseElispStr fuel [] false false false) with
      | .multibyte s => pure (.string s)
      | .unibyte b => pure (.bytes b)
  else if pk == 40 then do discard; pure (.listOpen 41)
  else if pk == 91 then do
    discard
    match o.brackets with
    | .vector => pure (.vecOpen 93)
    | .list => pure (.listOpen 93)
  else if pk == 58 then          -- ':'
    if o.kwPrefix then do
      discard
      let name ← parseSymbolBytes []
      pure (.keyword name)
    else do
      let name ← parseSymbolBytes []
      pure (symbolToken o name)
  else if isAsciiAlpha pk then do
    let name ← parseSymbolBytes []
    if o.kwPostfix && name.getLast? == some 58 then pure (.keyword name.dropLast)
    else if o.nil != .default && name == asc "nil" then
      match o.nil with
      | .emptyList => pure .null
      | .special => pure .nil
      | .default => panicAt .unreachable
    else if o.t != .default && name == asc "t" then
      match o.t with
      | .true_ => pure (.bool true)
      | .default => panicAt .unreachable
    else pure (.symbol name)
  else if pk == 63 && o.char == .elisp then do   -- '?'
    discard
    let c ← parseElispChar fuel
    pure (.char c)
  else if pk == 39 then do discard; pure (.quotation .quote)
  else if pk == 96 then do discard; pure (.quotation .quasiquote)
  else if pk == 44 then do
    discard
    let c ← peekOrNull
    if c == 64 then do discard; pure (.quotation .unquoteSplicing)
    else pure (.quotation .unquote)
  else if pk > 127 then do
    discard
    let (c, bytes) ← decodeUtf8Sequence pk
    if !cfg.isAlphabetic c then peekErr .expectedSomeValue
    else do
      let name ← parseSymbolBytes bytes
      pure (symbolToken o name)
  else if isSymbolExtended pk then do
    let name ← parseSymbolBytes []
    pure (symbolToken o name)
  else do
    -- report at peek_position(), then skip the offending byte
    let s ← (fun s => Res.ok s s : P St)
    let pp := s.rd.peekPosition
    discard
    (fun s' => Res.err (.syntax .expectedSomeValue pp.line pp.col) s' : P Token)

end Parse
end Lexpr
