/-
  Line-protocol driver: reads operation lines on stdin, runs the model's executable definitions,
  prints one result line per operation (same canonical forms as harness/src/codec.rs, ops.rs).
  Glue only: nothing in here is used by a theorem.
-/
import LexprModel.Parse
import LexprModel.Print
import LexprModel.ListOps
import LexprModel.Generated.Tables
import LexprModel.SerdeDrv
import LexprModel.Macro
import LexprModel.Spec.ReaderExec
import LexprModel.Spec.Exercised
import LexprModel.ConsOps
import LexprModel.ConsOpsDatum

open Lexpr Lexpr.Parse

namespace Drv

def c0 (s : String) : Char := s.toList.headD ' '
def sdrop (s : String) (n : Nat) : String := String.ofList (s.toList.drop n)

def hexChar (n : Nat) : Char := if n < 10 then Char.ofNat (48 + n) else Char.ofNat (87 + n)

def hex (bs : List UInt8) : String :=
  String.ofList (bs.flatMap fun b => [hexChar (b.toNat / 16), hexChar (b.toNat % 16)])

def hexNibble (c : Char) : Nat :=
  if '0' ≤ c ∧ c ≤ '9' then c.toNat - 48
  else if 'a' ≤ c ∧ c ≤ 'f' then c.toNat - 87
  else if 'A' ≤ c ∧ c ≤ 'F' then c.toNat - 55
  else 0

def unhexL : List Char → List UInt8
  | a :: b :: rest => UInt8.ofNat (hexNibble a * 16 + hexNibble b) :: unhexL rest
  | _ => []

def unhex (s : String) : List UInt8 := unhexL s.toList

def hexNat (s : String) : Nat := s.toList.foldl (fun n c => n * 16 + hexNibble c) 0

def natHex (n : Nat) : String := String.ofList (Nat.toDigits 16 n)

def pad16 (s : String) : String := String.ofList (List.replicate (16 - s.length) '0') ++ s

/-- table of (bits, ryu text) collected from `D<bits>/<text>` tokens -/
abbrev RyuTab := List (Nat × List UInt8)

def ryuOf (t : RyuTab) (bits : Nat) : List UInt8 :=
  match t.find? (fun p => p.1 == bits) with
  | some p => p.2
  | none => []

def digitsD (d : Char) : Nat := d.toNat - 48

partial def decValue (toks : List String) (tab : RyuTab) : Value × List String × RyuTab :=
  match toks with
  | [] => (.nil, [], tab)
  | t :: rest =>
    let k := c0 t
    let body := sdrop t 1
    match k with
    | 'N' => (.nil, rest, tab)
    | 'U' => (.null, rest, tab)
    | 'T' => (.bool true, rest, tab)
    | 'F' => (.bool false, rest, tab)
    | 'P' => (.number (.pos body.toNat!), rest, tab)
    | 'M' => (.number (.neg body.toInt!), rest, tab)
    | 'D' =>
      match body.splitOn "/" with
      | [b, txt] => let bits := hexNat b; (.number (.flt bits), rest, (bits, unhex txt) :: tab)
      | _ => (.number (.flt (hexNat body)), rest, tab)
    | 'C' => (.char (hexNat body), rest, tab)
    | 'S' => (.string (unhex body), rest, tab)
    | 'Y' => (.symbol (unhex body), rest, tab)
    | 'K' => (.keyword (unhex body), rest, tab)
    | 'B' => (.bytes (unhex body), rest, tab)
    | 'c' =>
      let (a, r1, t1) := decValue rest tab
      let (d, r2, t2) := decValue r1 t1
      (.cons a d, r2, t2)
    | 'V' =>
      let n := body.toNat!
      let rec go (n : Nat) (toks : List String) (tab : RyuTab) (acc : List Value) :=
        match n with
        | 0 => (acc.reverse, toks, tab)
        | n + 1 => let (v, r, t) := decValue toks tab; go n r t (v :: acc)
      let (xs, r, t) := go n rest tab []
      (.vector xs, r, t)
    | _ => (.nil, rest, tab)

def encNumber : Number → String
  | .pos n => s!"P{n}"
  | .neg i => s!"M{i}"
  | .flt b => if F64.isNaN b then "Dnan" else "D" ++ pad16 (natHex b)

partial def encValueL : Value → List String
  | .nil => ["N"]
  | .null => ["U"]
  | .bool true => ["T"]
  | .bool false => ["F"]
  | .number n => [encNumber n]
  | .char c => ["C" ++ natHex c]
  | .string s => ["S" ++ hex s]
  | .symbol s => ["Y" ++ hex s]
  | .keyword s => ["K" ++ hex s]
  | .bytes b => ["B" ++ hex b]
  | .cons a d => "c" :: (encValueL a ++ encValueL d)
  | .vector xs => s!"V{xs.length}" :: xs.flatMap encValueL

def encValue (v : Value) : String := " ".intercalate (encValueL v)

def dg (s : String) (i : Nat) : Nat := (s.toList.getD i '0').toNat - 48

def parseOpts (s : String) : Parse.Options :=
  { kwPrefix := dg s 0 == 1, kwPostfix := dg s 1 == 1, kwOctothorpe := dg s 2 == 1,
    nil := match dg s 3 with | 0 => .emptyList | 1 => .default | _ => .special,
    t := if dg s 4 == 0 then .true_ else .default,
    brackets := if dg s 5 == 0 then .list else .vector,
    string := if dg s 6 == 0 then .r6rs else .elisp,
    char := if dg s 7 == 0 then .r6rs else .elisp,
    racket := dg s 8 == 1, leadingDigit := dg s 9 == 1 }

def printOpts (s : String) : Print.Options :=
  { keyword := match dg s 0 with | 0 => .colonPrefix | 1 => .colonPostfix | _ => .octothorpe,
    nil := match dg s 1 with | 0 => .symbol | 1 => .token | 2 => .emptyList | _ => .false_,
    bool := if dg s 2 == 0 then .token else .symbol,
    vector := if dg s 3 == 0 then .octothorpe else .brackets,
    bytes := match dg s 4 with | 0 => .r6rs | 1 => .r7rs | _ => .elisp,
    string := if dg s 5 == 0 then .r6rs else .elisp,
    char := if dg s 6 == 0 then .r6rs else .elisp }

def alphaArr : Array (Nat × Nat) := Gen.alphabeticRanges.toArray

/-- binary search in the regenerated range table -/
def isAlphabetic (c : Nat) : Bool := Id.run do
  let mut lo := 0
  let mut hi := alphaArr.size
  while lo < hi do
    let mid := (lo + hi) / 2
    let (a, b) := alphaArr[mid]!
    if c < a then hi := mid
    else if c > b then lo := mid + 1
    else return true
  return false

def pow10Arr : Array Nat := Gen.pow10Bits.toArray
def pow10 (k : Nat) : Nat := pow10Arr.getD k 0

def mkCfg (ropts : String) (fast : Bool) : Cfg :=
  { opts := parseOpts ropts, fast := fast, isAlphabetic := isAlphabetic, pow10 := pow10 }

def codeName : Code → String
  | .eofList => "eofList" | .eofVector => "eofVector" | .eofString => "eofString"
  | .eofValue => "eofValue" | .eofChar => "eofChar" | .expectedSomeIdent => "expectedSomeIdent"
  | .mismatchedParenthesis => "mismatchedParenthesis" | .expectedSomeValue => "expectedSomeValue"
  | .expectedVector => "expectedVector" | .expectedOctet => "expectedOctet"
  | .invalidEscape => "invalidEscape" | .invalidNumber => "invalidNumber"
  | .invalidSymbol => "invalidSymbol" | .numberOutOfRange => "numberOutOfRange"
  | .invalidUnicodeCodePoint => "invalidUnicodeCodePoint"
  | .invalidCharacterConstant => "invalidCharacterConstant"
  | .trailingCharacters => "trailingCharacters" | .recursionLimitExceeded => "recursionLimitExceeded"

def encErr : Err → String
  | .io => "io"
  | .syntax c l k => s!"err {codeName c} {l} {k}"

def spanStr (s : Span) : String := s!"{s.start.line}:{s.start.col}-{s.stop.line}:{s.stop.col}"

partial def encInfo (v : Value) (info : SpanInfo) : List String :=
  match v with
  | .cons a d =>
    match info with
    | .cons sp cm dm => ("q" ++ spanStr sp) :: (encInfo a cm ++ encInfo d dm)
    | _ => ["q" ++ spanStr info.span, "BAD"]
  | .vector xs =>
    match info with
    | .vec sp ms =>
      ["w" ++ spanStr sp, toString ms.length] ++ (if ms.length != xs.length then ["BAD"] else []) ++
        ((xs.zip ms).flatMap fun (x, m) => encInfo x m)
    | _ => ["BAD"]
  | _ => ["p" ++ spanStr info.span]

def encItem : Item → String
  | .value v => "val " ++ encValue v
  | .datum d => "dat " ++ encValue d.value ++ " @ " ++ " ".intercalate (encInfo d.value d.info)
  | .none_ => "none"
  | .unit => "unit"
  | .err e => encErr e
  | .panic _ => "panic"
  | .fuel => "fuel"

def opOfChar : Char → Op
  | 'v' => .nextValue | 'd' => .nextDatum | 'V' => .expectValue | 'D' => .expectDatum
  | 'e' => .expectEnd | 'i' => .valueIterNext | 'j' => .datumIterNext | _ => .parserNext

def mkState (src : String) (data : List UInt8) : St :=
  let c := c0 src
  let k := (sdrop src 1).toNat!
  if c == 's' then initSt .str data
  else if c == 'b' then initSt .slice data
  else if c == 'x' || c == 'X' || c == 'w' then initSt .io (data.take k) true
  else initSt .io data

def resItem (r : Res Value) : Item :=
  match r with
  | .ok v _ => .value v
  | .err e _ => .err e
  | .panic p => .panic p
  | .fuel => .fuel

def resItemD (r : Res Datum) : Item :=
  match r with
  | .ok v _ => .datum v
  | .err e _ => .err e
  | .panic p => .panic p
  | .fuel => .fuel

def execParse (t : List String) : String :=
  match t with
  | _ :: fast :: src :: ro :: api :: rest =>
    -- a stream that fails once and then recovers (`y<k>`) is outside the model (its reader is either
    -- fault-free or fails for good); those operations are evaluated by the direct oracle only
    if c0 src == 'y' then "oracle-only" else
    let data := unhex (rest.headD "")
    let cfg := mkCfg ro (fast == "1")
    let s := mkState src data
    let items : List Item :=
      if api == "v1" then [resItem (fromTrait cfg s)]
      else if api == "d1" then [resItemD (fromTraitDatum cfg s)]
      else if api.startsWith "h:" then runHistory cfg ((api.toList.drop 2).map opOfChar) s
      else
        match api.splitOn ":" with
        | [_, op, cap] => iterate cfg (opOfChar (c0 op)) cap.toNat! s
        | _ => []
    " | ".intercalate (items.map encItem)
  | _ => "bad-op"

def rle (labels : List Char) : String :=
  let rec go (cur : Char) (n : Nat) (rest : List Char) (acc : String) : String :=
    match rest with
    | [] => acc ++ cur.toString ++ toString n
    | c :: cs => if c == cur then go cur (n + 1) cs acc else go c 1 cs (acc ++ cur.toString ++ toString n)
  match labels with
  | [] => "-"
  | c :: cs => go c 1 cs ""

def emitsOf (p : String) (tab : RyuTab) (v : Value) : List Print.Emit :=
  if p == "D" then Print.emitsDefault (ryuOf tab) v else Print.emits (printOpts p) (ryuOf tab) v

def execPrint (t : List String) : String :=
  match t with
  | _ :: p :: rest =>
    let (v, _, tab) := decValue rest []
    let es := emitsOf p tab v
    let bytes := Print.flatten es
    let labels := es.flatMap fun e => List.replicate e.bytes.length (if e.isAll then 'A' else 'W')
    s!"ok {hex bytes} {rle labels}"
  | _ => "bad-op"

/-- Offset-indexed sink of the harness (`SchedSink` in ops.rs). -/
structure Sched where
  uniform : Option Nat := none
  seed : Nat := 0
  failAt : Option Nat := none
  zeroAt : Option Nat := none
  intr : Option Nat := none
  /-- transient faults: one `Err` (resp. one `Ok(0)`) at the first call at or beyond (resp. at) this
      offset, normal behaviour afterwards — a sink that refuses one write and accepts later ones -/
  failOnce : Option Nat := none
  zeroOnce : Option Nat := none

def schedHash (seed off : Nat) : Nat :=
  ((seed * 6364136223846793005 + (off + 1) * 1442695040888963407) % 18446744073709551616) / 8589934592

def parseSched (s : String) : Sched :=
  (s.splitOn ",").foldl (fun sc t =>
    let n := (sdrop t 1).toNat!
    match c0 t with
    | 'k' => { sc with uniform := some n }
    | 'r' => { sc with seed := n }
    | 'f' => { sc with failAt := some n }
    | 'z' => { sc with zeroAt := some n }
    | 'i' => { sc with intr := some n }
    | 'F' => { sc with failOnce := some n }
    | 'Z' => { sc with zeroOnce := some n }
    | _ => sc) {}

/-- One `write(buf)` call: response and new state (delivered, lastIntr). -/
def sinkWrite (sc : Sched) (got : List UInt8) (st : Option Nat × Bool) (buf : List UInt8) :
    Print.Resp × List UInt8 × (Option Nat × Bool) :=
  let lastIntr := st
  let off := got.length
  let intrNow := match sc.intr with
    | some s => schedHash s off % 3 == 0 && st.1 != some off
    | none => false
  if intrNow then (.interrupted, got, (some off, st.2))
  else if !st.2 && (match sc.failOnce with | some n => decide (off ≥ n) | none => false) then
    (.fail, got, (st.1, true))
  else if !st.2 && sc.zeroOnce == some off then (.accept 0, got, (st.1, true))
  else if (match sc.failAt with | some n => decide (off ≥ n) | none => false) then (.fail, got, lastIntr)
  else if sc.zeroAt == some off then (.accept 0, got, lastIntr)
  else
    let k0 := match sc.uniform with
      | some k => max k 1
      | none => 1 + schedHash sc.seed off % 5
    let k1 := min k0 buf.length
    let lim (o : Option Nat) (k : Nat) : Nat := match o with
      | some n => if n > off then min k (n - off) else k
      | none => k
    let k := lim sc.zeroAt (lim sc.failAt k1)
    let k := if st.2 then k else lim sc.zeroOnce (lim sc.failOnce k)
    (.accept k, got ++ buf.take k, lastIntr)

/-- std `write_all` against the offset sink. -/
def sinkWriteAll (sc : Sched) : Nat → List UInt8 → (Option Nat × Bool) → List UInt8 →
    Print.IoRes × List UInt8 × (Option Nat × Bool)
  | 0, got, li, _ => (.err, got, li)
  | _, got, li, [] => (.ok, got, li)
  | f + 1, got, li, buf =>
    match sinkWrite sc got li buf with
    | (.accept 0, g, l) => (.err, g, l)
    | (.accept k, g, l) => sinkWriteAll sc f g l (buf.drop k)
    | (.interrupted, g, l) => sinkWriteAll sc f g l buf
    | (.fail, g, l) => (.err, g, l)

def sinkRun (sc : Sched) : List Print.Emit → List UInt8 → (Option Nat × Bool) → Print.IoRes × List UInt8
  | [], got, _ => (.ok, got)
  | .all bs :: es, got, li =>
    match sinkWriteAll sc (2 * bs.length + 2) got li bs with
    | (.ok, g, l) => sinkRun sc es g l
    | (.err, g, _) => (.err, g)
  | .one bs :: es, got, li =>
    if bs.isEmpty then
      -- `write(&[])` is still one call on the sink
      match sinkWrite sc got li bs with
      | (.accept _, g, l) => sinkRun sc es g l
      | (_, g, _) => (.err, g)
    else
      match sinkWrite sc got li bs with
      | (.accept _, g, l) => sinkRun sc es g l
      | (_, g, _) => (.err, g)

def execSink (t : List String) : String :=
  match t with
  | _ :: p :: sched :: rest =>
    let (v, _, tab) := decValue rest []
    let es := emitsOf p tab v
    match sinkRun (parseSched sched) es [] (none, false) with
    | (.ok, out) => s!"ok {hex out}"
    | (.err, out) => s!"err {hex out}"
  | _ => "bad-op"

def optVal : Option Value → String
  | some v => encValue v
  | none => "none"

def execList (t : List String) : String :=
  match t with
  | _ :: idx :: name :: rest =>
    let (v, r1, _) := decValue rest []
    let (key, _, _) := decValue (r1.drop 1) []
    let i := idx.toNat!
    let b (x : Bool) : String := if x then "1" else "0"
    let out : List String := [s!"L{b v.isList}", s!"D{b v.isDottedList}"]
    let out := out ++ (match v.toVec with
      | some xs => ["tv:["] ++ xs.map encValue ++ ["]"]
      | none => ["tv:none"])
    let out := out ++ (match v with
      | .cons a d =>
        let (xs, tl) := Value.consToVec a d
        ["cv:["] ++ xs.map encValue ++ ["]", encValue tl, s!"it:{(Value.consIter a d).length}", "ii:"] ++
          (Value.consIntoIter a d).flatMap fun (x, r) =>
            ["(", encValue x, (match r with | some r => encValue r | none => "_"), ")"]
      | _ => [])
    let out := out ++ (match v.listIter with
      | some c =>
        let n := (match v with | .cons a d => (Value.consIter a d).length | _ => 0) + 4
        "li:" :: (c.take n).map fun o => match o with | some x => encValue x | none => "_"
      | none => ["li:none"])
    let out := out ++ [s!"g:{optVal (v.getIdx i)}", s!"x:{encValue (Value.indexOr (v.getIdx i))}"]
    let out := out ++ (if name == "-" then [] else
      let nm := unhex name
      [s!"n:{optVal (v.getName nm)}", s!"nx:{encValue (Value.indexOr (v.getName nm))}"])
    let out := out ++ [s!"k:{optVal (v.getKey key)}", s!"kx:{encValue (Value.indexOr (v.getKey key))}"]
    " ".intercalate out
  | _ => "bad-op"

def ob (o : Option String) : String := o.getD "-"

def execAcc (t : List String) : String :=
  let (v, _, _) := decValue (t.drop 1) []
  let b (x : Bool) : Char := if x then '1' else '0'
  let flags := String.ofList (v.kindFlags.map b)
  let somes := String.ofList ([v.asNil.isSome, v.asNull.isSome, v.asBool.isSome, v.asNumber.isSome,
    v.asChar.isSome, v.asStr.isSome, v.asSymbol.isSome, v.asKeyword.isSome, v.asBytes.isSome,
    v.asPair.isSome, v.asSlice.isSome].map b)
  let f64s := match v.asF64 with
    | some x => if F64.isNaN x then "nan" else pad16 (natHex x)
    | none => "-"
  let h (o : Option (List UInt8)) : String := ob (o.map fun s => "h" ++ hex s)
  let bs (x : Bool) : String := if x then "1" else "0"
  s!"{flags} {somes} name={h v.asName} str={h v.asStr} sym={h v.asSymbol} kw={h v.asKeyword} bytes={h v.asBytes} bool={ob (v.asBool.map bs)} char={ob (v.asChar.map natHex)} i64={ob (v.asI64.map toString)} u64={ob (v.asU64.map toString)} f64={f64s} isi={bs v.isI64} isu={bs v.isU64} isf={bs v.isF64} pair={match v.asPair with | some (a, d) => s!"({encValue a} . {encValue d})" | none => "-"}"

inductive Prim where
  | i (n : Int) | u (n : Nat) | f32 (bits : Nat) | f64 (bits : Nat) | b (x : Bool)
  | s (x : List UInt8) | c (x : Nat) | y (x : List UInt8)

def parsePrim (s : String) : Prim :=
  match s.splitOn ":" with
  | [k, v] =>
    if k.startsWith "i" then .i v.toInt!
    else if k.startsWith "u" then .u v.toNat!
    else if k == "f32" then .f32 (hexNat v)
    else if k == "f64" then .f64 (hexNat v)
    else if k == "b" then .b (v == "1")
    else if k == "s" then .s (unhex v)
    else if k == "c" then .c (hexNat v)
    else .y (unhex v)
  | _ => .b false

def execFrom (t : List String) : String :=
  match t with
  | _ :: p :: _ =>
    let v : Value := match parsePrim p with
      | .i n => .number (Number.ofSigned n)
      | .u n => .number (Number.ofUnsigned n)
      | .f32 b => .number (Number.ofF32 b)
      | .f64 b => .number (Number.ofF64 b)
      | .b x => .bool x
      | .s x => .string x
      | .c x => .char x
      | .y x => .bytes x
    encValue v
  | _ => "bad-op"

def execCmp (t : List String) : String :=
  match t with
  | _ :: p :: rest =>
    let (v, _, _) := decValue rest []
    let rep (n : Nat) (x : Bool) : String := String.ofList (List.replicate n (if x then '1' else '0'))
    match parsePrim p with
    | .i n => rep 4 (v.eqI64 n)
    | .u n => rep 4 (v.eqU64 n)
    | .f32 b => rep 4 (v.eqF64 (F64.ofF32Bits b))
    | .f64 b => rep 4 (v.eqF64 b)
    | .b x => rep 4 (v.eqBool x)
    | .s x => rep 6 (v.eqStr x)
    | _ => "-"
  | _ => "bad-op"

def execRt (t : List String) : String :=
  match t with
  | _ :: p :: ro :: fast :: rest =>
    let (v, _, tab) := decValue rest []
    let text := Print.text (printOpts p) (ryuOf tab) v
    let cfg := mkCfg ro (fast == "1")
    s!"{hex text} => {encItem (resItem (fromTrait cfg (initSt .slice text)))}"
  | _ => "bad-op"

def execPrefix (t : List String) : String :=
  match t with
  | _ :: ro :: k :: fast :: h :: _ =>
    let data := (unhex h).take k.toNat!
    encItem (resItem (fromTrait (mkCfg ro (fast == "1")) (initSt .slice data)))
  | _ => "bad-op"

def pof (r : String) : String :=
  let kw := if dg r 2 == 1 then 2 else if dg r 0 == 1 then 0 else if dg r 1 == 1 then 1 else 2
  s!"{kw}10{dg r 5}1{dg r 6}{dg r 7}"

def execPp (t : List String) : String :=
  match t with
  | _ :: ro :: fast :: h :: rest =>
    let tab : RyuTab := rest.filterMap fun tk =>
      match (sdrop tk 1).splitOn "/" with
      | [b, txt] => some (hexNat b, unhex txt)
      | _ => none
    let cfg := mkCfg ro (fast == "1")
    -- `ppe`: byte vectors as Emacs Lisp unibyte strings (the other printer option set that corresponds to
    -- a parser reading Emacs Lisp strings), everything else as `pof`
    let po0 := printOpts (pof ro)
    let po := if t.head? == some "ppe" then { po0 with bytes := .elisp } else po0
    match fromTrait cfg (initSt .slice (unhex h)) with
    | .ok v _ =>
      let t1 := Print.text po (ryuOf tab) v
      let r2 := fromTrait cfg (initSt .slice t1)
      let t2 := match r2 with
        | .ok v2 _ => hex (Print.text po (ryuOf tab) v2)
        | _ => "-"
      s!"val {encValue v} ; {hex t1} ; {encItem (resItem r2)} ; {t2}"
    | r => "rej " ++ encItem (resItem r)
  | _ => "bad-op"

def splitSep (t : List String) : List String × List String :=
  (t.takeWhile (· != ";;"), (t.dropWhile (· != ";;")).drop 1)

def execSer (t : List String) : String :=
  let (tyT, dataT) := splitSep (t.drop 2)
  let (ty, _) := SerdeDrv.decTy tyT
  let (d, _) := SerdeDrv.decData ty dataT
  match Serde.ser ty d with
  | some v => "ok " ++ encValue v
  | none => "err"

def execDe (t : List String) : String :=
  let (tyT, valT) := splitSep (t.drop 2)
  let (ty, _) := SerdeDrv.decTy tyT
  let (v, _, _) := decValue valT []
  match Serde.de ty v with
  | .ok d => "ok " ++ " ".intercalate (SerdeDrv.encData (SerdeDrv.canon ty d))
  | .dataErr => "err Data"
  | .panic => "panic"

/-- token encoding: p<code><j|a>, i<hex>, li<n>, lf<sig>e<exp>, ls<hexsrc>/<hexval>, lc<hex>, g<n> followed by n token trees -/
partial def decToks (n : Nat) (t : List String) : List Macro.Tok × List String :=
  match n with
  | 0 => ([], t)
  | n + 1 =>
    match t with
    | [] => ([], [])
    | k :: r =>
      let (tok, r) : Macro.Tok × List String :=
        match c0 k with
        | 'p' =>
          let body := sdrop k 1
          let sp := if body.toList.getLast? == some 'j' then Macro.Spacing.joint else Macro.Spacing.alone
          (.punct (UInt8.ofNat (String.ofList body.toList.dropLast).toNat!) sp, r)
        | 'i' => (.ident (unhex (sdrop k 1)), r)
        | 'l' =>
          let kind := (sdrop k 1 |> c0)
          let body := sdrop k 2
          if kind == 'i' then (.lit (.int body.toNat!), r)
          else if kind == 'f' then
            match body.splitOn "e" with
            | [a, b] => (.lit (.float a.toNat! b.toInt!), r)
            | _ => (.lit (.int 0), r)
          else if kind == 's' then
            match body.splitOn "/" with
            | [a, b] => (.lit (.str (unhex a) (unhex b)), r)
            | _ => (.lit (.str [] []), r)
          else (.lit (.char (hexNat body)), r)
        | 'g' =>
          let (ts, r) := decToks (sdrop k 1).toNat! r
          (.group true ts, r)
        | _ => (.ident [], r)
      let (rest, r) := decToks n r
      (tok :: rest, r)

/-- the fixed environment of unquoted identifiers used by the generated invocations -/
def macroEnv : Macro.Tok → Value
  | .group _ (t :: _) => macroEnv t
  | .ident s =>
    if s == asc "u0" then .number (.pos 42)
    else if s == asc "u1" then .string (asc "str")
    else if s == asc "u2" then .number (.flt (F64.rnDec 15 (-1)))
    else if s == asc "u3" then .symbol (asc "s")
    else if s == asc "u4" then .bool true
    else if s == asc "u5" then .char 99
    else if s == asc "u6" then Value.list [.number (.pos 1), .number (.pos 2)]
    else .null
  | _ => .nil

def execMacro (t : List String) : String :=
  let n := (t.getD 1 "0").toNat!
  let (ts, _) := decToks n (t.drop 2)
  match Macro.expand macroEnv ts with
  | some v => encValue v
  | none => "macro-error"

def execTriv (t : List String) : String :=
  match t with
  | _ :: fast :: ro :: a :: rest =>
    let run (h : String) : String := execParse ["parse", fast, "b", ro, "r:v:64", h]
    s!"{run a} || {run (rest.headD "")}"
  | _ => "bad-op"

/-- `opts R <start> <setter>*` / `opts P <start> <setter>*`: a chain of builder calls on an option value;
    the result is printed as the digit string of the resulting option set (twice for the parser: what
    the getters return and what the reader does on probe tokens are the same record in the model). -/
def roptsDigits (o : Parse.Options) : String :=
  let b (x : Bool) : String := if x then "1" else "0"
  b o.kwPrefix ++ b o.kwPostfix ++ b o.kwOctothorpe ++
  (match o.nil with | .emptyList => "0" | .default => "1" | .special => "2") ++
  (match o.t with | .true_ => "0" | .default => "1") ++
  (match o.brackets with | .list => "0" | .vector => "1") ++
  (match o.string with | .r6rs => "0" | .elisp => "1") ++
  (match o.char with | .r6rs => "0" | .elisp => "1") ++ b o.racket ++ b o.leadingDigit

def poptsDigits (o : Print.Options) : String :=
  (match o.keyword with | .colonPrefix => "0" | .colonPostfix => "1" | .octothorpe => "2") ++
  -- observed through the printed text: with booleans as symbols, nil printed as a symbol and nil printed
  -- as false are the same text (`nil`): one class `S`
  (match o.nil, o.bool with
   | .symbol, .symbol => "S" | .false_, .symbol => "S"
   | .symbol, _ => "0" | .token, _ => "1" | .emptyList, _ => "2" | .false_, _ => "3") ++
  (match o.bool with | .token => "0" | .symbol => "1") ++
  (match o.vector with | .octothorpe => "0" | .brackets => "1") ++
  (match o.bytes with | .r6rs => "0" | .r7rs => "1" | .elisp => "2") ++
  (match o.string with | .r6rs => "0" | .elisp => "1") ++
  (match o.char with | .r6rs => "0" | .elisp => "1")

def kwOf (n : Nat) : KeywordSyntax := match n with | 0 => .colonPrefix | 1 => .colonPostfix | _ => .octothorpe

def rSetter (tok : String) : Option Parse.Setter :=
  match tok.toList with
  | 'k' :: d => some (.addKeyword (kwOf (String.ofList d).toNat!))
  | 'K' :: d => some (.setKeywords ((String.ofList d).toList.map fun c => kwOf (c.toNat - 48)))
  | ['n', d] => some (.nil (match d with | '0' => .emptyList | '1' => .default | _ => .special))
  | ['t', d] => some (.t (if d == '0' then .true_ else .default))
  | ['b', d] => some (.brackets (if d == '0' then .list else .vector))
  | ['s', d] => some (.string (if d == '0' then .r6rs else .elisp))
  | ['c', d] => some (.char (if d == '0' then .r6rs else .elisp))
  | ['r', d] => some (.racket (d == '1'))
  | ['d', d] => some (.leadingDigit (d == '1'))
  | _ => none

def pSetter (tok : String) : Option Print.Setter :=
  match tok.toList with
  | ['k', d] => some (.keyword (kwOf (d.toNat - 48)))
  | ['n', d] => some (.nil (match d with | '0' => .symbol | '1' => .token | '2' => .emptyList | _ => .false_))
  | ['o', d] => some (.bool (if d == '0' then .token else .symbol))
  | ['v', d] => some (.vector (if d == '0' then .octothorpe else .brackets))
  | ['y', d] => some (.bytes (match d with | '0' => .r6rs | '1' => .r7rs | _ => .elisp))
  | ['s', d] => some (.string (if d == '0' then .r6rs else .elisp))
  | ['c', d] => some (.char (if d == '0' then .r6rs else .elisp))
  | _ => none

def execOpts (t : List String) : String :=
  match t with
  | _ :: "R" :: start :: ops =>
    let s0 := match start with | "new" => Parse.Options.new | "elisp" => Parse.Options.elisp | _ => Parse.Options.default
    match ops.mapM rSetter with
    | some sts => let o := Parse.Options.build s0 sts; s!"R {roptsDigits o} {roptsDigits o}"
    | none => "bad-op"
  | _ :: "P" :: start :: ops =>
    let s0 := match start with | "elisp" => Print.Options.elisp | _ => Print.Options.default
    match ops.mapM pSetter with
    | some sts => s!"P {poptsDigits (Print.Options.build s0 sts)}"
    | none => "bad-op"
  | _ => "bad-op"

/-! ### hand-written Clone / PartialEq / Drop of `Cons` and `SpanInfo`, mutators, iterator accessors
    (harness/src/cons_ops.rs; model LexprModel/ConsOps.lean, ConsOpsDatum.lean) -/

/-- `encValueL` with floats always as bits (also NaN) -/
partial def encBitsL : Value → List String
  | .number (.flt b) => ["D" ++ pad16 (natHex b)]
  | .cons a d => "c" :: (encBitsL a ++ encBitsL d)
  | .vector xs => s!"V{xs.length}" :: xs.flatMap encBitsL
  | v => encValueL v

def encBits (v : Value) : String := " ".intercalate (encBitsL v)

def bch (x : Bool) : String := if x then "1" else "0"

/-- `clone <value> ;; <value>` -/
def execClone (t : List String) : String :=
  let (v, r1, _) := decValue (t.drop 1) []
  let (w, _, _) := decValue (r1.drop 1) []
  match ConsOps.cloneV v with
  | .panic _ => "PANIC"
  | .ok c =>
    let eq := ConsOps.eqV
    let head := s!"cl {encBits c} | {bch (eq v c)}{bch (eq c v)} {bch (eq v w)}{bch (eq w v)}{bch (ConsOps.neV v w)}"
    match v, w with
    | .cons a d, .cons a' d' =>
      (match ConsOps.Cons.cloneLoop a d with
       | .ok cc =>
         let ccEq := match cc with | .cons x y => ConsOps.Cons.eqLoop a d x y | _ => false
         s!"{head} C{bch (ConsOps.Cons.eqLoop a d a' d')}{bch (ConsOps.Cons.eqLoop a' d' a d)}{bch ccEq} {encBits cc}"
       | .panic _ => "PANIC")
    | .cons a d, _ =>
      (match ConsOps.Cons.cloneLoop a d with
       | .ok cc =>
         let ccEq := match cc with | .cons x y => ConsOps.Cons.eqLoop a d x y | _ => false
         s!"{head} c{bch ccEq} {encBits cc}"
       | .panic _ => "PANIC")
    | _, _ => head ++ " -"

def datumStr (tag : String) (d : Datum) : String :=
  tag ++ " " ++ encBits d.value ++ " @ " ++ " ".intercalate (encInfo d.value d.info)

/-- `dclone <fast> <R10> <hex text> <hex text>` -/
def execDclone (t : List String) : String :=
  match t with
  | _ :: fast :: ro :: rest =>
    let a := unhex (rest.headD "")
    let b := unhex ((rest.drop 1).headD "")
    let cfg := mkCfg ro (fast == "1")
    match fromTraitDatum cfg (initSt .slice a) with
    | .ok d1 _ =>
      (match ConsOps.cloneDatum d1 with
       | .panic _ => "PANIC"
       | .ok c =>
         let out := datumStr "dtm" c ++ s!" | {bch (ConsOps.eqDatum d1 c)}{bch (ConsOps.eqDatum c d1)}"
         let out := out ++ (match fromTraitDatum cfg (initSt .slice b) with
           | .ok d2 _ =>
             let e := ConsOps.eqDatum d1 d2
             s!" {bch e}{bch (ConsOps.eqDatum d2 d1)}{bch (!e)}{bch (ConsOps.eqV d1.value d2.value)}{bch e}"
           | _ => " rej")
         match d1.listIter with
         | some cur =>
           (match cur.next with
            | some (some item, _) =>
              (match ConsOps.cloneDatum item with
               | .ok sub => out ++ " | " ++ datumStr "sub" sub ++ " " ++ bch (ConsOps.eqDatum sub item)
               | .panic _ => "PANIC")
            | some (none, _) => out ++ " | sub none"
            | none => "PANIC")
         | none => out ++ " | nolist")
    | _ => "rej"
  | _ => "bad-op"

partial def decSteps (toks : List String) (acc : List ConsOps.Step) : List ConsOps.Step :=
  match toks with
  | [] => acc.reverse
  | t :: rest =>
    let k := String.ofList (t.toList.take 2)
    let n := ((sdrop t 2).toNat?).getD 0
    let withVal (f : Value → ConsOps.Step) : List ConsOps.Step :=
      let (v, r, _) := decValue rest []
      decSteps r (f v :: acc)
    let plain (s : ConsOps.Step) : List ConsOps.Step := decSteps rest (s :: acc)
    match k with
    | "sc" => withVal (.setCar n)
    | "sd" => withVal (.setCdr n)
    | "cm" => withVal (.carMut n)
    | "dm" => withVal (.cdrMut n)
    | "ca" => plain (.car n)
    | "cd" => plain (.cdr n)
    | "ap" => plain (.asPair n)
    | "vs" => withVal (.sliceSet n)
    | "ip" => plain .intoPair
    | "tv" => plain .toVec
    | "rv" => plain .toVec
    | "iv" => plain .intoVec
    | "vv" => plain .valueToVec
    | "vr" => plain .valueToVec
    | "ix" => plain (.index n)
    | "it" => plain .startIter
    | "ii" => plain .startIntoIter
    | "li" => plain .startListIter
    | "pk" => plain .peek
    | "nx" => plain .next
    | "ie" => plain .isEmpty
    | "ps" => withVal .peekSetCar
    | "pd" => withVal .peekSetCdr
    | "cl" => plain .clone
    | "eq" => withVal .eq
    | "nc" => withVal .consOnto
    | "nn" => withVal .consOnto
    | "nt" => withVal .consOnto
    | "aa" =>
      let rec go (n : Nat) (toks : List String) (xs : List Value) : List Value × List String :=
        match n with
        | 0 => (xs.reverse, toks)
        | n + 1 => let (v, r, _) := decValue toks []; go n r (v :: xs)
      let (xs, r) := go n rest []
      decSteps r (.appendTo xs :: acc)
    | _ => plain .show

def pairStr : Option (Value × Value) → String
  | some (a, d) => s!"( {encBits a} . {encBits d} )"
  | none => "_"

def optBits : Option Value → String
  | some v => encBits v
  | none => "_"

def fmtObs : ConsOps.Obs → String
  | .done => "ok"
  | .oob => "oob"
  | .noCons => "nocons"
  | .noVec => "novec"
  | .noIter => "noit"
  | .val v => encBits v
  | .opt o => optBits o
  | .optPair o => pairStr o
  | .item (some (car, rest)) => s!"( {encBits car} {optBits rest} )"
  | .item none => "_"
  | .bool b => bch b
  | .vecTail xs t => " ".intercalate (["["] ++ xs.map encBits ++ ["]", encBits t])
  | .optVec (some xs) => "[ " ++ " ".intercalate (xs.map encBits) ++ " ]"
  | .optVec none => "none"
  | .panic _ => "panic"

/-- `consmut <value> ;; <step> …` -/
def execConsmut (t : List String) : String :=
  let (root, r1, _) := decValue (t.drop 1) []
  let steps := decSteps (r1.drop 1) []
  " | ".intercalate ((ConsOps.run { root := root } steps).map fmtObs)


/-- `specrd <S|E> <hex text> ;; <value>`: the INDEPENDENT reader of the documented grammar (LexprModel/Spec/Reader*.lean,
    not the model of the crate's parser) applied to a text the real printer wrote -/
def execSpecrd (t : List String) : String :=
  let text := unhex (t.getD 2 "")
  let r := if t.getD 1 "S" == "E" then Lexpr.Spec.readElisp text else Lexpr.Spec.readScheme text
  match r with
  | some v => "ok " ++ encValue v
  | none => "none"

/-- the alternatives of option digit `i` of a parser-option string (digit 3, nil, has three values) -/
def altDigits (ro : String) (i : Nat) : List String :=
  let cs := ro.toList
  let cur := (cs.getD i '0')
  let vals := if i == 3 then ['0', '1', '2'] else ['0', '1']
  (vals.filter (· != cur)).map fun c => String.ofList (cs.set i c)

def optIndex : Spec.OptName → Nat
  | .kwPrefix => 0 | .kwPostfix => 1 | .kwOctothorpe => 2 | .nil => 3 | .t => 4 | .brackets => 5
  | .string => 6 | .char => 7 | .racket => 8 | .leadingDigit => 9

/-- `sens <fast> <R10> <hex>`: for each of the ten parser options, does changing it (alone) change the outcome of
    `from_slice_custom` on the text?  One digit per option.  The model side also evaluates the frame theorem's
    `exercised` set (Spec/Exercised.lean): an option the outcome is sensitive to must be in it (`C08_frame`);
    the real side prints the same digits followed by `ok`. -/
def execSens (t : List String) : String :=
  let fast := t.getD 1 "1" == "1"
  let ro := t.getD 2 ""
  let data := unhex (t.getD 3 "")
  let run (r : String) : String := encItem (resItem (fromTrait (mkCfg r fast) (initSt .slice data)))
  let base := run ro
  let bits := (List.range 10).map fun i => (altDigits ro i).any fun r => run r != base
  let ex := (Spec.exercised (mkCfg ro fast) .slice data).map optIndex
  let okFrame := (List.range 10).all fun i => !(bits.getD i false) || ex.contains i
  String.ofList (bits.map fun b => if b then '1' else '0') ++ (if okFrame then " ok" else " FRAME-VIOLATED")

def exec (line : String) : String :=
  let t := (line.trimAscii.toString.splitOn " ").filter (· != "")
  match t.head? with
  | some "parse" => execParse t
  | some "print" => execPrint t
  | some "sink" => execSink t
  | some "list" => execList t
  | some "acc" => execAcc t
  | some "from" => execFrom t
  | some "cmp" => execCmp t
  | some "rt" => execRt t
  | some "prefix" => execPrefix t
  | some "pp" => execPp t
  | some "ppe" => execPp t
  | some "triv" => execTriv t
  | some "ser" => execSer t
  | some "macro" => execMacro t
  | some "de" => execDe t
  | some "opts" => execOpts t
  | some "specrd" => execSpecrd t
  | some "sens" => execSens t
  | some "clone" => execClone t
  | some "dclone" => execDclone t
  | some "consmut" => execConsmut t
  | some "serx" => "oracle-only"
  | some op => "unknown-op " ++ op
  | none => ""

end Drv

partial def loop (h : IO.FS.Stream) (out : IO.FS.Stream) : IO Unit := do
  let line ← h.getLine
  if line.isEmpty then return ()
  out.putStrLn (Drv.exec line)
  loop h out

def main : IO Unit := do
  let out ← IO.getStdout
  loop (← IO.getStdin) out
