//! Direct oracle: the properties' own statements evaluated on the real code for an op line.
//! Each message is `FAIL <property> <what>`; the caller appends the op line.
use crate::codec::*;
use crate::ops::*;
use lexpr::{Cons, Value};

fn d(s: &str, i: usize) -> u8 {
    s.as_bytes()[i] - b'0'
}

/// Appendix A `Compatible P R`.
pub fn compatible(p: &str, r: &str) -> bool {
    let kw_ok = match d(p, 0) { 0 => d(r, 0) == 1, 1 => d(r, 1) == 1, _ => d(r, 2) == 1 };
    let vec_ok = d(p, 3) == 0 || d(r, 5) == 1;
    let str_ok = d(r, 6) == d(p, 5) && (d(p, 4) != 2 || d(r, 6) == 1);
    let chr_ok = d(p, 6) == 0 || d(r, 7) == 1;
    kw_ok && vec_ok && str_ok && chr_ok
}

fn is_initial(c: char) -> bool {
    c.is_ascii_alphabetic() || "!$%&*/:<=>?^_~@".contains(c) || (!c.is_ascii() && c.is_alphabetic())
}
fn is_subsequent(c: char) -> bool {
    is_initial(c) || c.is_ascii_digit() || "+-.@".contains(c)
}
fn is_sign_subsequent(c: char) -> bool {
    c.is_ascii_alphabetic() || "!$%&*/:<=>?^_~@+-".contains(c)
}
fn is_dot_subsequent(c: char) -> bool {
    is_sign_subsequent(c) || c == '.'
}

/// R7RS 7.1.1 identifier without `|...|`, with the restrictions stated in DESIGN.md C01.
pub fn plain_ident(s: &str) -> bool {
    let cs: Vec<char> = s.chars().collect();
    if cs.is_empty() {
        return false;
    }
    let rest_sub = |from: usize| cs[from..].iter().all(|c| is_subsequent(*c));
    if is_initial(cs[0]) {
        return rest_sub(1);
    }
    if cs[0] == '+' || cs[0] == '-' {
        if cs.len() == 1 {
            return true;
        }
        if is_sign_subsequent(cs[1]) {
            return rest_sub(2);
        }
        if cs[1] == '.' && cs.len() >= 3 && is_dot_subsequent(cs[2]) {
            return rest_sub(3);
        }
        return false;
    }
    if cs[0] == '.' && cs.len() >= 2 && is_dot_subsequent(cs[1]) {
        return rest_sub(2);
    }
    false
}

/// Appendix A `PlainFor P R` on names.
fn name_plain_for(p: &str, r: &str, s: &str, keyword: bool) -> bool {
    // with leading-digit symbols (the Emacs Lisp preset) a digit-initial name that is not a numeric literal is a
    // symbol too: "the Emacs Lisp printer options with the Emacs Lisp parser options round-trip every value"
    let digit_name = d(r, 9) == 1 && s.starts_with(|c: char| c.is_ascii_digit()) && !is_numeric_literal(s)
        && s.chars().skip(1).all(is_subsequent) && !s.ends_with(':') && !s.contains('.');
    if !plain_ident(s) && !digit_name {
        return false;
    }
    if d(r, 7) == 1 && s.starts_with('?') {
        return false;
    }
    if !keyword {
        if d(r, 0) == 1 && s.starts_with(':') { return false; }
        if d(r, 1) == 1 && s.ends_with(':') && s.len() > 1 { return false; }
        if d(r, 3) != 1 && s == "nil" { return false; }
        if d(r, 4) != 1 && s == "t" { return false; }
    } else if d(p, 0) != 2 && (s.starts_with(':') || s.ends_with(':')) {
        return false;
    }
    true
}

/// R7RS 7.1.1: `+i`, `-i` and the <infnan> spellings are numbers, not peculiar identifiers (this data model
/// has no such numbers, so the independent reader rejects them; the crate reads them as symbols).
pub fn has_reserved_numeric_name(v: &Value) -> bool {
    let bad = |s: &str| matches!(s, "+i" | "-i" | "+inf.0" | "-inf.0" | "+nan.0" | "-nan.0");
    match v {
        Value::Symbol(s) | Value::Keyword(s) => bad(s),
        Value::Cons(c) => has_reserved_numeric_name(c.car()) || has_reserved_numeric_name(c.cdr()),
        Value::Vector(xs) => xs.iter().any(has_reserved_numeric_name),
        _ => false,
    }
}

/// C20 on numbers inside a value: as_u64 / as_i64 / comparisons agree with the integer the number is.
pub fn incoherent_number(v: &Value) -> Option<String> {
    match v {
        Value::Number(n) => {
            if let Some(i) = n.as_i64() {
                if i >= 0 && (n.as_u64() != Some(i as u64) || !n.is_u64() || !(*v == (i as u64)) || !(*v == i)) { return Some(format!("{:?}: as_i64 = {} but as_u64 = {:?}", n, i, n.as_u64())); }
                if i < 0 && n.as_u64().is_some() { return Some(format!("{:?}: negative but as_u64 is Some", n)); }
            }
            if n.is_f64() && (n.as_i64().is_some() || n.as_u64().is_some()) { return Some(format!("{:?}: a float that is an integer", n)); }
            None
        }
        Value::Cons(c) => incoherent_number(c.car()).or_else(|| incoherent_number(c.cdr())),
        Value::Vector(xs) => xs.iter().find_map(incoherent_number),
        _ => None,
    }
}

pub fn nesting(v: &Value) -> usize {
    match v {
        Value::Cons(c) => {
            let mut m = 0;
            let mut cur: &Cons = c;
            loop {
                m = m.max(nesting(cur.car()));
                match cur.cdr() {
                    Value::Cons(n) => cur = n,
                    t => { m = m.max(nesting(t)); break; }
                }
            }
            m + 1
        }
        Value::Vector(xs) => xs.iter().map(nesting).max().unwrap_or(0) + 1,
        _ => 0,
    }
}

pub fn plain_for(p: &str, r: &str, v: &Value) -> bool {
    match v {
        Value::Symbol(s) => name_plain_for(p, r, s, false),
        Value::Keyword(s) => name_plain_for(p, r, s, true),
        Value::Number(n) => n.as_f64().map_or(true, |f| f.is_finite()) || !n.is_f64(),
        Value::Cons(c) => c.iter().all(|cell| plain_for(p, r, cell.car()) && (cell.cdr().is_cons() || plain_for(p, r, cell.cdr()))),
        Value::Vector(xs) => xs.iter().all(|x| plain_for(p, r, x)),
        _ => true,
    }
}

fn read_nil(r: &str) -> Value {
    match d(r, 3) { 1 => Value::symbol("nil"), 0 => Value::Null, _ => Value::Nil }
}
fn read_t(r: &str) -> Value {
    if d(r, 4) == 1 { Value::symbol("t") } else { Value::Bool(true) }
}

/// Appendix A `fold P R`.
pub fn fold(p: &str, r: &str, v: &Value) -> Value {
    match v {
        Value::Nil => match d(p, 1) {
            1 => Value::Nil,
            2 => Value::Null,
            0 => read_nil(r),
            _ => if d(p, 2) == 0 { Value::Bool(false) } else { read_nil(r) },
        },
        Value::Bool(b) => if d(p, 2) == 0 { Value::Bool(*b) } else if *b { read_t(r) } else { read_nil(r) },
        Value::Bytes(b) if b.is_empty() && d(p, 4) == 2 => Value::string(""),
        Value::Cons(c) => {
            let (xs, t) = c.to_ref_vec();
            Value::append(xs.into_iter().map(|x| fold(p, r, x)).collect::<Vec<_>>(), fold(p, r, t))
        }
        Value::Vector(xs) => Value::Vector(xs.iter().map(|x| fold(p, r, x)).collect::<Vec<_>>().into()),
        other => other.clone(),
    }
}

fn sig_digits_and_exp(f: f64) -> (usize, i32) {
    // shortest decimal: digits and power of ten of the integer significand
    let s = format!("{:e}", f.abs());
    let (m, e) = s.split_once('e').unwrap();
    let digits: String = m.chars().filter(|c| c.is_ascii_digit()).collect();
    let digits = digits.trim_end_matches('0');
    let n = digits.len().max(1);
    let e: i32 = e.parse().unwrap();
    (n, e - (n as i32 - 1))
}

/// Is `got` an acceptable reading of the printed form of `want` (C01 / C05)?
pub fn float_ok(want: f64, got: f64, fast: bool) -> bool {
    if want.to_bits() == got.to_bits() {
        return true;
    }
    if !fast {
        return false;
    }
    let (n, e10) = sig_digits_and_exp(want);
    let sci = e10 + n as i32 - 1;
    if n <= 15 && e10.abs() <= 22 && sci.abs() <= 22 {
        return false;
    }
    if want == 0.0 || got == 0.0 {
        return (want - got).abs() <= f64::from_bits(1);
    }
    ((got - want) / want).abs() <= 2f64.powi(-50) || (got - want).abs() <= f64::from_bits(1)
}

pub fn values_match(want: &Value, got: &Value, fast: bool) -> bool {
    match (want, got) {
        (Value::Number(a), Value::Number(b)) => {
            if a.is_f64() && b.is_f64() { float_ok(a.as_f64().unwrap(), b.as_f64().unwrap(), fast) } else { a == b }
        }
        (Value::Cons(_), Value::Cons(_)) => {
            let (mut a, mut b) = (want, got);
            loop {
                match (a, b) {
                    (Value::Cons(x), Value::Cons(y)) => {
                        if !values_match(x.car(), y.car(), fast) { return false; }
                        a = x.cdr(); b = y.cdr();
                    }
                    _ => return values_match(a, b, fast),
                }
            }
        }
        (Value::Vector(a), Value::Vector(b)) => a.len() == b.len() && a.iter().zip(b.iter()).all(|(x, y)| values_match(x, y, fast)),
        _ => want == got,
    }
}

/// Bitwise equality (floats by bits, so NaN payloads compare equal to themselves).
/// structural equality with IEEE semantics on floats, written independently of the crate's `PartialEq`
pub fn ref_eq(a: &Value, b: &Value) -> bool {
    match (a, b) {
        (Value::Nil, Value::Nil) | (Value::Null, Value::Null) => true,
        (Value::Bool(x), Value::Bool(y)) => x == y,
        (Value::Number(x), Value::Number(y)) => {
            if x.is_f64() || y.is_f64() { x.is_f64() && y.is_f64() && x.as_f64().unwrap() == y.as_f64().unwrap() }
            else if let (Some(p), Some(q)) = (x.as_u64(), y.as_u64()) { p == q }
            else if let (Some(p), Some(q)) = (x.as_i64(), y.as_i64()) { p == q }
            else { false }
        }
        (Value::Char(x), Value::Char(y)) => x == y,
        (Value::String(x), Value::String(y)) => x.as_bytes() == y.as_bytes(),
        (Value::Symbol(x), Value::Symbol(y)) => x.as_bytes() == y.as_bytes(),
        (Value::Keyword(x), Value::Keyword(y)) => x.as_bytes() == y.as_bytes(),
        (Value::Bytes(x), Value::Bytes(y)) => x[..] == y[..],
        (Value::Cons(x), Value::Cons(y)) => ref_eq(x.car(), y.car()) && ref_eq(x.cdr(), y.cdr()),
        (Value::Vector(x), Value::Vector(y)) => x.len() == y.len() && x.iter().zip(y.iter()).all(|(p, q)| ref_eq(p, q)),
        _ => false,
    }
}
pub fn same(a: &Value, b: &Value) -> bool {
    enc_value_text(a) == enc_value_text(b)
}
fn same_opt(a: Option<&Value>, b: Option<&Value>) -> bool {
    match (a, b) { (Some(x), Some(y)) => same(x, y), (None, None) => true, _ => false }
}
fn same_vec(a: &[Value], b: &[Value]) -> bool {
    a.len() == b.len() && a.iter().zip(b.iter()).all(|(x, y)| same(x, y))
}

fn strip_pos(item: &str) -> String {
    // "err code l c" -> "err code"
    let t: Vec<&str> = item.split_whitespace().collect();
    if t.first() == Some(&"err") && t.len() >= 2 { format!("err {}", t[1]) } else { item.to_string() }
}

/// The text with every Emacs Lisp numeric escape (`\x` + hex digits, `\` + octal digits) whose value is 0x80..0xFF
/// replaced by the byte it denotes (other escapes, `\\` included, are copied).
fn inline_byte_escapes(data: &[u8], inline: bool) -> Vec<u8> {
    let mut out = Vec::with_capacity(data.len());
    let mut i = 0;
    while i < data.len() {
        if data[i] == b'\\' && i + 1 < data.len() {
            let c = data[i + 1];
            let (start, radix) = if c == b'x' { (i + 2, 16) } else if (b'0'..=b'7').contains(&c) { (i + 1, 8) } else { (0, 0) };
            if c == b' ' { i += 2; continue; }
            if radix != 0 {
                let mut j = start; let mut v: u32 = 0;
                while j < data.len() && (data[j] as char).to_digit(radix).is_some() && v < 0x10000 { v = v * radix + (data[j] as char).to_digit(radix).unwrap(); j += 1; }
                if inline && j > start && (0x80..=0xFF).contains(&v) { out.push(v as u8); i = j; continue; }
            }
            out.push(data[i]); out.push(c); i += 2; continue;
        }
        out.push(data[i]); i += 1;
    }
    out
}

fn strip_dat(item: &str) -> String {
    // "dat <value> @ <info>" -> "val <value>"
    if let Some(rest) = item.strip_prefix("dat ") {
        let v = rest.split(" @ ").next().unwrap();
        format!("val {}", v)
    } else {
        item.to_string()
    }
}

fn utf8_payloads_ok(res: &str) -> bool {
    res.split_whitespace().all(|t| {
        let b = t.as_bytes();
        if b.len() >= 1 && (b[0] == b'S' || b[0] == b'Y' || b[0] == b'K') && b[1..].iter().all(|c| c.is_ascii_hexdigit()) && b.len() % 2 == 1 {
            std::str::from_utf8(&unhex(&t[1..])).is_ok()
        } else {
            true
        }
    })
}

fn location_ok(data: &[u8], line: usize, col: usize) -> bool {
    let lines: Vec<&[u8]> = data.split(|b| *b == b'\n').collect();
    if line < 1 || line > lines.len() + 1 {
        return false;
    }
    let len = if line <= lines.len() { lines[line - 1].len() } else { 0 };
    col <= len + 1
}

/// The owned datum's own accessors are its Ref's: span, list_iter, vector_iter, value; converting it gives the value.
fn datum_api(dm: &lexpr::Datum, msgs: &mut Vec<String>) {
    let r = dm.as_ref();
    let same_span = dm.span() == r.span();
    let li = match (dm.list_iter(), r.list_iter()) { (Some(a), Some(b)) => a.map(|x| x.span()).eq(b.map(|x| x.span())), (None, None) => true, _ => false };
    let vi = match (dm.vector_iter(), r.vector_iter()) { (Some(a), Some(b)) => a.map(|x| x.span()).eq(b.map(|x| x.span())), (None, None) => true, _ => false };
    let conv = enc_value(&Value::from(dm.clone())) == enc_value(dm.value());
    if !(same_span && li && vi && conv) { msgs.push("FAIL C10 Datum::span / list_iter / vector_iter / into value differ from its Ref's".to_string()); }
}

fn ref_walk(r: lexpr::datum::Ref<'_>, data: &[u8], opts: lexpr::parse::Options, parent: Option<lexpr::datum::Span>, msgs: &mut Vec<String>, depth: usize) {
    let offs = |p: lexpr::parse::Position| -> Option<usize> {
        // (1-based line, 0-based byte column) -> byte offset
        let mut line = 1; let mut start = 0;
        for (i, b) in data.iter().enumerate() {
            if line == p.line() { break; }
            if *b == b'\n' { line += 1; start = i + 1; }
        }
        if line != p.line() { return None; }
        let o = start + p.column();
        // the position must lie inside its own line (at most one past its last byte)
        let line_end = data[start..].iter().position(|b| *b == b'\n').map_or(data.len(), |i| start + i);
        if o <= line_end { Some(o) } else { None }
    };
    let sp = r.span();
    let (a, b) = match (offs(sp.start()), offs(sp.end())) {
        (Some(a), Some(b)) => (a, b),
        _ => { msgs.push(format!("FAIL C11 span outside input {:?}", sp)); return; }
    };
    if a >= b { msgs.push(format!("FAIL C11 empty or inverted span {:?}", sp)); return; }
    if let Some(ps) = parent {
        if let (Some(pa), Some(pb)) = (offs(ps.start()), offs(ps.end())) {
            if a < pa || b > pb { msgs.push(format!("FAIL C11 span {:?} not inside parent {:?}", sp, ps)); }
        }
    }
    let shorthand = match &data[a..b] { b"'" => Some("quote"), b"`" => Some("quasiquote"), b"," => Some("unquote"), b",@" => Some("unquote-splicing"), _ => None };
    if shorthand.is_some() && r.value().as_symbol() == shorthand {
        return; // the head of a quote shorthand covers just the shorthand characters
    }
    match lexpr::from_slice_custom(&data[a..b], opts) {
        Ok(v) if same(&v, r.value()) => {}
        other => msgs.push(format!("FAIL C11 text of span {:?} = {:?} reparses to {:?}, datum value {:?}", sp, String::from_utf8_lossy(&data[a..b]), other.map(|v| v.to_string()), r.value().to_string())),
    }
    if depth > 40 { return; }
    let mut prev_end: Option<usize> = None;
    let mut visit = |sub: lexpr::datum::Ref<'_>, msgs: &mut Vec<String>| {
        if let (Some(sa), Some(sb)) = (offs(sub.span().start()), offs(sub.span().end())) {
            if let Some(pe) = prev_end { if sa < pe { msgs.push(format!("FAIL C11 sibling spans overlap at {:?}", sub.span())); } }
            prev_end = Some(sb);
        }
        ref_walk(sub, data, opts, Some(sp), msgs, depth + 1);
    };
    if let Some(it) = r.list_iter() {
        // the element iterator of the datum must expose what the value's own iterator exposes
        let subs: Vec<Option<lexpr::datum::Ref<'_>>> = { let mut v = Vec::new(); let mut it = it; let mut nones = 0; loop { match it.next() { Some(x) => v.push(Some(x)), None => { nones += 1; v.push(None); if nones >= 2 { break; } } } if v.len() > 10000 { break; } } v };
        let vals: Vec<Option<&Value>> = { let mut v = Vec::new(); let mut it = r.value().list_iter().unwrap(); let mut nones = 0; loop { match it.next() { Some(x) => v.push(Some(x)), None => { nones += 1; v.push(None); if nones >= 2 { break; } } } if v.len() > 10000 { break; } } v };
        let same = subs.len() == vals.len() && subs.iter().zip(vals.iter()).all(|(a, b)| match (a, b) { (Some(a), Some(b)) => a.value() == *b, (None, None) => true, _ => false });
        if !same { msgs.push("FAIL C10 datum list_iter differs from value list_iter".to_string()); }
        // peek / is_empty of the datum iterator against the value iterator, step by step
        {
            let (mut di, mut vi) = (r.list_iter().unwrap(), r.value().list_iter().unwrap());
            for _ in 0..subs.len().min(64) {
                let pk = di.peek().map(|x| enc_value(x.value()));
                if pk != vi.peek().map(enc_value) || di.is_empty() != vi.is_empty() {
                    msgs.push("FAIL C10 datum list iterator peek / is_empty differ from the value iterator".to_string());
                    break;
                }
                let nx = di.next().map(|x| enc_value(x.value()));
                if nx != vi.next().map(enc_value) { break; }
            }
        }
        // Ref derefs to the value; as_pair exposes car and cdr with their spans inside the parent
        if let Some((a, d)) = r.as_pair() {
            let ok = r.value().as_pair().map_or(false, |(va, vd)| a.value() == va && d.value() == vd) && std::ops::Deref::deref(&r) == r.value();
            if !ok { msgs.push("FAIL C10 datum as_pair / deref differ from the value's pair".to_string()); }
        }
        let is_quote_form = false;
        let _ = is_quote_form;
        for s in subs.into_iter().flatten() { visit(s, msgs); }
    } else if let Some(it) = r.vector_iter() {
        let subs: Vec<_> = it.collect();
        if subs.len() != r.value().as_slice().map_or(0, |s| s.len()) || !subs.iter().zip(r.value().as_slice().unwrap().iter()).all(|(a, b)| a.value() == b) {
            msgs.push("FAIL C10 datum vector_iter differs from value slice".to_string());
        }
        for s in subs { visit(s, msgs); }
    }
}

/// C05: exact-value oracle for a text that is a numeric literal of the documented grammar.
/// Returns None if the text is not such a literal.
pub fn numeric_oracle(text: &[u8], res: &str, fast: bool) -> Option<String> {
    let t = std::str::from_utf8(text).ok()?;
    let got_int: Option<i128> = {
        let f: Vec<&str> = res.split_whitespace().collect();
        if f.len() == 2 && f[0] == "val" && (f[1].starts_with('P') || f[1].starts_with('M')) { f[1][1..].parse::<i128>().ok() } else { None }
    };
    let got_float: Option<f64> = {
        let f: Vec<&str> = res.split_whitespace().collect();
        if f.len() == 2 && f[0] == "val" && f[1].starts_with('D') && f[1].len() == 17 { u64::from_str_radix(&f[1][1..], 16).ok().map(f64::from_bits) } else { None }
    };
    let is_oor = res.starts_with("err numberOutOfRange");
    let close = |want: f64, got: f64, tol: f64| -> bool {
        if want == got { return true; }
        if !got.is_finite() { return false; }
        (got - want).abs() <= tol * want.abs() + f64::from_bits(1)
    };
    // radix-prefixed integers
    let (radix, body) = if let Some(b) = t.strip_prefix("#b") { (2u32, b) } else if let Some(b) = t.strip_prefix("#o") { (8, b) } else if let Some(b) = t.strip_prefix("#x") { (16, b) } else if let Some(b) = t.strip_prefix("#d") { (10, b) } else { (0, t) };
    if radix != 0 && radix != 10 || (radix == 10 && !body.contains(|c| c == '.' || c == 'e' || c == 'E')) || (radix == 0 && !body.is_empty() && body.trim_start_matches(|c| c == '+' || c == '-').bytes().all(|b| b.is_ascii_digit())) {
        let radix = if radix == 0 { 10 } else { radix };
        let (neg, digits) = match body.as_bytes().first() { Some(b'-') => (true, &body[1..]), Some(b'+') => (false, &body[1..]), _ => (false, body) };
        if digits.is_empty() || !digits.chars().all(|c| c.is_digit(radix)) { return None; }
        if radix == 0 { return None; }
        if t.starts_with('+') || t.starts_with('-') { if digits.is_empty() { return None; } }
        let mut exact: Option<u128> = Some(0);
        let mut approx: f64 = 0.0;
        for c in digits.chars() {
            let d = c.to_digit(radix).unwrap();
            exact = exact.and_then(|x| x.checked_mul(radix as u128)).and_then(|x| x.checked_add(d as u128));
            approx = approx * radix as f64 + d as f64;
        }
        if let Some(x) = exact {
            let v: i128 = if neg { -(x as i128) } else { x as i128 };
            if x <= u64::MAX as u128 + 0 && v >= -(1i128 << 63) && v <= u64::MAX as i128 {
                // in range: exactly that integer ("-0" is 0)
                return if got_int == Some(v) { None } else { Some(format!("FAIL C05 integer literal {:?} = {} read as {}", t, v, res)) };
            }
        }
        // out of the 64-bit range: a float approximating the true value, or out of range
        let want = if radix == 10 { digits.parse::<f64>().unwrap_or(f64::INFINITY) } else { approx };
        let want = if neg { -want } else { want };
        if want.is_infinite() {
            return if is_oor { None } else { Some(format!("FAIL C05 literal {:?} exceeds the range of a double but read as {}", &t[..t.len().min(40)], &res[..res.len().min(60)])) };
        }
        return match got_float {
            Some(g) if close(want, g, if radix == 10 { 2f64.powi(-50) } else { 2f64.powi(-40) }) => None,
            _ => Some(format!("FAIL C05 over-long integer literal {:?}... (about {:e}) read as {}", &t[..t.len().min(40)], want, &res[..res.len().min(60)])),
        };
    }
    if radix != 0 && radix != 10 { return None; }
    // decimal with fraction and/or exponent
    let b = body.as_bytes();
    let mut i = 0;
    let neg = match b.first() { Some(b'-') => { i = 1; true } Some(b'+') => { i = 1; false } _ => false };
    let s0 = i;
    while i < b.len() && b[i].is_ascii_digit() { i += 1; }
    if i == s0 { return None; }
    let int_digits = &body[s0..i];
    let mut frac = "";
    if i < b.len() && b[i] == b'.' {
        let f0 = i + 1; i = f0;
        while i < b.len() && b[i].is_ascii_digit() { i += 1; }
        if i == f0 { return None; }
        frac = &body[f0..i];
    }
    let mut exp: i64 = 0;
    if i < b.len() && (b[i] == b'e' || b[i] == b'E') {
        i += 1;
        let mut eneg = false;
        if i < b.len() && (b[i] == b'+' || b[i] == b'-') { eneg = b[i] == b'-'; i += 1; }
        let e0 = i;
        while i < b.len() && b[i].is_ascii_digit() { i += 1; }
        if i == e0 { return None; }
        exp = body[e0..i].parse::<i64>().unwrap_or(i64::MAX / 4).min(1 << 40);
        if eneg { exp = -exp; }
    }
    if i != b.len() { return None; }
    if frac.is_empty() && !body.contains(|c| c == 'e' || c == 'E') { return None; }
    let want = match body.parse::<f64>() { Ok(f) => f, Err(_) => return None };
    let _ = neg;
    if want.is_infinite() {
        return if is_oor { None } else { Some(format!("FAIL C05 literal {:?} exceeds the range of a double but read as {}", &t[..t.len().min(40)], &res[..res.len().min(60)])) };
    }
    let g = match got_float { Some(g) => g, None => return Some(format!("FAIL C05 decimal literal {:?} read as {}", &t[..t.len().min(40)], &res[..res.len().min(60)])) };
    let frac_sig = frac.trim_end_matches('0');
    let sig_digits: String = format!("{}{}", int_digits, frac_sig).trim_start_matches('0').to_string();
    let e10 = exp - frac_sig.len() as i64;
    let sig_val: Option<u128> = if sig_digits.len() <= 38 { Some(sig_digits.parse::<u128>().unwrap_or(0)) } else { None };
    let exact_region = (sig_val.map_or(false, |v| v < (1u128 << 53)) && e10.abs() <= 22) || (!fast && sig_digits.len() <= 19);
    if exact_region {
        if g.to_bits() == want.to_bits() || (g == 0.0 && want == 0.0) { None } else { Some(format!("FAIL C05 literal {:?} must be correctly rounded: {:e} ({:016x}) but read as {:016x}", t, want, want.to_bits(), g.to_bits())) }
    } else if close(want, g, 2f64.powi(-50)) { None } else {
        Some(format!("FAIL C05 literal {:?}...: {:e} read as {:e} (relative error above 2^-50)", &t[..t.len().min(40)], want, g))
    }
}

/// Every convenience entry point is its `_custom` counterpart with `Options::default()` / `Options::elisp()`, `FromStr`
/// is `from_str`, and the `Parser` constructors and method aliases (`parse`, `parse_value`, `end`) are the documented
/// shorthands.  Returns the first disagreement.
pub fn entry_points_disagree(data: &[u8], elisp: bool) -> Option<String> {
    use crate::ops::{item_datum, item_value};
    use lexpr::parse::{Options, Parser};
    let o = || if elisp { Options::elisp() } else { Options::default() };
    let iv = |r: Result<Value, lexpr::parse::Error>| item_value(r.map(Some));
    let id = |r: Result<lexpr::Datum, lexpr::parse::Error>| item_datum(r.map(Some));
    let mut pairs: Vec<(&str, String, String)> = Vec::new();
    let st = std::str::from_utf8(data).ok();
    if elisp {
        pairs.push(("from_slice_elisp", iv(lexpr::parse::from_slice_elisp(data)), iv(lexpr::from_slice_custom(data, o()))));
        pairs.push(("from_reader_elisp", iv(lexpr::parse::from_reader_elisp(data)), iv(lexpr::from_reader_custom(data, o()))));
        pairs.push(("datum::from_slice_elisp", id(lexpr::datum::from_slice_elisp(data)), id(lexpr::datum::from_slice_custom(data, o()))));
        pairs.push(("datum::from_reader_elisp", id(lexpr::datum::from_reader_elisp(data)), id(lexpr::datum::from_reader_custom(data, o()))));
        if let Some(t) = st {
            pairs.push(("from_str_elisp", iv(lexpr::parse::from_str_elisp(t)), iv(lexpr::from_str_custom(t, o()))));
            pairs.push(("datum::from_str_elisp", id(lexpr::datum::from_str_elisp(t)), id(lexpr::datum::from_str_custom(t, o()))));
        }
    } else {
        pairs.push(("from_slice", iv(lexpr::from_slice(data)), iv(lexpr::from_slice_custom(data, o()))));
        pairs.push(("from_reader", iv(lexpr::from_reader(data)), iv(lexpr::from_reader_custom(data, o()))));
        pairs.push(("datum::from_slice", id(lexpr::datum::from_slice(data)), id(lexpr::datum::from_slice_custom(data, o()))));
        pairs.push(("datum::from_reader", id(lexpr::datum::from_reader(data)), id(lexpr::datum::from_reader_custom(data, o()))));
        if let Some(t) = st {
            pairs.push(("from_str", iv(lexpr::from_str(t)), iv(lexpr::from_str_custom(t, o()))));
            pairs.push(("FromStr", iv(t.parse::<Value>()), iv(lexpr::from_str_custom(t, o()))));
            pairs.push(("datum::from_str", id(lexpr::datum::from_str(t)), id(lexpr::datum::from_str_custom(t, o()))));
            // Parser::from_str + parse_value + end  =  from_str
            let mut p = Parser::from_str(t);
            let r = p.parse_value().and_then(|v| p.end().map(|_| v));
            pairs.push(("Parser::from_str/parse_value/end", iv(r), iv(lexpr::from_str_custom(t, o()))));
        }
        let mut p = Parser::from_slice(data);
        let r = p.expect_value().and_then(|v| p.expect_end().map(|_| v));
        pairs.push(("Parser::from_slice/expect_value/expect_end", iv(r), iv(lexpr::from_slice_custom(data, o()))));
        let mut p1 = Parser::from_reader(data);
        let mut p2 = Parser::from_reader_custom(data, o());
        pairs.push(("Parser::from_reader/parse", item_value(p1.parse()), item_value(p2.next_value())));
        pairs.push(("Parser::from_reader/parse (second call)", item_value(p1.parse()), item_value(p2.next_value())));
    }
    pairs.into_iter().find(|(_, a, b)| a != b).map(|(n, a, b)| format!("{}: {} vs the custom entry point {}", n, a, b))
}

/// The numeric-literal grammar of C05: optional radix prefix, optional sign, digits of the radix, and for
/// decimal literals an optional fraction and exponent.
pub fn is_numeric_literal(t: &str) -> bool {
    let (radix, body) = if let Some(b) = t.strip_prefix("#b") { (2u32, b) } else if let Some(b) = t.strip_prefix("#o") { (8, b) } else if let Some(b) = t.strip_prefix("#x") { (16, b) } else if let Some(b) = t.strip_prefix("#d") { (10, b) } else { (10, t) };
    let body = body.strip_prefix(|c| c == '+' || c == '-').unwrap_or(body);
    let b = body.as_bytes();
    let mut i = 0;
    while i < b.len() && (b[i] as char).is_digit(radix) { i += 1; }
    if i == 0 { return false; }
    if radix != 10 { return i == b.len(); }
    if i < b.len() && b[i] == b'.' {
        i += 1;
        let f0 = i;
        while i < b.len() && b[i].is_ascii_digit() { i += 1; }
        if i == f0 { return false; }
    }
    if i < b.len() && (b[i] == b'e' || b[i] == b'E') {
        i += 1;
        if i < b.len() && (b[i] == b'+' || b[i] == b'-') { i += 1; }
        let e0 = i;
        while i < b.len() && b[i].is_ascii_digit() { i += 1; }
        if i == e0 { return false; }
    }
    i == b.len()
}

/// C08: what a whole token at top level must read as, written from the option documentation.
/// `None` = no expectation encoded here (the token is left to the correspondence).
pub fn classify(tok: &str, r: &str) -> Option<String> {
    let sym = |s: &str| format!("val Y{}", hex(s.as_bytes()));
    let kw = |s: &str| format!("val K{}", hex(s.as_bytes()));
    let (kpre, kpost, koct) = (d(r, 0) == 1, d(r, 1) == 1, d(r, 2) == 1);
    // the quote shorthands always expand to two-element lists, in the order written, at any nesting
    for (sh, name) in [(",@", "unquote-splicing"), ("'", "quote"), ("`", "quasiquote"), (",", "unquote")] {
        if let Some(rest) = tok.strip_prefix(sh) {
            if rest.is_empty() { return None; }
            let inner = classify(rest, r)?;
            if !inner.starts_with("val ") { return None; }
            return Some(format!("val c Y{} c {} U", hex(name.as_bytes()), &inner[4..]));
        }
    }
    Some(match tok {
        "nil" => match d(r, 3) { 1 => sym("nil"), 0 => "val U".into(), _ => "val N".into() },
        "t" => if d(r, 4) == 1 { sym("t") } else { "val T".into() },
        "nilx" | "tt" | "T" | "NIL" | "a" | "ab" | "$x" | "..." | "a.b" | "nil.t" => sym(tok),
        // `"` and `|` do not end a symbol: these are single symbols whatever nil and t mean
        "t|" | "t\"a\"" | "nil|" | "nil\"a\"" | "t|x" | "tt|" => sym(tok),
        "nil:" | "a:" | "$x:" | "12:" | "x:y" | "a::" => {
            if tok == "12:" { return None; }
            if tok == "x:y" { return Some(sym(tok)); }
            if kpost { kw(&tok[..tok.len() - 1]) } else { sym(tok) }
        }
        "+.a:" | "-.foo:" | "+..:" | "-.:" | "-a:" | "+a:" | "...:" | "..a:" | ".a:" | "λ:" | "+:" | "-:" => if kpost { kw(&tok[..tok.len() - 1]) } else { sym(tok) },
        "+.a" | ".a" | "λ" => sym(tok),
        // a token is a number only if the whole token is one: a digit-initial token running into `#`
        // is a symbol with leading-digit symbols and an error otherwise; never a number and a boolean
        "1#t" => if d(r, 9) == 1 { sym(tok) } else { "ERR".into() },
        "#x1F#t" => "ERR".into(),
        ":a" => if kpre { kw("a") } else { sym(":a") },
        "#:a" => if koct { kw("a") } else { return None },
        "#:a:" => if koct { kw("a:") } else { return None },
        "?a" => if d(r, 7) == 1 { "val C61".into() } else { sym("?a") },
        "#%a" => if d(r, 8) == 1 { sym("#%a") } else { return None },
        "1" => "val P1".into(),
        "12" => "val P12".into(),
        "-1" => "val M-1".into(),
        "+1" => "val P1".into(),
        "1a" | "1+" | "1-" | "1/2" | "1.5.6" | "0x10" | "12ab" => if d(r, 9) == 1 { sym(tok) } else { return None },
        "-" | "+" | "-a" => sym(tok),
        "#t" => "val T".into(),
        "#f" => "val F".into(),
        "#nil" => "val N".into(),
        "()" => "val U".into(),
        "'a" => format!("val c Y{} c Y61 U", hex(b"quote")),
        "`a" => format!("val c Y{} c Y61 U", hex(b"quasiquote")),
        ",a" => format!("val c Y{} c Y61 U", hex(b"unquote")),
        ",@a" => format!("val c Y{} c Y61 U", hex(b"unquote-splicing")),
        "'nil" => format!("val c Y{} c {} U", hex(b"quote"), &classify("nil", r)?[4..]),
        "'t" => format!("val c Y{} c {} U", hex(b"quote"), &classify("t", r)?[4..]),
        "(a)" => "val c Y61 U".into(),
        "[a]" => if d(r, 5) == 0 { "val c Y61 U".into() } else { "val V1 Y61".into() },
        "[]" => if d(r, 5) == 0 { "val U".into() } else { "val V0".into() },
        "#(a)" => "val V1 Y61".into(),
        _ => return None,
    })
}

pub fn check(line: &str, res: &str) -> Vec<String> {
    let t: Vec<&str> = line.split_whitespace().collect();
    let mut m: Vec<String> = Vec::new();
    if t.is_empty() { return m; }
    if res == "PANIC" { m.push("FAIL C03 harness-level panic".into()); return m; }
    // C19, conversion clause: recorded while the operation itself ran (codec::err_item)
    if let Some(k) = crate::codec::KIND_FAIL.lock().unwrap().take() {
        m.push(format!("FAIL C19 conversion to std::io::Error: {}", k));
    }
    if let Some(k) = crate::ops::COHERENCE_FAIL.lock().unwrap().take() {
        m.push(format!("FAIL C20 a number returned by the parser is not coherent: {}", k));
    }
    let m = check_inner(line, res, &t, m);
    crate::codec::KIND_FAIL.lock().unwrap().take(); // re-executions inside the oracle do not count
    crate::ops::COHERENCE_FAIL.lock().unwrap().take();
    m
}

fn check_inner(line: &str, res: &str, t: &[&str], mut m: Vec<String>) -> Vec<String> {
    match t[0] {
        "print" => {
            if res.starts_with("ok ") {
                let f: Vec<&str> = res.split_whitespace().collect();
                if f.len() >= 3 && f[2].contains('W') {
                    m.push(format!("FAIL C07 bytes emitted through write instead of write_all: {}", f[2]));
                    m.push(format!("FAIL C01 the io writer entry point emits bytes through write ({}): a conforming short-writing sink receives a text that does not read back", f[2]));
                }
                let bytes = unhex(f.get(1).copied().unwrap_or(""));
                if std::str::from_utf8(&bytes).is_err() { m.push("FAIL C17 printed text is not valid UTF-8".into()); }
                let mut it = t[2..].iter().copied();
                let v = dec_value(&mut it);
                if t[1] == "D" {
                    let c = lexpr::to_vec_custom(&v, lexpr::print::Options::default()).unwrap();
                    if c != bytes { m.push("FAIL C07 default printer and customised printer with default options differ".into()); }
                    let s = lexpr::to_string(&v).unwrap();
                    if s.as_bytes() != &bytes[..] || lexpr::to_vec(&v).unwrap() != bytes { m.push("FAIL C07 to_string/to_vec differ from to_writer".into()); }
                    if std::str::from_utf8(s.as_bytes()).is_err() { m.push("FAIL C17 to_string returned invalid UTF-8".into()); }
                    let disp = std::panic::catch_unwind(std::panic::AssertUnwindSafe(|| format!("{}", v)));
                    match disp { Ok(dsp) => if dsp.as_bytes() != &bytes[..] { m.push("FAIL C01 Display differs from to_writer".into()); }, Err(_) => m.push("FAIL C01 Display failed".into()) }
                } else {
                    let s = lexpr::to_string_custom(&v, print_opts(t[1])).unwrap();
                    if s.as_bytes() != &bytes[..] {
                        m.push("FAIL C07 to_string_custom differs from to_writer_custom".into());
                        m.push(format!("FAIL C17 the String returned by the printer ({:?}) is not identical to the bytes written to a sink ({:?})", s, String::from_utf8_lossy(&bytes)));
                    }
                    if lexpr::to_vec_custom(&v, print_opts(t[1])).unwrap() != bytes { m.push("FAIL C07 to_vec_custom differs from to_writer_custom".into()); }
                    if std::str::from_utf8(s.as_bytes()).is_err() { m.push("FAIL C17 to_string_custom returned invalid UTF-8".into()); }
                }
            } else {
                m.push(format!("FAIL C07 print to an all-accepting sink did not succeed: {}", res));
            }
        }
        "sink" => {
            let mut it = t[3..].iter().copied();
            let v = dec_value(&mut it);
            let full = if t[1] == "D" { lexpr::to_vec(&v).unwrap() } else { lexpr::to_vec_custom(&v, print_opts(t[1])).unwrap() };
            let f: Vec<&str> = res.split_whitespace().collect();
            let got = unhex(f.get(1).copied().unwrap_or(""));
            if !full.starts_with(&got) { m.push("FAIL C07 delivered bytes are not a prefix of the printed text".into()); }
            let sched = parse_sched(t[2]);
            let stop = [sched.fail_at, sched.zero_at].iter().flatten().min().copied();
            let once = [sched.fail_once, sched.zero_once].iter().flatten().min().copied();
            let can_fail = stop.map_or(false, |n| n < full.len()) || once.map_or(false, |n| n < full.len());
            if let Some(n) = once {
                // a refused write is an error of the print call, and nothing may be sent after it
                let first = stop.map_or(n, |s| s.min(n));
                if n < full.len() && (f[0] != "err" || got.len() != first) { m.push(format!("FAIL C07 sink refuses one write at offset {}: result {} with {} bytes delivered", n, f[0], got.len())); }
            }
            if let Some(n) = stop {
                if n < full.len() && (f[0] != "err" || got.len() != n) { m.push(format!("FAIL C07 sink stops at offset {}: result {} with {} bytes delivered", n, f[0], got.len())); }
            }
            if f[0] == "ok" && got != full { m.push(format!("FAIL C07 print returned Ok but delivered {} of {} bytes", got.len(), full.len())); }
            if f[0] == "err" && !can_fail { m.push("FAIL C07 print failed although the sink never failed".into()); }
            if f[0] == "panic" { m.push("FAIL C07 print panicked".into()); }
            // the same sink behaviour through the other routes to a writer:
            //  * `write!(sink, "{}", value)` (Display) with the default options,
            //  * a `Printer` object that is used again after the call: a second print on it delivers exactly the text
            //    of the second value (after what the first call delivered) whatever happened to the first.
            let mk = || crate::ops::SchedSink { sched: parse_sched(t[2]), got: vec![], last_intr: None, calls: 0, tripped: false };
            if t[1] == "D" {
                let mut sk = mk();
                let r = std::panic::catch_unwind(std::panic::AssertUnwindSafe(|| { use std::io::Write; write!(&mut sk, "{}", v) }));
                match r {
                    Ok(r) => {
                        if r.is_ok() != (f[0] == "ok") || sk.got != got { m.push(format!("FAIL C07 Display to the same sink: {} with {} bytes, to_writer: {} with {} bytes", if r.is_ok() { "ok" } else { "err" }, sk.got.len(), f[0], got.len())); }
                    }
                    Err(_) => m.push("FAIL C07 Display to a sink panicked".into()),
                }
            }
            for second in [Value::list(vec![Value::string("second \"attempt\""), Value::from(42), Value::keyword("k"), Value::from(vec![7u8, 8])]), Value::symbol("bar"), Value::from(7)] {
                let mut sk = mk();
                let r = std::panic::catch_unwind(std::panic::AssertUnwindSafe(|| {
                    fn twice<W: std::io::Write, F: lexpr::print::Formatter>(mut pr: lexpr::Printer<W, F>, a: &Value, b: &Value) -> (bool, bool) {
                        let r1 = pr.print(a);
                        let r2 = pr.print(b);
                        (r1.is_ok(), r2.is_ok())
                    }
                    if t[1] == "D" { twice(lexpr::Printer::new(&mut sk), &v, &second) } else { twice(lexpr::Printer::with_options(&mut sk, print_opts(t[1])), &v, &second) }
                }));
                if let Ok((ok1, ok2)) = r {
                    let want2 = if t[1] == "D" { lexpr::to_vec(&second).unwrap() } else { lexpr::to_vec_custom(&second, print_opts(t[1])).unwrap() };
                    if ok1 != (f[0] == "ok") || !sk.got.starts_with(&got) { m.push("FAIL C07 first print on a reusable Printer differs from to_writer".into()); }
                    else {
                        let rest = &sk.got[got.len()..];
                        if !want2.starts_with(rest) || (ok2 && rest != &want2[..]) { m.push(format!("FAIL C07 a Printer used again after a {} print delivers {:?} for the next value instead of (a prefix of) {:?}", if ok1 { "successful" } else { "failed" }, String::from_utf8_lossy(rest), String::from_utf8_lossy(&want2))); }
                    }
                } else { m.push("FAIL C07 reusing a Printer panicked".into()); }
            }
        }
        "sens" => {
            // "each parser option changes the reading of exactly the tokens it names and nothing else": an option the
            // outcome is sensitive to must be named by something in the text (necessary conditions, from the
            // option documentation; the model side checks the exact `exercised` set of the frame theorem)
            let data = unhex(t[3]);
            let bits = res.split_whitespace().next().unwrap_or("").as_bytes().to_vec();
            let has = |pat: &[u8]| data.windows(pat.len()).any(|w| w == pat);
            let starts_token = |i: usize| i == 0 || matches!(data[i - 1], b' ' | b'\t' | b'\n' | b'\r' | 0x0c | b'(' | b')' | b'[' | b']' | b'"' | b';' | b'\'' | b'`' | b',' | b'@' | b'|');
            let digit_initial = (0..data.len()).any(|i| data[i].is_ascii_digit() && starts_token(i));
            let named: [(usize, bool, &str); 10] = [
                (0, has(b":"), "colon-prefix keywords (no ':' in the input)"), (1, has(b":"), "colon-postfix keywords (no ':' in the input)"),
                (2, has(b"#:"), "#: keywords (no '#:' in the input)"), (3, has(b"nil"), "the nil option (no 'nil' in the input)"),
                (4, has(b"t"), "the t option (no 't' in the input)"), (5, has(b"[") || has(b"]"), "the bracket option (no bracket in the input)"),
                (6, has(b"\""), "the string syntax (no '\"' in the input)"), (7, has(b"?"), "the character syntax (no '?' in the input)"),
                (8, has(b"#%"), "the Racket #% option (no '#%' in the input)"), (9, digit_initial, "leading-digit symbols (no digit-initial token in the input)"),
            ];
            if bits.len() == 10 {
                for (i, present, what) in named.iter() {
                    if bits[*i] == b'1' && !present {
                        m.push(format!("FAIL C08 the reading of {:?} under options {} changes with {}", String::from_utf8_lossy(&data), t[2], what));
                    }
                }
            }
        }
        "rt" => {
            let (p, r, fast) = (t[1], t[2], t[3] == "1");
            let mut it = t[4..].iter().copied();
            let v = dec_value(&mut it);
            if compatible(p, r) && plain_for(p, r, &v) && nesting(&v) < 128 {
                let want = fold(p, r, &v);
                let prop = if p == P_DEFAULT && r == R_DEFAULT { "C01" } else { "C02" };
                let text = lexpr::to_vec_custom(&v, print_opts(p)).unwrap();
                match lexpr::from_slice_custom(&text, parse_opts(r)) {
                    Ok(got) => if !values_match(&want, &got, fast) {
                        m.push(format!("FAIL {} round trip: printed {:?} read back as {} expected {}", prop, String::from_utf8_lossy(&text), enc_value(&got), enc_value(&want)));
                    },
                    Err(e) => m.push(format!("FAIL {} round trip: printed {:?} rejected: {}", prop, String::from_utf8_lossy(&text), e)),
                }
                if prop == "C01" {
                    let s = std::str::from_utf8(&text).unwrap();
                    let a = lexpr::from_str(s).ok(); let b = lexpr::from_reader(&text[..]).ok(); let c = s.parse::<Value>().ok(); let d0 = lexpr::from_slice(&text).ok();
                    if a != d0 || b != d0 || c != d0 { m.push("FAIL C01 parse entry points disagree".into()); }
                    // the io reader entry point on streams that deliver the text in pieces (short reads, Interrupted, BufReader)
                    for src in ["i1", "i3", "j2", "I5", "i4096"] {
                        let r2 = lexpr::from_reader(crate::ops::make_reader(src, &text)).ok();
                        if r2 != d0 { m.push(format!("FAIL C01 from_reader on a stream delivering the printed text in pieces ({}) differs from from_slice", src)); break; }
                    }
                    if let Some(dis) = entry_points_disagree(&text, false) { m.push(format!("FAIL C01 entry points disagree: {}", dis)); }
                }
            }
        }
        "parse" if t[2].starts_with('y') => {
            // A stream that reports one read error (WouldBlock) after k bytes and then delivers the rest, with the
            // caller retrying on the same parser.  Not representable in the model; checked here directly:
            // no panic, the read error surfaces as an I/O item, what was returned before it is what the
            // fault-free stream returns, error locations stay inside the input, strings are UTF-8, and every
            // datum returned before or after the failed call has spans that delimit its text (C11).
            let (src, ro, api) = (t[2], t[3], t[4]);
            let data = if t.len() > 5 { unhex(t[5]) } else { vec![] };
            let k: usize = src[1..].parse().unwrap_or(0);
            crate::ops::FAULT_HIT.store(false, std::sync::atomic::Ordering::SeqCst);
            let tres = crate::ops::exec_parse_transient(&t);
            let hit = crate::ops::FAULT_HIT.load(std::sync::atomic::Ordering::SeqCst);
            let items: Vec<&str> = tres.split(" | ").collect();
            if items.iter().any(|i| *i == "panic") { m.push("FAIL C03 parser panicked on a stream that failed once and recovered".into()); }
            if !utf8_payloads_ok(&tres) { m.push("FAIL C17 a parsed string/symbol/keyword is not valid UTF-8".into()); }
            for it in &items {
                let f: Vec<&str> = it.split_whitespace().collect();
                if f.first() == Some(&"err") && f.len() == 4 {
                    let (l, c): (usize, usize) = (f[2].parse().unwrap(), f[3].parse().unwrap());
                    if !location_ok(&data, l, c) { m.push(format!("FAIL C19 error location {}:{} outside the input", l, c)); }
                }
            }
            let fres = crate::ops::exec(&line.replacen(&format!(" {} ", src), " i5 ", 1));
            // a failed read delivers no byte: when the read fails BETWEEN two items (nothing consumed yet, or the bytes
            // delivered so far end in white space outside a comment and are, on their own, a sequence of complete
            // items), every item apart from the I/O item itself is the item the stream that never fails returns, with
            // the same position / spans.  (A read that fails inside a token or a list makes the parser abandon what it
            // had consumed; the items after that are other items - `#` lost from `#:k` leaves the keyword `:k`.)
            {
                let kk = k.min(data.len());
                let between = kk == 0 || ({
                    let pre = &data[..kk];
                    let last = pre[kk - 1];
                    (last == b'\n' || (last == b' ' && !pre.contains(&b';')))
                        && !crate::ops::exec(&format!("parse {} i5 {} {} {}", t[1], ro, api, hex(pre))).split(" | ").any(|i| i.starts_with("err") || i == "panic" || i == "io")
                });
                let ff: Vec<&str> = fres.split(" | ").collect();
                let xx: Vec<&str> = items.iter().copied().filter(|i| *i != "io").collect();
                let trim = |v: &[&str]| -> Vec<String> { let mut w: Vec<String> = v.iter().map(|s| s.to_string()).collect(); while w.last().map_or(false, |s| s == "none") { w.pop(); } w };
                let (xt, ft) = (trim(&xx), trim(&ff));
                let same_calls = api.starts_with("h:") && { let c: Vec<char> = api[2..].chars().collect(); c.iter().all(|x| *x == c[0]) };
                let nn = xt.len().min(ft.len());
                if hit && between && same_calls && (xt[..nn] != ft[..nn] || xt.len() + 1 < ft.len() || xt.len() > ft.len()) && !items.iter().any(|i| *i == "panic") {
                    m.push(format!("FAIL C19 after a failed read between two items, the items differ from the fault-free stream: {:?} vs {:?}", xt, ft));
                    m.push("FAIL C11 after a failed read between two items, spans differ from the fault-free stream".into());
                }
            }
            let fi: Vec<String> = fres.split(" | ").map(strip_pos).collect();
            let xi: Vec<String> = items.iter().map(|s| strip_pos(s)).collect();
            let strip = |v: &[String]| -> Vec<String> { v.iter().map(|s| strip_dat(s)).collect() };
            match xi.iter().position(|i| i == "io") {
                Some(p) => {
                    if !hit { m.push("FAIL C06 I/O error reported although the reader never failed".into()); }
                    if p > fi.len() || strip(&xi[..p]) != strip(&fi[..p]) { m.push(format!("FAIL C06 items before the read error differ from the fault-free run: {:?} vs {:?}", xi, fi)); }
                }
                None => {
                    if hit && k < data.len() && strip(&xi) != strip(&fi) { m.push("FAIL C06 a read error was swallowed: the reader failed but no I/O error was reported".into()); }
                }
            }
            let opts = parse_opts(ro);
            let mut p = lexpr::Parser::from_reader_custom(crate::ops::make_reader(src, &data), opts);
            for _ in 0..api.len() {
                match std::panic::catch_unwind(std::panic::AssertUnwindSafe(|| p.next_datum())) {
                    Ok(Ok(Some(dm))) => { if nesting(dm.value()) < 60 { datum_api(&dm, &mut m); ref_walk(dm.as_ref(), &data, opts, None, &mut m, 0); } }
                    Ok(Ok(None)) => break,
                    Ok(Err(_)) => {}
                    Err(_) => break,
                }
            }
        }
        "parse" => {
            let (src, ro, api) = (t[2], t[3], t[4]);
            let data = if t.len() > 5 { unhex(t[5]) } else { vec![] };
            let items: Vec<&str> = res.split(" | ").collect();
            if items.iter().any(|i| *i == "panic") { m.push("FAIL C03 parser panicked".into()); }
            if !utf8_payloads_ok(res) { m.push("FAIL C17 a parsed string/symbol/keyword is not valid UTF-8".into()); }
            // bytes that are not UTF-8 can only stand inside a string, a symbol, a character or a comment: without a
            // comment in the input, a byte source must answer with an error somewhere (or with Emacs unibyte bytes)
            if src != "s" && std::str::from_utf8(&data).is_err() && !data.contains(&b';') && !items.is_empty()
                && (items.last() == Some(&"none") || api == "v1" || api == "d1")      // the whole input was read
                && items.iter().all(|i| i.starts_with("val ") || i.starts_with("dat ") || *i == "none") && !res.contains(" X") && !res.contains(" B") {
                // one recorded class has its own tag: under the Emacs Lisp string syntax a numeric escape \xHH / \ooo with a
                // value of 0x80..0xFF pushes that byte and the escaped blank `\ ` pushes nothing, so either can join an
                // ill-formed raw sequence to what completes it (exactly the exceptions `hi` and `bl` of the Lean theorem
                // C17_elisp_input_clause); recognised by the input being valid UTF-8 once those escapes are replaced
                // by what they denote
                // (an input that becomes valid by dropping escaped blanks ALONE is the defect repaired by /repo 0dbf569, not
                // the recorded finding: it gets no tag and is reported if it ever returns)
                let class = if ro.as_bytes()[6] == b'1' && std::str::from_utf8(&inline_byte_escapes(&data, true)).is_ok() && std::str::from_utf8(&inline_byte_escapes(&data, false)).is_err() { "[escape joins an ill-formed sequence] " } else { "" };
                m.push(format!("FAIL C17 {}input that is not valid UTF-8 was accepted without an error: {}", class, res.chars().take(120).collect::<String>()));
            }
            for it in &items {
                let body = if let Some(b) = it.strip_prefix("val ") { Some(b.to_string()) } else if it.starts_with("dat ") { Some(strip_dat(it)[4..].to_string()) } else { None };
                if let Some(body) = body {
                    let v = dec_value(&mut body.split_whitespace());
                    // "input nested more deeply than the documented limit … is rejected"
                    if nesting(&v) > 128 { m.push(format!("FAIL C03 the parser returned a value nested {} levels deep", nesting(&v))); }
                    // every number a parser returns is in normal form: the accessors and comparisons see the integer it is
                    if let Some(bad) = incoherent_number(&v) { m.push(format!("FAIL C20 a parsed number is not coherent: {}", bad)); }
                }
            }
            for it in &items {
                let f: Vec<&str> = it.split_whitespace().collect();
                if f.first() == Some(&"err") && f.len() == 4 {
                    let (l, c): (usize, usize) = (f[2].parse().unwrap(), f[3].parse().unwrap());
                    if !location_ok(&data, l, c) { m.push(format!("FAIL C19 error location {}:{} outside the input", l, c)); }
                }
            }
            // C03: "nesting of at least 100 levels is accepted" — whatever one parser has read before (errors
            // included), an input that never nests deeper than 100 must not hit the recursion limit.  The bound
            // below over-approximates the nesting (shorthands are never closed, closers only lower it), so the
            // rule is applied only where it is certain; texts with strings, comments or escapes are left out.
            if res.contains("recursionLimitExceeded") && !data.iter().any(|b| matches!(b, b'"' | b';' | b'\\' | b'|')) {
                let (mut dep, mut maxd) = (0usize, 0usize);
                for (i, b) in data.iter().enumerate() {
                    match b {
                        b'(' | b'[' | b'\'' | b'`' | b',' => { dep += 1; maxd = maxd.max(dep); }
                        b')' | b']' => dep = dep.saturating_sub(1),
                        _ => {}
                    }
                    let _ = i;
                }
                if maxd <= 100 { m.push(format!("FAIL C03 input nested at most {} levels is rejected with recursionLimitExceeded", maxd)); }
            }
            if src == "b" && (api == "r:v:6" || api == "r:d:6") {
                // C08: whole tokens alone at top level (the bare position of the token family)
                if let Ok(text) = std::str::from_utf8(&data) {
                    // "a token is read as a number only if the whole token is a numeric literal": an input without
                    // trivia that is read as exactly one number and nothing else must be such a literal
                    let first = strip_dat(items[0]);
                    let ff: Vec<&str> = first.split_whitespace().collect();
                    let one_number = ff.len() == 2 && ff[0] == "val" && matches!(ff[1].as_bytes()[0], b'P' | b'M' | b'D') && items.get(1) == Some(&"none") && items.len() == 2;
                    if one_number && !text.bytes().any(|b| b.is_ascii_whitespace() || b == b';') && !is_numeric_literal(text) {
                        m.push(format!("FAIL C08 token {:?} under options {} is not a numeric literal as a whole but reads as the number {}", text, ro, res));
                    }
                    if let Some(want) = classify(text, ro) {
                        let first = strip_dat(items[0]);
                        if want == "ERR" {
                            if !first.starts_with("err ") { m.push(format!("FAIL C08 token {:?} under options {} must be rejected but reads as {}", text, ro, res)); }
                        } else if first.trim_end() != want || items.get(1) != Some(&"none") {
                            m.push(format!("FAIL C08 token {:?} under options {} must read as {} but reads as {}", text, ro, want, res));
                        }
                    }
                }
            }
            // a numeric literal denotes its value under EVERY option set (no option names numeric literals)
            if api == "v1" && src == "b" {
                if let Some(msg) = numeric_oracle(&data, res, t[1] == "1") {
                    // with leading-digit symbols a digit-initial literal too large for a double is read as a symbol
                    // rather than rejected (the option says digit-initial tokens may be symbols): not C05's business
                    let symbol_instead_of_range_error = d(ro, 9) == 1 && msg.contains("exceeds the range of a double") && res.starts_with("val Y");
                    if !symbol_instead_of_range_error { m.push(if ro == R_DEFAULT { msg } else { format!("{} (options {})", msg, ro) }); }
                }
            }
            if (api == "v1" || api == "d1") && src == "b" && (ro == R_DEFAULT || ro == R_ELISP) {
                if let Some(d) = entry_points_disagree(&data, ro == R_ELISP) {
                    for p in ["C01", "C02", "C06", "C10"] { m.push(format!("FAIL {} entry points disagree: {}", p, d)); }
                }
            }
            if api.starts_with("r:") {
                let n_items = items.iter().filter(|i| **i != "none").count();
                let cap: usize = api.rsplit(':').next().unwrap().parse().unwrap();
                if cap > data.len() + 1 && (n_items > data.len() + 1 || items.last() != Some(&"none")) && !items.iter().any(|i| *i == "io" || *i == "panic") {
                    m.push(format!("FAIL C12 iteration yielded {} items on {} bytes without ending", n_items, data.len()));
                }
            }
            // C06: other sources agree with the slice source
            if src != "b" {
                crate::ops::FAULT_HIT.store(false, std::sync::atomic::Ordering::SeqCst);
                let _ = crate::ops::exec(line);
                let hit = crate::ops::FAULT_HIT.load(std::sync::atomic::Ordering::SeqCst);
                let bline = line.replacen(&format!(" {} ", src), " b ", 1);
                let bres = crate::ops::exec(&bline);
                let bi: Vec<String> = bres.split(" | ").map(strip_pos).collect();
                let xi: Vec<String> = items.iter().map(|s| strip_pos(s)).collect();
                let is_fault = src.starts_with('x') || src.starts_with('X') || src.starts_with('w');
                if !is_fault || !hit {
                    if is_fault && xi.iter().any(|i| i == "io") { m.push("FAIL C06 I/O error reported although the reader never failed".into()); }
                    let cmp_b: Vec<String> = if src == "s" || !api.contains('d') && !api.contains('j') && !api.contains('D') { bi.clone() } else { bi.iter().map(|s| s.clone()).collect() };
                    let strip_spans = |v: &Vec<String>| -> Vec<String> { v.iter().map(|s| strip_dat(s)).collect() };
                    if strip_spans(&cmp_b) != strip_spans(&xi) { m.push(format!("FAIL C06 source {} disagrees with slice: {:?} vs {:?}", src, xi, bi)); }
                    if src == "s" || src.starts_with('i') || src.starts_with('I') || src.starts_with('j') || src.starts_with('J') {
                        // C11: spans identical across sources
                        let with_pos = |s: &str| -> Vec<String> { s.split(" | ").filter(|i| i.starts_with("dat ")).map(|i| i.to_string()).collect() };
                        if with_pos(&bres) != with_pos(res) { m.push(format!("FAIL C11 spans differ between source {} and slice", src)); }
                    }
                } else {
                    match xi.iter().position(|i| i == "io") {
                        None => {
                            // A read may fail after the delivered bytes have already determined the outcome
                            // (the enclosing levels' end_seq keeps reading after an inner syntax error, and
                            // the first error wins).  That is what the property allows, but only if the
                            // outcome is the fault-free one and is a syntax error other than end of input.
                            let strip = |v: &[String]| -> Vec<String> { v.iter().map(|s| strip_dat(s)).collect() };
                            // (An end-of-input category error counts as determined when the fault-free run reports it at a
                            // position before the end of the data: there it cannot come from the input ending — `#\x41\`
                            // is "EOF while parsing a character constant" whatever follows the second backslash.)
                            let before_end = |l: &str| -> bool {
                                let f: Vec<&str> = l.split_whitespace().collect();
                                if f.len() != 4 { return false; }
                                match (f[2].parse::<usize>(), f[3].parse::<usize>()) {
                                    (Ok(ln), Ok(col)) if ln >= 1 => {
                                        let lines: Vec<&[u8]> = data.split(|b| *b == b'\n').collect();
                                        if ln > lines.len() { return false; }
                                        let off: usize = lines[..ln - 1].iter().map(|x| x.len() + 1).sum::<usize>() + col;
                                        off < data.len()
                                    }
                                    _ => false,
                                }
                            };
                            let last_raw = items.last().copied().unwrap_or("");
                            let determined = strip(&xi) == strip(&bi)
                                && xi.last().map_or(false, |l| l.starts_with("err ") && (!l.starts_with("err eof") || (bres.split(" | ").last() == Some(last_raw) && before_end(last_raw))));
                            if !determined {
                                m.push("FAIL C06 a read error was swallowed: the reader failed but no I/O error was reported".into());
                            }
                        }
                        Some(k) => {
                            let strip = |v: &[String]| -> Vec<String> { v.iter().map(|s| strip_dat(s)).collect() };
                            if k > bi.len() || strip(&xi[..k]) != strip(&bi[..k]) { m.push(format!("FAIL C06 items before the read error differ from the fault-free run: {:?} vs {:?}", xi, bi)); }
                        }
                    }
                }
            }
            // C10: value API vs datum API
            if src == "b" && (api == "v1" || api.starts_with("r:v")) {
                let dapi = if api == "v1" { "d1".to_string() } else { api.replacen("r:v", "r:d", 1) };
                let dline = line.replacen(&format!(" {} ", api), &format!(" {} ", dapi), 1);
                let dres = crate::ops::exec(&dline);
                let di: Vec<String> = dres.split(" | ").map(|s| strip_dat(s)).collect();
                let vi: Vec<String> = items.iter().map(|s| s.to_string()).collect();
                if di != vi {
                    m.push(format!("FAIL C10 datum API disagrees with value API: {:?} vs {:?}", di, vi));
                    if api.starts_with("r:v") { m.push("FAIL C12 next_datum loop disagrees with next_value loop on the same input".into()); }
                }
                if api.starts_with("r:v") {
                    for alt in ["r:i", "r:p"] {
                        let aline = line.replacen(" r:v", &format!(" {}", alt), 1);
                        if crate::ops::exec(&aline) != res { m.push(format!("FAIL C12 iteration style {} disagrees with next_value loop", alt)); }
                    }
                    let jline = line.replacen(" r:v", " r:j", 1);
                    if crate::ops::exec(&jline) != dres { m.push("FAIL C12 datum_iter disagrees with next_datum loop".into()); }
                }
            }
            // C11: spans of every reachable sub-datum
            if (src == "b") && (api == "d1" || api.starts_with("r:d")) {
                let opts = parse_opts(ro);
                let mut p = lexpr::Parser::from_slice_custom(&data, opts);
                for _ in 0..64 {
                    match std::panic::catch_unwind(std::panic::AssertUnwindSafe(|| p.next_datum())) {
                        Ok(Ok(Some(dm))) => {
                            if nesting(dm.value()) < 60 { ref_walk(dm.as_ref(), &data, opts, None, &mut m, 0); }
                            if &Value::from(dm.clone()) != dm.value() { m.push("FAIL C10 Value::from(datum) differs from datum.value()".into()); }
                        }
                        _ => break,
                    }
                    if api == "d1" { break; }
                }
            }
        }
        "triv" => {
            let (a, b) = res.split_once(" || ").unwrap_or(("", ""));
            let strip = |x: &str| -> Vec<String> { x.split(" | ").map(strip_pos).collect() };
            // the plain text is the reference: it must itself be a sequence of values
            // (either text may be the reference: trivia must neither break a sequence that parses nor repair one that does not)
            let clean = |x: &str| !x.contains("err ") && !x.contains("panic");
            if (clean(a) || clean(b)) && strip(a) != strip(b) { m.push(format!("FAIL C12 trivia between tokens changed the result: {} vs {}", a, b)); }
        }
        "prefix" => {
            let data = unhex(t[4]);
            let k: usize = t[2].parse().unwrap();
            if k < data.len() && !res.starts_with("val ") {
                if lexpr::from_slice_custom(&data, parse_opts(t[1])).is_ok() {
                    let f: Vec<&str> = res.split_whitespace().collect();
                    let eof = f.len() >= 2 && f[1].starts_with("eof");
                    if !eof { m.push(format!("FAIL C19 proper prefix {:?} of parsable {:?} fails with a non-EOF error: {}", String::from_utf8_lossy(&data[..k]), String::from_utf8_lossy(&data), res)); }
                }
            }
            // the same clause for the other sources (a streaming caller reads from an io::Read)
            if k < data.len() && lexpr::from_slice_custom(&data, parse_opts(t[1])).is_ok() {
                let mut srcs = vec!["i1", "I3", "i0"];
                if std::str::from_utf8(&data[..k]).is_ok() { srcs.push("s"); }
                for src in srcs {
                    let r2 = crate::ops::exec(&format!("parse {} {} {} v1 {}", t[3], src, t[1], hex(&data[..k])));
                    if r2.starts_with("err ") && !r2.starts_with("err eof") {
                        m.push(format!("FAIL C19 proper prefix {:?} of parsable {:?} from source {} fails with a non-EOF error: {}", String::from_utf8_lossy(&data[..k]), String::from_utf8_lossy(&data), src, r2));
                    }
                    if strip_pos(&r2) != strip_pos(res) { m.push(format!("FAIL C06 prefix result differs between slice and source {}: {} vs {}", src, res, r2)); }
                }
            }
        }
        "opts" => {
            // the property's own statement about options: what the getters report is what the reader does, and a
            // setter changes only the option it names (compared with the result of the chain without its last call)
            let f: Vec<&str> = res.split_whitespace().collect();
            if f.len() == 3 && f[0] == "R" {
                if f[1] != f[2] { m.push(format!("FAIL C08 option getters {} disagree with the reader's behaviour {}", f[1], f[2])); }
                // `with_keyword_syntaxes` SETS the recognised spellings to exactly the given ones
                if t.len() > 3 && t[t.len() - 1].starts_with('K') {
                    let given = &t[t.len() - 1][1..];
                    let want: String = (0..3).map(|i| if given.contains(char::from(b'0' + i as u8)) { '1' } else { '0' }).collect();
                    if &f[1][..3] != want { m.push(format!("FAIL C08 with_keyword_syntaxes({}) left the keyword spellings at {} (expected exactly {})", given, &f[1][..3], want)); }
                }
                // the two presets every family uses by name are what the crate's constructors return
                if t.len() == 3 && ((t[2] == "elisp" && f[1] != R_ELISP) || (t[2] == "default" && f[1] != R_DEFAULT)) {
                    m.push(format!("FAIL C08 parse::Options::{}() is {} but the harness's constant for it is another option set", t[2], f[1]));
                    m.push(format!("FAIL C02 parse::Options::{}() is {} but the harness's constant for it is another option set", t[2], f[1]));
                }
                if t.len() > 3 {
                    let prev = crate::ops::exec(&t[..t.len() - 1].join(" "));
                    let pf: Vec<&str> = prev.split_whitespace().collect();
                    let last = t[t.len() - 1].as_bytes()[0];
                    let own: &[usize] = match last { b'k' | b'K' => &[0, 1, 2], b'n' => &[3], b't' => &[4], b'b' => &[5], b's' => &[6], b'c' => &[7], b'r' => &[8], _ => &[9] };
                    if pf.len() == 3 {
                        for i in 0..10 {
                            if !own.contains(&i) && pf[2].as_bytes()[i] != f[2].as_bytes()[i] {
                                m.push(format!("FAIL C08 builder call {} changed the reading of tokens governed by another option (digit {}: {} -> {})", t[t.len() - 1], i, pf[2], f[2]));
                            }
                        }
                    }
                }
            } else if f.len() == 2 && f[0] == "P" && t.len() > 3 {
                let prev = crate::ops::exec(&t[..t.len() - 1].join(" "));
                let pf: Vec<&str> = prev.split_whitespace().collect();
                let last = t[t.len() - 1].as_bytes()[0];
                // the nil digit is observed through the bool syntax as well (NilSyntax::False)
                let own: &[usize] = match last { b'k' => &[0], b'n' => &[1], b'o' => &[1, 2], b'v' => &[3], b'y' => &[4], b's' => &[5], _ => &[6] };
                if pf.len() == 2 {
                    for i in 0..7 {
                        if !own.contains(&i) && pf[1].as_bytes()[i] != f[1].as_bytes()[i] {
                            m.push(format!("FAIL C02 printer builder call {} changed an option it does not name (digit {}: {} -> {})", t[t.len() - 1], i, pf[1], f[1]));
                        }
                    }
                }
            }
        }
        "pp" | "ppe" => {
            if res.starts_with("val ") {
                let parts: Vec<&str> = res.split(" ; ").collect();
                let fast = t[2] == "1";
                let mut it = parts[0][4..].split_whitespace();
                let v = dec_value(&mut it);
                let p = if t[0] == "ppe" { crate::ops::pofe(t[1]) } else { pof(t[1]) };
                // (whatever the parser accepted must print to something it reads back: no guard on the nesting of the
                // value — an accepted value nested deeper than the limit is itself a violation)
                {
                    if !parts[2].starts_with("val ") {
                        // the class of the input, so that a recorded finding is keyed by what fails and not by a byte pattern
                        let text_in = unhex(t[3]);
                        let has_nil_token = text_in.windows(3).any(|w| w == b"nil");
                        let class = if enc_value(&v).split_whitespace().any(|tk| tk == "K2e") { " [value contains the keyword named .]" }
                            else if d(t[1], 3) == 0 && has_nil_token && parts[2].contains("recursionLimitExceeded") && nesting(&v) <= 127 { " [nil read as the empty list at the depth limit]" } else { "" };
                        m.push(format!("FAIL C13 accepted text prints as {:?} which is rejected: {}{}", String::from_utf8_lossy(&unhex(parts[1])), parts[2], class));
                    } else {
                        let mut it2 = parts[2][4..].split_whitespace();
                        let v2 = dec_value(&mut it2);
                        let want = fold(&p, t[1], &v);
                        if !values_match(&want, &v2, fast) {
                            m.push(format!("FAIL C13 parse-print-parse changed the value: {} -> {:?} -> {}", enc_value(&v), String::from_utf8_lossy(&unhex(parts[1])), enc_value(&v2)));
                        } else if v2 == want && parts[3] != parts[1] && want == v {
                            m.push("FAIL C13 printing the re-read value gives a different text (no fixed point)".into());
                        }
                    }
                }
            }
        }
        "list" => {
            let mut it = t[3..].iter().copied();
            let v = dec_value(&mut it);
            let _ = it.next();
            let key = dec_value(&mut it);
            let idx: usize = t[1].parse().unwrap();
            // reference model (xs, t)
            let mut xs: Vec<&Value> = Vec::new();
            let mut tail: &Value = &v;
            while let Value::Cons(c) = tail { xs.push(c.car()); tail = c.cdr(); }
            let xs_owned: Vec<Value> = xs.iter().map(|x| (*x).clone()).collect();
            if v.is_list() == v.is_dotted_list() { m.push("FAIL C15 is_list and is_dotted_list are not complementary".into()); }
            if v.is_list() != tail.is_null() { m.push("FAIL C15 is_list wrong".into()); }
            let want_tv: Option<&[Value]> = if tail.is_null() { Some(&xs_owned[..]) } else { None };
            let ok_tv = |got: Option<Vec<Value>>| match (got, want_tv) { (Some(g), Some(w)) => same_vec(&g, w), (None, None) => true, _ => false };
            if !ok_tv(v.to_vec()) { m.push("FAIL C15 Value::to_vec".into()); }
            if !ok_tv(v.to_ref_vec().map(|r| r.into_iter().cloned().collect::<Vec<_>>())) { m.push("FAIL C15 Value::to_ref_vec".into()); }
            if let Value::Cons(c) = &v {
                let (a, b) = c.to_vec();
                if !same_vec(&a, &xs_owned) || !same(&b, tail) { m.push("FAIL C15 Cons::to_vec".into()); }
                let (a, b) = c.clone().into_vec();
                if !same_vec(&a, &xs_owned) || !same(&b, tail) { m.push("FAIL C15 Cons::into_vec".into()); }
                let (rv, rt) = c.to_ref_vec();
                if rv.len() != xs.len() || !rv.iter().zip(xs.iter()).all(|(x, y)| std::ptr::eq(*x, *y)) || !std::ptr::eq(rt, tail) { m.push("FAIL C15 Cons::to_ref_vec".into()); }
                if c.iter().count() != xs.len() { m.push("FAIL C15 Cons::iter visits the wrong number of cells".into()); }
                let ii: Vec<(Value, Option<Value>)> = c.clone().into_iter().collect();
                let ok = ii.len() == xs.len() && ii.iter().enumerate().all(|(i, (x, r))| same(x, xs[i]) && (if i + 1 == xs.len() { same_opt(r.as_ref(), Some(tail)) } else { r.is_none() }));
                if !ok { m.push("FAIL C15 Cons::into_iter".into()); }
            }
            match v.list_iter() {
                Some(mut li) => {
                    let mut want: Vec<Option<&Value>> = xs.iter().map(|x| Some(*x)).collect();
                    if !tail.is_null() && v.is_cons() { want.push(None); want.push(Some(tail)); }
                    want.push(None); want.push(None);
                    let got: Vec<Option<&Value>> = (0..want.len()).map(|_| li.next()).collect();
                    if !got.iter().zip(want.iter()).all(|(a, b)| match (a, b) { (Some(x), Some(y)) => std::ptr::eq(*x, *y), (None, None) => true, _ => false }) { m.push("FAIL C15 list_iter".into()); }
                    if !(v.is_cons() || v.is_null()) { m.push("FAIL C15 list_iter on a non-list".into()); }
                }
                None => if v.is_cons() || v.is_null() { m.push("FAIL C15 list_iter returned None for a list".into()); }
            }
            let ptr_opt = |a: Option<&Value>, b: Option<&Value>| match (a, b) { (Some(x), Some(y)) => std::ptr::eq(x, y), (None, None) => true, _ => false };
            let want_get: Option<&Value> = match &v { Value::Vector(e) => e.get(idx), Value::Cons(_) => xs.get(idx).copied(), _ => None };
            if !ptr_opt(v.get(idx), want_get) { m.push(format!("FAIL C15 get({})", idx)); }
            if !same(&v[idx], want_get.unwrap_or(&Value::Nil)) { m.push(format!("FAIL C15 index[{}]", idx)); }
            if t[2] != "-" {
                let name = String::from_utf8(unhex(t[2])).unwrap();
                let want = if v.is_cons() { xs.iter().find_map(|e| match e { Value::Cons(inner) if inner.car().as_name() == Some(name.as_str()) => Some(inner.cdr()), _ => None }) } else { None };
                if !ptr_opt(v.get(name.as_str()), want) || !ptr_opt(v.get(&name), want) { m.push("FAIL C15 lookup by name".into()); }
                if !same(&v[name.as_str()], want.unwrap_or(&Value::Nil)) { m.push("FAIL C15 index by name".into()); }
            }
            let want = if v.is_cons() { xs.iter().find_map(|e| match e { Value::Cons(inner) if inner.car() == &key => Some(inner.cdr()), _ => None }) } else { None };
            if !ptr_opt(v.get(&key), want) { m.push("FAIL C15 lookup by value".into()); }
            // Clone and == (hand-written loops along the cdr chain in /repo): against an independent reference
            let c = v.clone();
            if !same(&c, &v) { m.push("FAIL C15 Value::clone differs from the original".into()); }
            if (c == v) != ref_eq(&c, &v) || (v == key) != ref_eq(&v, &key) || (key == v) != ref_eq(&key, &v) {
                m.push("FAIL C15 Value == Value disagrees with structural equality".into());
            }
            // near misses: same elements with a different tail, one element fewer, one element changed
            if let Value::Cons(_) = &v {
                let mut variants: Vec<Value> = Vec::new();
                variants.push(Value::append(xs_owned.clone(), Value::symbol("other-tail")));
                variants.push(Value::append(xs_owned[..xs_owned.len() - 1].to_vec(), tail.clone()));
                let mut ch = xs_owned.clone();
                let i = idx % ch.len();
                ch[i] = Value::list(vec![ch[i].clone()]);
                variants.push(Value::append(ch, tail.clone()));
                let mut longer = xs_owned.clone(); longer.push(Value::Null);
                variants.push(Value::append(longer, tail.clone()));
                for w in variants.iter() {
                    if (v == *w) != ref_eq(&v, w) || (*w == v) != ref_eq(w, &v) { m.push("FAIL C15 Value == Value disagrees with structural equality on a near miss".into()); }
                }
            }
        }
        "acc" => {
            let f: Vec<&str> = res.split_whitespace().collect();
            if f[0].matches('1').count() != 1 { m.push(format!("FAIL C20 not exactly one kind: {}", f[0])); }
            if f[0] != f[1] { m.push("FAIL C20 is_x disagrees with as_x().is_some()".into()); }
            let mut it = t[1..].iter().copied();
            let v = dec_value(&mut it);
            let name_some = v.as_name().is_some();
            if name_some != (v.is_string() || v.is_symbol() || v.is_keyword()) { m.push("FAIL C20 as_name".into()); }
            if v.is_i64() != v.as_i64().is_some() || v.is_u64() != v.as_u64().is_some() || (v.is_f64() && (v.as_i64().is_some() || v.as_u64().is_some())) { m.push("FAIL C20 number predicates".into()); }
            // as_f64: a float unchanged, an integer converted to the nearest double (Rust's `as f64` rounds to nearest-even)
            let nearest = match (v.as_u64(), v.as_i64()) { (Some(n), _) => Some(n as f64), (None, Some(n)) => Some(n as f64), _ => None };
            if let Some(want) = nearest {
                if v.as_f64().map(f64::to_bits) != Some(want.to_bits()) { m.push(format!("FAIL C20 as_f64 of the integer {} is {:?}, the nearest double is {:e}", t[1], v.as_f64(), want)); }
            }
        }
        "from" => {
            let p = parse_prim(t[1]);
            let v = dec_value(&mut res.split_whitespace());
            let ok = match p {
                Prim::I(_, n) => v.as_i64() == Some(n) && v.as_u64() == (if n >= 0 { Some(n as u64) } else { None }) && v.as_f64() == Some(n as f64) && !v.is_f64(),
                Prim::U(_, n) => v.as_u64() == Some(n) && v.as_i64() == (if n <= i64::MAX as u64 { Some(n as i64) } else { None }) && v.as_f64() == Some(n as f64) && !v.is_f64(),
                Prim::F32(f) => v.as_i64().is_none() && v.as_u64().is_none() && v.is_f64() && (v.as_f64().map(|x| x.to_bits()) == Some((f as f64).to_bits()) || f.is_nan()),
                // (the result line spells every NaN `Dnan`: the payload of a NaN is not visible here)
                Prim::F64(f) => v.as_i64().is_none() && v.as_u64().is_none() && v.is_f64() && (v.as_f64().map(|x| x.to_bits()) == Some(f.to_bits()) || (f.is_nan() && v.as_f64().map_or(false, f64::is_nan))),
                Prim::B(b) => v.as_bool() == Some(b),
                Prim::S(s) => v.as_str() == Some(s.as_str()),
                Prim::C(c) => v.as_char() == Some(c),
                Prim::Y(b) => v.as_bytes() == Some(&b[..]),
            };
            if !ok { m.push(format!("FAIL C20 conversion does not preserve the payload: {}", res)); }
        }
        "cmp" => {
            let p = parse_prim(t[1]);
            let mut it = t[2..].iter().copied();
            let v = dec_value(&mut it);
            let want: Option<bool> = match p {
                Prim::I(_, n) => Some(v.as_i64() == Some(n)),
                Prim::U(_, n) => Some(v.as_u64() == Some(n)),
                Prim::F32(f) => Some(v.as_f64().map_or(false, |x| x == f as f64)),
                Prim::F64(f) => Some(v.as_f64().map_or(false, |x| x == f)),
                Prim::B(b) => Some(v.as_bool() == Some(b)),
                Prim::S(s) => Some(v.as_str() == Some(s.as_str())),
                _ => None,
            };
            if let Some(w) = want {
                let c = if w { '1' } else { '0' };
                if !res.chars().all(|x| x == c) { m.push(format!("FAIL C20 comparison with primitive: got {} expected all {}", res, c)); }
            }
        }
        #[cfg(feature = "full")]
        "ser" | "de" | "deser" => crate::serde_ops::check(&t, res, &mut m),
        #[cfg(feature = "full")]
        "serx" => m.extend(crate::serde_extra::run(t[1].parse().unwrap_or(1))),
        "clone" | "dclone" | "consmut" => crate::cons_ops::check(&t, res, &mut m),
        _ => {}
    }
    m
}

/// `depth <op> <shape> <n>`: one operation on an n-element list, in a thread with a 2 MiB stack.
/// Exit code 0 = completed; a stack overflow kills the process with SIGSEGV/SIGABRT.
pub fn depth_main(args: &[String]) -> i32 {
    let op = args[0].clone();
    let shape = args[1].clone();
    let n: usize = args[2].parse().unwrap();
    let h = std::thread::Builder::new().stack_size(2 * 1024 * 1024).spawn(move || {
        let elem = |i: usize| -> Value {
            match shape.as_str() { "nils" => Value::Nil, "nulls" => Value::Null, "strings" => Value::string("s"), _ => Value::from((i % 10) as u8) }
        };
        let build = |n: usize| -> Value {
            let tail = if shape == "dotted" { Value::from(7) } else { Value::Null };
            Value::append((0..n).map(|i| elem(i)), tail)
        };
        let text = |n: usize| -> String {
            let mut s = String::with_capacity(4 * n + 8);
            if shape == "dotchain" {
                // fully dotted notation: nesting, not length; must be rejected, not overflow the stack
                for i in 0..n { s.push('('); s.push((b'0' + (i % 10) as u8) as char); s.push_str(" . "); }
                s.push_str("()");
                for _ in 0..n { s.push(')'); }
                return s;
            }
            s.push('(');
            for i in 0..n { if i > 0 { s.push(' '); } match shape.as_str() { "nils" => s.push_str("#nil"), "nulls" => s.push_str("()"), "strings" => s.push_str("\"s\""), _ => s.push((b'0' + (i % 10) as u8) as char) } }
            if shape == "dotted" { s.push_str(" . 7"); }
            s.push(')');
            s
        };
        if shape == "dotchain" {
            // any result is fine as long as the call returns
            let t = text(n);
            match op.as_str() {
                "parse" => { let _ = lexpr::from_reader(t.as_bytes()).map(std::mem::forget); }
                "parse_str" => { let _ = lexpr::from_str(&t).map(std::mem::forget); }
                "parse_datum" => { let _ = lexpr::datum::from_reader(t.as_bytes()).map(std::mem::forget); }
                _ => {}
            }
            return;
        }
        match op.as_str() {
            "build" => { let v = build(n); std::mem::forget(v); }
            "drop" => { let v = build(n); drop(v); }
            "parse_drop" => { let t = text(n); let v = lexpr::from_reader(t.as_bytes()).unwrap(); drop(v); }
            "into_iter_drop" => { let v = build(n); if let Value::Cons(c) = v { let mut it = c.into_iter(); let _ = it.next(); drop(it); } }
            "parse" => { let t = text(n); let v = lexpr::from_reader(t.as_bytes()).unwrap(); std::mem::forget(v); }
            "parse_str" => { let t = text(n); let v = lexpr::from_str(&t).unwrap(); std::mem::forget(v); }
            "parse_datum" => { let t = text(n); let v = lexpr::datum::from_reader(t.as_bytes()).unwrap(); std::mem::forget(v); }
            "print" => { let v = build(n); let s = lexpr::to_string(&v).unwrap(); assert!(s.len() >= 2 * n); std::mem::forget(v); }
            "display" => { let v = build(n); let s = format!("{}", v); assert!(s.len() >= 2 * n); std::mem::forget(v); }
            "to_vec" => { let v = build(n); assert_eq!(v.as_cons().unwrap().to_vec().0.len(), n); let _ = v.to_vec(); let _ = v.to_ref_vec(); let _ = v.as_cons().unwrap().to_ref_vec(); std::mem::forget(v); }
            "into_vec" => { let v = build(n); if let Value::Cons(c) = v { let (xs, t) = c.into_vec(); assert_eq!(xs.len(), n); std::mem::forget(xs); std::mem::forget(t); } }
            "iter" => { let v = build(n); assert_eq!(v.as_cons().unwrap().iter().count(), n); assert!(v.list_iter().unwrap().count() >= n); std::mem::forget(v); }
            "into_iter" => { let v = build(n); if let Value::Cons(c) = v { assert_eq!(c.into_iter().count(), n); } }
            // a long list whose text ends in an error, read through the location-tracking API: what was built so
            // far (values and span information) is dropped inside the failing call
            "datum_fail" => { let mut t = text(n); t.pop(); let r = lexpr::datum::from_reader(t.as_bytes()); assert!(r.is_err()); }
            "datum_fail_bracket" => { let mut t = text(n); t.pop(); t.push(']'); let r = lexpr::datum::from_reader(t.as_bytes()); assert!(r.is_err()); }
            "datum_fail_token" => { let mut t = text(n); t.pop(); t.push_str(" #z)"); let r = lexpr::datum::from_reader(t.as_bytes()); assert!(r.is_err()); }
            "value_fail" => { let mut t = text(n); t.pop(); let r = lexpr::from_reader(t.as_bytes()); assert!(r.is_err()); }
            "datum_iter_fail" => { let mut t = text(n); t.pop(); let mut p = lexpr::Parser::from_reader(t.as_bytes()); let items: Vec<_> = p.datum_iter().take(3).collect(); assert!(items.len() >= 1 && items[0].is_err()); }
            // an owned datum made from the rest of a list (its span information starts in the middle of the chain)
            "datum_cdr_owned" => { let t = text(n); let d = lexpr::datum::from_reader(t.as_bytes()).unwrap(); let (_, rest) = d.as_ref().as_pair().unwrap(); let owned: lexpr::Datum = rest.into(); let again = owned.clone(); assert!(owned == again); drop(owned); drop(again); std::mem::forget(d); }
            // association lists: a key found late, and a key that is absent (by name and by value)
            "alist" => {
                let v = Value::append((0..n).map(|i| if i % 7 == 3 && i + 1 != n { elem(i) } else { Value::cons(Value::symbol(if i + 1 == n { "last" } else { "k" }), elem(i)) }), Value::Null);
                assert!(v.get("last").is_some()); assert!(v.get("absent").is_none());
                assert!(v.get(&Value::symbol("last")).is_some()); assert!(v.get(&Value::from(5)).is_none());
                let _ = &v["absent"]; let _ = &v[&Value::symbol("last")];
                std::mem::forget(v);
            }
            "index" => { let v = build(n); assert!(v.get(n - 1).is_some()); assert!(v.get(n).is_none()); let _ = &v[n / 2]; let _ = v.get("x"); let _ = v.get(&Value::from(1)); std::mem::forget(v); }
            "is_list" => { let v = build(n); let _ = v.is_list(); let _ = v.is_dotted_list(); std::mem::forget(v); }
            "clone" => { let v = build(n); let w = v.clone(); std::mem::forget(v); std::mem::forget(w); }
            "eq" => { let v = build(n); let w = build(n); assert!(v == w); std::mem::forget(v); std::mem::forget(w); }
            "datum_clone" => { let t = text(n); let d = lexpr::datum::from_reader(t.as_bytes()).unwrap(); let e = d.clone(); std::mem::forget(d); std::mem::forget(e); }
            "datum_eq" => { let t = text(n); let d = lexpr::datum::from_reader(t.as_bytes()).unwrap(); let e = lexpr::datum::from_reader(t.as_bytes()).unwrap(); assert!(d == e); std::mem::forget(d); std::mem::forget(e); }
            "datum_drop" => { let t = text(n); let d = lexpr::datum::from_reader(t.as_bytes()).unwrap(); drop(d); }
            "datum_iter" => { let t = text(n); let d = lexpr::datum::from_reader(t.as_bytes()).unwrap(); assert!(d.list_iter().unwrap().count() >= n); std::mem::forget(d); }
            #[cfg(feature = "full")]
            "to_value" => { let xs: Vec<u8> = (0..n).map(|i| (i % 10) as u8).collect(); let v = serde_lexpr::to_value(&xs).unwrap(); assert!(v.is_list()); std::mem::forget(v); }
            // conversions that do not build a Vec: a long list in an alist entry the target struct does not
            // know (skipped through IgnoredAny), IgnoredAny itself, and a self-describing target (untagged enum)
            // clone_from between two long lists (what Vec<Value>::clone_from and friends forward to)
            "clone_from" => {
                let (mut a, b) = (build(n), build(n + 1));
                a.clone_from(&b);
                assert!(a == b);
                let mut va = vec![build(n), Value::Null];
                let vb = vec![build(n + 2), build(3)];
                va.clone_from(&vb);
                assert!(va == vb);
                std::mem::forget(a); std::mem::forget(b); std::mem::forget(va); std::mem::forget(vb);
            }
            // a panic that unwinds through a frame owning a long list: the list is dropped during unwinding and the
            // panic stays recoverable
            "drop_unwinding" => {
                let r = std::panic::catch_unwind(|| { let v = build(n); if n > 0 { panic!("unwind past a long list"); } std::mem::forget(v); });
                assert!(r.is_err());
                let t2 = text(n);
                let r = std::panic::catch_unwind(move || { let d = lexpr::datum::from_reader(t2.as_bytes()).unwrap(); if n > 0 { panic!("unwind past a long datum"); } std::mem::forget(d); });
                assert!(r.is_err());
            }
            #[cfg(feature = "full")]
            "from_value_skipped" => {
                #[derive(serde_derive::Deserialize)] struct Known { a: u8 }
                let v = build(n);
                let al = Value::list(vec![Value::cons(Value::symbol("a"), 1), Value::cons(Value::symbol("extra"), v)]);
                let k: Known = serde_lexpr::from_value(&al).unwrap(); assert_eq!(k.a, 1); std::mem::forget(al);
            }
            #[cfg(feature = "full")]
            "from_value_ignored" => { let v = build(n); let _x: serde::de::IgnoredAny = serde_lexpr::from_value(&v).unwrap(); std::mem::forget(v); }
            #[cfg(feature = "full")]
            "from_value_untagged" => {
                #[derive(serde_derive::Deserialize)] #[serde(untagged)] #[allow(dead_code)] enum U { Nums(Vec<u32>), Name(String) }
                let v = build(n); let r: Result<U, _> = serde_lexpr::from_value(&v); let _ = r.is_ok(); std::mem::forget(v);
            }
            #[cfg(feature = "full")]
            "from_value" => { let v = build(n); let xs: Vec<u8> = serde_lexpr::from_value(&v).unwrap(); assert_eq!(xs.len(), n); std::mem::forget(v); }
            _ => panic!("unknown depth op"),
        }
    }).unwrap();
    match h.join() { Ok(()) => 0, Err(_) => 3 }
}
